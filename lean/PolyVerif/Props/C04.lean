/-
  C04 — PLY write/read round trip, three encodings; the header describes the body.

  Theorems about `PolyVerif.Model.Ply` (hand model of /repo/formats/ply, tied to the code byte-for-byte by the
  `c04` stream on every run).  Scalar coding is the parameter bundle `Coding α`; every theorem holds for EVERY
  coding (no law of the bundle is needed for the statements below: they are phrased with `quantBin`, the
  decode∘encode image of the stored type).

  Proved here: wire layer per field in both byte orders, for ANY header layout (offset lemma); header ↔ body
  agreement (counts, schema, byte sizes); the record-layer statement for scalar properties in any header order;
  the known-finding counterexample (8-bit scalar property: binary normalises, ASCII does not).
  NOT proved (kept as `def … : Prop`, listed as residue): the composed whole-file round trip.
-/
import PolyVerif.Model.Ply
import PolyVerif.Lemmas.Ply

namespace PolyVerif
namespace C04
open Ply PlyLemmas

variable {α : Type}

/-- A small well-formed mesh for the examples.  NOTE: `Coding α` carries NO laws; every general theorem below holds for an arbitrary
coding (even `f32 := fun _ => 0`) and speaks about `quantBin` = decode∘encode of THAT coding.  Precision content enters
only through `CodingLaws` (end of file).  The concrete `PlyLemmas.toyCoding` (over `Nat`) instantiates hypotheses in examples. -/
def toyMesh : MeshVal Nat :=
  ⟨.triangle, [0, 1, 2], [⟨3, positionAttr, [[1, 2, 3], [4, 5, 6], [7, 8, 9]]⟩, ⟨2, texCoordAttr, [[1, 2], [3, 4], [5, 6]]⟩], none⟩

/-! ### wire layer: fixed-width fields, real endianness

`ply_put_get_32/64`, `ply_wire_roundtrip_field` are helpers (subsumed by `ply_wire_roundtrip_record`). -/

/-- a 32-bit field written in either byte order is read back unchanged, whatever follows it -/
theorem ply_put_get_32 (e : Endian) (w : UInt32) (rest : Bytes) : get32 e (put32 e w ++ rest) = some w :=
  put32_get32 e w rest

theorem ply_put_get_64 (e : Endian) (w : UInt64) (rest : Bytes) : get64 e (put64 e w ++ rest) = some w :=
  put64_get64 e w rest

example : get32 .be (put32 .be 0x01020304 ++ [9]) = some 0x01020304 := ply_put_get_32 _ _ _
example : put32 .le 0x01020304 = [4, 3, 2, 1] ∧ put32 .be 0x01020304 = [1, 2, 3, 4] := by decide

/-- `ply_wire_roundtrip`, one field: a scalar of any implemented type written at any position of a binary body
decodes to the stored-precision image of the value, in both byte orders. -/
theorem ply_wire_roundtrip_field (c : Coding α) (e : Endian) (dim : Nat) (t : SType) (v : α) (bs pre post : Bytes)
    (h : encScalarBin c e t v = .ok bs) :
    decScalarBin c e dim t (pre ++ bs ++ post) pre.length = .ok (quantBin c dim t v) :=
  dec_enc_scalar c e dim t v bs pre post h

example : encScalarBin toyCoding .be .float 258 = .ok [0, 0, 1, 2] := by decide

/-- `ply_wire_roundtrip`, one vertex record, ANY header layout: decoding at the byte offset computed from header
order (the sum of the sizes of the properties before it) yields the stored-precision image of the `i`-th value. -/
theorem ply_wire_roundtrip_record (c : Coding α) (e : Endian) (dim : Nat)
    (tys : List SType) (vals : List α) (rec pre post : Bytes) (i : Nat) (hi : i < tys.length)
    (hv : vals.length = tys.length) (henc : encRecordBin c e tys vals = .ok rec) :
    decScalarBin c e dim tys[i] (pre ++ rec ++ post) (pre.length + offsetOf tys i)
      = .ok (quantBin c dim tys[i] (vals[i]'(by omega))) :=
  field_at_offset c e dim tys vals rec pre post i hi hv henc

/-- the hypotheses are satisfiable: a record with a uchar, a float and a double field (guard `vals.length = tys.length`:
`encRecordBin` zips, so a shorter value list would silently truncate — well-formed meshes give equal lengths,
`vertexRecord_length`) -/
example : encRecordBin toyCoding .le [.uchar, .float, .double] [7, 258, 3] = .ok [7, 2, 1, 0, 0, 3, 0, 0, 0, 0, 0, 0, 0] := by decide
example : decScalarBin toyCoding .le 1 .float ([7, 2, 1, 0, 0, 3, 0, 0, 0, 0, 0, 0, 0] : Bytes) (offsetOf [.uchar, .float, .double] 1)
    = .ok 258 := by decide

/-! ### the header describes the body -/

/-- WHAT `writeBody` EMITS (binary encodings): for every well-formed mesh and every writer configuration the body is
exactly one record of Σ size(header property types) bytes per vertex followed, for triangle meshes, by one record of
13 (+ 25 with per-corner texture coordinates) bytes per triangle. -/
theorem ply_body_length_binary (c : Coding α) (cfg : WriterCfg) (m : MeshVal α) (body : Bytes)
    (hf : cfg.format ≠ .ascii) (hwf : m.WF = true) (h : writeBody c cfg m = .ok body) :
    body.length = m.attrLen * ((writerTypes (selectWriters cfg m)).map SType.size).sum
      + (if m.topo = .triangle then triCount m * (13 + (if hasTexCoord m then 25 else 0)) else 0) := by
  simpa [faceSize] using writeBody_binary_length c cfg m body hf hwf h

/-- THE HEADER DESCRIBES THE BODY THAT FOLLOWS (binary encodings): what the header `MeshWriter.Write` emits declares —
element counts × (sum of the sizes of the declared property types; for faces: count field + 3 indices, + count field +
6 texture coordinates) — is exactly the length of the body `MeshWriter.Write` then writes. -/
theorem ply_header_describes_body_binary (c : Coding α) (cfg : WriterCfg) (m : MeshVal α) (body : Bytes)
    (hf : cfg.format ≠ .ascii) (hwf : m.WF = true) (h : writeBody c cfg m = .ok body) :
    describedSize (writeHeader cfg m) = some body.length :=
  writeHeader_describes_binary_body c cfg m body hf hwf h

example : toyMesh.WF = true := by decide
example : ∃ body, writeBody toyCoding (defaultWriter .be) toyMesh = .ok body ∧ body.length = 3 * 12 + 1 * 38 :=
  ⟨_, rfl, by decide⟩

/-! The next two are HELPERS: they only unfold `writeHeader` (shape of the header value) and relate two model
functions; the clause itself is `ply_body_length_binary` / `ply_header_describes_body_binary`. -/

/-- element counts: the vertex element declares `AttributeLength()` records, the face element (triangle meshes
only) `len(indices)/3`; the property list of the vertex element is the concatenation of the properties of exactly
the writers that emit the body, each with the writer's type. -/
theorem ply_header_shape (cfg : WriterCfg) (m : MeshVal α) :
    (writeHeader cfg m).format = cfg.format ∧
    (writeHeader cfg m).elements.head? =
      some ⟨nm "vertex", m.attrLen, ((selectWriters cfg m).map WProp.props).flatten⟩ ∧
    (m.topo = .triangle → (writeHeader cfg m).elements.tail = [⟨nm "face", triCount m, faceProps m⟩]) ∧
    (m.topo ≠ .triangle → (writeHeader cfg m).elements.tail = []) := by
  refine ⟨rfl, by simp [writeHeader], ?_, ?_⟩ <;> intro h <;> simp [writeHeader, h]

/-- schema: the types used to encode a vertex record are, position by position, the types of the header's
vertex properties -/
theorem ply_header_schema (ws : List WProp) :
    ((ws.map WProp.props).flatten).map (fun p => match p with | .scalar _ t => some t | .list _ _ _ => none)
      = (writerTypes ws).map some := by
  induction ws with
  | nil => simp [writerTypes]
  | cons w ws ih =>
    simp only [writerTypes, List.map_cons, List.flatten_cons, List.map_append] at ih ⊢
    rw [ih]
    simp [WProp.props, Function.comp_def]

/-- byte sizes: every binary vertex record occupies exactly the sum of the sizes of the header's property types -/
theorem ply_header_describes_body_record_size (c : Coding α) (e : Endian) (tys : List SType) (vals : List α) (rec : Bytes)
    (hv : vals.length = tys.length) (h : encRecordBin c e tys vals = .ok rec) :
    rec.length = (tys.map SType.size).sum :=
  encRecordBin_length c e tys vals rec hv h

/-- byte sizes: a binary face record is count byte + 3 int32 (+ count byte + 4 bytes per texture coordinate) -/
theorem ply_header_describes_body_face_size (c : Coding α) (e : Endian) (f : WFace α) :
    (encFaceBin c e f).length = 13 + (match f.uv with | none => 0 | some uv => 1 + 4 * uv.length) := by
  obtain ⟨⟨i0, i1, i2⟩, uv⟩ := f
  cases uv with
  | none => simp [encFaceBin, put32_length]
  | some uv =>
    simp only [encFaceBin, List.length_append, put32_length, List.length_cons, List.length_nil]
    have : ((uv.map (fun v => put32 e (c.f32 v))).flatten).length = 4 * uv.length := by
      induction uv with
      | nil => simp
      | cons x xs ih => simp [put32_length, ih]; omega
    rw [this]; try omega

/-! ### record layer: scalar (float1) properties, any header order -/

/-- A scalar property reader built from the header finds its property wherever it sits, and decodes from the
written record the stored-precision image of exactly that property's value (binary, both byte orders). -/
theorem ply_record_roundtrip_scalar (c : Coding α) (e : Endian) (attr name : Bytes)
    (props : List (Bytes × SType)) (vals : List α) (rec post : Bytes) (i : Nat) (hi : i < props.length)
    (hname : props[i].1 = name) (hfirst : ∀ j (hj : j < i), (props[j]'(by omega)).1 ≠ name)
    (hv : vals.length = props.length) (henc : encRecordBin c e (props.map (·.2)) vals = .ok rec) :
    ∃ b, buildV1 true props attr name = some b ∧
      b.readBin c e (rec ++ post) = .ok [quantBin c 1 props[i].2 (vals[i]'(by omega))] := by
  refine ⟨_, buildV1_spec true attr name props i hi hname hfirst, ?_⟩
  have h := field_at_offset c e 1 (props.map (·.2)) vals rec [] post i (by simpa using hi) (by simpa using hv) henc
  simp only [List.nil_append, List.length_nil, Nat.zero_add, List.getElem_map] at h
  simp [Built.readBin, locOf_binary, h, pure, Except.pure, bind, Except.bind]

/-- instance: header `y double, q uchar, x float`, record (3, 7, 258): the reader for `x` sits at offset 9 and reads 258 -/
example : ∃ b, buildV1 true [(nm "y", .double), (nm "q", .uchar), (nm "x", .float)] (nm "x") (nm "x") = some b ∧
    b.readBin toyCoding .le [3, 0, 0, 0, 0, 0, 0, 0, 7, 2, 1, 0, 0] = .ok [258] := ⟨_, rfl, by decide⟩

example : ∃ b, buildV1 true [(nm "y", .double), (nm "q", .uchar), (nm "x", .float)] (nm "x") (nm "x") = some b ∧ b.offs = [9] :=
  ⟨_, buildV1_spec true _ _ _ 2 (by decide) (by decide) (by decide), by decide⟩

/-! ### record layer: vector properties (x y z, colours, …), any header order -/

/-- THE VECTOR CLAIM SCAN, any order of the header's properties: when component `k` of a 2/3/4-vector reader is the
header property at position `idx[k]` and all components have one scalar type, the reader is built with that type and
the location of component `k` is the sum of the strides of the properties before position `idx[k]` in HEADER order
(binary: byte offsets; ASCII: columns).  (Guard: one type per group — with mixed types the reader is NOT built, see C08
`ply_mixed_type_group_not_claimed`.) -/
theorem ply_vector_reader_offsets (binary : Bool) (props : List (Bytes × SType)) (attr : Bytes) (names : List Bytes)
    (hn : names.Nodup) (hne : names ≠ []) (hnd : (props.map (·.1)).Nodup) (t : SType) (idx : List Nat)
    (hlen : idx.length = names.length)
    (hidx : ∀ k (hk : k < names.length), ∃ hi : idx[k]'(by omega) < props.length, props[idx[k]'(by omega)] = (names[k], t)) :
    buildVec binary props attr names = some ⟨attr, names, idx.map (locOf binary props), some t⟩ :=
  buildVec_spec binary props attr names hn hne hnd t idx hlen hidx

example : buildVec true [(nm "z", .float), (nm "q", .uchar), (nm "x", .float), (nm "y", .float)] positionAttr
    [nm "x", nm "y", nm "z"] = some ⟨positionAttr, [nm "x", nm "y", nm "z"], [5, 9, 0], some .float⟩ := by decide

/-! ### known finding: 8-bit scalar properties (reader_vector1.go:38-57) -/

/-- ASCII: the scalar reader's type is never assigned, so the parsed token is stored as is … -/
theorem ply_ascii_scalar_reads_raw (c : Coding α) (attr name : Bytes) (props : List (Bytes × SType)) (b : Built)
    (toks : List Bytes) (hb : buildV1 false props attr name = some b) :
    b.readAscii c toks = b.offs.mapM (fun o => match toks[o]? with
      | none => .error .panic
      | some t => match c.parseF t with | none => .error .err | some v => .ok v) := by
  have hty := buildV1_ascii_ty attr name props b hb
  simp [Built.readAscii, hty]
  rfl

/-- … while the binary reader of the same `uchar` property divides by 255.  Counterexample to "the three encodings
decode to the same mesh" on the unchanged tree: for the one-property header `property uchar q` and the stored byte
`k`, ASCII yields `parseF "k"` and binary yields `div255 (ofInt k)`. -/
theorem ply_encodings_disagree_uchar_scalar (c : Coding α) (e : Endian) (q : Bytes) (k : UInt8) (x : α)
    (hparse : c.parseF (showNat k.toNat) = some x) :
    ∃ ba bb, buildV1 false [(q, .uchar)] q q = some ba ∧ buildV1 true [(q, .uchar)] q q = some bb ∧
      ba.readAscii c [showNat k.toNat] = .ok [x] ∧
      bb.readBin c e [k] = .ok [c.div255 (c.ofInt k.toNat)] ∧
      (x ≠ c.div255 (c.ofInt k.toNat) → ba.readAscii c [showNat k.toNat] ≠ bb.readBin c e [k]) := by
  refine ⟨⟨q, [q], [0], none⟩, ⟨q, [q], [0], some .uchar⟩, by simp [buildV1, buildV1.go], by simp [buildV1, buildV1.go], ?_, ?_, ?_⟩
  · simp [Built.readAscii, hparse, pure, Except.pure, bind, Except.bind]
  · simp [Built.readBin, decScalarBin, Coding.norm8, pure, Except.pure, bind, Except.bind]
  · intro hne
    simp [Built.readAscii, Built.readBin, decScalarBin, Coding.norm8, hparse, pure, Except.pure, bind, Except.bind, hne]

/-- … a real counterexample: with the concrete coding and the stored byte 255, the ASCII file `255` loads as 255 and
the binary file `0xFF` as 1 — the two encodings of one mesh do NOT decode to the same result -/
theorem ply_encodings_disagree_uchar_scalar_concrete :
    ∃ ba bb, buildV1 false [(nm "q", .uchar)] (nm "q") (nm "q") = some ba ∧ buildV1 true [(nm "q", .uchar)] (nm "q") (nm "q") = some bb ∧
      ba.readAscii toyCoding [showNat 255] = .ok [255] ∧ bb.readBin toyCoding .le [255] = .ok [1] ∧
      ba.readAscii toyCoding [showNat 255] ≠ bb.readBin toyCoding .le [255] :=
  ⟨_, _, rfl, rfl, by decide, by decide, by decide⟩

/-! ### statements kept at full strength, not proved (residue) -/

/-- the whole-file round trip: every well-formed mesh written with any configuration that stores at least one
property loads back to a mesh satisfying `RoundTrips` (the predicate the `c04.holds.roundtrip` oracle evaluates on
the implementation's output on every run).  False as it stands for an 8-bit scalar writer in ASCII
(`ply_encodings_disagree_uchar_scalar`); `ply_roundtrip_partial_stmt` excludes that case. -/
def ply_roundtrip_full [BEq α] (c : Coding α) : Prop :=
  ∀ (cfg : WriterCfg) (m : MeshVal α) (bytes : Bytes), m.WF = true → writeMesh c cfg m = .ok bytes →
    (m.attrLen = 0 ∨ selectWriters cfg m ≠ []) →
    ∃ back, readMesh c defaultReader bytes = .ok back ∧ RoundTrips c cfg m back = true

def ply_roundtrip_partial_stmt [BEq α] (c : Coding α) : Prop :=
  ∀ (cfg : WriterCfg) (m : MeshVal α) (bytes : Bytes), m.WF = true → writeMesh c cfg m = .ok bytes →
    (m.attrLen = 0 ∨ selectWriters cfg m ≠ []) →
    ¬ (cfg.format = .ascii ∧ ∃ w ∈ selectWriters cfg m, w.dim = 1 ∧ w.ty = .uchar) →
    ∃ back, readMesh c defaultReader bytes = .ok back ∧ RoundTrips c cfg m back = true

/-- ASCII, little-endian and big-endian files of one mesh load to the same mesh (values printable exactly) -/
def ply_encodings_agree_full (c : Coding α) (sameMesh : MeshVal α → MeshVal α → Prop) : Prop :=
  ∀ (props : List WProp) (wu : Bool) (m : MeshVal α) (ba bl bb : Bytes), m.WF = true →
    writeMesh c ⟨.ascii, props, wu⟩ m = .ok ba → writeMesh c ⟨.le, props, wu⟩ m = .ok bl →
    writeMesh c ⟨.be, props, wu⟩ m = .ok bb →
    ∃ ma ml mb, readMesh c defaultReader ba = .ok ma ∧ readMesh c defaultReader bl = .ok ml ∧
      readMesh c defaultReader bb = .ok mb ∧ sameMesh ma ml ∧ sameMesh ml mb

/-! ### precision content: a small law bundle -/

/-- the laws a faithful coding satisfies: float32 narrowing `q32`, 8-bit quantisation `q8`, exact doubles and exact
32-bit integers.  (Go's `float32(·)`, `math.Round(clamp·255)/255`, `math.Float64bits` satisfy them; that the driver's
`Coding Float` instance computes the same functions is checked by the correspondence, not proved.) -/
structure CodingLaws (c : Coding α) where
  q32 : α → α
  q8 : α → α
  unf32_f32 : ∀ x, c.unf32 (c.f32 x) = q32 x
  unf64_f64 : ∀ x, c.unf64 (c.f64 x) = x
  u8_norm : ∀ x, c.div255 (c.ofInt (c.u8 x).toNat) = q8 x

/-- with the laws, the stored-precision image is what the property names: float32 rounding for `float`, the value itself
for `double`, `round(clamp v·255)/255` for 8-bit colour (3- and 4-vectors, scalars) -/
theorem ply_quant_is_stored_precision (c : Coding α) (L : CodingLaws c) (v : α) (dim : Nat) (hdim : dim ≠ 2) :
    quantBin c dim .float v = L.q32 v ∧ quantBin c dim .double v = v ∧ quantBin c dim .uchar v = L.q8 v := by
  simp [quantBin, L.unf32_f32, L.unf64_f64, Coding.norm8, hdim, L.u8_norm]

end C04
end PolyVerif
