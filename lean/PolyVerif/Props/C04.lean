/-
  C04 — PLY write/read round trip, three encodings; the header describes the body.
  Theorems about `PolyVerif.Model.Ply` (hand model of /repo/formats/ply, tied to the code by the c04 streams).
-/
import PolyVerif.Model.Ply

namespace PolyVerif
namespace C04
open Ply

/-! ### wire layer: fixed-width fields, both byte orders -/

theorem byteOf_toNat (n k : Nat) : (byteOf n k).toNat = (n / 256 ^ k) % 256 := by
  simp [byteOf]

theorem put32_get32 (e : Endian) (w : UInt32) (rest : Bytes) : get32 e (put32 e w ++ rest) = some w := by
  have h := w.toNat_lt
  cases e <;> simp [put32, get32, byteOf_toNat] <;>
    (apply UInt32.toNat_inj.mp; simp; omega)

end C04
end PolyVerif
