/-
  Reference SPZ packer over ℝ (specification side — /repo/formats/spz/write.go writes a header only) and the
  quantisation step of every field through the model's decoder functions (Model/Spz.lean), for
  Props/C15SpzFile.  Written from `packGaussians` of the published encoder (github.com/nianticlabs/spz,
  load-spz.cc): `toUint8(x) = clamp(round(x), 0, 255)`, positions `round(x · 2^fb)` as 24-bit two's complement
  (version 1: a half float), scales `(s + 10)·16`, rotation `r·127.5 + 127.5`, colour `c·(0.15·255) + 0.5·255`,
  SH `c·128 + 128` (bucket size 1), alpha `a·255` with `a` the SIGMOID-domain opacity (what `spz.Read` returns;
  see `spz_alpha_is_sigmoid_domain`).
-/
import PolyVerif.Lemmas.Spz
import PolyVerif.Lemmas.Half
import PolyVerif.Lemmas.RealScalar
import Mathlib.Tactic

namespace PolyVerif
namespace SpzRef
open Spz Scalar

/-- `toUint8`: round to nearest, clamp to 0..255 -/
noncomputable def toUint8 (x : ℝ) : UInt8 := UInt8.ofNat (min 255 ⌊x + 1 / 2⌋₊)

theorem toUint8_err (x : ℝ) (h0 : 0 ≤ x) (h1 : x ≤ 255) : |((toUint8 x).toNat : ℝ) - x| ≤ 1 / 2 := by
  have hp : 0 ≤ x + 1 / 2 := by linarith
  have hle : ⌊x + 1 / 2⌋₊ ≤ 255 := by
    have : ⌊x + 1 / 2⌋₊ < 256 := by rw [Nat.floor_lt hp]; push_cast; linarith
    omega
  have e : (toUint8 x).toNat = ⌊x + 1 / 2⌋₊ := by
    simp only [toUint8, UInt8.toNat_ofNat']; omega
  rw [e]
  have a := Nat.floor_le hp
  have b := Nat.lt_floor_add_one (x + 1 / 2)
  rw [abs_le]; constructor <;> linarith

/-- an affine decoder with slope `1/k` turns a byte error `≤ 1/2` into `≤ 1/(2k)` -/
theorem step_of_scaled {b t d k bound : ℝ} (hk : 0 < k) (h : |b - t| ≤ 1 / 2) (e : d = (b - t) / k)
    (hb : 1 / (2 * k) ≤ bound) : |d| ≤ bound := by
  rw [e, abs_div, abs_of_pos hk]
  refine le_trans ?_ hb
  rw [div_le_div_iff₀ hk (by positivity)]
  nlinarith [abs_nonneg (b - t)]

noncomputable def encAlpha (a : ℝ) : UInt8 := toUint8 (a * 255)
noncomputable def encColor (c : ℝ) : UInt8 := toUint8 (c * (15 / 100 * 255) + 1 / 2 * 255)
noncomputable def encScale (s : ℝ) : UInt8 := toUint8 ((s + 10) * 16)
noncomputable def encRot (r : ℝ) : UInt8 := toUint8 (r * (255 / 2) + 255 / 2)
noncomputable def encSh (c : ℝ) : UInt8 := toUint8 (c * 128 + 128)

theorem alpha_step (a : ℝ) (h0 : 0 ≤ a) (h1 : a ≤ 1) : |(alphaDec (encAlpha a) : ℝ) - a| ≤ 1 / 510 := by
  have := toUint8_err (a * 255) (by linarith) (by linarith)
  apply step_of_scaled (k := 255) (by norm_num) this _ (by norm_num)
  simp only [alphaDec, byteF, natF, encAlpha]; push_cast; ring

theorem color_step (c : ℝ) (h0 : 0 ≤ c * (15 / 100 * 255) + 1 / 2 * 255) (h1 : c * (15 / 100 * 255) + 1 / 2 * 255 ≤ 255) :
    |(colorDec (encColor c) : ℝ) - c| ≤ 2 / 153 := by
  have := toUint8_err _ h0 h1
  apply step_of_scaled (k := 15 / 100 * 255) (by norm_num) this _ (by norm_num)
  simp only [colorDec, byteF, natF, encColor, RS.lit_eq]; push_cast; ring

theorem scale_step (s : ℝ) (h0 : -10 ≤ s) (h1 : s ≤ 95 / 16) : |(scaleDec (encScale s) : ℝ) - s| ≤ 1 / 32 := by
  have := toUint8_err ((s + 10) * 16) (by linarith) (by linarith)
  apply step_of_scaled (k := 16) (by norm_num) this _ (by norm_num)
  simp only [scaleDec, byteF, natF, encScale]; push_cast; ring

theorem rot_step (r : ℝ) (h0 : -1 ≤ r) (h1 : r ≤ 1) : |(rotDec (encRot r) : ℝ) - r| ≤ 1 / 255 := by
  have := toUint8_err (r * (255 / 2) + 255 / 2) (by linarith) (by linarith)
  apply step_of_scaled (k := 255 / 2) (by norm_num) this _ (by norm_num)
  simp only [rotDec, byteF, natF, encRot, RS.lit_eq]; push_cast; ring

theorem sh_step (c : ℝ) (h0 : -1 ≤ c) (h1 : c ≤ 127 / 128) : |(shDec (encSh c) : ℝ) - c| ≤ 1 / 256 := by
  have := toUint8_err (c * 128 + 128) (by linarith) (by linarith)
  apply step_of_scaled (k := 128) (by norm_num) this _ (by norm_num)
  simp only [shDec, byteF, natF, encSh]; push_cast; ring

/-! ### positions -/

/-- `round(x · 2^fb)` -/
noncomputable def fixedOf (fb : Nat) (x : ℝ) : Int := ⌊x * 2 ^ fb + 1 / 2⌋

/-- three little-endian bytes of the 24-bit two's complement of `z` -/
def fix3 (z : Int) : List UInt8 :=
  let v : Nat := (z % 16777216).toNat
  [UInt8.ofNat (v % 256), UInt8.ofNat (v / 256 % 256), UInt8.ofNat (v / 65536 % 256)]

/-- the decoder's arithmetic at ℝ -/
def RealEnv (E : Env ℝ) : Prop := (∀ z : Int, E.ofInt z = (z : ℝ)) ∧ Half.RealEnv E

theorem fixed24_fix3 (z : Int) (h0 : -8388608 ≤ z) (h1 : z < 8388608) :
    fixed24 (byteAt (fix3 z) 0) (byteAt (fix3 z) 1) (byteAt (fix3 z) 2) = z := by
  have hs := Spz.sign_extend_24 (byteAt (fix3 z) 0).toBitVec (byteAt (fix3 z) 1).toBitVec (byteAt (fix3 z) 2).toBitVec
  simp only [UInt8.toNat_toBitVec] at hs
  unfold fixed24
  rw [hs]
  simp only [fix3, byteAt, List.getD_cons_zero, List.getD_cons_succ, UInt8.toNat_ofNat']
  split_ifs <;> omega

theorem fixed_step (E : Env ℝ) (hE : RealEnv E) (fb : Nat) (hfb : fb ≤ 62) (x : ℝ)
    (h0 : -8388608 ≤ fixedOf fb x) (h1 : fixedOf fb x < 8388608) :
    |fixedCoord E fb (byteAt (fix3 (fixedOf fb x)) 0) (byteAt (fix3 (fixedOf fb x)) 1)
        (byteAt (fix3 (fixedOf fb x)) 2) - x| ≤ 1 / 2 ^ (fb + 1) := by
  simp only [fixedCoord, fixed24_fix3 _ h0 h1, posScale, hE.1, shl1, natF, if_pos (show fb < 63 by omega)]
  have a := Int.floor_le (x * 2 ^ fb + 1 / 2)
  have b := Int.lt_floor_add_one (x * 2 ^ fb + 1 / 2)
  have hp : (0 : ℝ) < 2 ^ fb := by positivity
  apply step_of_scaled (b := ((fixedOf fb x : Int) : ℝ)) (t := x * 2 ^ fb) (k := 2 ^ fb) hp
  · unfold fixedOf; rw [abs_le]; constructor <;> linarith
  · push_cast; field_simp
  · rw [pow_succ]; apply le_of_eq; ring

/-- two little-endian bytes of a 16-bit pattern -/
def le2 (k : Nat) : List UInt8 := [UInt8.ofNat (k % 256), UInt8.ofNat (k / 256 % 256)]

theorem halfCoord_le2 (E : Env ℝ) (k : Nat) (hk : k < 65536) :
    halfCoord E (byteAt (le2 k) 0) (byteAt (le2 k) 1) = halfToFloat E k := by
  unfold halfCoord
  congr 1
  simp only [le2, byteAt, List.getD_cons_zero, List.getD_cons_succ, UInt8.toNat_ofNat']
  omega

theorem encode_lt (x : ℝ) (hx : |x| ≤ 65504) : Half.encode x < 65536 := by
  unfold Half.encode
  split_ifs with c
  · have := Half.encodeMag_le (-x) (by linarith) (by rw [abs_of_neg c] at hx; exact hx); omega
  · have := Half.encodeMag_le x (by linarith) (by rw [abs_of_nonneg (by linarith)] at hx; exact hx); omega

end SpzRef
end PolyVerif
