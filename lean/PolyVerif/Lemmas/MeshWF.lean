/-
  Lemmas: well-formedness is preserved by the mesh operation models (C02), and the list facts
  about `gather` / `compact` / `skipped` that C03 reuses.  Core tactics only.
-/
import PolyVerif.Model.MeshOps

namespace PolyVerif.Mesh
variable {α : Type}

/-! ### list facts -/

theorem gather_length {d : List α} {idx : List Nat} (h : ∀ i ∈ idx, i < d.length) :
    (gather d idx).length = idx.length := by
  induction idx with
  | nil => simp [gather]
  | cons a t ih =>
    have ha : a < d.length := h a (by simp)
    have := ih (fun i hi => h i (by simp [hi]))
    simp only [gather, List.filterMap_cons, List.getElem?_eq_getElem ha, List.length_cons] at this ⊢
    omega

theorem gather_map_some {d : List α} {idx : List Nat} (h : ∀ i ∈ idx, i < d.length) :
    (gather d idx).map some = idx.map fun i => d[i]? := by
  induction idx with
  | nil => simp [gather]
  | cons a t ih =>
    have ha : a < d.length := h a (by simp)
    have := ih (fun i hi => h i (by simp [hi]))
    simp only [gather, List.filterMap_cons, List.getElem?_eq_getElem ha, List.map_cons] at this ⊢
    rw [this]

theorem range_map_getElem? (l : List α) : (List.range l.length).map (fun i => l[i]?) = l.map some := by
  apply List.ext_getElem?
  intro i
  simp only [List.getElem?_map]
  by_cases h : i < l.length
  · simp [h]
  · simp [h]

namespace MeshVal

/-! ### WF helpers -/

theorem attrLen_eq_of_mem {m : MeshVal α} (h : WF m) {kd : AttrKey × List α} (hk : kd ∈ m.attrs) :
    kd.2.length = m.attrLen := h.1 kd hk

theorem indices_nil_of_attrs_nil {m : MeshVal α} (h : WF m) (ha : m.attrs = []) : m.indices = [] := by
  have h0 : m.attrLen = 0 := by simp [attrLen, ha]
  cases hi : m.indices with
  | nil => rfl
  | cons a t =>
    have := h.2.1 a (by simp [hi])
    omega

/-- all arrays have length `n`, indices below `n`, count fits ⇒ WF -/
theorem wf_of_uniform {m : MeshVal α} (n : Nat)
    (h1 : ∀ kd ∈ m.attrs, kd.2.length = n) (h2 : ∀ i ∈ m.indices, i < n)
    (h0 : m.attrs = [] → m.indices = []) (h3 : m.topology.Fits m.indices.length) : WF m := by
  cases ha : m.attrs with
  | nil =>
    have := h0 ha
    refine ⟨by simp [ha], by simp [this], h3⟩
  | cons kd t =>
    have hn : m.attrLen = n := by
      have := h1 kd (by simp [ha])
      simp [attrLen, ha, this]
    refine ⟨?_, ?_, h3⟩
    · intro kd' hk; rw [hn]; exact h1 kd' (by simpa [ha] using hk)
    · intro i hi; rw [hn]; exact h2 i hi

theorem fits_of_length_eq {t : Topology} {a b : Nat} (h : a = b) (hf : t.Fits a) : t.Fits b := h ▸ hf

/-! ### setters -/

theorem setIndices_wf {m : MeshVal α} (h : WF m) (idx : List Nat)
    (hi : ∀ i ∈ idx, i < m.attrLen) (hf : m.topology.Fits idx.length) : WF (m.setIndices idx) :=
  ⟨h.1, hi, hf⟩

theorem setMaterials_wf {m : MeshVal α} (h : WF m) (ms : List MatRange) : WF (m.setMaterials ms) := h
theorem setMaterial_wf {m : MeshVal α} (h : WF m) (mat : Nat) : WF (m.setMaterial mat) := h

/-! ### unweld -/

theorem unweld_wf {m : MeshVal α} (h : WF m) : WF m.unweld := by
  apply wf_of_uniform m.indices.length
  · intro kd hk
    simp only [unweld, mapAttrs, List.mem_map] at hk
    obtain ⟨kd0, hk0, rfl⟩ := hk
    apply gather_length
    intro i hi
    rw [h.1 kd0 hk0]; exact h.2.1 i hi
  · intro i hi; simpa [unweld] using hi
  · intro ha
    have : m.attrs = [] := by simpa [unweld, mapAttrs] using ha
    simp [unweld, indices_nil_of_attrs_nil h this]
  · simpa [unweld] using h.2.2

/-! ### toPointCloud -/

theorem toPointCloud_wf {m : MeshVal α} (h : WF m) : WF m.toPointCloud := by
  unfold toPointCloud
  split
  · exact h
  · refine ⟨h.1, ?_, trivial⟩
    intro i hi
    simpa [attrLen] using hi

/-! ### flip -/

theorem length_untriples {β : Type} (l : List (β × β × β)) : (untriples l).length = 3 * l.length := by
  induction l with
  | nil => rfl
  | cons a t ih => obtain ⟨x, y, z⟩ := a; simp only [untriples, List.length_cons, ih]; omega

theorem length_triples {β : Type} : ∀ (l : List β), (triples l).length = l.length / 3
  | [] => by simp [triples]
  | [_] => by simp [triples]
  | [_, _] => by simp [triples]
  | a :: b :: c :: rest => by
    simp only [triples, List.length_cons, length_triples rest]; omega

theorem mem_of_mem_triples {β : Type} : ∀ {l : List β} {t : β × β × β}, t ∈ triples l →
    t.1 ∈ l ∧ t.2.1 ∈ l ∧ t.2.2 ∈ l
  | [], _, h => by simp [triples] at h
  | [_], _, h => by simp [triples] at h
  | [_, _], _, h => by simp [triples] at h
  | a :: b :: c :: rest, t, h => by
    simp only [triples, List.mem_cons] at h
    rcases h with rfl | h
    · simp
    · have := mem_of_mem_triples h
      simp [this.1, this.2.1, this.2.2]

theorem mem_untriples {β : Type} {l : List (β × β × β)} {x : β} (h : x ∈ untriples l) :
    ∃ t ∈ l, x = t.1 ∨ x = t.2.1 ∨ x = t.2.2 := by
  induction l with
  | nil => simp [untriples] at h
  | cons a t ih =>
    obtain ⟨p, q, r⟩ := a
    simp only [untriples, List.mem_cons] at h
    rcases h with rfl | rfl | rfl | h
    · exact ⟨(x, q, r), by simp, by simp⟩
    · exact ⟨(p, x, r), by simp, by simp⟩
    · exact ⟨(p, q, x), by simp, by simp⟩
    · obtain ⟨t', ht', hx⟩ := ih h
      exact ⟨t', by simp [ht'], hx⟩

theorem flipIdx_length {idx : List Nat} (h : idx.length % 3 = 0) : (flipIdx idx).length = idx.length := by
  simp only [flipIdx, length_untriples, List.length_map, length_triples]; omega

theorem mem_flipIdx {idx : List Nat} {x : Nat} (h : x ∈ flipIdx idx) : x ∈ idx := by
  obtain ⟨t, ht, hx⟩ := mem_untriples h
  simp only [List.mem_map] at ht
  obtain ⟨t0, ht0, rfl⟩ := ht
  have := mem_of_mem_triples ht0
  rcases hx with rfl | rfl | rfl <;> simp [this.1, this.2.1, this.2.2]

theorem flip_wf {m m' : MeshVal α} (h : WF m) (hf : m.flip = some m') : WF m' := by
  unfold flip at hf
  split at hf
  · rename_i ht
    cases hf
    have h3 : m.indices.length % 3 = 0 := by have := h.2.2; rw [ht] at this; exact this
    refine setIndices_wf h _ (fun i hi => h.2.1 i (mem_flipIdx hi)) ?_
    rw [ht]; show (flipIdx m.indices).length % 3 = 0
    rw [flipIdx_length h3]; exact h3
  · cases hf

end MeshVal
end PolyVerif.Mesh
