/-
  C03 lemma: after RemovedUnreferencedVertices every vertex is referenced.
-/
import PolyVerif.Lemmas.MeshWeld

namespace PolyVerif.Mesh
variable {α : Type}

/-- every rank below the number of kept vertices is the new index of some kept vertex -/
theorem exists_kept_of_rank : ∀ (u : List Bool) (v : Nat), v < u.countP id →
    ∃ i, u[i]? = some true ∧ i - skipped u i = v
  | [], v, h => by simp at h
  | b :: u, v, h => by
    cases b
    · have h' : v < u.countP id := by simpa [List.countP_cons] using h
      obtain ⟨i, hi, hv⟩ := exists_kept_of_rank u v h'
      refine ⟨i + 1, by simpa using hi, ?_⟩
      rw [skipped_succ]; simp only [Bool.false_eq_true, if_false]; omega
    · cases v with
      | zero => exact ⟨0, by simp, by simp [skipped_zero]⟩
      | succ v' =>
        have h' : v' < u.countP id := by simp [List.countP_cons] at h; omega
        obtain ⟨i, hi, hv⟩ := exists_kept_of_rank u v' h'
        have hle := (compact_getElem? u u i rfl hi).1
        refine ⟨i + 1, by simpa using hi, ?_⟩
        rw [skipped_succ]; simp only [if_true]; omega

theorem mem_of_usedFlags {n : Nat} {idx : List Nat} {i : Nat} (h : (usedFlags n idx)[i]? = some true) : i ∈ idx := by
  simp only [usedFlags, List.getElem?_map] at h
  cases hr : (List.range n)[i]? with
  | none => simp [hr] at h
  | some j =>
    have hj : j = i := by
      have := List.getElem?_eq_some_iff.mp hr
      obtain ⟨hlt, hget⟩ := this
      simpa using hget.symm
    simp only [hr, Option.map_some, Option.some.injEq] at h
    subst hj
    simpa using h

namespace MeshVal

theorem attrLen_of_attrs_nil {x : MeshVal α} (hx : x.attrs = []) : x.attrLen = 0 := by
  simp [attrLen, hx]

theorem removeUnreferenced_allReferenced [DecidableEq α] {m : MeshVal α} (h : WF m) :
    AllReferenced m.removeUnreferenced := by
  have hu := usedFlags_length m.attrLen m.indices
  have hused : ∀ i ∈ m.indices, (usedFlags m.attrLen m.indices)[i]? = some true :=
    fun i hi => usedFlags_getElem? hi (h.2.1 i hi)
  have hw := compactVertices_wf h _ hu hused
  intro v hv
  simp only [List.mem_range] at hv
  unfold removeUnreferenced at hv ⊢
  by_cases hp : 0 < (m.compactVertices (usedFlags m.attrLen m.indices)).attrLen
  · rw [stripEmpty_eq_of_pos hw hp] at hv ⊢
    -- the common length of the compacted arrays is the number of used vertices
    have hc : (m.compactVertices (usedFlags m.attrLen m.indices)).attrLen = (usedFlags m.attrLen m.indices).countP id := by
      cases ha : m.attrs with
      | nil => simp [attrLen, compactVertices, mapAttrs, ha] at hp
      | cons kd t =>
        have := hw.1 (kd.1, compact (usedFlags m.attrLen m.indices) kd.2) (by simp [compactVertices, mapAttrs, ha])
        rw [← this]
        exact compact_length _ _ (by rw [hu]; exact h.1 kd (by simp [ha]))
    rw [hc] at hv
    obtain ⟨i, hi, hr⟩ := exists_kept_of_rank _ v hv
    simp only [compactVertices, List.mem_map]
    exact ⟨i, mem_of_usedFlags hi, hr⟩
  · have hz : (m.compactVertices (usedFlags m.attrLen m.indices)).attrLen = 0 := by omega
    have hs := stripEmpty_attrs_of_zero hw hz
    have := attrLen_of_attrs_nil hs
    omega

end MeshVal
end PolyVerif.Mesh
