/-
  Lemmas for C03: what the layout operations do to `corners`.
-/
import PolyVerif.Lemmas.MeshWF
import PolyVerif.Model.MeshSpec

namespace PolyVerif.Mesh
variable {α : Type}

/-! ### compact / skipped -/

@[simp] theorem compact_nil_left (d : List α) : compact [] d = [] := by simp [compact]
@[simp] theorem compact_nil_right (u : List Bool) : compact u ([] : List α) = [] := by simp [compact]

theorem compact_cons (b : Bool) (u : List Bool) (x : α) (d : List α) :
    compact (b :: u) (x :: d) = if b then x :: compact u d else compact u d := by
  cases b <;> simp [compact]

theorem skipped_zero (b : Bool) (u : List Bool) : skipped (b :: u) 0 = if b then 0 else 1 := by
  cases b <;> simp [skipped]

theorem skipped_succ (b : Bool) (u : List Bool) (i : Nat) :
    skipped (b :: u) (i + 1) = (if b then 0 else 1) + skipped u i := by
  cases b <;> simp [skipped, List.countP_cons] <;> omega

/-- the central fact behind index shifting: a kept vertex `i` is found at `i - shiftBy[i]` -/
theorem compact_getElem? : ∀ (u : List Bool) (d : List α) (i : Nat), d.length = u.length →
    u[i]? = some true → skipped u i ≤ i ∧ (compact u d)[i - skipped u i]? = d[i]?
  | [], _, i, _, h => by simp at h
  | b :: u, [], _, hl, _ => by simp at hl
  | b :: u, x :: d, 0, _, h => by
    have hb : b = true := by simpa using h
    subst hb
    simp [skipped_zero, compact_cons]
  | b :: u, x :: d, i + 1, hl, h => by
    have hl' : d.length = u.length := by simpa using hl
    have h' : u[i]? = some true := by simpa using h
    obtain ⟨hle, hget⟩ := compact_getElem? u d i hl' h'
    rw [skipped_succ, compact_cons]
    cases b
    · simp only [Bool.false_eq_true, if_false]
      refine ⟨by omega, ?_⟩
      have : i + 1 - (1 + skipped u i) = i - skipped u i := by omega
      rw [this, hget]; simp
    · simp only [if_true]
      refine ⟨by omega, ?_⟩
      have : i + 1 - (0 + skipped u i) = (i - skipped u i) + 1 := by omega
      rw [this]; simp [hget]

theorem compact_length : ∀ (u : List Bool) (d : List α), d.length = u.length →
    (compact u d).length = u.countP id
  | [], d, _ => by simp
  | b :: u, [], hl => by simp at hl
  | b :: u, x :: d, hl => by
    have := compact_length u d (by simpa using hl)
    rw [compact_cons]; cases b <;> simp [List.countP_cons, this]

theorem usedFlags_length (n : Nat) (idx : List Nat) : (usedFlags n idx).length = n := by
  simp [usedFlags]

theorem usedFlags_getElem? {n : Nat} {idx : List Nat} {i : Nat} (hi : i ∈ idx) (hn : i < n) :
    (usedFlags n idx)[i]? = some true := by
  simp [usedFlags, List.getElem?_map, List.getElem?_range hn, hi]

namespace MeshVal

/-! ### compactVertices: WF and corners -/

theorem compactVertices_wf {m : MeshVal α} (h : WF m) (u : List Bool) (hu : u.length = m.attrLen)
    (hused : ∀ i ∈ m.indices, u[i]? = some true) : WF (m.compactVertices u) := by
  apply wf_of_uniform (u.countP id)
  · intro kd hk
    simp only [compactVertices, mapAttrs, List.mem_map] at hk
    obtain ⟨kd0, hk0, rfl⟩ := hk
    exact compact_length u kd0.2 (by rw [h.1 kd0 hk0, hu])
  · intro j hj
    simp only [compactVertices, List.mem_map] at hj
    obtain ⟨i, hi, rfl⟩ := hj
    have := (compact_getElem? u u i rfl (hused i hi)).2
    rw [hused i hi] at this
    have hlt := (List.getElem?_eq_some_iff.mp this).1
    rwa [compact_length u u rfl] at hlt
  · intro ha
    have : m.attrs = [] := by simpa [compactVertices, mapAttrs] using ha
    simp [compactVertices, indices_nil_of_attrs_nil h this]
  · simpa [compactVertices] using h.2.2

theorem compactVertices_corners {m : MeshVal α} (h : WF m) (u : List Bool) (hu : u.length = m.attrLen)
    (hused : ∀ i ∈ m.indices, u[i]? = some true) : (m.compactVertices u).corners = m.corners := by
  simp only [corners, compactVertices, mapAttrs, List.map_map]
  apply List.map_congr_left
  intro kd hk
  simp only [Function.comp, List.map_map, Prod.mk.injEq, true_and]
  apply List.map_congr_left
  intro i hi
  exact (compact_getElem? u kd.2 i (by rw [h.1 kd hk, hu]) (hused i hi)).2

/-! ### stripEmpty -/

theorem stripEmpty_eq_of_pos {m : MeshVal α} (h : WF m) (hp : 0 < m.attrLen) : m.stripEmpty = m := by
  have : m.attrs.filter (fun kd => !kd.2.isEmpty) = m.attrs := by
    apply List.filter_eq_self.mpr
    intro kd hk
    have := h.1 kd hk
    cases hd : kd.2 with
    | nil => rw [hd] at this; simp at this; omega
    | cons a t => simp
  cases m; simp only [stripEmpty] at this ⊢; simp [this]

theorem stripEmpty_attrs_of_zero {m : MeshVal α} (h : WF m) (hz : m.attrLen = 0) : m.stripEmpty.attrs = [] := by
  simp only [stripEmpty]
  apply List.filter_eq_nil_iff.mpr
  intro kd hk
  have := h.1 kd hk
  rw [hz] at this
  simp [List.eq_nil_of_length_eq_zero this]

theorem stripEmpty_wf {m : MeshVal α} (h : WF m) : WF m.stripEmpty := by
  by_cases hp : 0 < m.attrLen
  · rw [stripEmpty_eq_of_pos h hp]; exact h
  · have hz : m.attrLen = 0 := by omega
    have ha := stripEmpty_attrs_of_zero h hz
    have hi : m.indices = [] := by
      cases hm : m.indices with
      | nil => rfl
      | cons a t => have := h.2.1 a (by simp [hm]); omega
    refine ⟨by simp [ha], ?_, ?_⟩
    · simp [stripEmpty, hi]
    · have := h.2.2; simpa [stripEmpty] using this

/-! ### removeUnreferenced -/

theorem removeUnreferenced_wf {m : MeshVal α} (h : WF m) : WF m.removeUnreferenced := by
  unfold removeUnreferenced
  apply stripEmpty_wf
  exact compactVertices_wf h _ (usedFlags_length _ _) (fun i hi => usedFlags_getElem? hi (h.2.1 i hi))

theorem compactVertices_attrLen_pos {m : MeshVal α} (h : WF m) (u : List Bool) (hu : u.length = m.attrLen)
    (hused : ∀ i ∈ m.indices, u[i]? = some true) (hne : m.indices ≠ []) :
    0 < (m.compactVertices u).attrLen := by
  have hw := compactVertices_wf h u hu hused
  cases hm : m.indices with
  | nil => exact absurd hm hne
  | cons a t =>
    have : (a - skipped u a) ∈ (m.compactVertices u).indices := by simp [compactVertices, hm]
    have := hw.2.1 _ this
    omega

theorem removeUnreferenced_corners {m : MeshVal α} (h : WF m) :
    m.removeUnreferenced.corners = (if m.indices = [] then [] else m.corners) := by
  have hu := usedFlags_length m.attrLen m.indices
  have hused : ∀ i ∈ m.indices, (usedFlags m.attrLen m.indices)[i]? = some true :=
    fun i hi => usedFlags_getElem? hi (h.2.1 i hi)
  have hw := compactVertices_wf h _ hu hused
  unfold removeUnreferenced
  split
  · rename_i hi
    -- no index: no vertex is used, every array is emptied and dropped
    have hz : (m.compactVertices (usedFlags m.attrLen m.indices)).attrLen = 0 := by
      cases ha : m.attrs with
      | nil => simp [attrLen, compactVertices, mapAttrs, ha]
      | cons kd t =>
        have hlen := hw.1 (kd.1, compact (usedFlags m.attrLen m.indices) kd.2)
          (by simp [compactVertices, mapAttrs, ha])
        rw [← hlen]
        have hl : kd.2.length = (usedFlags m.attrLen m.indices).length := by
          rw [hu]; exact h.1 kd (by simp [ha])
        rw [compact_length _ _ hl]
        simp [usedFlags, hi, List.countP_eq_zero]
    simp [corners, stripEmpty_attrs_of_zero hw hz]
  · rename_i hi
    rw [stripEmpty_eq_of_pos hw (compactVertices_attrLen_pos h _ hu hused hi)]
    exact compactVertices_corners h _ hu hused

/-! ### unweld -/

theorem unweld_corners {m : MeshVal α} (h : WF m) : m.unweld.corners = m.corners := by
  simp only [corners, unweld, mapAttrs, List.map_map]
  apply List.map_congr_left
  intro kd hk
  have hlt : ∀ i ∈ m.indices, i < kd.2.length := fun i hi => by rw [h.1 kd hk]; exact h.2.1 i hi
  simp only [Function.comp, Prod.mk.injEq, true_and]
  rw [← gather_length hlt, range_map_getElem?, gather_map_some hlt]

theorem map_some_inj : ∀ {l₁ l₂ : List α}, l₁.map some = l₂.map some → l₁ = l₂
  | [], [], _ => rfl
  | [], _ :: _, h => by simp at h
  | _ :: _, [], h => by simp at h
  | a :: t, b :: t', h => by
    simp only [List.map_cons, List.cons.injEq, Option.some.injEq] at h
    rw [h.1, map_some_inj h.2]

theorem unweld_attrLen {m : MeshVal α} (h : WF m) : m.unweld.attrLen = m.indices.length := by
  cases ha : m.attrs with
  | nil => simp [unweld, attrLen, mapAttrs, ha, indices_nil_of_attrs_nil h ha]
  | cons kd t =>
    have hlt : ∀ i ∈ m.indices, i < kd.2.length := fun i hi => by
      rw [h.1 kd (by simp [ha])]; exact h.2.1 i hi
    simp [unweld, attrLen, mapAttrs, ha, gather_length hlt]

theorem gather_range (l : List α) : gather l (List.range l.length) = l := by
  have h1 : (gather l (List.range l.length)).map some = l.map some := by
    rw [gather_map_some (by intro i hi; simpa using hi), range_map_getElem?]
  exact map_some_inj h1

theorem unweld_unweld {m : MeshVal α} (h : WF m) : m.unweld.unweld = m.unweld := by
  have : ∀ kd ∈ m.attrs, gather (gather kd.2 m.indices) (List.range (List.range m.indices.length).length)
      = gather kd.2 m.indices := by
    intro kd hk
    have hlt : ∀ i ∈ m.indices, i < kd.2.length := fun i hi => by rw [h.1 kd hk]; exact h.2.1 i hi
    rw [List.length_range, ← gather_length hlt, gather_range]
  simp only [unweld, mapAttrs, List.map_map, List.length_range, MeshVal.mk.injEq, true_and]
  apply List.map_congr_left
  intro kd hk
  have := this kd hk
  simp only [List.length_range] at this
  simp [Function.comp, this]

/-! ### flip -/

theorem triples_map {β γ : Type} (f : β → γ) : ∀ (l : List β),
    triples (l.map f) = (triples l).map fun t => (f t.1, f t.2.1, f t.2.2)
  | [] => by simp [triples]
  | [_] => by simp [triples]
  | [_, _] => by simp [triples]
  | a :: b :: c :: rest => by simp [triples, triples_map f rest]

theorem untriples_map {β γ : Type} (f : β → γ) (l : List (β × β × β)) :
    untriples (l.map fun t => (f t.1, f t.2.1, f t.2.2)) = (untriples l).map f := by
  induction l with
  | nil => simp [untriples]
  | cons a t ih => obtain ⟨x, y, z⟩ := a; simp [untriples, ih]

theorem flipList_map {β γ : Type} (f : β → γ) (l : List β) : flipList (l.map f) = (flipList l).map f := by
  simp only [flipList, triples_map, List.map_map]
  rw [← untriples_map f, List.map_map]
  congr 1

theorem flipIdx_eq_flipList (idx : List Nat) : flipIdx idx = flipList idx := rfl

theorem triples_untriples {β : Type} (l : List (β × β × β)) : triples (untriples l) = l := by
  induction l with
  | nil => simp [untriples, triples]
  | cons a t ih => obtain ⟨x, y, z⟩ := a; simp [untriples, triples, ih]

theorem untriples_triples {β : Type} : ∀ (l : List β), l.length % 3 = 0 → untriples (triples l) = l
  | [], _ => by simp [untriples, triples]
  | [_], h => by simp at h
  | [_, _], h => by simp at h
  | a :: b :: c :: rest, h => by
    have : rest.length % 3 = 0 := by simp at h; omega
    simp [untriples, triples, untriples_triples rest this]

theorem flipList_flipList {β : Type} (l : List β) (h : l.length % 3 = 0) : flipList (flipList l) = l := by
  simp only [flipList, triples_untriples, List.map_map]
  have : ((fun t : β × β × β => (t.2.1, t.1, t.2.2)) ∘ fun t => (t.2.1, t.1, t.2.2)) = id := by
    funext t; rfl
  rw [this, List.map_id, untriples_triples l h]

theorem flip_corners {m m' : MeshVal α} (hf : m.flip = some m') :
    m'.corners = m.corners.map fun kc => (kc.1, flipList kc.2) := by
  unfold flip at hf
  split at hf
  · cases hf
    simp only [corners, setIndices, List.map_map]
    apply List.map_congr_left
    intro kd _
    simp [Function.comp, flipIdx_eq_flipList, flipList_map]
  · cases hf

theorem flip_flip {m m' : MeshVal α} (h : WF m) (hf : m.flip = some m') : m'.flip = some m := by
  unfold flip at hf ⊢
  split at hf
  · rename_i ht
    cases hf
    have h3 : m.indices.length % 3 = 0 := by have := h.2.2; rw [ht] at this; exact this
    simp only [setIndices, ht, if_true, flipIdx_eq_flipList, flipList_flipList _ h3]
    cases m; simp_all
  · cases hf

end MeshVal
end PolyVerif.Mesh
