/-
  Triangle meshes with per-corner texture coordinates: the `texcoord` list of the face element, the reader's unweld and
  TexCoord assembly, and `RoundTrips` for the result.  Core Lean only.
-/
import PolyVerif.Lemmas.PlyCompose
import PolyVerif.Lemmas.PlyNames
namespace PolyVerif
namespace PlyCompose
open Ply PlyLemmas
variable {α : Type}

/-- for a recognised writer `w` of a mesh with at least one corner: its attribute exists, the assembled (still welded)
mesh carries under `w`'s key the attribute array mapped by `quantBin`, the corners exist, and `quant` is `quantBin` -/
theorem demanded_column (c : Coding α) (cfg : WriterCfg) (m : MeshVal α) (body : Bytes)
    (hf : cfg.format ≠ .ascii) (hwf : m.WF = true) (h : writeBody c cfg m = .ok body)
    (hnd : ((headerProps (selectWriters cfg m)).map (·.1)).Nodup)
    (bl : List (Built × List Nat)) (hcl : ClaimOK cfg m bl) (recs : List (List α))
    (hrecs : (List.range m.attrLen).mapM (vertexRecord m (selectWriters cfg m)) = .ok recs)
    (hemp : m.indices ≠ []) (base : MeshVal α)
    (w : WProp) (hws : w ∈ selectWriters cfg m) (hcb : comesBack w = true) :
    ∃ a orig, m.find w.dim w.attr = some a ∧
      (applyColumns base (bl.map (·.1)) (recs.map (rowOfW c (writerTypes (selectWriters cfg m)) bl))).find w.dim w.attr
        = some ⟨w.dim, w.attr, a.data.map (List.map (quantBin c w.dim w.ty))⟩ ∧
      gather a.data m.indices = .ok orig ∧
      orig.mapM (fun comps => comps.mapM (quant c cfg.format w.dim w.ty))
        = some (orig.map (List.map (quantBin c w.dim w.ty))) := by
  obtain ⟨i0, hi0⟩ := List.exists_mem_of_ne_nil _ hemp
  have hpos : 0 < m.attrLen := by have := WF_idx m hwf i0 hi0; omega
  have hall := mapM_ok_forall₂ _ _ _ hrecs
  have hrl : recs.length = m.attrLen := by simpa using hall.length_eq
  have hr0 : vertexRecord m (selectWriters cfg m) 0 = .ok recs[0] := by
    have := All2.get hall 0 (by simpa using hpos) (by omega)
    simpa using this
  have hfind : ∃ a, m.find w.dim w.attr = some a := by
    have hr0' := hr0
    simp only [vertexRecord] at hr0'
    cases hp : (selectWriters cfg m).mapM (fun w => writerValues m w 0) with
    | error e => simp [hp, bind, Except.bind] at hr0'
    | ok parts =>
      obtain ⟨p, hp'⟩ := All2.exists_left (mapM_ok_forall₂ _ _ _ hp) w hws
      simp only [writerValues] at hp'
      cases hfa : m.find w.dim w.attr with
      | none => simp [hfa] at hp'
      | some a => exact ⟨a, rfl⟩
  obtain ⟨a, ha⟩ := hfind
  obtain ⟨hmem, hdim⟩ := find_mem m _ _ a ha
  have hal : a.data.length = m.attrLen := WF_len m hwf a hmem
  obtain ⟨j, hj, hattr, hnames, hlastj⟩ := hcl.demanded w hws hcb
  have hcol := column_of_writer c m hwf _ hnd recs hrecs w hws a ha bl j hj hnames (hcl.located _ (List.getElem_mem hj))
  have hj' : j < (bl.map (·.1)).length := by simpa using hj
  have hrows : recs.map (rowOfW c (writerTypes (selectWriters cfg m)) bl) ≠ [] := by
    cases hr : recs with
    | nil => rw [hr] at hrl; simp at hrl; omega
    | cons r rs => simp
  have hfindb := applyColumns_find base (bl.map (·.1))
    (recs.map (rowOfW c (writerTypes (selectWriters cfg m)) bl)) j hj'
    (fun j' hj'' hlt => by
      have := hlastj j' (by simpa using hj'') hlt
      simpa using this) hrows
  have hkd : ((bl.map (fun (x : Built × List Nat) => x.1))[j]'hj').names.length = w.dim := by simp [hnames, WProp.dim]
  have hka : ((bl.map (fun (x : Built × List Nat) => x.1))[j]'hj').attr = w.attr := by simp [hattr]
  rw [hkd, hka] at hfindb
  simp only [List.map_map, Function.comp_def] at hfindb
  rw [hcol] at hfindb
  obtain ⟨orig, ho⟩ := gather_ok a.data m.indices (fun i hi => by
    have := WF_idx m hwf i hi
    exact ⟨this.1, by omega⟩)
  obtain ⟨recs', vbytes, faceBytes, hrecs', hallenc, _, _, _⟩ := writeBody_bin_parts c cfg m body hf h
  rw [hrecs] at hrecs'
  have hre : recs' = recs := by injection hrecs' with h'; exact h'.symm
  subst hre
  have hvl : vbytes.length = recs'.length := hallenc.length_eq
  have henc0 := All2.get hallenc 0 (by omega) (by omega)
  obtain ⟨v', bs, himpl⟩ := written_type_implemented c cfg.format.endian m hwf _ _ _ 0 hr0 henc0 w hws
    (comesBack_names_ne w hcb)
  have hq : ∀ v, quant c cfg.format w.dim w.ty v = some (quantBin c w.dim w.ty v) :=
    fun v => quant_bin_some c cfg.format hf w.dim w.ty v v' bs himpl
  refine ⟨a, orig, ha, hfindb, ho, ?_⟩
  apply mapM_some_map
  intro comps
  exact mapM_some_map _ _ hq comps

/-! ## unweld -/

theorem gather_range (β : Type) (data : List β) :
    gather data ((List.range data.length).map Int.ofNat) = .ok data := by
  have key : ∀ (k : Nat) (pre suf : List β), data = pre ++ suf → k = pre.length →
      gather data (((List.range' k suf.length)).map Int.ofNat) = .ok suf := by
    intro k pre suf
    induction suf generalizing k pre with
    | nil => intro _ _; simp [gather, pure, Except.pure]
    | cons x suf ih =>
      intro hd hk
      have hi := ih (k + 1) (pre ++ [x]) (by simp [hd]) (by simp [hk])
      simp only [gather] at hi ⊢
      simp only [List.length_cons, List.range'_succ, List.map_cons, List.mapM_cons]
      have hlook : data.toArray[(Int.ofNat k).toNat]? = some x := by
        simp [hd, hk]
      have hneg : ¬ (Int.ofNat k < 0) := by simp
      simp only [hneg, if_false, hlook, hi, bind, Except.bind, pure, Except.pure]
  have := key 0 [] data rfl rfl
  simpa [List.range_eq_range'] using this

theorem mapM_ok_of_forall {β γ : Type} (f : β → R γ) (g : β → γ) : ∀ (l : List β), (∀ x ∈ l, f x = .ok (g x)) →
    l.mapM f = .ok (l.map g) := by
  intro l
  induction l with
  | nil => intro _; rfl
  | cons x l ih =>
    intro h
    rw [List.mapM_cons, h x (by simp), ih (fun y hy => h y (by simp [hy]))]
    rfl

/-- `meshops.Unweld` when every attribute array can be indexed by every index: every corner becomes its own vertex -/
theorem unweld_ok (m : MeshVal α) (g : Attr α → List (List α))
    (hg : ∀ a ∈ m.attrs, gather a.data m.indices = .ok (g a)) :
    unweld m = .ok { m with indices := (List.range m.indices.length).map Int.ofNat,
                            attrs := m.attrs.map (fun a => ⟨a.dim, a.name, g a⟩) } := by
  have : m.attrs.mapM (fun a => do
      let d ← gather a.data m.indices
      pure (⟨a.dim, a.name, d⟩ : Attr α)) = .ok (m.attrs.map (fun a => ⟨a.dim, a.name, g a⟩)) := by
    apply mapM_ok_of_forall
    intro a ha
    simp [hg a ha, bind, Except.bind, pure, Except.pure]
  simp only [unweld]
  rw [this]
  rfl

theorem find_map_data (attrs : List (Attr α)) (g : Attr α → List (List α)) (d : Nat) (n : Bytes) :
    (attrs.map (fun a => (⟨a.dim, a.name, g a⟩ : Attr α))).find? (fun a => decide (a.dim = d ∧ a.name = n))
      = (attrs.find? (fun a => decide (a.dim = d ∧ a.name = n))).map (fun a => ⟨a.dim, a.name, g a⟩) := by
  induction attrs with
  | nil => rfl
  | cons a as ih =>
    simp only [List.map_cons, List.find?_cons]
    by_cases h : a.dim = d ∧ a.name = n
    · simp [h]
    · simp only [h, decide_false, Bool.false_eq_true, if_false]
      exact ih


theorem set_attrs_len (m : MeshVal α) (d : Nat) (n : Bytes) (data : List (List α)) (k : Nat)
    (hm : ∀ a ∈ m.attrs, a.data.length = k) (hd : data.length = k) :
    ∀ a ∈ (m.set d n data).attrs, a.data.length = k := by
  intro a ha
  simp only [MeshVal.set] at ha
  split at ha
  · exact hm a (List.mem_filter.mp ha).1
  · simp only [List.mem_append, List.mem_cons, List.not_mem_nil, or_false] at ha
    rcases ha with ha | rfl
    · exact hm a (List.mem_filter.mp ha).1
    · exact hd

/-- every attribute array of the assembled mesh has one entry per vertex record -/
theorem applyColumns_len (base : MeshVal α) (built : List Built) (rows : List (List (List α)))
    (hb : ∀ a ∈ base.attrs, a.data.length = rows.length) :
    ∀ a ∈ (applyColumns base built rows).attrs, a.data.length = rows.length := by
  rw [applyColumns_eq]
  generalize built.zipIdx = l
  induction l generalizing base with
  | nil => exact hb
  | cons x l ih =>
    simp only [List.foldl_cons]
    exact ih (colStep rows base x) (set_attrs_len base _ _ _ _ hb (by simp))

theorem gather_eq_mapM (β : Type) (data : List β) (idx : List Int) : gather data idx = idx.mapM (atIdx data) := by
  simp only [gather]
  congr 1
  funext i
  simp only [atIdx, List.getElem?_toArray]

theorem mapM_append_ok {ι β : Type} (f : ι → R β) : ∀ (xs ys : List ι) (out : List β), (xs ++ ys).mapM f = .ok out →
    ∃ o1 o2, xs.mapM f = .ok o1 ∧ ys.mapM f = .ok o2 ∧ out = o1 ++ o2 := by
  intro xs
  induction xs with
  | nil => intro ys out h; exact ⟨[], out, rfl, h, rfl⟩
  | cons x xs ih =>
    intro ys out h
    obtain ⟨y, out', rfl, hx, hrest⟩ := mapM_ok_cons f x (xs ++ ys) out h
    obtain ⟨o1, o2, h1, h2, rfl⟩ := ih ys out' hrest
    refine ⟨y :: o1, o2, ?_, h2, rfl⟩
    rw [List.mapM_cons, hx, h1]; rfl

/-- THE PER-CORNER UV LIST the reader collects from the written faces is, corner by corner in index-buffer order, the
float32 image of the source corner's texture coordinate -/
theorem faceUV_flatten (c : Coding α) (m : MeshVal α) (hwf : m.WF = true) (tex : Attr α)
    (htex : m.find 2 texCoordAttr = some tex) (tris : List (Int × Int × Int)) (fs : List (WFace α))
    (hc : chunk3 m.indices = some tris) (hfs : faceRecords m tris = .ok fs) (orig : List (List α))
    (ho : gather tex.data m.indices = .ok orig) :
    (fs.map (faceUV c)).flatten = orig.map (List.map (fun v => c.unf32 (c.f32 v))) := by
  obtain ⟨hmem, hdim⟩ := find_mem m _ _ tex htex
  have hitem : ∀ x ∈ tex.data, x.length = 2 := fun x hx => by rw [WF_items m hwf tex hmem x hx, hdim]
  rw [chunk3_flatten _ _ hc, gather_eq_mapM] at ho
  simp only [faceRecords, htex] at hfs
  have hall := mapM_ok_forall₂ _ tris fs hfs
  clear hfs hc
  induction hall generalizing orig with
  | nil => simp [pure, Except.pure] at ho; subst ho; rfl
  | @cons t f ts fs' hxy _ ih =>
    obtain ⟨a, b, c'⟩ := t
    simp only [List.map_cons, List.flatten_cons] at ho
    obtain ⟨o1, o2, h1, h2, rfl⟩ := mapM_append_ok _ _ _ _ ho
    simp only [List.mapM_cons, List.mapM_nil] at h1
    cases ha : atIdx tex.data a with
    | error e => simp [ha, bind, Except.bind] at h1
    | ok p1 =>
      cases hb : atIdx tex.data b with
      | error e => simp [ha, hb, bind, Except.bind] at h1
      | ok p2 =>
        cases hcc : atIdx tex.data c' with
        | error e => simp [ha, hb, hcc, bind, Except.bind] at h1
        | ok p3 =>
          simp [ha, hb, hcc, bind, Except.bind, pure, Except.pure] at h1 hxy
          subst h1 hxy
          have l1 := hitem p1 (atIdx_mem _ _ _ ha)
          have l2 := hitem p2 (atIdx_mem _ _ _ hb)
          have l3 := hitem p3 (atIdx_mem _ _ _ hcc)
          rw [List.map_cons, List.flatten_cons, ih o2 h2]
          match p1, l1, p2, l2, p3, l3 with
          | [x1, y1], _, [x2, y2], _, [x3, y3], _ => simp [faceUV]


theorem gather_length {β : Type} (data : List β) (idx : List Int) (out : List β) (h : gather data idx = .ok out) :
    out.length = idx.length := by
  rw [gather_eq_mapM] at h
  exact (mapM_ok_forall₂ _ _ _ h).length_eq

def unweldedOf (m : MeshVal α) (g : Attr α → List (List α)) : MeshVal α :=
  { m with indices := (List.range m.indices.length).map Int.ofNat,
           attrs := m.attrs.map (fun a => ⟨a.dim, a.name, g a⟩) }

theorem applyColumns_topo (base : MeshVal α) (built : List Built) (rows : List (List (List α))) :
    (applyColumns base built rows).topo = base.topo ∧ (applyColumns base built rows).indices = base.indices := by
  rw [applyColumns_eq]; exact foldl_col_topo rows _ base

theorem assemble_uv (built : List Built) (n : Nat) (rows : List (List (List α))) (idx : List Int) (uvs : List (List α))
    (hpos : 0 < uvs.length) (hlen : uvs.length = idx.length) (g : Attr α → List (List α))
    (hg : ∀ a ∈ (applyColumns (⟨.triangle, idx, [], none⟩ : MeshVal α) built rows).attrs, gather a.data idx = .ok (g a)) :
    assemble built n rows (some (idx, uvs))
      = .ok ((unweldedOf (applyColumns (⟨.triangle, idx, [], none⟩ : MeshVal α) built rows) g).set 2 texCoordAttr uvs) := by
  have hi := (applyColumns_topo (⟨.triangle, idx, [], none⟩ : MeshVal α) built rows).2
  have hun := unweld_ok (applyColumns (⟨.triangle, idx, [], none⟩ : MeshVal α) built rows) g (by
    intro a ha; rw [hi]; exact hg a ha)
  have hc : 0 < uvs.length ∧ uvs.length = idx.length := ⟨hpos, hlen⟩
  simp only [assemble]
  rw [if_pos hc]
  simp only [hun, bind, Except.bind, pure, Except.pure, unweldedOf]

/-- TRIANGLE MESHES WITH PER-CORNER TEXTURE COORDINATES: the reader unwelds (every corner becomes its own vertex carrying
the welded source vertex' data) and attaches the collected UVs; the result satisfies `RoundTrips` -/
theorem readback_uv [BEq α] [LawfulBEq α] (c : Coding α) (cfg : WriterCfg) (m : MeshVal α) (body : Bytes)
    (hf : cfg.format ≠ .ascii) (hwf : m.WF = true) (h : writeBody c cfg m = .ok body)
    (htri : m.topo = .triangle) (htc : hasTexCoord m = true) (hsize : m.attrLen ≤ 2 ^ 31)
    (hnd : ((headerProps (selectWriters cfg m)).map (·.1)).Nodup)
    (bl : List (Built × List Nat)) (hcl : ClaimOK cfg m bl) :
    ∃ back, readBody c defaultReader (writeHeader cfg m) body = .ok back ∧ RoundTrips c cfg m back = true := by
  have hloc : ∀ p ∈ bl, Located (writerTypes (selectWriters cfg m)) p.1 p.2 := by
    intro p hp
    have := (hcl.located p hp).loc
    rwa [headerProps_types] at this
  obtain ⟨recs, hrecs, _, htr⟩ := readBody_writeBody_arrays c cfg m body hf hwf h bl hcl.built hloc
  obtain ⟨tris, fs, hc, hfs, hread⟩ := htr htri
  obtain ⟨hidx, _⟩ := faceRecords_shape m hwf tris fs hfs
  have hidx' := faces_indices m hwf hsize tris fs hc hidx
  obtain ⟨tex, htex⟩ : ∃ tex, m.find 2 texCoordAttr = some tex := by
    simp only [hasTexCoord, MeshVal.has] at htc
    exact Option.isSome_iff_exists.mp htc
  obtain ⟨hmemT, hdimT⟩ := find_mem m _ _ tex htex
  have hlenT : tex.data.length = m.attrLen := WF_len m hwf tex hmemT
  obtain ⟨origUV, hoUV⟩ := gather_ok tex.data m.indices (fun i hi => by
    have := WF_idx m hwf i hi; exact ⟨this.1, by omega⟩)
  have huvs := faceUV_flatten c m hwf tex htex tris fs hc hfs origUV hoUV
  have hlenUV : origUV.length = m.indices.length := gather_length _ _ _ hoUV
  have hall := mapM_ok_forall₂ _ _ _ hrecs
  have hrl : recs.length = m.attrLen := by simpa using hall.length_eq
  rw [hread, hidx', huvs]
  generalize hrows : recs.map (rowOfW c (writerTypes (selectWriters cfg m)) bl) = rows
  have hrowsl : rows.length = m.attrLen := by rw [← hrows]; simpa using hrl
  generalize huv : origUV.map (List.map (fun v => c.unf32 (c.f32 v))) = uvs
  have huvl : uvs.length = m.indices.length := by rw [← huv]; simpa using hlenUV
  have hquv : ∀ v, quantUV c cfg.format v = some (c.unf32 (c.f32 v)) := by
    intro v; cases hfm : cfg.format <;> simp_all [quantUV]
  have hmmuv : origUV.mapM (fun comps => comps.mapM (quantUV c cfg.format)) = some uvs := by
    rw [← huv]
    apply mapM_some_map
    intro comps
    exact mapM_some_map _ _ hquv comps
  by_cases hemp : m.indices = []
  · -- no face: nothing is unwelded, every corner list is empty
    have hu0 : uvs = [] := by cases uvs <;> simp_all
    have ht := applyColumns_topo (⟨.triangle, ([] : List Int), [], none⟩ : MeshVal α) (bl.map (·.1)) rows
    refine ⟨applyColumns ⟨.triangle, [], [], none⟩ (bl.map (·.1)) rows, by simp [assemble, hu0, hemp, pure, Except.pure], ?_⟩
    simp only [RoundTrips, Bool.and_eq_true, List.all_eq_true, decide_eq_true_eq, ht.1, htri, primCount, ht.2, hemp,
      true_and]
    refine ⟨?_, ?_⟩
    · intro w _
      simp [cornerVals, ht.2, hemp]
    · simp [cornerVals, ht.2, hemp, htc]
  · -- at least one face: unweld
    have hmne : m.indices.isEmpty = false := by cases hm : m.indices <;> simp_all
    have ht := applyColumns_topo (⟨.triangle, m.indices, [], none⟩ : MeshVal α) (bl.map (·.1)) rows
    have hmlen := applyColumns_len (⟨.triangle, m.indices, [], none⟩ : MeshVal α) (bl.map (·.1)) rows (by simp)
    let g : Attr α → List (List α) := fun a => ((gather a.data m.indices).toOption).getD []
    have hg : ∀ a ∈ (applyColumns (⟨.triangle, m.indices, [], none⟩ : MeshVal α) (bl.map (·.1)) rows).attrs,
        gather a.data m.indices = .ok (g a) := by
      intro a ha
      have hl := hmlen a ha
      obtain ⟨out, hout⟩ := gather_ok a.data m.indices (fun i hi => by
        have := WF_idx m hwf i hi; exact ⟨this.1, by omega⟩)
      simp [g, hout, Except.toOption]
    have hupos : 0 < uvs.length := by
      rw [huvl]; cases hm : m.indices with
      | nil => exact absurd hm hemp
      | cons x xs => simp
    have hune : uvs ≠ [] := by intro h0; rw [h0] at hupos; simp at hupos
    refine ⟨_, assemble_uv (bl.map (·.1)) m.attrLen rows m.indices uvs hupos huvl g hg, ?_⟩
    generalize hmesh : applyColumns (⟨.triangle, m.indices, [], none⟩ : MeshVal α) (bl.map (·.1)) rows = mesh at *
    generalize hback : (unweldedOf mesh g).set 2 texCoordAttr uvs = back
    have hbt : back.topo = .triangle ∧ back.indices = (List.range m.indices.length).map Int.ofNat := by
      rw [← hback]
      have := set_topo (unweldedOf mesh g) 2 texCoordAttr uvs
      rw [this.1, this.2]
      exact ⟨ht.1, by simp [unweldedOf, ht.2]⟩
    have hbne : back.indices.isEmpty = false := by
      rw [hbt.2]; cases hm : m.indices <;> simp_all
    simp only [RoundTrips, Bool.and_eq_true, List.all_eq_true, decide_eq_true_eq, hbt.1, htri, primCount, hbt.2,
      List.length_map, List.length_range, true_and]
    refine ⟨?_, ?_⟩
    · intro w hw
      simp only [List.mem_filter, Bool.and_eq_true, Bool.not_eq_true', decide_eq_true_eq] at hw
      obtain ⟨hws, hcb, hnt⟩ := hw
      have hkey : ((2 : Nat), texCoordAttr) ≠ (w.dim, w.attr) := by
        intro he
        have h1 : w.dim = 2 := (Prod.mk.inj he).1.symm
        have h2 : w.attr = texCoordAttr := (Prod.mk.inj he).2.symm
        simp [htri, h1, h2] at hnt
      obtain ⟨a, orig, ha, hfindm, ho, hmm⟩ := demanded_column c cfg m body hf hwf h hnd bl hcl recs hrecs hemp
        ⟨.triangle, m.indices, [], none⟩ w hws hcb
      rw [hrows, hmesh] at hfindm
      have horl : orig.length = m.indices.length := gather_length _ _ _ ho
      have hfb : back.find w.dim w.attr = some ⟨w.dim, w.attr, orig.map (List.map (quantBin c w.dim w.ty))⟩ := by
        rw [← hback, set_find_ne _ _ _ _ _ _ hkey]
        simp only [MeshVal.find, unweldedOf] at hfindm ⊢
        rw [find_map_data, hfindm]
        simp only [Option.map_some, g, gather_map, ho, Except.map, Except.toOption, Option.getD_some]
      have hgb : gather (orig.map (List.map (quantBin c w.dim w.ty))) back.indices
          = .ok (orig.map (List.map (quantBin c w.dim w.ty))) := by
        rw [hbt.2, ← horl]
        have := gather_range _ (orig.map (List.map (quantBin c w.dim w.ty)))
        simpa using this
      simp [cornerVals, hmne, hbne, ha, ho, hfb, hgb, Except.toOption, hmm]
    · have hfbt : back.find 2 texCoordAttr = some ⟨2, texCoordAttr, uvs⟩ := by
        rw [← hback]; exact set_find_eq _ _ _ _ hune
      have hgbt : gather uvs back.indices = .ok uvs := by
        rw [hbt.2, ← huvl]
        exact gather_range _ uvs
      simp [htc, cornerVals, hmne, hbne, htex, hoUV, hfbt, hgbt, Except.toOption, hmmuv]

end PlyCompose
end PolyVerif
