/-
  Helper lemmas for C16: induction principle for the nested tree type, list facts,
  and the real-number facts about the translated AABB code and the hand-modelled
  slab test that the tree theorems consume.
-/
import PolyVerif.Model.Tree
import PolyVerif.Lemmas.RealScalar
import Mathlib.Tactic

namespace PolyVerif
namespace Tree
open Gen.geometry

variable {B E P K : Type}

/-- structural induction over `Oct` with the induction hypothesis for every child -/
theorem Oct.induct' {motive : Oct B E → Prop}
    (h : ∀ b es cs, (∀ c ∈ cs, motive c) → motive (.node b es cs)) : ∀ t, motive t := by
  intro t
  induction t using Oct.rec (motive_2 := fun cs => ∀ c ∈ cs, motive c) with
  | node b es cs ih => exact h b es cs ih
  | nil => rename_i c' hc'; cases hc'
  | cons c cs ihc ihcs =>
    rename_i c' hc'
    rcases List.mem_cons.mp hc' with rfl | h'
    · exact ihc
    · exact ihcs c' h'

theorem flatMap_congr' {α β : Type} {l : List α} {f g : α → List β} (h : ∀ a ∈ l, f a = g a) :
    l.flatMap f = l.flatMap g := by
  induction l with
  | nil => rfl
  | cons a l ih =>
    simp only [List.flatMap_cons]
    rw [h a (by simp), ih (fun a ha => h a (by simp [ha]))]

theorem Oct.allElems_node (b : B) (es : List E) (cs : List (Oct B E)) :
    (Oct.node b es cs).allElems = es ++ cs.flatMap (fun c => c.allElems) := by
  simp [Oct.allElems]

theorem Oct.mem_allElems_of_child {b : B} {es : List E} {cs : List (Oct B E)} {c : Oct B E} {e : E}
    (hc : c ∈ cs) (he : e ∈ c.allElems) : e ∈ (Oct.node b es cs).allElems := by
  rw [Oct.allElems_node]
  exact List.mem_append_right _ (List.mem_flatMap.mpr ⟨c, hc, he⟩)

/-- the tree invariant, for an arbitrary relation between a node's bounds and an element:
    every node is related to every element stored at or below it -/
inductive Inv (R : B → E → Prop) : Oct B E → Prop
  | node {b : B} {es : List E} {cs : List (Oct B E)} :
      (∀ e ∈ (Oct.node b es cs).allElems, R b e) → (∀ c ∈ cs, Inv R c) → Inv R (.node b es cs)

theorem Inv.root {R : B → E → Prop} {t : Oct B E} (h : Inv R t) : ∀ e ∈ t.allElems, R t.bounds e := by
  cases h with
  | node h1 _ => exact h1

theorem Inv.children {R : B → E → Prop} {b : B} {es : List E} {cs : List (Oct B E)}
    (h : Inv R (.node b es cs)) : ∀ c ∈ cs, Inv R c := by
  cases h with
  | node _ h2 => exact h2


/-! ### facts about the regenerated AABB code (self-contained copies of the few C17 lemmas used here, so that
    C16 does not depend on another property's file building) -/
section aabb
open Gen.geometry

theorem v3_ext {a b : V3 ℝ} (hx : a.x = b.x) (hy : a.y = b.y) (hz : a.z = b.z) : a = b := by
  cases a; cases b; simp_all

theorem aabb_setMinMax_min (b : AABB ℝ) (mn mx : V3 ℝ) : (b.SetMinMax mn mx).Min = mn := by
  apply v3_ext <;> simp [AABB.SetMinMax, AABB.Min, V3.Sub, V3.Add, V3.Scale]

theorem aabb_setMinMax_max (b : AABB ℝ) (mn mx : V3 ℝ) : (b.SetMinMax mn mx).Max = mx := by
  apply v3_ext <;> simp [AABB.SetMinMax, AABB.Max, V3.Sub, V3.Add, V3.Scale] <;> ring

theorem aabb_contains_iff (b : AABB ℝ) (p : V3 ℝ) :
    b.Contains p = true ↔ (b.Min.x ≤ p.x ∧ b.Min.y ≤ p.y ∧ b.Min.z ≤ p.z ∧ p.x ≤ b.Max.x ∧ p.y ≤ b.Max.y ∧ p.z ≤ b.Max.z) := by
  simp only [AABB.Contains, V3.X, V3.Y, V3.Z, decide_eq_true_eq]
  by_cases h1 : p.x < b.Min.x <;> by_cases h2 : p.y < b.Min.y <;> by_cases h3 : p.z < b.Min.z <;>
  by_cases h4 : b.Max.x < p.x <;> by_cases h5 : b.Max.y < p.y <;> by_cases h6 : b.Max.z < p.z <;>
  simp [h1, h2, h3, h4, h5, h6] <;> (try (intros; linarith)) <;>
  (try (refine ⟨?_,?_,?_,?_,?_,?_⟩ <;> linarith))

theorem aabb_encapsulatePoint_contains (b : AABB ℝ) (p : V3 ℝ) :
    (b.EncapsulatePoint p).Contains p = true := by
  rw [aabb_contains_iff]
  simp only [AABB.EncapsulatePoint, aabb_setMinMax_min, aabb_setMinMax_max, minVector, maxVector, V3.New, V3.X, V3.Y, V3.Z]
  simp

theorem aabb_encapsulatePoint_mono (b : AABB ℝ) (p q : V3 ℝ) (h : b.Contains q = true) :
    (b.EncapsulatePoint p).Contains q = true := by
  rw [aabb_contains_iff] at *
  simp only [AABB.EncapsulatePoint, aabb_setMinMax_min, aabb_setMinMax_max, minVector, maxVector, V3.New, V3.X, V3.Y, V3.Z]
  obtain ⟨h1, h2, h3, h4, h5, h6⟩ := h
  refine ⟨?_, ?_, ?_, ?_, ?_, ?_⟩ <;> simp [*]

theorem aabb_closestPoint_in_box (b : AABB ℝ) (v : V3 ℝ)
    (hx : 0 ≤ b.extents.x) (hy : 0 ≤ b.extents.y) (hz : 0 ≤ b.extents.z) :
    b.Contains (b.ClosestPoint v) = true := by
  rw [aabb_contains_iff]
  simp only [AABB.ClosestPoint, Gen.geometry.clamp, V3.SetX, V3.SetY, V3.SetZ, V3.X, V3.Y, V3.Z, AABB.Min, AABB.Max, V3.Sub, V3.Add]
  refine ⟨?_, ?_, ?_, ?_, ?_, ?_⟩ <;> simp <;> linarith

end aabb

/-! ### real-number facts about the box code -/

abbrev Box := AABB ℝ
abbrev P3 := V3 ℝ

/-- box inclusion, phrased with the code's own `Contains`: `B` contains both corners of `A` -/
def BoxSub (A B : Box) : Prop := B.Contains A.Min = true ∧ B.Contains A.Max = true

theorem contains_mono {A B : Box} (h : BoxSub A B) (v : P3) (hv : A.Contains v = true) :
    B.Contains v = true := by
  obtain ⟨h1, h2⟩ := h
  rw [aabb_contains_iff] at *
  obtain ⟨a1, a2, a3, a4, a5, a6⟩ := h1
  obtain ⟨b1, b2, b3, b4, b5, b6⟩ := h2
  obtain ⟨c1, c2, c3, c4, c5, c6⟩ := hv
  refine ⟨?_, ?_, ?_, ?_, ?_, ?_⟩ <;> linarith

theorem clamp_between (p lo hi l u : ℝ) (h1 : l ≤ lo) (h2 : l ≤ hi) (h3 : hi ≤ u) :
    l ≤ Gen.geometry.clamp p lo hi ∧ Gen.geometry.clamp p lo hi ≤ u := by
  simp only [Gen.geometry.clamp]
  constructor
  · exact le_min (le_trans h1 (le_max_right _ _)) h2
  · exact le_trans (min_le_right _ _) h3

/-- the closest point of `A` to anything lies in every box that contains `A`'s corners -/
theorem closestPoint_mem_of_sub {A B : Box} (h : BoxSub A B) (p : P3) :
    B.Contains (A.ClosestPoint p) = true := by
  obtain ⟨h1, h2⟩ := h
  rw [aabb_contains_iff] at *
  obtain ⟨a1, a2, a3, a4, a5, a6⟩ := h1
  obtain ⟨b1, b2, b3, b4, b5, b6⟩ := h2
  simp only [AABB.ClosestPoint, V3.SetX, V3.SetY, V3.SetZ, V3.X, V3.Y, V3.Z]
  have hx := clamp_between p.x A.Min.x A.Max.x B.Min.x B.Max.x a1 b1 b4
  have hy := clamp_between p.y A.Min.y A.Max.y B.Min.y B.Max.y a2 b2 b5
  have hz := clamp_between p.z A.Min.z A.Max.z B.Min.z B.Max.z a3 b3 b6
  exact ⟨hx.1, hy.1, hz.1, hx.2, hy.2, hz.2⟩

theorem clamp_nearest (p lo hi y : ℝ) (h1 : lo ≤ y) (h2 : y ≤ hi) :
    (p - Gen.geometry.clamp p lo hi) * (p - Gen.geometry.clamp p lo hi) ≤ (p - y) * (p - y) := by
  simp only [Gen.geometry.clamp]
  rcases le_total p lo with hp | hp
  · have e : min (max p lo) hi = lo := by
      rw [max_eq_right hp, min_eq_left (le_trans h1 h2)]
    rw [e]; nlinarith
  · rcases le_total p hi with hq | hq
    · have e : min (max p lo) hi = p := by rw [max_eq_left hp, min_eq_left hq]
      rw [e]; nlinarith
    · have e : min (max p lo) hi = hi := by
        rw [max_eq_left hp, min_eq_right hq]
      rw [e]; nlinarith

/-- `aabb_lower_bound`: the box's `ClosestPoint` is at least as close to `p` as any point of the box -/
theorem aabb_lower_bound_aux (B : Box) (p q : P3) (hq : B.Contains q = true) :
    (B.ClosestPoint p).DistanceSquared p ≤ q.DistanceSquared p := by
  rw [aabb_contains_iff] at hq
  obtain ⟨a1, a2, a3, a4, a5, a6⟩ := hq
  simp only [AABB.ClosestPoint, V3.SetX, V3.SetY, V3.SetZ, V3.X, V3.Y, V3.Z, V3.DistanceSquared]
  have hx := clamp_nearest p.x B.Min.x B.Max.x q.x a1 a4
  have hy := clamp_nearest p.y B.Min.y B.Max.y q.y a2 a5
  have hz := clamp_nearest p.z B.Min.z B.Max.z q.z a3 a6
  linarith

theorem distance_mono_aux (a b p : P3) (h : a.DistanceSquared p ≤ b.DistanceSquared p) :
    a.Distance p ≤ b.Distance p := by
  simp only [V3.Distance, RS.sqrt_eq]
  exact Real.sqrt_le_sqrt h

/-- a larger box is at most as far away -/
theorem box_distance_mono {A B : Box} (h : BoxSub A B) (p : P3) :
    (B.ClosestPoint p).Distance p ≤ (A.ClosestPoint p).Distance p :=
  distance_mono_aux _ _ _ (aabb_lower_bound_aux B p _ (closestPoint_mem_of_sub h p))

/-! ### the slab test -/

theorem slabArith_eq (o d tmin tmax lo hi : ℝ) :
    slabArith o d tmin tmax lo hi =
      (decide (min tmax (max ((lo - o) * (1 / d)) ((hi - o) * (1 / d))) ≤
               max tmin (min ((lo - o) * (1 / d)) ((hi - o) * (1 / d)))),
       max tmin (min ((lo - o) * (1 / d)) ((hi - o) * (1 / d))),
       min tmax (max ((lo - o) * (1 / d)) ((hi - o) * (1 / d)))) := by
  simp only [slabArith, Nat.cast_one]
  set t0 := (lo - o) * (1 / d)
  set t1 := (hi - o) * (1 / d)
  have e1 : (if t1 < t0 then t1 else t0) = min t0 t1 := by
    split_ifs with h
    · exact (min_eq_right (le_of_lt h)).symm
    · exact (min_eq_left (not_lt.mp h)).symm
  have e2 : (if t1 < t0 then t0 else t1) = max t0 t1 := by
    split_ifs with h
    · exact (max_eq_left (le_of_lt h)).symm
    · exact (max_eq_right (not_lt.mp h)).symm
  rw [e1, e2]
  have e3 : (if tmin < min t0 t1 then min t0 t1 else tmin) = max tmin (min t0 t1) := by
    split_ifs with h
    · exact (max_eq_right (le_of_lt h)).symm
    · exact (max_eq_left (not_lt.mp h)).symm
  have e4 : (if max t0 t1 < tmax then max t0 t1 else tmax) = min tmax (max t0 t1) := by
    split_ifs with h
    · exact (min_eq_right (le_of_lt h)).symm
    · exact (min_eq_left (not_lt.mp h)).symm
  rw [e3, e4]

/-- non-zero direction component: the arithmetic -/
theorem slabComponent_ne (o d tmin tmax lo hi : ℝ) (hd : d ≠ 0) :
    slabComponent o d tmin tmax lo hi = slabArith o d tmin tmax lo hi := by
  simp [slabComponent, hd]

/-- zero direction component, origin strictly inside the slab: the range is left alone -/
theorem slabComponent_zero_in (o tmin tmax lo hi : ℝ) (h1 : lo < o) (h2 : o < hi) :
    slabComponent o 0 tmin tmax lo hi = (decide (tmax ≤ tmin), tmin, tmax) := by
  simp [slabComponent, h1, h2]

/-- zero direction component, origin not strictly inside: rejected (on a face the IEEE outcome depends on the
    sign of the zero; the real-number reading rejects) -/
theorem slabComponent_zero_out (o tmin tmax lo hi : ℝ) (h : ¬ (lo < o ∧ o < hi)) :
    (slabComponent o 0 tmin tmax lo hi).1 = true := by
  have h' : (decide (lo < o) && decide (o < hi)) = false := by
    simp only [Bool.and_eq_false_iff, decide_eq_false_iff_not]
    by_cases h1 : lo < o
    · exact Or.inr (fun h2 => h ⟨h1, h2⟩)
    · exact Or.inl h1
  simp only [slabComponent, Nat.cast_zero, RS.beq_eq, decide_true, if_true, h', Bool.false_eq_true, if_false]
  split_ifs
  · rfl
  · rw [slabArith_eq]
    simp only [div_zero, mul_zero, min_self, max_self, decide_eq_true_eq]
    exact le_trans (min_le_right _ _) (le_max_right _ _)

/-- one axis: a wider slab (`loB ≤ loA`, `hiA ≤ hiB`, and the slabs overlap) entered with a wider range
    rejects only if the narrower one rejects, and if the narrower one does not reject it leaves a wider range -/
theorem slabComponent_mono (o d tminA tmaxA tminB tmaxB loA hiA loB hiB : ℝ)
    (h1 : tminB ≤ tminA) (h2 : tmaxA ≤ tmaxB) (h3 : loB ≤ loA) (h4 : hiA ≤ hiB)
    (h5 : loB ≤ hiA) (h6 : loA ≤ hiB) :
    ((slabComponent o d tminB tmaxB loB hiB).1 = true → (slabComponent o d tminA tmaxA loA hiA).1 = true) ∧
    ((slabComponent o d tminA tmaxA loA hiA).1 = false →
      (slabComponent o d tminB tmaxB loB hiB).2.1 ≤ (slabComponent o d tminA tmaxA loA hiA).2.1 ∧
      (slabComponent o d tminA tmaxA loA hiA).2.2 ≤ (slabComponent o d tminB tmaxB loB hiB).2.2) := by
  by_cases hd : d = 0
  · subst hd
    by_cases hA : loA < o ∧ o < hiA
    · have hB : loB < o ∧ o < hiB := ⟨lt_of_le_of_lt h3 hA.1, lt_of_lt_of_le hA.2 h4⟩
      rw [slabComponent_zero_in _ _ _ _ _ hA.1 hA.2, slabComponent_zero_in _ _ _ _ _ hB.1 hB.2]
      simp only [decide_eq_true_eq]
      exact ⟨fun hr => le_trans h2 (le_trans hr h1), fun _ => ⟨h1, h2⟩⟩
    · have := slabComponent_zero_out o tminA tmaxA loA hiA hA
      exact ⟨fun _ => this, fun hf => by rw [this] at hf; cases hf⟩
  · rw [slabComponent_ne _ _ _ _ _ _ hd, slabComponent_ne _ _ _ _ _ _ hd]
    simp only [slabArith_eq, decide_eq_true_eq]
    set k := 1 / d
    have hL : min ((loB - o) * k) ((hiB - o) * k) ≤ min ((loA - o) * k) ((hiA - o) * k) := by
      rcases le_total 0 k with hk | hk
      · apply le_min
        · exact le_trans (min_le_left _ _) (mul_le_mul_of_nonneg_right (by linarith) hk)
        · exact le_trans (min_le_left _ _) (mul_le_mul_of_nonneg_right (by linarith) hk)
      · apply le_min
        · exact le_trans (min_le_right _ _) (mul_le_mul_of_nonpos_right (by linarith) hk)
        · exact le_trans (min_le_right _ _) (mul_le_mul_of_nonpos_right (by linarith) hk)
    have hH : max ((loA - o) * k) ((hiA - o) * k) ≤ max ((loB - o) * k) ((hiB - o) * k) := by
      rcases le_total 0 k with hk | hk
      · apply max_le
        · exact le_trans (mul_le_mul_of_nonneg_right (by linarith) hk) (le_max_right _ _)
        · exact le_trans (mul_le_mul_of_nonneg_right (by linarith) hk) (le_max_right _ _)
      · apply max_le
        · exact le_trans (mul_le_mul_of_nonpos_right (by linarith) hk) (le_max_left _ _)
        · exact le_trans (mul_le_mul_of_nonpos_right (by linarith) hk) (le_max_left _ _)
    have hmin : max tminB (min ((loB - o) * k) ((hiB - o) * k)) ≤ max tminA (min ((loA - o) * k) ((hiA - o) * k)) :=
      max_le_max h1 hL
    have hmax : min tmaxA (max ((loA - o) * k) ((hiA - o) * k)) ≤ min tmaxB (max ((loB - o) * k) ((hiB - o) * k)) :=
      min_le_min h2 hH
    exact ⟨fun hr => le_trans hmax (le_trans hr hmin), fun _ => ⟨hmin, hmax⟩⟩

/-- the slab test is monotone in the box AND in the range — every ray, zero direction components included -/
theorem slab_mono_range {A B : Box} (h : BoxSub A B) (o d : P3) (mn mx mnB mxB : ℝ) (hr1 : mnB ≤ mn) (hr2 : mx ≤ mxB)
    (hA : intersectsRayInRange A o d mn mx = true) : intersectsRayInRange B o d mnB mxB = true := by
  obtain ⟨h1, h2⟩ := h
  rw [aabb_contains_iff] at h1 h2
  obtain ⟨a1, a2, a3, a4, a5, a6⟩ := h1
  obtain ⟨b1, b2, b3, b4, b5, b6⟩ := h2
  have keps : (0 : ℝ) ≤ kEps := by simp [kEps]
  simp only [intersectsRayInRange] at hA ⊢
  -- x
  cases hax : (slabComponent o.x d.x mn mx (A.Min.x - kEps) (A.Max.x + kEps)).1 with
  | true => simp [hax] at hA
  | false =>
    obtain ⟨x3, xr⟩ := slabComponent_mono o.x d.x mn mx mnB mxB (A.Min.x - kEps) (A.Max.x + kEps) (B.Min.x - kEps) (B.Max.x + kEps)
      hr1 hr2 (by linarith) (by linarith) (by linarith) (by linarith)
    obtain ⟨x1, x2⟩ := xr hax
    have hbx : (slabComponent o.x d.x mnB mxB (B.Min.x - kEps) (B.Max.x + kEps)).1 = false := by
      cases hb : (slabComponent o.x d.x mnB mxB (B.Min.x - kEps) (B.Max.x + kEps)).1 with
      | false => rfl
      | true => rw [x3 hb] at hax; cases hax
    simp only [hax, hbx, Bool.false_eq_true, if_false] at hA ⊢
    -- y
    cases hay : (slabComponent o.y d.y (slabComponent o.x d.x mn mx (A.Min.x - kEps) (A.Max.x + kEps)).2.1
        (slabComponent o.x d.x mn mx (A.Min.x - kEps) (A.Max.x + kEps)).2.2 (A.Min.y - kEps) (A.Max.y + kEps)).1 with
    | true => simp [hay] at hA
    | false =>
      obtain ⟨y3, yr⟩ := slabComponent_mono o.y d.y _ _ _ _ (A.Min.y - kEps) (A.Max.y + kEps) (B.Min.y - kEps) (B.Max.y + kEps)
        x1 x2 (by linarith) (by linarith) (by linarith) (by linarith)
      obtain ⟨y1, y2⟩ := yr hay
      have hby : (slabComponent o.y d.y (slabComponent o.x d.x mnB mxB (B.Min.x - kEps) (B.Max.x + kEps)).2.1
          (slabComponent o.x d.x mnB mxB (B.Min.x - kEps) (B.Max.x + kEps)).2.2 (B.Min.y - kEps) (B.Max.y + kEps)).1 = false := by
        cases hb : (slabComponent o.y d.y (slabComponent o.x d.x mnB mxB (B.Min.x - kEps) (B.Max.x + kEps)).2.1
          (slabComponent o.x d.x mnB mxB (B.Min.x - kEps) (B.Max.x + kEps)).2.2 (B.Min.y - kEps) (B.Max.y + kEps)).1 with
        | false => rfl
        | true => rw [y3 hb] at hay; cases hay
      simp only [hay, hby, Bool.false_eq_true, if_false] at hA ⊢
      -- z
      obtain ⟨z3, _⟩ := slabComponent_mono o.z d.z _ _ _ _ (A.Min.z - kEps) (A.Max.z + kEps) (B.Min.z - kEps) (B.Max.z + kEps)
        y1 y2 (by linarith) (by linarith) (by linarith) (by linarith)
      cases hbz : (slabComponent o.z d.z
          (slabComponent o.y d.y (slabComponent o.x d.x mnB mxB (B.Min.x - kEps) (B.Max.x + kEps)).2.1
            (slabComponent o.x d.x mnB mxB (B.Min.x - kEps) (B.Max.x + kEps)).2.2 (B.Min.y - kEps) (B.Max.y + kEps)).2.1
          (slabComponent o.y d.y (slabComponent o.x d.x mnB mxB (B.Min.x - kEps) (B.Max.x + kEps)).2.1
            (slabComponent o.x d.x mnB mxB (B.Min.x - kEps) (B.Max.x + kEps)).2.2 (B.Min.y - kEps) (B.Max.y + kEps)).2.2
          (B.Min.z - kEps) (B.Max.z + kEps)).1 with
      | false => simp
      | true => have := z3 hbz; simp [this] at hA


/-- the three-axis slab test over an arbitrary per-axis step `comp` -/
noncomputable def slab3 (comp : ℝ → ℝ → ℝ → ℝ → ℝ → ℝ → Bool × ℝ × ℝ) (b : Box) (o d : P3) (mn mx : ℝ) : Bool :=
  let rx := comp o.x d.x mn mx (b.Min.x - kEps) (b.Max.x + kEps)
  if rx.1 then false else
  let ry := comp o.y d.y rx.2.1 rx.2.2 (b.Min.y - kEps) (b.Max.y + kEps)
  if ry.1 then false else
  let rz := comp o.z d.z ry.2.1 ry.2.2 (b.Min.z - kEps) (b.Max.z + kEps)
  if rz.1 then false else true

/-- the per-axis monotonicity property (`slabComponent_mono`) -/
def AxisMono (comp : ℝ → ℝ → ℝ → ℝ → ℝ → ℝ → Bool × ℝ × ℝ) : Prop :=
  ∀ (o d tminA tmaxA tminB tmaxB loA hiA loB hiB : ℝ), tminB ≤ tminA → tmaxA ≤ tmaxB → loB ≤ loA → hiA ≤ hiB →
    loB ≤ hiA → loA ≤ hiB →
    ((comp o d tminB tmaxB loB hiB).1 = true → (comp o d tminA tmaxA loA hiA).1 = true) ∧
    ((comp o d tminA tmaxA loA hiA).1 = false →
      (comp o d tminB tmaxB loB hiB).2.1 ≤ (comp o d tminA tmaxA loA hiA).2.1 ∧
      (comp o d tminA tmaxA loA hiA).2.2 ≤ (comp o d tminB tmaxB loB hiB).2.2)

/-- any three-axis slab test whose per-axis step is monotone is monotone in the box and in the range -/
theorem slab3_mono (comp : ℝ → ℝ → ℝ → ℝ → ℝ → ℝ → Bool × ℝ × ℝ) (slabComponent_mono : AxisMono comp)
    {A B : Box} (h : BoxSub A B) (o d : P3) (mn mx mnB mxB : ℝ) (hr1 : mnB ≤ mn) (hr2 : mx ≤ mxB)
    (hA : slab3 comp A o d mn mx = true) : slab3 comp B o d mnB mxB = true := by
  obtain ⟨h1, h2⟩ := h
  rw [aabb_contains_iff] at h1 h2
  obtain ⟨a1, a2, a3, a4, a5, a6⟩ := h1
  obtain ⟨b1, b2, b3, b4, b5, b6⟩ := h2
  have keps : (0 : ℝ) ≤ kEps := by simp [kEps]
  simp only [slab3] at hA ⊢
  -- x
  cases hax : (comp o.x d.x mn mx (A.Min.x - kEps) (A.Max.x + kEps)).1 with
  | true => simp [hax] at hA
  | false =>
    obtain ⟨x3, xr⟩ := slabComponent_mono o.x d.x mn mx mnB mxB (A.Min.x - kEps) (A.Max.x + kEps) (B.Min.x - kEps) (B.Max.x + kEps)
      hr1 hr2 (by linarith) (by linarith) (by linarith) (by linarith)
    obtain ⟨x1, x2⟩ := xr hax
    have hbx : (comp o.x d.x mnB mxB (B.Min.x - kEps) (B.Max.x + kEps)).1 = false := by
      cases hb : (comp o.x d.x mnB mxB (B.Min.x - kEps) (B.Max.x + kEps)).1 with
      | false => rfl
      | true => rw [x3 hb] at hax; cases hax
    simp only [hax, hbx, Bool.false_eq_true, if_false] at hA ⊢
    -- y
    cases hay : (comp o.y d.y (comp o.x d.x mn mx (A.Min.x - kEps) (A.Max.x + kEps)).2.1
        (comp o.x d.x mn mx (A.Min.x - kEps) (A.Max.x + kEps)).2.2 (A.Min.y - kEps) (A.Max.y + kEps)).1 with
    | true => simp [hay] at hA
    | false =>
      obtain ⟨y3, yr⟩ := slabComponent_mono o.y d.y _ _ _ _ (A.Min.y - kEps) (A.Max.y + kEps) (B.Min.y - kEps) (B.Max.y + kEps)
        x1 x2 (by linarith) (by linarith) (by linarith) (by linarith)
      obtain ⟨y1, y2⟩ := yr hay
      have hby : (comp o.y d.y (comp o.x d.x mnB mxB (B.Min.x - kEps) (B.Max.x + kEps)).2.1
          (comp o.x d.x mnB mxB (B.Min.x - kEps) (B.Max.x + kEps)).2.2 (B.Min.y - kEps) (B.Max.y + kEps)).1 = false := by
        cases hb : (comp o.y d.y (comp o.x d.x mnB mxB (B.Min.x - kEps) (B.Max.x + kEps)).2.1
          (comp o.x d.x mnB mxB (B.Min.x - kEps) (B.Max.x + kEps)).2.2 (B.Min.y - kEps) (B.Max.y + kEps)).1 with
        | false => rfl
        | true => rw [y3 hb] at hay; cases hay
      simp only [hay, hby, Bool.false_eq_true, if_false] at hA ⊢
      -- z
      obtain ⟨z3, _⟩ := slabComponent_mono o.z d.z _ _ _ _ (A.Min.z - kEps) (A.Max.z + kEps) (B.Min.z - kEps) (B.Max.z + kEps)
        y1 y2 (by linarith) (by linarith) (by linarith) (by linarith)
      cases hbz : (comp o.z d.z
          (comp o.y d.y (comp o.x d.x mnB mxB (B.Min.x - kEps) (B.Max.x + kEps)).2.1
            (comp o.x d.x mnB mxB (B.Min.x - kEps) (B.Max.x + kEps)).2.2 (B.Min.y - kEps) (B.Max.y + kEps)).2.1
          (comp o.y d.y (comp o.x d.x mnB mxB (B.Min.x - kEps) (B.Max.x + kEps)).2.1
            (comp o.x d.x mnB mxB (B.Min.x - kEps) (B.Max.x + kEps)).2.2 (B.Min.y - kEps) (B.Max.y + kEps)).2.2
          (B.Min.z - kEps) (B.Max.z + kEps)).1 with
      | false => simp
      | true => have := z3 hbz; simp [this] at hA



/-- `slab_mono`: the slab test is monotone in the box — every ray, zero direction components included -/
theorem slab_mono {A B : Box} (h : BoxSub A B) (o d : P3) (mn mx : ℝ)
    (hA : intersectsRayInRange A o d mn mx = true) : intersectsRayInRange B o d mn mx = true :=
  slab_mono_range h o d mn mx mn mx le_rfl le_rfl hA


/-! ### the other resolution of the on-face corner: `+0` (closed slab) -/

/-- per-axis step with a zero direction component read as IEEE `+0`: origin on the closed widened slab (faces
    included: `0·(+Inf) = NaN` compares false everywhere, the range is left alone) ⇒ unchanged, else reject.
    (`slabComponent` itself is the `-0` reading on the faces: reject.) -/
noncomputable def slabComponentPos (o d tmin tmax lo hi : ℝ) : Bool × ℝ × ℝ :=
  if d = 0 then (if lo ≤ o ∧ o ≤ hi then (decide (tmax ≤ tmin), tmin, tmax) else (true, tmin, tmax))
  else slabArith o d tmin tmax lo hi

theorem slabComponent_axisMono : AxisMono slabComponent :=
  fun o d tminA tmaxA tminB tmaxB loA hiA loB hiB h1 h2 h3 h4 h5 h6 =>
    slabComponent_mono o d tminA tmaxA tminB tmaxB loA hiA loB hiB h1 h2 h3 h4 h5 h6

theorem slabComponentPos_axisMono : AxisMono slabComponentPos := by
  intro o d tminA tmaxA tminB tmaxB loA hiA loB hiB h1 h2 h3 h4 h5 h6
  by_cases hd : d = 0
  · subst hd
    simp only [slabComponentPos, if_true]
    by_cases hA : loA ≤ o ∧ o ≤ hiA
    · have hB : loB ≤ o ∧ o ≤ hiB := ⟨le_trans h3 hA.1, le_trans hA.2 h4⟩
      simp only [hA, hB, and_self, if_true, decide_eq_true_eq]
      exact ⟨fun hr => le_trans h2 (le_trans hr h1), fun _ => ⟨h1, h2⟩⟩
    · simp only [hA, if_false]
      exact ⟨fun _ => trivial, fun hf => by cases hf⟩
  · have e1 := slabComponent_ne o d tminA tmaxA loA hiA hd
    have e2 := slabComponent_ne o d tminB tmaxB loB hiB hd
    have := slabComponent_mono o d tminA tmaxA tminB tmaxB loA hiA loB hiB h1 h2 h3 h4 h5 h6
    rw [e1, e2] at this
    simpa [slabComponentPos, hd] using this

/-- `IntersectsRayInRange` with zero direction components read as `+0` -/
noncomputable def intersectsRayInRangePos (b : Box) (o d : P3) (mn mx : ℝ) : Bool := slab3 slabComponentPos b o d mn mx

theorem intersectsRayInRange_eq_slab3 (b : Box) (o d : P3) (mn mx : ℝ) :
    intersectsRayInRange b o d mn mx = slab3 slabComponent b o d mn mx := rfl

/-- the `+0` reading is monotone in the box and in the range too -/
theorem slabPos_mono_range {A B : Box} (h : BoxSub A B) (o d : P3) (mn mx mnB mxB : ℝ) (hr1 : mnB ≤ mn) (hr2 : mx ≤ mxB)
    (hA : intersectsRayInRangePos A o d mn mx = true) : intersectsRayInRangePos B o d mnB mxB = true :=
  slab3_mono slabComponentPos slabComponentPos_axisMono h o d mn mx mnB mxB hr1 hr2 hA

/-- the two readings differ only on the faces: whatever the `-0` reading accepts, the `+0` reading accepts -/
theorem slabPos_of_slab (b : Box) (o d : P3) (mn mx : ℝ) (h : intersectsRayInRange b o d mn mx = true) :
    intersectsRayInRangePos b o d mn mx = true := by
  have key : ∀ o d tmin tmax lo hi : ℝ, (slabComponent o d tmin tmax lo hi).1 = false →
      slabComponentPos o d tmin tmax lo hi = slabComponent o d tmin tmax lo hi := by
    intro o d tmin tmax lo hi hf
    by_cases hd : d = 0
    · subst hd
      by_cases hin : lo < o ∧ o < hi
      · rw [slabComponent_zero_in _ _ _ _ _ hin.1 hin.2]
        simp [slabComponentPos, hin.1.le, hin.2.le]
      · rw [slabComponent_zero_out _ _ _ _ _ hin] at hf; cases hf
    · simp [slabComponentPos, hd, slabComponent_ne _ _ _ _ _ _ hd]
  simp only [intersectsRayInRangePos, slab3]
  simp only [intersectsRayInRange] at h
  cases hx : (slabComponent o.x d.x mn mx (b.Min.x - kEps) (b.Max.x + kEps)).1 with
  | true => simp [hx] at h
  | false =>
    rw [key _ _ _ _ _ _ hx]
    simp only [hx, Bool.false_eq_true, if_false] at h ⊢
    cases hy : (slabComponent o.y d.y (slabComponent o.x d.x mn mx (b.Min.x - kEps) (b.Max.x + kEps)).2.1
        (slabComponent o.x d.x mn mx (b.Min.x - kEps) (b.Max.x + kEps)).2.2 (b.Min.y - kEps) (b.Max.y + kEps)).1 with
    | true => simp [hy] at h
    | false =>
      rw [key _ _ _ _ _ _ hy]
      simp only [hy, Bool.false_eq_true, if_false] at h ⊢
      cases hz : (slabComponent o.z d.z
          (slabComponent o.y d.y (slabComponent o.x d.x mn mx (b.Min.x - kEps) (b.Max.x + kEps)).2.1
            (slabComponent o.x d.x mn mx (b.Min.x - kEps) (b.Max.x + kEps)).2.2 (b.Min.y - kEps) (b.Max.y + kEps)).2.1
          (slabComponent o.y d.y (slabComponent o.x d.x mn mx (b.Min.x - kEps) (b.Max.x + kEps)).2.1
            (slabComponent o.x d.x mn mx (b.Min.x - kEps) (b.Max.x + kEps)).2.2 (b.Min.y - kEps) (b.Max.y + kEps)).2.2
          (b.Min.z - kEps) (b.Max.z + kEps)).1 with
      | true => simp [hz] at h
      | false => rw [key _ _ _ _ _ _ hz]; simp [hz]

end Tree
end PolyVerif
