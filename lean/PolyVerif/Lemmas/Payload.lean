/-
  Helper lemmas for C12 (core Lean only): every payload codec combinator of `PolyVerif.Model.Payload` keeps the
  round-trip law.
-/
import PolyVerif.Model.Payload
import PolyVerif.Lemmas.DepOrder

namespace PolyVerif
namespace Payload
open GraphIO

theorem expect_append (lit r : Txt) : expect lit (lit ++ r) = some r := by
  induction lit with
  | nil => cases r <;> rfl
  | cons a as ih => simp [expect, ih]

theorem delim_not_digit {rest : Txt} (h : Delim rest) : rest.takeWhile isDigit = [] ∧ rest.dropWhile isDigit = rest := by
  cases rest with
  | nil => exact ⟨rfl, rfl⟩
  | cons c r =>
    have : isDigit c = false := by
      rcases h with rfl | rfl | rfl <;> decide
    simp [List.takeWhile, List.dropWhile, this]

theorem span_digits {ds rest : Txt} (hd : ∀ c ∈ ds, isDigit c = true) (h : Delim rest) :
    (ds ++ rest).takeWhile isDigit = ds ∧ (ds ++ rest).dropWhile isDigit = rest := by
  induction ds with
  | nil => simpa using delim_not_digit h
  | cons c cs ih =>
    have hc := hd c List.mem_cons_self
    obtain ⟨i1, i2⟩ := ih (fun c' hc' => hd c' (List.mem_cons_of_mem _ hc'))
    simp [List.takeWhile, List.dropWhile, hc, i1, i2]

theorem parseNat_natDigits (n : Nat) {rest : Txt} (h : Delim rest) : parseNat (natDigits n ++ rest) = some (n, rest) := by
  obtain ⟨h1, h2, h3⟩ := natDigits_spec n
  obtain ⟨s1, s2⟩ := span_digits (fun c hc => (h3 c hc).1) h
  unfold parseNat
  rw [s1, s2]
  cases hn : natDigits n with
  | nil => exact absurd hn h2
  | cons d ds => simp [← hn, h1]

theorem boolC_lawful : boolC.Lawful := by
  refine ⟨?_, ?_⟩
  · intro a rest _
    cases a
    · show (match expect "true".toList ("false".toList ++ rest) with
        | some r => some (true, r)
        | none => match expect "false".toList ("false".toList ++ rest) with
          | some r => some (false, r)
          | none => none) = some (false, rest)
      rw [expect_append]
      have : expect "true".toList ("false".toList ++ rest) = none := by simp [expect]
      rw [this]
    · show (match expect "true".toList ("true".toList ++ rest) with
        | some r => some (true, r)
        | none => match expect "false".toList ("true".toList ++ rest) with
          | some r => some (false, r)
          | none => none) = some (true, rest)
      rw [expect_append]
  · intro a
    cases a
    · exact ⟨'f', "alse".toList, rfl, by decide⟩
    · exact ⟨'t', "rue".toList, rfl, by decide⟩

theorem intC_lawful : intC.Lawful := by
  refine ⟨?_, ?_⟩
  · intro i rest hd
    by_cases hi : i < 0
    · have : intC.print i = '-' :: natDigits i.natAbs := by simp [intC, printInt, hi]
      rw [this]
      simp only [intC, List.cons_append, parseNat_natDigits _ hd, Option.map_some]
      congr 2
      omega
    · have hp : intC.print i = natDigits i.toNat := by simp [intC, printInt, hi]
      rw [hp]
      obtain ⟨_, h2, h3⟩ := natDigits_spec i.toNat
      cases hs : natDigits i.toNat with
      | nil => exact absurd hs h2
      | cons c cs =>
        have hc : c ≠ '-' := by
          intro e
          have := (h3 c (hs ▸ List.mem_cons_self)).1
          subst e
          revert this; decide
        have hpn := parseNat_natDigits i.toNat hd
        rw [hs] at hpn
        simp only [intC, List.cons_append] at hpn ⊢
        split
        · rename_i r heq
          cases heq
          exact absurd rfl hc
        · rw [hpn]
          simp only [Option.map_some]
          congr 2
          omega
  · intro i
    by_cases hi : i < 0
    · exact ⟨'-', natDigits i.natAbs, by simp [intC, printInt, hi], by decide⟩
    · obtain ⟨_, h2, h3⟩ := natDigits_spec i.toNat
      cases hs : natDigits i.toNat with
      | nil => exact absurd hs h2
      | cons c cs =>
        refine ⟨c, cs, by simp [intC, printInt, hi, hs], ?_⟩
        intro e
        have := (h3 c (hs ▸ List.mem_cons_self)).1
        subst e
        revert this; decide

/-! ### strings -/

theorem unhexNib_hexNib (n : Nat) (h : n < 16) : unhexNib (hexNib n) = some n := by
  match n, h with
  | 0, _ => decide | 1, _ => decide | 2, _ => decide | 3, _ => decide
  | 4, _ => decide | 5, _ => decide | 6, _ => decide | 7, _ => decide
  | 8, _ => decide | 9, _ => decide | 10, _ => decide | 11, _ => decide
  | 12, _ => decide | 13, _ => decide | 14, _ => decide | 15, _ => decide
  | n + 16, h => omega

theorem needsU_small {c : Char} (h : needsU c = true) : c.toNat < 65536 := by
  simp only [needsU, Bool.or_eq_true, decide_eq_true_eq] at h
  rcases h with ((((h | h) | h) | h) | h) | h
  · omega
  · subst h; decide
  · subst h; decide
  · subst h; decide
  · omega
  · omega

theorem esc_ne_nil (c : Char) : esc c ≠ [] := by
  unfold esc
  repeat' split
  all_goals simp

theorem length_flatMap_esc (s : Txt) : s.length ≤ (s.flatMap esc).length := by
  induction s with
  | nil => simp
  | cons c cs ih =>
    simp only [List.flatMap_cons, List.length_append, List.length_cons]
    have : 0 < (esc c).length := List.length_pos_iff.mpr (esc_ne_nil c)
    omega

/-- one escaped character is read back as that character -/
theorem unesc_esc_step (c : Char) (t : Txt) (f : Nat) :
    unesc (f + 1) (esc c ++ t) = (unesc f t).map fun (s, r) => (c :: s, r) := by
  unfold esc
  by_cases h1 : c = '"'
  · subst h1; simp [unesc]
  by_cases h2 : c = '\\'
  · subst h2; simp [unesc]
  by_cases h3 : c = '\n'
  · subst h3; simp [unesc]
  by_cases h4 : c = '\r'
  · subst h4; simp [unesc]
  by_cases h5 : c = '\t'
  · subst h5; simp [unesc]
  by_cases h6 : c.toNat = 8
  · have : c = Char.ofNat 8 := by rw [← h6, Char.ofNat_toNat]
    simp [h1, h2, h3, h4, h5, h6, unesc, this]
  by_cases h7 : c.toNat = 12
  · have : c = Char.ofNat 12 := by rw [← h7, Char.ofNat_toNat]
    simp [h1, h2, h3, h4, h5, h6, h7, unesc, this]
  by_cases h8 : needsU c = true
  · have hs := needsU_small h8
    have e1 := unhexNib_hexNib (c.toNat / 4096 % 16) (Nat.mod_lt _ (by omega))
    have e2 := unhexNib_hexNib (c.toNat / 256 % 16) (Nat.mod_lt _ (by omega))
    have e3 := unhexNib_hexNib (c.toNat / 16 % 16) (Nat.mod_lt _ (by omega))
    have e4 := unhexNib_hexNib (c.toNat % 16) (Nat.mod_lt _ (by omega))
    have hv : ((c.toNat / 4096 % 16 * 16 + c.toNat / 256 % 16) * 16 + c.toNat / 16 % 16) * 16 + c.toNat % 16 = c.toNat := by
      omega
    simp [h1, h2, h3, h4, h5, h6, h7, h8, unesc, hex4, e1, e2, e3, e4, hv, Char.ofNat_toNat]
  · simp [h1, h2, h3, h4, h5, h6, h7, h8, unesc]

theorem unesc_flatMap (s rest : Txt) (f : Nat) (hf : s.length < f) :
    unesc f (s.flatMap esc ++ '"' :: rest) = some (s, rest) := by
  induction s generalizing f with
  | nil =>
    obtain ⟨f', rfl⟩ : ∃ f', f = f' + 1 := ⟨f - 1, by omega⟩
    simp [unesc]
  | cons c cs ih =>
    obtain ⟨f', rfl⟩ : ∃ f', f = f' + 1 := ⟨f - 1, by omega⟩
    simp only [List.flatMap_cons, List.append_assoc]
    rw [unesc_esc_step, ih f' (by simpa using hf)]
    rfl

theorem strC_lawful : strC.Lawful := by
  refine ⟨?_, fun a => ⟨'"', _, rfl, by decide⟩⟩
  intro s rest _
  show unesc ((s.flatMap esc ++ ['"'] ++ rest).length + 1) (s.flatMap esc ++ ['"'] ++ rest) = some (s, rest)
  rw [List.append_assoc]
  apply unesc_flatMap
  have := length_flatMap_esc s
  simp only [List.length_append, List.length_cons, List.length_nil]
  omega

/-! ### arrays -/

theorem length_printElems {α : Type} (c : Codec α) (l : List α) : l.length ≤ (printElems c l).length := by
  induction l with
  | nil => simp [printElems]
  | cons a as ih =>
    cases as with
    | nil => simp [printElems]
    | cons b r =>
      simp only [printElems, List.length_append, List.length_cons] at ih ⊢
      omega

theorem parseElems_printElems {α : Type} {c : Codec α} (hc : c.Lawful) (l : List α) (hl : l ≠ []) (rest : Txt)
    (f : Nat) (hf : l.length ≤ f) : parseElems c f (printElems c l ++ rest) = some (l, rest) := by
  induction l generalizing f with
  | nil => exact absurd rfl hl
  | cons a as ih =>
    obtain ⟨f', rfl⟩ : ∃ f', f = f' + 1 := ⟨f - 1, by simp at hf; omega⟩
    cases as with
    | nil =>
      simp only [printElems, parseElems, List.append_assoc, List.singleton_append]
      rw [hc.law a (']' :: rest) (Or.inr (Or.inl rfl))]
      simp
    | cons b r =>
      simp only [printElems, parseElems, List.append_assoc, List.cons_append]
      rw [hc.law a (',' :: (printElems c (b :: r) ++ rest)) (Or.inl rfl)]
      simp only
      rw [ih (by simp) f' (by simp at hf ⊢; omega)]
      rfl

theorem arrC_lawful {α : Type} {c : Codec α} (hc : c.Lawful) : (arrC c).Lawful := by
  refine ⟨?_, fun a => ⟨'[', _, rfl, by decide⟩⟩
  intro l rest _
  cases l with
  | nil => rfl
  | cons a as =>
    obtain ⟨h, t, hp, hne⟩ := hc.head a
    have hstart : ∃ t', printElems c (a :: as) ++ rest = h :: t' := by
      cases as with
      | nil => exact ⟨t ++ ']' :: rest, by simp [printElems, hp]⟩
      | cons b r => exact ⟨t ++ ',' :: (printElems c (b :: r) ++ rest), by simp [printElems, hp]⟩
    obtain ⟨t', ht'⟩ := hstart
    have hlen := length_printElems c (a :: as)
    show (match '[' :: printElems c (a :: as) ++ rest with
      | '[' :: ']' :: r => some ([], r)
      | '[' :: r => parseElems c (r.length + 1) r
      | _ => none) = some (a :: as, rest)
    simp only [List.cons_append]
    rw [ht']
    split
    · rename_i r heq
      simp only [List.cons.injEq, true_and] at heq
      exact absurd heq.1 hne
    · rename_i r _ heq
      simp only [List.cons.injEq, true_and] at heq
      subst heq
      rw [← ht']
      apply parseElems_printElems hc _ (by simp)
      simp only [List.length_append] at hlen ⊢
      omega
    · rename_i h1 h2
      exact absurd rfl (h2 _)

theorem sliceC_lawful {α : Type} {c : Codec α} (hc : c.Lawful) : (sliceC c).Lawful := by
  refine ⟨?_, ?_⟩
  · intro o rest hd
    cases o with
    | none =>
      show (match expect "null".toList ("null".toList ++ rest) with
        | some r => some (none, r)
        | none => ((arrC c).parse ("null".toList ++ rest)).map fun (l, t) => (some l, t)) = some (none, rest)
      rw [expect_append]
    | some l =>
      show (match expect "null".toList ((arrC c).print l ++ rest) with
        | some r => some (none, r)
        | none => ((arrC c).parse ((arrC c).print l ++ rest)).map fun (l, t) => (some l, t)) = some (some l, rest)
      have : expect "null".toList ((arrC c).print l ++ rest) = none := by simp [arrC, expect]
      rw [this, (arrC_lawful hc).law l rest hd]
      rfl
  · intro o
    cases o with
    | none => exact ⟨'n', "ull".toList, rfl, by decide⟩
    | some l => exact ⟨'[', _, rfl, by decide⟩

/-! ### objects -/

theorem obj2_lawful {α β : Type} (k1 k2 : String) {c1 : Codec α} {c2 : Codec β} (h1 : c1.Lawful) (h2 : c2.Lawful) :
    (obj2 k1 k2 c1 c2).Lawful := by
  refine ⟨?_, fun a => ⟨'{', _, rfl, by decide⟩⟩
  rintro ⟨a, b⟩ rest _
  have e : (obj2 k1 k2 c1 c2).print (a, b) ++ rest =
      ('{' :: keyTxt k1) ++ (c1.print a ++ ((',' :: keyTxt k2) ++ (c2.print b ++ ('}' :: rest)))) := by
    simp [obj2]
  have l1 := h1.law a ((',' :: keyTxt k2) ++ (c2.print b ++ ('}' :: rest))) (Or.inl rfl)
  have l2 := h2.law b ('}' :: rest) (Or.inr (Or.inr rfl))
  rw [e]
  simp only [obj2, expect_append, l1, l2]
  simp [expect]

theorem obj3_lawful {α β γ : Type} (k1 k2 k3 : String) {c1 : Codec α} {c2 : Codec β} {c3 : Codec γ}
    (h1 : c1.Lawful) (h2 : c2.Lawful) (h3 : c3.Lawful) : (obj3 k1 k2 k3 c1 c2 c3).Lawful := by
  refine ⟨?_, fun a => ⟨'{', _, rfl, by decide⟩⟩
  rintro ⟨a, b, g⟩ rest _
  have e : (obj3 k1 k2 k3 c1 c2 c3).print (a, b, g) ++ rest =
      ('{' :: keyTxt k1) ++ (c1.print a ++ ((',' :: keyTxt k2) ++ (c2.print b ++ ((',' :: keyTxt k3) ++ (c3.print g ++ ('}' :: rest)))))) := by
    simp [obj3]
  have l1 := h1.law a ((',' :: keyTxt k2) ++ (c2.print b ++ ((',' :: keyTxt k3) ++ (c3.print g ++ ('}' :: rest))))) (Or.inl rfl)
  have l2 := h2.law b ((',' :: keyTxt k3) ++ (c3.print g ++ ('}' :: rest))) (Or.inl rfl)
  have l3 := h3.law g ('}' :: rest) (Or.inr (Or.inr rfl))
  rw [e]
  simp only [obj3, expect_append, l1, l2, l3]
  simp [expect]

theorem whole_law {α : Type} {c : Codec α} (hc : c.Lawful) (a : α) : whole (c.parse (c.print a)) = some a := by
  have := hc.law a [] trivial
  rw [List.append_nil] at this
  rw [this]
  rfl

end Payload
end PolyVerif
