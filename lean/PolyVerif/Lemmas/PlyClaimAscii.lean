/-
  C04 — the ASCII claim stage (`ClaimOKA`) from the header-level guards `claimGuard` + `asciiGuard` (core Lean only).
-/
import PolyVerif.Lemmas.PlyClaim
import PolyVerif.Lemmas.PlyAscii

namespace PolyVerif
namespace PlyClaim
open Ply PlyLemmas PlyCompose PlyAscii

theorem locatedA_of_good (ws : List WProp) (hnd : (wsNames ws).Nodup) (b : Built) (h : Good false ws b) :
    LocatedNamedA (headerProps ws) b (b.names.map (posOf (headerProps ws))) := by
  obtain ⟨w, hw, hsub, hoffs, hty⟩ := h
  rw [← wsProps_eq]
  refine ⟨⟨?_, ?_⟩, by simp, ?_⟩
  · rw [hoffs]
    apply List.ext_getElem (by simp)
    intro k hk hk'
    simp only [List.getElem_map]
    obtain ⟨h1, _⟩ := writer_positions ws hnd w hw b.names hsub k (by simpa using hk)
    exact locOf_ascii _ _ (by omega)
  · intro i hi
    obtain ⟨n, hn, rfl⟩ := List.mem_map.mp hi
    obtain ⟨k, hk, rfl⟩ := List.getElem_of_mem hn
    obtain ⟨h1, h2⟩ := writer_positions ws hnd w hw b.names hsub k hk
    refine ⟨by simpa using h1, ?_⟩
    simp only [List.getElem_map, h2]
    rcases hty with h | ⟨_, h, hne⟩
    · rw [h]; simp
    · rw [h]; simp [hne]
  · intro k hk hk'
    obtain ⟨h1, h2⟩ := writer_positions ws hnd w hw b.names hsub k hk'
    simp [List.getElem?_eq_getElem h1, h2]

/-- THE ASCII CLAIM STAGE FROM THE HEADER-LEVEL GUARDS: `ClaimOKA`, the hypothesis of the composed ASCII round-trip theorems,
with the reader list `buildAll` itself as witness -/
theorem claimOKA_of_guard {α : Type} (cfg : WriterCfg) (m : MeshVal α)
    (hnd : (wsNames (selectWriters cfg m)).Nodup) (hg : claimGuard (selectWriters cfg m) = true)
    (hA : asciiGuard (selectWriters cfg m) = true) :
    ClaimOKA cfg m ((buildAll false (headerProps (selectWriters cfg m)) defaultReaders true).map
      (fun b => (b, b.names.map (posOf (headerProps (selectWriters cfg m)))))) := by
  obtain ⟨h1, h2, h3⟩ := claim_of_guard_ws false (selectWriters cfg m) hnd hg (fun _ => hA)
  refine ⟨by simp [Function.comp_def], ?_, ?_⟩
  · intro p hp
    obtain ⟨b, hb, rfl⟩ := List.mem_map.mp hp
    exact locatedA_of_good _ hnd b (h1 b hb)
  · intro w hw hcb
    obtain ⟨b, hb, ha, hn⟩ := h3 w hw hcb
    obtain ⟨j, hj, hje, hlast⟩ := demanded_of_keys _ (fun b => b.names.map (posOf (headerProps (selectWriters cfg m)))) h2 b hb
    exact ⟨j, hj, by rw [hje]; exact ha, by rw [hje]; exact hn, hlast⟩

end PlyClaim
end PolyVerif
