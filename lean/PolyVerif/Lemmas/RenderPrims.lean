/-
  Helper lemmas for C16 (round 2): the rendering primitives' `Hit` arithmetic over ℝ.
-/
import PolyVerif.Model.RenderPrims
import PolyVerif.Lemmas.Bvh

namespace PolyVerif.RPrims
open Scalar Gen.geometry Gen.rendering PolyVerif.Tree

/-! ### rays -/

/-- over ℝ a unit vector is its own normalisation (`geometry.NewRay` normalises `TemporalRay`'s direction again) -/
theorem normalized_of_unit (d : P3) (h : d.LengthSquared = 1) : d.Normalized = d := by
  have hl : d.Length = 1 := by
    simp only [V3.Length, RS.sqrt_eq, h, Real.sqrt_one]
  cases d with
  | mk x y z => simp only [V3.Normalized, V3.DivByConstant, hl, div_one]

theorem ray_of_unit (ray : TemporalRay ℝ) (h : ray.direction.LengthSquared = 1) :
    ray.Ray.Origin = ray.origin ∧ ray.Ray.Direction = ray.direction := by
  simp only [TemporalRay.Ray, NewRay, Ray.Origin, Ray.Direction, normalized_of_unit _ h, and_self]

/-! ### sphere -/

/-- the quadratic of `Sphere.Hit`: both candidate roots lie on the sphere -/
theorem sphere_root_on (o d c : P3) (r s t : ℝ) (ha : d.Dot d ≠ 0)
    (hs : s * s = ((o.Sub c).Dot d) * ((o.Sub c).Dot d) - (d.Dot d) * ((o.Sub c).Dot (o.Sub c) - r * r))
    (ht : (d.Dot d) * t = -((o.Sub c).Dot d) - s ∨ (d.Dot d) * t = -((o.Sub c).Dot d) + s) :
    ((o.Add (d.Scale t)).Sub c).LengthSquared = r * r := by
  have key : (d.Dot d) * (((o.Add (d.Scale t)).Sub c).LengthSquared - r * r) = 0 := by
    simp only [V3.Dot, V3.Sub, V3.Add, V3.Scale, V3.LengthSquared] at *
    rcases ht with ht | ht
    · have e : (d.x * d.x + d.y * d.y + d.z * d.z) * t + ((o.x - c.x) * d.x + (o.y - c.y) * d.y + (o.z - c.z) * d.z) + s = 0 := by
        linarith
      linear_combination
        ((d.x * d.x + d.y * d.y + d.z * d.z) * t + ((o.x - c.x) * d.x + (o.y - c.y) * d.y + (o.z - c.z) * d.z) - s) * e + hs
    · have e : (d.x * d.x + d.y * d.y + d.z * d.z) * t + ((o.x - c.x) * d.x + (o.y - c.y) * d.y + (o.z - c.z) * d.z) - s = 0 := by
        linarith
      linear_combination
        ((d.x * d.x + d.y * d.y + d.z * d.z) * t + ((o.x - c.x) * d.x + (o.y - c.y) * d.y + (o.z - c.z) * d.z) + s) * e + hs
  rcases mul_eq_zero.mp key with h | h
  · exact absurd h ha
  · linarith

/-- a point at distance `r ≥ 0` from `c` differs from `c` by at most `r` in every coordinate -/
theorem coord_le_of_lengthSq (p c : P3) (r : ℝ) (hr : 0 ≤ r) (h : (p.Sub c).LengthSquared = r * r) :
    (c.x - r ≤ p.x ∧ p.x ≤ c.x + r) ∧ (c.y - r ≤ p.y ∧ p.y ≤ c.y + r) ∧ (c.z - r ≤ p.z ∧ p.z ≤ c.z + r) := by
  simp only [V3.Sub, V3.LengthSquared] at h
  refine ⟨⟨?_, ?_⟩, ⟨?_, ?_⟩, ⟨?_, ?_⟩⟩ <;>
    nlinarith [sq_nonneg (p.x - c.x), sq_nonneg (p.y - c.y), sq_nonneg (p.z - c.z),
               sq_nonneg (p.x - c.x + r), sq_nonneg (p.x - c.x - r), sq_nonneg (p.y - c.y + r),
               sq_nonneg (p.y - c.y - r), sq_nonneg (p.z - c.z + r), sq_nonneg (p.z - c.z - r)]

/-- `ct` lies coordinatewise between `cs` and `ce` (true for `NewSphere`: all three equal; and for a linear
    animation at a time between the BVH's start and end time) -/
def Between (cs ce ct : P3) : Prop :=
  (min cs.x ce.x ≤ ct.x ∧ ct.x ≤ max cs.x ce.x) ∧ (min cs.y ce.y ≤ ct.y ∧ ct.y ≤ max cs.y ce.y) ∧
  (min cs.z ce.z ≤ ct.z ∧ ct.z ≤ max cs.z ce.z)

theorem newAABB_fill_min (c : P3) (r : ℝ) : (NewAABB c (V3.Fill (((2 : Nat) : ℝ) * r))).Min = ⟨c.x - r, c.y - r, c.z - r⟩ := by
  simp only [NewAABB, AABB.Min, V3.Fill, V3.Scale, V3.Sub, RS.lit_eq]
  congr 1 <;> push_cast <;> ring

theorem newAABB_fill_max (c : P3) (r : ℝ) : (NewAABB c (V3.Fill (((2 : Nat) : ℝ) * r))).Max = ⟨c.x + r, c.y + r, c.z + r⟩ := by
  simp only [NewAABB, AABB.Max, V3.Fill, V3.Scale, V3.Add, RS.lit_eq]
  congr 1 <;> push_cast <;> ring

/-! ### triangle: Möller–Trumbore is Cramer's rule -/

/-- `det · (orig − p1) = −(e2·Q)·dir + (T·P)·e1 + (dir·Q)·e2`, coordinatewise -/
theorem moller_trumbore (p1 p2 p3 orig dir : P3) :
    let e1 := p2.Sub p1
    let e2 := p3.Sub p1
    let P := dir.Cross e2
    let T := orig.Sub p1
    let Q := T.Cross e1
    let det := e1.Dot P
    det * T.x = -(e2.Dot Q) * dir.x + (T.Dot P) * e1.x + (dir.Dot Q) * e2.x ∧
    det * T.y = -(e2.Dot Q) * dir.y + (T.Dot P) * e1.y + (dir.Dot Q) * e2.y ∧
    det * T.z = -(e2.Dot Q) * dir.z + (T.Dot P) * e1.z + (dir.Dot Q) * e2.z := by
  simp only [V3.Sub, V3.Cross, V3.Dot]
  refine ⟨?_, ?_, ?_⟩ <;> ring

/-- a convex combination of three numbers lies between their minimum and maximum -/
theorem convex3_between (a b c u v : ℝ) (hu : 0 ≤ u) (hv : 0 ≤ v) (huv : u + v ≤ 1) :
    min c (min b a) ≤ a + u * (b - a) + v * (c - a) ∧ a + u * (b - a) + v * (c - a) ≤ max c (max b a) := by
  have hw : 0 ≤ 1 - u - v := by linarith
  constructor
  · have h1 : min c (min b a) ≤ a := le_trans (min_le_right _ _) (min_le_right _ _)
    have h2 : min c (min b a) ≤ b := le_trans (min_le_right _ _) (min_le_left _ _)
    have h3 : min c (min b a) ≤ c := min_le_left _ _
    nlinarith [mul_nonneg hw (sub_nonneg.mpr h1), mul_nonneg hu (sub_nonneg.mpr h2), mul_nonneg hv (sub_nonneg.mpr h3)]
  · have h1 : a ≤ max c (max b a) := le_trans (le_max_right _ _) (le_max_right _ _)
    have h2 : b ≤ max c (max b a) := le_trans (le_max_left _ _) (le_max_right _ _)
    have h3 : c ≤ max c (max b a) := le_max_left _ _
    nlinarith [mul_nonneg hw (sub_nonneg.mpr h1), mul_nonneg hu (sub_nonneg.mpr h2), mul_nonneg hv (sub_nonneg.mpr h3)]

/-! ### BVH = HitList for non-empty ranges, from a contract that real primitives satisfy -/

section strict
variable {B H K : Type} [LinearOrder K]

theorem listHit_range (primHit : H → K → K → Option K) (mn : K)
    (hR : ∀ h mx d, primHit h mn mx = some d → mn ≤ d ∧ d ≤ mx) :
    ∀ (hs : List H) (mx d : K), listHit primHit hs mn mx = some d → mn ≤ d ∧ d ≤ mx := by
  intro hs
  induction hs using List.reverseRecOn with
  | nil => intro mx d h; simp [listHit] at h
  | append_singleton l x ih =>
    intro mx d h
    rw [listHit_append, listHit_single] at h
    cases hl : listHit primHit l mn mx with
    | none =>
      rw [hl] at h
      simp only at h
      cases hx : primHit x mn mx with
      | none => rw [hx] at h; cases h
      | some d' => rw [hx] at h; cases h; exact hR x mx d hx
    | some dl =>
      rw [hl] at h
      simp only at h
      have hdl := ih mx dl hl
      cases hx : primHit x mn dl with
      | none => rw [hx] at h; cases h; exact hdl
      | some d' =>
        rw [hx] at h; cases h
        have := hR x dl d hx
        exact ⟨this.1, le_trans this.2 hdl.2⟩

theorem bvhHit_range (slab : B → K → K → Bool) (primHit : H → K → K → Option K) (mn : K)
    (hR : ∀ h mx d, primHit h mn mx = some d → mn ≤ d ∧ d ≤ mx) :
    ∀ (t : Bvh B H) (mx d : K), t.hit slab primHit mn mx = some d → mn ≤ d ∧ d ≤ mx := by
  intro t
  induction t with
  | leaf h => intro mx d hd; exact hR h mx d hd
  | node b l r ihl ihr =>
    intro mx d hd
    simp only [Bvh.hit] at hd
    by_cases hs : slab b mn mx = true
    · simp only [hs, Bool.not_true, Bool.false_eq_true, if_false] at hd
      cases hl : l.hit slab primHit mn mx with
      | none =>
        rw [hl] at hd
        simp only at hd
        cases hr : r.hit slab primHit mn mx with
        | none => rw [hr] at hd; cases hd
        | some d' => rw [hr] at hd; cases hd; exact ihr mx d hr
      | some dl =>
        rw [hl] at hd
        simp only at hd
        have hdl := ihl mx dl hl
        cases hr : r.hit slab primHit mn dl with
        | none => rw [hr] at hd; cases hd; exact hdl
        | some d' =>
          rw [hr] at hd; cases hd
          have := ihr dl d hr
          exact ⟨this.1, le_trans this.2 hdl.2⟩
    · have hs' : slab b mn mx = false := by simpa using hs
      simp [hs'] at hd

/-- `BVHNode.Hit` = `HitList.Hit` over the leaves for every NON-EMPTY range `mn < mx`, for primitives that
    (hR) report a distance inside the range and (hS) are hit, within a non-empty range, only where the slab test
    accepts their box.  (`bvh_hit_eq_list_aux` asks (hS) for every range, which no real primitive satisfies: the
    slab test rejects every empty-interior range `mx ≤ mn`, a sphere hit at exactly `mn = mx` does not.) -/
theorem bvh_hit_eq_list_strict_aux (sub : B → B → Prop) (boxH : H → B) (slab : B → K → K → Bool)
    (primHit : H → K → K → Option K) (mn : K)
    (hmono : ∀ a b mx, sub a b → slab a mn mx = true → slab b mn mx = true)
    (hR : ∀ h mx d, primHit h mn mx = some d → mn ≤ d ∧ d ≤ mx)
    (hS : ∀ h mx d, mn < mx → primHit h mn mx = some d → slab (boxH h) mn mx = true) :
    ∀ t : Bvh B H, BInv sub boxH t → ∀ mx, mn < mx → t.hit slab primHit mn mx = listHit primHit t.leaves mn mx := by
  intro t ht
  induction ht with
  | leaf h =>
    intro mx _
    simp only [Bvh.hit, Bvh.leaves, listHit_single]
  | @node b l r hcov _ _ ihl ihr =>
    intro mx hlt
    simp only [Bvh.hit]
    by_cases hs : slab b mn mx = true
    · simp only [hs, Bool.not_true, Bool.false_eq_true, if_false]
      rw [ihl mx hlt]
      simp only [Bvh.leaves]
      rw [listHit_append]
      cases hl : listHit primHit l.leaves mn mx with
      | none => simp only; rw [ihr mx hlt]; cases listHit primHit r.leaves mn mx <;> rfl
      | some d =>
        simp only
        have hd := listHit_range primHit mn hR l.leaves mx d hl
        rcases lt_or_eq_of_le hd.1 with hlt' | heq
        · rw [ihr d hlt']; cases listHit primHit r.leaves mn d <;> rfl
        · subst heq
          have h1 : ∀ x, r.hit slab primHit mn mn = some x → x = mn := fun x hx =>
            le_antisymm (bvhHit_range slab primHit mn hR r mn x hx).2 (bvhHit_range slab primHit mn hR r mn x hx).1
          have h2 : ∀ x, listHit primHit r.leaves mn mn = some x → x = mn := fun x hx =>
            le_antisymm (listHit_range primHit mn hR r.leaves mn x hx).2 (listHit_range primHit mn hR r.leaves mn x hx).1
          cases ha : r.hit slab primHit mn mn with
          | none =>
            cases hb : listHit primHit r.leaves mn mn with
            | none => rfl
            | some y => simp only [h2 y hb]
          | some x =>
            cases hb : listHit primHit r.leaves mn mn with
            | none => simp only [h1 x ha]
            | some y => simp only [h1 x ha, h2 y hb]
    · have hs' : slab b mn mx = false := by simpa using hs
      simp only [hs', Bool.not_false, if_true]
      symm
      apply listHit_none_of_all
      intro x hx
      cases hp : primHit x mn mx with
      | none => rfl
      | some d =>
        have := hmono _ _ mx (hcov x hx) (hS x mx d hlt hp)
        rw [this] at hs'; cases hs'

end strict

end PolyVerif.RPrims
