/-
  C10 — lemmas about half-open integer ranges and the exactness of range partitions (core Lean only).
-/
import PolyVerif.Model.Par

namespace PolyVerif.Par

theorem intRange_eq_nil {lo hi : Int} (h : hi ≤ lo) : intRange lo hi = [] := by
  unfold intRange
  have : (hi - lo).toNat = 0 := by omega
  simp [this]

theorem intRange_succ {lo hi : Int} (h : lo ≤ hi) : intRange lo (hi + 1) = intRange lo hi ++ [hi] := by
  unfold intRange
  have : (hi + 1 - lo).toNat = (hi - lo).toNat + 1 := by omega
  rw [this, List.range_succ, List.map_append]
  simp
  omega

theorem intRange_append {lo mid hi : Int} (h1 : lo ≤ mid) (h2 : mid ≤ hi) :
    intRange lo mid ++ intRange mid hi = intRange lo hi := by
  obtain ⟨k, rfl⟩ : ∃ k : Nat, hi = mid + k := ⟨(hi - mid).toNat, by omega⟩
  induction k with
  | zero => simp [intRange_eq_nil]
  | succ k ih =>
    have e : mid + ((k + 1 : Nat) : Int) = (mid + k) + 1 := by omega
    rw [e, intRange_succ (by omega), intRange_succ (by omega), ← List.append_assoc, ih (by omega)]

theorem intRange_zero (n : Nat) : intRange 0 (n : Int) = (List.range n).map Int.ofNat := by
  unfold intRange
  simp

theorem flatten_chain (b : Nat → Int) (k : Nat) (hmono : ∀ j, j < k → b j ≤ b (j + 1)) :
    ((List.range k).map (fun j => intRange (b j) (b (j + 1)))).flatten = intRange (b 0) (b k) := by
  induction k with
  | zero => simp [intRange_eq_nil]
  | succ k ih =>
    have hb : b 0 ≤ b k := by
      clear ih
      induction k with
      | zero => exact Int.le_refl _
      | succ k ih2 =>
        exact Int.le_trans (ih2 (fun j hj => hmono j (by omega))) (hmono k (by omega))
    rw [List.range_succ, List.map_append, List.flatten_append, ih (fun j hj => hmono j (by omega))]
    simp only [List.map_cons, List.map_nil, List.flatten_cons, List.flatten_nil, List.append_nil]
    exact intRange_append hb (hmono k (by omega))

theorem exact_of_bounds (P : PartSpec) (n size : Nat) (b : Nat → Int)
    (hw : P.workers n size = size) (h0 : b 0 = 0) (hn : b size = n)
    (hmono : ∀ j, j < size → b j ≤ b (j + 1))
    (hit : ∀ i : Nat, i < size → P.worker n size i = intRange (b i) (b (i + 1))) :
    Exact P n size := by
  unfold Exact PartSpec.visits
  rw [hw, intRange_zero, List.map_map]
  have : (List.range size).map (P.worker n size ∘ Int.ofNat) = (List.range size).map (fun j => intRange (b j) (b (j + 1))) := by
    apply List.map_congr_left
    intro i hi
    exact hit i (List.mem_range.mp hi)
  rw [this, flatten_chain b size hmono, h0, hn, intRange_zero]

/-- the scheme shared by the seven methods: `w = n / size`, worker `i` gets `(w*i, w)`, the last one `(w*i, n - w*i)`,
    and loops `start ≤ j < start+size` calling back with `j` -/
structure IsStd (P : PartSpec) : Prop where
  workers : ∀ n size : Nat, P.workers n size = size
  goStart : ∀ n size i : Nat, i < size → P.goStart n size i = ((n / size : Nat) : Int) * i
  goSize : ∀ n size i : Nat, i < size →
    P.goSize n size i = if i + 1 = size then (n : Int) - ((n / size : Nat) : Int) * i else ((n / size : Nat) : Int)
  loopLo : ∀ s z, P.loopLo s z = s
  loopHi : ∀ s z, P.loopHi s z = s + z
  cbIndex : ∀ j, P.cbIndex j = j

theorem exact_of_std {P : PartSpec} (h : IsStd P) (n size : Nat) (hs : 1 ≤ size) : Exact P n size := by
  have hle : (n / size) * (size - 1) ≤ n :=
    Nat.le_trans (Nat.mul_le_mul_left _ (Nat.sub_le _ _)) (Nat.div_mul_le_self n size)
  refine exact_of_bounds P n size (fun j => if j < size then ((n / size : Nat) : Int) * j else n)
    (h.workers n size) ?_ ?_ ?_ ?_
  · simp; omega
  · simp
  · intro j hj
    simp only [hj, if_true]
    split
    · exact_mod_cast Nat.mul_le_mul_left _ (Nat.le_succ j)
    · have : j = size - 1 := by omega
      subst this
      exact_mod_cast hle
  · intro i hi
    unfold PartSpec.worker PartSpec.iters
    rw [h.loopLo, h.loopHi, h.goStart n size i hi, h.goSize n size i hi]
    have : (List.map P.cbIndex) = (List.map (fun j => j)) := by
      congr 1; funext j; exact h.cbIndex j
    rw [this, List.map_id']
    simp only [hi, if_true]
    generalize ((n / size : Nat) : Int) = w
    by_cases hl : i + 1 = size
    · simp only [hl, if_true, Nat.lt_irrefl, if_false]
      congr 1; omega
    · have : i + 1 < size := by omega
      simp only [hl, this, if_true, if_false]
      congr 1
      rw [Int.natCast_add, Int.mul_add]; simp

/-! ## Schedules -/

theorem flatten_perm_of_get {β : Type} : ∀ (logs : List (List β)) (k : Nat) (x : β) (rest : List β),
    logs[k]? = some (x :: rest) → logs.flatten.Perm (x :: (logs.set k rest).flatten)
  | [], k, x, rest, h => by simp at h
  | l :: ls, 0, x, rest, h => by
      simp at h; subst h; simp
  | l :: ls, k + 1, x, rest, h => by
      simp at h
      have ih := flatten_perm_of_get ls k x rest h
      simp only [List.flatten_cons, List.set_cons_succ]
      exact (List.Perm.append_left l ih).trans List.perm_middle

theorem Interleaving.perm {β : Type} {logs : List (List β)} {s : List β} (h : Interleaving logs s) :
    s.Perm logs.flatten := by
  induction h with
  | done hnil =>
    rename_i logs
    have : logs.flatten = [] := by
      simp only [List.flatten_eq_nil_iff]; exact hnil
    rw [this]
  | step k x rest hk _ ih =>
    exact ((List.Perm.cons x ih)).trans (flatten_perm_of_get _ k x rest hk).symm

/-- the sequential schedule (worker 0 to completion, then worker 1, …) is an interleaving -/
theorem Interleaving.flatten {β : Type} : ∀ (logs : List (List β)), Interleaving logs logs.flatten
  | [] => Interleaving.done (by simp)
  | [] :: ls => by
      have ih := Interleaving.flatten ls
      simp only [List.flatten_cons, List.nil_append]
      -- lift: an interleaving of ls is an interleaving of [] :: ls
      exact lift ih
  | (x :: l) :: ls => by
      have ih := Interleaving.flatten (l :: ls)
      exact Interleaving.step 0 x l (by simp) (by simpa using ih)
where
  lift {β : Type} {ls : List (List β)} {s : List β} (h : Interleaving ls s) : Interleaving ([] :: ls) s := by
    induction h with
    | done hnil => exact Interleaving.done (by simpa using hnil)
    | step k x rest hk _ ih => exact Interleaving.step (k + 1) x rest (by simpa using hk) (by simpa using ih)

theorem write_comm {α : Type} (m : Int → α) (a b : Int × α) (h : a.1 ≠ b.1) :
    write (write m a) b = write (write m b) a := by
  funext j
  unfold write
  by_cases h1 : j = b.1 <;> by_cases h2 : j = a.1
  · exact absurd (h2.symm.trans h1) h
  · simp [h1]; intro e; exact absurd e.symm h
  · simp [h2]; intro e; exact absurd e h
  · simp [h1, h2]

theorem run_perm {α : Type} {s t : List (Int × α)} (hp : s.Perm t) :
    (s.map Prod.fst).Nodup → ∀ m : Int → α, run m s = run m t := by
  induction hp with
  | nil => intro _ _; rfl
  | cons x _ ih =>
    intro hn m
    simp only [List.map_cons, List.nodup_cons] at hn
    exact ih hn.2 (write m x)
  | swap x y l =>
    intro hn m
    simp only [List.map_cons, List.nodup_cons, List.mem_cons, not_or] at hn
    show run (write (write m y) x) l = run (write (write m x) y) l
    rw [write_comm m y x (fun h => hn.1.1 h)]
  | trans h1 _ ih1 ih2 =>
    intro hn m
    rw [ih1 hn m]
    exact ih2 ((h1.map Prod.fst).nodup_iff.mp hn) m

theorem run_not_mem {α : Type} : ∀ (s : List (Int × α)) (m : Int → α) (k : Int), k ∉ s.map Prod.fst → run m s k = m k
  | [], _, _, _ => rfl
  | e :: t, m, k, h => by
    simp only [List.map_cons, List.mem_cons, not_or] at h
    show run (write m e) t k = m k
    rw [run_not_mem t _ k h.2]
    simp [write, h.1]

theorem run_of_mem {α : Type} : ∀ (s : List (Int × α)) (m : Int → α) (k : Int) (v : α),
    (s.map Prod.fst).Nodup → (k, v) ∈ s → run m s k = v
  | [], _, _, _, _, h => by simp at h
  | e :: t, m, k, v, hn, h => by
    simp only [List.map_cons, List.nodup_cons] at hn
    show run (write m e) t k = v
    rcases List.mem_cons.mp h with rfl | h
    · rw [run_not_mem t _ _ hn.1]; simp [write]
    · exact run_of_mem t _ k v hn.2 h

/-- **Schedule independence.**  If no two stores (of the same or of different workers) hit the same cell, every interleaving
    of the workers' logs leaves the memory in the same state — the state produced by running the workers one after the other. -/
theorem interleaving_irrelevant_gen {α : Type} (logs : List (List (Int × α))) (hd : (logs.flatten.map Prod.fst).Nodup)
    (m : Int → α) (s : List (Int × α)) (hs : Interleaving logs s) : run m s = run m logs.flatten := by
  have hp := hs.perm
  exact run_perm hp ((hp.map Prod.fst).nodup_iff.mpr hd) m


theorem seqEvents_keys_nodup {α : Type} (g : Int → α) (n : Nat) : ((seqEvents g n).map Prod.fst).Nodup := by
  unfold seqEvents
  rw [List.map_map]
  have : (Prod.fst ∘ fun (k : Nat) => ((k : Int), g (k : Int))) = fun (k : Nat) => (k : Int) := rfl
  rw [this]
  refine List.Pairwise.map _ ?_ (List.nodup_range (n := n))
  intro a b hab h
  exact hab (Int.ofNat.inj h)

/-- for the standard scheme the loop values of all workers, in worker order, are `0 … n-1` -/
theorem iters_flatten_of_std {P : PartSpec} (h : IsStd P) (n size : Nat) (hs : 1 ≤ size) :
    ((intRange 0 (P.workers n size)).map (P.iters n size)).flatten = (List.range n).map Int.ofNat := by
  have hex := exact_of_std h n size hs
  unfold Exact PartSpec.visits at hex
  have : P.worker n size = P.iters n size := by
    funext i
    unfold PartSpec.worker
    have : (List.map P.cbIndex) = (List.map (fun j => j)) := by
      congr 1; funext j; exact h.cbIndex j
    rw [this, List.map_id']
  rw [this] at hex
  exact hex

/-- the stores of the workers of a standard Modify, taken worker after worker, are literally the stores of the
    sequential loop `for i, v := range data { modified[i] = f(i, v) }` -/
theorem storeLogs_flatten_of_std {α : Type} {P : PartSpec} (h : IsStd P) (hr : ∀ j, P.readIndex j = j)
    (w : Int → Int) (hw : ∀ j, w j = j) (f : Int → α → α) (data : Int → α) (n size : Nat) (hs : 1 ≤ size) :
    (P.storeLogs w f data n size).flatten = seqEvents (fun k => f k (data k)) n := by
  unfold PartSpec.storeLogs PartSpec.storeLog
  have : (fun i => (P.iters n size i).map (fun j => (w j, f (P.cbIndex j) (data (P.readIndex j)))))
      = (List.map (fun j => (j, f j (data j)))) ∘ (P.iters n size) := by
    funext i
    simp only [Function.comp]
    apply List.map_congr_left
    intro j _
    rw [hw, hr, h.cbIndex]
  rw [this, ← List.map_map, ← List.map_flatten, iters_flatten_of_std h n size hs, List.map_map]
  rfl

theorem callLogs_flatten_of_std {α : Type} {P : PartSpec} (h : IsStd P) (hr : ∀ j, P.readIndex j = j)
    (data : Int → α) (n size : Nat) (hs : 1 ≤ size) :
    (P.callLogs data n size).flatten = seqEvents data n := by
  unfold PartSpec.callLogs PartSpec.callLog
  have : (fun i => (P.iters n size i).map (fun j => (P.cbIndex j, data (P.readIndex j))))
      = (List.map (fun j => (j, data j))) ∘ (P.iters n size) := by
    funext i
    simp only [Function.comp]
    apply List.map_congr_left
    intro j _
    rw [hr, h.cbIndex]
  rw [this, ← List.map_map, ← List.map_flatten, iters_flatten_of_std h n size hs, List.map_map]
  rfl

/-- Modify, standard scheme: on EVERY schedule the final memory equals the memory after the sequential loop -/
theorem modify_any_schedule {α : Type} {P : PartSpec} (h : IsStd P) (hr : ∀ j, P.readIndex j = j)
    (w : Int → Int) (hw : ∀ j, w j = j) (f : Int → α → α) (data : Int → α) (n size : Nat) (hs : 1 ≤ size)
    (m : Int → α) (s : List (Int × α)) (hsched : Interleaving (P.storeLogs w f data n size) s) :
    run m s = run m (seqEvents (fun k => f k (data k)) n) := by
  have e := storeLogs_flatten_of_std h hr w hw f data n size hs
  have := interleaving_irrelevant_gen (P.storeLogs w f data n size) (by rw [e]; exact seqEvents_keys_nodup _ n) m s hsched
  rw [this, e]

/-- the memory after the sequential loop: cell `k < n` holds `g k`, every other cell is untouched -/
theorem run_seqEvents {α : Type} (g : Int → α) (n : Nat) (m : Int → α) (k : Int) :
    run m (seqEvents g n) k = if 0 ≤ k ∧ k < n then g k else m k := by
  split
  · rename_i hk
    apply run_of_mem _ _ _ _ (seqEvents_keys_nodup g n)
    unfold seqEvents
    simp only [List.mem_map, List.mem_range]
    refine ⟨k.toNat, by omega, ?_⟩
    have : ((k.toNat : Nat) : Int) = k := by omega
    rw [this]
  · rename_i hk
    apply run_not_mem
    unfold seqEvents
    simp only [List.map_map, List.mem_map, List.mem_range, Function.comp]
    rintro ⟨a, ha, rfl⟩
    exact hk ⟨by omega, by omega⟩

/-- Scan, standard scheme: on EVERY schedule the callback receives exactly the multiset of (index, value) pairs of the
    sequential scan -/
theorem scan_any_schedule {α : Type} {P : PartSpec} (h : IsStd P) (hr : ∀ j, P.readIndex j = j)
    (data : Int → α) (n size : Nat) (hs : 1 ≤ size)
    (s : List (Int × α)) (hsched : Interleaving (P.callLogs data n size) s) :
    s.Perm (seqEvents data n) := by
  have := hsched.perm
  rwa [callLogs_flatten_of_std h hr data n size hs] at this


/-! ## Block jobs -/

namespace TMesh
variable {V : Type}

theorem wf_append {a b : TMesh V} (ha : a.WF) (hb : b.WF) : (a.append b).WF := by
  intro t ht
  simp only [append, List.mem_append, List.mem_map] at ht
  simp only [append, List.length_append]
  rcases ht with ht | ⟨u, hu, rfl⟩
  · have := ha t ht; omega
  · have := hb u hu; simp only [shift]; omega

theorem corners_append {a b : TMesh V} (ha : a.WF) : (a.append b).corners = a.corners ++ b.corners := by
  simp only [corners, append, List.map_append, List.map_map]
  congr 1
  · apply List.map_congr_left
    intro t ht
    have := ha t ht
    simp only [List.getElem?_append_left this.1, List.getElem?_append_left this.2.1, List.getElem?_append_left this.2.2]
  · apply List.map_congr_left
    intro t _
    simp [shift, List.getElem?_append_right]

theorem foldl_append_spec : ∀ (l : List (TMesh V)) (acc : TMesh V), acc.WF → (∀ m ∈ l, m.WF) →
    (l.foldl append acc).WF ∧ (l.foldl append acc).corners = acc.corners ++ (l.map corners).flatten
  | [], acc, hacc, _ => by simp [hacc]
  | m :: l, acc, hacc, hl => by
    have hm : m.WF := hl m (List.mem_cons_self)
    have := foldl_append_spec l (acc.append m) (wf_append hacc hm) (fun x hx => hl x (List.mem_cons_of_mem _ hx))
    simp only [List.foldl_cons, List.map_cons, List.flatten_cons]
    rw [this.2, corners_append hacc, List.append_assoc]
    exact ⟨this.1, rfl⟩

theorem corners_mergeAll (l : List (TMesh V)) (hl : ∀ m ∈ l, m.WF) :
    (mergeAll l).corners = (l.map corners).flatten := by
  have := (foldl_append_spec l empty (by intro t ht; simp [empty] at ht) hl).2
  simpa [mergeAll, corners, empty] using this

end TMesh

/-- per axis: the clamped block ranges `[start c, end c)` partition the padded domain `[lo, hi)`; blocks are `width` wide -/
structure AxisPartition (chunkOf : Int → Int) (start end_ : Int → Int → Int → Int) : Prop where
  /-- every sample of the padded domain lies in the clamped range of its own block, which is one of the enumerated blocks -/
  own : ∀ lo hi x, lo ≤ x → x < hi →
    chunkOf lo ≤ chunkOf x ∧ chunkOf x ≤ chunkOf hi ∧ start (chunkOf x) lo hi ≤ x ∧ x < end_ (chunkOf x) lo hi
  /-- a block's clamped range contains only samples of the padded domain that belong to that very block: ranges of
      different blocks are disjoint -/
  unique : ∀ lo hi c x, start c lo hi ≤ x → x < end_ c lo hi → c = chunkOf x ∧ lo ≤ x ∧ x < hi
  /-- …and their block-local coordinate is a valid cell coordinate -/
  inBlock : ∀ lo hi c x, start c lo hi ≤ x → x < end_ c lo hi → 0 ≤ x - c * 100 ∧ x - c * 100 < 100

theorem axisPartition_std (chunkOf : Int → Int) (start end_ : Int → Int → Int → Int)
    (hc : ∀ x, chunkOf x = x / 100)
    (hs : ∀ c lo hi, start c lo hi = if c * 100 < lo then lo else c * 100)
    (he : ∀ c lo hi, end_ c lo hi = if c * 100 + 100 > hi then hi else c * 100 + 100) :
    AxisPartition chunkOf start end_ := by
  constructor
  · intro lo hi x h1 h2
    rw [hs, he, hc, hc, hc]
    split <;> split <;> omega
  · intro lo hi c x
    rw [hs, he, hc]
    split <;> split <;> omega
  · intro lo hi c x
    rw [hs, he]
    split <;> split <;> omega

end PolyVerif.Par
