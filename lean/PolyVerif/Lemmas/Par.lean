/-
  C10 — lemmas about half-open integer ranges and the exactness of range partitions (core Lean only).
-/
import PolyVerif.Model.Par

namespace PolyVerif.Par

theorem intRange_eq_nil {lo hi : Int} (h : hi ≤ lo) : intRange lo hi = [] := by
  unfold intRange
  have : (hi - lo).toNat = 0 := by omega
  simp [this]

theorem intRange_succ {lo hi : Int} (h : lo ≤ hi) : intRange lo (hi + 1) = intRange lo hi ++ [hi] := by
  unfold intRange
  have : (hi + 1 - lo).toNat = (hi - lo).toNat + 1 := by omega
  rw [this, List.range_succ, List.map_append]
  simp
  omega

theorem intRange_append {lo mid hi : Int} (h1 : lo ≤ mid) (h2 : mid ≤ hi) :
    intRange lo mid ++ intRange mid hi = intRange lo hi := by
  obtain ⟨k, rfl⟩ : ∃ k : Nat, hi = mid + k := ⟨(hi - mid).toNat, by omega⟩
  induction k with
  | zero => simp [intRange_eq_nil]
  | succ k ih =>
    have e : mid + ((k + 1 : Nat) : Int) = (mid + k) + 1 := by omega
    rw [e, intRange_succ (by omega), intRange_succ (by omega), ← List.append_assoc, ih (by omega)]

theorem intRange_zero (n : Nat) : intRange 0 (n : Int) = (List.range n).map Int.ofNat := by
  unfold intRange
  simp

theorem flatten_chain (b : Nat → Int) (k : Nat) (hmono : ∀ j, j < k → b j ≤ b (j + 1)) :
    ((List.range k).map (fun j => intRange (b j) (b (j + 1)))).flatten = intRange (b 0) (b k) := by
  induction k with
  | zero => simp [intRange_eq_nil]
  | succ k ih =>
    have hb : b 0 ≤ b k := by
      clear ih
      induction k with
      | zero => exact Int.le_refl _
      | succ k ih2 =>
        exact Int.le_trans (ih2 (fun j hj => hmono j (by omega))) (hmono k (by omega))
    rw [List.range_succ, List.map_append, List.flatten_append, ih (fun j hj => hmono j (by omega))]
    simp only [List.map_cons, List.map_nil, List.flatten_cons, List.flatten_nil, List.append_nil]
    exact intRange_append hb (hmono k (by omega))

theorem exact_of_bounds (P : PartSpec) (n size : Nat) (b : Nat → Int)
    (hw : P.workers n size = size) (h0 : b 0 = 0) (hn : b size = n)
    (hmono : ∀ j, j < size → b j ≤ b (j + 1))
    (hit : ∀ i : Nat, i < size → P.worker n size i = intRange (b i) (b (i + 1))) :
    Exact P n size := by
  unfold Exact PartSpec.visits
  rw [hw, intRange_zero, List.map_map]
  have : (List.range size).map (P.worker n size ∘ Int.ofNat) = (List.range size).map (fun j => intRange (b j) (b (j + 1))) := by
    apply List.map_congr_left
    intro i hi
    exact hit i (List.mem_range.mp hi)
  rw [this, flatten_chain b size hmono, h0, hn, intRange_zero]

/-- the scheme shared by the seven methods: `w = n / size`, worker `i` gets `(w*i, w)`, the last one `(w*i, n - w*i)`,
    and loops `start ≤ j < start+size` calling back with `j` -/
structure IsStd (P : PartSpec) : Prop where
  workers : ∀ n size : Nat, P.workers n size = size
  goStart : ∀ n size i : Nat, i < size → P.goStart n size i = ((n / size : Nat) : Int) * i
  goSize : ∀ n size i : Nat, i < size →
    P.goSize n size i = if i + 1 = size then (n : Int) - ((n / size : Nat) : Int) * i else ((n / size : Nat) : Int)
  loopLo : ∀ s z, P.loopLo s z = s
  loopHi : ∀ s z, P.loopHi s z = s + z
  cbIndex : ∀ j, P.cbIndex j = j

theorem exact_of_std {P : PartSpec} (h : IsStd P) (n size : Nat) (hs : 1 ≤ size) : Exact P n size := by
  have hle : (n / size) * (size - 1) ≤ n :=
    Nat.le_trans (Nat.mul_le_mul_left _ (Nat.sub_le _ _)) (Nat.div_mul_le_self n size)
  refine exact_of_bounds P n size (fun j => if j < size then ((n / size : Nat) : Int) * j else n)
    (h.workers n size) ?_ ?_ ?_ ?_
  · simp; omega
  · simp
  · intro j hj
    simp only [hj, if_true]
    split
    · exact_mod_cast Nat.mul_le_mul_left _ (Nat.le_succ j)
    · have : j = size - 1 := by omega
      subst this
      exact_mod_cast hle
  · intro i hi
    unfold PartSpec.worker PartSpec.iters
    rw [h.loopLo, h.loopHi, h.goStart n size i hi, h.goSize n size i hi]
    have : (List.map P.cbIndex) = (List.map (fun j => j)) := by
      congr 1; funext j; exact h.cbIndex j
    rw [this, List.map_id']
    simp only [hi, if_true]
    generalize ((n / size : Nat) : Int) = w
    by_cases hl : i + 1 = size
    · simp only [hl, if_true, Nat.lt_irrefl, if_false]
      congr 1; omega
    · have : i + 1 < size := by omega
      simp only [hl, this, if_true, if_false]
      congr 1
      rw [Int.natCast_add, Int.mul_add]; simp

end PolyVerif.Par
