/-
  Lemmas about the C11 node-graph model (core Lean only).
-/
import PolyVerif.Model.Nodes

namespace PolyVerif.Nodes
variable {V : Type}

end PolyVerif.Nodes
