/-
  Lemmas about the C11 node-graph model (core Lean only).
-/
import PolyVerif.Model.Nodes

namespace PolyVerif.Nodes
variable {V : Type}

/-! ### basics -/

@[simp] theorem Graph.set_same (g : Graph V) (i : Nat) (n : Node V) : (g.set i n) i = n := by
  simp [Graph.set]

theorem Graph.set_ne (g : Graph V) {i j : Nat} (n : Node V) (h : j ≠ i) : (g.set i n) j = g j := by
  simp [Graph.set, h]

/-- same parameter data / same processor and wiring: everything `evalSpec` looks at -/
def StaticEq (a b : Node V) : Prop :=
  match a, b with
  | .param x v, .param y w => x = y ∧ v = w
  | .struct s, .struct t => s.fn = t.fn ∧ s.scalars = t.scalars ∧ s.arrays = t.arrays ∧ s.next = t.next
  | _, _ => False

theorem StaticEq.rfl' (a : Node V) : StaticEq a a := by
  cases a <;> simp [StaticEq]

theorem StaticEq.trans {a b c : Node V} (h1 : StaticEq a b) (h2 : StaticEq b c) : StaticEq a c := by
  cases a <;> cases b <;> cases c <;> simp_all [StaticEq]

theorem StaticEq.symm {a b : Node V} (h1 : StaticEq a b) : StaticEq b a := by
  cases a <;> cases b <;> simp_all [StaticEq]

theorem StaticEq.struct_left {a : Node V} {t : SNode V} (h : StaticEq a (.struct t)) :
    ∃ s, a = .struct s ∧ s.fn = t.fn ∧ s.scalars = t.scalars ∧ s.arrays = t.arrays ∧ s.deps = t.deps := by
  cases a with
  | param x v => simp [StaticEq] at h
  | struct s =>
    simp only [StaticEq] at h
    exact ⟨s, rfl, h.1, h.2.1, h.2.2.1, by simp [SNode.deps, h.2.1, h.2.2.1]⟩

theorem StaticEq.struct_right {a : Node V} {t : SNode V} (h : StaticEq (.struct t) a) :
    ∃ s, a = .struct s ∧ s.fn = t.fn ∧ s.scalars = t.scalars ∧ s.arrays = t.arrays ∧ s.deps = t.deps := by
  have := StaticEq.struct_left h.symm
  exact this

theorem StaticEq.reads_eq {s t : SNode V} (h : StaticEq (.struct s) (.struct t)) : s.next = t.next := by
  simp only [StaticEq] at h
  exact h.2.2.2

theorem StaticEq.param_left {a : Node V} {x : V} {v : Nat} (h : StaticEq a (.param x v)) : a = .param x v := by
  cases a with
  | param y w => simp [StaticEq] at h; simp [h]
  | struct s => simp [StaticEq] at h

def SameStatic (g' g : Graph V) : Prop := ∀ j, StaticEq (g' j) (g j)

theorem SameStatic.refl (g : Graph V) : SameStatic g g := fun _ => StaticEq.rfl' _
theorem SameStatic.trans {a b c : Graph V} (h1 : SameStatic a b) (h2 : SameStatic b c) : SameStatic a c :=
  fun j => (h1 j).trans (h2 j)
theorem SameStatic.symm {a b : Graph V} (h1 : SameStatic a b) : SameStatic b a :=
  fun j => (h1 j).symm

theorem Ranked.of_static {rank : Nat → Nat} {F : Nat} {g g' : Graph V} (h : Ranked rank F g) (hs : SameStatic g' g) :
    Ranked rank F g' := by
  refine ⟨h.1, ?_⟩
  intro i s hi d hd
  have h1 := hs i
  rw [hi] at h1
  obtain ⟨t, ht, -, -, -, hdeps⟩ := StaticEq.struct_right h1
  exact h.2 i t ht d (hdeps ▸ hd)

theorem Acyclic.of_static {F : Nat} {g g' : Graph V} (h : Acyclic F g) (hs : SameStatic g' g) : Acyclic F g' := by
  obtain ⟨rank, hr⟩ := h
  exact ⟨rank, hr.of_static hs⟩

theorem ReadsAll.of_static {g g' : Graph V} (h : ReadsAll g) (hs : SameStatic g' g) : ReadsAll g' := by
  intro i s hi
  have h1 := hs i
  rw [hi] at h1
  obtain ⟨t, ht, -⟩ := StaticEq.struct_right h1
  rw [ht] at h1
  rw [StaticEq.reads_eq h1, h i t ht]

theorem executed_deps (s : SNode V) (g1 : Graph V) (vals : List (Option V)) : (s.executed g1 vals).deps = s.deps := rfl

/-! ### evaluation never touches parameters, processors or wiring (I3, static part) -/

theorem pullS_static (ev : Graph V → Nat → Graph V × Log) (next : List (Option V) → Option Nat) (ds : List Nat)
    (hev : ∀ g d, SameStatic (ev g d).1 g) (n : Nat) (g : Graph V) (es : List (Option V)) :
    SameStatic (pullS ev next ds n g es).1 g := by
  induction n generalizing g es with
  | zero => exact SameStatic.refl g
  | succ n ih =>
    simp only [pullS]
    split
    · exact SameStatic.refl g
    · split
      · exact SameStatic.refl g
      · exact (ih _ _).trans (hev g _)

theorem eval_static (f : Nat) (g : Graph V) (i : Nat) : SameStatic (eval f g i).1 g := by
  induction f generalizing g i with
  | zero => exact SameStatic.refl g
  | succ f ih =>
    simp only [eval]
    split
    · exact SameStatic.refl g
    · rename_i s hs
      split
      · intro j
        dsimp only
        have hp := pullS_static (fun g d => eval f g d) (s.next s.scalars s.arrays) s.deps (fun g d => ih g d)
          s.deps.length g (List.replicate s.deps.length none)
        by_cases hj : j = i
        · subst hj
          simp only [Graph.set_same, hs]
          simp [StaticEq, SNode.executed]
        · rw [Graph.set_ne _ _ hj]
          exact hp j
      · exact SameStatic.refl g

/-! ### `mismatch` -/

/-- pointwise relation between two lists of the same length (core has no `List.Forall₂`) -/
inductive All2 {α β : Type} (R : α → β → Prop) : List α → List β → Prop
  | nil : All2 R [] []
  | cons {a b l₁ l₂} : R a b → All2 R l₁ l₂ → All2 R (a :: l₁) (b :: l₂)

theorem All2.length_eq {α β : Type} {R : α → β → Prop} {l₁ : List α} {l₂ : List β} (h : All2 R l₁ l₂) :
    l₁.length = l₂.length := by
  induction h with
  | nil => rfl
  | cons _ _ ih => simp [ih]

theorem All2.imp {α β : Type} {R S : α → β → Prop} {l₁ : List α} {l₂ : List β} (h : All2 R l₁ l₂)
    (hi : ∀ a b, a ∈ l₁ → R a b → S a b) : All2 S l₁ l₂ := by
  induction h with
  | nil => exact .nil
  | cons hr _ ih =>
    exact .cons (hi _ _ (List.mem_cons_self ..) hr) (ih (fun a b ha => hi a b (List.mem_cons_of_mem _ ha)))

theorem All2.map_right {α β : Type} {R : α → β → Prop} (f : α → β) (l : List α) (h : ∀ a ∈ l, R a (f a)) :
    All2 R l (l.map f) := by
  induction l with
  | nil => exact .nil
  | cons a l ih =>
    exact .cons (h a (List.mem_cons_self ..)) (ih (fun b hb => h b (List.mem_cons_of_mem _ hb)))

theorem mismatch_congr (g g' : Graph V) (od od' : Nat → Bool) (ds rv : List Nat)
    (h : ∀ d ∈ ds, ver g d = ver g' d ∧ od d = od' d) :
    mismatch g od ds rv = mismatch g' od' ds rv := by
  induction ds generalizing rv with
  | nil => simp [mismatch]
  | cons d ds ih =>
    cases rv with
    | nil => simp [mismatch]
    | cons r rs =>
      simp only [mismatch]
      rw [ih rs (fun d hd => h d (List.mem_cons_of_mem _ hd)), (h d (List.mem_cons_self ..)).1,
        (h d (List.mem_cons_self ..)).2]

theorem mismatch_true_of_mem (g : Graph V) (od : Nat → Bool) (ds rv : List Nat) (d : Nat)
    (hd : d ∈ ds) (hod : od d = true) : mismatch g od ds rv = true := by
  induction ds generalizing rv with
  | nil => simp at hd
  | cons e ds ih =>
    cases rv with
    | nil => simp [mismatch]
    | cons r rs =>
      simp only [mismatch]
      rcases List.mem_cons.1 hd with rfl | h
      · simp [hod]
      · simp [ih rs h]

theorem mismatch_true_of_forall₂ (g : Graph V) (od : Nat → Bool) (Q : Nat → Nat → Prop) (ds rv : List Nat)
    (hq : All2 Q ds rv) (d : Nat) (hd : d ∈ ds) (hne : ∀ r, Q d r → ver g d ≠ r) :
    mismatch g od ds rv = true := by
  induction hq with
  | nil => simp at hd
  | cons hqr _ ih =>
    simp only [mismatch]
    rcases List.mem_cons.1 hd with rfl | h
    · simp [hne _ hqr]
    · simp [ih h]

/-- no mismatch: the remembered list covers all dependencies, positionwise equal and processed -/
theorem mismatch_false_forall₂ (g : Graph V) (od : Nat → Bool) (ds rv : List Nat)
    (h : mismatch g od ds rv = false) (hlen : ds.length = rv.length) :
    All2 (fun d r => ver g d = r ∧ od d = false) ds rv := by
  induction ds generalizing rv with
  | nil => cases rv with
    | nil => exact .nil
    | cons => simp at hlen
  | cons d ds ih =>
    cases rv with
    | nil => simp at hlen
    | cons r rs =>
      simp only [mismatch, Bool.or_eq_false_iff, bne_eq_false_iff_eq] at h
      exact .cons ⟨h.1.1, h.1.2⟩ (ih rs h.2 (by simpa using hlen))

theorem mismatch_false_mem (g : Graph V) (od : Nat → Bool) (ds rv : List Nat)
    (h : mismatch g od ds rv = false) (d : Nat) (hd : d ∈ ds) : od d = false := by
  cases hod : od d with
  | false => rfl
  | true => rw [mismatch_true_of_mem g od ds rv d hd hod] at h; cases h

theorem mismatch_map_ver (g : Graph V) (od : Nat → Bool) (ds : List Nat)
    (h : ∀ d ∈ ds, od d = false) : mismatch g od ds (ds.map (ver g)) = false := by
  induction ds with
  | nil => simp [mismatch]
  | cons d ds ih =>
    simp only [List.map_cons, mismatch]
    simp [h d (List.mem_cons_self ..), ih (fun d hd => h d (List.mem_cons_of_mem _ hd))]

/-- no mismatch against parameter-like dependencies (`od = false`): the remembered list starts with
    the current versions in enumeration order -/
theorem mismatch_false_map (g : Graph V) (od : Nat → Bool) (ds rv : List Nat)
    (h : mismatch g od ds rv = false) (hlen : ds.length = rv.length) : ds.map (ver g) = rv := by
  induction ds generalizing rv with
  | nil => cases rv with
    | nil => rfl
    | cons => simp at hlen
  | cons d ds ih =>
    cases rv with
    | nil => simp at hlen
    | cons r rs =>
      simp only [mismatch, Bool.or_eq_false_iff, bne_eq_false_iff_eq] at h
      simp [h.1.1, ih rs h.2 (by simpa using hlen)]

theorem sum_eq_pointwise (ds : List Nat) (f g : Nat → Nat) (hle : ∀ d ∈ ds, f d ≤ g d)
    (hsum : (ds.map f).sum = (ds.map g).sum) : ∀ d ∈ ds, f d = g d := by
  induction ds with
  | nil => simp
  | cons d ds ih =>
    simp only [List.map_cons, List.sum_cons] at hsum
    have h1 := hle d (List.mem_cons_self ..)
    have hle' : ∀ e ∈ ds, f e ≤ g e := fun e he => hle e (List.mem_cons_of_mem _ he)
    have h2 : (ds.map f).sum ≤ (ds.map g).sum := by
      clear hsum ih
      induction ds with
      | nil => simp
      | cons e es ihe =>
        simp only [List.map_cons, List.sum_cons]
        have := hle' e (List.mem_cons_self ..)
        have := ihe (fun x hx => hle x (by simp at hx ⊢; rcases hx with rfl | hx <;> simp [*]))
          (fun x hx => hle' x (List.mem_cons_of_mem _ hx))
        omega
    intro e he
    rcases List.mem_cons.1 he with rfl | he
    · omega
    · exact ih hle' (by omega) e he

/-! ### `specPullS` -/

theorem specPullS_congr (ev ev' : Nat → V) (next : List (Option V) → Option Nat) (ds : List Nat) (n : Nat)
    (es : List (Option V)) (h : ∀ d ∈ ds, ev d = ev' d) :
    specPullS ev next ds n es = specPullS ev' next ds n es := by
  induction n generalizing es with
  | zero => rfl
  | succ n ih =>
    simp only [specPullS]
    split
    · rfl
    · rename_i k _
      cases hd : ds[k]? with
      | none => rfl
      | some d =>
        dsimp only
        rw [h d (List.mem_of_getElem? hd)]
        exact ih _

/-! ### fuel independence on ranked graphs -/

section
variable {rank : Nat → Nat} {F : Nat}

theorem outdated_fuel (g : Graph V) (hwf : Ranked rank F g) (f1 f2 i : Nat) (h1 : rank i < f1) (h2 : rank i < f2) :
    outdated f1 g i = outdated f2 g i := by
  induction f1 generalizing f2 i with
  | zero => omega
  | succ f1 ih =>
    cases f2 with
    | zero => omega
    | succ f2 =>
      simp only [outdated]
      split
      · rfl
      · rename_i s hs
        split
        · rfl
        · congr 1
          apply mismatch_congr
          intro d hd
          have := hwf.2 i s hs d hd
          exact ⟨rfl, ih f2 d (by omega) (by omega)⟩

theorem evalSpec_fuel (g : Graph V) (hwf : Ranked rank F g) (f1 f2 i : Nat) (h1 : rank i < f1) (h2 : rank i < f2) :
    evalSpec f1 g i = evalSpec f2 g i := by
  induction f1 generalizing f2 i with
  | zero => omega
  | succ f1 ih =>
    cases f2 with
    | zero => omega
    | succ f2 =>
      simp only [evalSpec]
      split
      · rfl
      · rename_i s hs
        congr 1
        apply specPullS_congr
        intro d hd
        have := hwf.2 i s hs d hd
        exact ih f2 d (by omega) (by omega)

theorem pullS_congr (ev ev' : Graph V → Nat → Graph V × Log) (next : List (Option V) → Option Nat) (ds : List Nat)
    (n : Nat) (g : Graph V) (es : List (Option V)) (hst : ∀ g d, SameStatic (ev g d).1 g)
    (h : ∀ g', SameStatic g' g → ∀ d ∈ ds, ev g' d = ev' g' d) :
    pullS ev next ds n g es = pullS ev' next ds n g es := by
  induction n generalizing g es with
  | zero => rfl
  | succ n ih =>
    simp only [pullS]
    split
    · rfl
    · rename_i k _
      cases hd : ds[k]? with
      | none => rfl
      | some d =>
        dsimp only
        have h0 := h g (SameStatic.refl g) d (List.mem_of_getElem? hd)
        rw [← h0]
        rw [ih (ev g d).1 _ (fun g' hg' e he => h g' (hg'.trans (hst g d)) e he)]

theorem eval_fuel (g : Graph V) (hwf : Ranked rank F g) (f1 f2 i : Nat) (h1 : rank i < f1) (h2 : rank i < f2) :
    eval f1 g i = eval f2 g i := by
  induction f1 generalizing f2 i g with
  | zero => omega
  | succ f1 ih =>
    cases f2 with
    | zero => omega
    | succ f2 =>
      simp only [eval]
      split
      · rfl
      · rename_i s hs
        rw [outdated_fuel g hwf (f1+1) (f2+1) i h1 h2]
        have hp : pullS (fun g d => eval f1 g d) (s.next s.scalars s.arrays) s.deps s.deps.length g
              (List.replicate s.deps.length none)
            = pullS (fun g d => eval f2 g d) (s.next s.scalars s.arrays) s.deps s.deps.length g
              (List.replicate s.deps.length none) := by
          apply pullS_congr
          · intro g d; exact eval_static f1 g d
          · intro g' hg' d hd
            have := hwf.2 i s hs d hd
            exact ih g' (hwf.of_static hg') f2 d (by omega) (by omega)
        rw [hp]

/-! ### fuel-free unfolding equations (fuel `F` never runs out on a graph ranked below `F`) -/

theorem Outdated_eq (g : Graph V) (hwf : Ranked rank F g) (i : Nat) :
    Outdated F g i = match g i with
      | .param _ _ => false
      | .struct s => match s.remembered with
        | none => true
        | some rv => s.flag || mismatch g (Outdated F g) s.deps rv := by
  obtain ⟨F', rfl⟩ : ∃ F', F = F' + 1 := ⟨F - 1, by have := hwf.1 i; omega⟩
  cases hs : g i with
  | param x v => simp [Outdated, outdated, hs]
  | struct s =>
    cases hr : s.remembered with
    | none => simp [Outdated, outdated, hs, hr]
    | some rv =>
      simp only [Outdated, outdated, hs, hr]
      congr 1
      apply mismatch_congr
      intro d hd
      have := hwf.2 i s hs d hd
      have := hwf.1 i
      exact ⟨rfl, outdated_fuel g hwf _ _ d (by omega) (by omega)⟩

theorem Spec_eq (g : Graph V) (hwf : Ranked rank F g) (i : Nat) :
    Spec F g i = match g i with
      | .param x _ => x
      | .struct s => s.fn s.scalars s.arrays
          (specPullS (Spec F g) (s.next s.scalars s.arrays) s.deps s.deps.length (List.replicate s.deps.length none)) := by
  obtain ⟨F', rfl⟩ : ∃ F', F = F' + 1 := ⟨F - 1, by have := hwf.1 i; omega⟩
  cases hs : g i with
  | param x v => simp [Spec, evalSpec, hs]
  | struct s =>
    simp only [Spec, evalSpec, hs]
    congr 1
    apply specPullS_congr
    intro d hd
    have := hwf.2 i s hs d hd
    have := hwf.1 i
    exact evalSpec_fuel g hwf _ _ d (by omega) (by omega)

/-- `Struct.Value()` in general (processors may skip inputs) -/
theorem Eval_eq (g : Graph V) (hwf : Ranked rank F g) (i : Nat) :
    Eval F g i = match g i with
      | .param _ _ => (g, [])
      | .struct s =>
        if Outdated F g i then
          let r := pullS (Eval F) (s.next s.scalars s.arrays) s.deps s.deps.length g
            (List.replicate s.deps.length none)
          (r.1.set i (.struct (s.executed r.1 r.2.1)), r.2.2 ++ [(i, s.version + 1)])
        else (g, []) := by
  obtain ⟨F', rfl⟩ : ∃ F', F = F' + 1 := ⟨F - 1, by have := hwf.1 i; omega⟩
  cases hs : g i with
  | param x v => simp [Eval, eval, hs]
  | struct s =>
    have hp : pullS (fun g d => eval F' g d) (s.next s.scalars s.arrays) s.deps s.deps.length g
          (List.replicate s.deps.length none)
        = pullS (Eval (F'+1)) (s.next s.scalars s.arrays) s.deps s.deps.length g
          (List.replicate s.deps.length none) := by
      apply pullS_congr
      · intro g d; exact eval_static F' g d
      · intro g' hg' d hd
        have := hwf.2 i s hs d hd
        have := hwf.1 i
        exact eval_fuel g' (hwf.of_static hg') _ _ d (by omega) (by omega)
    simp only [Eval, eval, hs]
    rw [hp]
    rfl

end

theorem Eval_static (F : Nat) (g : Graph V) (i : Nat) : SameStatic (Eval F g i).1 g := eval_static _ g i

end PolyVerif.Nodes
