/-
  C05, round 2 — `strings.Fields` applied to a printed face line gives back the keyword and the three corner
  tokens (`PolyVerif/Model/ObjLex.lean`).  Core Lean only.
-/
import PolyVerif.Model.ObjLex
import PolyVerif.Lemmas.ObjText

set_option linter.unusedSimpArgs false
set_option linter.unusedVariables false

namespace PolyVerif
namespace ObjTextL
open Obj ObjText

def NoBlank (l : List Char) : Prop := ∀ c ∈ l, ObjText.isSpace c = false

theorem fieldsGo_tok_aux : ∀ (tok : List Char), NoBlank tok → ∀ (r cur : List Char) (acc : List (List Char)),
    fieldsGo (tok ++ r) cur acc = fieldsGo r (tok.reverse ++ cur) acc
  | [], _, r, cur, acc => rfl
  | c :: tok, h, r, cur, acc => by
    have hc : ObjText.isSpace c = false := h c (by simp)
    have ih := fieldsGo_tok_aux tok (fun x hx => h x (by simp [hx])) r (c :: cur) acc
    simp only [List.cons_append, fieldsGo, hc, Bool.false_eq_true, ↓reduceIte, ih, List.reverse_cons, List.append_assoc,
      List.singleton_append, List.nil_append]

/-- three blank-free, non-empty tokens after the keyword -/
theorem fieldsL_face_aux (A B C : List Char) (hA : NoBlank A) (hB : NoBlank B) (hC : NoBlank C)
    (nA : A ≠ []) (nB : B ≠ []) (nC : C ≠ []) :
    fieldsL ('f' :: ' ' :: (A ++ ' ' :: (B ++ ' ' :: C))) = [['f'], A, B, C] := by
  have hf : ObjText.isSpace 'f' = false := by decide
  have hs : ObjText.isSpace ' ' = true := by decide
  have eA : A.reverse.isEmpty = false := by cases A <;> simp_all
  have eB : B.reverse.isEmpty = false := by cases B <;> simp_all
  have eC : C.reverse.isEmpty = false := by cases C <;> simp_all
  unfold fieldsL
  simp only [fieldsGo, hf, hs, Bool.false_eq_true, ↓reduceIte, List.isEmpty_cons, List.isEmpty_nil, List.reverse_cons,
    List.reverse_nil, List.nil_append]
  rw [fieldsGo_tok_aux A hA]
  simp only [fieldsGo, hs, ↓reduceIte, List.append_nil, eA, Bool.false_eq_true, List.reverse_reverse]
  rw [fieldsGo_tok_aux B hB]
  simp only [fieldsGo, hs, ↓reduceIte, List.append_nil, eB, Bool.false_eq_true, List.reverse_reverse]
  have := fieldsGo_tok_aux C hC [] [] [B, A, ['f']]
  rw [List.append_nil] at this
  rw [this]
  simp [fieldsGo, eC]

theorem fields_printFace_aux (a b c : Corner) :
    fields (printFace a b c) = ["f", showCorner a, showCorner b, showCorner c] := by
  obtain ⟨a1, a2⟩ := showCornerL_chars a
  obtain ⟨b1, b2⟩ := showCornerL_chars b
  obtain ⟨c1, c2⟩ := showCornerL_chars c
  simp only [fields, printFace, String.toList_ofList, printFaceL]
  rw [fieldsL_face_aux _ _ _ a1 b1 c1 a2 b2 c2]
  rfl

end ObjTextL
end PolyVerif
