/-
  Lemmas about Model/Readers.lean and Model/Spz.lean for Props/C14 (and the SPZ part of Props/C15):
  exact sequential reads on prefixes, the PLY header line scan, the reference encoding of the binary
  PLY face element and its prefix-safety, the record loop of `.splat` on prefixes.
-/
import PolyVerif.Model.Readers
import PolyVerif.Lemmas.Splat
import Mathlib.Tactic

namespace PolyVerif
namespace Readers
open Spz
open Splat

/-! ### sequential exact reads -/

theorem readArrays_short (sizes : List Nat) (bs : List UInt8) (h : bs.length < sizes.sum) :
    readArrays sizes bs = none := by
  induction sizes generalizing bs with
  | nil => simp at h
  | cons n ns ih =>
    simp only [readArrays]
    split
    · next hn =>
      have : (bs.drop n).length < ns.sum := by simp only [List.length_drop, List.sum_cons] at *; omega
      rw [ih _ this]
    · rfl

theorem readArrays_full (recs : List (List UInt8)) (rest : List UInt8) :
    readArrays (recs.map List.length) (recs.flatten ++ rest) = some (recs, rest) := by
  induction recs with
  | nil => simp [readArrays]
  | cons r rs ih =>
    simp only [List.map_cons, List.flatten_cons, List.append_assoc, readArrays]
    rw [if_pos (by simp)]
    simp [ih]

theorem leNat_le32n (n : Nat) (h : n < 2 ^ 32) : leNat (le32n n) = n := by
  simp only [le32n, leNat, UInt8.toNat_ofNat']
  omega

theorem le32n_length (n : Nat) : (le32n n).length = 4 := by simp [le32n]

theorem sum_replicate_nat (n m : Nat) : (List.replicate n m).sum = n * m := by
  induction n with
  | zero => simp
  | succ n ih => simp [List.replicate_succ, ih]; ring

theorem flatten_length_const (recs : List (List UInt8)) (m : Nat) (h : ∀ r ∈ recs, r.length = m) :
    recs.flatten.length = recs.length * m := by
  induction recs with
  | nil => simp
  | cons r rs ih =>
    simp only [List.flatten_cons, List.length_append, List.length_cons]
    rw [ih (fun x hx => h x (List.mem_cons_of_mem _ hx)), h r (List.mem_cons_self)]; ring

theorem map_length_const (recs : List (List UInt8)) (m : Nat) (h : ∀ r ∈ recs, r.length = m) :
    recs.map List.length = List.replicate recs.length m := by
  induction recs with
  | nil => simp
  | cons r rs ih =>
    simp only [List.map_cons, List.length_cons, List.replicate_succ]
    rw [ih (fun x hx => h x (List.mem_cons_of_mem _ hx)), h r (List.mem_cons_self)]


/-! ### .splat record loop on prefixes -/

theorem decRec_some_length {l : List UInt8} {r : Rec} (h : decRec l = some r) : l.length = 32 := by
  unfold decRec at h
  split at h
  · simp
  · simp at h

theorem readRecs_shortList (l : List UInt8) (h0 : l ≠ []) (h : l.length < 32) :
    readRecs l = ⟨[], true, 1⟩ := by
  rw [readRecs, dif_neg h0]
  cases hd : decRec (l.take 32) with
  | none => rfl
  | some r =>
    have := decRec_some_length hd
    simp only [List.length_take] at this
    omega

theorem splat_prefix_aux (rs : List Rec) (k : Nat) (hk : k ≤ 32 * rs.length) :
    readRecs ((rs.flatMap encRec).take k) = ⟨rs.take (k / 32), decide (k % 32 ≠ 0), k / 32 + 1⟩ := by
  induction rs generalizing k with
  | nil =>
    have : k = 0 := by simpa using hk
    subst this
    rw [readRecs]; simp
  | cons r rs ih =>
    have hl := encRec_length r
    rw [List.flatMap_cons]
    by_cases h32 : 32 ≤ k
    · have e : (encRec r ++ rs.flatMap encRec).take k = encRec r ++ (rs.flatMap encRec).take (k - 32) := by
        rw [List.take_append, List.take_of_length_le (by omega), hl]
      rw [e, readRecs_append, ih (k - 32) (by simp only [List.length_cons] at hk; omega)]
      have h1 : k / 32 = (k - 32) / 32 + 1 := by omega
      have h2 : k % 32 = (k - 32) % 32 := by omega
      simp only [h1, h2, List.take_succ_cons]
    · have hk' : k < 32 := by omega
      have e : (encRec r ++ rs.flatMap encRec).take k = (encRec r).take k := by
        rw [List.take_append]; simp [hl]; omega
      rw [e]
      by_cases hz : k = 0
      · subst hz; rw [readRecs]; simp
      · rw [readRecs_shortList _ (by
          intro hnil; have := congrArg List.length hnil; simp [hl] at this; omega) (by simp [hl]; omega)]
        have h1 : k / 32 = 0 := by omega
        have h2 : k % 32 ≠ 0 := by omega
        simp [h1, h2]

/-! ### SPZ -/

theorem readArrays_ok (sizes : List Nat) (bs : List UInt8) (h : sizes.sum ≤ bs.length) :
    ∃ as r, readArrays sizes bs = some (as, r) ∧ as.map List.length = sizes ∧ as.flatten ++ r = bs := by
  induction sizes generalizing bs with
  | nil => exact ⟨[], bs, rfl, rfl, rfl⟩
  | cons n ns ih =>
    have hn : n ≤ bs.length := by simp only [List.sum_cons] at h; omega
    obtain ⟨as, r, h1, h2, h3⟩ := ih (bs.drop n) (by simp only [List.length_drop, List.sum_cons] at *; omega)
    refine ⟨bs.take n :: as, r, ?_, ?_, ?_⟩
    · simp only [readArrays, if_pos hn, h1]
    · simp [h2, List.length_take, hn]
    · simp only [List.flatten_cons, List.append_assoc, h3, List.take_append_drop]

/-- SPZ: a stream that is exactly as long as its (valid) header announces: every strict prefix is rejected -/
theorem spz_prefix_aux (bs : List UInt8) (h16 : 16 ≤ bs.length)
    (hlen : bs.length = payloadLength (parseHeader (bs.take 16)))
    (k : Nat) (hk : k < bs.length) : ∃ e, readRaw (bs.take k) = .error e := by
  unfold readRaw
  by_cases hk16 : 16 ≤ k
  · have ht : ((bs.take k).take 16) = bs.take 16 := by rw [List.take_take]; congr 1; omega
    rw [if_pos (by simp [List.length_take]; omega), ht]
    simp only
    split
    · have : readArrays (arraySizes (parseHeader (bs.take 16))) ((bs.take k).drop 16) = none :=
        readArrays_short _ _ (by
          simp only [List.length_drop, List.length_take, payloadLength] at *; omega)
      rw [this]; exact ⟨_, rfl⟩
    · exact ⟨_, rfl⟩
  · rw [if_neg (by simp [List.length_take]; omega)]; exact ⟨_, rfl⟩


theorem six_of_length {β : Type} (as : List β) (h : as.length = 6) :
    ∃ p a c s r t, as = [p, a, c, s, r, t] := by
  rcases as with _ | ⟨p, _ | ⟨a, _ | ⟨c, _ | ⟨s, _ | ⟨r, _ | ⟨t, _ | ⟨x, xs⟩⟩⟩⟩⟩⟩⟩ <;> simp at h
  exact ⟨p, a, c, s, r, t, rfl⟩

/-- ... and a stream at least as long as its valid header announces is accepted, every array with the declared length -/
theorem spz_complete_aux (bs : List UInt8) (h16 : 16 ≤ bs.length)
    (hv : (parseHeader (bs.take 16)).valid = true)
    (hlen : payloadLength (parseHeader (bs.take 16)) ≤ bs.length) :
    ∃ a, readRaw bs = .ok a ∧ a.header = parseHeader (bs.take 16) ∧
      a.positions.length = a.header.numPoints * posBytes a.header ∧ a.alphas.length = a.header.numPoints ∧
      a.colors.length = a.header.numPoints * 3 ∧ a.scales.length = a.header.numPoints * 3 ∧
      a.rotations.length = a.header.numPoints * 3 ∧
      a.sh.length = a.header.numPoints * 3 * shDim a.header.shDegree := by
  obtain ⟨as, r, h1, h2, _⟩ := readArrays_ok (arraySizes (parseHeader (bs.take 16))) (bs.drop 16)
    (by simp only [List.length_drop, payloadLength] at *; omega)
  simp only [arraySizes] at h2
  obtain ⟨p, a, c, s, ro, sh, rfl⟩ := six_of_length as (by have := congrArg List.length h2; simpa using this)
  simp only [List.map_cons, List.map_nil, List.cons.injEq, and_true] at h2
  obtain ⟨e1, e2, e3, e4, e5, e6⟩ := h2
  refine ⟨⟨parseHeader (bs.take 16), p, a, c, s, ro, sh⟩, ?_, rfl, e1, e2, e3, e4, e5, e6⟩
  unfold readRaw
  rw [if_pos h16]; simp only [hv, if_true, h1]

/-! ### PLY header -/

/-- `readLine` on a line without '\n' followed by '\n' -/
theorem readLine_line (l rest : List UInt8) (hl : (10 : UInt8) ∉ l) :
    readLine (l ++ 10 :: rest) = some (l.filter (· ≠ 13), rest) := by
  induction l with
  | nil => simp [readLine]
  | cons b bs ih =>
    have hb : b ≠ 10 := fun h => hl (h ▸ List.mem_cons_self)
    have hbs : (10 : UInt8) ∉ bs := fun h => hl (List.mem_cons_of_mem _ h)
    simp only [List.cons_append, readLine, if_neg hb, ih hbs]
    by_cases h13 : b = 13 <;> simp [h13]

/-- `readLine` fails when the input ends before a '\n' -/
theorem readLine_noNL (l : List UInt8) (hl : (10 : UInt8) ∉ l) : readLine l = none := by
  induction l with
  | nil => rfl
  | cons b bs ih =>
    have hb : b ≠ 10 := fun h => hl (h ▸ List.mem_cons_self)
    have hbs : (10 : UInt8) ∉ bs := fun h => hl (List.mem_cons_of_mem _ h)
    simp only [readLine, if_neg hb, ih hbs]

/-- the text of a header: lines (none of them `end_header`), then the `end_header` line -/
def headerText (ls : List (List UInt8)) : List UInt8 :=
  ls.flatMap (fun l => l ++ [10]) ++ (endHeader ++ [10])

def HeaderLines (ls : List (List UInt8)) : Prop :=
  ∀ l ∈ ls, (10 : UInt8) ∉ l ∧ l.filter (· ≠ 13) ≠ endHeader

theorem skipHeader_full (ls : List (List UInt8)) (hls : HeaderLines ls) (body : List UInt8) :
    skipHeader (headerText ls ++ body) = some body := by
  induction ls with
  | nil =>
    rw [skipHeader]
    have : readLine (headerText [] ++ body) = some (endHeader, body) := by
      have := readLine_line endHeader body (by decide)
      simpa [headerText, endHeader] using this
    split
    · next h => rw [this] at h; simp at h
    · next l r h =>
      rw [this] at h; simp only [Option.some.injEq, Prod.mk.injEq] at h
      obtain ⟨rfl, rfl⟩ := h; simp
  | cons l ls ih =>
    obtain ⟨h10, hne⟩ := hls l List.mem_cons_self
    have hls' : HeaderLines ls := fun x hx => hls x (List.mem_cons_of_mem _ hx)
    rw [skipHeader]
    have : readLine (headerText (l :: ls) ++ body) = some (l.filter (· ≠ 13), headerText ls ++ body) := by
      have := readLine_line l (headerText ls ++ body) h10
      simpa [headerText] using this
    split
    · next h => rw [this] at h; simp at h
    · next l' r h =>
      rw [this] at h; simp only [Option.some.injEq, Prod.mk.injEq] at h
      obtain ⟨rfl, rfl⟩ := h
      rw [if_neg hne, ih hls']

theorem skipHeader_none_of_readLine {bs : List UInt8} (h : readLine bs = none) : skipHeader bs = none := by
  rw [skipHeader]; split
  · rfl
  · next l r h' => rw [h] at h'; simp at h'

theorem not_mem_take {l : List UInt8} {b : UInt8} (h : b ∉ l) (k : Nat) : b ∉ l.take k :=
  fun hm => h (List.mem_of_mem_take hm)

/-- a file cut anywhere inside its header has no body: `ReadHeader` fails -/
theorem skipHeader_cut (ls : List (List UInt8)) (hls : HeaderLines ls) (body : List UInt8)
    (k : Nat) (hk : k < (headerText ls).length) :
    skipHeader ((headerText ls ++ body).take k) = none := by
  induction ls generalizing k with
  | nil =>
    apply skipHeader_none_of_readLine
    apply readLine_noNL
    have e : (headerText [] ++ body).take k = endHeader.take k := by
      simp only [headerText, List.flatMap_nil, List.nil_append, List.append_assoc] at hk ⊢
      rw [List.take_append]
      have : k ≤ endHeader.length := by simp [endHeader] at hk ⊢; omega
      simp [this]
    rw [e]; exact not_mem_take (by decide) k
  | cons l ls ih =>
    obtain ⟨h10, hne⟩ := hls l List.mem_cons_self
    have hls' : HeaderLines ls := fun x hx => hls x (List.mem_cons_of_mem _ hx)
    have ht : headerText (l :: ls) ++ body = l ++ 10 :: (headerText ls ++ body) := by simp [headerText]
    rw [ht]
    by_cases hkl : k ≤ l.length
    · apply skipHeader_none_of_readLine
      apply readLine_noNL
      rw [List.take_append]
      have : k - l.length = 0 := by omega
      simp only [this, List.take_zero, List.append_nil]
      exact not_mem_take h10 k
    · have e : (l ++ 10 :: (headerText ls ++ body)).take k =
          l ++ 10 :: (headerText ls ++ body).take (k - l.length - 1) := by
        rw [List.take_append, List.take_of_length_le (by omega)]
        obtain ⟨m, hm⟩ : ∃ m, k - l.length = m + 1 := ⟨k - l.length - 1, by omega⟩
        rw [hm, List.take_succ_cons]; simp
      rw [e, skipHeader]
      have hr := readLine_line l ((headerText ls ++ body).take (k - l.length - 1)) h10
      split
      · rfl
      · next l' r h =>
        rw [hr] at h; simp only [Option.some.injEq, Prod.mk.injEq] at h
        obtain ⟨rfl, rfl⟩ := h
        rw [if_neg hne]
        apply ih hls'
        have : (headerText (l :: ls)).length = l.length + 1 + (headerText ls).length := by
          simp [headerText]; omega
        omega

/-! ### PLY binary faces -/

/-! ### reference encoding of the binary face element -/

def encCount (be : Bool) (cs n : Nat) : List UInt8 :=
  if cs = 1 then [UInt8.ofNat n] else if be then (le32n n).reverse else le32n n

/-- one instance of a list property: (number of entries, payload bytes) -/
abbrev ListInst := Nat × List UInt8

def ListInst.ok (p : ListProp) (x : ListInst) : Prop :=
  (p.countSize = 1 ∧ x.1 < 256 ∨ p.countSize = 4 ∧ x.1 < 2 ^ 32) ∧ x.2.length = x.1 * p.elemSize

def encList (be : Bool) (p : ListProp) (x : ListInst) : List UInt8 := encCount be p.countSize x.1 ++ x.2

theorem encCount_length (be : Bool) (p : ListProp) (x : ListInst) (h : ListInst.ok p x) :
    (encCount be p.countSize x.1).length = p.countSize := by
  rcases h.1 with ⟨h1, _⟩ | ⟨h4, _⟩
  · simp [encCount, h1]
  · simp only [encCount, h4]; cases be <;> simp [le32n_length]

theorem decodeCount_encCount (be : Bool) (p : ListProp) (x : ListInst) (h : ListInst.ok p x) :
    decodeCount be (encCount be p.countSize x.1) = x.1 := by
  rcases h.1 with ⟨h1, hx⟩ | ⟨h4, hx⟩
  · simp only [encCount, h1, if_true, decodeCount]
    split <;> simp [leNat, UInt8.toNat_ofNat'] <;> omega
  · simp only [encCount, h4, decodeCount]
    cases be <;> simp [leNat_le32n _ hx]

theorem binList_full (be : Bool) (p : ListProp) (x : ListInst) (h : ListInst.ok p x) (rest : List UInt8) :
    binList be p (encList be p x ++ rest) = some (x.1, encList be p x, rest) := by
  have hc := encCount_length be p x h
  have hcs : p.countSize = 1 ∨ p.countSize = 4 := by rcases h.1 with ⟨a, _⟩ | ⟨a, _⟩ <;> simp [a]
  have hlen : (encList be p x).length = p.countSize + x.1 * p.elemSize := by simp [encList, hc, h.2]
  have ht : (encList be p x ++ rest).take p.countSize = encCount be p.countSize x.1 := by
    simp only [encList, List.append_assoc]
    rw [List.take_append_of_le_length (by omega), List.take_of_length_le (by omega)]
  simp only [binList, if_pos hcs]
  rw [if_pos (by simp [hlen]; omega), ht, decodeCount_encCount be p x h]
  rw [if_pos (by simp [hlen]; omega)]
  rw [← hlen]
  simp

theorem binList_cut (be : Bool) (p : ListProp) (x : ListInst) (h : ListInst.ok p x) (j : Nat)
    (hj : j < (encList be p x).length) : binList be p ((encList be p x).take j) = none := by
  have hc := encCount_length be p x h
  have hlen : (encList be p x).length = p.countSize + x.1 * p.elemSize := by simp [encList, hc, h.2]
  simp only [binList]
  split
  · by_cases hjc : p.countSize ≤ j
    · rw [if_pos (by simp [List.length_take]; omega)]
      have ht : ((encList be p x).take j).take p.countSize = encCount be p.countSize x.1 := by
        rw [List.take_take, Nat.min_eq_left hjc]
        simp only [encList]
        rw [List.take_append_of_le_length (by omega), List.take_of_length_le (by omega)]
      rw [ht, decodeCount_encCount be p x h]
      rw [if_neg (by simp [List.length_take]; omega)]
    · rw [if_neg (by simp [List.length_take]; omega)]
  · rfl

def encLists (be : Bool) : List ListProp → List ListInst → List UInt8
  | p :: ps, x :: xs => encList be p x ++ encLists be ps xs
  | _, _ => []

def ListsOk : List ListProp → List ListInst → Prop
  | [], [] => True
  | p :: ps, x :: xs => ListInst.ok p x ∧ ListsOk ps xs
  | _, _ => False

theorem binFaceLists_full (be : Bool) (ps : List ListProp) (xs : List ListInst) (h : ListsOk ps xs)
    (rest : List UInt8) :
    binFaceLists be ps (encLists be ps xs ++ rest) = some (xs.map (·.1), encLists be ps xs, rest) := by
  induction ps generalizing xs with
  | nil => cases xs <;> simp_all [ListsOk, binFaceLists, encLists]
  | cons p ps ih =>
    cases xs with
    | nil => simp [ListsOk] at h
    | cons x xs =>
      obtain ⟨hx, hxs⟩ := h
      simp only [encLists, List.append_assoc, binFaceLists, binList_full be p x hx, ih xs hxs, List.map_cons]

theorem binFaceLists_cut (be : Bool) (ps : List ListProp) (xs : List ListInst) (h : ListsOk ps xs)
    (j : Nat) (hj : j < (encLists be ps xs).length) :
    binFaceLists be ps ((encLists be ps xs).take j) = none := by
  induction ps generalizing xs j with
  | nil => cases xs <;> simp [encLists] at hj
  | cons p ps ih =>
    cases xs with
    | nil => simp [ListsOk] at h
    | cons x xs =>
      obtain ⟨hx, hxs⟩ := h
      simp only [encLists] at hj ⊢
      by_cases hjl : j < (encList be p x).length
      · rw [List.take_append_of_le_length (by omega)]
        simp only [binFaceLists, binList_cut be p x hx j hjl]
      · rw [List.take_append, List.take_of_length_le (by omega)]
        simp only [binFaceLists, binList_full be p x hx]
        rw [ih xs hxs _ (by simp only [List.length_append] at hj; omega)]

/-- a face instance fits the face header: list instances fit, and the index list has 3 or 4 entries -/
def FaceOk (f : FaceHdr) (xs : List ListInst) : Prop :=
  ListsOk f.lists xs ∧ ∃ pts, (xs.map (·.1))[f.idx]? = some pts ∧ (pts = 3 ∨ pts = 4)

def facePoints (f : FaceHdr) (xs : List ListInst) : Nat := ((xs.map (·.1))[f.idx]?).getD 0

theorem binFace_full (be : Bool) (f : FaceHdr) (xs : List ListInst) (h : FaceOk f xs) (rest : List UInt8) :
    binFace be f (encLists be f.lists xs ++ rest) = .ok (⟨facePoints f xs, encLists be f.lists xs⟩, rest) := by
  obtain ⟨hl, pts, hp, h34⟩ := h
  simp only [binFace, binFaceLists_full be f.lists xs hl, hp, facePoints, Option.getD_some]
  rw [if_neg (by omega)]

theorem binFace_cut (be : Bool) (f : FaceHdr) (xs : List ListInst) (h : FaceOk f xs) (j : Nat)
    (hj : j < (encLists be f.lists xs).length) :
    binFace be f ((encLists be f.lists xs).take j) = .error .short := by
  simp only [binFace, binFaceLists_cut be f.lists xs h.1 j hj]

def encFaces (be : Bool) (f : FaceHdr) (fs : List (List ListInst)) : List UInt8 :=
  fs.flatMap (encLists be f.lists)

theorem binFaces_full (be : Bool) (f : FaceHdr) (fs : List (List ListInst)) (h : ∀ x ∈ fs, FaceOk f x)
    (rest : List UInt8) :
    binFaces be f fs.length (encFaces be f fs ++ rest) =
      .ok (fs.map fun xs => ⟨facePoints f xs, encLists be f.lists xs⟩) := by
  induction fs with
  | nil => simp [binFaces]
  | cons x fs ih =>
    have hx := h x List.mem_cons_self
    have hfs : ∀ y ∈ fs, FaceOk f y := fun y hy => h y (List.mem_cons_of_mem _ hy)
    simp only [encFaces, List.flatMap_cons, List.append_assoc, List.length_cons, binFaces,
      binFace_full be f x hx]
    have := ih hfs
    simp only [encFaces] at this
    rw [this]; rfl

theorem binFaces_cut (be : Bool) (f : FaceHdr) (fs : List (List ListInst)) (h : ∀ x ∈ fs, FaceOk f x)
    (j : Nat) (hj : j < (encFaces be f fs).length) :
    ∃ e, binFaces be f fs.length ((encFaces be f fs).take j) = .error e := by
  induction fs generalizing j with
  | nil => simp [encFaces] at hj
  | cons x fs ih =>
    have hx := h x List.mem_cons_self
    have hfs : ∀ y ∈ fs, FaceOk f y := fun y hy => h y (List.mem_cons_of_mem _ hy)
    simp only [encFaces, List.flatMap_cons, List.length_cons] at hj ⊢
    by_cases hjl : j < (encLists be f.lists x).length
    · rw [List.take_append_of_le_length (by omega)]
      simp only [binFaces, binFace_cut be f x hx j hjl]
      exact ⟨_, rfl⟩
    · rw [List.take_append, List.take_of_length_le (by omega)]
      simp only [binFaces, binFace_full be f x hx]
      obtain ⟨e, he⟩ := ih hfs (j - (encLists be f.lists x).length)
        (by simp only [encFaces, List.length_append] at hj ⊢; omega)
      simp only [encFaces] at he
      rw [he]; exact ⟨_, rfl⟩


/-! ### ASCII PLY body at the line/token level -/

/-- a vertex line as the writer produces it: non-empty text, exactly one parseable token per property -/
def VLineOk (L : Lex) (n : Nat) (l : Line) : Prop :=
  l.blank = false ∧ l.toks.length = n ∧ (l.toks.all L.floatOk) = true

/-- what a cut inside line `l` at a token boundary leaves: non-empty text holding the first `t` tokens,
    `0 < t < number of tokens` -/
def PartialOf (d l : Line) : Prop :=
  d.blank = false ∧ ∃ t, 0 < t ∧ t < l.toks.length ∧ d.toks = l.toks.take t

theorem asciiVerts_step (L : Lex) (n : Nat) (l : Line) (ls : List Line) (k : Nat) (h : VLineOk L n l) :
    asciiVerts L n (l :: ls) (k + 1) =
      match asciiVerts L n ls k with
      | .error e => .error e
      | .ok (vs, r) => .ok (l.toks :: vs, r) := by
  obtain ⟨hb, rfl, ha⟩ := h
  simp only [asciiVerts, hb, Nat.lt_irrefl, if_false, List.take_length, ha, Bool.not_true,
    Bool.false_eq_true]
  cases asciiVerts L l.toks.length ls k with
  | error e => rfl
  | ok p => cases p; rfl

theorem asciiVerts_full (L : Lex) (n : Nat) (vs : List Line) (h : ∀ l ∈ vs, VLineOk L n l) (rest : List Line) :
    asciiVerts L n (vs ++ rest) vs.length = .ok (vs.map (·.toks), rest) := by
  induction vs with
  | nil => cases rest <;> simp [asciiVerts]
  | cons l vs ih =>
    have hvs : ∀ x ∈ vs, VLineOk L n x := fun x hx => h x (List.mem_cons_of_mem _ hx)
    simp only [List.cons_append, List.length_cons, asciiVerts_step L n l _ _ (h l List.mem_cons_self),
      ih hvs, List.map_cons]

theorem asciiVerts_cut (L : Lex) (n : Nat) (vs : List Line) (h : ∀ l ∈ vs, VLineOk L n l)
    (j : Nat) (hj : j < vs.length) (d : Option Line) (hd : ∀ x, d = some x → PartialOf x vs[j]) :
    asciiVerts L n (vs.take j ++ d.toList) vs.length = .error .short := by
  induction vs generalizing j with
  | nil => simp at hj
  | cons l vs ih =>
    obtain ⟨hb, hl, ha⟩ := h l List.mem_cons_self
    have hvs : ∀ x ∈ vs, VLineOk L n x := fun x hx => h x (List.mem_cons_of_mem _ hx)
    cases j with
    | zero =>
      cases d with
      | none => simp [asciiVerts]
      | some x =>
        obtain ⟨hxb, t, ht0, ht, hxt⟩ := hd x rfl
        simp only [List.getElem_cons_zero] at ht hxt
        have hlen : x.toks.length < n := by rw [hxt, List.length_take]; omega
        simp [asciiVerts, hxb, hlen]
    | succ j =>
      simp only [List.take_succ_cons, List.cons_append, List.length_cons,
        asciiVerts_step L n l _ _ (h l List.mem_cons_self)]
      rw [ih hvs j (by simpa using hj) (by simpa using hd)]

/-- token-level instance of a list property: the count token and the entries -/
structure TokList where
  cnt : Tok
  entries : List Tok

def TokList.toks (x : TokList) : List Tok := x.cnt :: x.entries

/-- the list instances fit the face header from list index `i` on -/
def TokListsOk (L : Lex) (f : FaceHdr) : Nat → List TokList → Prop
  | _, [] => True
  | i, x :: xs => L.int? x.cnt = some (x.entries.length : Int) ∧ entriesOk L f i x.entries = true ∧
      TokListsOk L f (i + 1) xs

def ptsUpd (f : FaceHdr) : Nat → List TokList → Option Nat → Option Nat
  | _, [], pts => pts
  | i, x :: xs, pts => ptsUpd f (i + 1) xs (if i = f.idx then some x.entries.length else pts)

theorem asciiList_full (L : Lex) (x : TokList) (h : L.int? x.cnt = some (x.entries.length : Int)) (rest : List Tok) :
    asciiList L (x.toks ++ rest) = some (x.entries, rest) := by
  simp only [TokList.toks, List.cons_append, asciiList, h]
  rw [if_neg (by
    rintro (h | h)
    · omega
    · rw [List.length_append] at h; omega)]
  simp

theorem asciiList_cut (L : Lex) (x : TokList) (h : L.int? x.cnt = some (x.entries.length : Int)) (t : Nat)
    (ht : t < x.toks.length) : asciiList L (x.toks.take t) = none := by
  cases t with
  | zero => simp [asciiList]
  | succ t =>
    simp only [TokList.toks, List.take_succ_cons, asciiList, h]
    rw [if_pos]
    right
    simp only [TokList.toks, List.length_cons] at ht
    simp only [List.length_take]; omega

theorem faceLine_full (L : Lex) (f : FaceHdr) (i : Nat) (xs : List TokList) (h : TokListsOk L f i xs)
    (pts : Option Nat) (extra : List Tok) :
    asciiFaceLine L f i xs.length (xs.flatMap TokList.toks ++ extra) pts =
      asciiFaceLine L f (i + xs.length) 0 extra (ptsUpd f i xs pts) := by
  induction xs generalizing i pts with
  | nil => simp [ptsUpd]
  | cons x xs ih =>
    obtain ⟨h1, h2, h3⟩ := h
    simp only [List.flatMap_cons, List.append_assoc, List.length_cons, asciiFaceLine,
      asciiList_full L x h1, h2, if_true, ptsUpd]
    rw [ih (i + 1) h3]
    congr 1

theorem faceLine_cut (L : Lex) (f : FaceHdr) (i : Nat) (xs : List TokList) (h : TokListsOk L f i xs)
    (pts : Option Nat) (t : Nat) (ht : t < (xs.flatMap TokList.toks).length) :
    asciiFaceLine L f i xs.length ((xs.flatMap TokList.toks).take t) pts = .error .short := by
  induction xs generalizing i pts t with
  | nil => simp at ht
  | cons x xs ih =>
    obtain ⟨h1, h2, h3⟩ := h
    simp only [List.flatMap_cons, List.length_cons] at ht ⊢
    by_cases htl : t < x.toks.length
    · rw [List.take_append_of_le_length (by omega)]
      simp only [asciiFaceLine, asciiList_cut L x h1 t htl]
    · rw [List.take_append, List.take_of_length_le (by omega)]
      simp only [asciiFaceLine, asciiList_full L x h1, h2, if_true]
      exact ih (i + 1) h3 _ _ (by simp only [List.length_append] at ht; omega)

/-- a face line as the writer produces it: the token-level encoding of list instances that fit the
    header, an index list of 3 or 4 entries, nothing after the last list -/
def FLineOk (L : Lex) (f : FaceHdr) (l : Line) : Prop :=
  l.blank = false ∧ ∃ xs : List TokList, xs.length = f.lists.length ∧ TokListsOk L f 0 xs ∧
    l.toks = xs.flatMap TokList.toks ∧ ∃ p, ptsUpd f 0 xs none = some p ∧ (p = 3 ∨ p = 4)

theorem faceLine_ok (L : Lex) (f : FaceHdr) (l : Line) (h : FLineOk L f l) :
    ∃ p, asciiFaceLine L f 0 f.lists.length l.toks none = .ok p ∧ (p = 3 ∨ p = 4) := by
  obtain ⟨_, xs, hlen, hok, htoks, p, hp, h34⟩ := h
  refine ⟨p, ?_, h34⟩
  have := faceLine_full L f 0 xs hok none []
  rw [List.append_nil] at this
  rw [htoks, ← hlen, this, hp]
  simp only [asciiFaceLine]
  rw [if_neg (by omega)]

theorem faceLine_partial (L : Lex) (f : FaceHdr) (l d : Line) (h : FLineOk L f l) (hd : PartialOf d l) :
    asciiFaceLine L f 0 f.lists.length d.toks none = .error .short := by
  obtain ⟨_, xs, hlen, hok, htoks, _⟩ := h
  obtain ⟨_, t, _, ht, hdt⟩ := hd
  rw [hdt, htoks, ← hlen]
  exact faceLine_cut L f 0 xs hok none t (by rw [← htoks]; exact ht)

/-- the points of a face line (3 or 4) -/
def linePoints (L : Lex) (f : FaceHdr) (l : Line) : Nat :=
  match asciiFaceLine L f 0 f.lists.length l.toks none with
  | .ok p => p
  | .error _ => 0

theorem asciiFaces_full (L : Lex) (f : FaceHdr) (fl : List Line) (h : ∀ l ∈ fl, FLineOk L f l) (rest : List Line) :
    asciiFaces L f (fl ++ rest) fl.length = .ok (fl.map fun l => (linePoints L f l, l.toks)) := by
  induction fl with
  | nil => cases rest <;> simp [asciiFaces]
  | cons l fl ih =>
    have hl := h l List.mem_cons_self
    obtain ⟨p, hp, _⟩ := faceLine_ok L f l hl
    have hfl : ∀ x ∈ fl, FLineOk L f x := fun x hx => h x (List.mem_cons_of_mem _ hx)
    simp only [List.cons_append, List.length_cons, asciiFaces, hl.1, hp, ih hfl, List.map_cons, linePoints,
      Bool.false_eq_true, if_false]

theorem asciiFaces_cut (L : Lex) (f : FaceHdr) (fl : List Line) (h : ∀ l ∈ fl, FLineOk L f l)
    (j : Nat) (hj : j < fl.length) (d : Option Line) (hd : ∀ x, d = some x → PartialOf x fl[j]) :
    asciiFaces L f (fl.take j ++ d.toList) fl.length = .error .short := by
  induction fl generalizing j with
  | nil => simp at hj
  | cons l fl ih =>
    have hl := h l List.mem_cons_self
    obtain ⟨p, hp, _⟩ := faceLine_ok L f l hl
    have hfl : ∀ x ∈ fl, FLineOk L f x := fun x hx => h x (List.mem_cons_of_mem _ hx)
    cases j with
    | zero =>
      cases d with
      | none => simp [asciiFaces]
      | some x =>
        have hx := hd x rfl
        simp only [List.getElem_cons_zero] at hx
        simp [asciiFaces, hx.1, faceLine_partial L f l x hl hx]
    | succ j =>
      simp only [List.take_succ_cons, List.cons_append, List.length_cons, asciiFaces, hl.1, hp,
        Bool.false_eq_true, if_false]
      rw [ih hfl j (by simpa using hj) (by simpa using hd)]


/-! ### PTS at the line/token level -/

/-- a point line as written: `fpp ≥ 3` tokens, the ones the reader uses parse -/
def PLineOk (L : Lex) (fpp : Nat) (l : Line) : Prop :=
  l.toks.length = fpp ∧ 3 ≤ fpp ∧ ptsTokensOk L l.toks = true

theorem ptsLoop_step (L : Lex) (fpp : Nat) (l : Line) (ls : List Line) (n : Nat) (o : Option Nat)
    (h : PLineOk L fpp l) (ho : o = none ∨ o = some fpp) :
    ptsLoop L (l :: ls) (n + 1) o =
      match ptsLoop L ls n (some fpp) with
      | .error e => .error e
      | .ok ps => .ok (ptsPoint l.toks :: ps) := by
  obtain ⟨rfl, h3, hok⟩ := h
  have hne : l.toks.isEmpty = false := by
    cases hl : l.toks with
    | nil => simp [hl] at h3
    | cons a b => rfl
  rcases ho with rfl | rfl
  · simp only [ptsLoop, hne, Bool.false_eq_true, if_false, hok, Bool.not_true]
    rw [if_neg (by omega)]
    cases ptsLoop L ls n (some l.toks.length) with
    | error e => rfl
    | ok p => rfl
  · simp only [ptsLoop, hne, Bool.false_eq_true, if_false, hok, Bool.not_true, bne_self_eq_false]
    rw [if_neg (by omega)]
    cases ptsLoop L ls n (some l.toks.length) with
    | error e => rfl
    | ok p => rfl

theorem ptsLoop_full (L : Lex) (fpp : Nat) (pl : List Line) (h : ∀ l ∈ pl, PLineOk L fpp l) (o : Option Nat)
    (ho : o = none ∨ o = some fpp) (rest : List Line) :
    ptsLoop L (pl ++ rest) pl.length o = .ok (pl.map fun l => ptsPoint l.toks) := by
  induction pl generalizing o with
  | nil => cases rest <;> simp [ptsLoop]
  | cons l pl ih =>
    have hpl : ∀ x ∈ pl, PLineOk L fpp x := fun x hx => h x (List.mem_cons_of_mem _ hx)
    simp only [List.cons_append, List.length_cons, ptsLoop_step L fpp l _ _ o (h l List.mem_cons_self) ho,
      ih hpl (some fpp) (Or.inr rfl), List.map_cons]

/-- a cut after at least one complete point line: missing lines, or a line with fewer fields → error -/
theorem ptsLoop_cut (L : Lex) (fpp : Nat) (pl : List Line) (h : ∀ l ∈ pl, PLineOk L fpp l)
    (j : Nat) (hj : j < pl.length) (d : Option Line)
    (hd : ∀ x, d = some x → ∃ t, 0 < t ∧ t < fpp ∧ x.toks.length = t) :
    ptsLoop L (pl.take j ++ d.toList) pl.length (some fpp) = .error .short ∨
    (∃ x, d = some x ∧ ptsLoop L (pl.take j ++ d.toList) pl.length (some fpp) = .error .malformed) := by
  induction pl generalizing j with
  | nil => simp at hj
  | cons l pl ih =>
    have hpl : ∀ x ∈ pl, PLineOk L fpp x := fun x hx => h x (List.mem_cons_of_mem _ hx)
    cases j with
    | zero =>
      cases d with
      | none => left; simp [ptsLoop]
      | some x =>
        obtain ⟨t, ht0, ht, hxt⟩ := hd x rfl
        left
        have hne : x.toks.isEmpty = false := by
          cases hl : x.toks with
          | nil => simp [hl] at hxt; omega
          | cons a b => rfl
        simp only [List.take_zero, List.nil_append, Option.toList_some, List.length_cons, ptsLoop, hne,
          Bool.false_eq_true, if_false]
        by_cases h3 : x.toks.length < 3
        · rw [if_pos h3]
        · rw [if_neg h3, if_pos (by simp; omega)]
    | succ j =>
      simp only [List.take_succ_cons, List.cons_append, List.length_cons,
        ptsLoop_step L fpp l _ _ (some fpp) (h l List.mem_cons_self) (Or.inr rfl)]
      rcases ih hpl j (by simpa using hj) with h1 | ⟨x, hx, h2⟩
      · left; rw [h1]
      · right; exact ⟨x, hx, by rw [h2]⟩

/-- the point a cut first line yields carries only tokens of the full line: each component is the full
    point's component or absent -/
theorem ptsPoint_restriction (toks : List Tok) (t : Nat) (ht : 3 ≤ t) :
    (ptsPoint (toks.take t)).pos = (ptsPoint toks).pos ∧
    ((ptsPoint (toks.take t)).intensity = none ∨ (ptsPoint (toks.take t)).intensity = (ptsPoint toks).intensity) ∧
    ((ptsPoint (toks.take t)).color = none ∨ (ptsPoint (toks.take t)).color = (ptsPoint toks).color) := by
  refine ⟨?_, ?_, ?_⟩
  · simp only [ptsPoint, List.take_take]; congr 1; omega
  · simp only [ptsPoint, List.length_take]
    by_cases h : 3 < min t toks.length
    · right
      rw [if_pos h, if_pos (by omega)]
      rw [List.getElem?_take]; simp; omega
    · left; rw [if_neg h]
  · simp only [ptsPoint, List.length_take]
    by_cases h : 6 < min t toks.length
    · right
      rw [if_pos h, if_pos (by omega)]
      congr 1
      rw [List.drop_take, List.take_take]; congr 1; omega
    · left; rw [if_neg h]

/-! ### bytes → lines → tokens on writer-shaped text -/

/-- tokens joined by single spaces -/
def joinSp : List Tok → List UInt8
  | [] => []
  | [t] => t
  | t :: t' :: ts => t ++ 32 :: joinSp (t' :: ts)

/-- a printed number: non-empty, no white space -/
def CleanTok (t : Tok) : Prop := t ≠ [] ∧ ∀ b ∈ t, isSpace b = false

theorem fieldsAux_tok (t : Tok) (ht : ∀ b ∈ t, isSpace b = false) (rest cur : List UInt8) :
    fieldsAux (t ++ rest) cur = fieldsAux rest (t.reverse ++ cur) := by
  induction t generalizing cur with
  | nil => rfl
  | cons b t ih =>
    have hb := ht b List.mem_cons_self
    simp only [List.cons_append, fieldsAux, hb, Bool.false_eq_true, if_false]
    rw [ih (fun x hx => ht x (List.mem_cons_of_mem _ hx))]
    simp

theorem fields_joinSp_aux (ts : List Tok) (h : ∀ t ∈ ts, CleanTok t) (tail : List UInt8)
    (htail : tail = [] ∨ tail = [32]) :
    fieldsAux (joinSp ts ++ tail) [] = ts := by
  induction ts with
  | nil => rcases htail with rfl | rfl <;> simp [joinSp, fieldsAux, isSpace]
  | cons t ts ih =>
    obtain ⟨hne, hsp⟩ := h t List.mem_cons_self
    have hts : ∀ x ∈ ts, CleanTok x := fun x hx => h x (List.mem_cons_of_mem _ hx)
    have hrev : (t.reverse ++ ([] : List UInt8)).isEmpty = false := by
      cases t with
      | nil => exact absurd rfl hne
      | cons a b => simp
    cases ts with
    | nil =>
      simp only [joinSp]
      rw [fieldsAux_tok t hsp]
      rcases htail with rfl | rfl
      · simp only [fieldsAux, hrev, Bool.false_eq_true, if_false]; simp
      · simp only [fieldsAux, isSpace, hrev, Bool.false_eq_true, if_false]; simp
    | cons t' ts =>
      simp only [joinSp, List.append_assoc, List.cons_append]
      rw [fieldsAux_tok t hsp]
      simp only [fieldsAux, isSpace, hrev, Bool.false_eq_true, if_false]
      have := ih hts
      rw [if_pos (by decide), this]
      simp

theorem fields_joinSp (ts : List Tok) (h : ∀ t ∈ ts, CleanTok t) : fields (joinSp ts) = ts := by
  have := fields_joinSp_aux ts h [] (Or.inl rfl)
  simpa [fields] using this

theorem fields_joinSp_space (ts : List Tok) (h : ∀ t ∈ ts, CleanTok t) : fields (joinSp ts ++ [32]) = ts :=
  fields_joinSp_aux ts h [32] (Or.inr rfl)

/-! scanning lines -/

theorem scanLinesAux_line (l rest cur : List UInt8) (hl : (10 : UInt8) ∉ l) :
    scanLinesAux (l ++ 10 :: rest) cur = dropCR (cur.reverse ++ l) :: scanLinesAux rest [] := by
  induction l generalizing cur with
  | nil => simp [scanLinesAux]
  | cons b l ih =>
    have hb : b ≠ 10 := fun h => hl (h ▸ List.mem_cons_self)
    simp only [List.cons_append, scanLinesAux, if_neg hb]
    rw [ih (b :: cur) (fun h => hl (List.mem_cons_of_mem _ h))]
    simp

theorem scanLinesAux_last (p cur : List UInt8) (hp : (10 : UInt8) ∉ p) :
    scanLinesAux p cur = if (cur.reverse ++ p).isEmpty then [] else [dropCR (cur.reverse ++ p)] := by
  induction p generalizing cur with
  | nil => simp [scanLinesAux]
  | cons b p ih =>
    have hb : b ≠ 10 := fun h => hp (h ▸ List.mem_cons_self)
    simp only [scanLinesAux, if_neg hb]
    rw [ih (b :: cur) (fun h => hp (List.mem_cons_of_mem _ h))]
    simp

theorem dropCR_noCR (l : List UInt8) (h : (13 : UInt8) ∉ l) : dropCR l = l := by
  unfold dropCR
  split
  · next r hr =>
    exfalso; apply h
    have : (13 : UInt8) ∈ l.reverse := by rw [hr]; exact List.mem_cons_self
    simpa using this
  · rfl

/-- the text of a body: every line its tokens joined by single spaces, then a line feed -/
def renderLines (ls : List (List Tok)) : List UInt8 := ls.flatMap fun ts => joinSp ts ++ [10]

def mkLine (ts : List Tok) : Line := ⟨joinSp ts, ts⟩

theorem joinSp_noSpecial (ts : List Tok) (h : ∀ t ∈ ts, CleanTok t) :
    (10 : UInt8) ∉ joinSp ts ∧ (13 : UInt8) ∉ joinSp ts := by
  induction ts with
  | nil => simp [joinSp]
  | cons t ts ih =>
    obtain ⟨_, hsp⟩ := h t List.mem_cons_self
    have hts : ∀ x ∈ ts, CleanTok x := fun x hx => h x (List.mem_cons_of_mem _ hx)
    have h10 : (10 : UInt8) ∉ t := fun hm => by have := hsp _ hm; simp [isSpace] at this
    have h13 : (13 : UInt8) ∉ t := fun hm => by have := hsp _ hm; simp [isSpace] at this
    cases ts with
    | nil => exact ⟨h10, h13⟩
    | cons t' ts =>
      obtain ⟨i10, i13⟩ := ih hts
      simp only [joinSp, List.mem_append, List.mem_cons]
      constructor
      · rintro (hm | hm | hm)
        · exact h10 hm
        · exact absurd hm (by decide)
        · exact i10 hm
      · rintro (hm | hm | hm)
        · exact h13 hm
        · exact absurd hm (by decide)
        · exact i13 hm

/-- complete lines followed by a last piece `p` without line break: the scanner delivers the lines, and `p`
    as a final line when it is non-empty -/
theorem scanLines_render (ls : List (List Tok)) (h : ∀ ts ∈ ls, ∀ t ∈ ts, CleanTok t) (p : List UInt8)
    (hp10 : (10 : UInt8) ∉ p) (hp13 : (13 : UInt8) ∉ p) :
    scanLines (renderLines ls ++ p) = ls.map mkLine ++ (if p.isEmpty then [] else [⟨p, fields p⟩]) := by
  unfold scanLines
  induction ls with
  | nil =>
    simp only [renderLines, List.flatMap_nil, List.nil_append, List.map_nil]
    rw [scanLinesAux_last p [] hp10]
    simp only [List.reverse_nil, List.nil_append]
    by_cases hpe : p.isEmpty = true
    · simp [hpe]
    · simp [hpe, dropCR_noCR p hp13]
  | cons ts ls ih =>
    obtain ⟨j10, j13⟩ := joinSp_noSpecial ts (h ts List.mem_cons_self)
    have hls : ∀ x ∈ ls, ∀ t ∈ x, CleanTok t := fun x hx => h x (List.mem_cons_of_mem _ hx)
    have e : renderLines (ts :: ls) ++ p = joinSp ts ++ 10 :: (renderLines ls ++ p) := by
      simp [renderLines]
    rw [e, scanLinesAux_line _ _ _ j10]
    simp only [List.reverse_nil, List.nil_append, List.map_cons, dropCR_noCR _ j13]
    rw [ih hls]
    simp [mkLine, fields_joinSp ts (h ts List.mem_cons_self)]

theorem joinSp_ne_nil (ts : List Tok) (h : ∀ t ∈ ts, CleanTok t) (hne : ts ≠ []) : joinSp ts ≠ [] := by
  cases ts with
  | nil => exact absurd rfl hne
  | cons t ts =>
    obtain ⟨htne, _⟩ := h t List.mem_cons_self
    cases ts with
    | nil => simpa [joinSp] using htne
    | cons t' ts => simp [joinSp]


/-! ### instrumented readers: same result, iteration bounds -/

theorem readArraysI_fst (sizes : List Nat) (bs : List UInt8) : (readArraysI sizes bs).1 = readArrays sizes bs := by
  induction sizes generalizing bs with
  | nil => rfl
  | cons n ns ih =>
    simp only [readArraysI, readArrays]
    split
    · simp only [ih]
      cases readArrays ns (bs.drop n) with
      | none => rfl
      | some p => rfl
    · rfl

theorem asciiVertsI_fst (L : Lex) (np : Nat) (ls : List Line) (n : Nat) :
    (asciiVertsI L np ls n).1 = asciiVerts L np ls n := by
  induction ls generalizing n with
  | nil => cases n <;> simp [asciiVertsI, asciiVerts]
  | cons l ls ih =>
    cases n with
    | zero => simp [asciiVertsI, asciiVerts]
    | succ n =>
      simp only [asciiVertsI, asciiVerts, apply_ite Prod.fst, ih]

theorem asciiFacesI_fst (L : Lex) (f : FaceHdr) (ls : List Line) (n : Nat) :
    (asciiFacesI L f ls n).1 = asciiFaces L f ls n := by
  induction ls generalizing n with
  | nil => cases n <;> simp [asciiFacesI, asciiFaces]
  | cons l ls ih =>
    cases n with
    | zero => simp [asciiFacesI, asciiFaces]
    | succ n =>
      simp only [asciiFacesI, asciiFaces, apply_ite Prod.fst, ih]
      split_ifs
      · rfl
      · cases asciiFaceLine L f 0 f.lists.length l.toks none with
        | error e => rfl
        | ok p =>
          rfl

theorem ptsLoopI_fst (L : Lex) (ls : List Line) (n : Nat) (o : Option Nat) :
    (ptsLoopI L ls n o).1 = ptsLoop L ls n o := by
  induction ls generalizing n o with
  | nil => cases n <;> simp [ptsLoopI, ptsLoop]
  | cons l ls ih =>
    cases n with
    | zero => simp [ptsLoopI, ptsLoop]
    | succ n =>
      simp only [ptsLoopI, ptsLoop, apply_ite Prod.fst, ih]

/-- number of zero-size reads requested -/
def zeroSizes (sizes : List Nat) : Nat := (sizes.filter (· = 0)).length

theorem readArraysI_steps_le_length (sizes : List Nat) (bs : List UInt8) :
    (readArraysI sizes bs).2 ≤ sizes.length := by
  induction sizes generalizing bs with
  | nil => simp [readArraysI]
  | cons n ns ih =>
    simp only [readArraysI, List.length_cons]
    split
    · have := ih (bs.drop n); simp only; omega
    · simp

theorem readArraysI_steps_le_bytes (sizes : List Nat) (bs : List UInt8) :
    (readArraysI sizes bs).2 ≤ bs.length + 1 + zeroSizes sizes := by
  induction sizes generalizing bs with
  | nil => simp [readArraysI]
  | cons n ns ih =>
    simp only [readArraysI]
    have hz : zeroSizes (n :: ns) = zeroSizes ns + (if n = 0 then 1 else 0) := by
      simp only [zeroSizes, List.filter_cons]
      by_cases h : n = 0 <;> simp [h]
    split
    · have := ih (bs.drop n)
      simp only [List.length_drop] at this
      simp only
      rw [hz]
      split <;> omega
    · simp only; omega

theorem asciiVertsI_steps (L : Lex) (np : Nat) (ls : List Line) (n : Nat) :
    (asciiVertsI L np ls n).2 ≤ ls.length + 1 := by
  induction ls generalizing n with
  | nil => cases n <;> simp [asciiVertsI]
  | cons l ls ih =>
    cases n with
    | zero => simp [asciiVertsI]
    | succ n =>
      have h1 := ih (n + 1); have h2 := ih n
      simp only [asciiVertsI, List.length_cons]
      repeat' split
      all_goals omega

theorem asciiFacesI_steps (L : Lex) (f : FaceHdr) (ls : List Line) (n : Nat) :
    (asciiFacesI L f ls n).2 ≤ ls.length + 1 := by
  induction ls generalizing n with
  | nil => cases n <;> simp [asciiFacesI]
  | cons l ls ih =>
    cases n with
    | zero => simp [asciiFacesI]
    | succ n =>
      have h1 := ih (n + 1); have h2 := ih n
      simp only [asciiFacesI, List.length_cons]
      repeat' split
      all_goals omega

theorem ptsLoopI_steps (L : Lex) (ls : List Line) (n : Nat) (o : Option Nat) :
    (ptsLoopI L ls n o).2 ≤ ls.length + 1 := by
  induction ls generalizing n o with
  | nil => cases n <;> simp [ptsLoopI]
  | cons l ls ih =>
    cases n with
    | zero => simp [ptsLoopI]
    | succ n =>
      have h2 := ih n (some l.toks.length)
      simp only [ptsLoopI, List.length_cons]
      repeat' split
      all_goals first | omega | exact Nat.succ_le_succ h2 | exact Nat.succ_le_succ (Nat.zero_le _)

/-! ### whole-reader instrumentation: same results -/


theorem binFaceListsI_fst (be : Bool) (ps : List ListProp) (bs : List UInt8) :
    (binFaceListsI be ps bs).1 = binFaceLists be ps bs := by
  induction ps generalizing bs with
  | nil => rfl
  | cons p ps ih =>
    simp only [binFaceListsI, binFaceLists]
    cases binList be p bs with
    | none => rfl
    | some x =>
      obtain ⟨c, raw, r⟩ := x
      simp only [ih]

theorem binFaceI_fst (be : Bool) (f : FaceHdr) (bs : List UInt8) : (binFaceI be f bs).1 = binFace be f bs := by
  simp only [binFaceI, binFace, binFaceListsI_fst]

theorem binFacesI_fst (be : Bool) (f : FaceHdr) (n : Nat) (bs : List UInt8) :
    (binFacesI be f n bs).1 = binFaces be f n bs := by
  induction n generalizing bs with
  | zero => rfl
  | succ n ih =>
    simp only [binFacesI, binFaces]
    rw [← binFaceI_fst]
    cases h : (binFaceI be f bs).1 with
    | error e => rfl
    | ok x =>
      obtain ⟨fc, r⟩ := x
      simp only [ih]

theorem readPlyBinBodyI_fst (h : Hdr) (be : Bool) (body : List UInt8) :
    (readPlyBinBodyI h be body).1 = readPlyBinBody h be body := by
  simp only [readPlyBinBodyI, readPlyBinBody]
  rw [← readArraysI_fst]
  cases hq : (readArraysI (List.replicate h.vcount h.vsize) body).1 with
  | none => rfl
  | some x =>
    obtain ⟨vs, r⟩ := x
    cases hf : h.face with
    | none => rfl
    | some f =>
      simp only [binFacesI_fst]

theorem readStlI_fst (bs : List UInt8) : (readStlI bs).1 = readStl bs := by
  simp only [readStlI, readStl]
  rw [← readArraysI_fst]
  cases hq : (readArraysI [80, 4] bs).1 with
  | none => rfl
  | some x =>
    obtain ⟨as, r⟩ := x
    rcases as with _ | ⟨a, _ | ⟨c, _ | ⟨d, e⟩⟩⟩
    · rfl
    · rfl
    · simp only [readArraysI_fst]
    · rfl

theorem scanLinesAuxI_fst (bs cur : List UInt8) : (scanLinesAuxI bs cur).1 = scanLinesAux bs cur := by
  induction bs generalizing cur with
  | nil => rfl
  | cons b bs ih =>
    simp only [scanLinesAuxI, scanLinesAux]
    split <;> simp only [ih]

theorem fieldsAuxI_fst (bs cur : List UInt8) : (fieldsAuxI bs cur).1 = fieldsAux bs cur := by
  induction bs generalizing cur with
  | nil => rfl
  | cons b bs ih =>
    simp only [fieldsAuxI, fieldsAux]
    split
    · simp only [ih]
    · simp only [ih]

theorem scanLinesI_fst (bs : List UInt8) : (scanLinesI bs).1 = scanLines bs := by
  simp only [scanLinesI, scanLines, scanLinesAuxI_fst, fieldsAuxI_fst, fields]

theorem asciiFaceLineI_fst (L : Lex) (f : FaceHdr) (i n : Nat) (toks : List Tok) (pts : Option Nat) :
    (asciiFaceLineI L f i n toks pts).1 = asciiFaceLine L f i n toks pts := by
  induction n generalizing i toks pts with
  | zero => rfl
  | succ n ih =>
    simp only [asciiFaceLineI, asciiFaceLine]
    cases asciiList L toks with
    | none => rfl
    | some x =>
      obtain ⟨es, rest⟩ := x
      simp only
      split
      · exact ih _ _ _
      · rfl

theorem asciiFacesJ_fst (L : Lex) (f : FaceHdr) (ls : List Line) (n : Nat) :
    (asciiFacesJ L f ls n).1 = asciiFaces L f ls n := by
  induction ls generalizing n with
  | nil => cases n <;> rfl
  | cons l ls ih =>
    cases n with
    | zero => rfl
    | succ n =>
      simp only [asciiFacesJ, asciiFaces]
      split
      · exact ih (n + 1)
      · rw [← asciiFaceLineI_fst]
        cases (asciiFaceLineI L f 0 f.lists.length l.toks none).1 with
        | error e => rfl
        | ok p =>
          simp only [ih n]

theorem readPlyAsciiBytesI_fst (L : Lex) (h : Hdr) (body : List UInt8) :
    (readPlyAsciiBytesI L h body).1 = readPlyAsciiBody L h (scanLines body) := by
  simp only [readPlyAsciiBytesI, readPlyAsciiBody, scanLinesI_fst]
  rw [← asciiVertsI_fst]
  cases (asciiVertsI L h.nprops (scanLines body) h.vcount).1 with
  | error e => rfl
  | ok x =>
    obtain ⟨vs, r⟩ := x
    cases h.face with
    | none => rfl
    | some f =>
      simp only [asciiFacesJ_fst]

theorem readPtsI_fst (L : Lex) (bs : List UInt8) : (readPtsI L bs).1 = readPts L bs := by
  simp only [readPtsI, readPts, readPtsLines, scanLinesI_fst]
  cases scanLines bs with
  | nil => rfl
  | cons c ls =>
    simp only
    cases L.atoi? c.raw with
    | none => rfl
    | some n =>
      simp only
      split
      · rfl
      · exact ptsLoopI_fst L ls n.toNat none

/-! ### whole-reader instrumentation: iteration bounds -/

theorem binList_consumes {be : Bool} {p : ListProp} {bs : List UInt8} {c : Nat} {raw r : List UInt8}
    (h : binList be p bs = some (c, raw, r)) : r.length + 1 ≤ bs.length := by
  unfold binList at h
  split at h
  · next hcs =>
    split at h
    · next hle =>
      simp only at h
      split at h
      · simp only [Option.some.injEq, Prod.mk.injEq] at h
        obtain ⟨_, _, rfl⟩ := h
        simp only [List.length_drop]
        rcases hcs with h1 | h4 <;> omega
      · simp at h
    · simp at h
  · simp at h

theorem binFaceListsI_bound (be : Bool) (ps : List ListProp) (bs : List UInt8) :
    match (binFaceListsI be ps bs).1 with
    | some (cs, _, r) => (binFaceListsI be ps bs).2 = cs.length ∧ (binFaceListsI be ps bs).2 + r.length ≤ bs.length
    | none => (binFaceListsI be ps bs).2 ≤ bs.length + 1 := by
  induction ps generalizing bs with
  | nil => simp [binFaceListsI]
  | cons p ps ih =>
    simp only [binFaceListsI]
    cases hb : binList be p bs with
    | none => simp
    | some x =>
      obtain ⟨c, raw, r⟩ := x
      have hc := binList_consumes hb
      have := ih r
      simp only
      cases hq : (binFaceListsI be ps r).1 with
      | none => rw [hq] at this; simp only at this ⊢; omega
      | some y =>
        obtain ⟨cs, raws, r'⟩ := y
        rw [hq] at this; simp only at this ⊢
        simp only [List.length_cons]; omega

theorem binFaceI_bound (be : Bool) (f : FaceHdr) (bs : List UInt8) :
    (binFaceI be f bs).2 ≤ bs.length + 2 ∧
    ∀ fc r, (binFaceI be f bs).1 = .ok (fc, r) → (binFaceI be f bs).2 + r.length ≤ bs.length + 1 ∧ r.length + 1 ≤ bs.length := by
  have hb := binFaceListsI_bound be f.lists bs
  simp only [binFaceI]
  cases hq : (binFaceListsI be f.lists bs).1 with
  | none =>
    rw [hq] at hb; simp only at hb ⊢
    exact ⟨by omega, fun _ _ h => by cases h⟩
  | some y =>
    obtain ⟨cs, raw, r⟩ := y
    rw [hq] at hb; simp only at hb ⊢
    refine ⟨by omega, ?_⟩
    intro fc r' hok
    cases hidx : cs[f.idx]? with
    | none => rw [hidx] at hok; cases hok
    | some pts =>
      rw [hidx] at hok
      simp only at hok
      split at hok
      · cases hok
      · simp only [Except.ok.injEq, Prod.mk.injEq] at hok
        obtain ⟨_, rfl⟩ := hok
        have hne : cs.length ≥ 1 := by
          cases cs with
          | nil => simp at hidx
          | cons a b => simp
        omega

theorem binFacesI_bound (be : Bool) (f : FaceHdr) (n : Nat) (bs : List UInt8) :
    (binFacesI be f n bs).2 ≤ 2 * bs.length + 2 := by
  induction n generalizing bs with
  | zero => simp [binFacesI]
  | succ n ih =>
    obtain ⟨h1, h2⟩ := binFaceI_bound be f bs
    simp only [binFacesI]
    cases hq : (binFaceI be f bs).1 with
    | error e => simp only; omega
    | ok x =>
      obtain ⟨fc, r⟩ := x
      obtain ⟨h3, h4⟩ := h2 fc r hq
      have := ih r
      simp only; omega

theorem readArrays_rest_le {sizes : List Nat} {bs : List UInt8} {as : List (List UInt8)} {r : List UInt8}
    (h : readArrays sizes bs = some (as, r)) : r.length ≤ bs.length := by
  induction sizes generalizing bs as r with
  | nil => simp only [readArrays, Option.some.injEq, Prod.mk.injEq] at h; rw [h.2]
  | cons n ns ih =>
    simp only [readArrays] at h
    split at h
    · cases hq : readArrays ns (bs.drop n) with
      | none => rw [hq] at h; simp at h
      | some y =>
        obtain ⟨as', r'⟩ := y
        rw [hq] at h
        simp only [Option.some.injEq, Prod.mk.injEq] at h
        have := ih hq
        simp only [List.length_drop] at this
        rw [← h.2]; omega
    · simp at h

theorem zeroSizes_replicate (n m : Nat) (hm : 1 ≤ m) : zeroSizes (List.replicate n m) = 0 := by
  simp only [zeroSizes]
  rw [List.filter_eq_nil_iff.mpr]
  · rfl
  · intro a ha; simp only [List.mem_replicate] at ha; simp; omega

theorem readPlyBinBodyI_bound (h : Hdr) (be : Bool) (body : List UInt8) (hv : 1 ≤ h.vsize) :
    (readPlyBinBodyI h be body).2 ≤ 3 * body.length + 3 := by
  have hq := readArraysI_steps_le_bytes (List.replicate h.vcount h.vsize) body
  rw [zeroSizes_replicate _ _ hv] at hq
  simp only [readPlyBinBodyI]
  cases hr : (readArraysI (List.replicate h.vcount h.vsize) body).1 with
  | none => simp only; omega
  | some x =>
    obtain ⟨vs, r⟩ := x
    have hrl : r.length ≤ body.length := by
      rw [readArraysI_fst] at hr; exact readArrays_rest_le hr
    cases h.face with
    | none => simp only; omega
    | some f =>
      have := binFacesI_bound be f f.count r
      simp only; omega

theorem readStlI_bound (bs : List UInt8) : (readStlI bs).2 ≤ bs.length + 3 := by
  have hq := readArraysI_steps_le_length [80, 4] bs
  simp only [readStlI]
  cases hr : (readArraysI [80, 4] bs).1 with
  | none => simp only at hq ⊢; simp only [List.length_cons, List.length_nil] at hq; omega
  | some x =>
    obtain ⟨as, r⟩ := x
    have hrl : r.length ≤ bs.length := by
      rw [readArraysI_fst] at hr; exact readArrays_rest_le hr
    simp only [List.length_cons, List.length_nil] at hq
    rcases as with _ | ⟨a, _ | ⟨c, _ | ⟨d, e⟩⟩⟩
    · simp only; omega
    · simp only; omega
    · have ht := readArraysI_steps_le_bytes (List.replicate (leNat c) 50) r
      rw [zeroSizes_replicate _ _ (by omega)] at ht
      simp only; omega
    · simp only; omega

theorem scanLinesAuxI_steps (bs cur : List UInt8) : (scanLinesAuxI bs cur).2 = bs.length + 1 := by
  induction bs generalizing cur with
  | nil => rfl
  | cons b bs ih => simp only [scanLinesAuxI]; split <;> simp [ih]

theorem fieldsAuxI_steps (bs cur : List UInt8) : (fieldsAuxI bs cur).2 = bs.length + 1 := by
  induction bs generalizing cur with
  | nil => rfl
  | cons b bs ih => simp only [fieldsAuxI]; split <;> simp [ih]

theorem dropCR_length_le (l : List UInt8) : (dropCR l).length ≤ l.length := by
  unfold dropCR
  split
  · next r hr =>
    have : l.reverse.length = r.length + 1 := by rw [hr]; simp
    simp only [List.length_reverse] at this ⊢; omega
  · exact Nat.le_refl _

/-- the lines the scanner delivers: at most one per byte (+1), and together no longer than the input -/
theorem scanLinesAux_sizes (bs cur : List UInt8) :
    (scanLinesAux bs cur).length ≤ bs.length + 1 ∧
    ((scanLinesAux bs cur).map List.length).sum ≤ bs.length + cur.length := by
  induction bs generalizing cur with
  | nil =>
    simp only [scanLinesAux]
    split
    · simp
    · have := dropCR_length_le cur.reverse; simp only [List.length_reverse] at this; simp; omega
  | cons b bs ih =>
    simp only [scanLinesAux]
    split
    · obtain ⟨h1, h2⟩ := ih []
      have := dropCR_length_le cur.reverse; simp only [List.length_reverse] at this
      simp only [List.length_cons, List.map_cons, List.sum_cons, List.length_nil] at *
      omega
    · obtain ⟨h1, h2⟩ := ih (b :: cur)
      simp only [List.length_cons] at *; omega

theorem sum_map_add_const {β : Type} (l : List β) (g : β → Nat) (c : Nat) :
    (l.map fun x => g x + c).sum = (l.map g).sum + c * l.length := by
  induction l with
  | nil => simp
  | cons a l ih => simp only [List.map_cons, List.sum_cons, List.length_cons, ih]; ring

theorem scanLinesI_bound (bs : List UInt8) : (scanLinesI bs).2 ≤ 3 * bs.length + 2 := by
  obtain ⟨h1, h2⟩ := scanLinesAux_sizes bs []
  simp only [scanLinesI, scanLinesAuxI_steps, scanLinesAuxI_fst, fieldsAuxI_steps]
  rw [sum_map_add_const _ List.length 1]
  simp only [List.length_nil] at h2
  omega

theorem fieldsAux_length_le (l cur : List UInt8) : (fieldsAux l cur).length ≤ l.length + 1 := by
  induction l generalizing cur with
  | nil => simp only [fieldsAux]; split <;> simp
  | cons b l ih =>
    simp only [fieldsAux]
    split
    · split
      · have := ih []; simp only [List.length_cons]; omega
      · have := ih []; simp only [List.length_cons]; omega
    · have := ih (b :: cur); simp only [List.length_cons]; omega

theorem asciiList_consumes {L : Lex} {toks es rest : List Tok} (h : asciiList L toks = some (es, rest)) :
    rest.length + 1 ≤ toks.length := by
  cases toks with
  | nil => simp [asciiList] at h
  | cons c r =>
    simp only [asciiList] at h
    cases hi : L.int? c with
    | none => rw [hi] at h; simp at h
    | some v =>
      rw [hi] at h; simp only at h
      split at h
      · simp at h
      · simp only [Option.some.injEq, Prod.mk.injEq] at h
        rw [← h.2]; simp only [List.length_drop, List.length_cons]; omega

theorem asciiFaceLineI_bound (L : Lex) (f : FaceHdr) (i n : Nat) (toks : List Tok) (pts : Option Nat) :
    (asciiFaceLineI L f i n toks pts).2 ≤ toks.length + 2 := by
  induction n generalizing i toks pts with
  | zero => simp [asciiFaceLineI]
  | succ n ih =>
    simp only [asciiFaceLineI]
    cases ha : asciiList L toks with
    | none => simp
    | some x =>
      obtain ⟨es, rest⟩ := x
      have hc := asciiList_consumes ha
      simp only
      split
      · have := ih (i + 1) rest (if i = f.idx then some es.length else pts)
        simp only; omega
      · simp

theorem asciiFacesJ_bound (L : Lex) (f : FaceHdr) (ls : List Line) (n : Nat) :
    (asciiFacesJ L f ls n).2 ≤ (ls.map fun l => l.toks.length + 3).sum + 1 := by
  induction ls generalizing n with
  | nil => cases n <;> simp [asciiFacesJ]
  | cons l ls ih =>
    cases n with
    | zero => simp [asciiFacesJ]
    | succ n =>
      have hl := asciiFaceLineI_bound L f 0 f.lists.length l.toks none
      have h1 := ih (n + 1); have h2 := ih n
      simp only [asciiFacesJ, List.map_cons, List.sum_cons]
      split
      · simp only; omega
      · cases (asciiFaceLineI L f 0 f.lists.length l.toks none).1 with
        | error e => simp only; omega
        | ok p => simp only; omega

theorem asciiVerts_rest_suffix {L : Lex} {np : Nat} {ls : List Line} {n : Nat} {vs : List (List Tok)} {r : List Line}
    (h : asciiVerts L np ls n = .ok (vs, r)) : ∃ pre, ls = pre ++ r := by
  induction ls generalizing n vs r with
  | nil =>
    cases n with
    | zero => simp only [asciiVerts, Except.ok.injEq, Prod.mk.injEq] at h; exact ⟨[], by simp [h.2]⟩
    | succ n => simp [asciiVerts] at h
  | cons l ls ih =>
    cases n with
    | zero => simp only [asciiVerts, Except.ok.injEq, Prod.mk.injEq] at h; exact ⟨[], by simp [h.2]⟩
    | succ n =>
      simp only [asciiVerts] at h
      split at h
      · obtain ⟨pre, hp⟩ := ih h; exact ⟨l :: pre, by simp [hp]⟩
      · split at h
        · cases h
        · split at h
          · cases h
          · cases hq : asciiVerts L np ls n with
            | error e => rw [hq] at h; cases h
            | ok x =>
              obtain ⟨vs', r'⟩ := x
              rw [hq] at h
              simp only [Except.ok.injEq, Prod.mk.injEq] at h
              obtain ⟨pre, hp⟩ := ih hq
              exact ⟨l :: pre, by rw [← h.2]; simp [hp]⟩

theorem scanLines_tokens (bs : List UInt8) :
    (scanLines bs).length ≤ bs.length + 1 ∧
    ((scanLines bs).map fun l => l.toks.length + 3).sum ≤ 5 * bs.length + 4 := by
  obtain ⟨h1, h2⟩ := scanLinesAux_sizes bs []
  simp only [List.length_nil, Nat.add_zero] at h2
  refine ⟨by simpa [scanLines] using h1, ?_⟩
  have hle : ∀ ls : List (List UInt8),
      ((ls.map fun r => (⟨r, fields r⟩ : Line)).map fun l => l.toks.length + 3).sum ≤ (ls.map List.length).sum + 4 * ls.length := by
    intro ls
    induction ls with
    | nil => simp
    | cons r ls ih =>
      have := fieldsAux_length_le r []
      simp only [List.map_cons, List.sum_cons, List.length_cons, fields] at *
      omega
  have := hle (scanLinesAux bs [])
  simp only [scanLines]
  omega

theorem readPlyAsciiBytesI_bound (L : Lex) (h : Hdr) (body : List UInt8) :
    (readPlyAsciiBytesI L h body).2 ≤ 9 * body.length + 9 := by
  have hs := scanLinesI_bound body
  obtain ⟨hl, ht⟩ := scanLines_tokens body
  have hv := asciiVertsI_steps L h.nprops (scanLinesI body).1 h.vcount
  rw [scanLinesI_fst] at hv
  simp only [readPlyAsciiBytesI]
  cases hq : (asciiVertsI L h.nprops (scanLinesI body).1 h.vcount).1 with
  | error e => simp only [scanLinesI_fst] at hv ⊢; omega
  | ok x =>
    obtain ⟨vs, r⟩ := x
    cases h.face with
    | none => simp only [scanLinesI_fst] at hv ⊢; omega
    | some f =>
      have hf := asciiFacesJ_bound L f r f.count
      rw [asciiVertsI_fst, scanLinesI_fst] at hq
      obtain ⟨pre, hp⟩ := asciiVerts_rest_suffix hq
      have hsum : (r.map fun l => l.toks.length + 3).sum ≤ ((scanLines body).map fun l => l.toks.length + 3).sum := by
        rw [hp, List.map_append, List.sum_append]; omega
      simp only [scanLinesI_fst] at hv ⊢; omega

theorem readPtsI_bound (L : Lex) (bs : List UInt8) : (readPtsI L bs).2 ≤ 4 * bs.length + 4 := by
  have hs := scanLinesI_bound bs
  obtain ⟨hl, _⟩ := scanLines_tokens bs
  simp only [readPtsI]
  cases hq : (scanLinesI bs).1 with
  | nil => simp only; omega
  | cons c ls =>
    have hls : ls.length ≤ bs.length := by
      rw [scanLinesI_fst] at hq; rw [hq] at hl; simp only [List.length_cons] at hl; omega
    simp only
    cases L.atoi? c.raw with
    | none => simp only; omega
    | some n =>
      simp only
      split
      · omega
      · have := ptsLoopI_steps L ls n.toNat none
        simp only; omega

end Readers
end PolyVerif
