/-
  Lemmas about Model/Readers.lean and Model/Spz.lean for Props/C14 (and the SPZ part of Props/C15):
  exact sequential reads on prefixes, the PLY header line scan, the reference encoding of the binary
  PLY face element and its prefix-safety, the record loop of `.splat` on prefixes.
-/
import PolyVerif.Model.Readers
import PolyVerif.Lemmas.Splat
import Mathlib.Tactic

namespace PolyVerif
namespace Readers
open Spz
open Splat

/-! ### sequential exact reads -/

theorem readArrays_short (sizes : List Nat) (bs : List UInt8) (h : bs.length < sizes.sum) :
    readArrays sizes bs = none := by
  induction sizes generalizing bs with
  | nil => simp at h
  | cons n ns ih =>
    simp only [readArrays]
    split
    · next hn =>
      have : (bs.drop n).length < ns.sum := by simp only [List.length_drop, List.sum_cons] at *; omega
      rw [ih _ this]
    · rfl

theorem readArrays_full (recs : List (List UInt8)) (rest : List UInt8) :
    readArrays (recs.map List.length) (recs.flatten ++ rest) = some (recs, rest) := by
  induction recs with
  | nil => simp [readArrays]
  | cons r rs ih =>
    simp only [List.map_cons, List.flatten_cons, List.append_assoc, readArrays]
    rw [if_pos (by simp)]
    simp [ih]

theorem leNat_le32n (n : Nat) (h : n < 2 ^ 32) : leNat (le32n n) = n := by
  simp only [le32n, leNat, UInt8.toNat_ofNat']
  omega

theorem le32n_length (n : Nat) : (le32n n).length = 4 := by simp [le32n]

theorem sum_replicate_nat (n m : Nat) : (List.replicate n m).sum = n * m := by
  induction n with
  | zero => simp
  | succ n ih => simp [List.replicate_succ, ih]; ring

theorem flatten_length_const (recs : List (List UInt8)) (m : Nat) (h : ∀ r ∈ recs, r.length = m) :
    recs.flatten.length = recs.length * m := by
  induction recs with
  | nil => simp
  | cons r rs ih =>
    simp only [List.flatten_cons, List.length_append, List.length_cons]
    rw [ih (fun x hx => h x (List.mem_cons_of_mem _ hx)), h r (List.mem_cons_self)]; ring

theorem map_length_const (recs : List (List UInt8)) (m : Nat) (h : ∀ r ∈ recs, r.length = m) :
    recs.map List.length = List.replicate recs.length m := by
  induction recs with
  | nil => simp
  | cons r rs ih =>
    simp only [List.map_cons, List.length_cons, List.replicate_succ]
    rw [ih (fun x hx => h x (List.mem_cons_of_mem _ hx)), h r (List.mem_cons_self)]


/-! ### .splat record loop on prefixes -/

theorem decRec_some_length {l : List UInt8} {r : Rec} (h : decRec l = some r) : l.length = 32 := by
  unfold decRec at h
  split at h
  · simp
  · simp at h

theorem readRecs_shortList (l : List UInt8) (h0 : l ≠ []) (h : l.length < 32) :
    readRecs l = ⟨[], true, 1⟩ := by
  rw [readRecs, dif_neg h0]
  cases hd : decRec (l.take 32) with
  | none => rfl
  | some r =>
    have := decRec_some_length hd
    simp only [List.length_take] at this
    omega

theorem splat_prefix_aux (rs : List Rec) (k : Nat) (hk : k ≤ 32 * rs.length) :
    readRecs ((rs.flatMap encRec).take k) = ⟨rs.take (k / 32), decide (k % 32 ≠ 0), k / 32 + 1⟩ := by
  induction rs generalizing k with
  | nil =>
    have : k = 0 := by simpa using hk
    subst this
    rw [readRecs]; simp
  | cons r rs ih =>
    have hl := encRec_length r
    rw [List.flatMap_cons]
    by_cases h32 : 32 ≤ k
    · have e : (encRec r ++ rs.flatMap encRec).take k = encRec r ++ (rs.flatMap encRec).take (k - 32) := by
        rw [List.take_append, List.take_of_length_le (by omega), hl]
      rw [e, readRecs_append, ih (k - 32) (by simp only [List.length_cons] at hk; omega)]
      have h1 : k / 32 = (k - 32) / 32 + 1 := by omega
      have h2 : k % 32 = (k - 32) % 32 := by omega
      simp only [h1, h2, List.take_succ_cons]
    · have hk' : k < 32 := by omega
      have e : (encRec r ++ rs.flatMap encRec).take k = (encRec r).take k := by
        rw [List.take_append]; simp [hl]; omega
      rw [e]
      by_cases hz : k = 0
      · subst hz; rw [readRecs]; simp
      · rw [readRecs_shortList _ (by
          intro hnil; have := congrArg List.length hnil; simp [hl] at this; omega) (by simp [hl]; omega)]
        have h1 : k / 32 = 0 := by omega
        have h2 : k % 32 ≠ 0 := by omega
        simp [h1, h2]

/-! ### SPZ -/

theorem readArrays_ok (sizes : List Nat) (bs : List UInt8) (h : sizes.sum ≤ bs.length) :
    ∃ as r, readArrays sizes bs = some (as, r) ∧ as.map List.length = sizes ∧ as.flatten ++ r = bs := by
  induction sizes generalizing bs with
  | nil => exact ⟨[], bs, rfl, rfl, rfl⟩
  | cons n ns ih =>
    have hn : n ≤ bs.length := by simp only [List.sum_cons] at h; omega
    obtain ⟨as, r, h1, h2, h3⟩ := ih (bs.drop n) (by simp only [List.length_drop, List.sum_cons] at *; omega)
    refine ⟨bs.take n :: as, r, ?_, ?_, ?_⟩
    · simp only [readArrays, if_pos hn, h1]
    · simp [h2, List.length_take, hn]
    · simp only [List.flatten_cons, List.append_assoc, h3, List.take_append_drop]

/-- SPZ: a stream that is exactly as long as its (valid) header announces: every strict prefix is rejected -/
theorem spz_prefix_aux (bs : List UInt8) (h16 : 16 ≤ bs.length)
    (hlen : bs.length = payloadLength (parseHeader (bs.take 16)))
    (k : Nat) (hk : k < bs.length) : ∃ e, readRaw (bs.take k) = .error e := by
  unfold readRaw
  by_cases hk16 : 16 ≤ k
  · have ht : ((bs.take k).take 16) = bs.take 16 := by rw [List.take_take]; congr 1; omega
    rw [if_pos (by simp [List.length_take]; omega), ht]
    simp only
    split
    · have : readArrays (arraySizes (parseHeader (bs.take 16))) ((bs.take k).drop 16) = none :=
        readArrays_short _ _ (by
          simp only [List.length_drop, List.length_take, payloadLength] at *; omega)
      rw [this]; exact ⟨_, rfl⟩
    · exact ⟨_, rfl⟩
  · rw [if_neg (by simp [List.length_take]; omega)]; exact ⟨_, rfl⟩


theorem six_of_length {β : Type} (as : List β) (h : as.length = 6) :
    ∃ p a c s r t, as = [p, a, c, s, r, t] := by
  rcases as with _ | ⟨p, _ | ⟨a, _ | ⟨c, _ | ⟨s, _ | ⟨r, _ | ⟨t, _ | ⟨x, xs⟩⟩⟩⟩⟩⟩⟩ <;> simp at h
  exact ⟨p, a, c, s, r, t, rfl⟩

/-- ... and a stream at least as long as its valid header announces is accepted, every array with the declared length -/
theorem spz_complete_aux (bs : List UInt8) (h16 : 16 ≤ bs.length)
    (hv : (parseHeader (bs.take 16)).valid = true)
    (hlen : payloadLength (parseHeader (bs.take 16)) ≤ bs.length) :
    ∃ a, readRaw bs = .ok a ∧ a.header = parseHeader (bs.take 16) ∧
      a.positions.length = a.header.numPoints * posBytes a.header ∧ a.alphas.length = a.header.numPoints ∧
      a.colors.length = a.header.numPoints * 3 ∧ a.scales.length = a.header.numPoints * 3 ∧
      a.rotations.length = a.header.numPoints * 3 ∧
      a.sh.length = a.header.numPoints * 3 * shDim a.header.shDegree := by
  obtain ⟨as, r, h1, h2, _⟩ := readArrays_ok (arraySizes (parseHeader (bs.take 16))) (bs.drop 16)
    (by simp only [List.length_drop, payloadLength] at *; omega)
  simp only [arraySizes] at h2
  obtain ⟨p, a, c, s, ro, sh, rfl⟩ := six_of_length as (by have := congrArg List.length h2; simpa using this)
  simp only [List.map_cons, List.map_nil, List.cons.injEq, and_true] at h2
  obtain ⟨e1, e2, e3, e4, e5, e6⟩ := h2
  refine ⟨⟨parseHeader (bs.take 16), p, a, c, s, ro, sh⟩, ?_, rfl, e1, e2, e3, e4, e5, e6⟩
  unfold readRaw
  rw [if_pos h16]; simp only [hv, if_true, h1]

/-! ### PLY header -/

/-- `readLine` on a line without '\n' followed by '\n' -/
theorem readLine_line (l rest : List UInt8) (hl : (10 : UInt8) ∉ l) :
    readLine (l ++ 10 :: rest) = some (l.filter (· ≠ 13), rest) := by
  induction l with
  | nil => simp [readLine]
  | cons b bs ih =>
    have hb : b ≠ 10 := fun h => hl (h ▸ List.mem_cons_self)
    have hbs : (10 : UInt8) ∉ bs := fun h => hl (List.mem_cons_of_mem _ h)
    simp only [List.cons_append, readLine, if_neg hb, ih hbs]
    by_cases h13 : b = 13 <;> simp [h13]

/-- `readLine` fails when the input ends before a '\n' -/
theorem readLine_noNL (l : List UInt8) (hl : (10 : UInt8) ∉ l) : readLine l = none := by
  induction l with
  | nil => rfl
  | cons b bs ih =>
    have hb : b ≠ 10 := fun h => hl (h ▸ List.mem_cons_self)
    have hbs : (10 : UInt8) ∉ bs := fun h => hl (List.mem_cons_of_mem _ h)
    simp only [readLine, if_neg hb, ih hbs]

/-- the text of a header: lines (none of them `end_header`), then the `end_header` line -/
def headerText (ls : List (List UInt8)) : List UInt8 :=
  ls.flatMap (fun l => l ++ [10]) ++ (endHeader ++ [10])

def HeaderLines (ls : List (List UInt8)) : Prop :=
  ∀ l ∈ ls, (10 : UInt8) ∉ l ∧ l.filter (· ≠ 13) ≠ endHeader

theorem skipHeader_full (ls : List (List UInt8)) (hls : HeaderLines ls) (body : List UInt8) :
    skipHeader (headerText ls ++ body) = some body := by
  induction ls with
  | nil =>
    rw [skipHeader]
    have : readLine (headerText [] ++ body) = some (endHeader, body) := by
      have := readLine_line endHeader body (by decide)
      simpa [headerText, endHeader] using this
    split
    · next h => rw [this] at h; simp at h
    · next l r h =>
      rw [this] at h; simp only [Option.some.injEq, Prod.mk.injEq] at h
      obtain ⟨rfl, rfl⟩ := h; simp
  | cons l ls ih =>
    obtain ⟨h10, hne⟩ := hls l List.mem_cons_self
    have hls' : HeaderLines ls := fun x hx => hls x (List.mem_cons_of_mem _ hx)
    rw [skipHeader]
    have : readLine (headerText (l :: ls) ++ body) = some (l.filter (· ≠ 13), headerText ls ++ body) := by
      have := readLine_line l (headerText ls ++ body) h10
      simpa [headerText] using this
    split
    · next h => rw [this] at h; simp at h
    · next l' r h =>
      rw [this] at h; simp only [Option.some.injEq, Prod.mk.injEq] at h
      obtain ⟨rfl, rfl⟩ := h
      rw [if_neg hne, ih hls']

theorem skipHeader_none_of_readLine {bs : List UInt8} (h : readLine bs = none) : skipHeader bs = none := by
  rw [skipHeader]; split
  · rfl
  · next l r h' => rw [h] at h'; simp at h'

theorem not_mem_take {l : List UInt8} {b : UInt8} (h : b ∉ l) (k : Nat) : b ∉ l.take k :=
  fun hm => h (List.mem_of_mem_take hm)

/-- a file cut anywhere inside its header has no body: `ReadHeader` fails -/
theorem skipHeader_cut (ls : List (List UInt8)) (hls : HeaderLines ls) (body : List UInt8)
    (k : Nat) (hk : k < (headerText ls).length) :
    skipHeader ((headerText ls ++ body).take k) = none := by
  induction ls generalizing k with
  | nil =>
    apply skipHeader_none_of_readLine
    apply readLine_noNL
    have e : (headerText [] ++ body).take k = endHeader.take k := by
      simp only [headerText, List.flatMap_nil, List.nil_append, List.append_assoc] at hk ⊢
      rw [List.take_append]
      have : k ≤ endHeader.length := by simp [endHeader] at hk ⊢; omega
      simp [this]
    rw [e]; exact not_mem_take (by decide) k
  | cons l ls ih =>
    obtain ⟨h10, hne⟩ := hls l List.mem_cons_self
    have hls' : HeaderLines ls := fun x hx => hls x (List.mem_cons_of_mem _ hx)
    have ht : headerText (l :: ls) ++ body = l ++ 10 :: (headerText ls ++ body) := by simp [headerText]
    rw [ht]
    by_cases hkl : k ≤ l.length
    · apply skipHeader_none_of_readLine
      apply readLine_noNL
      rw [List.take_append]
      have : k - l.length = 0 := by omega
      simp only [this, List.take_zero, List.append_nil]
      exact not_mem_take h10 k
    · have e : (l ++ 10 :: (headerText ls ++ body)).take k =
          l ++ 10 :: (headerText ls ++ body).take (k - l.length - 1) := by
        rw [List.take_append, List.take_of_length_le (by omega)]
        obtain ⟨m, hm⟩ : ∃ m, k - l.length = m + 1 := ⟨k - l.length - 1, by omega⟩
        rw [hm, List.take_succ_cons]; simp
      rw [e, skipHeader]
      have hr := readLine_line l ((headerText ls ++ body).take (k - l.length - 1)) h10
      split
      · rfl
      · next l' r h =>
        rw [hr] at h; simp only [Option.some.injEq, Prod.mk.injEq] at h
        obtain ⟨rfl, rfl⟩ := h
        rw [if_neg hne]
        apply ih hls'
        have : (headerText (l :: ls)).length = l.length + 1 + (headerText ls).length := by
          simp [headerText]; omega
        omega

/-! ### PLY binary faces -/

/-! ### reference encoding of the binary face element -/

def encCount (be : Bool) (cs n : Nat) : List UInt8 :=
  if cs = 1 then [UInt8.ofNat n] else if be then (le32n n).reverse else le32n n

/-- one instance of a list property: (number of entries, payload bytes) -/
abbrev ListInst := Nat × List UInt8

def ListInst.ok (p : ListProp) (x : ListInst) : Prop :=
  (p.countSize = 1 ∧ x.1 < 256 ∨ p.countSize = 4 ∧ x.1 < 2 ^ 32) ∧ x.2.length = x.1 * p.elemSize

def encList (be : Bool) (p : ListProp) (x : ListInst) : List UInt8 := encCount be p.countSize x.1 ++ x.2

theorem encCount_length (be : Bool) (p : ListProp) (x : ListInst) (h : ListInst.ok p x) :
    (encCount be p.countSize x.1).length = p.countSize := by
  rcases h.1 with ⟨h1, _⟩ | ⟨h4, _⟩
  · simp [encCount, h1]
  · simp only [encCount, h4]; cases be <;> simp [le32n_length]

theorem decodeCount_encCount (be : Bool) (p : ListProp) (x : ListInst) (h : ListInst.ok p x) :
    decodeCount be (encCount be p.countSize x.1) = x.1 := by
  rcases h.1 with ⟨h1, hx⟩ | ⟨h4, hx⟩
  · simp only [encCount, h1, if_true, decodeCount]
    split <;> simp [leNat, UInt8.toNat_ofNat'] <;> omega
  · simp only [encCount, h4, decodeCount]
    cases be <;> simp [leNat_le32n _ hx]

theorem binList_full (be : Bool) (p : ListProp) (x : ListInst) (h : ListInst.ok p x) (rest : List UInt8) :
    binList be p (encList be p x ++ rest) = some (x.1, encList be p x, rest) := by
  have hc := encCount_length be p x h
  have hcs : p.countSize = 1 ∨ p.countSize = 4 := by rcases h.1 with ⟨a, _⟩ | ⟨a, _⟩ <;> simp [a]
  have hlen : (encList be p x).length = p.countSize + x.1 * p.elemSize := by simp [encList, hc, h.2]
  have ht : (encList be p x ++ rest).take p.countSize = encCount be p.countSize x.1 := by
    simp only [encList, List.append_assoc]
    rw [List.take_append_of_le_length (by omega), List.take_of_length_le (by omega)]
  simp only [binList, if_pos hcs]
  rw [if_pos (by simp [hlen]; omega), ht, decodeCount_encCount be p x h]
  rw [if_pos (by simp [hlen]; omega)]
  rw [← hlen]
  simp

theorem binList_cut (be : Bool) (p : ListProp) (x : ListInst) (h : ListInst.ok p x) (j : Nat)
    (hj : j < (encList be p x).length) : binList be p ((encList be p x).take j) = none := by
  have hc := encCount_length be p x h
  have hlen : (encList be p x).length = p.countSize + x.1 * p.elemSize := by simp [encList, hc, h.2]
  simp only [binList]
  split
  · by_cases hjc : p.countSize ≤ j
    · rw [if_pos (by simp [List.length_take]; omega)]
      have ht : ((encList be p x).take j).take p.countSize = encCount be p.countSize x.1 := by
        rw [List.take_take, Nat.min_eq_left hjc]
        simp only [encList]
        rw [List.take_append_of_le_length (by omega), List.take_of_length_le (by omega)]
      rw [ht, decodeCount_encCount be p x h]
      rw [if_neg (by simp [List.length_take]; omega)]
    · rw [if_neg (by simp [List.length_take]; omega)]
  · rfl

def encLists (be : Bool) : List ListProp → List ListInst → List UInt8
  | p :: ps, x :: xs => encList be p x ++ encLists be ps xs
  | _, _ => []

def ListsOk : List ListProp → List ListInst → Prop
  | [], [] => True
  | p :: ps, x :: xs => ListInst.ok p x ∧ ListsOk ps xs
  | _, _ => False

theorem binFaceLists_full (be : Bool) (ps : List ListProp) (xs : List ListInst) (h : ListsOk ps xs)
    (rest : List UInt8) :
    binFaceLists be ps (encLists be ps xs ++ rest) = some (xs.map (·.1), encLists be ps xs, rest) := by
  induction ps generalizing xs with
  | nil => cases xs <;> simp_all [ListsOk, binFaceLists, encLists]
  | cons p ps ih =>
    cases xs with
    | nil => simp [ListsOk] at h
    | cons x xs =>
      obtain ⟨hx, hxs⟩ := h
      simp only [encLists, List.append_assoc, binFaceLists, binList_full be p x hx, ih xs hxs, List.map_cons]

theorem binFaceLists_cut (be : Bool) (ps : List ListProp) (xs : List ListInst) (h : ListsOk ps xs)
    (j : Nat) (hj : j < (encLists be ps xs).length) :
    binFaceLists be ps ((encLists be ps xs).take j) = none := by
  induction ps generalizing xs j with
  | nil => cases xs <;> simp [encLists] at hj
  | cons p ps ih =>
    cases xs with
    | nil => simp [ListsOk] at h
    | cons x xs =>
      obtain ⟨hx, hxs⟩ := h
      simp only [encLists] at hj ⊢
      by_cases hjl : j < (encList be p x).length
      · rw [List.take_append_of_le_length (by omega)]
        simp only [binFaceLists, binList_cut be p x hx j hjl]
      · rw [List.take_append, List.take_of_length_le (by omega)]
        simp only [binFaceLists, binList_full be p x hx]
        rw [ih xs hxs _ (by simp only [List.length_append] at hj; omega)]

/-- a face instance fits the face header: list instances fit, and the index list has 3 or 4 entries -/
def FaceOk (f : FaceHdr) (xs : List ListInst) : Prop :=
  ListsOk f.lists xs ∧ ∃ pts, (xs.map (·.1))[f.idx]? = some pts ∧ (pts = 3 ∨ pts = 4)

def facePoints (f : FaceHdr) (xs : List ListInst) : Nat := ((xs.map (·.1))[f.idx]?).getD 0

theorem binFace_full (be : Bool) (f : FaceHdr) (xs : List ListInst) (h : FaceOk f xs) (rest : List UInt8) :
    binFace be f (encLists be f.lists xs ++ rest) = .ok (⟨facePoints f xs, encLists be f.lists xs⟩, rest) := by
  obtain ⟨hl, pts, hp, h34⟩ := h
  simp only [binFace, binFaceLists_full be f.lists xs hl, hp, facePoints, Option.getD_some]
  rw [if_neg (by omega)]

theorem binFace_cut (be : Bool) (f : FaceHdr) (xs : List ListInst) (h : FaceOk f xs) (j : Nat)
    (hj : j < (encLists be f.lists xs).length) :
    binFace be f ((encLists be f.lists xs).take j) = .error .short := by
  simp only [binFace, binFaceLists_cut be f.lists xs h.1 j hj]

def encFaces (be : Bool) (f : FaceHdr) (fs : List (List ListInst)) : List UInt8 :=
  fs.flatMap (encLists be f.lists)

theorem binFaces_full (be : Bool) (f : FaceHdr) (fs : List (List ListInst)) (h : ∀ x ∈ fs, FaceOk f x)
    (rest : List UInt8) :
    binFaces be f fs.length (encFaces be f fs ++ rest) =
      .ok (fs.map fun xs => ⟨facePoints f xs, encLists be f.lists xs⟩) := by
  induction fs with
  | nil => simp [binFaces]
  | cons x fs ih =>
    have hx := h x List.mem_cons_self
    have hfs : ∀ y ∈ fs, FaceOk f y := fun y hy => h y (List.mem_cons_of_mem _ hy)
    simp only [encFaces, List.flatMap_cons, List.append_assoc, List.length_cons, binFaces,
      binFace_full be f x hx]
    have := ih hfs
    simp only [encFaces] at this
    rw [this]; rfl

theorem binFaces_cut (be : Bool) (f : FaceHdr) (fs : List (List ListInst)) (h : ∀ x ∈ fs, FaceOk f x)
    (j : Nat) (hj : j < (encFaces be f fs).length) :
    ∃ e, binFaces be f fs.length ((encFaces be f fs).take j) = .error e := by
  induction fs generalizing j with
  | nil => simp [encFaces] at hj
  | cons x fs ih =>
    have hx := h x List.mem_cons_self
    have hfs : ∀ y ∈ fs, FaceOk f y := fun y hy => h y (List.mem_cons_of_mem _ hy)
    simp only [encFaces, List.flatMap_cons, List.length_cons] at hj ⊢
    by_cases hjl : j < (encLists be f.lists x).length
    · rw [List.take_append_of_le_length (by omega)]
      simp only [binFaces, binFace_cut be f x hx j hjl]
      exact ⟨_, rfl⟩
    · rw [List.take_append, List.take_of_length_le (by omega)]
      simp only [binFaces, binFace_full be f x hx]
      obtain ⟨e, he⟩ := ih hfs (j - (encLists be f.lists x).length)
        (by simp only [encFaces, List.length_append] at hj ⊢; omega)
      simp only [encFaces] at he
      rw [he]; exact ⟨_, rfl⟩

end Readers
end PolyVerif
