/-
  Lemmas for the primitive index generators (C02): every emitted index is below the number of
  allocated vertices, and indices come in whole triangles — for ALL parameter values.
-/
import PolyVerif.Model.Primitives

namespace PolyVerif.Prim

theorem length_flatMap_mod3 {β : Type} (l : List β) (f : β → List Nat)
    (h : ∀ x ∈ l, (f x).length % 3 = 0) : (l.flatMap f).length % 3 = 0 := by
  induction l with
  | nil => simp
  | cons a t ih =>
    have h1 := h a (by simp)
    have h2 := ih (fun x hx => h x (by simp [hx]))
    simp only [List.flatMap_cons, List.length_append]
    omega

/-! ### UV sphere / hemisphere -/

theorem uvSphereTris_lt {rows cols : Nat} (hr : 2 ≤ rows) (hc : 3 ≤ cols) :
    ∀ i ∈ uvSphereTris rows cols, i < uvVerts rows cols := by
  intro i hi
  have hrows : (rows - 1) * cols = (rows - 2) * cols + cols := by
    have : rows - 1 = (rows - 2) + 1 := by omega
    rw [this, Nat.succ_mul]
  have hcomm : cols * (rows - 2) = (rows - 2) * cols := Nat.mul_comm _ _
  simp only [uvSphereTris, uvSphereCaps, uvSphereQuads, uvBottom, uvVerts, List.mem_append,
    List.mem_flatMap, List.mem_range, List.mem_cons, List.not_mem_nil, or_false] at hi ⊢
  rcases hi with ⟨c, hc', hi⟩ | ⟨j, hj, c, hc', hi⟩
  · have hm := Nat.mod_lt (c + 1) (by omega : cols > 0)
    rcases hi with rfl | rfl | rfl | rfl | rfl | rfl <;> omega
  · have hm := Nat.mod_lt (c + 1) (by omega : cols > 0)
    have h1 : (j + 1) * cols = j * cols + cols := Nat.succ_mul _ _
    have h2 : (j + 1) * cols ≤ (rows - 2) * cols := Nat.mul_le_mul_right _ (by omega)
    rcases hi with rfl | rfl | rfl | rfl | rfl | rfl <;> omega

theorem uvSphereTris_len (rows cols : Nat) : (uvSphereTris rows cols).length % 3 = 0 := by
  have h1 : (uvSphereCaps rows cols).length % 3 = 0 :=
    length_flatMap_mod3 _ _ (fun _ _ => by simp)
  have h2 : (uvSphereQuads rows cols).length % 3 = 0 :=
    length_flatMap_mod3 _ _ (fun _ _ => length_flatMap_mod3 _ _ (fun _ _ => by simp))
  simp only [uvSphereTris, List.length_append]; omega

theorem hemisphereTris_lt {rows cols : Nat} (hr : 2 ≤ rows) (hc : 3 ≤ cols) :
    ∀ i ∈ hemisphereTris rows cols, i < uvVerts rows cols := by
  intro i hi
  have hrows : (rows - 1) * cols = (rows - 2) * cols + cols := by
    have : rows - 1 = (rows - 2) + 1 := by omega
    rw [this, Nat.succ_mul]
  have hcomm : cols * (rows - 2) = (rows - 2) * cols := Nat.mul_comm _ _
  simp only [hemisphereTris, hemisphereCaps, hemisphereQuads, uvBottom, uvVerts, List.mem_append,
    List.mem_flatMap, List.mem_range, List.mem_cons, List.not_mem_nil, or_false] at hi ⊢
  rcases hi with ⟨c, hc', hi⟩ | ⟨j, hj, c, hc', hi⟩
  · have hm := Nat.mod_lt (c + 1) (by omega : cols > 0)
    rcases hi with rfl | rfl | rfl | rfl | rfl | rfl <;> omega
  · have hm := Nat.mod_lt (c + 1) (by omega : cols > 0)
    have h1 : (j + 1) * cols = j * cols + cols := Nat.succ_mul _ _
    have h2 : (j + 1) * cols ≤ (rows - 2) * cols := Nat.mul_le_mul_right _ (by omega)
    rcases hi with rfl | rfl | rfl | rfl | rfl | rfl <;> omega

theorem hemisphereTris_len (rows cols : Nat) : (hemisphereTris rows cols).length % 3 = 0 := by
  have h1 : (hemisphereCaps rows cols).length % 3 = 0 :=
    length_flatMap_mod3 _ _ (fun _ _ => by simp)
  have h2 : (hemisphereQuads rows cols).length % 3 = 0 :=
    length_flatMap_mod3 _ _ (fun _ _ => length_flatMap_mod3 _ _ (fun _ _ => by simp))
  simp only [hemisphereTris, List.length_append]; omega

theorem uvUnweldedTris_lt (rows cols : Nat) :
    ∀ i ∈ uvUnweldedTris rows cols, i < uvUnweldedVerts rows cols := by
  intro i hi
  simp only [uvUnweldedTris, uvUnweldedCaps, uvUnweldedQuads, uvUnweldedVerts, List.mem_append,
    List.mem_flatMap, List.mem_range, List.mem_cons, List.not_mem_nil, or_false] at hi ⊢
  rcases hi with ⟨c, hc', hi⟩ | ⟨j, hj, c, hc', hi⟩
  · rcases hi with rfl | rfl | rfl | rfl | rfl | rfl <;> omega
  · have h1 : (j + 1) * cols = j * cols + cols := Nat.succ_mul _ _
    have h2 : (j + 1) * cols ≤ (rows - 2) * cols := Nat.mul_le_mul_right _ (by omega)
    rcases hi with rfl | rfl | rfl | rfl | rfl | rfl <;> omega

theorem uvUnweldedTris_len (rows cols : Nat) : (uvUnweldedTris rows cols).length % 3 = 0 := by
  have h1 : (uvUnweldedCaps cols).length % 3 = 0 :=
    length_flatMap_mod3 _ _ (fun _ _ => by simp)
  have h2 : (uvUnweldedQuads rows cols).length % 3 = 0 :=
    length_flatMap_mod3 _ _ (fun _ _ => length_flatMap_mod3 _ _ (fun _ _ => by simp))
  simp only [uvUnweldedTris, List.length_append]; omega

/-! ### circle, cone, cylinder -/

theorem circleTris_lt {sides : Nat} (hs : 1 ≤ sides) : ∀ i ∈ circleTris sides, i < circleVerts sides := by
  intro i hi
  simp only [circleTris, circleVerts, List.mem_append, List.mem_flatMap, List.mem_range,
    List.mem_cons, List.not_mem_nil, or_false] at hi ⊢
  rcases hi with ⟨s, hs', hi⟩ | hi
  · rcases hi with rfl | rfl | rfl <;> omega
  · rcases hi with rfl | rfl | rfl <;> omega

theorem circleTris_len (sides : Nat) : (circleTris sides).length % 3 = 0 := by
  have h1 := length_flatMap_mod3 (List.range (sides - 1)) (fun s => [s, sides, s + 1]) (fun _ _ => by simp)
  simp only [circleTris, List.length_append, List.length_cons, List.length_nil]; omega

theorem coneTris_lt {sides : Nat} (hs : 3 ≤ sides) : ∀ i ∈ coneTris sides, i < coneVerts sides := by
  intro i hi
  simp only [coneTris, coneVerts, List.mem_append, List.mem_flatMap, List.mem_range,
    List.mem_cons, List.not_mem_nil, or_false] at hi ⊢
  rcases hi with ⟨s, hs', hi⟩ | hi
  · rcases hi with rfl | rfl | rfl <;> omega
  · rcases hi with rfl | rfl | rfl <;> omega

theorem coneTris_len (sides : Nat) : (coneTris sides).length % 3 = 0 := by
  have h1 := length_flatMap_mod3 (List.range (sides - 1)) (fun i => [i, sides, i + 1]) (fun _ _ => by simp)
  simp only [coneTris, List.length_append, List.length_cons, List.length_nil]; omega

theorem cylinderSideTris_lt (sides : Nat) : ∀ i ∈ cylinderSideTris sides, i < cylinderSideVerts sides := by
  intro i hi
  simp only [cylinderSideTris, cylinderSideVerts, List.mem_flatMap, List.mem_range,
    List.mem_cons, List.not_mem_nil, or_false] at hi ⊢
  rcases hi with ⟨s, hs', hi⟩
  rcases hi with rfl | rfl | rfl | rfl | rfl | rfl <;> omega

theorem cylinderTris_lt {sides : Nat} (hs : 1 ≤ sides) (top bottom : Bool) :
    ∀ i ∈ cylinderTris sides top bottom, i < cylinderVerts sides top bottom := by
  intro i hi
  simp only [cylinderTris, cylinderVerts, List.mem_append] at hi ⊢
  rcases hi with (hi | hi) | hi
  · have := cylinderSideTris_lt sides i hi
    omega
  · cases top <;> simp only [List.not_mem_nil, if_true, if_false, List.mem_map, Bool.false_eq_true] at hi
    obtain ⟨a, ha, rfl⟩ := hi
    have := circleTris_lt hs a ha
    simp only [if_true]; omega
  · cases bottom <;> simp only [List.not_mem_nil, if_true, if_false, List.mem_map, Bool.false_eq_true] at hi
    obtain ⟨a, ha, rfl⟩ := hi
    have := circleTris_lt hs a ha
    cases top <;> simp only [if_true, if_false, Bool.false_eq_true] <;> omega

theorem cylinderTris_nocaps_lt (sides : Nat) :
    ∀ i ∈ cylinderTris sides false false, i < cylinderVerts sides false false := by
  intro i hi
  have : i ∈ cylinderSideTris sides := by simpa [cylinderTris] using hi
  have := cylinderSideTris_lt sides i this
  simp [cylinderVerts]; omega

theorem cylinderTris_len (sides : Nat) (top bottom : Bool) : (cylinderTris sides top bottom).length % 3 = 0 := by
  have h1 : (cylinderSideTris sides).length % 3 = 0 := length_flatMap_mod3 _ _ (fun _ _ => by simp)
  have h2 := circleTris_len sides
  simp only [cylinderTris, List.length_append]
  cases top <;> cases bottom <;> simp <;> omega

/-! ### extrusion of a shape along a path -/

theorem extrudeRing_lt {bottom top sides n : Nat} (hb : bottom + sides ≤ n) (ht : top + sides ≤ n) :
    ∀ i ∈ extrudeRing bottom top sides, i < n := by
  intro i hi
  simp only [extrudeRing, List.mem_flatMap, List.mem_range, List.mem_cons, List.not_mem_nil, or_false] at hi
  obtain ⟨s, hs, hi⟩ := hi
  by_cases h0 : s = 0
  · subst h0
    simp only [if_true] at hi
    rcases hi with rfl | rfl | rfl | rfl | rfl | rfl <;> omega
  · simp only [h0, if_false] at hi
    rcases hi with rfl | rfl | rfl | rfl | rfl | rfl <;> omega

theorem extrudeRing_len (bottom top sides : Nat) : (extrudeRing bottom top sides).length % 3 = 0 :=
  length_flatMap_mod3 _ _ (fun _ _ => by simp)

theorem extrudeShapeTris_lt {pathLen sides : Nat} (close : Bool) :
    ∀ i ∈ extrudeShapeTris pathLen sides close, i < extrudeShapeVerts pathLen sides := by
  intro i hi
  simp only [extrudeShapeTris, List.mem_flatMap, List.mem_range] at hi
  obtain ⟨p, hp, hi⟩ := hi
  have h1 : (p + 1) * sides = p * sides + sides := Nat.succ_mul _ _
  have h2 : (p + 1) * sides ≤ pathLen * sides := Nat.mul_le_mul_right _ (by omega)
  unfold extrudeShapeVerts
  split at hi
  · cases close
    · simp at hi
    · simp only [if_true] at hi
      exact extrudeRing_lt (by omega) (by omega) i hi
  · rename_i hne
    have h3 : (p + 1 + 1) * sides = (p + 1) * sides + sides := Nat.succ_mul _ _
    have h4 : (p + 1 + 1) * sides ≤ pathLen * sides := Nat.mul_le_mul_right _ (by omega)
    exact extrudeRing_lt (by omega) (by omega) i hi

theorem extrudeShapeTris_len (pathLen sides : Nat) (close : Bool) :
    (extrudeShapeTris pathLen sides close).length % 3 = 0 := by
  apply length_flatMap_mod3
  intro p _
  split
  · cases close <;> simp [extrudeRing_len]
  · exact extrudeRing_len _ _ _

/-! ### extrude.Line -/

theorem extrudeLineTris_lt (n : Nat) : ∀ i ∈ extrudeLineTris n, i < extrudeLineVerts n := by
  intro i hi
  simp only [extrudeLineTris, extrudeLineVerts, List.mem_flatMap, List.mem_range, List.mem_cons,
    List.not_mem_nil, or_false] at hi ⊢
  obtain ⟨j, hj, hi⟩ := hi
  rcases hi with rfl | rfl | rfl | rfl | rfl | rfl | rfl | rfl | rfl | rfl | rfl | rfl <;> omega

theorem extrudeLineTris_len (n : Nat) : (extrudeLineTris n).length % 3 = 0 :=
  length_flatMap_mod3 _ _ (fun _ _ => by simp)

/-! ### screw -/

theorem screwTris_lt (lineLen segments : Nat) : ∀ i ∈ screwTris lineLen segments, i < screwVerts lineLen segments := by
  intro i hi
  simp only [screwTris, screwVerts, List.mem_flatMap, List.mem_range, List.mem_cons, List.not_mem_nil, or_false] at hi ⊢
  obtain ⟨s, hs, j, hj, hi⟩ := hi
  have h1 : (s + 1) * lineLen = s * lineLen + lineLen := Nat.succ_mul _ _
  have h2 : (s + 1 + 1) * lineLen = (s + 1) * lineLen + lineLen := Nat.succ_mul _ _
  have h3 : (s + 1 + 1) * lineLen ≤ segments * lineLen := Nat.mul_le_mul_right _ (by omega)
  have h4 : lineLen * segments = segments * lineLen := Nat.mul_comm _ _
  rcases hi with rfl | rfl | rfl | rfl | rfl | rfl <;> omega

theorem screwTris_len (lineLen segments : Nat) : (screwTris lineLen segments).length % 3 = 0 :=
  length_flatMap_mod3 _ _ (fun _ _ => length_flatMap_mod3 _ _ (fun _ _ => by simp))

/-! ### extrude.polygon -/

theorem polygonQuads_bound {pathLen sides : Nat} {closed : Bool} {q : Nat × Nat × Nat}
    (hq : q ∈ polygonQuads pathLen sides closed) :
    q.2.2 < sides ∧ q.1 + sides + 1 ≤ polygonVerts pathLen sides ∧ q.2.1 + sides + 1 ≤ polygonVerts pathLen sides := by
  simp only [polygonQuads, List.mem_flatMap, List.mem_range] at hq
  obtain ⟨p, hp, hq⟩ := hq
  have h1 : (p + 1) * (sides + 1) = p * (sides + 1) + (sides + 1) := Nat.succ_mul _ _
  have h2 : (p + 1) * (sides + 1) ≤ pathLen * (sides + 1) := Nat.mul_le_mul_right _ (by omega)
  unfold polygonVerts
  split at hq
  · cases closed
    · simp at hq
    · simp only [if_true, List.mem_map, List.mem_range] at hq
      obtain ⟨s, hs, rfl⟩ := hq
      refine ⟨hs, ?_, ?_⟩ <;> dsimp only <;> omega
  · simp only [List.mem_map, List.mem_range] at hq
    obtain ⟨s, hs, rfl⟩ := hq
    have h3 : (p + 1 + 1) * (sides + 1) = (p + 1) * (sides + 1) + (sides + 1) := Nat.succ_mul _ _
    have h4 : (p + 1 + 1) * (sides + 1) ≤ pathLen * (sides + 1) := Nat.mul_le_mul_right _ (by omega)
    refine ⟨hs, ?_, ?_⟩ <;> dsimp only <;> omega

theorem polygonTris_lt (pathLen sides : Nat) (closed : Bool) (flips : List Bool) :
    ∀ i ∈ polygonTris pathLen sides closed flips, i < polygonVerts pathLen sides := by
  intro i hi
  simp only [polygonTris, List.mem_flatMap] at hi
  obtain ⟨⟨⟨b, t, s⟩, f⟩, hqf, hi⟩ := hi
  have hq := polygonQuads_bound (List.of_mem_zip hqf).1
  obtain ⟨hs, hb, ht⟩ := hq
  dsimp only at hs hb ht hi
  unfold polygonQuad at hi
  cases f <;>
  · simp only [if_true, if_false, Bool.false_eq_true, List.mem_cons, List.not_mem_nil, or_false] at hi
    rcases hi with rfl | rfl | rfl | rfl | rfl | rfl <;> omega

theorem polygonTris_len (pathLen sides : Nat) (closed : Bool) (flips : List Bool) :
    (polygonTris pathLen sides closed flips).length % 3 = 0 := by
  apply length_flatMap_mod3
  intro qf _
  obtain ⟨⟨b, t, s⟩, f⟩ := qf
  unfold polygonQuad
  cases f <;> simp

/-! ### fixed tables -/

theorem quadTris_ok : (∀ i ∈ quadTris, i < quadVerts) ∧ quadTris.length % 3 = 0 := by decide
theorem cubeTris_ok : (∀ i ∈ cubeTris, i < cubeVerts) ∧ cubeTris.length % 3 = 0 := by decide
theorem cubeUnweldedTris_ok : (∀ i ∈ cubeUnweldedTris, i < cubeUnweldedVerts) ∧ cubeUnweldedTris.length % 3 = 0 := by decide

end PolyVerif.Prim
