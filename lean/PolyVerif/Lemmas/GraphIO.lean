/-
  Helper lemmas for C12 (core Lean only): well-formedness is preserved by every editing operation.
-/
import PolyVerif.Model.GraphIO

namespace PolyVerif
namespace GraphIO

variable {V J : Type}

/-! ### references survive changes that keep ids and types -/

theorem RefOK.mono {E : Env V J} {g g' : Graph V} {t : VTy} {r : Ref}
    (h : ∀ s ∈ g.nodes, ∃ s' ∈ g'.nodes, s'.id = s.id ∧ s'.ty = s.ty) :
    RefOK E g t r → RefOK E g' t r := by
  rintro ⟨hp, s, hs, hid, Ts, hT, ho⟩
  obtain ⟨s', hs', hid', hty'⟩ := h s hs
  exact ⟨hp, s', hs', hid'.trans hid, Ts, hty' ▸ hT, ho⟩

theorem NodeWF.mono {E : Env V J} {g g' : Graph V} {n : Node V}
    (h : ∀ s ∈ g.nodes, ∃ s' ∈ g'.nodes, s'.id = s.id ∧ s'.ty = s.ty) :
    NodeWF E g n → NodeWF E g' n := by
  rintro ⟨hid, T, hT, hs, ha, hp⟩
  refine ⟨hid, T, hT, ?_, ?_, hp⟩
  · intro p r hr
    obtain ⟨t, ht, hok⟩ := hs p r hr
    exact ⟨t, ht, hok.mono h⟩
  · intro p r hr
    obtain ⟨t, ht, hok⟩ := ha p r hr
    exact ⟨t, ht, hok.mono h⟩

theorem find_some {g : Graph V} {id : Id} {n : Node V} (h : g.find id = some n) : n ∈ g.nodes ∧ n.id = id := by
  unfold Graph.find at h
  exact ⟨List.mem_of_find?_eq_some h, by simpa using List.find?_some h⟩

/-! ### setNode -/

theorem setNode_ids (g : Graph V) (n : Node V) : (g.setNode n).nodes.map (·.id) = g.nodes.map (·.id) := by
  simp only [Graph.setNode, List.map_map]
  apply List.map_congr_left
  intro m _
  simp only [Function.comp]
  split <;> simp_all

theorem mem_setNode {g : Graph V} {n m : Node V} (h : m ∈ (g.setNode n).nodes) : m = n ∨ m ∈ g.nodes := by
  simp only [Graph.setNode, List.mem_map] at h
  obtain ⟨m0, hm0, rfl⟩ := h
  split
  · exact Or.inl rfl
  · exact Or.inr hm0

theorem ids_inj {l : List (Node V)} (h : (l.map (·.id)).Nodup) {a b : Node V} (ha : a ∈ l) (hb : b ∈ l)
    (hab : a.id = b.id) : a = b := by
  induction l with
  | nil => cases ha
  | cons x xs ih =>
    simp only [List.map_cons, List.nodup_cons, List.mem_map, not_exists, not_and] at h
    rcases List.mem_cons.mp ha with rfl | ha' <;> rcases List.mem_cons.mp hb with rfl | hb'
    · rfl
    · exact absurd hab.symm (h.1 b hb')
    · exact absurd hab (h.1 a ha')
    · exact ih h.2 ha' hb'

theorem setNode_keeps {g : Graph V} {d n : Node V} (hnd : (g.nodes.map (·.id)).Nodup)
    (hd : d ∈ g.nodes) (hid : n.id = d.id) (hty : n.ty = d.ty) :
    ∀ s ∈ g.nodes, ∃ s' ∈ (g.setNode n).nodes, s'.id = s.id ∧ s'.ty = s.ty := by
  intro s hs
  by_cases h : s.id = n.id
  · have : s = d := ids_inj hnd hs hd (h.trans hid)
    subst this
    refine ⟨n, ?_, h.symm, hty⟩
    simp only [Graph.setNode, List.mem_map]
    exact ⟨s, hs, by simp [h]⟩
  · refine ⟨s, ?_, rfl, rfl⟩
    simp only [Graph.setNode, List.mem_map]
    exact ⟨s, hs, by simp [h]⟩

theorem WF.setNode {E : Env V J} {g : Graph V} {d n : Node V} (hw : WF E g) (hd : d ∈ g.nodes)
    (hid : n.id = d.id) (hty : n.ty = d.ty) (hn : NodeWF E g n) : WF E (g.setNode n) := by
  have keep := setNode_keeps hw.nodup hd hid hty
  refine ⟨?_, ?_, hw.prodsNodup, ?_⟩
  · rw [setNode_ids]; exact hw.nodup
  · intro m hm
    rcases mem_setNode hm with rfl | hm'
    · exact hn.mono keep
    · exact (hw.nodes m hm').mono keep
  · intro kv hkv
    exact (hw.prods kv hkv).mono keep

/-! ### SetInput keeps a node well-formed -/

theorem upd_self {α} (f : Name → α) (p : Name) (v : α) : upd f p v p = v := by simp [upd]
theorem upd_other {α} (f : Name → α) {p q : Name} (v : α) (h : q ≠ p) : upd f p v q = f q := by simp [upd, h]

theorem setInputConnect_wf {E : Env V J} {g : Graph V} {T : NodeType} {n n' : Node V} {input : Name} {r : Ref} {t : VTy}
    (hT : E.types n.ty = some T) (hn : NodeWF E g n) (hr : RefOK E g t r)
    (h : setInputConnect T n input r t = .ok n') : n'.id = n.id ∧ n'.ty = n.ty ∧ NodeWF E g n' := by
  obtain ⟨hid, T', hT', hs, ha, hp⟩ := hn
  obtain rfl : T' = T := by rw [hT] at hT'; exact (Option.some.inj hT').symm
  unfold setInputConnect at h
  split at h
  · cases h
  · rename_i hpar
    split at h
    · rename_i p rest _
      split at h
      · rename_i t' hpt
        split at h
        · rename_i htt
          cases h
          refine ⟨rfl, rfl, hid, T', hT, hs, ?_, hp⟩
          intro q r' hr'
          by_cases hq : q = p
          · subst hq
            simp only [upd_self] at hr'
            rcases List.mem_append.mp hr' with h1 | h1
            · exact ha q r' h1
            · simp only [List.mem_singleton] at h1
              subst h1
              exact ⟨t', hpt, htt ▸ hr⟩
          · simp only [upd_other _ _ hq] at hr'
            exact ha q r' hr'
        · cases h
      · cases h
    · split at h
      · rename_i t' hpt
        split at h
        · rename_i htt
          cases h
          refine ⟨rfl, rfl, hid, T', hT, ?_, ha, hp⟩
          intro q r' hr'
          by_cases hq : q = input
          · subst hq
            simp only [upd_self] at hr'
            cases hr'
            exact ⟨t', hpt, htt ▸ hr⟩
          · simp only [upd_other _ _ hq] at hr'
            exact hs q r' hr'
        · cases h
      · cases h

theorem setInputDisconnect_wf {E : Env V J} {g : Graph V} {T : NodeType} {n n' : Node V} {input : Name}
    (hT : E.types n.ty = some T) (hn : NodeWF E g n)
    (h : setInputDisconnect T n input = .ok n') : n'.id = n.id ∧ n'.ty = n.ty ∧ NodeWF E g n' := by
  obtain ⟨hid, T', hT', hs, ha, hp⟩ := hn
  obtain rfl : T' = T := by rw [hT] at hT'; exact (Option.some.inj hT').symm
  unfold setInputDisconnect at h
  split at h
  · cases h
  · split at h
    · rename_i p rest _
      split at h
      · cases h
      · rename_i k _
        split at h
        · cases h
        · split at h
          · cases h
            refine ⟨rfl, rfl, hid, T', hT, hs, ?_, hp⟩
            intro q r' hr'
            by_cases hq : q = p
            · subst hq
              simp only [upd_self] at hr'
              exact ha q r' (List.mem_of_mem_eraseIdx hr')
            · simp only [upd_other _ _ hq] at hr'
              exact ha q r' hr'
          · cases h
    · split at h
      · cases h
        refine ⟨rfl, rfl, hid, T', hT, ?_, ha, hp⟩
        intro q r' hr'
        by_cases hq : q = input
        · subst hq; simp only [upd_self] at hr'; cases hr'
        · simp only [upd_other _ _ hq] at hr'; exact hs q r' hr'
      · cases h
        refine ⟨rfl, rfl, hid, T', hT, hs, ?_, hp⟩
        intro q r' hr'
        by_cases hq : q = input
        · subst hq; simp only [upd_self] at hr'; cases hr'
        · simp only [upd_other _ _ hq] at hr'; exact ha q r' hr'
      · cases h

/-! ### ids -/

theorem nodeIdOf_ne_empty (k : Nat) : nodeIdOf k ≠ "" := by
  intro h
  have := congrArg String.length h
  simp [nodeIdOf, String.length_append] at this

theorem firstFree_fresh {ids : List Id} {fuel k : Nat} {id : Id} (h : firstFree ids fuel k = some id) :
    id ∉ ids ∧ id ≠ "" := by
  induction fuel generalizing k with
  | zero => cases h
  | succ f ih =>
    unfold firstFree at h
    split at h
    · exact ih h
    · cases h
      exact ⟨by assumption, nodeIdOf_ne_empty k⟩

/-! ### association lists -/

theorem mem_aset {β} {l : List (String × β)} {k : String} {v : β} {kv : String × β} (h : kv ∈ aset l k v) :
    kv = (k, v) ∨ kv ∈ l := by
  induction l with
  | nil => simp [aset] at h; exact Or.inl h
  | cons x xs ih =>
    obtain ⟨k', v'⟩ := x
    unfold aset at h
    split at h
    · rcases List.mem_cons.mp h with h | h
      · exact Or.inl h
      · exact Or.inr (List.mem_cons_of_mem _ h)
    · rcases List.mem_cons.mp h with h | h
      · exact Or.inr (h ▸ List.mem_cons_self)
      · rcases ih h with h | h
        · exact Or.inl h
        · exact Or.inr (List.mem_cons_of_mem _ h)

theorem aset_keys_mem {β} {l : List (String × β)} {k : String} {v : β} {x : String}
    (h : x ∈ (aset l k v).map (·.1)) : x = k ∨ x ∈ l.map (·.1) := by
  obtain ⟨kv, hkv, rfl⟩ := List.mem_map.mp h
  rcases mem_aset hkv with rfl | h'
  · exact Or.inl rfl
  · exact Or.inr (List.mem_map.mpr ⟨kv, h', rfl⟩)

theorem aset_nodup {β} {l : List (String × β)} (k : String) (v : β) (h : (l.map (·.1)).Nodup) :
    ((aset l k v).map (·.1)).Nodup := by
  induction l with
  | nil => simp [aset]
  | cons x xs ih =>
    obtain ⟨k', v'⟩ := x
    simp only [List.map_cons, List.nodup_cons] at h
    unfold aset
    split
    · rename_i hk
      subst hk
      simpa using h
    · rename_i hk
      simp only [List.map_cons, List.nodup_cons]
      refine ⟨?_, ih h.2⟩
      intro hmem
      rcases aset_keys_mem hmem with h1 | h1
      · exact hk h1
      · exact h.1 h1

theorem portTy_mem {l : List (Name × VTy)} {p : Name} {t : VTy} (h : portTy l p = some t) : (p, t) ∈ l := by
  induction l with
  | nil => cases h
  | cons x xs ih =>
    obtain ⟨q, t'⟩ := x
    unfold portTy at h
    split at h
    · rename_i hq; cases h; subst hq; exact List.mem_cons_self
    · exact List.mem_cons_of_mem _ (ih h)

/-! ### each editing operation keeps the graph well-formed -/

theorem NodeWF.setPar {E : Env V J} {g : Graph V} {n : Node V} {p p' : Param V} (hn : NodeWF E g n)
    (hp : n.par = some p) (h : ∀ k, ParamOK E n.ty k p → ParamOK E n.ty k p') :
    NodeWF E g { n with par := some p' } := by
  obtain ⟨hid, T, hT, hs, ha, hpar⟩ := hn
  refine ⟨hid, T, hT, hs, ha, ?_⟩
  rw [hp] at hpar
  split at hpar
  · rename_i k q hk hq
    cases hq
    simp only [hk]
    exact h k hpar
  · rename_i h1 h2; cases h2
  · exact hpar.elim

theorem WF.sameNodes {E : Env V J} {g g' : Graph V} (hw : WF E g) (hn : g'.nodes = g.nodes)
    (hpn : (g'.prods.map (·.1)).Nodup) (hp : ∀ kv ∈ g'.prods, RefOK E g artTy kv.2) : WF E g' := by
  have keep : ∀ s ∈ g.nodes, ∃ s' ∈ g'.nodes, s'.id = s.id ∧ s'.ty = s.ty := fun s hs => ⟨s, hn ▸ hs, rfl, rfl⟩
  refine ⟨hn ▸ hw.nodup, ?_, hpn, fun kv hkv => (hp kv hkv).mono keep⟩
  intro m hm
  exact (hw.nodes m (hn ▸ hm)).mono keep

theorem step_wf {E : Env V J} (hE : EnvOK E) {g g' : Graph V} {op : Op J} (hw : WF E g)
    (h : step E g op = .ok g') : WF E g' := by
  cases op with
  | create ty =>
    simp only [step] at h
    split at h
    · cases h
    · rename_i T hT
      split at h
      · cases h
      · rename_i id hfree
        cases h
        obtain ⟨hfresh, hne⟩ := firstFree_fresh hfree
        have keep : ∀ s ∈ g.nodes, ∃ s' ∈ (g.nodes ++ [emptyNode id ty (freshParam E ty T)]), s'.id = s.id ∧ s'.ty = s.ty :=
          fun s hs => ⟨s, List.mem_append_left _ hs, rfl, rfl⟩
        refine ⟨?_, ?_, hw.prodsNodup, fun kv hkv => (hw.prods kv hkv).mono keep⟩
        · simp only [List.map_append, List.map_cons, List.map_nil]
          rw [List.nodup_append]
          refine ⟨hw.nodup, by simp, ?_⟩
          intro a ha b hb
          simp only [List.mem_singleton] at hb
          subst hb
          intro hab
          subst hab
          exact hfresh ha
        · intro n hn
          rcases List.mem_append.mp hn with hn | hn
          · exact (hw.nodes n hn).mono keep
          · simp only [List.mem_singleton] at hn
            subst hn
            refine ⟨hne, T, hT, ?_, ?_, ?_⟩
            · intro p r hr; simp [emptyNode] at hr
            · intro p r hr; simp [emptyNode] at hr
            · simp only [emptyNode, freshParam]
              cases hk : T.param with
              | none => simp
              | some k =>
                simp only [Option.map_some]
                refine ⟨(by intro v hv; cases hv), fun v hv => hE.dfltLaw ty v hv, ?_, fun _ => rfl⟩
                intro hkv
                subst hkv
                exact hE.valueDflt ty T hT hk
  | connect src srcPort dst inPort =>
    simp only [step] at h
    split at h
    · rename_i d s hd hs
      obtain ⟨hdm, hdid⟩ := find_some hd
      obtain ⟨hsm, hsid⟩ := find_some hs
      split at h
      · rename_i Td Ts hTd hTs
        split at h
        · rename_i hport
          cases hc : setInputConnect Td d inPort ⟨src, srcPort⟩ Ts.out with
          | error e => simp [hc, bind, Except.bind] at h
          | ok d' =>
            simp only [hc, bind, Except.bind] at h
            cases h
            have hr : RefOK E g Ts.out ⟨src, srcPort⟩ := ⟨hport, s, hsm, hsid, Ts, hTs, rfl⟩
            obtain ⟨h1, h2, h3⟩ := setInputConnect_wf hTd (hw.nodes d hdm) hr hc
            exact hw.setNode hdm h1 h2 h3
        · cases h
      · cases h
    · cases h
  | disconnect dst inPort =>
    simp only [step] at h
    split at h
    · rename_i d hd
      obtain ⟨hdm, hdid⟩ := find_some hd
      split at h
      · rename_i Td hTd
        cases hc : setInputDisconnect Td d inPort with
        | error e => simp [hc, bind, Except.bind] at h
        | ok d' =>
          simp only [hc, bind, Except.bind] at h
          cases h
          obtain ⟨h1, h2, h3⟩ := setInputDisconnect_wf hTd (hw.nodes d hdm) hc
          exact hw.setNode hdm h1 h2 h3
      · cases h
    · cases h
  | setValue id j =>
    simp only [step] at h
    split at h
    · rename_i n hn
      obtain ⟨hnm, _⟩ := find_some hn
      split at h
      · rename_i p hp
        split at h
        · rename_i v hv
          cases h
          refine hw.setNode hnm rfl rfl ((hw.nodes n hnm).setPar hp ?_)
          rintro k ⟨h1, h2, h3, h4⟩
          exact ⟨fun v' hv' => by cases hv'; exact hE.law _ _ _ hv, h2, h3, h4⟩
        · cases h
      · cases h
    · cases h
  | setName id s =>
    simp only [step] at h
    split at h
    · rename_i n hn
      obtain ⟨hnm, _⟩ := find_some hn
      split at h
      · rename_i p hp
        cases h
        exact hw.setNode hnm rfl rfl ((hw.nodes n hnm).setPar hp (fun k hk => hk))
      · cases h
    · cases h
  | setDesc id s =>
    simp only [step] at h
    split at h
    · rename_i n hn
      obtain ⟨hnm, _⟩ := find_some hn
      split at h
      · rename_i p hp
        cases h
        exact hw.setNode hnm rfl rfl ((hw.nodes n hnm).setPar hp (fun k hk => hk))
      · cases h
    · cases h
  | setProducer id file =>
    simp only [step] at h
    split at h
    · rename_i n hn
      obtain ⟨hnm, hnid⟩ := find_some hn
      split at h
      · rename_i T hT
        split at h
        · rename_i hout
          cases h
          refine hw.sameNodes rfl ?_ ?_
          · apply aset_nodup
            exact List.Nodup.sublist (List.Sublist.map _ List.filter_sublist) hw.prodsNodup
          · intro kv hkv
            rcases mem_aset hkv with rfl | hkv'
            · exact ⟨rfl, n, hnm, hnid, T, hT, hout⟩
            · exact hw.prods kv (List.mem_filter.mp hkv').1
        · cases h
      · cases h
    · cases h
  | metaSet path v =>
    simp only [step] at h
    cases hm : GraphIO.metaSet path v g.md with
    | error e => simp [hm, bind, Except.bind] at h
    | ok m =>
      simp only [hm, bind, Except.bind] at h
      cases h
      exact hw.sameNodes rfl hw.prodsNodup hw.prods
  | metaDel path =>
    simp only [step] at h
    cases hm : GraphIO.metaDel path g.md with
    | error e => simp [hm, bind, Except.bind] at h
    | ok m =>
      simp only [hm, bind, Except.bind] at h
      cases h
      exact hw.sameNodes rfl hw.prodsNodup hw.prods
  | delete id =>
    simp only [step] at h
    split at h
    · cases h
    · rename_i hdep
      cases h
      -- nothing references `id`
      have nodep : ∀ n ∈ g.nodes, ∀ t r, (∃ p, n.scal p = some r ∨ r ∈ n.arrs p) → RefOK E g t r → r.node ≠ id := by
        intro n hn t r hex _ hrid
        apply hdep
        simp only [Graph.dependedOn, List.any_eq_true]
        refine ⟨n, hn, ?_⟩
        obtain ⟨_, T, hT, hs, ha, _⟩ := hw.nodes n hn
        simp only [hT, List.any_eq_true, decide_eq_true_eq]
        refine ⟨r, ?_, hrid⟩
        obtain ⟨p, hp | hp⟩ := hex
        · obtain ⟨t', ht', _⟩ := hs p r hp
          exact List.mem_append_left _ (List.mem_filterMap.mpr ⟨(p, t'), portTy_mem ht', hp⟩)
        · obtain ⟨t', ht', _⟩ := ha p r hp
          exact List.mem_append_right _ (List.mem_flatMap.mpr ⟨(p, t'), portTy_mem ht', hp⟩)
      have keepRef : ∀ t r, r.node ≠ id → RefOK E g t r →
          RefOK E { g with nodes := g.nodes.filter (fun n => n.id ≠ id), prods := g.prods.filter (fun kv => kv.2.node ≠ id) } t r := by
        rintro t r hne ⟨hp, s, hs, hsid, rest⟩
        refine ⟨hp, s, ?_, hsid, rest⟩
        exact List.mem_filter.mpr ⟨hs, by simpa [hsid] using hne⟩
      refine ⟨?_, ?_, ?_, ?_⟩
      · exact List.Nodup.sublist (List.Sublist.map _ List.filter_sublist) hw.nodup
      · intro n hn
        have hn' := (List.mem_filter.mp hn).1
        obtain ⟨hid, T, hT, hs, ha, hp⟩ := hw.nodes n hn'
        refine ⟨hid, T, hT, ?_, ?_, hp⟩
        · intro p r hr
          obtain ⟨t, ht, hok⟩ := hs p r hr
          exact ⟨t, ht, keepRef t r (nodep n hn' t r ⟨p, Or.inl hr⟩ hok) hok⟩
        · intro p r hr
          obtain ⟨t, ht, hok⟩ := ha p r hr
          exact ⟨t, ht, keepRef t r (nodep n hn' t r ⟨p, Or.inr hr⟩ hok) hok⟩
      · exact List.Nodup.sublist (List.Sublist.map _ List.filter_sublist) hw.prodsNodup
      · intro kv hkv
        obtain ⟨hkv', hne⟩ := List.mem_filter.mp hkv
        exact keepRef _ _ (by simpa using hne) (hw.prods kv hkv')

theorem init_wf {E : Env V J} (h : Hdr) : WF E (Graph.init h : Graph V) :=
  ⟨by simp [Graph.init], by simp [Graph.init], by simp [Graph.init], by simp [Graph.init]⟩

theorem run_wf {E : Env V J} (hE : EnvOK E) (ops : List (Op J)) {g : Graph V} (hw : WF E g) : WF E (run E g ops) := by
  induction ops generalizing g with
  | nil => exact hw
  | cons op ops ih =>
    simp only [run, List.foldl_cons]
    apply ih
    unfold stepTotal
    split
    · rename_i g' hs; exact step_wf hE hw hs
    · exact hw

/-! ### sorting -/

theorem insertBy_perm {α} (lt : α → α → Bool) (a : α) (l : List α) : (insertBy lt a l).Perm (a :: l) := by
  induction l with
  | nil => exact List.Perm.refl _
  | cons b bs ih =>
    unfold insertBy
    split
    · exact ((List.Perm.cons b ih).trans (List.Perm.swap a b bs))
    · exact List.Perm.refl _

theorem sortBy_perm {α} (lt : α → α → Bool) (l : List α) : (sortBy lt l).Perm l := by
  induction l with
  | nil => exact List.Perm.refl _
  | cons a as ih => exact (insertBy_perm lt a _).trans (List.Perm.cons a ih)

theorem StrictTotalOn.sub {α} {lt : α → α → Bool} {l l' : List α} (h : StrictTotalOn lt l) (hs : ∀ a ∈ l', a ∈ l) :
    StrictTotalOn lt l' :=
  ⟨fun a ha b hb => h.asymm a (hs a ha) b (hs b hb),
   fun a ha b hb c hc => h.trans a (hs a ha) b (hs b hb) c (hs c hc),
   fun a ha b hb => h.total a (hs a ha) b (hs b hb)⟩

theorem insertBy_pairwise {α} {lt : α → α → Bool} {a : α} {l : List α} (hS : StrictTotalOn lt (a :: l))
    (ha : a ∉ l) (hp : l.Pairwise (fun x y => lt x y = true)) :
    (insertBy lt a l).Pairwise (fun x y => lt x y = true) := by
  induction l with
  | nil => simp [insertBy]
  | cons b bs ih =>
    have hab : a ≠ b := fun h => ha (h ▸ List.mem_cons_self)
    have ha' : a ∉ bs := fun h => ha (List.mem_cons_of_mem _ h)
    obtain ⟨hb, hbs⟩ := List.pairwise_cons.mp hp
    unfold insertBy
    split
    · rename_i hlt
      apply List.pairwise_cons.mpr
      refine ⟨?_, ih (hS.sub ?_) ha' hbs⟩
      · intro c hc
        rcases List.mem_cons.mp ((insertBy_perm lt a bs).mem_iff.mp hc) with rfl | hc'
        · exact hlt
        · exact hb c hc'
      · intro x hx
        rcases List.mem_cons.mp hx with rfl | hx
        · exact List.mem_cons_self
        · exact List.mem_cons_of_mem _ (List.mem_cons_of_mem _ hx)
    · rename_i hlt
      have hab' : lt a b = true := by
        rcases hS.total a List.mem_cons_self b (List.mem_cons_of_mem _ List.mem_cons_self) hab with h | h
        · exact h
        · exact absurd h hlt
      apply List.pairwise_cons.mpr
      refine ⟨?_, hp⟩
      intro c hc
      rcases List.mem_cons.mp hc with rfl | hc'
      · exact hab'
      · exact hS.trans a List.mem_cons_self b (List.mem_cons_of_mem _ List.mem_cons_self) c
          (List.mem_cons_of_mem _ (List.mem_cons_of_mem _ hc')) hab' (hb c hc')

theorem sortBy_pairwise {α} {lt : α → α → Bool} {l : List α} (hS : StrictTotalOn lt l) (hn : l.Nodup) :
    (sortBy lt l).Pairwise (fun x y => lt x y = true) := by
  induction l with
  | nil => simp [sortBy]
  | cons a as ih =>
    obtain ⟨ha, has⟩ := List.nodup_cons.mp hn
    unfold sortBy
    apply insertBy_pairwise
    · exact hS.sub (fun x hx => by
        rcases List.mem_cons.mp hx with rfl | hx
        · exact List.mem_cons_self
        · exact List.mem_cons_of_mem _ ((sortBy_perm lt as).mem_iff.mp hx))
    · exact fun h => ha ((sortBy_perm lt as).mem_iff.mp h)
    · exact ih (hS.sub (fun x hx => List.mem_cons_of_mem _ hx)) has

/-- sort.Slice is only trusted to return SOME sorted permutation: under a strict total order there is only one -/
theorem sorted_unique_aux {α} {lt : α → α → Bool} {l l' : List α} (hS : StrictTotalOn lt l) (hn : l.Nodup)
    (hperm : l'.Perm l) (hsorted : l'.Pairwise (fun x y => lt x y = true)) : l' = sortBy lt l := by
  apply List.Perm.eq_of_pairwise (le := fun x y => lt x y = true) _ hsorted (sortBy_pairwise hS hn)
    (hperm.trans (sortBy_perm lt l).symm)
  intro a b ha hb hab hba
  exact (hS.asymm a (hperm.mem_iff.mp ha) b ((sortBy_perm lt l).mem_iff.mp hb) hab hba).elim

/-! ### names -/

theorem splitFirst_noDot {p : Name} (h : '.' ∉ p) : splitFirst p = none := by
  induction p with
  | nil => rfl
  | cons c cs ih =>
    have hc : c ≠ '.' := fun e => h (e ▸ List.mem_cons_self)
    have hcs : '.' ∉ cs := fun e => h (List.mem_cons_of_mem _ e)
    simp [splitFirst, hc, ih hcs]

theorem splitFirst_dot {p : Name} (rest : Name) (h : '.' ∉ p) : splitFirst (p ++ '.' :: rest) = some (p, rest) := by
  induction p with
  | nil => simp [splitFirst]
  | cons c cs ih =>
    have hc : c ≠ '.' := fun e => h (e ▸ List.mem_cons_self)
    have hcs : '.' ∉ cs := fun e => h (List.mem_cons_of_mem _ e)
    simp [splitFirst, hc, ih hcs]

theorem splitFirst_arrName {p : Name} (i : Nat) (h : '.' ∉ p) : splitFirst (arrName p i) = some (p, natDigits i) :=
  splitFirst_dot _ h

/-- the dependency is an element of array port `P` (what SetInput looks at: the part before the first dot) -/
def isArrOf (P : Name) (d : Dep) : Bool :=
  match splitFirst d.name with
  | some (p, _) => p = P
  | none => false

theorem indexed_map_ref (p : Name) (k : Nat) (rs : List Ref) : (indexed p k rs).map (·.ref) = rs := by
  induction rs generalizing k with
  | nil => rfl
  | cons r rs ih => simp [indexed, ih]

theorem mem_indexed {p : Name} {k : Nat} {rs : List Ref} {d : Dep} (h : d ∈ indexed p k rs) :
    ∃ i, k ≤ i ∧ i < k + rs.length ∧ d.name = arrName p i ∧ d.ref ∈ rs := by
  induction rs generalizing k with
  | nil => cases h
  | cons r rs ih =>
    rcases List.mem_cons.mp h with rfl | h'
    · exact ⟨k, Nat.le_refl _, by simp, rfl, List.mem_cons_self⟩
    · obtain ⟨i, h1, h2, h3, h4⟩ := ih h'
      exact ⟨i, by omega, by simp only [List.length_cons]; omega, h3, List.mem_cons_of_mem _ h4⟩

theorem indexed_pairwise {cmp : Name → Name → Bool} {p : Name} {k : Nat} {rs : List Ref}
    (h : ∀ i j, i < j → j < k + rs.length → cmp (arrName p i) (arrName p j) = true) :
    (indexed p k rs).Pairwise (fun a b => cmp a.name b.name = true) := by
  induction rs generalizing k with
  | nil => exact List.Pairwise.nil
  | cons r rs ih =>
    apply List.pairwise_cons.mpr
    constructor
    · intro d hd
      obtain ⟨i, h1, h2, h3, _⟩ := mem_indexed hd
      rw [h3]
      exact h k i (by omega) (by simp only [List.length_cons]; omega)
    · exact ih (fun i j hij hj => h i j hij (by simp only [List.length_cons]; omega))

theorem indexed_filter_same {p : Name} (hp : '.' ∉ p) (k : Nat) (rs : List Ref) :
    (indexed p k rs).filter (isArrOf p) = indexed p k rs := by
  apply List.filter_eq_self.mpr
  intro d hd
  obtain ⟨i, _, _, h3, _⟩ := mem_indexed hd
  simp [isArrOf, h3, splitFirst_arrName i hp]

theorem indexed_filter_other {p P : Name} (hp : '.' ∉ p) (hne : p ≠ P) (k : Nat) (rs : List Ref) :
    (indexed p k rs).filter (isArrOf P) = [] := by
  apply List.filter_eq_nil_iff.mpr
  intro d hd
  obtain ⟨i, _, _, h3, _⟩ := mem_indexed hd
  simp [isArrOf, h3, splitFirst_arrName i hp, hne]

/-! ### the dependency list of a node -/

theorem arrs_filter_aux (arrs : List (Name × VTy)) (f : Name → List Ref) (hnd : (arrs.map (·.1)).Nodup)
    (hdot : ∀ p ∈ arrs.map (·.1), '.' ∉ p) (P : Name) :
    (arrs.flatMap (fun p => indexed p.1 0 (f p.1))).filter (isArrOf P) =
      if P ∈ arrs.map (·.1) then indexed P 0 (f P) else [] := by
  induction arrs with
  | nil => simp
  | cons x xs ih =>
    obtain ⟨q, t⟩ := x
    simp only [List.map_cons, List.nodup_cons] at hnd
    have hq : '.' ∉ q := hdot q (by simp)
    have ih' := ih hnd.2 (fun p hp => hdot p (List.mem_cons_of_mem _ hp))
    simp only [List.flatMap_cons, List.filter_append, List.map_cons, List.mem_cons]
    by_cases hqP : q = P
    · subst hqP
      have : ¬ q ∈ xs.map (·.1) := hnd.1
      rw [indexed_filter_same hq, ih']
      simp [this]
    · rw [indexed_filter_other hq hqP, ih']
      have : ¬ P = q := fun e => hqP e.symm
      simp only [this, false_or, List.nil_append]

theorem mem_scalDeps {T : NodeType} {n : Node V} {d : Dep}
    (h : d ∈ T.scal.filterMap (fun p => (n.scal p.1).map (fun r => (⟨p.1, r⟩ : Dep)))) :
    d.name ∈ T.scal.map (·.1) ∧ n.scal d.name = some d.ref := by
  obtain ⟨⟨p, t⟩, hp, hd⟩ := List.mem_filterMap.mp h
  cases hr : n.scal p with
  | none => simp [hr] at hd
  | some r =>
    simp only [hr, Option.map_some, Option.some.injEq] at hd
    subst hd
    exact ⟨List.mem_map.mpr ⟨(p, t), hp, rfl⟩, hr⟩

theorem depsOf_filter {E : Env V J} (hE : EnvOK E) {ty : TyName} {T : NodeType} (hT : E.types ty = some T)
    (n : Node V) (P : Name) :
    (depsOf T n).filter (isArrOf P) = if P ∈ T.arrs.map (·.1) then indexed P 0 (n.arrs P) else [] := by
  unfold depsOf
  rw [List.filter_append, arrs_filter_aux T.arrs n.arrs (hE.arrNodup ty T hT) (hE.arrNoDot ty T hT) P]
  have : (T.scal.filterMap (fun p => (n.scal p.1).map (fun r => (⟨p.1, r⟩ : Dep)))).filter (isArrOf P) = [] := by
    apply List.filter_eq_nil_iff.mpr
    intro d hd
    have := hE.scalNoDot ty T hT d.name (mem_scalDeps hd).1
    simp [isArrOf, splitFirst_noDot this]
  rw [this, List.nil_append]

theorem mem_arrDeps {T : NodeType} {n : Node V} {d : Dep}
    (h : d ∈ T.arrs.flatMap (fun p => indexed p.1 0 (n.arrs p.1))) :
    ∃ p ∈ T.arrs.map (·.1), ∃ i, i < (n.arrs p).length ∧ d.name = arrName p i ∧ d.ref ∈ n.arrs p := by
  obtain ⟨⟨p, t⟩, hp, hd⟩ := List.mem_flatMap.mp h
  obtain ⟨i, _, h2, h3, h4⟩ := mem_indexed hd
  exact ⟨p, List.mem_map.mpr ⟨(p, t), hp, rfl⟩, i, by simpa using h2, h3, h4⟩

theorem arrName_ne_of_cmp {cmp : Name → Name → Bool} {T : NodeType} {n : Node V} (hc : CmpOK cmp T n)
    {p : Name} (hp : p ∈ T.arrs.map (·.1)) {i j : Nat} (hi : i < (n.arrs p).length) (hj : j < (n.arrs p).length)
    (hij : i ≠ j) : arrName p i ≠ arrName p j := by
  intro e
  have hmem : arrName p i ∈ (depsOf T n).map (·.name) := by
    obtain ⟨⟨q, t⟩, hq, rfl⟩ := List.mem_map.mp hp
    have hlen : i < (indexed q 0 (n.arrs q)).length := by
      have := congrArg List.length (indexed_map_ref q 0 (n.arrs q))
      simp only [List.length_map] at this
      have hi' : i < (n.arrs q).length := hi
      omega
    refine List.mem_map.mpr ⟨(indexed q 0 (n.arrs q))[i], ?_, ?_⟩
    · unfold depsOf
      exact List.mem_append_right _ (List.mem_flatMap.mpr ⟨(q, t), hq, List.getElem_mem hlen⟩)
    · have : ∀ (k : Nat) (rs : List Ref) (i : Nat) (h : i < (indexed q k rs).length), ((indexed q k rs)[i]).name = arrName q (k + i) := by
        intro k rs
        induction rs generalizing k with
        | nil => intro i h; simp [indexed] at h
        | cons r rs ih =>
          intro i h
          cases i with
          | zero => simp [indexed]
          | succ i =>
            simp only [indexed, List.getElem_cons_succ]
            rw [ih (k + 1) i (by simpa [indexed] using h)]
            congr 1; omega
      simpa using this 0 (n.arrs q) i hlen
  rcases Nat.lt_or_gt_of_ne hij with h | h
  · have := hc.arrOrder p hp i j h hj
    rw [← e] at this
    exact hc.strict.asymm _ hmem _ hmem this this
  · have := hc.arrOrder p hp j i h hi
    rw [e] at this
    rw [e] at hmem
    exact hc.strict.asymm _ hmem _ hmem this this

theorem indexed_names_distinct {p : Name} {k : Nat} {rs : List Ref}
    (h : ∀ i j, k ≤ i → i < j → j < k + rs.length → arrName p i ≠ arrName p j) :
    (indexed p k rs).Pairwise (fun a b => a.name ≠ b.name) := by
  induction rs generalizing k with
  | nil => exact List.Pairwise.nil
  | cons r rs ih =>
    apply List.pairwise_cons.mpr
    constructor
    · intro d hd
      obtain ⟨i, h1, h2, h3, _⟩ := mem_indexed hd
      rw [h3]
      exact h k i (Nat.le_refl _) (by omega) (by simp only [List.length_cons]; omega)
    · exact ih (fun i j hki hij hj => h i j (by omega) hij (by simp only [List.length_cons]; omega))

theorem arrName_ne_port {p q : Name} (hp : '.' ∉ p) (hq : '.' ∉ q) (hne : p ≠ q) (i j : Nat) :
    arrName p i ≠ arrName q j := by
  intro e
  have := congrArg splitFirst e
  rw [splitFirst_arrName i hp, splitFirst_arrName j hq] at this
  simp at this
  exact hne this.1

theorem depsOf_names_distinct {E : Env V J} (hE : EnvOK E) {ty : TyName} {T : NodeType} (hT : E.types ty = some T)
    {cmp : Name → Name → Bool} {n : Node V} (hc : CmpOK cmp T n) :
    (depsOf T n).Pairwise (fun a b => a.name ≠ b.name) := by
  unfold depsOf
  apply List.pairwise_append.mpr
  refine ⟨?_, ?_, ?_⟩
  · apply List.pairwise_filterMap.mpr
    have := List.pairwise_map.mp (hE.scalNodup ty T hT)
    refine this.imp ?_
    intro a b hab x hx y hy
    cases ha : n.scal a.1 with
    | none => simp [ha] at hx
    | some ra =>
      cases hb : n.scal b.1 with
      | none => simp [hb] at hy
      | some rb =>
        simp only [ha, hb, Option.map_some, Option.some.injEq] at hx hy
        subst hx; subst hy
        exact hab
  · apply List.pairwise_flatMap.mpr
    constructor
    · intro a ha
      apply indexed_names_distinct
      intro i j _ hij hj
      exact arrName_ne_of_cmp hc (List.mem_map.mpr ⟨a, ha, rfl⟩) (by omega) (by omega) (by omega)
    · have := List.pairwise_map.mp (hE.arrNodup ty T hT)
      refine this.imp_of_mem ?_
      intro a b ha hb hab x hx y hy
      obtain ⟨i, _, _, hi, _⟩ := mem_indexed hx
      obtain ⟨j, _, _, hj, _⟩ := mem_indexed hy
      rw [hi, hj]
      exact arrName_ne_port (hE.arrNoDot ty T hT _ (List.mem_map.mpr ⟨a, ha, rfl⟩))
        (hE.arrNoDot ty T hT _ (List.mem_map.mpr ⟨b, hb, rfl⟩)) hab i j
  · intro a ha b hb e
    have h1 := hE.scalNoDot ty T hT a.name (mem_scalDeps ha).1
    obtain ⟨p, hp, i, _, hname, _⟩ := mem_arrDeps hb
    have h2 := splitFirst_arrName i (hE.arrNoDot ty T hT p hp)
    rw [← hname, ← e, splitFirst_noDot h1] at h2
    cases h2

theorem pairwise_ne_of_mem {α} {R : α → α → Prop} (hsym : ∀ a b, R a b → R b a) {l : List α} (hp : l.Pairwise R)
    {a b : α} (ha : a ∈ l) (hb : b ∈ l) (hab : a ≠ b) : R a b := by
  induction l with
  | nil => cases ha
  | cons x xs ih =>
    obtain ⟨hx, hxs⟩ := List.pairwise_cons.mp hp
    rcases List.mem_cons.mp ha with rfl | ha' <;> rcases List.mem_cons.mp hb with rfl | hb'
    · exact absurd rfl hab
    · exact hx b hb'
    · exact hsym _ _ (hx a ha')
    · exact ih hxs ha' hb'

/-- the comparator, lifted to dependencies, is a strict total order on the node's dependency list -/
theorem depsOf_strict {E : Env V J} (hE : EnvOK E) {ty : TyName} {T : NodeType} (hT : E.types ty = some T)
    {cmp : Name → Name → Bool} {n : Node V} (hc : CmpOK cmp T n) :
    StrictTotalOn (fun a b : Dep => cmp a.name b.name) (depsOf T n) ∧ (depsOf T n).Nodup := by
  have hd := depsOf_names_distinct hE hT hc
  have mem : ∀ a ∈ depsOf T n, a.name ∈ (depsOf T n).map (·.name) := fun a ha => List.mem_map.mpr ⟨a, ha, rfl⟩
  refine ⟨⟨?_, ?_, ?_⟩, ?_⟩
  · intro a ha b hb; exact hc.strict.asymm _ (mem a ha) _ (mem b hb)
  · intro a ha b hb c hcm; exact hc.strict.trans _ (mem a ha) _ (mem b hb) _ (mem c hcm)
  · intro a ha b hb hab
    exact hc.strict.total _ (mem a ha) _ (mem b hb)
      (pairwise_ne_of_mem (fun _ _ h => fun e => h e.symm) hd ha hb hab)
  · exact hd.imp (fun {a b} h (e : a = b) => h (congrArg Dep.name e))

/-! ### the sorted dependency list, seen through SetInput -/

theorem sorted_filter_arr {E : Env V J} (hE : EnvOK E) {ty : TyName} {T : NodeType} (hT : E.types ty = some T)
    {cmp : Name → Name → Bool} {n : Node V} (hc : CmpOK cmp T n) {P : Name} (hP : P ∈ T.arrs.map (·.1)) :
    ((sortBy (fun a b : Dep => cmp a.name b.name) (depsOf T n)).filter (isArrOf P)).map (·.ref) = n.arrs P := by
  obtain ⟨hS, hN⟩ := depsOf_strict hE hT hc
  have hperm := (sortBy_perm (fun a b : Dep => cmp a.name b.name) (depsOf T n)).filter (isArrOf P)
  rw [depsOf_filter hE hT n P, if_pos hP] at hperm
  have hsorted := (sortBy_pairwise hS hN).filter (isArrOf P)
  have hidx : (indexed P 0 (n.arrs P)).Pairwise (fun a b => cmp a.name b.name = true) :=
    indexed_pairwise (fun i j hij hj => hc.arrOrder P hP i j hij (by simpa using hj))
  have : (sortBy (fun a b : Dep => cmp a.name b.name) (depsOf T n)).filter (isArrOf P) = indexed P 0 (n.arrs P) := by
    apply List.Perm.eq_of_pairwise (le := fun a b : Dep => cmp a.name b.name = true) _ hsorted hidx hperm
    intro a b ha hb hab hba
    have ha' : a ∈ depsOf T n := (sortBy_perm _ _).mem_iff.mp (List.mem_filter.mp ha).1
    have hb' : b ∈ depsOf T n := (sortBy_perm _ _).mem_iff.mp (List.mem_filter.mp (hperm.mem_iff.mpr hb)).1
    exact (hS.asymm a ha' b hb' hab hba).elim
  rw [this, indexed_map_ref]

theorem sorted_filter_arr_none {E : Env V J} (hE : EnvOK E) {ty : TyName} {T : NodeType} (hT : E.types ty = some T)
    {cmp : Name → Name → Bool} {n : Node V} {P : Name} (hP : P ∉ T.arrs.map (·.1)) :
    (sortBy (fun a b : Dep => cmp a.name b.name) (depsOf T n)).filter (isArrOf P) = [] := by
  have hperm := (sortBy_perm (fun a b : Dep => cmp a.name b.name) (depsOf T n)).filter (isArrOf P)
  rw [depsOf_filter hE hT n P, if_neg hP] at hperm
  exact List.Perm.eq_nil hperm

/-- the scalar field `q` after replaying `L` on a node whose field held `acc` -/
def scalOf : List Dep → Option Ref → Name → Option Ref
  | [], acc, _ => acc
  | d :: ds, acc, q => scalOf ds (if splitFirst d.name = none ∧ d.name = q then some d.ref else acc) q

theorem scalOf_absent {L : List Dep} {acc : Option Ref} {q : Name}
    (h : ∀ d ∈ L, ¬ (splitFirst d.name = none ∧ d.name = q)) : scalOf L acc q = acc := by
  induction L generalizing acc with
  | nil => rfl
  | cons d ds ih =>
    simp only [scalOf, if_neg (h d List.mem_cons_self)]
    exact ih (fun d' hd' => h d' (List.mem_cons_of_mem _ hd'))

theorem scalOf_present {L : List Dep} {acc : Option Ref} {q : Name} {r : Ref}
    (hd : L.Pairwise (fun a b => a.name ≠ b.name)) (hm : (⟨q, r⟩ : Dep) ∈ L) (hq : splitFirst q = none) :
    scalOf L acc q = some r := by
  induction L generalizing acc with
  | nil => cases hm
  | cons d ds ih =>
    obtain ⟨hx, hxs⟩ := List.pairwise_cons.mp hd
    rcases List.mem_cons.mp hm with rfl | hm'
    · simp only [scalOf, hq, and_self, if_true]
      apply scalOf_absent
      intro d' hd' hcontra
      exact hx d' hd' hcontra.2.symm
    · simp only [scalOf]
      exact ih hxs hm'

/-- every dependency entry names an existing node with an `Out` of the type the target field expects -/
def DepValid (E : Env V J) (ns : List (NodeS J)) (T : NodeType) (d : Dep) : Prop :=
  d.ref.port = "Out" ∧ ∃ sty Ts, tyOfId ns d.ref.node = some sty ∧ E.types sty = some Ts ∧
    ((∃ p rest, splitFirst d.name = some (p, rest) ∧ portTy T.arrs p = some Ts.out) ∨
     (splitFirst d.name = none ∧ portTy T.scal d.name = some Ts.out))

theorem replay_ok {E : Env V J} {ns : List (NodeS J)} {T : NodeType} (hTp : T.param = none)
    (L : List Dep) (n : Node V) (hv : ∀ d ∈ L, DepValid E ns T d) :
    ∃ n', replay E ns T n L = .ok n' ∧ n'.id = n.id ∧ n'.ty = n.ty ∧ n'.par = n.par ∧
      (∀ P, n'.arrs P = n.arrs P ++ (L.filter (isArrOf P)).map (·.ref)) ∧
      (∀ q, n'.scal q = scalOf L (n.scal q) q) := by
  induction L generalizing n with
  | nil => exact ⟨n, rfl, rfl, rfl, rfl, by simp, by simp [scalOf]⟩
  | cons d ds ih =>
    obtain ⟨hport, sty, Ts, hty, hTs, hcase⟩ := hv d List.mem_cons_self
    have hv' : ∀ d' ∈ ds, DepValid E ns T d' := fun d' hd' => hv d' (List.mem_cons_of_mem _ hd')
    rcases hcase with ⟨p, rest, hsplit, hpt⟩ | ⟨hsplit, hpt⟩
    · obtain ⟨n', h1, h2, h3, h4, h5, h6⟩ := ih { n with arrs := upd n.arrs p (n.arrs p ++ [d.ref]) } hv'
      refine ⟨n', ?_, h2, h3, h4, ?_, ?_⟩
      · simp only [replay, hty, hTs, hport, if_true, setInputConnect, hTp, hsplit, hpt]
        exact h1
      · intro P
        rw [h5 P]
        by_cases hP : P = p
        · subst hP
          simp [upd, isArrOf, hsplit]
        · have : ¬ p = P := fun e => hP e.symm
          simp [upd, hP, isArrOf, hsplit, this]
      · intro q
        rw [h6 q]
        simp [scalOf, hsplit]
    · obtain ⟨n', h1, h2, h3, h4, h5, h6⟩ := ih { n with scal := upd n.scal d.name (some d.ref) } hv'
      refine ⟨n', ?_, h2, h3, h4, ?_, ?_⟩
      · simp only [replay, hty, hTs, hport, if_true, setInputConnect, hTp, hsplit, hpt]
        exact h1
      · intro P
        rw [h5 P]
        simp [isArrOf, hsplit]
      · intro q
        rw [h6 q]
        by_cases hq : q = d.name
        · subst hq; simp [scalOf, hsplit, upd]
        · have : ¬ d.name = q := fun e => hq e.symm
          simp [scalOf, hsplit, upd, hq, this]

/-! ### one node: decode (encode n) -/

theorem encodeNode_id (E : Env V J) (cmp : Name → Name → Bool) (n : Node V) : (encodeNode E cmp n).id = n.id := by
  unfold encodeNode; split <;> rfl

theorem encodeNode_ty (E : Env V J) (cmp : Name → Name → Bool) (n : Node V) : (encodeNode E cmp n).ty = n.ty := by
  unfold encodeNode; split <;> rfl

theorem find_of_mem {l : List (Node V)} (hnd : (l.map (·.id)).Nodup) {s : Node V} (hs : s ∈ l) :
    l.find? (fun n => n.id = s.id) = some s := by
  induction l with
  | nil => cases hs
  | cons x xs ih =>
    simp only [List.map_cons, List.nodup_cons] at hnd
    rcases List.mem_cons.mp hs with rfl | hs'
    · simp
    · have : x.id ≠ s.id := fun e => hnd.1 (e ▸ List.mem_map.mpr ⟨s, hs', rfl⟩)
      simp [this, ih hnd.2 hs']

theorem tyOfId_encode (E : Env V J) (cmp : Name → Name → Bool) {l : List (Node V)} (hnd : (l.map (·.id)).Nodup)
    {s : Node V} (hs : s ∈ l) : tyOfId (l.map (encodeNode E cmp)) s.id = some s.ty := by
  unfold tyOfId
  rw [List.find?_map]
  have : ((fun n : NodeS J => decide (n.id = s.id)) ∘ encodeNode E cmp) = (fun n : Node V => decide (n.id = s.id)) := by
    funext n; simp [Function.comp, encodeNode_id]
  rw [this, find_of_mem hnd hs]
  simp [encodeNode_ty]

theorem refOK_tyOfId {E : Env V J} (cmp : Name → Name → Bool) {g : Graph V} (hw : WF E g) {t : VTy} {r : Ref}
    (h : RefOK E g t r) : r.port = "Out" ∧ ∃ sty Ts, tyOfId (g.nodes.map (encodeNode E cmp)) r.node = some sty ∧
      E.types sty = some Ts ∧ Ts.out = t := by
  obtain ⟨hp, s, hs, hid, Ts, hT, ho⟩ := h
  exact ⟨hp, s.ty, Ts, hid ▸ tyOfId_encode E cmp hw.nodup hs, hT, ho⟩

theorem Param.norm_value (p : Param V) : p.norm.value = p.value := by
  unfold Param.norm Param.value
  cases hc : p.cur with
  | some v => simp
  | none =>
    cases hd : p.dflt with
    | some v => simp
    | none => simp

theorem decodeParam_encode {E : Env V J} (_hE : EnvOK E) {ty : TyName} {k : PKind} {p : Param V} (hp : ParamOK E ty k p)
    {later : List J} (hl : k = .file → p.value.isSome → later = []) :
    decodeParam E ty k later (encodeParam E k p) = .ok p.norm := by
  obtain ⟨h1, h2, h3, h4⟩ := hp
  cases k with
  | value =>
    have hd := h3 rfl
    cases hdf : p.dflt with
    | none => simp [hdf] at hd
    | some dv =>
      have hval : ∃ v, p.value = some v ∧ E.fromJ ty (E.toJ v) = some v := by
        unfold Param.value
        cases hc : p.cur with
        | some v => exact ⟨v, rfl, h1 v hc⟩
        | none => exact ⟨dv, by simp [hdf], h2 dv hdf⟩
      obtain ⟨v, hv, hlaw⟩ := hval
      simp [decodeParam, encodeParam, hv, hdf, hlaw, h2 dv hdf, Param.norm]
  | file =>
    have hdflt := h4 rfl
    cases hv : p.value with
    | none => simp [decodeParam, encodeParam, hv, Param.norm, hdflt]
    | some v =>
      have hlater : later = [] := hl rfl (by simp [hv])
      have hlaw : E.fromJ ty (E.toJ v) = some v := by
        unfold Param.value at hv
        cases hc : p.cur with
        | some v' => simp [hc] at hv; subst hv; exact h1 v' hc
        | none => simp [hc] at hv; exact h2 v hv
      simp [decodeParam, encodeParam, hv, hlater, readToEnd, hlaw, Param.norm, hdflt]

theorem decodeNode_encode {E : Env V J} (hE : EnvOK E) {cmp : Name → Name → Bool} {g : Graph V} (hw : WF E g)
    {n : Node V} (hn : n ∈ g.nodes) (hc : ∀ T, E.types n.ty = some T → CmpOK cmp T n)
    {later : List J} (hl : (Node.payload E n).isSome → later = []) :
    decodeNode E (g.nodes.map (encodeNode E cmp)) later (encodeNode E cmp n) = .ok n.norm := by
  obtain ⟨hid, T, hT, hs, ha, hp⟩ := hw.nodes n hn
  cases hk : T.param with
  | none =>
    rw [hk] at hp
    cases hpar : n.par with
    | some p => simp [hpar] at hp
    | none =>
      -- every entry of the sorted dependency list is replayable
      have hvalid : ∀ d ∈ sortBy (fun a b : Dep => cmp a.name b.name) (depsOf T n),
          DepValid E (g.nodes.map (encodeNode E cmp)) T d := by
        intro d hd
        have hd' := (sortBy_perm _ _).mem_iff.mp hd
        unfold depsOf at hd'
        rcases List.mem_append.mp hd' with h | h
        · obtain ⟨hname, hconn⟩ := mem_scalDeps h
          obtain ⟨t, ht, hok⟩ := hs _ _ hconn
          obtain ⟨hport, sty, Ts, h1, h2, h3⟩ := refOK_tyOfId cmp hw hok
          exact ⟨hport, sty, Ts, h1, h2, Or.inr ⟨splitFirst_noDot (hE.scalNoDot _ T hT _ hname), h3 ▸ ht⟩⟩
        · obtain ⟨p, hpm, i, _, hname, hconn⟩ := mem_arrDeps h
          obtain ⟨t, ht, hok⟩ := ha _ _ hconn
          obtain ⟨hport, sty, Ts, h1, h2, h3⟩ := refOK_tyOfId cmp hw hok
          exact ⟨hport, sty, Ts, h1, h2,
            Or.inl ⟨p, natDigits i, hname ▸ splitFirst_arrName i (hE.arrNoDot _ T hT p hpm), h3 ▸ ht⟩⟩
      obtain ⟨n', h1, h2, h3, h4, h5, h6⟩ := replay_ok hk _ (emptyNode n.id n.ty (freshParam E n.ty T)) hvalid
      have hfresh : freshParam E n.ty T = none := by simp [freshParam, hk]
      have hCmp := hc T hT
      have hn' : n' = n := by
        have e1 : n'.id = n.id := h2
        have e2 : n'.ty = n.ty := h3
        have e3 : n'.par = n.par := by rw [h4, hpar]; simp [emptyNode, hfresh]
        have e4 : n'.arrs = n.arrs := by
          funext P
          rw [h5 P]
          simp only [emptyNode, List.nil_append]
          by_cases hP : P ∈ T.arrs.map (·.1)
          · exact sorted_filter_arr hE hT hCmp hP
          · rw [sorted_filter_arr_none hE hT hP]
            cases hnp : n.arrs P with
            | nil => rfl
            | cons r rs =>
              obtain ⟨t, ht, _⟩ := ha P r (by simp [hnp])
              exact absurd (List.mem_map.mpr ⟨(P, t), portTy_mem ht, rfl⟩) hP
        have e5 : n'.scal = n.scal := by
          funext q
          rw [h6 q]
          simp only [emptyNode]
          have hdist : (sortBy (fun a b : Dep => cmp a.name b.name) (depsOf T n)).Pairwise (fun a b => a.name ≠ b.name) :=
            ((sortBy_perm _ _).pairwise_iff (fun {a b} h e => h e.symm)).mpr (depsOf_names_distinct hE hT hCmp)
          cases hq : n.scal q with
          | some r =>
            obtain ⟨t, ht, _⟩ := hs q r hq
            have hqm : q ∈ T.scal.map (·.1) := List.mem_map.mpr ⟨(q, t), portTy_mem ht, rfl⟩
            apply scalOf_present hdist _ (splitFirst_noDot (hE.scalNoDot _ T hT q hqm))
            apply (sortBy_perm _ _).mem_iff.mpr
            unfold depsOf
            apply List.mem_append_left
            exact List.mem_filterMap.mpr ⟨(q, t), portTy_mem ht, by simp [hq]⟩
          | none =>
            apply scalOf_absent
            intro d hd hcontra
            have hd' := (sortBy_perm _ _).mem_iff.mp hd
            unfold depsOf at hd'
            rcases List.mem_append.mp hd' with h | h
            · have := (mem_scalDeps h).2
              rw [hcontra.2, hq] at this
              cases this
            · obtain ⟨p, hpm, i, _, hname, _⟩ := mem_arrDeps h
              have := splitFirst_arrName i (hE.arrNoDot _ T hT p hpm)
              rw [← hname, hcontra.1] at this
              cases this
        cases n'; cases n
        simp only at e1 e2 e3 e4 e5
        subst e1 e2 e3 e4 e5
        rfl
      have hnorm : n.norm = n := by
        unfold Node.norm
        cases n
        simp only at hpar
        subst hpar
        rfl
      unfold decodeNode
      rw [encodeNode_id, if_neg hid, encodeNode_ty, hT]
      simp only [hk]
      have hdeps : (encodeNode E cmp n).deps = sortBy (fun a b : Dep => cmp a.name b.name) (depsOf T n) := by
        unfold encodeNode; simp [hT, hk]
      rw [hdeps, h1, hn', hnorm]
      rfl
  | some k =>
    rw [hk] at hp
    cases hpar : n.par with
    | none => simp [hpar] at hp
    | some p =>
      simp only [hpar] at hp
      obtain ⟨hs0, ha0⟩ := hE.paramNoPorts _ T hT (by simp [hk])
      have hscal : n.scal = fun _ => none := by
        funext q
        cases hq : n.scal q with
        | none => rfl
        | some r => obtain ⟨t, ht, _⟩ := hs q r hq; simp [hs0, portTy] at ht
      have harrs : n.arrs = fun _ => [] := by
        funext q
        cases hq : n.arrs q with
        | nil => rfl
        | cons r rs => obtain ⟨t, ht, _⟩ := ha q r (by simp [hq]); simp [ha0, portTy] at ht
      have hdeps : (encodeNode E cmp n).deps = [] := by unfold encodeNode; simp [hT, hk]
      have hdata : (encodeNode E cmp n).data = some (encodeParam E k p) := by unfold encodeNode; simp [hT, hk, hpar]
      have hlater : k = .file → p.value.isSome → later = [] := by
        intro hkf hv
        apply hl
        simp [Node.payload, hT, hk, hkf, hpar, hv]
      unfold decodeNode
      rw [encodeNode_id, if_neg hid, encodeNode_ty, hT]
      simp only [hk, hdeps, hdata, replay, bind, Except.bind, decodeParam_encode hE hp hlater]
      cases n
      simp only at hpar hscal harrs
      subst hpar hscal harrs
      simp [Node.norm, emptyNode]

/-! ### the whole graph -/

theorem filePayload_encode (E : Env V J) (cmp : Name → Name → Bool) (n : Node V) :
    filePayload E (encodeNode E cmp n) = (Node.payload E n).map E.toJ := by
  unfold filePayload Node.payload
  rw [encodeNode_ty]
  cases hT : E.types n.ty with
  | none => rfl
  | some T =>
    simp only
    cases hk : T.param with
    | none => simp [encodeNode, hT, hk]
    | some k =>
      cases hp : n.par with
      | none => cases k <;> simp [encodeNode, hT, hk, hp]
      | some p => cases k <;> simp [encodeNode, hT, hk, hp, encodeParam]

theorem decodeNodes_encode {E : Env V J} (hE : EnvOK E) {cmp : Name → Name → Bool} {g : Graph V} (hw : WF E g)
    (hc : ∀ n ∈ g.nodes, ∀ T, E.types n.ty = some T → CmpOK cmp T n)
    (rest : List (Node V)) (hsub : ∀ n ∈ rest, n ∈ g.nodes) (hlast : (rest.filterMap (Node.payload E)).length ≤ 1) :
    decodeNodes E (g.nodes.map (encodeNode E cmp)) (rest.map (encodeNode E cmp)) = .ok (rest.map Node.norm) := by
  induction rest with
  | nil => rfl
  | cons n ns ih =>
    have hn := hsub n List.mem_cons_self
    have hlater : (Node.payload E n).isSome → (ns.map (encodeNode E cmp)).filterMap (filePayload E) = [] := by
      intro hsome
      have : (ns.map (encodeNode E cmp)).filterMap (filePayload E) = (ns.filterMap (Node.payload E)).map E.toJ := by
        rw [List.filterMap_map]
        clear hlast hsub ih
        induction ns with
        | nil => rfl
        | cons m ms ihm =>
          simp only [List.filterMap_cons, Function.comp, filePayload_encode]
          cases Node.payload E m with
          | none => simpa using ihm
          | some v => simpa using ihm
      rw [this]
      cases hp : Node.payload E n with
      | none => simp [hp] at hsome
      | some v =>
        simp only [List.filterMap_cons, hp, List.length_cons] at hlast
        have : (ns.filterMap (Node.payload E)).length = 0 := by omega
        rw [List.length_eq_zero_iff.mp this]
        rfl
    have hrest : (ns.filterMap (Node.payload E)).length ≤ 1 := by
      simp only [List.filterMap_cons] at hlast
      split at hlast
      · exact hlast
      · simp only [List.length_cons] at hlast; omega
    simp only [List.map_cons, decodeNodes]
    rw [decodeNode_encode hE hw hn (hc n hn) hlater, ih (fun m hm => hsub m (List.mem_cons_of_mem _ hm)) hrest]

theorem decodeProds_encode {E : Env V J} {cmp : Name → Name → Bool} {g : Graph V} (hw : WF E g)
    (ps : List (String × Ref)) (hsub : ∀ kv ∈ ps, RefOK E g artTy kv.2) :
    decodeProds E (g.nodes.map (encodeNode E cmp)) ps = .ok ps := by
  induction ps with
  | nil => rfl
  | cons kv rest ih =>
    obtain ⟨hport, sty, Ts, h1, h2, h3⟩ := refOK_tyOfId cmp hw (hsub kv List.mem_cons_self)
    simp only [decodeProds, decodeProd, h1, h2, hport, h3, and_self, if_true]
    rw [ih (fun kv' h => hsub kv' (List.mem_cons_of_mem _ h))]

theorem applyHdr_empty (h : Hdr) : applyHdr Hdr.empty h = h := by
  cases h with
  | mk n v d a w =>
    simp only [applyHdr, Hdr.empty]
    congr 1
    · split <;> simp_all
    · split <;> simp_all
    · split <;> simp_all
    · cases w <;> rfl

theorem encodeNode_norm (E : Env V J) (cmp : Name → Name → Bool) (n : Node V) :
    encodeNode E cmp n.norm = encodeNode E cmp n := by
  unfold encodeNode Node.norm
  simp only
  cases hT : E.types n.ty with
  | none => rfl
  | some T =>
    simp only
    congr 1
    cases hk : T.param with
    | none => rfl
    | some k =>
      cases hp : n.par with
      | none => rfl
      | some p =>
        simp only [Option.map_some]
        congr 1
        cases k <;> simp [encodeParam, Param.norm_value] <;> simp [Param.norm]

end GraphIO
end PolyVerif
