/-
  C09 — table-level facts about the regenerated marching tables, each a `decide +kernel` over the
  COMPLETE finite table (256 sign patterns / 256 rows / 12 edges).  Kept in their own module so that the
  kernel evaluation (~90 s) is cached independently of the structural proofs in Props/C09.lean, which
  restates every one of them under the same name in namespace `PolyVerif.C09`.
-/
import PolyVerif.Lemmas.MarchBits

namespace PolyVerif
namespace C09
open PolyVerif.March PolyVerif.Gen.March

namespace Tab

/-- shapes of the extracted literals: 256 rows of 16; 12 + 12 edge corners, all < 8; 8 corner offsets,
    all in {0,1}³ and pairwise distinct; the offsets used for sample lookup, for vertex positions and for
    the neighbour-block selection are the same list; `lookupIndex` sets bit `i` for corner `i`;
    the triangle loop stops at -1 with stride 3. -/
theorem table_shapes :
    triangulation.length = 256 ∧ triangulation.all (fun r => r.length = 16) = true ∧
    cornerIndexAFromEdge.length = 12 ∧ cornerIndexBFromEdge.length = 12 ∧
    cornerIndexAFromEdge.all (· < 8) = true ∧ cornerIndexBFromEdge.all (· < 8) = true ∧
    cubeDataIndexIncrements.length = 8 ∧
    cubeDataIndexIncrements.all (fun r => r.length = 3 ∧ r.all (fun x => x = 0 ∨ x = 1)) = true ∧
    cubeDataIndexIncrements.Nodup ∧
    cubeCornerPositions = cubeDataIndexIncrements ∧ cubeDataBlockPositions = cubeDataIndexIncrements ∧
    lookupBits = (List.range 8).map (fun i => [Int.ofNat i, Int.ofNat (2 ^ i)]) ∧
    loopTerminator = -1 ∧ loopStride = 3 := by decide +kernel

/-- every row reaches the terminator at a multiple of 3 (the Go loop never indexes out of range) and
    every entry before it is a cube-edge index in [0, 12) -/
theorem table_rows_wellformed :
    triangulation.all (fun r => rowTerminates r &&
      (rowTris r).all (fun t => decide (0 ≤ t.1 ∧ t.1 < 12 ∧ 0 ≤ t.2.1 ∧ t.2.1 < 12 ∧ 0 ≤ t.2.2 ∧ t.2.2 < 12))) = true := by
  decide +kernel

/-- the model's case index of a sign pattern is the binary number of its bits (so every one of the
    256 rows is reached by exactly the pattern it is meant for) -/
theorem table_caseIndex : ∀ b0 b1 b2 b3 b4 b5 b6 b7 : Bool,
    caseIndex (bits8 b0 b1 b2 b3 b4 b5 b6 b7) =
      b0.toNat + 2 * b1.toNat + 4 * b2.toNat + 8 * b3.toNat + 16 * b4.toNat + 32 * b5.toNat + 64 * b6.toNat + 128 * b7.toNat := by
  decide +kernel

/-- every cube edge joins two corners that differ by one step along exactly one axis, and distinct cube
    edges lie on distinct lattice edges -/
theorem table_edges_are_lattice_edges :
    (List.range 12).all (fun e =>
      let a := cornerOff (cA e); let b := cornerOff (cB e)
      decide ((a.1 - b.1).natAbs + (a.2.1 - b.2.1).natAbs + (a.2.2 - b.2.2).natAbs = 1)) = true ∧
    ((List.range 12).map edgeRel).Nodup ∧
    (List.range 12).all (fun e => edgeRel e = edgeRelRaw e) = true := by decide +kernel

/-- every triangle vertex lies on a cube edge whose two corners have different inside/outside bits -/
theorem table_edges_cross : ∀ b0 b1 b2 b3 b4 b5 b6 b7 : Bool,
    (caseTris (caseIndex (bits8 b0 b1 b2 b3 b4 b5 b6 b7))).all (fun t =>
      [t.1, t.2.1, t.2.2].all fun e =>
        (bits8 b0 b1 b2 b3 b4 b5 b6 b7).getD (cA e) false != (bits8 b0 b1 b2 b3 b4 b5 b6 b7).getD (cB e) false) = true := by
  decide +kernel

/-- no triangle uses one cube edge twice -/
theorem table_nondegenerate :
    (List.range 256).all (fun c => (caseTris c).all fun t => t.1 != t.2.1 && t.2.1 != t.2.2 && t.2.2 != t.1) = true := by
  decide +kernel

/-- no case draws the same directed edge twice -/
theorem table_no_duplicate_edge :
    (List.range 256).all (fun c => decide (caseSegs c).Nodup) = true := by decide +kernel

/-- within each case every directed triangle edge not lying in a cube face is matched by its reverse
    (and by `table_no_duplicate_edge`, exactly once) -/
theorem table_interior_balanced :
    (List.range 256).all (fun c => balancedB (interiorSegs c)) = true := by decide +kernel

/-- the all-outside face draws nothing -/
theorem table_canon_empty : canon 0 [false, false, false, false] = [] ∧ canon 1 [false, false, false, false] = [] ∧
    canon 2 [false, false, false, false] = [] := by decide +kernel

set_option maxRecDepth 100000 in
/-- canonical-face form: on its high face perpendicular to `a` a case draws exactly `canon a (bits of that face)`
    and on its low face exactly the reverses of `canon a (bits of that face)` -/
theorem table_face_canonical : ∀ b0 b1 b2 b3 b4 b5 b6 b7 : Bool,
    (List.range 3).all (fun a =>
      let bits := bits8 b0 b1 b2 b3 b4 b5 b6 b7
      (faceSegs (caseIndex bits) a 1).isPerm ((canon a (faceBits bits a 1)).map (shiftE (unit a))) &&
      (faceSegs (caseIndex bits) a 0).isPerm ((canon a (faceBits bits a 0)).map swapE)) = true := by
  decide +kernel

set_option maxRecDepth 100000 in
/-- the cell identity used by the gluing theorem: own edges + canonical segments of the three low faces
    + reversed canonical segments of the three high faces is a balanced list, for all 256 sign patterns -/
theorem table_cell_flow : ∀ b0 b1 b2 b3 b4 b5 b6 b7 : Bool,
    balancedB (flowList (bits8 b0 b1 b2 b3 b4 b5 b6 b7)) = true := by decide +kernel

/-- in lattice-edge ids, too, no case draws the same directed edge twice -/
theorem table_case_edges_nodup : ∀ b0 b1 b2 b3 b4 b5 b6 b7 : Bool,
    decide ((caseSegsRel (caseIndex (bits8 b0 b1 b2 b3 b4 b5 b6 b7))).Nodup) = true := by decide +kernel

/-- a face never carries a segment together with its reverse -/
theorem table_canon_no_antiparallel :
    (List.range 3).all (fun a => (List.range 16).all fun k =>
      (canon a (bits4 k)).all fun e => !((canon a (bits4 k)).contains (swapE e))) = true := by decide +kernel

end Tab
end C09
end PolyVerif
