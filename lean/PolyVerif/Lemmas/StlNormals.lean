/-
  C07 — the two normal expressions of formats/stl, regenerated from source (`Gen/StlNormals.lean`, engine F
  mode c07.normals), reasoned about over ℝ: what "normalised mean of the corner normals" and "geometric
  normal" mean for the very expressions in write.go / read.go.
-/
import PolyVerif.Gen.StlNormals
import PolyVerif.Lemmas.RealScalar
import Mathlib.Tactic

namespace PolyVerif.StlN
open PolyVerif PolyVerif.Gen.StlNormals

abbrev R3 := V3 ℝ

@[ext] theorem R3.ext {a b : R3} (hx : a.x = b.x) (hy : a.y = b.y) (hz : a.z = b.z) : a = b := by
  cases a; cases b; simp_all

def zero3 : R3 := ⟨0, 0, 0⟩

theorem lengthSq_pos_aux {S : R3} (h : S ≠ zero3) : 0 < S.LengthSquared := by
  obtain ⟨x, y, z⟩ := S
  simp only [V3.LengthSquared]
  by_contra hle
  have hx := mul_self_nonneg x; have hy := mul_self_nonneg y; have hz := mul_self_nonneg z
  have h1 : x * x = 0 := by linarith
  have h2 : y * y = 0 := by linarith
  have h3 : z * z = 0 := by linarith
  exact h (by simp [zero3, mul_self_eq_zero.mp h1, mul_self_eq_zero.mp h2, mul_self_eq_zero.mp h3])

theorem length_pos_aux {S : R3} (h : S ≠ zero3) : 0 < S.Length := by
  simp only [V3.Length, RS.sqrt_eq]
  exact Real.sqrt_pos.mpr (lengthSq_pos_aux h)

theorem length_sq_aux (S : R3) : S.Length * S.Length = S.LengthSquared := by
  simp only [V3.Length, RS.sqrt_eq]
  apply Real.mul_self_sqrt
  obtain ⟨x, y, z⟩ := S
  simp only [V3.LengthSquared]
  nlinarith [mul_self_nonneg x, mul_self_nonneg y, mul_self_nonneg z]

/-- `Normalized` is scaling by `1 / Length` -/
theorem normalized_scale_aux (S : R3) : S.Normalized = S.Scale (1 / S.Length) := by
  ext <;> simp [V3.Normalized, V3.DivByConstant, V3.Scale, div_eq_mul_inv]

theorem length_scale_aux (S : R3) {k : ℝ} (hk : 0 ≤ k) : (S.Scale k).Length = k * S.Length := by
  simp only [V3.Length, V3.LengthSquared, V3.Scale, RS.sqrt_eq]
  have : S.x * k * (S.x * k) + S.y * k * (S.y * k) + S.z * k * (S.z * k) = k ^ 2 * (S.x * S.x + S.y * S.y + S.z * S.z) := by ring
  rw [this, Real.sqrt_mul (sq_nonneg k), Real.sqrt_sq hk]

/-- a non-zero vector normalises to unit length -/
theorem normalized_length {S : R3} (h : S ≠ zero3) : S.Normalized.Length = 1 := by
  have hp := length_pos_aux h
  rw [normalized_scale_aux, length_scale_aux S (by positivity)]
  field_simp

/-- … and to a positive multiple of itself -/
theorem normalized_pos_multiple {S : R3} (h : S ≠ zero3) : ∃ k : ℝ, 0 < k ∧ S.Normalized = S.Scale k :=
  ⟨1 / S.Length, by have := length_pos_aux h; positivity, normalized_scale_aux S⟩

/-! ### write.go: `v1.Add(v2).Add(v3).DivByConstant(3).Normalized()` -/

/-- the sum of the three corner normals -/
noncomputable def sum3 (a b c : R3) : R3 := (a.Add b).Add c

theorem mean_ne_zero_aux {a b c : R3} (h : sum3 a b c ≠ zero3) : (sum3 a b c).DivByConstant ((3 : ℕ) : ℝ) ≠ zero3 := by
  intro e
  apply h
  have hx := congrArg V3.x e; have hy := congrArg V3.y e; have hz := congrArg V3.z e
  simp only [V3.DivByConstant, zero3] at hx hy hz
  have h3 : ((3 : ℕ) : ℝ) ≠ 0 := by norm_num
  ext
  · simpa [zero3] using (div_eq_zero_iff.mp hx).resolve_right h3
  · simpa [zero3] using (div_eq_zero_iff.mp hy).resolve_right h3
  · simpa [zero3] using (div_eq_zero_iff.mp hz).resolve_right h3

/-- **The facet normal WriteMesh computes is the normalised mean of the corner normals.**  For the source
    expression itself (regenerated): whenever the three corner normals do not cancel, the result has length 1
    and is a positive multiple of their sum (hence of their mean) — the unit vector in the direction of the mean. -/
theorem avgNormal_unit_mean (a b c : R3) (h : sum3 a b c ≠ zero3) :
    (avgNormal a b c).Length = 1 ∧ ∃ k : ℝ, 0 < k ∧ avgNormal a b c = (sum3 a b c).Scale k := by
  have hm := mean_ne_zero_aux h
  have hdef : avgNormal a b c = ((sum3 a b c).DivByConstant ((3 : ℕ) : ℝ)).Normalized := rfl
  refine ⟨by rw [hdef]; exact normalized_length hm, ?_⟩
  obtain ⟨k, hk, e⟩ := normalized_pos_multiple hm
  refine ⟨k / 3, by positivity, ?_⟩
  rw [hdef, e]
  ext <;> simp [V3.Scale, V3.DivByConstant] <;> ring

/-- it is also the normalised SUM (dividing by 3 first changes nothing over ℝ) -/
theorem avgNormal_eq_normalized_sum (a b c : R3) (h : sum3 a b c ≠ zero3) :
    avgNormal a b c = (sum3 a b c).Normalized := by
  obtain ⟨hl, k, hk, e⟩ := avgNormal_unit_mean a b c h
  have hp := length_pos_aux h
  have hk' : k = 1 / (sum3 a b c).Length := by
    rw [e, length_scale_aux _ hk.le] at hl
    field_simp; linarith
  rw [e, hk', normalized_scale_aux]

/-- when the corner normals cancel, the expression divides 0 by 0 in every component.  Over ℝ (Mathlib's
    convention `x / 0 = 0`) that is the zero vector; **the Go code computes IEEE 0/0 = NaN** in each component
    (correspondence content: the stream feeds cancelling and all-zero normals; `Lemmas.Stl`'s
    `nan_normal_kept` says what ReadMesh then does with the NaN words). -/
theorem avgNormal_cancelling_real_convention (a b c : R3) (h : sum3 a b c = zero3) : avgNormal a b c = zero3 := by
  have hdef : avgNormal a b c = ((sum3 a b c).DivByConstant ((3 : ℕ) : ℝ)).Normalized := rfl
  rw [hdef, h]
  ext <;> simp [zero3, V3.Normalized, V3.DivByConstant]

/-! ### read.go: `v2.Sub(v1).Cross(v3.Sub(v1)).Normalized()` -/

/-- the (unnormalised) geometric normal of the triangle `a b c` in its winding order -/
noncomputable def cross3 (a b c : R3) : R3 := (b.Sub a).Cross (c.Sub a)

/-- **The fallback normal ReadMesh computes is the geometric normal.**  For the source expression itself
    (regenerated): for a non-degenerate triangle the result has length 1, is orthogonal to both edges
    `b − a` and `c − a`, and is right-handed with respect to the winding — a positive multiple of
    `(b − a) × (c − a)`, so its component along that cross product is positive. -/
theorem flatNormal_geometric (a b c : R3) (h : cross3 a b c ≠ zero3) :
    (flatNormal a b c).Length = 1 ∧ (flatNormal a b c).Dot (b.Sub a) = 0 ∧ (flatNormal a b c).Dot (c.Sub a) = 0 ∧
    (∃ k : ℝ, 0 < k ∧ flatNormal a b c = (cross3 a b c).Scale k) ∧ 0 < (flatNormal a b c).Dot (cross3 a b c) := by
  have hdef : flatNormal a b c = (cross3 a b c).Normalized := rfl
  obtain ⟨k, hk, e⟩ := normalized_pos_multiple h
  refine ⟨by rw [hdef]; exact normalized_length h, ?_, ?_, ⟨k, hk, by rw [hdef, e]⟩, ?_⟩
  · rw [hdef, e]; simp only [cross3, V3.Dot, V3.Scale, V3.Cross, V3.Sub]; ring
  · rw [hdef, e]; simp only [cross3, V3.Dot, V3.Scale, V3.Cross, V3.Sub]; ring
  · rw [hdef, e]
    have : ((cross3 a b c).Scale k).Dot (cross3 a b c) = k * (cross3 a b c).LengthSquared := by
      simp only [V3.Dot, V3.Scale, V3.LengthSquared]; ring
    rw [this]
    exact mul_pos hk (lengthSq_pos_aux h)

/-- reversing the winding flips the geometric normal -/
theorem flatNormal_winding (a b c : R3) : cross3 a c b = (cross3 a b c).Scale (-1) := by
  ext <;> simp [cross3, V3.Cross, V3.Sub, V3.Scale] <;> ring

end PolyVerif.StlN
