/-
  C12 ↔ C11: the saved-graph model (`PolyVerif.Model.GraphIO`) seen as a graph of the evaluation model
  (`PolyVerif.Model.Nodes`), for an ARBITRARY numbering of the nodes, and the fact that the from-scratch value does
  not depend on the numbering.  Core Lean only (plus C11's lemma files).  Definitions used by Props/C12Artifacts.
-/
import PolyVerif.Lemmas.GraphIO
import PolyVerif.Lemmas.NodesOps

namespace PolyVerif
namespace C12
open GraphIO

variable {V J W : Type}

/-- what evaluation needs beyond the saved graph, per node TYPE: its `Process()` and its pull strategy as FUNCTIONS
    (deterministic — the property's guard) of the SHAPE of the wiring (which scalar ports are connected, how long the
    array ports are — a Go `Process()` cannot see how the harness numbers nodes) and of the pulled values; the value a
    parameter node outputs for its payload; the content of a cache nobody has filled yet -/
structure Procs (V W : Type) where
  proc : TyName → List Bool → List Nat → List (Option W) → W
  next : TyName → List Bool → List Nat → List (Option W) → Option Nat
  paramVal : TyName → Option V → W
  idle : W

def shapeS (sc : List (Option Nat)) : List Bool := sc.map Option.isSome
def shapeA (ar : List (List Nat)) : List Nat := ar.map List.length

/-- one node as C11 sees it in a FRESH application, under the numbering `σ` of node ids -/
def absNode (P : Procs V W) (E : Env V J) (σ : Id → Nat) (n : GraphIO.Node V) : Nodes.Node W :=
  match E.types n.ty with
  | none => .param P.idle 0
  | some T =>
    match T.param with
    | some _ => .param (P.paramVal n.ty (n.par.bind Param.value)) 0
    | none =>
      .struct { fn := fun sc ar vals => P.proc n.ty (shapeS sc) (shapeA ar) vals,
                next := fun sc ar es => P.next n.ty (shapeS sc) (shapeA ar) es,
                scalars := T.scal.map (fun p => (n.scal p.1).map (fun r => σ r.node)),
                arrays := T.arrs.map (fun p => (n.arrs p.1).map (fun r => σ r.node)),
                cache := P.idle, version := 0, remembered := none, flag := true }

/-- the number of node `id` in the node list -/
def idxOf (g : Graph V) (id : Id) : Nat := g.nodes.findIdx (fun n => n.id = id)

/-- the saved-graph model as a C11 graph, nodes numbered by list position (positions past the end: idle parameters) -/
def absGraph (P : Procs V W) (E : Env V J) (g : Graph V) : Nodes.Graph W := fun i =>
  match g.nodes[i]? with
  | some n => absNode P E (idxOf g) n
  | none => .param P.idle 0

/-- same static content: parameter VALUE (versions may differ), resp. processor, strategy and wiring -/
def looseEq : Nodes.Node W → Nodes.Node W → Prop
  | .param x _, .param y _ => x = y
  | .struct s, .struct t => s.fn = t.fn ∧ s.next = t.next ∧ s.scalars = t.scalars ∧ s.arrays = t.arrays
  | _, _ => False

theorem looseEq.refl (a : Nodes.Node W) : looseEq a a := by
  cases a <;> simp [looseEq]

theorem looseEq.trans {a b c : Nodes.Node W} (h1 : looseEq a b) (h2 : looseEq b c) : looseEq a c := by
  cases a <;> cases b <;> cases c <;> simp_all [looseEq]

theorem looseEq.symm {a b : Nodes.Node W} (h1 : looseEq a b) : looseEq b a := by
  cases a <;> cases b <;> simp_all [looseEq]

theorem looseEq.of_static {a b : Nodes.Node W} (h : Nodes.StaticEq a b) : looseEq a b := by
  cases a <;> cases b <;> simp_all [looseEq, Nodes.StaticEq]

/-- the runtime graph `G` HOLDS the edited graph `g` under the numbering `σ`: the runtime node of every node of `g`
    has that node's static content (caches, versions, remembered versions, flags are free) -/
def Holds (P : Procs V W) (E : Env V J) (σ : Id → Nat) (G : Nodes.Graph W) (g : Graph V) : Prop :=
  ∀ n ∈ g.nodes, looseEq (G (σ n.id)) (absNode P E σ n)

/-! ### the dependency list of an abstract node -/

theorem filterMap_id_map_map {α β : Type} (f : α → β) (l : List (Option α)) :
    (l.map (Option.map f)).filterMap id = (l.filterMap id).map f := by
  induction l with
  | nil => rfl
  | cons a as ih =>
    cases a with
    | none => simpa using ih
    | some x => simp only [List.map_cons, Option.map_some, List.filterMap_cons, id, ih]

theorem flatten_map_map {α β : Type} (f : α → β) (l : List (List α)) :
    (l.map (List.map f)).flatten = l.flatten.map f := by
  induction l with
  | nil => rfl
  | cons a as ih => simp only [List.map_cons, List.flatten_cons, List.map_append, ih]

theorem abs_deps {T : NodeType} (n : GraphIO.Node V) (σ : Id → Nat) :
    (T.scal.map (fun p => (n.scal p.1).map (fun r => σ r.node))).filterMap id ++
      (T.arrs.map (fun p => (n.arrs p.1).map (fun r => σ r.node))).flatten = (n.refs T).map (fun r => σ r.node) := by
  have h1 : T.scal.map (fun p => (n.scal p.1).map (fun r => σ r.node)) =
      (T.scal.map (fun p => n.scal p.1)).map (Option.map (fun r => σ r.node)) := by
    rw [List.map_map]; rfl
  have h2 : T.arrs.map (fun p => (n.arrs p.1).map (fun r => σ r.node)) =
      (T.arrs.map (fun p => n.arrs p.1)).map (List.map (fun r => σ r.node)) := by
    rw [List.map_map]; rfl
  rw [h1, h2, filterMap_id_map_map, flatten_map_map]
  simp only [Node.refs, List.map_append]
  have e1 : (T.scal.map (fun p => n.scal p.1)).filterMap id = T.scal.filterMap (fun p => n.scal p.1) := by
    rw [List.filterMap_map]; rfl
  have e2 : (T.arrs.map (fun p => n.arrs p.1)).flatten = T.arrs.flatMap (fun p => n.arrs p.1) := by
    rw [List.flatMap_def]
  rw [e1, e2]

theorem shapes_eq {T : NodeType} (n : GraphIO.Node V) (σ τ : Id → Nat) :
    shapeS (T.scal.map (fun p => (n.scal p.1).map (fun r => σ r.node))) =
      shapeS (T.scal.map (fun p => (n.scal p.1).map (fun r => τ r.node))) ∧
    shapeA (T.arrs.map (fun p => (n.arrs p.1).map (fun r => σ r.node))) =
      shapeA (T.arrs.map (fun p => (n.arrs p.1).map (fun r => τ r.node))) := by
  constructor
  · simp only [shapeS, List.map_map]
    apply List.map_congr_left
    intro p _
    simp only [Function.comp]
    cases n.scal p.1 <;> rfl
  · simp only [shapeA, List.map_map]
    apply List.map_congr_left
    intro p _
    simp [Function.comp]

/-- every reference of a well-formed node points to a node of the graph -/
theorem ref_live {E : Env V J} {g : Graph V} {n : GraphIO.Node V} {T : NodeType} (hn : NodeWF E g n)
    (hT : E.types n.ty = some T) {r : Ref} (hr : r ∈ n.refs T) : ∃ s ∈ g.nodes, s.id = r.node := by
  obtain ⟨_, T', hT', hs, ha, _⟩ := hn
  obtain rfl : T' = T := by rw [hT] at hT'; exact (Option.some.inj hT').symm
  simp only [Node.refs, List.mem_append, List.mem_filterMap, List.mem_flatMap] at hr
  rcases hr with ⟨p, _, hp⟩ | ⟨p, _, hp⟩
  · obtain ⟨_, _, _, s, hs', hid, _⟩ := hs p.1 r hp
    exact ⟨s, hs', hid⟩
  · obtain ⟨_, _, _, s, hs', hid, _⟩ := ha p.1 r hp
    exact ⟨s, hs', hid⟩

/-! ### the from-scratch value does not depend on the numbering -/

theorem specPullS_corr {ev1 ev2 : Nat → W} (next : List (Option W) → Option Nat) {ds1 ds2 : List Nat}
    (hlen : ds1.length = ds2.length)
    (h : ∀ (k d1 d2 : Nat), ds1[k]? = some d1 → ds2[k]? = some d2 → ev1 d1 = ev2 d2) (n : Nat) (es : List (Option W)) :
    Nodes.specPullS ev1 next ds1 n es = Nodes.specPullS ev2 next ds2 n es := by
  induction n generalizing es with
  | zero => rfl
  | succ n ih =>
    simp only [Nodes.specPullS]
    split
    · rfl
    · rename_i k _
      cases h1 : ds1[k]? with
      | none =>
        have : ds2[k]? = none := by
          rw [List.getElem?_eq_none_iff] at h1 ⊢; omega
        simp [this]
      | some d1 =>
        have hk : k < ds2.length := by
          have := (List.getElem?_eq_some_iff.mp h1).1; omega
        have h2 : ds2[k]? = some ds2[k] := List.getElem?_eq_getElem hk
        simp only [h2]
        rw [h k d1 _ h1 h2]
        exact ih _

/-- two runtime graphs that hold the same edited graph under two numberings give every node the same from-scratch
    value -/
theorem spec_corr {P : Procs V W} {E : Env V J} {g : Graph V} (hw : WF E g) {F : Nat}
    {σ1 σ2 : Id → Nat} {G1 G2 : Nodes.Graph W} {rank1 rank2 : Nat → Nat}
    (h1 : Holds P E σ1 G1 g) (h2 : Holds P E σ2 G2 g)
    (hr1 : Nodes.Ranked rank1 F G1) (hr2 : Nodes.Ranked rank2 F G2) :
    ∀ n ∈ g.nodes, Nodes.Spec F G1 (σ1 n.id) = Nodes.Spec F G2 (σ2 n.id) := by
  intro n hn
  induction hk : rank1 (σ1 n.id) using Nat.strongRecOn generalizing n with
  | _ k ih =>
    rw [Nodes.Spec_eq G1 hr1, Nodes.Spec_eq G2 hr2]
    have e1 := h1 n hn
    have e2 := h2 n hn
    obtain ⟨_, T, hT, _⟩ := hw.nodes n hn
    unfold absNode at e1 e2
    rw [hT] at e1 e2
    cases hp : T.param with
    | some kd =>
      simp only [hp] at e1 e2
      cases hG1 : G1 (σ1 n.id) with
      | struct s => simp [hG1, looseEq] at e1
      | param x v =>
        cases hG2 : G2 (σ2 n.id) with
        | struct s => simp [hG2, looseEq] at e2
        | param y w =>
          simp only [hG1, hG2, looseEq] at e1 e2
          simp only [e1, e2]
    | none =>
      simp only [hp] at e1 e2
      cases hG1 : G1 (σ1 n.id) with
      | param x v => simp [hG1, looseEq] at e1
      | struct s1 =>
        cases hG2 : G2 (σ2 n.id) with
        | param y w => simp [hG2, looseEq] at e2
        | struct s2 =>
          simp only [hG1, hG2, looseEq] at e1 e2
          obtain ⟨f1, n1, sc1, ar1⟩ := e1
          obtain ⟨f2, n2, sc2, ar2⟩ := e2
          have hd1 : s1.deps = (n.refs T).map (fun r => σ1 r.node) := by
            simp only [Nodes.SNode.deps, sc1, ar1]; exact abs_deps n σ1
          have hd2 : s2.deps = (n.refs T).map (fun r => σ2 r.node) := by
            simp only [Nodes.SNode.deps, sc2, ar2]; exact abs_deps n σ2
          obtain ⟨hs, ha⟩ := shapes_eq (T := T) n σ1 σ2
          simp only
          rw [f1, n1, f2, n2, sc1, ar1, sc2, ar2, hd1, hd2]
          simp only [List.length_map]
          rw [hs, ha]
          congr 1
          apply specPullS_corr
          · simp
          · intro k d1 d2 hk1 hk2
            simp only [List.getElem?_map, Option.map_eq_some_iff] at hk1 hk2
            obtain ⟨r, hr, rfl⟩ := hk1
            obtain ⟨r', hr', rfl⟩ := hk2
            rw [hr] at hr'
            cases hr'
            obtain ⟨s, hs', hid⟩ := ref_live (hw.nodes n hn) hT (List.mem_of_getElem? hr)
            rw [← hid]
            have hlt : rank1 (σ1 s.id) < rank1 (σ1 n.id) := by
              apply hr1.2 _ s1 hG1
              rw [hd1, hid]
              exact List.mem_map.mpr ⟨r, List.mem_of_getElem? hr, rfl⟩
            exact ih _ (hk ▸ hlt) s hs' rfl

/-! ### the list-position numbering -/

theorem findIdx_of_mem {l : List (GraphIO.Node V)} (hnd : (l.map (·.id)).Nodup) {n : GraphIO.Node V} (hn : n ∈ l) :
    l[l.findIdx (fun m => m.id = n.id)]? = some n := by
  induction l with
  | nil => cases hn
  | cons x xs ih =>
    simp only [List.map_cons, List.nodup_cons] at hnd
    rcases List.mem_cons.mp hn with rfl | hn'
    · simp [List.findIdx_cons]
    · have : x.id ≠ n.id := fun e => hnd.1 (e ▸ List.mem_map.mpr ⟨n, hn', rfl⟩)
      simp [List.findIdx_cons, this, ih hnd.2 hn']

theorem absGraph_at {P : Procs V W} {E : Env V J} {g : Graph V} (hnd : (g.nodes.map (·.id)).Nodup)
    {n : GraphIO.Node V} (hn : n ∈ g.nodes) : absGraph P E g (idxOf g n.id) = absNode P E (idxOf g) n := by
  simp only [absGraph, idxOf, findIdx_of_mem hnd hn]

theorem absGraph_holds (P : Procs V W) (E : Env V J) {g : Graph V} (hnd : (g.nodes.map (·.id)).Nodup) :
    Holds P E (idxOf g) (absGraph P E g) g := by
  intro n hn
  rw [absGraph_at hnd hn]
  exact looseEq.refl _

/-- acyclicity does not depend on the numbering either: a ranking of a runtime graph that holds `g` ranks `absGraph g` -/
theorem absGraph_ranked {P : Procs V W} {E : Env V J} {g : Graph V} (hw : WF E g) {F : Nat} {σ : Id → Nat}
    {G : Nodes.Graph W} {rank : Nat → Nat} (h : Holds P E σ G g) (hr : Nodes.Ranked rank F G) :
    Nodes.Ranked (fun i => match g.nodes[i]? with | some n => rank (σ n.id) | none => 0) F (absGraph P E g) := by
  refine ⟨?_, ?_⟩
  · intro i
    show (match g.nodes[i]? with | some n => rank (σ n.id) | none => 0) < F
    cases g.nodes[i]? with
    | none => have := hr.1 0; simp only; omega
    | some n => exact hr.1 _
  · intro i s hs d hd
    simp only [absGraph] at hs
    cases hi : g.nodes[i]? with
    | none => simp [hi] at hs
    | some n =>
      have hn : n ∈ g.nodes := List.mem_of_getElem? hi
      obtain ⟨_, T, hT, _⟩ := hw.nodes n hn
      simp only [hi, absNode, hT] at hs
      cases hp : T.param with
      | some k => simp [hp] at hs
      | none =>
        simp only [hp, Nodes.Node.struct.injEq] at hs
        have hdeps : s.deps = (n.refs T).map (fun r => idxOf g r.node) := by
          rw [← hs]; simp only [Nodes.SNode.deps]; exact abs_deps n (idxOf g)
        rw [hdeps] at hd
        obtain ⟨r, hr', rfl⟩ := List.mem_map.mp hd
        obtain ⟨m, hm, hid⟩ := ref_live (hw.nodes n hn) hT hr'
        have hm' : g.nodes[idxOf g r.node]? = some m := by
          rw [← hid]; exact findIdx_of_mem hw.nodup hm
        show (match g.nodes[idxOf g r.node]? with | some n => rank (σ n.id) | none => 0) <
          (match g.nodes[i]? with | some n => rank (σ n.id) | none => 0)
        simp only [hm', hi]
        -- in the runtime graph, `σ m.id` is a dependency of `σ n.id`
        have e := h n hn
        simp only [absNode, hT, hp] at e
        cases hG : G (σ n.id) with
        | param x v => simp [hG, looseEq] at e
        | struct t =>
          simp only [hG, looseEq] at e
          apply hr.2 _ t hG
          simp only [Nodes.SNode.deps, e.2.2.1, e.2.2.2]
          rw [abs_deps n σ, hid]
          exact List.mem_map.mpr ⟨r, hr', rfl⟩

theorem findIdx_map_aux {α β : Type} (f : α → β) (p : β → Bool) (l : List α) :
    (l.map f).findIdx p = l.findIdx (p ∘ f) := by
  induction l with
  | nil => rfl
  | cons a as ih => simp [List.findIdx_cons, ih]

/-- `norm` (what a reload changes) is invisible to evaluation -/
theorem absGraph_norm (P : Procs V W) (E : Env V J) (g : Graph V) : absGraph P E g.norm = absGraph P E g := by
  have hidx : idxOf g.norm = idxOf g := by
    funext id
    simp only [idxOf, Graph.norm, findIdx_map_aux]
    congr 1
  funext i
  simp only [absGraph, Graph.norm, List.getElem?_map]
  cases hn : g.nodes[i]? with
  | none => rfl
  | some n =>
    simp only [Option.map_some]
    show absNode P E (idxOf g.norm) n.norm = absNode P E (idxOf g) n
    rw [hidx]
    simp only [absNode, Node.norm]
    cases hT : E.types n.ty with
    | none => rfl
    | some T =>
      simp only
      cases hk : T.param with
      | none => rfl
      | some k =>
        simp only
        congr 2
        cases n.par with
        | none => rfl
        | some p => simp [Param.norm_value]

theorem absGraph_unprocessed (P : Procs V W) (E : Env V J) (g : Graph V) :
    ∀ i s, absGraph P E g i = .struct s → s.remembered = none := by
  intro i s hs
  simp only [absGraph] at hs
  cases hn : g.nodes[i]? with
  | none => simp [hn] at hs
  | some n =>
    simp only [hn, absNode] at hs
    split at hs
    · cases hs
    · split at hs
      · cases hs
      · cases hs; rfl

end C12
end PolyVerif
