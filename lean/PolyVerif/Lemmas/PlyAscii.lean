/-
  The ASCII encoding: what the library writer prints, under the reader's line scanner, `strings.Fields`, the
  per-property readers and the list readers.  Core Lean only.

  ONE named trusted law bundle enters: `GoFloatText c` — what Go's strconv does to the number texts the writer prints
  (see its docstring).  Everything else (lines, tokens, integers, positions, assembly) is proved.
-/
import PolyVerif.Model.Ply
import PolyVerif.Lemmas.Ply
import PolyVerif.Lemmas.PlyHeader
import PolyVerif.Lemmas.PlyCompose
import PolyVerif.Lemmas.PlyNames
import PolyVerif.Lemmas.PlyUV

namespace PolyVerif
namespace PlyAscii
open Ply PlyLemmas PlyHeader PlyCompose

variable {α : Type}

/-- THE TRUSTED LAW OF THE FLOAT TEXT (Go `strconv`, as used by formats/ply):
* `tokF`, `tokI`: `strconv.AppendFloat(v,'f',-1,64)` and `strconv.AppendInt(int64(v),10)` print a non-empty text without
  white space;
* `parse32_showF`: `strconv.ParseFloat(strconv.FormatFloat(v,'f',-1,64), 32)`, which is what EVERY ASCII vertex reader
  calls whatever the declared type, returns the float32 image of `v` — the same value the binary `float` path stores and
  reads (`float64(float32(v))`; the law ignores the double-rounding corner cases of parsing a shortest-float64 text at 32 bits);
* `parse32_showI`: the integer text parses (at bit size 32) to SOME value `imgI v`; it is the float32 image of
  `int64(v)`, NOT in general the binary `int` image (known finding C08 ascii-float32-precision);
* `parse32_showU8`: the texts `0 … 255` parse to those numbers;
* `parse64_showF`: `strconv.ParseFloat(FormatFloat(v,'f',-1,64), 64) = v` (shortest round-trip text): the ASCII face
  reader keeps texture coordinates at float64 precision (the binary one narrows to float32).
The driver's `Coding Float` instance is corresponded with strconv on every run; the law itself is not proved. -/
structure GoFloatText (c : Coding α) where
  imgI : α → α
  tokF : ∀ v, Tok (c.showF v)
  tokI : ∀ v, Tok (c.showI v)
  parse32_showF : ∀ v, c.parseF (c.showF v) = some (c.unf32 (c.f32 v))
  parse32_showI : ∀ v, c.parseF (c.showI v) = some (imgI v)
  parse32_showU8 : ∀ n : Nat, n < 256 → c.parseF (showNat n) = some (c.ofInt n)
  parse64_showF : ∀ v, c.parseF64 (c.showF v) = some v

/-! ## lines: `bufio.ScanLines` over what the writer prints -/

/-- a printed line: no LF inside, not ending in CR (so `dropCR` keeps it), non-empty -/
structure PLine (l : Bytes) : Prop where
  noLF : ∀ b ∈ l, b ≠ 10
  noCR : dropCR l = l
  ne : l ≠ []

theorem scanLines_go_line (l : Bytes) (hl : ∀ b ∈ l, b ≠ 10) : ∀ (rest cur : Bytes),
    scanLines.go (l ++ 10 :: rest) cur = dropCR (cur.reverse ++ l) :: scanLines.go rest [] := by
  induction l with
  | nil => intro rest cur; simp [scanLines.go]
  | cons b l ih =>
    intro rest cur
    have hb := hl b (by simp)
    simp only [List.cons_append, scanLines.go, hb, if_false]
    rw [ih (fun x hx => hl x (by simp [hx]))]
    simp

theorem scanLines_flat : ∀ (ls : List Bytes), (∀ l ∈ ls, PLine l) → scanLines (flatLines ls) = ls := by
  intro ls
  induction ls with
  | nil => intro _; simp [scanLines, flatLines, scanLines.go]
  | cons l ls ih =>
    intro h
    have hl := h l (by simp)
    have := ih (fun x hx => h x (by simp [hx]))
    simp only [scanLines] at this ⊢
    rw [flatLines_cons, scanLines_go_line l hl.noLF]
    simp [hl.noCR, this]

theorem filter_nonempty_plines (ls : List Bytes) (h : ∀ l ∈ ls, PLine l) :
    ls.filter (fun l => ¬ l.isEmpty) = ls := by
  apply List.filter_eq_self.mpr
  intro l hl
  have := (h l hl).ne
  cases l <;> simp_all

/-! ## tokens: `strings.Fields` over blank-joined tokens -/

theorem fields_intercalate : ∀ (toks : List Bytes), (∀ t ∈ toks, Tok t) → fields (intercalate sp toks) = toks := by
  intro toks
  induction toks with
  | nil => intro _; rfl
  | cons t toks ih =>
    intro h
    have ht := h t (by simp)
    cases toks with
    | nil => simp [intercalate, fields, fields_tok_end t ht]
    | cons u us =>
      have := ih (fun x hx => h x (by simp [hx]))
      simp only [intercalate, fields, sp, List.append_assoc, List.singleton_append] at this ⊢
      rw [fields_tok_sp t ht, this]

theorem dropCR_id (l : Bytes) (h : ∀ r, l.reverse ≠ 13 :: r) : dropCR l = l := by
  unfold dropCR
  split
  · rename_i r heq; exact absurd heq (h r)
  · rfl

theorem tok_rev_ne_cr (t : Bytes) (ht : Tok t) (pre : Bytes) : ∀ r, (pre ++ t).reverse ≠ 13 :: r := by
  intro r heq
  have hsp : isSpace 13 = true := by decide
  cases hr : t.reverse with
  | nil => have : t = [] := by simpa using hr
           exact ht.1 this
  | cons b r' =>
    rw [List.reverse_append, hr] at heq
    simp at heq
    have hb : b ∈ t := by
      have : b ∈ t.reverse := by rw [hr]; simp
      simpa using this
    have := ht.2 b hb
    rw [heq.1, hsp] at this
    exact absurd this (by simp)

theorem tok_last_not_space (t : Bytes) (ht : Tok t) : dropCR t = t :=
  dropCR_id t (by have := tok_rev_ne_cr t ht []; simpa using this)

theorem intercalate_last (toks : List Bytes) (hne : toks ≠ []) (h : ∀ t ∈ toks, Tok t) :
    ∃ pre t, Tok t ∧ intercalate sp toks = pre ++ t ∧ intercalate sp toks ≠ [] := by
  induction toks with
  | nil => exact absurd rfl hne
  | cons t toks ih =>
    cases toks with
    | nil =>
      have ht := h t (by simp)
      exact ⟨[], t, ht, by simp [intercalate], by simp [intercalate]; exact ht.1⟩
    | cons u us =>
      obtain ⟨pre, t', ht', he, _⟩ := ih (by simp) (fun x hx => h x (by simp [hx]))
      refine ⟨t ++ sp ++ pre, t', ht', by simp [intercalate, he, List.append_assoc], ?_⟩
      have := (h t (by simp)).1
      simp [intercalate]; exact fun h' => absurd h' this

theorem dropCR_append_tok (pre t : Bytes) (ht : Tok t) : dropCR (pre ++ t) = pre ++ t :=
  dropCR_id _ (tok_rev_ne_cr t ht pre)

/-- a line of blank-joined tokens is a printed line whose fields are the tokens -/
theorem token_line (toks : List Bytes) (hne : toks ≠ []) (h : ∀ t ∈ toks, Tok t) :
    PLine (intercalate sp toks) ∧ fields (intercalate sp toks) = toks := by
  obtain ⟨pre, t, ht, he, hnn⟩ := intercalate_last toks hne h
  refine ⟨⟨?_, by rw [he]; exact dropCR_append_tok pre t ht, hnn⟩, fields_intercalate toks h⟩
  -- no LF: every byte is a token byte or a blank
  have : ∀ (ts : List Bytes), (∀ t ∈ ts, Tok t) → ∀ b ∈ intercalate sp ts, b ≠ 10 := by
    intro ts
    induction ts with
    | nil => intro _ b hb; simp [intercalate] at hb
    | cons x xs ih =>
      intro hx b hb
      cases xs with
      | nil =>
        simp [intercalate] at hb
        exact (tok_no_nl x (hx x (by simp)) b hb).1
      | cons y ys =>
        simp only [intercalate, List.mem_append, sp, List.mem_cons, List.not_mem_nil, or_false] at hb
        rcases hb with (hb | hb) | hb
        · exact (tok_no_nl x (hx x (by simp)) b hb).1
        · subst hb; decide
        · exact ih (fun t ht => hx t (by simp [ht])) b hb
  exact this toks h

/-! ## integers at 32 bits -/

theorem parseInt32_showInt (n : Nat) (hn : n < 2 ^ 31) : parseInt32 (showInt (n : Int)) = some (n : Int) := by
  obtain ⟨ds, hds, ht, hp⟩ := showNat_spec n
  have hnn : ¬ ((n : Int) < 0) := by omega
  have hh := showNat_head n
  rw [hds] at hh
  simp only [showInt, hnn, if_false, Int.natAbs_natCast, hds, parseInt32, parseIntBits]
  cases ds with
  | nil => exact absurd rfl ht.1
  | cons b bs =>
    have hb := hh b rfl
    have h45 : b ≠ 45 := by intro h; subst h; revert hb; decide
    have h43 : b ≠ 43 := by intro h; subst h; revert hb; decide
    split
    · rename_i r heq; simp at heq; exact absurd heq.1 h45
    · rename_i r heq; simp at heq; exact absurd heq.1 h43
    · rename_i r
      simp only [List.isEmpty_cons, Bool.false_eq_true, if_false, hp]
      have h31 : (n : Int) < 2147483648 := by omega
      have : (-(2 ^ (32 - 1) : Int) ≤ (n : Int) ∧ (n : Int) < 2 ^ (32 - 1)) := by
        constructor <;> omega
      simp [this, h31]

theorem showInt_tok (n : Nat) : Tok (showInt (n : Int)) := by
  rw [showInt_nat]; exact showNat_tok n

/-! ## what `writeBody` prints (ASCII), as data -/

theorem writeBody_ascii_parts (c : Coding α) (cfg : WriterCfg) (m : MeshVal α) (body : Bytes)
    (hf : cfg.format = .ascii) (h : writeBody c cfg m = .ok body) :
    ∃ (recs : List (List α)) (vbytes : List Bytes) (faceBytes : Bytes),
      (List.range m.attrLen).mapM (vertexRecord m (selectWriters cfg m)) = .ok recs ∧
      All2 (fun vals rec => encRecordAscii c (writerTypes (selectWriters cfg m)) vals = .ok rec) recs vbytes ∧
      body = vbytes.flatten ++ faceBytes ∧
      (m.topo ≠ .triangle → faceBytes = []) ∧
      (m.topo = .triangle → ∃ fs, faceRecords m (chunk3Floor m.indices) = .ok fs ∧
        faceBytes = (fs.map (encFaceAscii c)).flatten) := by
  obtain ⟨_, h⟩ := writeBody_core_of_ok c cfg m body h
  simp only [writeBodyCore] at h
  cases hrecs : (List.range m.attrLen).mapM (vertexRecord m (selectWriters cfg m)) with
  | error e => simp [hrecs, bind, Except.bind] at h
  | ok recs =>
    simp only [hrecs, bind, Except.bind, hf] at h
    cases hv : recs.mapM (fun r => encRecordAscii c (writerTypes (selectWriters cfg m)) r) with
    | error e => simp [hv] at h
    | ok vbytes =>
      simp only [hv] at h
      have hall := mapM_ok_forall₂ _ _ _ hv
      by_cases htri : m.topo = .triangle
      · simp only [htri, ne_eq, not_true_eq_false, if_false] at h
        cases hfs : faceRecords m (chunk3Floor m.indices) with
        | error e => simp [hfs] at h
        | ok fs =>
          simp [hfs, pure, Except.pure] at h
          exact ⟨recs, vbytes, _, rfl, hall, h.symm, fun hne => absurd htri hne, fun _ => ⟨fs, rfl, rfl⟩⟩
      · simp [htri, pure, Except.pure] at h
        exact ⟨recs, vbytes, [], rfl, hall, by simp [h], fun _ => rfl, fun ht => absurd ht htri⟩

/-- the tokens of one printed vertex record -/
theorem encRecordAscii_toks (c : Coding α) (tys : List SType) (vals : List α) (rec : Bytes)
    (h : encRecordAscii c tys vals = .ok rec) :
    ∃ toks, (tys.zip vals).mapM (fun (p : SType × α) => encScalarAscii c p.1 p.2) = .ok toks ∧
      rec = (if toks = [] then [] else intercalate sp toks ++ nl) := by
  simp only [encRecordAscii] at h
  cases ht : (tys.zip vals).mapM (fun (p : SType × α) => encScalarAscii c p.1 p.2) with
  | error e => simp [ht, bind, Except.bind] at h
  | ok toks =>
    simp [ht, bind, Except.bind, pure, Except.pure] at h
    exact ⟨toks, rfl, h.symm⟩

theorem encScalarAscii_tok (c : Coding α) (L : GoFloatText c) (t : SType) (v : α) (tok : Bytes)
    (h : encScalarAscii c t v = .ok tok) : Tok tok ∧ ∃ y, c.parseF tok = some y := by
  cases t <;> simp [encScalarAscii] at h <;> subst h
  · exact ⟨showNat_tok _, _, L.parse32_showU8 _ (c.u8 v).toNat_lt⟩
  · exact ⟨L.tokI v, _, L.parse32_showI v⟩
  · exact ⟨L.tokI v, _, L.parse32_showI v⟩
  · exact ⟨L.tokI v, _, L.parse32_showI v⟩
  · exact ⟨L.tokI v, _, L.parse32_showI v⟩
  · exact ⟨L.tokF v, _, L.parse32_showF v⟩
  · exact ⟨L.tokF v, _, L.parse32_showF v⟩


/-! ## one printed vertex line under the per-property readers -/

/-- an ASCII reader: its columns are the header positions `idxs`, and it normalises 8-bit values exactly when its
properties are `uchar` (true for the vector readers; for the scalar reader, which never learns the type — known finding —
only when the property is not `uchar`) -/
structure LocatedA (tys : List SType) (b : Built) (idxs : List Nat) : Prop where
  offs : b.offs = idxs
  inr : ∀ i ∈ idxs, ∃ h : i < tys.length, (b.ty = some .uchar ↔ tys[i] = .uchar)

def rowOfA (c : Coding α) (tys : List SType) (bl : List (Built × List Nat)) (vals : List α) : List (List α) :=
  bl.map (fun p => p.2.filterMap (fun i =>
    match tys[i]?, vals[i]? with
    | some t, some v => quant c .ascii p.1.names.length t v
    | _, _ => none))

theorem toks_at (c : Coding α) (tys : List SType) (vals : List α) (toks : List Bytes) (hv : vals.length = tys.length)
    (ht : (tys.zip vals).mapM (fun (p : SType × α) => encScalarAscii c p.1 p.2) = .ok toks) :
    toks.length = tys.length ∧ ∀ i (hi : i < tys.length) (hi' : i < vals.length) (hi'' : i < toks.length),
      encScalarAscii c tys[i] vals[i] = .ok toks[i] := by
  have hall := mapM_ok_forall₂ _ _ _ ht
  have hlen : toks.length = tys.length := by
    have := hall.length_eq; simp [hv] at this; exact this
  refine ⟨hlen, ?_⟩
  intro i hi hi' hi''
  have := PlyCompose.All2.get hall i (by simp; omega) hi''
  simpa using this

def colRead (c : Coding α) (toks : List Bytes) (o : Nat) : R α :=
  match toks[o]? with
  | none => .error .panic
  | some t => match c.parseF t with | none => .error .err | some v => .ok v

theorem readAscii_eq (c : Coding α) (b : Built) (toks : List Bytes) :
    b.readAscii c toks = (do
      let vals ← b.offs.mapM (colRead c toks)
      pure (if b.ty = some .uchar then vals.map (c.norm8 b.names.length) else vals)) := rfl

theorem readAscii_located (c : Coding α) (L : GoFloatText c) (tys : List SType) (vals : List α) (toks : List Bytes)
    (hv : vals.length = tys.length)
    (ht : (tys.zip vals).mapM (fun (p : SType × α) => encScalarAscii c p.1 p.2) = .ok toks)
    (b : Built) (idxs : List Nat) (hl : LocatedA tys b idxs) :
    b.readAscii c toks = .ok (idxs.filterMap (fun i =>
      match tys[i]?, vals[i]? with
      | some t, some v => quant c .ascii b.names.length t v
      | _, _ => none)) := by
  obtain ⟨hlen, hat⟩ := toks_at c tys vals toks hv ht
  -- per column: the token parses, and `quant` is the parsed value, normalised iff the reader normalises
  have hcol : ∀ i ∈ idxs, ∃ y, colRead c toks i = .ok y ∧
      (match tys[i]?, vals[i]? with
        | some t, some v => quant c .ascii b.names.length t v
        | _, _ => none) = some (if b.ty = some .uchar then c.norm8 b.names.length y else y) := by
    intro i hi
    obtain ⟨hit, hiff⟩ := hl.inr i hi
    have hiv : i < vals.length := by omega
    have hik : i < toks.length := by omega
    have henc := hat i hit hiv hik
    obtain ⟨_, y, hy⟩ := encScalarAscii_tok c L _ _ _ henc
    refine ⟨y, by simp [colRead, List.getElem?_eq_getElem hik, hy], ?_⟩
    simp only [List.getElem?_eq_getElem hit, List.getElem?_eq_getElem hiv, quant, henc, hy, Option.map_some]
    by_cases hu : tys[i] = .uchar
    · simp [hu, hiff.mpr hu]
    · have : ¬ b.ty = some .uchar := fun h => hu (hiff.mp h)
      simp [hu, this]
  rw [readAscii_eq, hl.offs]
  have hmap : ∀ (l : List Nat), (∀ i ∈ l, i ∈ idxs) →
      ∃ ys, l.mapM (colRead c toks) = .ok ys ∧
      l.filterMap (fun i => match tys[i]?, vals[i]? with
        | some t, some v => quant c .ascii b.names.length t v
        | _, _ => none) = ys.map (fun y => if b.ty = some .uchar then c.norm8 b.names.length y else y) := by
    intro l
    induction l with
    | nil => intro _; exact ⟨[], rfl, rfl⟩
    | cons i l ih =>
      intro hsub
      obtain ⟨y, h1, h2⟩ := hcol i (hsub i (by simp))
      obtain ⟨ys, h3, h4⟩ := ih (fun j hj => hsub j (by simp [hj]))
      refine ⟨y :: ys, ?_, ?_⟩
      · rw [List.mapM_cons, h1, h3]; rfl
      · simp [List.filterMap_cons, h2, h4]
  obtain ⟨ys, h1, h2⟩ := hmap idxs (fun i hi => hi)
  rw [h1, h2]
  by_cases hu : b.ty = some .uchar <;> simp [hu, bind, Except.bind, pure, Except.pure]


/-! ## the printed vertex block under the reader's vertex loop -/

theorem writer_vertex_block_ascii (c : Coding α) (L : GoFloatText c) (tys : List SType) (htys : tys ≠ [])
    (bl : List (Built × List Nat)) (hbl : ∀ p ∈ bl, LocatedA tys p.1 p.2) :
    ∀ (recs : List (List α)) (encs : List Bytes),
      All2 (fun vals rec => encRecordAscii c tys vals = .ok rec) recs encs →
      (∀ vals ∈ recs, vals.length = tys.length) →
      ∃ vlines, encs.flatten = flatLines vlines ∧ (∀ l ∈ vlines, PLine l) ∧
        ∀ rest, readVertsAscii c tys.length (bl.map (·.1)) recs.length (vlines ++ rest)
          = .ok (recs.map (rowOfA c tys bl), rest) := by
  intro recs encs hall
  induction hall with
  | nil => intro _; exact ⟨[], rfl, by simp, fun rest => by simp [readVertsAscii]⟩
  | @cons vals rec recs encs hxy _ ih =>
    intro hlen
    have hv := hlen vals (by simp)
    obtain ⟨vlines, h1, h2, h3⟩ := ih (fun v hv' => hlen v (by simp [hv']))
    obtain ⟨toks, htoks, hrec⟩ := encRecordAscii_toks c tys vals rec hxy
    obtain ⟨htl, hat⟩ := toks_at c tys vals toks hv htoks
    have htne : toks ≠ [] := by
      intro h0; rw [h0] at htl; simp at htl; exact htys (List.length_eq_zero_iff.mp htl.symm)
    have htok : ∀ t ∈ toks, Tok t := by
      intro t ht
      obtain ⟨i, hi, rfl⟩ := List.getElem_of_mem ht
      exact (encScalarAscii_tok c L _ _ _ (hat i (by omega) (by omega) hi)).1
    obtain ⟨hpl, hfl⟩ := token_line toks htne htok
    simp only [htne, if_false] at hrec
    refine ⟨intercalate sp toks :: vlines, ?_, ?_, ?_⟩
    · simp [hrec, h1, flatLines_cons, nl]
    · intro l hl; simp at hl; rcases hl with rfl | hl
      · exact hpl
      · exact h2 l hl
    · intro rest
      have hrow : (bl.map (·.1)).mapM (fun b => b.readAscii c toks) = .ok (rowOfA c tys bl vals) := by
        clear ih h3
        induction bl with
        | nil => simp [rowOfA, pure, Except.pure]
        | cons p bl ihb =>
          have hp := readAscii_located c L tys vals toks hv htoks p.1 p.2 (hbl p (by simp))
          have h2' := ihb (fun q hq => hbl q (by simp [hq]))
          simp only [rowOfA] at h2' ⊢
          simp [List.mapM_cons, hp, h2', bind, Except.bind, pure, Except.pure]
      have hnot : ¬ ((fields (intercalate sp toks)).length < tys.length) := by rw [hfl, htl]; omega
      have hnot' : ¬ (toks.length < tys.length) := by omega
      simp only [List.cons_append, List.length_cons, readVertsAscii, hfl, hnot', if_false, hrow, h3 rest, bind,
        Except.bind, pure, Except.pure, List.map_cons]


/-! ## the printed face lines under the reader's face loop -/

def faceToks (c : Coding α) (f : WFace α) : List Bytes :=
  [nm "3", showInt f.idx.1, showInt f.idx.2.1, showInt f.idx.2.2] ++
  (match f.uv with
   | none => []
   | some uv => nm "6" :: uv.map c.showF)

/-- the face's indices are ordinary vertex numbers -/
def IdxOk (f : WFace α) : Prop :=
  ∃ a b d : Nat, f.idx = ((a : Int), (b : Int), (d : Int)) ∧ a < 2 ^ 31 ∧ b < 2 ^ 31 ∧ d < 2 ^ 31

theorem encFaceAscii_eq (c : Coding α) (f : WFace α) (hasTex : Bool) (huv : UvOk hasTex f) :
    encFaceAscii c f = intercalate sp (faceToks c f) ++ nl := by
  obtain ⟨⟨i0, i1, i2⟩, uv⟩ := f
  have h3 : nm "3 " = nm "3" ++ sp := by decide
  have h6 : nm " 6 " = sp ++ nm "6" ++ sp := by decide
  cases uv with
  | none => simp [encFaceAscii, faceToks, intercalate, h3, List.append_assoc]
  | some uv =>
    simp only [UvOk] at huv
    obtain ⟨_, hl⟩ := huv
    match uv, hl with
    | [v0, v1, v2, v3, v4, v5], _ =>
      simp [encFaceAscii, faceToks, intercalate, h3, h6, List.append_assoc]

def afterFaceA (f : WFace α) (b : FaceBufs α) : FaceBufs α :=
  { idx := overwrite b.idx [f.idx.1, f.idx.2.1, f.idx.2.2]
    tex := match f.uv with
      | none => b.tex
      | some uv => overwrite b.tex uv }

def faceUVA (f : WFace α) : List (List α) :=
  match f.uv with
  | none => []
  | some uv => [uv.take 2, (uv.drop 2).take 2, (uv.drop 4).take 2]

theorem readFaceAscii_written (c : Coding α) (L : GoFloatText c) (f : WFace α) (hasTex : Bool) (huv : UvOk hasTex f)
    (hidx : IdxOk f) (b : FaceBufs α) :
    readFaceAscii c (wlp hasTex) ⟨some 0, if hasTex then some 1 else none⟩ b (faceToks c f)
      = .ok (3, afterFaceA f b) := by
  obtain ⟨⟨i0, i1, i2⟩, uv⟩ := f
  obtain ⟨a, b', d, hi, ha, hb, hd⟩ := hidx
  simp only at hi
  obtain ⟨rfl, rfl, rfl⟩ : i0 = (a : Int) ∧ i1 = (b' : Int) ∧ i2 = (d : Int) := by
    have := Prod.mk.inj hi; have h2 := Prod.mk.inj this.2; exact ⟨this.1, h2.1, h2.2⟩
  have p3 : parseInt32 (nm "3") = some 3 := by decide
  have p6 : parseInt32 (nm "6") = some 6 := by decide
  have pa := parseInt32_showInt a ha
  have pb := parseInt32_showInt b' hb
  have pd := parseInt32_showInt d hd
  cases uv with
  | none =>
    simp only [UvOk] at huv
    subst huv
    simp [readFaceAscii, readFaceAscii.go, wlp, List.zipIdx, faceToks, p3, pa, pb, pd, afterFaceA, List.mapM_cons]
  | some uv =>
    simp only [UvOk] at huv
    obtain ⟨hT, hl⟩ := huv
    subst hT
    match uv, hl with
    | [v0, v1, v2, v3, v4, v5], _ =>
      simp [readFaceAscii, readFaceAscii.go, wlp, List.zipIdx, faceToks, p3, p6, pa, pb, pd, afterFaceA, List.mapM_cons,
        L.parse64_showF]

theorem emitFace_afterA (f : WFace α) (hasTex : Bool) (huv : UvOk hasTex f) (b : FaceBufs α) (hb : BufsOk b) :
    emitFace 3 hasTex (afterFaceA f b) = .ok ([f.idx.1, f.idx.2.1, f.idx.2.2], faceUVA f) ∧ BufsOk (afterFaceA f b) := by
  obtain ⟨⟨i0, i1, i2⟩, uv⟩ := f
  obtain ⟨idx, tex⟩ := b
  obtain ⟨hi, ht⟩ := hb
  simp only at hi ht
  match idx, hi, tex, ht with
  | [a0, a1, a2, a3], _, [t0, t1, t2, t3, t4, t5, t6, t7], _ =>
    cases uv with
    | none =>
      simp only [UvOk] at huv
      subst huv
      simp [emitFace, afterFaceA, overwrite, faceUVA, BufsOk]
    | some uv =>
      simp only [UvOk] at huv
      obtain ⟨hT, hl⟩ := huv
      subst hT
      match uv, hl with
      | [v0, v1, v2, v3, v4, v5], _ =>
        simp [emitFace, afterFaceA, overwrite, faceUVA, BufsOk]

theorem faceToks_tok (c : Coding α) (L : GoFloatText c) (f : WFace α) (hidx : IdxOk f) : ∀ t ∈ faceToks c f, Tok t := by
  obtain ⟨a, b, d, hi, _, _, _⟩ := hidx
  have t3 : Tok (nm "3") := ⟨by decide, by decide⟩
  have t6 : Tok (nm "6") := ⟨by decide, by decide⟩
  intro t ht
  simp only [faceToks, hi, List.mem_append, List.mem_cons, List.not_mem_nil, or_false] at ht
  rcases ht with (rfl | rfl | rfl | rfl) | ht
  · exact t3
  · exact showInt_tok a
  · exact showInt_tok b
  · exact showInt_tok d
  · cases huv : f.uv with
    | none => simp [huv] at ht
    | some uv =>
      simp only [huv, List.mem_cons, List.mem_map] at ht
      rcases ht with rfl | ⟨v, _, rfl⟩
      · exact t6
      · exact L.tokF v

theorem readFacesAscii_written (c : Coding α) (L : GoFloatText c) (hasTex : Bool) :
    ∀ (fs : List (WFace α)) (b : FaceBufs α), BufsOk b → (∀ f ∈ fs, UvOk hasTex f) → (∀ f ∈ fs, IdxOk f) →
      readFacesAscii c (wlp hasTex) ⟨some 0, if hasTex then some 1 else none⟩ fs.length b
          (fs.map (fun f => intercalate sp (faceToks c f)))
        = .ok ((fs.map (fun f => [f.idx.1, f.idx.2.1, f.idx.2.2])).flatten, (fs.map faceUVA).flatten) := by
  intro fs
  induction fs with
  | nil => intro b _ _ _; simp [readFacesAscii]
  | cons f fs ih =>
    intro b hb huv hidx
    have hne : faceToks c f ≠ [] := by simp [faceToks]
    obtain ⟨_, hfl⟩ := token_line (faceToks c f) hne (faceToks_tok c L f (hidx f (by simp)))
    have h1 := readFaceAscii_written c L f hasTex (huv f (by simp)) (hidx f (by simp)) b
    obtain ⟨h2, hb'⟩ := emitFace_afterA f hasTex (huv f (by simp)) b hb
    have h3 := ih (afterFaceA f b) hb' (fun g hg => huv g (by simp [hg])) (fun g hg => hidx g (by simp [hg]))
    have hT : (if hasTex then some 1 else (none : Option Nat)).isSome = hasTex := by cases hasTex <;> rfl
    simp only [List.map_cons, List.flatten_cons, List.length_cons, readFacesAscii, hfl, h1, bind, Except.bind, hT, h2, h3,
      pure, Except.pure]


/-! ## `readBody` for ASCII, stage by stage -/

/-- the face stage of an ASCII body, over the non-empty lines that follow the vertex lines -/
def faceStageAscii (c : Coding α) (fe : Option Element) (rest : List Bytes) :
    R (Option (List Int × List (List α))) :=
  match fe with
  | none => .ok none
  | some f =>
    match listProps f.props with
    | none => .error .err
    | some lp =>
      if (findFaceProps lp).idxProp.isNone then .error .err else do
        let r ← readFacesAscii c lp (findFaceProps lp) f.count.toNat ⟨[0, 0, 0, 0], List.replicate 8 (c.ofInt 0)⟩ rest
        pure (some r)

theorem readBody_ascii (c : Coding α) (cfg : ReaderCfg) (hdr : Header) (body : Bytes) (ve : Element)
    (ps : List (Bytes × SType)) (hfmt : hdr.format = .ascii)
    (hve : findElement hdr cfg.attributeElement = some ve) (hps : scalarProps ve.props = some ps)
    (hcount : 0 ≤ ve.count) :
    readBody c cfg hdr body = (do
      let built := buildAll false ps cfg.props cfg.loadUnspecified
      let (rows, rest) ← readVertsAscii c ps.length built ve.count.toNat
        ((scanLines body).filter (fun l => ¬ l.isEmpty))
      let idxUv ← faceStageAscii c (findElement hdr (nm "face")) rest
      assemble built ve.count.toNat rows idxUv) := by
  have hneg : ¬ (ve.count < 0) := by omega
  simp only [readBody, hve, hps, hneg, false_and, if_false, hfmt]
  have hb : (decide (Format.ascii ≠ Format.ascii)) = false := by decide
  simp only [hb]
  cases readVertsAscii c ps.length (buildAll false ps cfg.props cfg.loadUnspecified) ve.count.toNat
      ((scanLines body).filter (fun l => ¬ l.isEmpty)) with
  | error e => rfl
  | ok rr =>
    obtain ⟨rows, rest⟩ := rr
    simp only [bind, Except.bind, faceStageAscii]
    cases findElement hdr (nm "face") with
    | none => rfl
    | some f =>
      simp only []
      cases listProps f.props with
      | none => rfl
      | some lp =>
        simp only []
        by_cases hidx : (findFaceProps lp).idxProp.isNone = true
        · simp only [hidx, if_true]
        · simp only [hidx, if_false, Bool.false_eq_true]
          cases readFacesAscii c lp (findFaceProps lp) f.count.toNat ⟨[0, 0, 0, 0], List.replicate 8 (c.ofInt 0)⟩ rest <;> rfl

theorem chunk3Floor_of_chunk3 : ∀ (l : List Int) (t : List (Int × Int × Int)), chunk3 l = some t → chunk3Floor l = t
  | [], t, h => by simp [chunk3] at h; subst h; rfl
  | [_], _, h => by simp [chunk3] at h
  | [_, _], _, h => by simp [chunk3] at h
  | a :: b :: c :: rest, t, h => by
    simp only [chunk3, Option.map_eq_some_iff] at h
    obtain ⟨t', ht', rfl⟩ := h
    simp [chunk3Floor, chunk3Floor_of_chunk3 rest t' ht']

theorem chunk3_of_mod : ∀ (n : Nat) (l : List Int), l.length = 3 * n → ∃ t, chunk3 l = some t
  | 0, l, h => by have : l = [] := List.length_eq_zero_iff.mp (by simpa using h); subst this; exact ⟨[], rfl⟩
  | n + 1, l, h => by
    match l, h with
    | a :: b :: c :: rest, h =>
      obtain ⟨t, ht⟩ := chunk3_of_mod n rest (by simp at h; omega)
      exact ⟨(a, b, c) :: t, by simp [chunk3, ht]⟩

theorem WF_tri (m : MeshVal α) (hwf : m.WF = true) (htri : m.topo = .triangle) : ∃ t, chunk3 m.indices = some t := by
  simp only [MeshVal.WF, Bool.and_eq_true, Bool.or_eq_true, decide_eq_true_eq] at hwf
  have hmod : m.indices.length % 3 = 0 := by
    rcases hwf.2 with h | h
    · rw [htri] at h; simp at h
    · exact h
  exact chunk3_of_mod (m.indices.length / 3) m.indices (by omega)


theorem idxOk_of_wf (m : MeshVal α) (hwf : m.WF = true) (hsize : m.attrLen ≤ 2 ^ 31) (tris : List (Int × Int × Int))
    (hc : chunk3 m.indices = some tris) (fs : List (WFace α)) (hidx : fs.map (·.idx) = tris) : ∀ f ∈ fs, IdxOk f := by
  intro f hf
  have hfl := chunk3_flatten _ _ hc
  have hmem : ∀ i ∈ [f.idx.1, f.idx.2.1, f.idx.2.2], i ∈ m.indices := by
    intro i hi
    rw [hfl, ← hidx]
    simp only [List.map_map, List.mem_flatten, List.mem_map, Function.comp]
    exact ⟨[f.idx.1, f.idx.2.1, f.idx.2.2], ⟨f, hf, rfl⟩, hi⟩
  have h1 := WF_idx m hwf _ (hmem f.idx.1 (by simp))
  have h2 := WF_idx m hwf _ (hmem f.idx.2.1 (by simp))
  have h3 := WF_idx m hwf _ (hmem f.idx.2.2 (by simp))
  refine ⟨f.idx.1.toNat, f.idx.2.1.toNat, f.idx.2.2.toNat, ?_, by omega, by omega, by omega⟩
  have e0 : ((f.idx.1.toNat : Nat) : Int) = f.idx.1 := by omega
  have e1 : ((f.idx.2.1.toNat : Nat) : Int) = f.idx.2.1 := by omega
  have e2 : ((f.idx.2.2.toNat : Nat) : Int) = f.idx.2.2 := by omega
  rw [e0, e1, e2]

/-- STAGES 1+2, ASCII: reading back a printed body yields exactly these arrays and this index / UV list -/
theorem readBody_writeBody_arrays_ascii (c : Coding α) (L : GoFloatText c) (cfg : WriterCfg) (m : MeshVal α) (body : Bytes)
    (hf : cfg.format = .ascii) (hwf : m.WF = true) (h : writeBody c cfg m = .ok body)
    (htys : m.attrLen = 0 ∨ writerTypes (selectWriters cfg m) ≠ []) (hsize : m.attrLen ≤ 2 ^ 31)
    (bl : List (Built × List Nat))
    (hbuilt : bl.map (·.1) = buildAll false (headerProps (selectWriters cfg m)) defaultReaders true)
    (hloc : ∀ p ∈ bl, LocatedA (writerTypes (selectWriters cfg m)) p.1 p.2) :
    ∃ (recs : List (List α)),
      (List.range m.attrLen).mapM (vertexRecord m (selectWriters cfg m)) = .ok recs ∧
      (m.topo ≠ .triangle →
        readBody c defaultReader (writeHeader cfg m) body
          = assemble (bl.map (·.1)) m.attrLen (recs.map (rowOfA c (writerTypes (selectWriters cfg m)) bl)) none) ∧
      (m.topo = .triangle → ∃ tris fs, chunk3 m.indices = some tris ∧ faceRecords m tris = .ok fs ∧
        readBody c defaultReader (writeHeader cfg m) body
          = assemble (bl.map (·.1)) m.attrLen (recs.map (rowOfA c (writerTypes (selectWriters cfg m)) bl))
              (some (m.indices, (fs.map faceUVA).flatten))) := by
  obtain ⟨recs, vbytes, faceBytes, hrecs, hall, hbody, hpt, htri⟩ := writeBody_ascii_parts c cfg m body hf h
  have hrl := mapM_ok_forall₂ _ _ _ hrecs
  have hlen : recs.length = m.attrLen := by simpa using hrl.length_eq
  have hvl : ∀ vals ∈ recs, vals.length = (writerTypes (selectWriters cfg m)).length :=
    All2.forall_right (Q := fun r => r.length = (writerTypes (selectWriters cfg m)).length)
      (fun i r hir => vertexRecord_length m hwf i _ r hir) hrl
  -- the vertex lines
  obtain ⟨vlines, hv1, hv2, hv3⟩ : ∃ vlines, vbytes.flatten = flatLines vlines ∧ (∀ l ∈ vlines, PLine l) ∧
      ∀ rest, readVertsAscii c (writerTypes (selectWriters cfg m)).length (bl.map (·.1)) recs.length (vlines ++ rest)
        = .ok (recs.map (rowOfA c (writerTypes (selectWriters cfg m)) bl), rest) := by
    rcases htys with h0 | hne
    · have : recs = [] := by cases recs <;> simp_all
      subst this
      cases hall
      exact ⟨[], rfl, by simp, fun rest => by simp [readVertsAscii]⟩
    · exact writer_vertex_block_ascii c L _ hne bl hloc recs vbytes hall hvl
  have hfmt : (writeHeader cfg m).format = .ascii := hf
  have hve : findElement (writeHeader cfg m) defaultReader.attributeElement
      = some ⟨nm "vertex", m.attrLen, ((selectWriters cfg m).map WProp.props).flatten⟩ := findElement_vertex cfg m
  have hpl : (headerProps (selectWriters cfg m)).length = (writerTypes (selectWriters cfg m)).length := by
    rw [← headerProps_types]; simp
  refine ⟨recs, hrecs, ?_, ?_⟩
  · intro hne
    have hb : body = flatLines vlines := by rw [hbody, hpt hne, hv1]; simp
    rw [readBody_ascii c defaultReader (writeHeader cfg m) body _ (headerProps (selectWriters cfg m)) hfmt hve
      (scalarProps_headerProps _) (by simp)]
    have hlines : (scanLines body).filter (fun l => ¬ l.isEmpty) = vlines ++ [] := by
      rw [hb, scanLines_flat vlines hv2, filter_nonempty_plines vlines hv2]; simp
    simp only [defaultReader, ← hbuilt, hlines, hpl, Int.toNat_natCast, ← hlen, hv3 [], bind, Except.bind,
      findElement_face, hne, if_false, faceStageAscii]
  · intro ht
    obtain ⟨fs, hfs0, hfb⟩ := htri ht
    obtain ⟨tris, hc⟩ := WF_tri m hwf ht
    rw [chunk3Floor_of_chunk3 _ _ hc] at hfs0
    refine ⟨tris, fs, hc, hfs0, ?_⟩
    obtain ⟨hidx, huv⟩ := faceRecords_shape m hwf tris fs hfs0
    have hiok := idxOk_of_wf m hwf hsize tris hc fs hidx
    let flines := fs.map (fun f => intercalate sp (faceToks c f))
    have hfl : faceBytes = flatLines flines := by
      rw [hfb]
      simp only [flines, flatLines, List.map_map, Function.comp_def]
      congr 1
      apply List.map_congr_left
      intro f hf'
      rw [encFaceAscii_eq c f (hasTexCoord m) (huv f hf')]; simp [nl]
    have hfp : ∀ l ∈ flines, PLine l := by
      intro l hl
      simp only [flines, List.mem_map] at hl
      obtain ⟨f, hf', rfl⟩ := hl
      exact (token_line (faceToks c f) (by simp [faceToks]) (faceToks_tok c L f (hiok f hf'))).1
    have hb : body = flatLines (vlines ++ flines) := by rw [hbody, hv1, hfl, flatLines_append]
    have hall' : ∀ l ∈ vlines ++ flines, PLine l := by
      intro l hl; simp at hl; rcases hl with hl | hl
      · exact hv2 l hl
      · exact hfp l hl
    have hlines : (scanLines body).filter (fun l => ¬ l.isEmpty) = vlines ++ flines := by
      rw [hb, scanLines_flat _ hall', filter_nonempty_plines _ hall']
    have hcount : triCount m = fs.length := by
      have := chunk3_length _ _ hc
      have h2 : fs.length = tris.length := by rw [← hidx]; simp
      simp [triCount, h2, this]
    have hfaces := readFacesAscii_written c L (hasTexCoord m) fs ⟨[0, 0, 0, 0], List.replicate 8 (c.ofInt 0)⟩
      ⟨rfl, by simp⟩ huv hiok
    have hidxs : (fs.map (fun f => [f.idx.1, f.idx.2.1, f.idx.2.2])).flatten = m.indices := by
      rw [chunk3_flatten _ _ hc, ← hidx, List.map_map]; rfl
    rw [hidxs] at hfaces
    rw [readBody_ascii c defaultReader (writeHeader cfg m) body _ (headerProps (selectWriters cfg m)) hfmt hve
      (scalarProps_headerProps _) (by simp)]
    simp only [defaultReader, ← hbuilt, hlines, hpl, Int.toNat_natCast, ← hlen, hv3 flines, bind, Except.bind,
      findElement_face, ht, if_true, faceStageAscii, listProps_faceProps, findFaceProps_wlp, Option.isNone_some,
      Bool.false_eq_true, if_false, hcount, flines, hfaces, pure, Except.pure]


end PlyAscii
end PolyVerif
