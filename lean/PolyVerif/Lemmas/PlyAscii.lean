/-
  The ASCII encoding: what the library writer prints, under the reader's line scanner, `strings.Fields`, the
  per-property readers and the list readers.  Core Lean only.

  ONE named trusted law bundle enters: `GoFloatText c` — what Go's strconv does to the number texts the writer prints
  (see its docstring).  Everything else (lines, tokens, integers, positions, assembly) is proved.
-/
import PolyVerif.Model.Ply
import PolyVerif.Lemmas.Ply
import PolyVerif.Lemmas.PlyHeader
import PolyVerif.Lemmas.PlyCompose
import PolyVerif.Lemmas.PlyNames
import PolyVerif.Lemmas.PlyUV

namespace PolyVerif
namespace PlyAscii
open Ply PlyLemmas PlyHeader PlyCompose

variable {α : Type}

/-- THE TRUSTED LAW OF THE FLOAT TEXT (Go `strconv`, as used by formats/ply).  It asserts, for the number texts the writer
prints (`showF v` = `strconv.AppendFloat(v,'f',-1,64)`, `showI v` = `strconv.AppendInt(int64(v),10)`) and the parser
EVERY ASCII vertex reader calls whatever the declared type (`parseF s` = `strconv.ParseFloat(s, 32)` widened to float64):
* `tokF`, `tokI`: the printed text is non-empty and contains no white space;
* `parse32_showF`: `ParseFloat(FormatFloat(v,'f',-1,64), 32)` SUCCEEDS; its value is called `imgF v`.  Nothing more is
  assumed of `imgF` here.  (For Go, `imgF v = float64(float32(v))` for every `v` that is not EXACTLY half-way between two
  adjacent float32 values: the shortest round-tripping text lies within half a float64 ulp of `v`, hence on the same
  side of every float32 rounding boundary, these boundaries being float64 values other than `v`.  At an exact half-way
  value the text is rounded on its own: `v = 1 + 2⁻²⁴` prints as `1.0000000596046448` and parses at 32 bits to
  `1 + 2⁻²³`, while `float32(v) = 1` — observation "ascii float32 tie", witness op
  `c04.holds.ascii_float32_tie_witness`.  So the equation `imgF v = unf32 (f32 v)` is a GUARD of the agreement corollary
  (`AgreeGuards`), not part of the law.)
* `parse32_showI`: the integer text parses at bit size 32 to SOME value `imgI v` (for Go: the float32 image of
  `int64(v)`, NOT in general the binary `int` image — known finding C08 ascii-float32-precision);
* `parse32_showU8`: the texts `0 … 255` parse to those numbers;
* `parse64_showF`: `strconv.ParseFloat(FormatFloat(v,'f',-1,64), 64) = v` (shortest round-trip text): the ASCII face
  reader keeps texture coordinates at float64 precision (the binary one narrows to float32).
The driver's `Coding Float` instance is corresponded with strconv on every run; the law itself is not proved. -/
structure GoFloatText (c : Coding α) where
  inRange : α → Prop
  imgF : α → α
  imgI : α → α
  tokF : ∀ v, Tok (c.showF v)
  tokI : ∀ v, Tok (c.showI v)
  parse32_showF : ∀ v, inRange v → c.parseF (c.showF v) = some (imgF v)
  parse32_showI : ∀ v, c.parseF (c.showI v) = some (imgI v)
  parse32_showU8 : ∀ n : Nat, n < 256 → c.parseF (showNat n) = some (c.ofInt n)
  parse64_showF : ∀ v, c.parseF64 (c.showF v) = some v

/-! ## lines: `bufio.ScanLines` over what the writer prints -/

/-- a printed line: no LF inside, not ending in CR (so `dropCR` keeps it), non-empty -/
structure PLine (l : Bytes) : Prop where
  noLF : ∀ b ∈ l, b ≠ 10
  noCR : dropCR l = l
  ne : l ≠ []

theorem scanLines_go_line (l : Bytes) (hl : ∀ b ∈ l, b ≠ 10) : ∀ (rest cur : Bytes),
    scanLines.go (l ++ 10 :: rest) cur = dropCR (cur.reverse ++ l) :: scanLines.go rest [] := by
  induction l with
  | nil => intro rest cur; simp [scanLines.go]
  | cons b l ih =>
    intro rest cur
    have hb := hl b (by simp)
    simp only [List.cons_append, scanLines.go, hb, if_false]
    rw [ih (fun x hx => hl x (by simp [hx]))]
    simp

theorem scanLines_flat : ∀ (ls : List Bytes), (∀ l ∈ ls, PLine l) → scanLines (flatLines ls) = ls := by
  intro ls
  induction ls with
  | nil => intro _; simp [scanLines, flatLines, scanLines.go]
  | cons l ls ih =>
    intro h
    have hl := h l (by simp)
    have := ih (fun x hx => h x (by simp [hx]))
    simp only [scanLines] at this ⊢
    rw [flatLines_cons, scanLines_go_line l hl.noLF]
    simp [hl.noCR, this]

theorem filter_nonempty_plines (ls : List Bytes) (h : ∀ l ∈ ls, PLine l) :
    ls.filter (fun l => ¬ l.isEmpty) = ls := by
  apply List.filter_eq_self.mpr
  intro l hl
  have := (h l hl).ne
  cases l <;> simp_all

/-! ## tokens: `strings.Fields` over blank-joined tokens -/

theorem fields_intercalate : ∀ (toks : List Bytes), (∀ t ∈ toks, Tok t) → fields (intercalate sp toks) = toks := by
  intro toks
  induction toks with
  | nil => intro _; rfl
  | cons t toks ih =>
    intro h
    have ht := h t (by simp)
    cases toks with
    | nil => simp [intercalate, fields, fields_tok_end t ht]
    | cons u us =>
      have := ih (fun x hx => h x (by simp [hx]))
      simp only [intercalate, fields, sp, List.append_assoc, List.singleton_append] at this ⊢
      rw [fields_tok_sp t ht, this]

theorem dropCR_id (l : Bytes) (h : ∀ r, l.reverse ≠ 13 :: r) : dropCR l = l := by
  unfold dropCR
  split
  · rename_i r heq; exact absurd heq (h r)
  · rfl

theorem tok_rev_ne_cr (t : Bytes) (ht : Tok t) (pre : Bytes) : ∀ r, (pre ++ t).reverse ≠ 13 :: r := by
  intro r heq
  have hsp : isSpace 13 = true := by decide
  cases hr : t.reverse with
  | nil => have : t = [] := by simpa using hr
           exact ht.1 this
  | cons b r' =>
    rw [List.reverse_append, hr] at heq
    simp at heq
    have hb : b ∈ t := by
      have : b ∈ t.reverse := by rw [hr]; simp
      simpa using this
    have := ht.2 b hb
    rw [heq.1, hsp] at this
    exact absurd this (by simp)

theorem tok_last_not_space (t : Bytes) (ht : Tok t) : dropCR t = t :=
  dropCR_id t (by have := tok_rev_ne_cr t ht []; simpa using this)

theorem intercalate_last (toks : List Bytes) (hne : toks ≠ []) (h : ∀ t ∈ toks, Tok t) :
    ∃ pre t, Tok t ∧ intercalate sp toks = pre ++ t ∧ intercalate sp toks ≠ [] := by
  induction toks with
  | nil => exact absurd rfl hne
  | cons t toks ih =>
    cases toks with
    | nil =>
      have ht := h t (by simp)
      exact ⟨[], t, ht, by simp [intercalate], by simp [intercalate]; exact ht.1⟩
    | cons u us =>
      obtain ⟨pre, t', ht', he, _⟩ := ih (by simp) (fun x hx => h x (by simp [hx]))
      refine ⟨t ++ sp ++ pre, t', ht', by simp [intercalate, he, List.append_assoc], ?_⟩
      have := (h t (by simp)).1
      simp [intercalate]; exact fun h' => absurd h' this

theorem dropCR_append_tok (pre t : Bytes) (ht : Tok t) : dropCR (pre ++ t) = pre ++ t :=
  dropCR_id _ (tok_rev_ne_cr t ht pre)

/-- a line of blank-joined tokens is a printed line whose fields are the tokens -/
theorem token_line (toks : List Bytes) (hne : toks ≠ []) (h : ∀ t ∈ toks, Tok t) :
    PLine (intercalate sp toks) ∧ fields (intercalate sp toks) = toks := by
  obtain ⟨pre, t, ht, he, hnn⟩ := intercalate_last toks hne h
  refine ⟨⟨?_, by rw [he]; exact dropCR_append_tok pre t ht, hnn⟩, fields_intercalate toks h⟩
  -- no LF: every byte is a token byte or a blank
  have : ∀ (ts : List Bytes), (∀ t ∈ ts, Tok t) → ∀ b ∈ intercalate sp ts, b ≠ 10 := by
    intro ts
    induction ts with
    | nil => intro _ b hb; simp [intercalate] at hb
    | cons x xs ih =>
      intro hx b hb
      cases xs with
      | nil =>
        simp [intercalate] at hb
        exact (tok_no_nl x (hx x (by simp)) b hb).1
      | cons y ys =>
        simp only [intercalate, List.mem_append, sp, List.mem_cons, List.not_mem_nil, or_false] at hb
        rcases hb with (hb | hb) | hb
        · exact (tok_no_nl x (hx x (by simp)) b hb).1
        · subst hb; decide
        · exact ih (fun t ht => hx t (by simp [ht])) b hb
  exact this toks h

/-! ## integers at 32 bits -/

theorem parseInt32_showInt (n : Nat) (hn : n < 2 ^ 31) : parseInt32 (showInt (n : Int)) = some (n : Int) := by
  obtain ⟨ds, hds, ht, hp⟩ := showNat_spec n
  have hnn : ¬ ((n : Int) < 0) := by omega
  have hh := showNat_head n
  rw [hds] at hh
  simp only [showInt, hnn, if_false, Int.natAbs_natCast, hds, parseInt32, parseIntBits]
  cases ds with
  | nil => exact absurd rfl ht.1
  | cons b bs =>
    have hb := hh b rfl
    have h45 : b ≠ 45 := by intro h; subst h; revert hb; decide
    have h43 : b ≠ 43 := by intro h; subst h; revert hb; decide
    split
    · rename_i r heq; simp at heq; exact absurd heq.1 h45
    · rename_i r heq; simp at heq; exact absurd heq.1 h43
    · rename_i r
      simp only [List.isEmpty_cons, Bool.false_eq_true, if_false, hp]
      have h31 : (n : Int) < 2147483648 := by omega
      have : (-(2 ^ (32 - 1) : Int) ≤ (n : Int) ∧ (n : Int) < 2 ^ (32 - 1)) := by
        constructor <;> omega
      simp [this, h31]

theorem showInt_tok (n : Nat) : Tok (showInt (n : Int)) := by
  rw [showInt_nat]; exact showNat_tok n

/-! ## what `writeBody` prints (ASCII), as data -/

theorem writeBody_ascii_parts (c : Coding α) (cfg : WriterCfg) (m : MeshVal α) (body : Bytes)
    (hf : cfg.format = .ascii) (h : writeBody c cfg m = .ok body) :
    ∃ (recs : List (List α)) (vbytes : List Bytes) (faceBytes : Bytes),
      (List.range m.attrLen).mapM (vertexRecord m (selectWriters cfg m)) = .ok recs ∧
      All2 (fun vals rec => encRecordAscii c (writerTypes (selectWriters cfg m)) vals = .ok rec) recs vbytes ∧
      body = vbytes.flatten ++ faceBytes ∧
      (m.topo ≠ .triangle → faceBytes = []) ∧
      (m.topo = .triangle → ∃ fs, faceRecords m (chunk3Floor m.indices) = .ok fs ∧
        faceBytes = (fs.map (encFaceAscii c)).flatten) := by
  obtain ⟨_, h⟩ := writeBody_core_of_ok c cfg m body h
  simp only [writeBodyCore] at h
  cases hrecs : (List.range m.attrLen).mapM (vertexRecord m (selectWriters cfg m)) with
  | error e => simp [hrecs, bind, Except.bind] at h
  | ok recs =>
    simp only [hrecs, bind, Except.bind, hf] at h
    cases hv : recs.mapM (fun r => encRecordAscii c (writerTypes (selectWriters cfg m)) r) with
    | error e => simp [hv] at h
    | ok vbytes =>
      simp only [hv] at h
      have hall := mapM_ok_forall₂ _ _ _ hv
      by_cases htri : m.topo = .triangle
      · simp only [htri, ne_eq, not_true_eq_false, if_false] at h
        cases hfs : faceRecords m (chunk3Floor m.indices) with
        | error e => simp [hfs] at h
        | ok fs =>
          simp [hfs, pure, Except.pure] at h
          exact ⟨recs, vbytes, _, rfl, hall, h.symm, fun hne => absurd htri hne, fun _ => ⟨fs, rfl, rfl⟩⟩
      · simp [htri, pure, Except.pure] at h
        exact ⟨recs, vbytes, [], rfl, hall, by simp [h], fun _ => rfl, fun ht => absurd ht htri⟩

/-- the tokens of one printed vertex record -/
theorem encRecordAscii_toks (c : Coding α) (tys : List SType) (vals : List α) (rec : Bytes)
    (h : encRecordAscii c tys vals = .ok rec) :
    ∃ toks, (tys.zip vals).mapM (fun (p : SType × α) => encScalarAscii c p.1 p.2) = .ok toks ∧
      rec = (if toks = [] then [] else intercalate sp toks ++ nl) := by
  simp only [encRecordAscii] at h
  cases ht : (tys.zip vals).mapM (fun (p : SType × α) => encScalarAscii c p.1 p.2) with
  | error e => simp [ht, bind, Except.bind] at h
  | ok toks =>
    simp [ht, bind, Except.bind, pure, Except.pure] at h
    exact ⟨toks, rfl, h.symm⟩

theorem encScalarAscii_tok (c : Coding α) (L : GoFloatText c) (t : SType) (v : α) (hr : L.inRange v) (tok : Bytes)
    (h : encScalarAscii c t v = .ok tok) : Tok tok ∧ ∃ y, c.parseF tok = some y := by
  cases t <;> simp [encScalarAscii] at h <;> subst h
  · exact ⟨showNat_tok _, _, L.parse32_showU8 _ (c.u8 v).toNat_lt⟩
  · exact ⟨L.tokI v, _, L.parse32_showI v⟩
  · exact ⟨L.tokI v, _, L.parse32_showI v⟩
  · exact ⟨L.tokI v, _, L.parse32_showI v⟩
  · exact ⟨L.tokI v, _, L.parse32_showI v⟩
  · exact ⟨L.tokF v, _, L.parse32_showF v hr⟩
  · exact ⟨L.tokF v, _, L.parse32_showF v hr⟩


/-! ## one printed vertex line under the per-property readers -/

/-- an ASCII reader: its columns are the header positions `idxs`, and it normalises 8-bit values exactly when its
properties are `uchar` (true for the vector readers; for the scalar reader, which never learns the type — known finding —
only when the property is not `uchar`) -/
structure LocatedA (tys : List SType) (b : Built) (idxs : List Nat) : Prop where
  offs : b.offs = idxs
  inr : ∀ i ∈ idxs, ∃ h : i < tys.length, (b.ty = some .uchar ↔ tys[i] = .uchar)

def rowOfA (c : Coding α) (tys : List SType) (bl : List (Built × List Nat)) (vals : List α) : List (List α) :=
  bl.map (fun p => p.2.filterMap (fun i =>
    match tys[i]?, vals[i]? with
    | some t, some v => quant c .ascii p.1.names.length t v
    | _, _ => none))

theorem toks_at (c : Coding α) (tys : List SType) (vals : List α) (toks : List Bytes) (hv : vals.length = tys.length)
    (ht : (tys.zip vals).mapM (fun (p : SType × α) => encScalarAscii c p.1 p.2) = .ok toks) :
    toks.length = tys.length ∧ ∀ i (hi : i < tys.length) (hi' : i < vals.length) (hi'' : i < toks.length),
      encScalarAscii c tys[i] vals[i] = .ok toks[i] := by
  have hall := mapM_ok_forall₂ _ _ _ ht
  have hlen : toks.length = tys.length := by
    have := hall.length_eq; simp [hv] at this; exact this
  refine ⟨hlen, ?_⟩
  intro i hi hi' hi''
  have := PlyCompose.All2.get hall i (by simp; omega) hi''
  simpa using this

def colRead (c : Coding α) (toks : List Bytes) (o : Nat) : R α :=
  match toks[o]? with
  | none => .error .panic
  | some t => match c.parseF t with | none => .error .err | some v => .ok v

theorem readAscii_eq (c : Coding α) (b : Built) (toks : List Bytes) :
    b.readAscii c toks = (do
      let vals ← b.offs.mapM (colRead c toks)
      pure (if b.ty = some .uchar then vals.map (c.norm8 b.names.length) else vals)) := rfl

theorem readAscii_located (c : Coding α) (L : GoFloatText c) (tys : List SType) (vals : List α) (toks : List Bytes)
    (hv : vals.length = tys.length) (hr : ∀ x ∈ vals, L.inRange x)
    (ht : (tys.zip vals).mapM (fun (p : SType × α) => encScalarAscii c p.1 p.2) = .ok toks)
    (b : Built) (idxs : List Nat) (hl : LocatedA tys b idxs) :
    b.readAscii c toks = .ok (idxs.filterMap (fun i =>
      match tys[i]?, vals[i]? with
      | some t, some v => quant c .ascii b.names.length t v
      | _, _ => none)) := by
  obtain ⟨hlen, hat⟩ := toks_at c tys vals toks hv ht
  -- per column: the token parses, and `quant` is the parsed value, normalised iff the reader normalises
  have hcol : ∀ i ∈ idxs, ∃ y, colRead c toks i = .ok y ∧
      (match tys[i]?, vals[i]? with
        | some t, some v => quant c .ascii b.names.length t v
        | _, _ => none) = some (if b.ty = some .uchar then c.norm8 b.names.length y else y) := by
    intro i hi
    obtain ⟨hit, hiff⟩ := hl.inr i hi
    have hiv : i < vals.length := by omega
    have hik : i < toks.length := by omega
    have henc := hat i hit hiv hik
    obtain ⟨_, y, hy⟩ := encScalarAscii_tok c L _ _ (hr _ (List.getElem_mem hiv)) _ henc
    refine ⟨y, by simp [colRead, List.getElem?_eq_getElem hik, hy], ?_⟩
    simp only [List.getElem?_eq_getElem hit, List.getElem?_eq_getElem hiv, quant, henc, hy, Option.map_some]
    by_cases hu : tys[i] = .uchar
    · simp [hu, hiff.mpr hu]
    · have : ¬ b.ty = some .uchar := fun h => hu (hiff.mp h)
      simp [hu, this]
  rw [readAscii_eq, hl.offs]
  have hmap : ∀ (l : List Nat), (∀ i ∈ l, i ∈ idxs) →
      ∃ ys, l.mapM (colRead c toks) = .ok ys ∧
      l.filterMap (fun i => match tys[i]?, vals[i]? with
        | some t, some v => quant c .ascii b.names.length t v
        | _, _ => none) = ys.map (fun y => if b.ty = some .uchar then c.norm8 b.names.length y else y) := by
    intro l
    induction l with
    | nil => intro _; exact ⟨[], rfl, rfl⟩
    | cons i l ih =>
      intro hsub
      obtain ⟨y, h1, h2⟩ := hcol i (hsub i (by simp))
      obtain ⟨ys, h3, h4⟩ := ih (fun j hj => hsub j (by simp [hj]))
      refine ⟨y :: ys, ?_, ?_⟩
      · rw [List.mapM_cons, h1, h3]; rfl
      · simp [List.filterMap_cons, h2, h4]
  obtain ⟨ys, h1, h2⟩ := hmap idxs (fun i hi => hi)
  rw [h1, h2]
  by_cases hu : b.ty = some .uchar <;> simp [hu, bind, Except.bind, pure, Except.pure]


/-! ## the printed vertex block under the reader's vertex loop -/

theorem writer_vertex_block_ascii (c : Coding α) (L : GoFloatText c) (tys : List SType) (htys : tys ≠ [])
    (bl : List (Built × List Nat)) (hbl : ∀ p ∈ bl, LocatedA tys p.1 p.2) :
    ∀ (recs : List (List α)) (encs : List Bytes),
      All2 (fun vals rec => encRecordAscii c tys vals = .ok rec) recs encs →
      (∀ vals ∈ recs, vals.length = tys.length) → (∀ vals ∈ recs, ∀ x ∈ vals, L.inRange x) →
      ∃ vlines, encs.flatten = flatLines vlines ∧ (∀ l ∈ vlines, PLine l) ∧
        ∀ rest, readVertsAscii c tys.length (bl.map (·.1)) recs.length (vlines ++ rest)
          = .ok (recs.map (rowOfA c tys bl), rest) := by
  intro recs encs hall
  induction hall with
  | nil => intro _ _; exact ⟨[], rfl, by simp, fun rest => by simp [readVertsAscii]⟩
  | @cons vals rec recs encs hxy _ ih =>
    intro hlen hrange
    have hv := hlen vals (by simp)
    have hrv := hrange vals (by simp)
    obtain ⟨vlines, h1, h2, h3⟩ := ih (fun v hv' => hlen v (by simp [hv'])) (fun v hv' => hrange v (by simp [hv']))
    obtain ⟨toks, htoks, hrec⟩ := encRecordAscii_toks c tys vals rec hxy
    obtain ⟨htl, hat⟩ := toks_at c tys vals toks hv htoks
    have htne : toks ≠ [] := by
      intro h0; rw [h0] at htl; simp at htl; exact htys (List.length_eq_zero_iff.mp htl.symm)
    have htok : ∀ t ∈ toks, Tok t := by
      intro t ht
      obtain ⟨i, hi, rfl⟩ := List.getElem_of_mem ht
      exact (encScalarAscii_tok c L _ _ (hrv _ (List.getElem_mem _)) _ (hat i (by omega) (by omega) hi)).1
    obtain ⟨hpl, hfl⟩ := token_line toks htne htok
    simp only [htne, if_false] at hrec
    refine ⟨intercalate sp toks :: vlines, ?_, ?_, ?_⟩
    · simp [hrec, h1, flatLines_cons, nl]
    · intro l hl; simp at hl; rcases hl with rfl | hl
      · exact hpl
      · exact h2 l hl
    · intro rest
      have hrow : (bl.map (·.1)).mapM (fun b => b.readAscii c toks) = .ok (rowOfA c tys bl vals) := by
        clear ih h3
        induction bl with
        | nil => simp [rowOfA, pure, Except.pure]
        | cons p bl ihb =>
          have hp := readAscii_located c L tys vals toks hv hrv htoks p.1 p.2 (hbl p (by simp))
          have h2' := ihb (fun q hq => hbl q (by simp [hq]))
          simp only [rowOfA] at h2' ⊢
          simp [List.mapM_cons, hp, h2', bind, Except.bind, pure, Except.pure]
      have hnot : ¬ ((fields (intercalate sp toks)).length < tys.length) := by rw [hfl, htl]; omega
      have hnot' : ¬ (toks.length < tys.length) := by omega
      simp only [List.cons_append, List.length_cons, readVertsAscii, hfl, hnot', if_false, hrow, h3 rest, bind,
        Except.bind, pure, Except.pure, List.map_cons]


/-! ## the printed face lines under the reader's face loop -/

def faceToks (c : Coding α) (f : WFace α) : List Bytes :=
  [nm "3", showInt f.idx.1, showInt f.idx.2.1, showInt f.idx.2.2] ++
  (match f.uv with
   | none => []
   | some uv => nm "6" :: uv.map c.showF)

/-- the face's indices are ordinary vertex numbers -/
def IdxOk (f : WFace α) : Prop :=
  ∃ a b d : Nat, f.idx = ((a : Int), (b : Int), (d : Int)) ∧ a < 2 ^ 31 ∧ b < 2 ^ 31 ∧ d < 2 ^ 31

theorem encFaceAscii_eq (c : Coding α) (f : WFace α) (hasTex : Bool) (huv : UvOk hasTex f) :
    encFaceAscii c f = intercalate sp (faceToks c f) ++ nl := by
  obtain ⟨⟨i0, i1, i2⟩, uv⟩ := f
  have h3 : nm "3 " = nm "3" ++ sp := by decide
  have h6 : nm " 6 " = sp ++ nm "6" ++ sp := by decide
  cases uv with
  | none => simp [encFaceAscii, faceToks, intercalate, h3, List.append_assoc]
  | some uv =>
    simp only [UvOk] at huv
    obtain ⟨_, hl⟩ := huv
    match uv, hl with
    | [v0, v1, v2, v3, v4, v5], _ =>
      simp [encFaceAscii, faceToks, intercalate, h3, h6, List.append_assoc]

def afterFaceA (f : WFace α) (b : FaceBufs α) : FaceBufs α :=
  { idx := overwrite b.idx [f.idx.1, f.idx.2.1, f.idx.2.2]
    tex := match f.uv with
      | none => b.tex
      | some uv => overwrite b.tex uv }

def faceUVA (f : WFace α) : List (List α) :=
  match f.uv with
  | none => []
  | some uv => [uv.take 2, (uv.drop 2).take 2, (uv.drop 4).take 2]

theorem readFaceAscii_written (c : Coding α) (L : GoFloatText c) (f : WFace α) (hasTex : Bool) (huv : UvOk hasTex f)
    (hidx : IdxOk f) (b : FaceBufs α) :
    readFaceAscii c (wlp hasTex) ⟨some 0, if hasTex then some 1 else none⟩ b (faceToks c f)
      = .ok (3, afterFaceA f b) := by
  obtain ⟨⟨i0, i1, i2⟩, uv⟩ := f
  obtain ⟨a, b', d, hi, ha, hb, hd⟩ := hidx
  simp only at hi
  obtain ⟨rfl, rfl, rfl⟩ : i0 = (a : Int) ∧ i1 = (b' : Int) ∧ i2 = (d : Int) := by
    have := Prod.mk.inj hi; have h2 := Prod.mk.inj this.2; exact ⟨this.1, h2.1, h2.2⟩
  have p3 : parseInt32 (nm "3") = some 3 := by decide
  have p6 : parseInt32 (nm "6") = some 6 := by decide
  have pa := parseInt32_showInt a ha
  have pb := parseInt32_showInt b' hb
  have pd := parseInt32_showInt d hd
  cases uv with
  | none =>
    simp only [UvOk] at huv
    subst huv
    simp [readFaceAscii, readFaceAscii.go, wlp, List.zipIdx, faceToks, p3, pa, pb, pd, afterFaceA, List.mapM_cons]
  | some uv =>
    simp only [UvOk] at huv
    obtain ⟨hT, hl⟩ := huv
    subst hT
    match uv, hl with
    | [v0, v1, v2, v3, v4, v5], _ =>
      simp [readFaceAscii, readFaceAscii.go, wlp, List.zipIdx, faceToks, p3, p6, pa, pb, pd, afterFaceA, List.mapM_cons,
        L.parse64_showF]

theorem emitFace_afterA (f : WFace α) (hasTex : Bool) (huv : UvOk hasTex f) (b : FaceBufs α) (hb : BufsOk b) :
    emitFace 3 hasTex (afterFaceA f b) = .ok ([f.idx.1, f.idx.2.1, f.idx.2.2], faceUVA f) ∧ BufsOk (afterFaceA f b) := by
  obtain ⟨⟨i0, i1, i2⟩, uv⟩ := f
  obtain ⟨idx, tex⟩ := b
  obtain ⟨hi, ht⟩ := hb
  simp only at hi ht
  match idx, hi, tex, ht with
  | [a0, a1, a2, a3], _, [t0, t1, t2, t3, t4, t5, t6, t7], _ =>
    cases uv with
    | none =>
      simp only [UvOk] at huv
      subst huv
      simp [emitFace, afterFaceA, overwrite, faceUVA, BufsOk]
    | some uv =>
      simp only [UvOk] at huv
      obtain ⟨hT, hl⟩ := huv
      subst hT
      match uv, hl with
      | [v0, v1, v2, v3, v4, v5], _ =>
        simp [emitFace, afterFaceA, overwrite, faceUVA, BufsOk]

theorem faceToks_tok (c : Coding α) (L : GoFloatText c) (f : WFace α) (hidx : IdxOk f) : ∀ t ∈ faceToks c f, Tok t := by
  obtain ⟨a, b, d, hi, _, _, _⟩ := hidx
  have t3 : Tok (nm "3") := ⟨by decide, by decide⟩
  have t6 : Tok (nm "6") := ⟨by decide, by decide⟩
  intro t ht
  simp only [faceToks, hi, List.mem_append, List.mem_cons, List.not_mem_nil, or_false] at ht
  rcases ht with (rfl | rfl | rfl | rfl) | ht
  · exact t3
  · exact showInt_tok a
  · exact showInt_tok b
  · exact showInt_tok d
  · cases huv : f.uv with
    | none => simp [huv] at ht
    | some uv =>
      simp only [huv, List.mem_cons, List.mem_map] at ht
      rcases ht with rfl | ⟨v, _, rfl⟩
      · exact t6
      · exact L.tokF v

theorem readFacesAscii_written (c : Coding α) (L : GoFloatText c) (hasTex : Bool) :
    ∀ (fs : List (WFace α)) (b : FaceBufs α), BufsOk b → (∀ f ∈ fs, UvOk hasTex f) → (∀ f ∈ fs, IdxOk f) →
      readFacesAscii c (wlp hasTex) ⟨some 0, if hasTex then some 1 else none⟩ fs.length b
          (fs.map (fun f => intercalate sp (faceToks c f)))
        = .ok ((fs.map (fun f => [f.idx.1, f.idx.2.1, f.idx.2.2])).flatten, (fs.map faceUVA).flatten) := by
  intro fs
  induction fs with
  | nil => intro b _ _ _; simp [readFacesAscii]
  | cons f fs ih =>
    intro b hb huv hidx
    have hne : faceToks c f ≠ [] := by simp [faceToks]
    obtain ⟨_, hfl⟩ := token_line (faceToks c f) hne (faceToks_tok c L f (hidx f (by simp)))
    have h1 := readFaceAscii_written c L f hasTex (huv f (by simp)) (hidx f (by simp)) b
    obtain ⟨h2, hb'⟩ := emitFace_afterA f hasTex (huv f (by simp)) b hb
    have h3 := ih (afterFaceA f b) hb' (fun g hg => huv g (by simp [hg])) (fun g hg => hidx g (by simp [hg]))
    have hT : (if hasTex then some 1 else (none : Option Nat)).isSome = hasTex := by cases hasTex <;> rfl
    simp only [List.map_cons, List.flatten_cons, List.length_cons, readFacesAscii, hfl, h1, bind, Except.bind, hT, h2, h3,
      pure, Except.pure]


/-! ## `readBody` for ASCII, stage by stage -/

/-- the face stage of an ASCII body, over the non-empty lines that follow the vertex lines -/
def faceStageAscii (c : Coding α) (fe : Option Element) (rest : List Bytes) :
    R (Option (List Int × List (List α))) :=
  match fe with
  | none => .ok none
  | some f =>
    match listProps f.props with
    | none => .error .err
    | some lp =>
      if (findFaceProps lp).idxProp.isNone then .error .err else do
        let r ← readFacesAscii c lp (findFaceProps lp) f.count.toNat ⟨[0, 0, 0, 0], List.replicate 8 (c.ofInt 0)⟩ rest
        pure (some r)

theorem readBody_ascii (c : Coding α) (cfg : ReaderCfg) (hdr : Header) (body : Bytes) (ve : Element)
    (ps : List (Bytes × SType)) (hfmt : hdr.format = .ascii)
    (hve : findElement hdr cfg.attributeElement = some ve) (hps : scalarProps ve.props = some ps)
    (hcount : 0 ≤ ve.count) :
    readBody c cfg hdr body = (do
      let built := buildAll false ps cfg.props cfg.loadUnspecified
      let (rows, rest) ← readVertsAscii c ps.length built ve.count.toNat
        ((scanLines body).filter (fun l => ¬ l.isEmpty))
      let idxUv ← faceStageAscii c (findElement hdr (nm "face")) rest
      assemble built ve.count.toNat rows idxUv) := by
  have hneg : ¬ (ve.count < 0) := by omega
  simp only [readBody, hve, hps, hneg, false_and, if_false, hfmt]
  have hb : (decide (Format.ascii ≠ Format.ascii)) = false := by decide
  simp only [hb]
  cases readVertsAscii c ps.length (buildAll false ps cfg.props cfg.loadUnspecified) ve.count.toNat
      ((scanLines body).filter (fun l => ¬ l.isEmpty)) with
  | error e => rfl
  | ok rr =>
    obtain ⟨rows, rest⟩ := rr
    simp only [bind, Except.bind, faceStageAscii]
    cases findElement hdr (nm "face") with
    | none => rfl
    | some f =>
      simp only []
      cases listProps f.props with
      | none => rfl
      | some lp =>
        simp only []
        by_cases hidx : (findFaceProps lp).idxProp.isNone = true
        · simp only [hidx, if_true]
        · simp only [hidx, if_false, Bool.false_eq_true]
          cases readFacesAscii c lp (findFaceProps lp) f.count.toNat ⟨[0, 0, 0, 0], List.replicate 8 (c.ofInt 0)⟩ rest <;> rfl

theorem chunk3Floor_of_chunk3 : ∀ (l : List Int) (t : List (Int × Int × Int)), chunk3 l = some t → chunk3Floor l = t
  | [], t, h => by simp [chunk3] at h; subst h; rfl
  | [_], _, h => by simp [chunk3] at h
  | [_, _], _, h => by simp [chunk3] at h
  | a :: b :: c :: rest, t, h => by
    simp only [chunk3, Option.map_eq_some_iff] at h
    obtain ⟨t', ht', rfl⟩ := h
    simp [chunk3Floor, chunk3Floor_of_chunk3 rest t' ht']

theorem chunk3_of_mod : ∀ (n : Nat) (l : List Int), l.length = 3 * n → ∃ t, chunk3 l = some t
  | 0, l, h => by have : l = [] := List.length_eq_zero_iff.mp (by simpa using h); subst this; exact ⟨[], rfl⟩
  | n + 1, l, h => by
    match l, h with
    | a :: b :: c :: rest, h =>
      obtain ⟨t, ht⟩ := chunk3_of_mod n rest (by simp at h; omega)
      exact ⟨(a, b, c) :: t, by simp [chunk3, ht]⟩

theorem WF_tri (m : MeshVal α) (hwf : m.WF = true) (htri : m.topo = .triangle) : ∃ t, chunk3 m.indices = some t := by
  simp only [MeshVal.WF, Bool.and_eq_true, Bool.or_eq_true, decide_eq_true_eq] at hwf
  have hmod : m.indices.length % 3 = 0 := by
    rcases hwf.2 with h | h
    · rw [htri] at h; simp at h
    · exact h
  exact chunk3_of_mod (m.indices.length / 3) m.indices (by omega)


theorem idxOk_of_wf (m : MeshVal α) (hwf : m.WF = true) (hsize : m.attrLen ≤ 2 ^ 31) (tris : List (Int × Int × Int))
    (hc : chunk3 m.indices = some tris) (fs : List (WFace α)) (hidx : fs.map (·.idx) = tris) : ∀ f ∈ fs, IdxOk f := by
  intro f hf
  have hfl := chunk3_flatten _ _ hc
  have hmem : ∀ i ∈ [f.idx.1, f.idx.2.1, f.idx.2.2], i ∈ m.indices := by
    intro i hi
    rw [hfl, ← hidx]
    simp only [List.map_map, List.mem_flatten, List.mem_map, Function.comp]
    exact ⟨[f.idx.1, f.idx.2.1, f.idx.2.2], ⟨f, hf, rfl⟩, hi⟩
  have h1 := WF_idx m hwf _ (hmem f.idx.1 (by simp))
  have h2 := WF_idx m hwf _ (hmem f.idx.2.1 (by simp))
  have h3 := WF_idx m hwf _ (hmem f.idx.2.2 (by simp))
  refine ⟨f.idx.1.toNat, f.idx.2.1.toNat, f.idx.2.2.toNat, ?_, by omega, by omega, by omega⟩
  have e0 : ((f.idx.1.toNat : Nat) : Int) = f.idx.1 := by omega
  have e1 : ((f.idx.2.1.toNat : Nat) : Int) = f.idx.2.1 := by omega
  have e2 : ((f.idx.2.2.toNat : Nat) : Int) = f.idx.2.2 := by omega
  rw [e0, e1, e2]

/-- every attribute value of the mesh prints to a text the 32-bit parser accepts (`GoFloatText.inRange`; only the values
printed by `float` / `double` vertex writers matter, the guard asks it of all of them) -/
def InRangeMesh {c : Coding α} (L : GoFloatText c) (m : MeshVal α) : Prop := ∀ a ∈ m.attrs, ∀ comps ∈ a.data, ∀ v ∈ comps, L.inRange v

theorem vertexRecord_mem (m : MeshVal α) (ws : List WProp) (i : Nat) (vals : List α)
    (h : vertexRecord m ws i = .ok vals) : ∀ x ∈ vals, ∃ a ∈ m.attrs, ∃ comps ∈ a.data, x ∈ comps := by
  simp only [vertexRecord] at h
  cases hp : ws.mapM (fun w => writerValues m w i) with
  | error e => simp [hp, bind, Except.bind] at h
  | ok parts =>
    simp [hp, bind, Except.bind, pure, Except.pure] at h
    subst h
    have hall := mapM_ok_forall₂ _ _ _ hp
    intro x hx
    obtain ⟨p, hpm, hxp⟩ := List.mem_flatten.mp hx
    clear hp hx
    induction hall with
    | nil => simp at hpm
    | @cons w p0 ws' parts' h0 _ ih =>
      simp only [List.mem_cons] at hpm
      rcases hpm with rfl | hpm
      · simp only [writerValues] at h0
        cases hfa : m.find w.dim w.attr with
        | none => simp [hfa] at h0
        | some a =>
          cases hd : a.data[i]? with
          | none => simp [hfa, hd] at h0
          | some comps =>
            simp [hfa, hd] at h0
            subst h0
            exact ⟨a, (find_mem m _ _ a hfa).1, comps, List.mem_of_getElem? hd, hxp⟩
      · exact ih hpm

/-- STAGES 1+2, ASCII: reading back a printed body yields exactly these arrays and this index / UV list -/
theorem readBody_writeBody_arrays_ascii (c : Coding α) (L : GoFloatText c) (cfg : WriterCfg) (m : MeshVal α) (body : Bytes)
    (hf : cfg.format = .ascii) (hwf : m.WF = true) (h : writeBody c cfg m = .ok body)
    (htys : m.attrLen = 0 ∨ writerTypes (selectWriters cfg m) ≠ []) (hsize : m.attrLen ≤ 2 ^ 31)
    (hrange : InRangeMesh L m)
    (bl : List (Built × List Nat))
    (hbuilt : bl.map (·.1) = buildAll false (headerProps (selectWriters cfg m)) defaultReaders true)
    (hloc : ∀ p ∈ bl, LocatedA (writerTypes (selectWriters cfg m)) p.1 p.2) :
    ∃ (recs : List (List α)),
      (List.range m.attrLen).mapM (vertexRecord m (selectWriters cfg m)) = .ok recs ∧
      (m.topo ≠ .triangle →
        readBody c defaultReader (writeHeader cfg m) body
          = assemble (bl.map (·.1)) m.attrLen (recs.map (rowOfA c (writerTypes (selectWriters cfg m)) bl)) none) ∧
      (m.topo = .triangle → ∃ tris fs, chunk3 m.indices = some tris ∧ faceRecords m tris = .ok fs ∧
        readBody c defaultReader (writeHeader cfg m) body
          = assemble (bl.map (·.1)) m.attrLen (recs.map (rowOfA c (writerTypes (selectWriters cfg m)) bl))
              (some (m.indices, (fs.map faceUVA).flatten))) := by
  obtain ⟨recs, vbytes, faceBytes, hrecs, hall, hbody, hpt, htri⟩ := writeBody_ascii_parts c cfg m body hf h
  have hrl := mapM_ok_forall₂ _ _ _ hrecs
  have hlen : recs.length = m.attrLen := by simpa using hrl.length_eq
  have hvl : ∀ vals ∈ recs, vals.length = (writerTypes (selectWriters cfg m)).length :=
    All2.forall_right (Q := fun r => r.length = (writerTypes (selectWriters cfg m)).length)
      (fun i r hir => vertexRecord_length m hwf i _ r hir) hrl
  -- the vertex lines
  obtain ⟨vlines, hv1, hv2, hv3⟩ : ∃ vlines, vbytes.flatten = flatLines vlines ∧ (∀ l ∈ vlines, PLine l) ∧
      ∀ rest, readVertsAscii c (writerTypes (selectWriters cfg m)).length (bl.map (·.1)) recs.length (vlines ++ rest)
        = .ok (recs.map (rowOfA c (writerTypes (selectWriters cfg m)) bl), rest) := by
    rcases htys with h0 | hne
    · have : recs = [] := by cases recs <;> simp_all
      subst this
      cases hall
      exact ⟨[], rfl, by simp, fun rest => by simp [readVertsAscii]⟩
    · refine writer_vertex_block_ascii c L _ hne bl hloc recs vbytes hall hvl ?_
      have hrm : ∀ vals ∈ recs, ∃ i, vertexRecord m (selectWriters cfg m) i = .ok vals :=
        All2.forall_right (Q := fun r => ∃ i, vertexRecord m (selectWriters cfg m) i = .ok r)
          (fun i r hir => ⟨i, hir⟩) hrl
      intro vals hvals x hx
      obtain ⟨i, hi⟩ := hrm vals hvals
      obtain ⟨a, ha, comps, hc, hxc⟩ := vertexRecord_mem m _ i vals hi x hx
      exact hrange a ha comps hc x hxc
  have hfmt : (writeHeader cfg m).format = .ascii := hf
  have hve : findElement (writeHeader cfg m) defaultReader.attributeElement
      = some ⟨nm "vertex", m.attrLen, ((selectWriters cfg m).map WProp.props).flatten⟩ := findElement_vertex cfg m
  have hpl : (headerProps (selectWriters cfg m)).length = (writerTypes (selectWriters cfg m)).length := by
    rw [← headerProps_types]; simp
  refine ⟨recs, hrecs, ?_, ?_⟩
  · intro hne
    have hb : body = flatLines vlines := by rw [hbody, hpt hne, hv1]; simp
    rw [readBody_ascii c defaultReader (writeHeader cfg m) body _ (headerProps (selectWriters cfg m)) hfmt hve
      (scalarProps_headerProps _) (by simp)]
    have hlines : (scanLines body).filter (fun l => ¬ l.isEmpty) = vlines ++ [] := by
      rw [hb, scanLines_flat vlines hv2, filter_nonempty_plines vlines hv2]; simp
    simp only [defaultReader, ← hbuilt, hlines, hpl, Int.toNat_natCast, ← hlen, hv3 [], bind, Except.bind,
      findElement_face, hne, if_false, faceStageAscii]
  · intro ht
    obtain ⟨fs, hfs0, hfb⟩ := htri ht
    obtain ⟨tris, hc⟩ := WF_tri m hwf ht
    rw [chunk3Floor_of_chunk3 _ _ hc] at hfs0
    refine ⟨tris, fs, hc, hfs0, ?_⟩
    obtain ⟨hidx, huv⟩ := faceRecords_shape m hwf tris fs hfs0
    have hiok := idxOk_of_wf m hwf hsize tris hc fs hidx
    let flines := fs.map (fun f => intercalate sp (faceToks c f))
    have hfl : faceBytes = flatLines flines := by
      rw [hfb]
      simp only [flines, flatLines, List.map_map, Function.comp_def]
      congr 1
      apply List.map_congr_left
      intro f hf'
      rw [encFaceAscii_eq c f (hasTexCoord m) (huv f hf')]; simp [nl]
    have hfp : ∀ l ∈ flines, PLine l := by
      intro l hl
      simp only [flines, List.mem_map] at hl
      obtain ⟨f, hf', rfl⟩ := hl
      exact (token_line (faceToks c f) (by simp [faceToks]) (faceToks_tok c L f (hiok f hf'))).1
    have hb : body = flatLines (vlines ++ flines) := by rw [hbody, hv1, hfl, flatLines_append]
    have hall' : ∀ l ∈ vlines ++ flines, PLine l := by
      intro l hl; simp at hl; rcases hl with hl | hl
      · exact hv2 l hl
      · exact hfp l hl
    have hlines : (scanLines body).filter (fun l => ¬ l.isEmpty) = vlines ++ flines := by
      rw [hb, scanLines_flat _ hall', filter_nonempty_plines _ hall']
    have hcount : triCount m = fs.length := by
      have := chunk3_length _ _ hc
      have h2 : fs.length = tris.length := by rw [← hidx]; simp
      simp [triCount, h2, this]
    have hfaces := readFacesAscii_written c L (hasTexCoord m) fs ⟨[0, 0, 0, 0], List.replicate 8 (c.ofInt 0)⟩
      ⟨rfl, by simp⟩ huv hiok
    have hidxs : (fs.map (fun f => [f.idx.1, f.idx.2.1, f.idx.2.2])).flatten = m.indices := by
      rw [chunk3_flatten _ _ hc, ← hidx, List.map_map]; rfl
    rw [hidxs] at hfaces
    rw [readBody_ascii c defaultReader (writeHeader cfg m) body _ (headerProps (selectWriters cfg m)) hfmt hve
      (scalarProps_headerProps _) (by simp)]
    simp only [defaultReader, ← hbuilt, hlines, hpl, Int.toNat_natCast, ← hlen, hv3 flines, bind, Except.bind,
      findElement_face, ht, if_true, faceStageAscii, listProps_faceProps, findFaceProps_wlp, Option.isNone_some,
      Bool.false_eq_true, if_false, hcount, flines, hfaces, pure, Except.pure]


/-! ## format-generic assembly: from "the right arrays" to `RoundTrips` -/

/-- what the vertex stage must deliver for a recognised writer `w` (mesh with at least one corner): the assembled mesh
carries under `w`'s key the attribute array mapped by `G w`, and `quant` of the format is `G w` -/
def Delivers [BEq α] (c : Coding α) (cfg : WriterCfg) (m : MeshVal α) (built : List Built) (rows : List (List (List α)))
    (G : WProp → α → α) : Prop :=
  ∀ (base : MeshVal α) (w : WProp), w ∈ selectWriters cfg m → comesBack w = true →
    ∃ a orig, m.find w.dim w.attr = some a ∧
      (applyColumns base built rows).find w.dim w.attr = some ⟨w.dim, w.attr, a.data.map (List.map (G w))⟩ ∧
      gather a.data m.indices = .ok orig ∧
      orig.mapM (fun comps => comps.mapM (quant c cfg.format w.dim w.ty)) = some (orig.map (List.map (G w)))

/-- welded result (point clouds, triangle meshes without per-corner UVs) -/
theorem roundTrips_welded [BEq α] [LawfulBEq α] (c : Coding α) (cfg : WriterCfg) (m : MeshVal α)
    (hnotex : ¬ (m.topo = .triangle ∧ hasTexCoord m = true)) (built : List Built) (rows : List (List (List α)))
    (G : WProp → α → α) (hdel : m.indices ≠ [] → Delivers c cfg m built rows G) :
    RoundTrips c cfg m (applyColumns ⟨m.topo, m.indices, [], none⟩ built rows) = true := by
  have ht := applyColumns_topo (⟨m.topo, m.indices, [], none⟩ : MeshVal α) built rows
  simp only [RoundTrips, Bool.and_eq_true, List.all_eq_true, decide_eq_true_eq, ht.1, primCount, ht.2, true_and]
  refine ⟨?_, by simp [hnotex]⟩
  intro w hw
  simp only [List.mem_filter, Bool.and_eq_true] at hw
  obtain ⟨hws, hcb, _⟩ := hw
  by_cases hemp : m.indices = []
  · have hb0 := ht.2
    simp only at hb0
    rw [hemp] at hb0
    simp [cornerVals, hb0, hemp]
  · obtain ⟨a, orig, ha, hfindb, ho, hmm⟩ := hdel hemp ⟨m.topo, m.indices, [], none⟩ w hws hcb
    obtain ⟨hc1, hc2⟩ := cornerVals_mapped m _ ht.2 w.dim w.attr a ha (List.map (G w)) hfindb orig ho
    simp [hc1, hc2, hmm]

/-- unwelded result (triangle meshes WITH per-corner UVs): `uvs` is the per-corner list the face stage collected -/
theorem roundTrips_unwelded [BEq α] [LawfulBEq α] (c : Coding α) (cfg : WriterCfg) (m : MeshVal α) (hwf : m.WF = true)
    (htri : m.topo = .triangle) (htc : hasTexCoord m = true) (built : List Built) (rows : List (List (List α)))
    (hrowsl : rows.length = m.attrLen) (G : WProp → α → α) (hdel : m.indices ≠ [] → Delivers c cfg m built rows G)
    (tex : Attr α) (htex : m.find 2 texCoordAttr = some tex) (origUV uvs : List (List α))
    (hoUV : gather tex.data m.indices = .ok origUV)
    (hmmuv : origUV.mapM (fun comps => comps.mapM (quantUV c cfg.format)) = some uvs)
    (huvl : uvs.length = m.indices.length) :
    ∃ back, assemble built m.attrLen rows (some (m.indices, uvs)) = .ok back ∧ RoundTrips c cfg m back = true := by
  by_cases hemp : m.indices = []
  · have hu0 : uvs = [] := by cases uvs <;> simp_all
    have ht := applyColumns_topo (⟨.triangle, ([] : List Int), [], none⟩ : MeshVal α) built rows
    refine ⟨applyColumns ⟨.triangle, [], [], none⟩ built rows, by simp [assemble, hu0, hemp, pure, Except.pure], ?_⟩
    simp only [RoundTrips, Bool.and_eq_true, List.all_eq_true, decide_eq_true_eq, ht.1, htri, primCount, ht.2, hemp,
      true_and]
    refine ⟨?_, ?_⟩
    · intro w _
      simp [cornerVals, ht.2, hemp]
    · simp [cornerVals, ht.2, hemp, htc]
  · have hmne : m.indices.isEmpty = false := by cases hm : m.indices <;> simp_all
    have ht := applyColumns_topo (⟨.triangle, m.indices, [], none⟩ : MeshVal α) built rows
    have hmlen := applyColumns_len (⟨.triangle, m.indices, [], none⟩ : MeshVal α) built rows (by simp)
    let g : Attr α → List (List α) := fun a => ((gather a.data m.indices).toOption).getD []
    have hg : ∀ a ∈ (applyColumns (⟨.triangle, m.indices, [], none⟩ : MeshVal α) built rows).attrs,
        gather a.data m.indices = .ok (g a) := by
      intro a ha
      have hl := hmlen a ha
      obtain ⟨out, hout⟩ := gather_ok a.data m.indices (fun i hi => by
        have := WF_idx m hwf i hi; exact ⟨this.1, by omega⟩)
      simp [g, hout, Except.toOption]
    have hupos : 0 < uvs.length := by
      rw [huvl]; cases hm : m.indices with
      | nil => exact absurd hm hemp
      | cons x xs => simp
    have hune : uvs ≠ [] := by intro h0; rw [h0] at hupos; simp at hupos
    refine ⟨_, assemble_uv built m.attrLen rows m.indices uvs hupos huvl g hg, ?_⟩
    have hdel' := hdel hemp
    generalize hmesh : applyColumns (⟨.triangle, m.indices, [], none⟩ : MeshVal α) built rows = mesh at *
    generalize hback : (unweldedOf mesh g).set 2 texCoordAttr uvs = back
    have hbt : back.topo = .triangle ∧ back.indices = (List.range m.indices.length).map Int.ofNat := by
      rw [← hback]
      have := set_topo (unweldedOf mesh g) 2 texCoordAttr uvs
      rw [this.1, this.2]
      exact ⟨ht.1, by simp [unweldedOf, ht.2]⟩
    have hbne : back.indices.isEmpty = false := by
      rw [hbt.2]; cases hm : m.indices <;> simp_all
    simp only [RoundTrips, Bool.and_eq_true, List.all_eq_true, decide_eq_true_eq, hbt.1, htri, primCount, hbt.2,
      List.length_map, List.length_range, true_and]
    refine ⟨?_, ?_⟩
    · intro w hw
      simp only [List.mem_filter, Bool.and_eq_true, Bool.not_eq_true', decide_eq_true_eq] at hw
      obtain ⟨hws, hcb, hnt⟩ := hw
      have hkey : ((2 : Nat), texCoordAttr) ≠ (w.dim, w.attr) := by
        intro he
        have h1 : w.dim = 2 := (Prod.mk.inj he).1.symm
        have h2 : w.attr = texCoordAttr := (Prod.mk.inj he).2.symm
        simp [htri, h1, h2] at hnt
      obtain ⟨a, orig, ha, hfindm, ho, hmm⟩ := hdel' ⟨.triangle, m.indices, [], none⟩ w hws hcb
      rw [hmesh] at hfindm
      have horl : orig.length = m.indices.length := gather_length _ _ _ ho
      have hfb : back.find w.dim w.attr = some ⟨w.dim, w.attr, orig.map (List.map (G w))⟩ := by
        rw [← hback, set_find_ne _ _ _ _ _ _ hkey]
        simp only [MeshVal.find, unweldedOf] at hfindm ⊢
        rw [find_map_data, hfindm]
        simp only [Option.map_some, g, gather_map, ho, Except.map, Except.toOption, Option.getD_some]
      have hgb : gather (orig.map (List.map (G w))) back.indices = .ok (orig.map (List.map (G w))) := by
        rw [hbt.2, ← horl]
        have := gather_range _ (orig.map (List.map (G w)))
        simpa using this
      simp [cornerVals, hmne, hbne, ha, ho, hfb, hgb, Except.toOption, hmm]
    · have hfbt : back.find 2 texCoordAttr = some ⟨2, texCoordAttr, uvs⟩ := by
        rw [← hback]; exact set_find_eq _ _ _ _ hune
      have hgbt : gather uvs back.indices = .ok uvs := by
        rw [hbt.2, ← huvl]
        exact gather_range _ uvs
      simp [htc, cornerVals, hmne, hbne, htex, hoUV, hfbt, hgbt, Except.toOption, hmmuv]


/-! ## ASCII: the arrays are the right ones -/

theorem mapM_some_map_mem {β γ : Type} (q : β → Option γ) (g : β → γ) :
    ∀ (l : List β), (∀ x ∈ l, q x = some (g x)) → l.mapM q = some (l.map g) := by
  intro l
  induction l with
  | nil => intro _; rfl
  | cons x l ih =>
    intro h
    simp [List.mapM_cons, h x (by simp), ih (fun y hy => h y (by simp [hy]))]

theorem gather_mem {β : Type} (data : List β) (idx : List Int) (out : List β) (h : gather data idx = .ok out) :
    ∀ x ∈ out, x ∈ data := by
  rw [gather_eq_mapM] at h
  have hall := mapM_ok_forall₂ _ _ _ h
  clear h
  induction hall with
  | nil => intro x hx; simp at hx
  | @cons i y is ys hxy _ ih =>
    intro x hx
    simp only [List.mem_cons] at hx
    rcases hx with rfl | hx
    · simp only [atIdx] at hxy
      split at hxy
      · simp at hxy
      · split at hxy
        · rename_i x' hx'
          simp at hxy
          subst hxy
          exact List.mem_of_getElem? hx'
        · simp at hxy
    · exact ih x hx

/-- the value an ASCII-printed scalar of type `t` reads back as (under the law of the float text) -/
def quantA (c : Coding α) (L : GoFloatText c) (dim : Nat) : SType → α → α
  | .uchar, v => c.norm8 dim (c.ofInt (c.u8 v).toNat)
  | .float, v => L.imgF v
  | .double, v => L.imgF v
  | _, v => L.imgI v

theorem quant_ascii_some (c : Coding α) (L : GoFloatText c) (dim : Nat) (t : SType) (ht : t ≠ .char) (v : α)
    (hr : L.inRange v) : quant c .ascii dim t v = some (quantA c L dim t v) := by
  cases t <;> simp_all [quant, encScalarAscii, quantA, L.parse32_showF v hr, L.parse32_showI,
    L.parse32_showU8 _ (c.u8 v).toNat_lt]

theorem record_at_gen (m : MeshVal α) (hwf : m.WF = true) (v : Nat) (ws : List WProp) (vals : List α)
    (hrec : vertexRecord m ws v = .ok vals) (hnd : ((headerProps ws).map (·.1)).Nodup)
    (w : WProp) (hw : w ∈ ws) (comps : List α) (hwv : writerValues m w v = .ok comps)
    (idxs : List Nat) (hlen : idxs.length = w.names.length)
    (hidx : ∀ k (hk : k < idxs.length) (hk' : k < w.names.length), ((headerProps ws)[idxs[k]]?).map (·.1) = some w.names[k])
    (F : SType → α → Option α) (G : α → α) (hF : ∀ x ∈ comps, F w.ty x = some (G x)) :
    idxs.filterMap (fun i =>
        match (writerTypes ws)[i]?, vals[i]? with
        | some t, some x => F t x
        | _, _ => none)
      = comps.map G := by
  simp only [vertexRecord] at hrec
  cases hp : ws.mapM (fun w => writerValues m w v) with
  | error e => simp [hp, bind, Except.bind] at hrec
  | ok parts =>
    simp [hp, bind, Except.bind, pure, Except.pure] at hrec
    subst hrec
    have hall := mapM_ok_forall₂ _ _ _ hp
    have hlens : All2 (fun (w : WProp) (p : List α) => p.length = w.names.length) ws parts :=
      hall.imp (fun w p h => writerValues_length m hwf w v p h)
    have hzip : (w, comps) ∈ ws.zip parts := by
      clear hlens hnd hidx hp
      induction hall with
      | nil => simp at hw
      | @cons w0 p0 ws' parts' h0 _ ih =>
        simp at hw
        rcases hw with rfl | hw
        · rw [hwv] at h0; simp at h0; subst h0; simp
        · simp only [List.zip_cons_cons, List.mem_cons]; exact .inr (ih hw)
    have hcl : comps.length = w.names.length := writerValues_length m hwf w v comps hwv
    apply filterMap_eq_of_pointwise
    · simp [hlen, hcl]
    · intro k hk hk'
      simp only [List.length_map] at hk'
      obtain ⟨i, h1, h2⟩ := parallel_at hlens w comps hzip k (by omega) hk'
      have hik := hidx k hk (by omega)
      cases hpi : (headerProps ws)[idxs[k]]? with
      | none => simp [hpi] at hik
      | some q =>
        simp [hpi] at hik
        have hq : (headerProps ws)[idxs[k]]? = some (w.names[k]'(by omega), q.2) := by rw [hpi, ← hik]
        have hii := idx_unique (headerProps ws) hnd i idxs[k] _ _ _ h1 hq
        rw [hii] at h1 h2
        have hty : (writerTypes ws)[idxs[k]]? = some w.ty := by
          rw [← headerProps_types, List.getElem?_map, h1]; rfl
        simp [hty, h2, hF _ (List.getElem_mem hk')]

/-- ASCII readers located where their names are -/
structure LocatedNamedA (props : List (Bytes × SType)) (b : Built) (idxs : List Nat) : Prop where
  loc : LocatedA (props.map (·.2)) b idxs
  len : idxs.length = b.names.length
  named : ∀ k (hk : k < idxs.length) (hk' : k < b.names.length), (props[idxs[k]]?).map (·.1) = some b.names[k]

structure ClaimOKA (cfg : WriterCfg) (m : MeshVal α) (bl : List (Built × List Nat)) : Prop where
  built : bl.map (·.1) = buildAll false (headerProps (selectWriters cfg m)) defaultReaders true
  located : ∀ p ∈ bl, LocatedNamedA (headerProps (selectWriters cfg m)) p.1 p.2
  demanded : ∀ w ∈ selectWriters cfg m, comesBack w = true →
    ∃ j, ∃ hj : j < bl.length, bl[j].1.attr = w.attr ∧ bl[j].1.names = w.names ∧
      ∀ j' (hj' : j' < bl.length), j < j' → Built.key bl[j'].1 ≠ Built.key bl[j].1

theorem column_of_writer_ascii (c : Coding α) (L : GoFloatText c) (m : MeshVal α) (hwf : m.WF = true) (ws : List WProp)
    (hnd : ((headerProps ws).map (·.1)).Nodup) (recs : List (List α))
    (hrecs : (List.range m.attrLen).mapM (vertexRecord m ws) = .ok recs)
    (w : WProp) (hw : w ∈ ws) (hty : w.ty ≠ .char) (a : Attr α) (ha : m.find w.dim w.attr = some a)
    (bl : List (Built × List Nat)) (j : Nat) (hj : j < bl.length) (hnames : bl[j].1.names = w.names)
    (hln : LocatedNamedA (headerProps ws) bl[j].1 bl[j].2) (hrange : InRangeMesh L m) :
    recs.map (fun vals => (rowOfA c (writerTypes ws) bl vals).getD j [])
      = a.data.map (List.map (quantA c L w.dim w.ty)) := by
  have hall := mapM_ok_forall₂ _ _ _ hrecs
  have hrl : recs.length = m.attrLen := by simpa using hall.length_eq
  obtain ⟨hmem, hdim⟩ := find_mem m _ _ a ha
  have hal : a.data.length = m.attrLen := WF_len m hwf a hmem
  apply List.ext_getElem
  · simp [hrl, hal]
  · intro v hv hv'
    simp only [List.length_map] at hv hv'
    have hrec : vertexRecord m ws v = .ok recs[v] := by
      have := PlyCompose.All2.get hall v (by simp; omega) hv
      simpa using this
    have hwv : writerValues m w v = .ok a.data[v] := by
      simp [writerValues, ha, List.getElem?_eq_getElem hv']
    have hlen : bl[j].2.length = w.names.length := by rw [hln.len, hnames]
    have := record_at_gen m hwf v ws recs[v] hrec hnd w hw a.data[v] hwv bl[j].2 hlen
      (fun k hk hk' => by
        have := hln.named k hk (by rw [hnames]; exact hk')
        simpa [hnames] using this) (quant c .ascii w.dim) (quantA c L w.dim w.ty)
      (fun x hx => quant_ascii_some c L w.dim w.ty hty x (hrange a hmem _ (List.getElem_mem hv') x hx))
    simp only [List.getElem_map, rowOfA, List.getD_eq_getElem?_getD, List.getElem?_map,
      List.getElem?_eq_getElem hj, Option.map_some, Option.getD_some]
    have hdimeq : bl[j].1.names.length = w.dim := by rw [hnames]; rfl
    simp only [hdimeq]
    exact this


theorem faceUVA_flatten (m : MeshVal α) (hwf : m.WF = true) (tex : Attr α)
    (htex : m.find 2 texCoordAttr = some tex) (tris : List (Int × Int × Int)) (fs : List (WFace α))
    (hc : chunk3 m.indices = some tris) (hfs : faceRecords m tris = .ok fs) (orig : List (List α))
    (ho : gather tex.data m.indices = .ok orig) :
    (fs.map faceUVA).flatten = orig := by
  obtain ⟨hmem, hdim⟩ := find_mem m _ _ tex htex
  have hitem : ∀ x ∈ tex.data, x.length = 2 := fun x hx => by rw [WF_items m hwf tex hmem x hx, hdim]
  rw [chunk3_flatten _ _ hc, gather_eq_mapM] at ho
  simp only [faceRecords, htex] at hfs
  have hall := mapM_ok_forall₂ _ tris fs hfs
  clear hfs hc
  induction hall generalizing orig with
  | nil => simp [pure, Except.pure] at ho; subst ho; rfl
  | @cons t f ts fs' hxy _ ih =>
    obtain ⟨a, b, c'⟩ := t
    simp only [List.map_cons, List.flatten_cons] at ho
    obtain ⟨o1, o2, h1, h2, rfl⟩ := mapM_append_ok _ _ _ _ ho
    simp only [List.mapM_cons, List.mapM_nil] at h1
    cases ha : atIdx tex.data a with
    | error e => simp [ha, bind, Except.bind] at h1
    | ok p1 =>
      cases hb : atIdx tex.data b with
      | error e => simp [ha, hb, bind, Except.bind] at h1
      | ok p2 =>
        cases hcc : atIdx tex.data c' with
        | error e => simp [ha, hb, hcc, bind, Except.bind] at h1
        | ok p3 =>
          simp [ha, hb, hcc, bind, Except.bind, pure, Except.pure] at h1 hxy
          subst h1 hxy
          have l1 := hitem p1 (atIdx_mem _ _ _ ha)
          have l2 := hitem p2 (atIdx_mem _ _ _ hb)
          have l3 := hitem p3 (atIdx_mem _ _ _ hcc)
          rw [List.map_cons, List.flatten_cons, ih o2 h2]
          match p1, l1, p2, l2, p3, l3 with
          | [x1, y1], _, [x2, y2], _, [x3, y3], _ => simp [faceUVA]

/-- a printed scalar type is one the ASCII writer implements (`char` panics) -/
theorem written_type_ascii (c : Coding α) (m : MeshVal α) (hwf : m.WF = true) (ws : List WProp)
    (vals : List α) (rec : Bytes) (v : Nat) (hrec : vertexRecord m ws v = .ok vals)
    (henc : encRecordAscii c (writerTypes ws) vals = .ok rec) (w : WProp) (hw : w ∈ ws) (hne : w.names ≠ []) :
    w.ty ≠ .char := by
  have hvl := vertexRecord_length m hwf v ws vals hrec
  obtain ⟨toks, htoks, _⟩ := encRecordAscii_toks c _ vals rec henc
  obtain ⟨htl, hat⟩ := toks_at c _ vals toks hvl htoks
  simp only [vertexRecord] at hrec
  cases hp : ws.mapM (fun w => writerValues m w v) with
  | error e => simp [hp, bind, Except.bind] at hrec
  | ok parts =>
    simp [hp, bind, Except.bind, pure, Except.pure] at hrec
    subst hrec
    have hall := mapM_ok_forall₂ _ _ _ hp
    have hlens : All2 (fun (w : WProp) (p : List α) => p.length = w.names.length) ws parts :=
      hall.imp (fun w p h => writerValues_length m hwf w v p h)
    obtain ⟨comps, hwv⟩ := PlyCompose.All2.exists_left hall w hw
    have hzip : (w, comps) ∈ ws.zip parts := by
      clear hlens hp hvl htoks hat htl henc
      induction hall with
      | nil => simp at hw
      | @cons w0 p0 ws' parts' h0 _ ih =>
        simp at hw
        rcases hw with rfl | hw
        · rw [hwv] at h0; simp at h0; subst h0; simp
        · simp only [List.zip_cons_cons, List.mem_cons]; exact .inr (ih hw)
    have hcl : comps.length = w.names.length := writerValues_length m hwf w v comps hwv
    have h0 : 0 < w.names.length := by cases hn : w.names <;> simp_all
    obtain ⟨i, h1, h2⟩ := parallel_at hlens w comps hzip 0 h0 (by omega)
    obtain ⟨hi, _⟩ := List.getElem?_eq_some_iff.mp h2
    have hty : (writerTypes ws)[i]? = some w.ty := by
      rw [← headerProps_types, List.getElem?_map, h1]; rfl
    obtain ⟨hi', hte⟩ := List.getElem?_eq_some_iff.mp hty
    have := hat i hi' hi (by omega)
    rw [hte] at this
    intro hc
    rw [hc] at this
    simp [encScalarAscii] at this

theorem delivers_ascii [BEq α] (c : Coding α) (L : GoFloatText c) (cfg : WriterCfg) (m : MeshVal α) (body : Bytes)
    (hf : cfg.format = .ascii) (hwf : m.WF = true) (h : writeBody c cfg m = .ok body)
    (hnd : ((headerProps (selectWriters cfg m)).map (·.1)).Nodup)
    (bl : List (Built × List Nat)) (hcl : ClaimOKA cfg m bl) (recs : List (List α))
    (hrecs : (List.range m.attrLen).mapM (vertexRecord m (selectWriters cfg m)) = .ok recs)
    (hemp : m.indices ≠ []) (hrange : InRangeMesh L m) :
    Delivers c cfg m (bl.map (·.1)) (recs.map (rowOfA c (writerTypes (selectWriters cfg m)) bl))
      (fun w => quantA c L w.dim w.ty) := by
  intro base w hws hcb
  obtain ⟨i0, hi0⟩ := List.exists_mem_of_ne_nil _ hemp
  have hpos : 0 < m.attrLen := by have := WF_idx m hwf i0 hi0; omega
  have hall := mapM_ok_forall₂ _ _ _ hrecs
  have hrl : recs.length = m.attrLen := by simpa using hall.length_eq
  have hr0 : vertexRecord m (selectWriters cfg m) 0 = .ok recs[0] := by
    have := PlyCompose.All2.get hall 0 (by simpa using hpos) (by omega)
    simpa using this
  have hfind : ∃ a, m.find w.dim w.attr = some a := by
    have hr0' := hr0
    simp only [vertexRecord] at hr0'
    cases hp : (selectWriters cfg m).mapM (fun w => writerValues m w 0) with
    | error e => simp [hp, bind, Except.bind] at hr0'
    | ok parts =>
      obtain ⟨p, hp'⟩ := PlyCompose.All2.exists_left (mapM_ok_forall₂ _ _ _ hp) w hws
      simp only [writerValues] at hp'
      cases hfa : m.find w.dim w.attr with
      | none => simp [hfa] at hp'
      | some a => exact ⟨a, rfl⟩
  obtain ⟨a, ha⟩ := hfind
  obtain ⟨hmem, hdim⟩ := find_mem m _ _ a ha
  -- the type is printable
  obtain ⟨recs', vbytes, faceBytes, hrecs', hallenc, _, _, _⟩ := writeBody_ascii_parts c cfg m body hf h
  rw [hrecs] at hrecs'
  have hre : recs' = recs := by injection hrecs' with h'; exact h'.symm
  subst hre
  have hvl : vbytes.length = recs'.length := hallenc.length_eq
  have henc0 := PlyCompose.All2.get hallenc 0 (by omega) (by omega)
  have hty := written_type_ascii c m hwf _ _ _ 0 hr0 henc0 w hws (comesBack_names_ne w hcb)
  obtain ⟨j, hj, hattr, hnames, hlastj⟩ := hcl.demanded w hws hcb
  have hcol := column_of_writer_ascii c L m hwf _ hnd recs' hrecs w hws hty a ha bl j hj hnames
    (hcl.located _ (List.getElem_mem hj)) hrange
  have hj' : j < (bl.map (·.1)).length := by simpa using hj
  have hrows : recs'.map (rowOfA c (writerTypes (selectWriters cfg m)) bl) ≠ [] := by
    cases hr : recs' with
    | nil => rw [hr] at hrl; simp at hrl; omega
    | cons r rs => simp
  have hfindb := applyColumns_find base (bl.map (·.1))
    (recs'.map (rowOfA c (writerTypes (selectWriters cfg m)) bl)) j hj'
    (fun j' hj'' hlt => by
      have := hlastj j' (by simpa using hj'') hlt
      simpa using this) hrows
  have hkd : ((bl.map (fun (x : Built × List Nat) => x.1))[j]'hj').names.length = w.dim := by simp [hnames, WProp.dim]
  have hka : ((bl.map (fun (x : Built × List Nat) => x.1))[j]'hj').attr = w.attr := by simp [hattr]
  rw [hkd, hka] at hfindb
  simp only [List.map_map, Function.comp_def] at hfindb
  rw [hcol] at hfindb
  obtain ⟨orig, ho⟩ := gather_ok a.data m.indices (fun i hi => by
    have := WF_idx m hwf i hi
    have hal : a.data.length = m.attrLen := WF_len m hwf a hmem
    exact ⟨this.1, by omega⟩)
  refine ⟨a, orig, ha, hfindb, ho, ?_⟩
  apply mapM_some_map_mem
  intro comps hc
  rw [hf]
  exact mapM_some_map_mem _ _ comps
    (fun x hx => quant_ascii_some c L w.dim w.ty hty x (hrange a hmem comps (gather_mem _ _ _ ho comps hc) x hx))


theorem faceUVA_nil (fs : List (WFace α)) (h : ∀ f ∈ fs, UvOk false f) : (fs.map faceUVA).flatten = [] := by
  induction fs with
  | nil => rfl
  | cons f fs ih =>
    have hf := h f (by simp)
    have : faceUVA f = [] := by
      cases huv : f.uv with
      | none => simp [faceUVA, huv]
      | some uv => simp [UvOk, huv] at hf
    simp [this, ih (fun g hg => h g (by simp [hg]))]

/-- THE COMPOSED ROUND TRIP, ASCII, at the parsed-header interface -/
theorem readback_ascii [BEq α] [LawfulBEq α] (c : Coding α) (L : GoFloatText c) (cfg : WriterCfg) (m : MeshVal α)
    (body : Bytes) (hf : cfg.format = .ascii) (hwf : m.WF = true) (h : writeBody c cfg m = .ok body)
    (htys : m.attrLen = 0 ∨ writerTypes (selectWriters cfg m) ≠ [])
    (hpoint : m.topo = .point → m.indices = (List.range m.attrLen).map Int.ofNat)
    (hsize : m.attrLen ≤ 2 ^ 31) (hrange : InRangeMesh L m)
    (bl : List (Built × List Nat)) (hcl : ClaimOKA cfg m bl) :
    ∃ back, readBody c defaultReader (writeHeader cfg m) body = .ok back ∧ RoundTrips c cfg m back = true := by
  have hnd := (names_of_writeBody_ok c cfg m body h).2
  have hloc : ∀ p ∈ bl, LocatedA (writerTypes (selectWriters cfg m)) p.1 p.2 := by
    intro p hp
    have := (hcl.located p hp).loc
    rwa [headerProps_types] at this
  obtain ⟨recs, hrecs, hpt, htr⟩ := readBody_writeBody_arrays_ascii c L cfg m body hf hwf h htys hsize hrange bl hcl.built hloc
  have hrl : recs.length = m.attrLen := by simpa using (mapM_ok_forall₂ _ _ _ hrecs).length_eq
  have hdel := fun hemp => delivers_ascii c L cfg m body hf hwf h hnd bl hcl recs hrecs hemp hrange
  by_cases ht : m.topo = .triangle
  · obtain ⟨tris, fs, hc, hfs, hread⟩ := htr ht
    obtain ⟨hidx, huv⟩ := faceRecords_shape m hwf tris fs hfs
    by_cases htc : hasTexCoord m = true
    · obtain ⟨tex, htex⟩ : ∃ tex, m.find 2 texCoordAttr = some tex := by
        simp only [hasTexCoord, MeshVal.has] at htc
        exact Option.isSome_iff_exists.mp htc
      obtain ⟨hmemT, _⟩ := find_mem m _ _ tex htex
      have hlenT : tex.data.length = m.attrLen := WF_len m hwf tex hmemT
      obtain ⟨origUV, hoUV⟩ := gather_ok tex.data m.indices (fun i hi => by
        have := WF_idx m hwf i hi; exact ⟨this.1, by omega⟩)
      have huvs := faceUVA_flatten m hwf tex htex tris fs hc hfs origUV hoUV
      have hmm : origUV.mapM (fun comps => comps.mapM (quantUV c cfg.format)) = some origUV := by
        have hq : ∀ v, quantUV c cfg.format v = some (id v) := by
          intro v; rw [hf]; simp [quantUV, L.parse64_showF]
        have := mapM_some_map (fun comps : List α => comps.mapM (quantUV c cfg.format)) (List.map id)
          (fun comps => mapM_some_map _ _ hq comps) origUV
        simpa using this
      rw [hread, huvs]
      exact roundTrips_unwelded c cfg m hwf ht htc (bl.map (·.1)) _ (by simpa using hrl)
        (fun w => quantA c L w.dim w.ty) hdel tex htex origUV origUV hoUV hmm (gather_length _ _ _ hoUV)
    · have hT : hasTexCoord m = false := by simpa using htc
      rw [hT] at huv
      rw [hread, faceUVA_nil fs huv]
      refine ⟨applyColumns ⟨m.topo, m.indices, [], none⟩ (bl.map (·.1))
        (recs.map (rowOfA c (writerTypes (selectWriters cfg m)) bl)), by simp [assemble, ht, pure, Except.pure], ?_⟩
      exact roundTrips_welded c cfg m (by simp [hT]) (bl.map (·.1))
        (recs.map (rowOfA c (writerTypes (selectWriters cfg m)) bl)) (fun w => quantA c L w.dim w.ty) hdel
  · have hp : m.topo = .point := by cases hm : m.topo <;> simp_all
    rw [hpt ht]
    refine ⟨applyColumns ⟨m.topo, m.indices, [], none⟩ (bl.map (·.1))
      (recs.map (rowOfA c (writerTypes (selectWriters cfg m)) bl)), by simp [assemble, hp, hpoint hp, pure, Except.pure], ?_⟩
    exact roundTrips_welded c cfg m (by simp [ht]) (bl.map (·.1))
      (recs.map (rowOfA c (writerTypes (selectWriters cfg m)) bl)) (fun w => quantA c L w.dim w.ty) hdel


/-! ## the ASCII claim stage, checked -/

def locatedNamedAB (props : List (Bytes × SType)) (b : Built) (idxs : List Nat) : Bool :=
  b.offs == idxs &&
  idxs.all (fun i => match props[i]? with
    | none => false
    | some p => (b.ty == some .uchar) == (p.2 == .uchar)) &&
  idxs.length == b.names.length &&
  (idxs.zip b.names).all (fun x => (props[x.1]?).map (·.1) == some x.2)

theorem locatedNamedAB_sound (props : List (Bytes × SType)) (b : Built) (idxs : List Nat)
    (h : locatedNamedAB props b idxs = true) : LocatedNamedA props b idxs := by
  simp only [locatedNamedAB, Bool.and_eq_true, List.all_eq_true, beq_iff_eq] at h
  obtain ⟨⟨⟨h1, h2⟩, h3⟩, h4⟩ := h
  refine ⟨⟨h1, ?_⟩, h3, ?_⟩
  · intro i hi
    have := h2 i hi
    cases hp : props[i]? with
    | none => simp [hp] at this
    | some p =>
      obtain ⟨hi', hpe⟩ := List.getElem?_eq_some_iff.mp hp
      simp only [hp] at this
      refine ⟨by simpa using hi', ?_⟩
      simp only [List.getElem_map, hpe]
      constructor
      · intro hb; have hb' : (b.ty == some SType.uchar) = true := by simp [hb]
        rw [hb'] at this; simpa using this.symm
      · intro hu; have hu' : (p.2 == SType.uchar) = true := by simp [hu]
        rw [hu'] at this; simpa using this
  · intro k hk hk'
    have hmem : (idxs[k], b.names[k]) ∈ idxs.zip b.names := by
      have : (idxs.zip b.names)[k]'(by simp; omega) = (idxs[k], b.names[k]) := by simp
      rw [← this]; exact List.getElem_mem _
    exact h4 _ hmem

def claimCheckA (cfg : WriterCfg) (m : MeshVal α) : Option (List (Built × List Nat)) :=
  let props := headerProps (selectWriters cfg m)
  let bl := (buildAll false props defaultReaders true).map (fun b => (b, b.names.map (posOf props)))
  if bl.all (fun p => locatedNamedAB props p.1 p.2) && demandedB (selectWriters cfg m) bl then some bl else none

theorem claimCheckA_sound (cfg : WriterCfg) (m : MeshVal α) (bl : List (Built × List Nat))
    (h : claimCheckA cfg m = some bl) : ClaimOKA cfg m bl := by
  simp only [claimCheckA] at h
  split at h
  · rename_i hc
    simp at h
    subst h
    simp only [Bool.and_eq_true, List.all_eq_true] at hc
    obtain ⟨hl, hd⟩ := hc
    refine ⟨by simp [Function.comp_def], fun p hp => locatedNamedAB_sound _ _ _ (hl p hp), ?_⟩
    intro w hw hcb
    simp only [demandedB, List.all_eq_true] at hd
    have := hd w hw
    simp only [hcb, Bool.not_true, Bool.false_or, List.any_eq_true, List.mem_range] at this
    obtain ⟨j, hj, hjj⟩ := this
    rw [List.getElem?_eq_getElem hj] at hjj
    simp only [Bool.and_eq_true, beq_iff_eq, List.all_eq_true, List.mem_range] at hjj
    obtain ⟨⟨ha, hn⟩, hlast⟩ := hjj
    refine ⟨j, hj, ha, hn, ?_⟩
    intro j' hj' hlt
    have := hlast j' hj'
    rw [List.getElem?_eq_getElem hj'] at this
    simpa [hlt] using this
  · simp at h

/-- a concrete coding satisfying the law of the float text ("float32" keeps a natural mod 2³², and so does the 32-bit parser) -/
def toyCodingA : Coding Nat := { toyCoding with parseF := fun s => (parseDigits s 0).map (fun n => n % 2 ^ 32) }

def toyLaw : GoFloatText toyCodingA where
  inRange := fun _ => True
  imgF := fun v => v % 2 ^ 32
  imgI := fun v => v % 2 ^ 32
  tokF := fun v => showNat_tok v
  tokI := fun v => showNat_tok v
  parse32_showF := by
    intro v _
    obtain ⟨ds, hds, _, hp⟩ := showNat_spec v
    show (parseDigits (showNat v) 0).map (fun n => n % 2 ^ 32) = some (v % 2 ^ 32)
    rw [hds, hp]; rfl
  parse32_showI := by
    intro v
    obtain ⟨ds, hds, _, hp⟩ := showNat_spec v
    show (parseDigits (showNat v) 0).map (fun n => n % 2 ^ 32) = some (v % 2 ^ 32)
    rw [hds, hp]; rfl
  parse32_showU8 := by
    intro n hn
    obtain ⟨ds, hds, _, hp⟩ := showNat_spec n
    show (parseDigits (showNat n) 0).map (fun n => n % 2 ^ 32) = some ((n : Int).toNat)
    rw [hds, hp]; simp; omega
  parse64_showF := by
    intro v
    obtain ⟨ds, hds, _, hp⟩ := showNat_spec v
    show parseDigits (showNat v) 0 = some v
    rw [hds, hp]


/-! ## the three encodings agree: generic part -/

theorem cornerVals_mem (m : MeshVal α) (dim : Nat) (name : Bytes) (orig : List (List α))
    (h : cornerVals m dim name = some orig) :
    ∀ comps ∈ orig, ∃ a, m.find dim name = some a ∧ comps ∈ a.data := by
  intro comps hc
  simp only [cornerVals] at h
  split at h
  · simp at h; subst h; simp at hc
  · split at h
    · simp at h
    · rename_i a ha
      cases hg : gather a.data m.indices with
      | error e => simp [hg, Except.toOption] at h
      | ok out =>
        simp [hg, Except.toOption] at h
        subst h
        exact ⟨a, ha, gather_mem _ _ _ hg comps hc⟩

theorem mapM_option_congr {β γ : Type} (f g : β → Option γ) : ∀ (xs : List β), (∀ x ∈ xs, f x = g x) →
    xs.mapM f = xs.mapM g := by
  intro xs
  induction xs with
  | nil => intro _; rfl
  | cons x xs ih =>
    intro h
    simp only [List.mapM_cons]
    rw [h x (by simp), ih (fun y hy => h y (by simp [hy]))]

/-- the content `RoundTrips` speaks about is the same in two meshes -/
def SameContent (cfg : WriterCfg) (m a b : MeshVal α) : Prop :=
  a.topo = b.topo ∧ primCount a = primCount b ∧
  (∀ w ∈ selectWriters cfg m, comesBack w = true → ¬ (m.topo = .triangle ∧ w.dim = 2 ∧ w.attr = texCoordAttr) →
    ∃ vals, cornerVals a w.dim w.attr = some vals ∧ cornerVals b w.dim w.attr = some vals) ∧
  (m.topo = .triangle → hasTexCoord m = true →
    ∃ vals, cornerVals a 2 texCoordAttr = some vals ∧ cornerVals b 2 texCoordAttr = some vals)

theorem sameContent_of_roundTrips [BEq α] [LawfulBEq α] (c : Coding α) (cfg₁ cfg₂ : WriterCfg) (m a b : MeshVal α)
    (hsel : selectWriters cfg₂ m = selectWriters cfg₁ m)
    (h₁ : RoundTrips c cfg₁ m a = true) (h₂ : RoundTrips c cfg₂ m b = true)
    (hq : ∀ w ∈ selectWriters cfg₁ m, comesBack w = true → ∀ at', m.find w.dim w.attr = some at' →
      ∀ comps ∈ at'.data, ∀ v ∈ comps, quant c cfg₁.format w.dim w.ty v = quant c cfg₂.format w.dim w.ty v)
    (huv : m.topo = .triangle → ∀ at', m.find 2 texCoordAttr = some at' →
      ∀ comps ∈ at'.data, ∀ v ∈ comps, quantUV c cfg₁.format v = quantUV c cfg₂.format v) :
    SameContent cfg₁ m a b := by
  simp only [RoundTrips, Bool.and_eq_true, List.all_eq_true, decide_eq_true_eq, hsel] at h₁ h₂
  obtain ⟨⟨⟨ht1, hp1⟩, hw1⟩, hu1⟩ := h₁
  obtain ⟨⟨⟨ht2, hp2⟩, hw2⟩, hu2⟩ := h₂
  refine ⟨by rw [ht1, ht2], by rw [hp1, hp2], ?_, ?_⟩
  · intro w hw hcb hnt
    have hmem : w ∈ (selectWriters cfg₁ m).filter
        (fun w => comesBack w && !(m.topo = .triangle && w.dim = 2 && w.attr = texCoordAttr)) := by
      simp only [List.mem_filter, hw, hcb, true_and, Bool.true_and, Bool.not_eq_true', Bool.and_eq_false_iff,
        decide_eq_false_iff_not]
      by_cases h1 : m.topo = .triangle
      · by_cases h2 : w.dim = 2
        · exact Or.inr (fun h3 => hnt ⟨h1, h2, h3⟩)
        · exact Or.inl (Or.inr h2)
      · exact Or.inl (Or.inl h1)
    have e1 := hw1 w hmem
    have e2 := hw2 w hmem
    cases ho : cornerVals m w.dim w.attr with
    | none => simp [ho] at e1
    | some orig =>
      cases hga : cornerVals a w.dim w.attr with
      | none => simp [ho, hga] at e1
      | some ga =>
        cases hgb : cornerVals b w.dim w.attr with
        | none => simp [ho, hgb] at e2
        | some gb =>
          simp only [ho, hga, hgb, beq_iff_eq] at e1 e2
          have hmm : orig.mapM (fun comps => comps.mapM (quant c cfg₁.format w.dim w.ty))
              = orig.mapM (fun comps => comps.mapM (quant c cfg₂.format w.dim w.ty)) := by
            apply mapM_option_congr
            intro comps hc
            obtain ⟨at', hat, hin⟩ := cornerVals_mem m _ _ orig ho comps hc
            apply mapM_option_congr
            intro v hv
            exact hq w hw hcb at' hat comps hin v hv
          rw [hmm, e2] at e1
          simp at e1
          exact ⟨ga, rfl, by rw [e1]⟩
  · intro htri htc
    simp only [htri, htc, if_true, and_self] at hu1 hu2
    cases ho : cornerVals m 2 texCoordAttr with
    | none => simp [ho] at hu1
    | some orig =>
      cases hga : cornerVals a 2 texCoordAttr with
      | none => simp [ho, hga] at hu1
      | some ga =>
        cases hgb : cornerVals b 2 texCoordAttr with
        | none => simp [ho, hgb] at hu2
        | some gb =>
          simp only [ho, hga, hgb, beq_iff_eq] at hu1 hu2
          have hmm : orig.mapM (fun comps => comps.mapM (quantUV c cfg₁.format))
              = orig.mapM (fun comps => comps.mapM (quantUV c cfg₂.format)) := by
            apply mapM_option_congr
            intro comps hc
            obtain ⟨at', hat, hin⟩ := cornerVals_mem m _ _ orig ho comps hc
            apply mapM_option_congr
            intro v hv
            exact huv htri at' hat comps hin v hv
          rw [hmm, hu2] at hu1
          simp at hu1
          exact ⟨ga, rfl, by rw [hu1]⟩

theorem selectWriters_format (f g : Format) (props : List WProp) (wu : Bool) (m : MeshVal α) :
    selectWriters ⟨f, props, wu⟩ m = selectWriters ⟨g, props, wu⟩ m := rfl

/-- little- and big-endian store the same image, whatever the type and value -/
theorem quant_le_be (c : Coding α) (dim : Nat) (t : SType) (v : α) : quant c .le dim t v = quant c .be dim t v := by
  cases h : encScalarBin c Format.le.endian t v with
  | error e =>
    have h' : ∃ e', encScalarBin c Format.be.endian t v = .error e' := by
      cases t <;> simp_all [encScalarBin]
    obtain ⟨e', h'⟩ := h'
    simp [quant, h, h']
  | ok bs =>
    rw [quant_bin_some c .le (by decide) dim t v v bs h]
    have h' : ∃ bs', encScalarBin c Format.be.endian t v = .ok bs' := by
      cases t <;> simp_all [encScalarBin]
    obtain ⟨bs', h'⟩ := h'
    rw [quant_bin_some c .be (by decide) dim t v v bs' h']


/-- the class on which the ASCII and the binary encodings store the same image of every value of the mesh.  It mirrors
the known findings: every ASCII vertex scalar is parsed with bit size 32, so a `float` property agrees where the 32-bit
parse of the printed text is the float32 image (for Go: every value but exact float32 half-way values, see `GoFloatText`),
`double` and `int` properties agree only on values whose 32-bit parse is the value the binary reader delivers; the
per-corner texture coordinates are float32 in the binary encodings and full-precision text in ASCII, so they agree on
float32 values.  (8-bit SCALAR properties — the other known finding — are excluded by the ASCII claim stage `ClaimOKA`.) -/
structure AgreeGuards (c : Coding α) (L : GoFloatText c) (props : List WProp) (wu : Bool) (m : MeshVal α) : Prop where
  scalars : ∀ w ∈ selectWriters ⟨.ascii, props, wu⟩ m, comesBack w = true →
    ∀ a ∈ m.attrs, a.dim = w.dim → a.name = w.attr → ∀ comps ∈ a.data, ∀ v ∈ comps,
      (w.ty = .float ∧ L.imgF v = c.unf32 (c.f32 v)) ∨ w.ty = .uchar ∨
      (w.ty = .double ∧ L.imgF v = c.unf64 (c.f64 v)) ∨
      (w.ty = .int ∧ L.imgI v = c.ofInt (toInt32 (c.i32 v)))
  uvs : m.topo = .triangle → ∀ a ∈ m.attrs, a.dim = 2 → a.name = texCoordAttr → ∀ comps ∈ a.data, ∀ v ∈ comps,
    c.unf32 (c.f32 v) = v

theorem find_mem' (m : MeshVal α) (dim : Nat) (name : Bytes) (a : Attr α) (h : m.find dim name = some a) :
    a ∈ m.attrs ∧ a.dim = dim ∧ a.name = name := by
  simp only [MeshVal.find] at h
  have h1 := List.mem_of_find?_eq_some h
  have h2 := List.find?_some h
  simp at h2
  exact ⟨h1, h2.1, h2.2⟩

theorem quant_ascii_le (c : Coding α) (L : GoFloatText c) (dim : Nat) (t : SType) (v : α) (hr : L.inRange v)
    (h : (t = .float ∧ L.imgF v = c.unf32 (c.f32 v)) ∨ t = .uchar ∨ (t = .double ∧ L.imgF v = c.unf64 (c.f64 v)) ∨
      (t = .int ∧ L.imgI v = c.ofInt (toInt32 (c.i32 v)))) :
    quant c .ascii dim t v = quant c .le dim t v := by
  have hb : ∃ bs, encScalarBin c Format.le.endian t v = .ok bs := by
    rcases h with ⟨rfl, _⟩ | rfl | ⟨rfl, _⟩ | ⟨rfl, _⟩ <;> simp [encScalarBin]
  obtain ⟨bs, hb⟩ := hb
  rw [quant_bin_some c .le (by decide) dim t v v bs hb]
  rcases h with ⟨rfl, h⟩ | rfl | ⟨rfl, h⟩ | ⟨rfl, h⟩
  · rw [quant_ascii_some c L dim _ (by decide) v hr]; simp [quantA, quantBin, h]
  · rw [quant_ascii_some c L dim _ (by decide) v hr]; rfl
  · rw [quant_ascii_some c L dim _ (by decide) v hr]; simp [quantA, quantBin, h]
  · rw [quant_ascii_some c L dim _ (by decide) v hr]; simp [quantA, quantBin, h]


end PlyAscii
end PolyVerif
