/-
  C09 — kernel-evaluated corner values of the cell solid (see MarchVolume.lean), sign patterns with first bit true, and the positive corner.  Core Lean only.
-/
import PolyVerif.Lemmas.MarchVolume

namespace PolyVerif
namespace C09
open PolyVerif.March PolyVerif.Gen.March
namespace Tab

set_option maxRecDepth 100000 in
theorem table_cell_volume_corners_tf : ∀ b2 b3 b4 b5 b6 b7 : Bool,
    (cornerSets (crossEdges (bits8 true false b2 b3 b4 b5 b6 b7)) []).all (fun M =>
      decide (3 * (solidTris (bits8 true false b2 b3 b4 b5 b6 b7)).length ≤ volShift (solidTris (bits8 true false b2 b3 b4 b5 b6 b7)) M)) = true := by
  decide +kernel

set_option maxRecDepth 100000 in
theorem table_cell_volume_corners_tt : ∀ b2 b3 b4 b5 b6 b7 : Bool,
    (cornerSets (crossEdges (bits8 true true b2 b3 b4 b5 b6 b7)) []).all (fun M =>
      decide (3 * (solidTris (bits8 true true b2 b3 b4 b5 b6 b7)).length ≤ volShift (solidTris (bits8 true true b2 b3 b4 b5 b6 b7)) M)) = true := by
  decide +kernel

set_option maxRecDepth 100000 in
/-- … and `0 < 6·volume` at SOME corner of the parameter cube, unless no corner of the cell is inside -/
theorem table_cell_volume_positive_corner : ∀ b0 b1 b2 b3 b4 b5 b6 b7 : Bool,
    ((!b0 && !b1 && !b2 && !b3 && !b4 && !b5 && !b6 && !b7) ||
     (cornerSets (crossEdges (bits8 b0 b1 b2 b3 b4 b5 b6 b7)) []).any (fun M =>
      decide (3 * (solidTris (bits8 b0 b1 b2 b3 b4 b5 b6 b7)).length < volShift (solidTris (bits8 b0 b1 b2 b3 b4 b5 b6 b7)) M))) = true := by
  decide +kernel

end Tab
end C09
end PolyVerif
