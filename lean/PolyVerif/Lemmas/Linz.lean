/-
  C13 — lemmas about the linearizability model (core Lean only).
-/
import PolyVerif.Model.Linz
import PolyVerif.Lemmas.NodesOps

namespace PolyVerif.Linz
open Nodes
variable {V : Type} {F : Nat}

/-! ### `before` -/

theorem before_mem_left {α : Type} [DecidableEq α] {l : List α} {a b : α} (h : before l a b = true) : a ∈ l := by
  induction l with
  | nil => simp [before] at h
  | cons x xs ih =>
    simp only [before] at h
    by_cases hx : x = a
    · subst hx; exact List.mem_cons_self ..
    · simp only [hx, if_false] at h; exact List.mem_cons_of_mem _ (ih h)

theorem before_snoc {α : Type} [DecidableEq α] (l : List α) (x a b : α) :
    before (l ++ [x]) a b = (before l a b || (decide (a ∈ l) && decide (b = x))) := by
  induction l with
  | nil => simp [before]
  | cons y ys ih =>
    simp only [List.cons_append, before]
    by_cases hy : y = a
    · subst hy; simp [Bool.decide_or]
    · have : a ≠ y := fun h => hy h.symm
      simp [hy, ih, this]

/-- the meaning of `before`: `a` occurs, and `b` occurs after the first occurrence of `a` -/
theorem before_iff {α : Type} [DecidableEq α] (l : List α) (a b : α) :
    before l a b = true ↔ ∃ l1 l2, l = l1 ++ a :: l2 ∧ a ∉ l1 ∧ b ∈ l2 := by
  induction l with
  | nil => simp [before]
  | cons x xs ih =>
    simp only [before]
    by_cases hx : x = a
    · subst hx
      simp only [if_true, decide_eq_true_eq]
      constructor
      · intro h; exact ⟨[], xs, rfl, by simp, h⟩
      · rintro ⟨l1, l2, heq, hn, hb⟩
        cases l1 with
        | nil => simp at heq; rw [heq]; exact hb
        | cons y ys => simp at heq; exact absurd (List.mem_cons_self ..) (heq.1 ▸ hn)
    · simp only [hx, if_false, ih]
      constructor
      · rintro ⟨l1, l2, heq, hn, hb⟩
        exact ⟨x :: l1, l2, by simp [heq], by simp [hn]; exact fun h => hx h.symm, hb⟩
      · rintro ⟨l1, l2, heq, hn, hb⟩
        cases l1 with
        | nil => simp at heq; exact absurd heq.1 hx
        | cons y ys =>
          simp at heq
          exact ⟨ys, l2, heq.2, fun h => hn (List.mem_cons_of_mem _ h), hb⟩

theorem nodup_of_map {α β : Type} (f : α → β) {l : List α} (h : (l.map f).Nodup) : l.Nodup := by
  induction l with
  | nil => exact List.nodup_nil
  | cons a l ih =>
    simp only [List.map_cons, List.nodup_cons] at h ⊢
    exact ⟨fun ha => h.1 (List.mem_map.2 ⟨a, ha, rfl⟩), ih h.2⟩

theorem split_unique {α : Type} {b : α} {p1 q1 p2 q2 : List α} (h : p1 ++ b :: q1 = p2 ++ b :: q2)
    (hnd : (p1 ++ b :: q1).Nodup) : p1 = p2 := by
  induction p1 generalizing p2 with
  | nil =>
    cases p2 with
    | nil => rfl
    | cons y ys =>
      simp only [List.nil_append, List.cons_append, List.cons.injEq] at h
      obtain ⟨rfl, hq⟩ := h
      simp only [List.nil_append, List.nodup_cons] at hnd
      exact absurd (by rw [hq]; simp) hnd.1
  | cons x xs ih =>
    cases p2 with
    | nil =>
      simp only [List.nil_append, List.cons_append, List.cons.injEq] at h
      obtain ⟨rfl, hq⟩ := h
      simp only [List.cons_append, List.nodup_cons] at hnd
      exact absurd (by simp) hnd.1
    | cons y ys =>
      simp only [List.cons_append, List.cons.injEq] at h
      obtain ⟨rfl, hq⟩ := h
      simp only [List.cons_append, List.nodup_cons] at hnd
      rw [ih hq hnd.2]

/-! ### `replay` -/

theorem replay_append (g : Graph V) (xs ys : List (Call V)) :
    replay F g (xs ++ ys) = ((replay F (replay F g xs).1 ys).1, (replay F g xs).2 ++ (replay F (replay F g xs).1 ys).2) := by
  induction xs generalizing g with
  | nil => simp [replay]
  | cons c cs ih => simp [replay, ih]

theorem replay_length (g : Graph V) (cs : List (Call V)) : (replay F g cs).2.length = cs.length := by
  induction cs generalizing g with
  | nil => rfl
  | cons c cs ih => simp [replay, ih]

theorem replay_snoc (g : Graph V) (xs : List (Call V)) (c : Call V) :
    replay F g (xs ++ [c]) = ((seqStep F (replay F g xs).1 c).1, (replay F g xs).2 ++ [(seqStep F (replay F g xs).1 c).2]) := by
  rw [replay_append]; simp [replay]

/-! ### the sequential specification stays inside C11's invariant -/

theorem seqStep_inv {g : Graph V} (hinv : Inv F g) (c : Call V) : Inv F (seqStep F g c).1 := by
  cases c with
  | update p v =>
    simp only [seqStep]
    cases hp : g p with
    | param x n => exact setParam_inv hinv hp v
    | struct s => exact hinv
  | paramData p =>
    simp only [seqStep]
    cases hp : g p <;> exact hinv
  | artifact i => exact (Eval_ok i g hinv).inv
  | updateRejected p => exact hinv

theorem replay_inv {g : Graph V} (hinv : Inv F g) (cs : List (Call V)) : Inv F (replay F g cs).1 := by
  induction cs generalizing g with
  | nil => exact hinv
  | cons c cs ih => exact ih (seqStep_inv hinv c)

/-- by C11's `read_fresh`: an artifact is the from-scratch value of the state it is applied to -/
theorem artifact_spec {g : Graph V} (hinv : Inv F g) (i : Nat) : (seqStep F g (.artifact i)).2 = .val (Spec F g i) := by
  simp only [seqStep]
  rw [(Eval_ok i g hinv).value]

/-- the sequential specification changes parameters, processors and wiring only by `update` -/
theorem seqStep_static {g : Graph V} (c : Call V) (h : ∀ p v, c ≠ .update p v) : SameStatic (seqStep F g c).1 g := by
  cases c with
  | update p v => exact absurd rfl (h p v)
  | paramData p =>
    simp only [seqStep]
    cases g p <;> exact SameStatic.refl g
  | artifact i => exact Eval_static F g i
  | updateRejected p => exact SameStatic.refl g

/-! ### the concurrent system: invariant -/

def Pc.inCrit : Pc V → Bool
  | .holding _ _ => true
  | .executed _ _ _ => true
  | _ => false

@[simp] theorem upd_same {α : Type} (f : Nat → α) (t : Nat) (a : α) : upd f t a t = a := by simp [upd]
theorem upd_ne {α : Type} (f : Nat → α) {t u : Nat} (a : α) (h : u ≠ t) : upd f t a u = f u := by simp [upd, h]

/-- what the program counter of a client says about the history and the linearization -/
def PcOK (s : Sys V) (t : Tid) : Pc V → Prop
  | .idle => True
  | .invoked id c => Event.inv id t c ∈ s.hist ∧ ∀ o ∈ s.lin, o.id ≠ id
  | .holding id c => Event.inv id t c ∈ s.hist ∧ ∀ o ∈ s.lin, o.id ≠ id
  | .executed id c r => (⟨id, t, c, r⟩ : LOp V) ∈ s.lin
  | .unlocked id c r => (⟨id, t, c, r⟩ : LOp V) ∈ s.lin

section
variable [DecidableEq V]

structure J (F : Nat) (g0 : Graph V) (s : Sys V) : Prop where
  mutex : ∀ t, (s.pc t).inCrit = true → s.lock = some t
  locked : ∀ t, s.lock = some t → (s.pc t).inCrit = true
  state : s.g = (replay F g0 (s.lin.map (·.call))).1
  legal : (replay F g0 (s.lin.map (·.call))).2 = s.lin.map (·.resp)
  invoked : ∀ o ∈ s.lin, o.invE ∈ s.hist
  nodup : (s.lin.map (·.id)).Nodup
  complete : ∀ id r, Event.resp id r ∈ s.hist → ∃ o ∈ s.lin, o.id = id ∧ o.resp = r
  fresh : ∀ id t c, Event.inv id t c ∈ s.hist → id < s.next
  uniq : ∀ id t c t' c', Event.inv id t c ∈ s.hist → Event.inv id t' c' ∈ s.hist → t = t'
  pcs : ∀ t, PcOK s t (s.pc t)
  realtime : ∀ a ∈ s.lin, ∀ b ∈ s.lin, before s.hist a.respE b.invE = true → before s.lin a b = true

theorem J.init (g0 : Graph V) : J F g0 (Sys.init g0) := by
  refine ⟨?_, ?_, rfl, rfl, ?_, ?_, ?_, ?_, ?_, ?_, ?_⟩ <;> simp [Sys.init, Pc.inCrit, PcOK]

omit [DecidableEq V] in
theorem PcOK.mono {s s' : Sys V} {t : Tid} {pc : Pc V} (h : PcOK s t pc)
    (hh : ∀ e, e ∈ s.hist → e ∈ s'.hist) (hl : s'.lin = s.lin) : PcOK s' t pc := by
  cases pc with
  | idle => trivial
  | invoked id c => exact ⟨hh _ h.1, by rw [hl]; exact h.2⟩
  | holding id c => exact ⟨hh _ h.1, by rw [hl]; exact h.2⟩
  | executed id c r => simp only [PcOK, hl]; exact h
  | unlocked id c r => simp only [PcOK, hl]; exact h

theorem J.step {g0 : Graph V} {s s' : Sys V} (hj : J F g0 s) (hs : Step F s s') : J F g0 s' := by
  cases hs with
  | invoke t c hpc =>
    have hlin_lt : ∀ o ∈ s.lin, o.id < s.next := fun o ho => hj.fresh o.id o.tid o.call (hj.invoked o ho)
    refine ⟨?_, ?_, hj.state, hj.legal, ?_, hj.nodup, ?_, ?_, ?_, ?_, ?_⟩ <;> (try dsimp only)
    · intro u hu
      by_cases hut : u = t
      · subst hut; simp [Pc.inCrit] at hu
      · rw [upd_ne _ _ hut] at hu; exact hj.mutex u hu
    · intro u hu
      have := hj.locked u hu
      by_cases hut : u = t
      · subst hut; rw [hpc] at this; simp [Pc.inCrit] at this
      · rw [upd_ne _ _ hut]; exact this
    · intro o ho; exact List.mem_append_left _ (hj.invoked o ho)
    · intro id r hr
      simp only [List.mem_append, List.mem_singleton, reduceCtorEq, or_false] at hr
      exact hj.complete id r hr
    · intro id u c' h
      simp only [List.mem_append, List.mem_singleton, Event.inv.injEq] at h
      rcases h with h | h
      · have := hj.fresh id u c' h; omega
      · omega
    · intro id u c1 u' c2 h1 h2
      simp only [List.mem_append, List.mem_singleton, Event.inv.injEq] at h1 h2
      rcases h1 with h1 | h1 <;> rcases h2 with h2 | h2
      · exact hj.uniq id u c1 u' c2 h1 h2
      · have := hj.fresh id u c1 h1; omega
      · have := hj.fresh id u' c2 h2; omega
      · rw [h1.2.1, h2.2.1]
    · intro u
      by_cases hut : u = t
      · subst hut
        rw [upd_same]
        refine ⟨by simp, ?_⟩ <;> (try dsimp only)
        intro o ho
        have := hlin_lt o ho
        omega
      · rw [upd_ne _ _ hut]
        exact (hj.pcs u).mono (fun e he => List.mem_append_left _ he) rfl
    · intro a ha b hb hbef
      rw [before_snoc] at hbef
      have hne : b.invE ≠ Event.inv s.next t c := by
        intro h
        simp only [LOp.invE, Event.inv.injEq] at h
        have := hlin_lt b hb
        omega
      simp only [hne, decide_false, Bool.and_false, Bool.or_false] at hbef
      exact hj.realtime a ha b hb hbef
  | acquire t id c hpc hlock =>
    refine ⟨?_, ?_, hj.state, hj.legal, hj.invoked, hj.nodup, hj.complete, hj.fresh, hj.uniq, ?_, hj.realtime⟩ <;> (try dsimp only)
    · intro u hu
      by_cases hut : u = t
      · subst hut; rfl
      · rw [upd_ne _ _ hut] at hu
        have := hj.mutex u hu
        rw [hlock] at this; cases this
    · intro u hu
      simp only [Option.some.injEq] at hu
      subst hu
      simp [Pc.inCrit]
    · intro u
      by_cases hut : u = t
      · subst hut
        rw [upd_same]
        have := hj.pcs u
        rw [hpc] at this
        exact this
      · rw [upd_ne _ _ hut]
        exact (hj.pcs u).mono (fun e he => he) rfl
  | exec t id c hpc =>
    have hpt := hj.pcs t
    rw [hpc] at hpt
    have hreplay := replay_snoc (F := F) g0 (s.lin.map (·.call)) c
    refine ⟨?_, ?_, ?_, ?_, ?_, ?_, ?_, hj.fresh, hj.uniq, ?_, ?_⟩ <;> (try dsimp only)
    · intro u hu
      by_cases hut : u = t
      · subst hut; exact hj.mutex u (by rw [hpc]; rfl)
      · rw [upd_ne _ _ hut] at hu; exact hj.mutex u hu
    · intro u hu
      have := hj.locked u hu
      by_cases hut : u = t
      · subst hut; simp [Pc.inCrit]
      · rw [upd_ne _ _ hut]; exact this
    · simp only [List.map_append, List.map_cons, List.map_nil]
      rw [hreplay, ← hj.state]
    · simp only [List.map_append, List.map_cons, List.map_nil]
      rw [hreplay, hj.legal, ← hj.state]
    · intro o ho
      simp only [List.mem_append, List.mem_singleton] at ho
      rcases ho with ho | ho
      · exact hj.invoked o ho
      · subst ho; exact hpt.1
    · simp only [List.map_append, List.map_cons, List.map_nil]
      rw [List.nodup_append]
      refine ⟨hj.nodup, by simp, ?_⟩ <;> (try dsimp only)
      intro x hx y hy
      simp only [List.mem_singleton] at hy
      subst hy
      obtain ⟨o, ho, rfl⟩ := List.mem_map.1 hx
      exact hpt.2 o ho
    · intro id' r hr
      obtain ⟨o, ho, h1, h2⟩ := hj.complete id' r hr
      exact ⟨o, List.mem_append_left _ ho, h1, h2⟩
    · intro u
      by_cases hut : u = t
      · subst hut
        rw [upd_same]
        simp [PcOK]
      · rw [upd_ne _ _ hut]
        have hu := hj.pcs u
        cases hpu : s.pc u with
        | idle => trivial
        | invoked id' c' =>
          rw [hpu] at hu
          refine ⟨hu.1, ?_⟩ <;> (try dsimp only)
          intro o ho
          simp only [List.mem_append, List.mem_singleton] at ho
          rcases ho with ho | ho
          · exact hu.2 o ho
          · subst ho
            intro hid
            dsimp only at hid
            subst hid
            exact hut (hj.uniq _ _ _ _ _ hu.1 hpt.1)
        | holding id' c' =>
          rw [hpu] at hu
          refine ⟨hu.1, ?_⟩ <;> (try dsimp only)
          intro o ho
          simp only [List.mem_append, List.mem_singleton] at ho
          rcases ho with ho | ho
          · exact hu.2 o ho
          · subst ho
            intro hid
            dsimp only at hid
            subst hid
            exact hut (hj.uniq _ _ _ _ _ hu.1 hpt.1)
        | executed id' c' r' => rw [hpu] at hu; exact List.mem_append_left _ hu
        | unlocked id' c' r' => rw [hpu] at hu; exact List.mem_append_left _ hu
    · intro a ha b hb hbef
      rw [before_snoc]
      simp only [List.mem_append, List.mem_singleton] at ha hb
      have hnew : ∀ a : LOp V, a.id = id → Event.resp a.id a.resp ∉ s.hist := by
        intro a haid hmem
        obtain ⟨o, ho, h1, _⟩ := hj.complete _ _ hmem
        exact hpt.2 o ho (h1.trans haid)
      rcases ha with ha | ha
      · rcases hb with hb | hb
        · rw [hj.realtime a ha b hb hbef]; rfl
        · subst hb; simp [ha]
      · subst ha
        exact absurd (before_mem_left hbef) (hnew _ rfl)
  | release t id c r hpc =>
    refine ⟨?_, ?_, hj.state, hj.legal, hj.invoked, hj.nodup, hj.complete, hj.fresh, hj.uniq, ?_, hj.realtime⟩ <;> (try dsimp only)
    · intro u hu
      by_cases hut : u = t
      · subst hut; simp [Pc.inCrit] at hu
      · rw [upd_ne _ _ hut] at hu
        have h1 := hj.mutex u hu
        have h2 := hj.mutex t (by rw [hpc]; rfl)
        rw [h1] at h2
        exact absurd (Option.some.inj h2) hut
    · intro u hu; cases hu
    · intro u
      by_cases hut : u = t
      · subst hut
        rw [upd_same]
        have := hj.pcs u
        rw [hpc] at this
        exact this
      · rw [upd_ne _ _ hut]
        exact (hj.pcs u).mono (fun e he => he) rfl
  | respond t id c r hpc =>
    have hpt := hj.pcs t
    rw [hpc] at hpt
    refine ⟨?_, ?_, hj.state, hj.legal, ?_, hj.nodup, ?_, ?_, ?_, ?_, ?_⟩ <;> (try dsimp only)
    · intro u hu
      by_cases hut : u = t
      · subst hut; simp [Pc.inCrit] at hu
      · rw [upd_ne _ _ hut] at hu; exact hj.mutex u hu
    · intro u hu
      have := hj.locked u hu
      by_cases hut : u = t
      · subst hut; rw [hpc] at this; simp [Pc.inCrit] at this
      · rw [upd_ne _ _ hut]; exact this
    · intro o ho; exact List.mem_append_left _ (hj.invoked o ho)
    · intro id' r' hr
      simp only [List.mem_append, List.mem_singleton, Event.resp.injEq] at hr
      rcases hr with hr | hr
      · exact hj.complete id' r' hr
      · exact ⟨_, hpt, hr.1.symm, hr.2.symm⟩
    · intro id' u c' h
      simp only [List.mem_append, List.mem_singleton, reduceCtorEq, or_false] at h
      exact hj.fresh id' u c' h
    · intro id' u c1 u' c2 h1 h2
      simp only [List.mem_append, List.mem_singleton, reduceCtorEq, or_false] at h1 h2
      exact hj.uniq id' u c1 u' c2 h1 h2
    · intro u
      by_cases hut : u = t
      · subst hut; rw [upd_same]; trivial
      · rw [upd_ne _ _ hut]
        exact (hj.pcs u).mono (fun e he => List.mem_append_left _ he) rfl
    · intro a ha b hb hbef
      rw [before_snoc] at hbef
      have hne : b.invE ≠ Event.resp id r := by simp [LOp.invE]
      simp only [hne, decide_false, Bool.and_false, Bool.or_false] at hbef
      exact hj.realtime a ha b hb hbef

theorem J.exec {g0 : Graph V} {s : Sys V} (h : Exec F g0 s) : J F g0 s := by
  induction h with
  | init => exact J.init g0
  | step _ hs ih => exact ih.step hs

end

/-! ### parameter values along a sequential run -/

/-- the value written by the last `update` of parameter `p` in `cs` -/
def lastUpd : List (Call V) → Nat → Option V
  | [], _ => none
  | c :: cs, p =>
    match lastUpd cs p with
    | some v => some v
    | none =>
      match c with
      | .update q v => if q = p then some v else none
      | _ => none

theorem seqStep_param {g : Graph V} {p : Nat} {x : V} {n : Nat} (hp : g p = .param x n) (c : Call V) :
    ∃ n', (seqStep F g c).1 p = .param ((lastUpd [c] p).getD x) n' := by
  cases c with
  | update q v =>
    simp only [seqStep, lastUpd]
    by_cases hq : q = p
    · subst hq; simp [hp]
    · cases hgq : g q with
      | param y m => exact ⟨n, by simp [hq, Graph.set_ne g _ (fun h => hq h.symm), hp]⟩
      | struct s => exact ⟨n, by simp [hq, hp]⟩
  | paramData q =>
    simp only [seqStep, lastUpd]
    cases g q <;> exact ⟨n, by simp [hp]⟩
  | artifact i =>
    have := Eval_static F g i p
    rw [hp] at this
    exact ⟨n, by simp [seqStep, lastUpd, StaticEq.param_left this]⟩
  | updateRejected q => exact ⟨n, by simp [seqStep, lastUpd, hp]⟩

theorem replay_param {g : Graph V} {p : Nat} {x : V} {n : Nat} (hp : g p = .param x n) (cs : List (Call V)) :
    ∃ n', (replay F g cs).1 p = .param ((lastUpd cs p).getD x) n' := by
  induction cs generalizing g x n with
  | nil => exact ⟨n, by simp [replay, lastUpd, hp]⟩
  | cons c cs ih =>
    obtain ⟨n1, h1⟩ := seqStep_param (F := F) hp c
    obtain ⟨n2, h2⟩ := ih h1
    refine ⟨n2, ?_⟩
    simp only [replay]
    rw [h2]
    simp only [lastUpd]
    cases hl : lastUpd cs p with
    | some v => simp
    | none =>
      cases c with
      | update q v => by_cases hq : q = p <;> simp [hq]
      | paramData q => simp
      | artifact i => simp
      | updateRejected q => simp

/-! ### the fine-grained locked system -/

/-- invariant of the fine-grained locked system -/
structure GInv {σ : Type} (s : GSys σ) : Prop where
  mutex : ∀ t, (s.pc t).isCrit = true → s.lock = some t
  atomic : ∀ t start tr, s.pc t = .crit start tr → s.g = tr.foldl (fun a f => f a) start

theorem ginv {σ : Type} (g0 : σ) (s : GSys σ) (h : GExec g0 s) : GInv s := by
  induction h with
  | init => exact ⟨by intro t h; simp [GPc.isCrit] at h, by intro t start tr h; cases h⟩
  | @step s s' _ hs ih =>
    cases hs with
    | request t hpc =>
      refine ⟨?_, ?_⟩ <;> dsimp only
      · intro u hu
        by_cases hut : u = t
        · subst hut; simp [GPc.isCrit] at hu
        · rw [upd_ne _ _ hut] at hu; exact ih.mutex u hu
      · intro u start tr hu
        by_cases hut : u = t
        · subst hut; simp at hu
        · rw [upd_ne _ _ hut] at hu; exact ih.atomic u start tr hu
    | acquire t hpc hlock =>
      refine ⟨?_, ?_⟩ <;> dsimp only
      · intro u hu
        by_cases hut : u = t
        · subst hut; rfl
        · rw [upd_ne _ _ hut] at hu
          have := ih.mutex u hu
          rw [hlock] at this; cases this
      · intro u start tr hu
        by_cases hut : u = t
        · subst hut
          simp only [upd_same, GPc.crit.injEq] at hu
          obtain ⟨rfl, rfl⟩ := hu
          rfl
        · rw [upd_ne _ _ hut] at hu
          have := ih.mutex u (by rw [hu]; rfl)
          rw [hlock] at this; cases this
    | micro t start tr f hpc =>
      have hlt := ih.mutex t (by rw [hpc]; rfl)
      refine ⟨?_, ?_⟩ <;> dsimp only
      · intro u hu
        by_cases hut : u = t
        · subst hut; exact hlt
        · rw [upd_ne _ _ hut] at hu; exact ih.mutex u hu
      · intro u start' tr' hu
        by_cases hut : u = t
        · subst hut
          simp only [upd_same, GPc.crit.injEq] at hu
          obtain ⟨rfl, rfl⟩ := hu
          rw [List.foldl_append, ← ih.atomic u start tr hpc]
          rfl
        · -- another client in its critical section at the same time: excluded by the lock
          rw [upd_ne _ _ hut] at hu
          have := ih.mutex u (by rw [hu]; rfl)
          rw [hlt] at this
          exact absurd (Option.some.inj this).symm hut
    | release t start tr hpc =>
      have hlt := ih.mutex t (by rw [hpc]; rfl)
      refine ⟨?_, ?_⟩ <;> dsimp only
      · intro u hu
        by_cases hut : u = t
        · subst hut; simp [GPc.isCrit] at hu
        · rw [upd_ne _ _ hut] at hu
          have := ih.mutex u hu
          rw [hlt] at this
          exact absurd (Option.some.inj this).symm hut
      · intro u start' tr' hu
        by_cases hut : u = t
        · subst hut; simp at hu
        · rw [upd_ne _ _ hut] at hu; exact ih.atomic u start' tr' hu

/-! ### the fine-grained locked system with histories refines the atomic one -/

structure FInv (s : FSys V) : Prop where
  mutex : ∀ t, (s.pc t).isCrit = true → s.lock = some t
  locked : ∀ t, s.lock = some t → (s.pc t).isCrit = true
  atomic : ∀ t id c start tr, s.pc t = .crit id c start tr → s.g = tr.foldl (fun a f => f a) start

theorem finv {F : Nat} (g0 : Graph V) (s : FSys V) (h : FExec F g0 s) : FInv s := by
  induction h with
  | init => exact ⟨by intro t h; simp [FSys.init, FPc.isCrit] at h, by intro t h; simp [FSys.init] at h,
      by intro t id c start tr h; simp [FSys.init] at h⟩
  | @step s s' _ hs ih =>
    cases hs with
    | invoke t c hpc =>
      refine ⟨?_, ?_, ?_⟩ <;> dsimp only
      · intro u hu
        by_cases hut : u = t
        · subst hut; simp [FPc.isCrit] at hu
        · rw [upd_ne _ _ hut] at hu; exact ih.mutex u hu
      · intro u hu
        have := ih.locked u hu
        by_cases hut : u = t
        · subst hut; rw [hpc] at this; simp [FPc.isCrit] at this
        · rw [upd_ne _ _ hut]; exact this
      · intro u id c' start tr hu
        by_cases hut : u = t
        · subst hut; simp at hu
        · rw [upd_ne _ _ hut] at hu; exact ih.atomic u id c' start tr hu
    | acquire t id c hpc hlock =>
      refine ⟨?_, ?_, ?_⟩ <;> dsimp only
      · intro u hu
        by_cases hut : u = t
        · subst hut; rfl
        · rw [upd_ne _ _ hut] at hu
          have := ih.mutex u hu
          rw [hlock] at this; cases this
      · intro u hu
        simp only [Option.some.injEq] at hu
        subst hu
        simp [FPc.isCrit]
      · intro u id' c' start tr hu
        by_cases hut : u = t
        · subst hut
          simp only [upd_same, FPc.crit.injEq] at hu
          obtain ⟨-, -, rfl, rfl⟩ := hu
          rfl
        · rw [upd_ne _ _ hut] at hu
          have := ih.mutex u (by rw [hu]; rfl)
          rw [hlock] at this; cases this
    | micro t id c start tr f hpc =>
      have hlt := ih.mutex t (by rw [hpc]; rfl)
      refine ⟨?_, ?_, ?_⟩ <;> dsimp only
      · intro u hu
        by_cases hut : u = t
        · subst hut; exact hlt
        · rw [upd_ne _ _ hut] at hu; exact ih.mutex u hu
      · intro u hu
        rw [hlt] at hu
        simp only [Option.some.injEq] at hu
        subst hu
        simp [FPc.isCrit]
      · intro u id' c' start' tr' hu
        by_cases hut : u = t
        · subst hut
          simp only [upd_same, FPc.crit.injEq] at hu
          obtain ⟨-, -, rfl, rfl⟩ := hu
          rw [List.foldl_append, ← ih.atomic u id c start tr hpc]
          rfl
        · rw [upd_ne _ _ hut] at hu
          have := ih.mutex u (by rw [hu]; rfl)
          rw [hlt] at this
          exact absurd (Option.some.inj this).symm hut
    | finish t id c start tr hpc _ =>
      have hlt := ih.mutex t (by rw [hpc]; rfl)
      refine ⟨?_, ?_, ?_⟩ <;> dsimp only
      · intro u hu
        by_cases hut : u = t
        · subst hut; simp [FPc.isCrit] at hu
        · rw [upd_ne _ _ hut] at hu
          have := ih.mutex u hu
          rw [hlt] at this
          exact absurd (Option.some.inj this).symm hut
      · intro u hu; cases hu
      · intro u id' c' start' tr' hu
        by_cases hut : u = t
        · subst hut; simp at hu
        · rw [upd_ne _ _ hut] at hu; exact ih.atomic u id' c' start' tr' hu
    | respond t id c r hpc =>
      refine ⟨?_, ?_, ?_⟩ <;> dsimp only
      · intro u hu
        by_cases hut : u = t
        · subst hut; simp [FPc.isCrit] at hu
        · rw [upd_ne _ _ hut] at hu; exact ih.mutex u hu
      · intro u hu
        have := ih.locked u hu
        by_cases hut : u = t
        · subst hut; rw [hpc] at this; simp [FPc.isCrit] at this
        · rw [upd_ne _ _ hut]; exact this
      · intro u id' c' start tr hu
        by_cases hut : u = t
        · subst hut; simp at hu
        · rw [upd_ne _ _ hut] at hu; exact ih.atomic u id' c' start tr hu

theorem abs_upd (pc : Tid → FPc V) (t : Tid) (x : FPc V) :
    (fun u => (upd pc t x u).abs) = upd (fun u => (pc u).abs) t x.abs := by
  funext u
  by_cases hut : u = t
  · subst hut; simp
  · simp [upd_ne _ _ hut]

theorem upd_upd {α : Type} (f : Nat → α) (t : Nat) (a b : α) : upd (upd f t a) t b = upd f t b := by
  funext u
  by_cases hut : u = t
  · subst hut; simp
  · simp [upd_ne _ _ hut]

theorem upd_self {α : Type} (f : Nat → α) (t : Nat) (a : α) (h : f t = a) : upd f t a = f := by
  funext u
  by_cases hut : u = t
  · subst hut; simp [h]
  · simp [upd_ne _ _ hut]

/-- **refinement**: every execution of the fine-grained locked system is, through `FSys.abs`, an
    execution of the atomic system with the same history and the same critical-section order -/
theorem fine_refines {F : Nat} (g0 : Graph V) (s : FSys V) (h : FExec F g0 s) : Exec F g0 s.abs := by
  induction h with
  | init => exact .init
  | @step s s' hex hs ih =>
    have hinv := finv g0 s hex
    have hgsame : ∀ (t : Tid) (x : FPc V), (s.pc t).isCrit = false →
        (match s.lock with
          | some u => ((upd s.pc t x u).start?).getD s.g
          | none => s.g) = s.abs.g := by
      intro t x ht
      simp only [FSys.abs]
      cases hlk : s.lock with
      | none => rfl
      | some u =>
        dsimp only
        have hu := hinv.locked u hlk
        have hut : u ≠ t := by intro h; subst h; rw [ht] at hu; cases hu
        rw [upd_ne _ _ hut]
    cases hs with
    | invoke t c hpc =>
      have hstep := Step.invoke (F := F) s.abs t c (by simp [FSys.abs, hpc, FPc.abs])
      refine cast ?_ (Exec.step ih hstep)
      congr 1
      simp only [FSys.abs]
      congr 1
      · exact (hgsame t _ (by rw [hpc]; rfl)).symm
      · rw [abs_upd]; rfl
    | acquire t id c hpc hlock =>
      have hstep := Step.acquire (F := F) s.abs t id c (by simp [FSys.abs, hpc, FPc.abs]) (by simp [FSys.abs, hlock])
      refine cast ?_ (Exec.step ih hstep)
      congr 1
      simp only [FSys.abs]
      congr 1
      · simp [hlock, FPc.start?]
      · rw [abs_upd]; rfl
    | micro t id c start tr f hpc =>
      have hlt := hinv.mutex t (by rw [hpc]; rfl)
      refine cast ?_ ih
      congr 1
      simp only [FSys.abs]
      congr 1
      · simp [hlt, hpc, FPc.start?]
      · rw [abs_upd]
        exact (upd_self _ t _ (by simp [hpc, FPc.abs])).symm
    | finish t id c start tr hpc hprog =>
      have hlt := hinv.mutex t (by rw [hpc]; rfl)
      have hg : s.abs.g = start := by simp [FSys.abs, hlt, hpc, FPc.start?]
      have hsg : s.g = (seqStep F start c).1 := by rw [hinv.atomic t id c start tr hpc, hprog]
      have h1 := Exec.step ih (Step.exec (F := F) s.abs t id c (by simp [FSys.abs, hpc, FPc.abs]))
      have h2 := Exec.step h1 (Step.release _ t id c (seqStep F s.abs.g c).2 (by simp))
      refine cast ?_ h2
      congr 1
      rw [hg]
      simp only [FSys.abs]
      congr 1
      · exact hsg.symm
      · rw [abs_upd, upd_upd]; rfl
    | respond t id c r hpc =>
      have hstep := Step.respond (F := F) s.abs t id c r (by simp [FSys.abs, hpc, FPc.abs])
      refine cast ?_ (Exec.step ih hstep)
      congr 1
      simp only [FSys.abs]
      congr 1
      · exact (hgsame t _ (by rw [hpc]; rfl)).symm
      · rw [abs_upd]; rfl


/-! ### the program system: program correctness, invariant, refinement, model version -/

theorem runProg_cons (F : Nat) (op : MicroOp V) (ops : List (MicroOp V)) (x : Shared V × Loc V) :
    runProg F (op :: ops) x = runProg F ops (exec F op x) := rfl

theorem runProg_append (F : Nat) (a b : List (MicroOp V)) (x : Shared V × Loc V) :
    runProg F (a ++ b) x = runProg F b (runProg F a x) := by
  simp [runProg, List.foldl_append]

/-- the pulls of the program are the pulls of `pullS` -/
theorem run_pulls (F : Nat) (s : SNode V) (m : Nat) (g : Graph V) (mv : Nat) (l : Loc V)
    (hn : l.node = some (.struct s)) (hr : l.run = true) :
    runProg F (List.replicate m .pullStep) ((g, mv), l) =
      (((pullS (Eval F) (s.next s.scalars s.arrays) s.deps m g l.es).1, mv),
        { l with es := (pullS (Eval F) (s.next s.scalars s.arrays) s.deps m g l.es).2.1 }) := by
  induction m generalizing g l with
  | zero => simp [runProg, pullS]
  | succ m ih =>
    rw [List.replicate_succ, runProg_cons]
    simp only [exec, hr, if_true, hn, pullS]
    cases hnx : s.next s.scalars s.arrays l.es with
    | none =>
      dsimp only
      -- the strategy has stopped: the remaining pull steps do nothing
      have := ih g l hn hr
      rw [this]
      cases m with
      | zero => simp [pullS, hn, hr]
      | succ m => simp [pullS, hnx, hn, hr]
    | some k =>
      dsimp only
      cases hdk : s.deps[k]? with
      | none =>
        dsimp only
        have := ih g l hn hr
        rw [this]
        cases m with
        | zero => simp [pullS, hn, hr]
        | succ m => simp [pullS, hnx, hdk, hn, hr]
      | some d =>
        dsimp only
        rw [ih _ _ (by simpa using hn) (by simpa using hr)]


theorem set_set (g : Graph V) (p : Nat) (a b : Node V) : (g.set p a).set p b = g.set p b := by
  funext j
  by_cases hj : j = p <;> simp [Graph.set, hj]

/-- **the programs are correct**: run from the state found at `Lock()` with nothing in between,
    the micro-steps of a call leave exactly the graph of the atomic step `seqStep`, bump the model
    version as the code does, and the response assembled from what they READ is the atomic response -/
theorem prog_correct (F : Nat) (g : Graph V) (hac : Acyclic F g) (mv : Nat) (c : Call V) :
    (runProg F (progOf g c) ((g, mv), {})).1.1 = (seqStep F g c).1 ∧
    (runProg F (progOf g c) ((g, mv), {})).1.2 = mv + bump g c ∧
    (runProg F (progOf g c) ((g, mv), {})).2.out = (seqStep F g c).2 := by
  cases c with
  | update p v =>
    cases hp : g p with
    | param x n =>
      simp [progOf, runProg, exec, Loc.isParam, hp, seqStep, bump, Graph.set_same, set_set]
    | struct s =>
      simp [progOf, runProg, exec, Loc.isParam, hp, seqStep, bump]
  | updateRejected p =>
    cases hp : g p with
    | param x n => simp [progOf, runProg, exec, Loc.isParam, hp, seqStep, bump]
    | struct s => simp [progOf, runProg, exec, Loc.isParam, hp, seqStep, bump]
  | paramData p =>
    cases hp : g p with
    | param x n => simp [progOf, runProg, exec, Loc.isParam, hp, seqStep, bump]
    | struct s => simp [progOf, runProg, exec, Loc.isParam, hp, seqStep, bump]
  | artifact i =>
    obtain ⟨rank, hwf⟩ := hac
    simp only [progOf, runProg_cons, runProg_append, bump, Nat.add_zero, seqStep]
    cases hi : g i with
    | param x n =>
      have he : Eval F g i = (g, []) := by rw [Eval_eq g hwf, hi]
      simp [exec, hi, pulls, runProg, he]
    | struct s =>
      cases ho : Outdated F g i with
      | false =>
        have he : Eval F g i = (g, []) := by rw [Eval_eq g hwf, hi]; simp [ho]
        -- not outdated: every step is guarded by `run = false`
        have hidle : ∀ m (l : Loc V), l.run = false →
            runProg F (List.replicate m .pullStep) ((g, mv), l) = ((g, mv), l) := by
          intro m
          induction m with
          | zero => intro l _; rfl
          | succ m ih => intro l hl; rw [List.replicate_succ, runProg_cons]; simp only [exec, hl]; exact ih l hl
        simp only [exec, hi, ho]
        rw [hidle _ _ rfl]
        simp [runProg, exec, he]
      | true =>
        simp only [exec, hi, ho, pulls]
        rw [run_pulls F s s.deps.length g mv _ rfl rfl]
        have he := Eval_eq g hwf i
        rw [hi] at he
        simp only [ho, if_true] at he
        simp [runProg, exec, he, val, Graph.set_same]


theorem exec_mv_mono (F : Nat) (op : MicroOp V) (x : Shared V × Loc V) : x.1.2 ≤ (exec F op x).1.2 := by
  obtain ⟨⟨g, mv⟩, l⟩ := x
  cases op <;> simp only [exec] <;> (try split) <;> (try split) <;> (try split) <;> (try split) <;>
    first | exact Nat.le_refl _ | exact Nat.le_succ _

theorem pinv {F : Nat} (g0 : Graph V) (s : PSys V) (h : PExec F g0 s) : PInv F s := by
  induction h with
  | init =>
    refine ⟨?_, ?_, ?_, ?_, ?_, ?_⟩ <;> simp [PSys.init, PPc.isCrit]
  | @step s s' _ hs ih =>
    -- a step of client `t` that leaves the shared state alone and puts `t` at a non-critical,
    -- non-reading pc
    have other : ∀ (t u : Tid) (x : PPc V), u ≠ t → upd s.pc t x u = s.pc u := fun t u x h => upd_ne _ _ h
    cases hs with
    | invoke t c hpc =>
      refine ⟨?_, ?_, ?_, ?_, ?_, ih.obs⟩ <;> dsimp only
      · intro u hu
        by_cases hut : u = t
        · subst hut; simp [PPc.isCrit] at hu
        · rw [other t u _ hut] at hu; exact ih.mutex u hu
      · intro u hu
        have := ih.locked u hu
        by_cases hut : u = t
        · subst hut; rw [hpc] at this; simp [PPc.isCrit] at this
        · rw [other t u _ hut]; exact this
      · intro u id c' start mv0 loc todo hu
        by_cases hut : u = t
        · subst hut; simp at hu
        · rw [other t u _ hut] at hu; exact ih.prog u id c' start mv0 loc todo hu
      · intro u mv0 hu
        by_cases hut : u = t
        · subst hut; simp at hu
        · rw [other t u _ hut] at hu; exact ih.wait u mv0 hu
      · intro u mv0 v hu
        by_cases hut : u = t
        · subst hut; simp at hu
        · rw [other t u _ hut] at hu; exact ih.got u mv0 v hu
    | acquire t id c hpc hlock =>
      have nocrit : ∀ u, (s.pc u).isCrit = true → False := fun u hu => by
        have := ih.mutex u hu; rw [hlock] at this; cases this
      refine ⟨?_, ?_, ?_, ?_, ?_, ih.obs⟩ <;> dsimp only
      · intro u hu
        by_cases hut : u = t
        · subst hut; rfl
        · rw [other t u _ hut] at hu; exact (nocrit u hu).elim
      · intro u hu
        simp only [Option.some.injEq] at hu
        subst hu
        simp [PPc.isCrit]
      · intro u id' c' start mv0 loc todo hu
        by_cases hut : u = t
        · subst hut
          simp only [upd_same, PPc.crit.injEq] at hu
          obtain ⟨-, rfl, rfl, rfl, rfl, rfl⟩ := hu
          rfl
        · rw [other t u _ hut] at hu
          exact (nocrit u (by rw [hu]; rfl)).elim
      · intro u mv0 hu
        by_cases hut : u = t
        · subst hut; simp at hu
        · rw [other t u _ hut] at hu; exact ih.wait u mv0 hu
      · intro u mv0 v hu
        by_cases hut : u = t
        · subst hut; simp at hu
        · rw [other t u _ hut] at hu; exact ih.got u mv0 v hu
    | micro t id c start mv0 loc op todo hpc =>
      have hlt := ih.mutex t (by rw [hpc]; rfl)
      have hmono : s.mv ≤ (exec F op ((s.g, s.mv), loc)).1.2 := exec_mv_mono F op ((s.g, s.mv), loc)
      have onlyt : ∀ u, u ≠ t → (s.pc u).isCrit = true → False := fun u hut hu => by
        have := ih.mutex u hu; rw [hlt] at this; exact hut (Option.some.inj this).symm
      refine ⟨?_, ?_, ?_, ?_, ?_, ih.obs⟩ <;> dsimp only
      · intro u hu
        by_cases hut : u = t
        · subst hut; exact hlt
        · rw [other t u _ hut] at hu; exact ih.mutex u hu
      · intro u hu
        rw [hlt] at hu
        simp only [Option.some.injEq] at hu
        subst hu
        simp [PPc.isCrit]
      · intro u id' c' start' mv0' loc' todo' hu
        by_cases hut : u = t
        · subst hut
          simp only [upd_same, PPc.crit.injEq] at hu
          obtain ⟨-, rfl, rfl, rfl, rfl, rfl⟩ := hu
          have := ih.prog u id c start mv0 loc (op :: todo) hpc
          rw [runProg_cons] at this
          exact this
        · rw [other t u _ hut] at hu
          exact (onlyt u hut (by rw [hu]; rfl)).elim
      · intro u mv0' hu
        by_cases hut : u = t
        · subst hut; simp at hu
        · rw [other t u _ hut] at hu
          exact Nat.le_trans (ih.wait u mv0' hu) hmono
      · intro u mv0' v hu
        by_cases hut : u = t
        · subst hut; simp at hu
        · rw [other t u _ hut] at hu
          have := ih.got u mv0' v hu
          exact ⟨this.1, Nat.le_trans this.2 hmono⟩
    | finish t id c start mv0 loc hpc =>
      have hlt := ih.mutex t (by rw [hpc]; rfl)
      have onlyt : ∀ u, u ≠ t → (s.pc u).isCrit = true → False := fun u hut hu => by
        have := ih.mutex u hu; rw [hlt] at this; exact hut (Option.some.inj this).symm
      refine ⟨?_, ?_, ?_, ?_, ?_, ih.obs⟩ <;> dsimp only
      · intro u hu
        by_cases hut : u = t
        · subst hut; simp [PPc.isCrit] at hu
        · rw [other t u _ hut] at hu; exact (onlyt u hut hu).elim
      · intro u hu; cases hu
      · intro u id' c' start' mv0' loc' todo' hu
        by_cases hut : u = t
        · subst hut; simp at hu
        · rw [other t u _ hut] at hu; exact (onlyt u hut (by rw [hu]; rfl)).elim
      · intro u mv0' hu
        by_cases hut : u = t
        · subst hut; simp at hu
        · rw [other t u _ hut] at hu; exact ih.wait u mv0' hu
      · intro u mv0' v hu
        by_cases hut : u = t
        · subst hut; simp at hu
        · rw [other t u _ hut] at hu; exact ih.got u mv0' v hu
    | respond t id c r hpc =>
      refine ⟨?_, ?_, ?_, ?_, ?_, ih.obs⟩ <;> dsimp only
      · intro u hu
        by_cases hut : u = t
        · subst hut; simp [PPc.isCrit] at hu
        · rw [other t u _ hut] at hu; exact ih.mutex u hu
      · intro u hu
        have := ih.locked u hu
        by_cases hut : u = t
        · subst hut; rw [hpc] at this; simp [PPc.isCrit] at this
        · rw [other t u _ hut]; exact this
      · intro u id' c' start mv0 loc todo hu
        by_cases hut : u = t
        · subst hut; simp at hu
        · rw [other t u _ hut] at hu; exact ih.prog u id' c' start mv0 loc todo hu
      · intro u mv0 hu
        by_cases hut : u = t
        · subst hut; simp at hu
        · rw [other t u _ hut] at hu; exact ih.wait u mv0 hu
      · intro u mv0 v hu
        by_cases hut : u = t
        · subst hut; simp at hu
        · rw [other t u _ hut] at hu; exact ih.got u mv0 v hu
    | mvCall t hpc =>
      refine ⟨?_, ?_, ?_, ?_, ?_, ih.obs⟩ <;> dsimp only
      · intro u hu
        by_cases hut : u = t
        · subst hut; simp [PPc.isCrit] at hu
        · rw [other t u _ hut] at hu; exact ih.mutex u hu
      · intro u hu
        have := ih.locked u hu
        by_cases hut : u = t
        · subst hut; rw [hpc] at this; simp [PPc.isCrit] at this
        · rw [other t u _ hut]; exact this
      · intro u id' c' start mv0 loc todo hu
        by_cases hut : u = t
        · subst hut; simp at hu
        · rw [other t u _ hut] at hu; exact ih.prog u id' c' start mv0 loc todo hu
      · intro u mv0 hu
        by_cases hut : u = t
        · subst hut
          simp only [upd_same, PPc.mvWait.injEq] at hu
          subst hu
          exact Nat.le_refl _
        · rw [other t u _ hut] at hu; exact ih.wait u mv0 hu
      · intro u mv0 v hu
        by_cases hut : u = t
        · subst hut; simp at hu
        · rw [other t u _ hut] at hu; exact ih.got u mv0 v hu
    | mvLoad t mv0 hpc =>
      refine ⟨?_, ?_, ?_, ?_, ?_, ih.obs⟩ <;> dsimp only
      · intro u hu
        by_cases hut : u = t
        · subst hut; simp [PPc.isCrit] at hu
        · rw [other t u _ hut] at hu; exact ih.mutex u hu
      · intro u hu
        have := ih.locked u hu
        by_cases hut : u = t
        · subst hut; rw [hpc] at this; simp [PPc.isCrit] at this
        · rw [other t u _ hut]; exact this
      · intro u id' c' start mv0' loc todo hu
        by_cases hut : u = t
        · subst hut; simp at hu
        · rw [other t u _ hut] at hu; exact ih.prog u id' c' start mv0' loc todo hu
      · intro u mv0' hu
        by_cases hut : u = t
        · subst hut; simp at hu
        · rw [other t u _ hut] at hu; exact ih.wait u mv0' hu
      · intro u mv0' v hu
        by_cases hut : u = t
        · subst hut
          simp only [upd_same, PPc.mvGot.injEq] at hu
          obtain ⟨rfl, rfl⟩ := hu
          exact ⟨ih.wait u mv0 hpc, Nat.le_refl _⟩
        · rw [other t u _ hut] at hu; exact ih.got u mv0' v hu
    | mvReturn t mv0 v hpc =>
      refine ⟨?_, ?_, ?_, ?_, ?_, ?_⟩ <;> dsimp only
      · intro u hu
        by_cases hut : u = t
        · subst hut; simp [PPc.isCrit] at hu
        · rw [other t u _ hut] at hu; exact ih.mutex u hu
      · intro u hu
        have := ih.locked u hu
        by_cases hut : u = t
        · subst hut; rw [hpc] at this; simp [PPc.isCrit] at this
        · rw [other t u _ hut]; exact this
      · intro u id' c' start mv0' loc todo hu
        by_cases hut : u = t
        · subst hut; simp at hu
        · rw [other t u _ hut] at hu; exact ih.prog u id' c' start mv0' loc todo hu
      · intro u mv0' hu
        by_cases hut : u = t
        · subst hut; simp at hu
        · rw [other t u _ hut] at hu; exact ih.wait u mv0' hu
      · intro u mv0' v' hu
        by_cases hut : u = t
        · subst hut; simp at hu
        · rw [other t u _ hut] at hu; exact ih.got u mv0' v' hu
      · intro o ho
        simp only [List.mem_append, List.mem_singleton] at ho
        rcases ho with ho | ho
        · exact ih.obs o ho
        · subst ho; exact ih.got t mv0 v hpc


theorem pabs_upd (pc : Tid → PPc V) (t : Tid) (x : PPc V) :
    (fun u => (upd pc t x u).abs) = upd (fun u => (pc u).abs) t x.abs := by
  funext u
  by_cases hut : u = t
  · subst hut; simp
  · simp [upd_ne _ _ hut]

section
variable [DecidableEq V]

/-- **refinement**: every execution of the program system is, through `PSys.abs`, an execution of
    the atomic system with the same history and critical-section order -/
theorem prog_refines {F : Nat} (g0 : Graph V) (h0 : Init F g0) (s : PSys V) (h : PExec F g0 s) :
    Exec F g0 s.abs := by
  induction h with
  | init => exact .init
  | @step s s' hex hs ih =>
    have hinv := pinv g0 s hex
    have hgsame : ∀ (t : Tid) (x : PPc V), (s.pc t).isCrit = false →
        (match s.lock with
          | some u => ((upd s.pc t x u).start?).getD s.g
          | none => s.g) = s.abs.g := by
      intro t x ht
      simp only [PSys.abs]
      cases hlk : s.lock with
      | none => rfl
      | some u =>
        dsimp only
        have hu := hinv.locked u hlk
        have hut : u ≠ t := by intro h; subst h; rw [ht] at hu; cases hu
        rw [upd_ne _ _ hut]
    -- a step that is invisible to the atomic system
    have stutter : ∀ (t : Tid) (x : PPc V), (s.pc t).isCrit = false → x.abs = (s.pc t).abs →
        Exec F g0 ({ g := (match s.lock with
                            | some u => ((upd s.pc t x u).start?).getD s.g
                            | none => s.g),
                     lock := s.lock, pc := fun u => (upd s.pc t x u).abs, next := s.next, hist := s.hist,
                     lin := s.lin } : Sys V) := by
      intro t x ht hx
      refine cast ?_ ih
      congr 1
      simp only [PSys.abs]
      congr 1
      · exact (hgsame t x ht).symm
      · rw [pabs_upd]
        exact (upd_self _ t _ hx.symm).symm
    cases hs with
    | invoke t c hpc =>
      have hstep := Step.invoke (F := F) s.abs t c (by simp [PSys.abs, hpc, PPc.abs])
      refine cast ?_ (Exec.step ih hstep)
      congr 1
      simp only [PSys.abs]
      congr 1
      · exact (hgsame t _ (by rw [hpc]; rfl)).symm
      · rw [pabs_upd]; rfl
    | acquire t id c hpc hlock =>
      have hstep := Step.acquire (F := F) s.abs t id c (by simp [PSys.abs, hpc, PPc.abs]) (by simp [PSys.abs, hlock])
      refine cast ?_ (Exec.step ih hstep)
      congr 1
      simp only [PSys.abs]
      congr 1
      · simp [hlock, PPc.start?]
      · rw [pabs_upd]; rfl
    | micro t id c start mv0 loc op todo hpc =>
      have hlt := hinv.mutex t (by rw [hpc]; rfl)
      refine cast ?_ ih
      congr 1
      simp only [PSys.abs]
      congr 1
      · simp [hlt, hpc, PPc.start?]
      · rw [pabs_upd]
        exact (upd_self _ t _ (by simp [hpc, PPc.abs])).symm
    | finish t id c start mv0 loc hpc =>
      have hlt := hinv.mutex t (by rw [hpc]; rfl)
      have hg : s.abs.g = start := by simp [PSys.abs, hlt, hpc, PPc.start?]
      -- the state found at `Lock()` is a state of the sequential specification, hence acyclic
      have hac : Acyclic F start := by
        have hst := (Linz.J.exec ih).state
        rw [hg] at hst
        rw [hst]
        exact (replay_inv h0.inv _).wf
      have hp := hinv.prog t id c start mv0 loc [] hpc
      have hc := prog_correct F start hac mv0 c
      rw [← hp] at hc
      simp only [runProg, List.foldl_nil] at hc
      have h1 := Exec.step ih (Step.exec (F := F) s.abs t id c (by simp [PSys.abs, hpc, PPc.abs]))
      have h2 := Exec.step h1 (Step.release _ t id c (seqStep F s.abs.g c).2 (by simp))
      refine cast ?_ h2
      congr 1
      rw [hg]
      simp only [PSys.abs]
      rw [hc.2.2]
      congr 1
      · exact hc.1.symm
      · rw [pabs_upd, upd_upd]; rfl
    | respond t id c r hpc =>
      have hstep := Step.respond (F := F) s.abs t id c r (by simp [PSys.abs, hpc, PPc.abs])
      refine cast ?_ (Exec.step ih hstep)
      congr 1
      simp only [PSys.abs]
      congr 1
      · exact (hgsame t _ (by rw [hpc]; rfl)).symm
      · rw [pabs_upd]; rfl
    | mvCall t hpc => exact stutter t _ (by rw [hpc]; rfl) (by rw [hpc]; rfl)
    | mvLoad t mv0 hpc => exact stutter t _ (by rw [hpc]; rfl) (by rw [hpc]; rfl)
    | mvReturn t mv0 v hpc => exact stutter t _ (by rw [hpc]; rfl) (by rw [hpc]; rfl)

end


theorem bumpsAlong_snoc (F : Nat) (g : Graph V) (cs : List (Call V)) (c : Call V) :
    bumpsAlong F g (cs ++ [c]) = bumpsAlong F g cs + bump (replay F g cs).1 c := by
  induction cs generalizing g with
  | nil => simp [bumpsAlong, replay]
  | cons a as ih => simp [bumpsAlong, replay, ih, Nat.add_assoc]

section
variable [DecidableEq V]

/-- the model version counter counts the parameter messages: outside critical sections it is the
    number of `UpdateParameter` calls on parameters (accepted or rejected) among the critical
    sections that have run; a client inside its critical section found exactly that number -/
theorem model_version_counts {F : Nat} (g0 : Graph V) (h0 : Init F g0) (s : PSys V) (h : PExec F g0 s) :
    (s.lock = none → s.mv = bumpsAlong F g0 (s.lin.map (·.call))) ∧
    (∀ t id c start mv0 loc todo, s.pc t = .crit id c start mv0 loc todo →
      mv0 = bumpsAlong F g0 (s.lin.map (·.call))) := by
  induction h with
  | init => exact ⟨fun _ => rfl, by intro t id c start mv0 loc todo h; simp [PSys.init] at h⟩
  | @step s s' hex hs ih =>
    have hinv := pinv g0 s hex
    have habs := prog_refines g0 h0 s hex
    have keep : ∀ (t : Tid) (x : PPc V), x.isCrit = false →
        ∀ u id c start mv0 loc todo, upd s.pc t x u = .crit id c start mv0 loc todo →
          mv0 = bumpsAlong F g0 (s.lin.map (·.call)) := by
      intro t x hx u id c start mv0 loc todo hu
      by_cases hut : u = t
      · subst hut; rw [upd_same] at hu; rw [hu] at hx; cases hx
      · rw [upd_ne _ _ hut] at hu; exact ih.2 u id c start mv0 loc todo hu
    cases hs with
    | invoke t c hpc => exact ⟨ih.1, keep t _ rfl⟩
    | acquire t id c hpc hlock =>
      refine ⟨(by intro h; cases h), ?_⟩
      intro u id' c' start mv0 loc todo hu
      dsimp only at hu
      by_cases hut : u = t
      · subst hut
        simp only [upd_same, PPc.crit.injEq] at hu
        obtain ⟨-, -, -, rfl, -, -⟩ := hu
        exact ih.1 hlock
      · rw [upd_ne _ _ hut] at hu
        exact ih.2 u id' c' start mv0 loc todo hu
    | micro t id c start mv0 loc op todo hpc =>
      have hlt := hinv.mutex t (by rw [hpc]; rfl)
      refine ⟨(by intro h; dsimp only at h; rw [hlt] at h; cases h), ?_⟩
      intro u id' c' start' mv0' loc' todo' hu
      dsimp only at hu
      by_cases hut : u = t
      · subst hut
        simp only [upd_same, PPc.crit.injEq] at hu
        obtain ⟨-, -, -, rfl, -, -⟩ := hu
        exact ih.2 u id c start mv0 loc (op :: todo) hpc
      · rw [upd_ne _ _ hut] at hu
        exact ih.2 u id' c' start' mv0' loc' todo' hu
    | finish t id c start mv0 loc hpc =>
      have hlt := hinv.mutex t (by rw [hpc]; rfl)
      have hg : s.abs.g = start := by simp [PSys.abs, hlt, hpc, PPc.start?]
      have hst := (Linz.J.exec habs).state
      rw [hg] at hst
      have hac : Acyclic F start := by rw [hst]; exact (replay_inv h0.inv _).wf
      have hp := hinv.prog t id c start mv0 loc [] hpc
      have hc := prog_correct F start hac mv0 c
      rw [← hp] at hc
      simp only [runProg, List.foldl_nil] at hc
      have hmv0 := ih.2 t id c start mv0 loc [] hpc
      refine ⟨?_, ?_⟩
      · intro _
        show s.mv = bumpsAlong F g0 ((s.lin ++ [(⟨id, t, c, loc.out⟩ : LOp V)]).map (·.call))
        rw [List.map_append, List.map_cons, List.map_nil, bumpsAlong_snoc]
        have : (replay F g0 (s.lin.map (·.call))).1 = start := hst.symm
        rw [hc.2.1, hmv0]
        simp only [this]
      · intro u id' c' start' mv0' loc' todo' hu
        dsimp only at hu
        by_cases hut : u = t
        · subst hut; simp at hu
        · rw [upd_ne _ _ hut] at hu
          have := hinv.mutex u (by rw [hu]; rfl)
          rw [hlt] at this
          exact absurd (Option.some.inj this).symm hut
    | respond t id c r hpc => exact ⟨ih.1, keep t _ rfl⟩
    | mvCall t hpc => exact ⟨ih.1, keep t _ rfl⟩
    | mvLoad t mv0 hpc => exact ⟨ih.1, keep t _ rfl⟩
    | mvReturn t mv0 v hpc => exact ⟨ih.1, keep t _ rfl⟩

end


end PolyVerif.Linz
