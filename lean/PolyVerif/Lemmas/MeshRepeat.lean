/-
  C03 lemmas: `repeat.Mesh` concatenates the corners of the transformed copies.
-/
import PolyVerif.Lemmas.MeshWeldFull

namespace PolyVerif.Mesh
variable {α : Type}

namespace MeshVal

/-- Append, for *every* key: the corner list (zeros where the attribute is absent) of the result is
    the concatenation of the two corner lists -/
theorem append_cornersOrZero [DecidableEq α] {zero : Nat → α} {a b m : MeshVal α} (ha : WF a) (hb : WF b)
    (h : append zero a b = some m) (k : AttrKey) :
    cornersOrZero zero m k = cornersOrZero zero a k ++ cornersOrZero zero b k := by
  by_cases hk : k ∈ a.keys ++ b.keys
  · have := append_cornersOf ha hb h k hk
    simp only [cornersOrZero, this]
  · have hidx : m.indices = a.indices ++ b.indices.map (· + a.attrLen) := by
      unfold append at h; split at h <;> cases h; rfl
    have hka : a.attr? k = none := by
      cases hda : a.attr? k with
      | none => rfl
      | some d =>
        exfalso; apply hk
        have := Attrs.find?_mem hda
        simp only [List.mem_append, keys, Attrs.keys, List.mem_map]
        exact Or.inl ⟨_, this, rfl⟩
    have hkb : b.attr? k = none := by
      cases hdb : b.attr? k with
      | none => rfl
      | some d =>
        exfalso; apply hk
        have := Attrs.find?_mem hdb
        simp only [List.mem_append, keys, Attrs.keys, List.mem_map]
        exact Or.inr ⟨_, this, rfl⟩
    have hm := append_attr? h k
    simp only [hka, hkb] at hm
    simp only [cornersOrZero, cornersOf, hm, hka, hkb, Option.map_none, hidx, List.length_append, List.length_map]
    exact (List.replicate_append_replicate).symm

theorem empty_cornersOrZero (zero : Nat → α) (t : Topology) (k : AttrKey) :
    cornersOrZero zero (MeshVal.empty t : MeshVal α) k = [] := by
  simp [cornersOrZero, cornersOf, MeshVal.empty, attr?, Attrs.find?]

theorem repeat_fold_corners [DecidableEq α] {zero : Nat → α} {pos : AttrKey} {m : MeshVal α} (h : WF m) (k : AttrKey) :
    ∀ (ts : List (α → α)) (acc r : MeshVal α), WF acc →
      ts.foldl (fun acc φ => do
        let r ← acc
        let c ← m.mapAttr pos φ
        append zero r c) (some acc) = some r →
      cornersOrZero zero r k = cornersOrZero zero acc k ++ ts.flatMap (copyCorners zero pos m k)
  | [], acc, r, _, hr => by
    simp only [List.foldl_nil, Option.some.injEq] at hr
    subst hr; simp
  | φ :: ts, acc, r, hacc, hr => by
    simp only [List.foldl_cons, Option.bind_eq_bind, Option.bind_some] at hr
    cases hc : m.mapAttr pos φ with
    | none =>
      -- the fold is stuck at `none`
      exfalso
      simp only [hc, Option.bind_none] at hr
      have : ∀ (l : List (α → α)), l.foldl (fun acc φ => acc.bind fun r => (m.mapAttr pos φ).bind fun c => append zero r c) none
          = (none : Option (MeshVal α)) := by
        intro l; induction l with
        | nil => rfl
        | cons _ _ ih => simpa using ih
      rw [this] at hr; cases hr
    | some c =>
      simp only [hc, Option.bind_some] at hr
      cases ha : append zero acc c with
      | none =>
        exfalso
        rw [ha] at hr
        have : ∀ (l : List (α → α)), l.foldl (fun acc φ => acc.bind fun r => (m.mapAttr pos φ).bind fun c => append zero r c) none
            = (none : Option (MeshVal α)) := by
          intro l; induction l with
          | nil => rfl
          | cons _ _ ih => simpa using ih
        rw [this] at hr; cases hr
      | some acc' =>
        rw [ha] at hr
        have hwc : WF c := mapAttr_wf h hc
        have hw' : WF acc' := append_wf hacc hwc ha
        have ih := repeat_fold_corners h k ts acc' r hw' (by simpa [Option.bind_eq_bind] using hr)
        rw [ih, append_cornersOrZero hacc hwc ha k, List.flatMap_cons, List.append_assoc]
        congr 2
        simp [copyCorners, hc]

/-- `repeat.Mesh(mesh, transforms)`: for every attribute, the corners of the result are the corners
    of the transformed copies, one copy after another (an attribute absent from a copy reads as zeros). -/
theorem repeatMesh_corners [DecidableEq α] {zero : Nat → α} {pos : AttrKey} {m r : MeshVal α} (h : WF m)
    (ts : List (α → α)) (hr : repeatMesh zero pos m ts = some r) (k : AttrKey) :
    cornersOrZero zero r k = ts.flatMap (copyCorners zero pos m k) := by
  have := repeat_fold_corners h k ts (MeshVal.empty m.topology) r (empty_wf _) hr
  rw [this, empty_cornersOrZero, List.nil_append]

end MeshVal
end PolyVerif.Mesh
