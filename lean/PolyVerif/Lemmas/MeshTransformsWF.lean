/-
  The concrete transforms (Model/MeshTransforms.lean) preserve array lengths, hence WF (C02),
  and are frame-preserving instances of setAttr / modifyAttr (C03).
-/
import PolyVerif.Lemmas.MeshFrame
import PolyVerif.Model.MeshTransforms

namespace PolyVerif.Mesh
open PolyVerif PolyVerif.Gen
variable {s : Type} [Scalar s]

namespace MeshVal

theorem addAt_length (ns : List (V3 s)) (i : Nat) (n : V3 s) : (addAt ns i n).length = ns.length := by
  unfold addAt; split <;> simp

theorem smoothAccum_length (pos : List (V3 s)) : ∀ (ts : List (Nat × Nat × Nat)) (ns : List (V3 s)),
    (smoothAccum pos ns ts).length = ns.length
  | [], ns => by simp [smoothAccum]
  | t :: ts, ns => by
    simp only [smoothAccum]
    split
    · exact smoothAccum_length pos ts ns
    · split
      · exact smoothAccum_length pos ts ns
      · rw [smoothAccum_length pos ts]; simp [addAt_length]

theorem flatAccum_length (pos : List (V3 s)) : ∀ (ts : List (Nat × Nat × Nat)) (ns : List (V3 s)),
    (flatAccum pos ns ts).length = ns.length
  | [], ns => by simp [flatAccum]
  | t :: ts, ns => by
    simp only [flatAccum]
    split
    · exact flatAccum_length pos ts ns
    · rw [flatAccum_length pos ts]; simp

theorem lapSweep_length (es : List (Nat × Nat)) (factor : s) (vs : List (V3 s)) :
    ∀ k, (lapSweep es factor vs k).length = vs.length
  | 0 => by simp [lapSweep]
  | k + 1 => by
    simp only [lapSweep]
    split
    · exact lapSweep_length es factor vs k
    · simp [lapSweep_length es factor vs k]

theorem lapIter_length (es : List (Nat × Nat)) (factor : s) : ∀ (n : Nat) (vs : List (V3 s)),
    (lapIter es factor n vs).length = vs.length
  | 0, vs => by simp [lapIter]
  | n + 1, vs => by simp only [lapIter]; rw [lapIter_length es factor n, lapSweep_length]

theorem filterMap_length_of_all {β γ : Type} (f : β → Option γ) : ∀ (l : List β),
    l.all (fun x => (f x).isSome) = true → (l.filterMap f).length = l.length
  | [], _ => by simp
  | a :: t, h => by
    simp only [List.all_cons, Bool.and_eq_true] at h
    obtain ⟨b, hb⟩ := Option.isSome_iff_exists.mp h.1
    simp [List.filterMap_cons, hb, filterMap_length_of_all f t h.2]

/-! ### WF (C02) -/

theorem smoothNormals_wf {m m' : MeshVal (List s)} (h : WF m) (hm : m.smoothNormals = some m') : WF m' := by
  unfold smoothNormals at hm
  split at hm
  · split at hm
    · cases hm
    · rename_i d hd
      cases hm
      apply setAttr_wf h
      left
      simp only [List.length_map, smoothAccum_length, List.length_replicate]
      exact h.1 _ (Attrs.find?_mem hd)
  · cases hm

theorem flatNormals_wf {m m' : MeshVal (List s)} (h : WF m) (hm : m.flatNormals = some m') : WF m' := by
  unfold flatNormals at hm
  split at hm
  · split at hm
    · cases hm
    · rename_i d hd
      cases hm
      apply setAttr_wf h
      left
      simp only [List.length_map, flatAccum_length, List.length_replicate]
      exact h.1 _ (Attrs.find?_mem hd)
  · cases hm

theorem laplacian_wf {m m' : MeshVal (List s)} (h : WF m) {name : String} {iters : Nat} {factor : s}
    (hm : m.laplacian name iters factor = some m') : WF m' := by
  unfold laplacian at hm
  split at hm
  · cases hm
  · rename_i es _
    refine modifyAttr_wf h ?_ hm
    intro d
    split
    · rename_i hall
      simp only [List.length_map, lapIter_length]
      exact filterMap_length_of_all _ d hall
    · rfl

theorem center_wf {m m' : MeshVal (List s)} (h : WF m) {mn mx : s → s → s} {name : String}
    (hm : MeshVal.center mn mx m name = some m') : WF m' :=
  modifyAttr_wf h (fun d => by simp) hm

theorem normalize_wf {m m' : MeshVal (List s)} (h : WF m) {init : s} {mx : s → s → s} {name : String}
    (hm : MeshVal.normalize init mx m name = some m') : WF m' :=
  modifyAttr_wf h (fun d => by simp) hm

end MeshVal
end PolyVerif.Mesh
