/-
  Helper lemmas for C16, part 3: `newOctree` (bounds, octant buckets, recursion) and the BVH.
-/
import PolyVerif.Lemmas.TreeSearch
namespace PolyVerif.Tree
open Gen.geometry
variable {E : Type}

theorem widenFor_noop (item b : Box) (w : ℝ) (n : Nat)
    (h : b.Contains item.Min = true ∧ b.Contains item.Max = true) : widenFor item n (b, w) = (b, w) := by
  cases n with
  | zero => rfl
  | succ n => simp [widenFor, h.1, h.2]

theorem encapsulate_fold (boxOf : E → Box) (es : List E) (b0 : Box) :
    (∀ v, b0.Contains v = true → (es.foldl (fun b e => b.EncapsulateBounds (boxOf e)) b0).Contains v = true) ∧
    (∀ e ∈ es, BoxSub (boxOf e) (es.foldl (fun b e => b.EncapsulateBounds (boxOf e)) b0)) := by
  induction es generalizing b0 with
  | nil => simp
  | cons x xs ih =>
    simp only [List.foldl_cons]
    obtain ⟨ih1, ih2⟩ := ih (b0.EncapsulateBounds (boxOf x))
    have enc : BoxSub (boxOf x) (b0.EncapsulateBounds (boxOf x)) ∧
        ∀ v, b0.Contains v = true → (b0.EncapsulateBounds (boxOf x)).Contains v = true := by
      refine ⟨⟨?_, ?_⟩, ?_⟩
      · exact aabb_encapsulatePoint_mono _ _ _ (aabb_encapsulatePoint_contains _ _)
      · exact aabb_encapsulatePoint_contains _ _
      · intro v hv
        exact aabb_encapsulatePoint_mono _ _ _ (aabb_encapsulatePoint_mono _ _ _ hv)
    refine ⟨fun v hv => ih1 v (enc.2 v hv), ?_⟩
    intro e he
    rcases List.mem_cons.mp he with rfl | he
    · exact ⟨ih1 _ enc.1.1, ih1 _ enc.1.2⟩
    · exact ih2 e he

theorem widen_fold_noop (boxOf : E → Box) (b : Box) (w : ℝ) (es : List E)
    (h : ∀ e ∈ es, BoxSub (boxOf e) b) :
    es.foldl (fun st e => widenFor (boxOf e) widenFuel st) (b, w) = (b, w) := by
  induction es with
  | nil => rfl
  | cons x xs ih =>
    simp only [List.foldl_cons]
    rw [widenFor_noop _ _ _ _ (h x (by simp))]
    exact ih (fun e he => h e (by simp [he]))

/-- over ℝ the widening loop never runs, and the node bounds contain every element box -/
theorem boundsOf_covers (boxOf : E → Box) (e0 : E) (es : List E) :
    ∀ e ∈ es, BoxSub (boxOf e) (boundsOf boxOf e0 es) := by
  have h := (encapsulate_fold boxOf es (boxOf e0)).2
  simp only [boundsOf]
  rw [widen_fold_noop boxOf _ _ es h]
  exact h

theorem octant_lt (c : P3) (b : Box) : octant c b < 8 := by
  simp only [octant, octreeIndex]
  split_ifs <;> omega

theorem filter_lt_succ_perm (l : List E) (f : E → Nat) (n : Nat) :
    (l.filter (fun e => decide (f e < n + 1))).Perm
      (l.filter (fun e => decide (f e < n)) ++ l.filter (fun e => f e == n)) := by
  induction l with
  | nil => simp
  | cons x xs ih =>
    by_cases h1 : f x < n
    · have h2 : f x < n + 1 := by omega
      have h3 : (f x == n) = false := by simp; omega
      simp only [List.filter_cons, h1, h2, h3, decide_true, if_true, List.cons_append, Bool.false_eq_true, if_false]
      exact List.Perm.cons x ih
    · by_cases h2 : f x = n
      · have h3 : f x < n + 1 := by omega
        have h4 : (f x == n) = true := by simp [h2]
        simp only [List.filter_cons, h1, h3, h4, decide_true, decide_false, if_true, Bool.false_eq_true, if_false]
        exact (List.Perm.cons x ih).trans List.perm_middle.symm
      · have h3 : ¬ f x < n + 1 := by omega
        have h4 : (f x == n) = false := by simp [h2]
        simp only [List.filter_cons, h1, h3, h4, decide_false, Bool.false_eq_true, if_false]
        exact ih

theorem buckets_perm (l : List E) (f : E → Nat) (n : Nat) :
    ((List.range n).flatMap (fun k => l.filter (fun e => f e == k))).Perm (l.filter (fun e => decide (f e < n))) := by
  induction n with
  | zero => simp
  | succ n ih =>
    rw [List.range_succ, List.flatMap_append]
    simp only [List.flatMap_cons, List.flatMap_nil, List.append_nil]
    exact (List.Perm.append_right _ ih).trans (filter_lt_succ_perm l f n).symm


theorem filterMap_flatMap_perm {T : Type} (ks : List Nat) (f : Nat → Option T) (g : Nat → List E) (el : T → List E)
    (h0 : ∀ k ∈ ks, f k = none → g k = [])
    (h1 : ∀ k ∈ ks, ∀ t, f k = some t → (el t).Perm (g k)) :
    ((ks.filterMap f).flatMap el).Perm (ks.flatMap g) := by
  induction ks with
  | nil => simp
  | cons k ks ih =>
    have ih' := ih (fun k' hk' => h0 k' (by simp [hk'])) (fun k' hk' => h1 k' (by simp [hk']))
    simp only [List.filterMap_cons, List.flatMap_cons]
    cases hf : f k with
    | none => rw [h0 k (by simp) hf]; simpa using ih'
    | some t =>
      simp only [List.flatMap_cons]
      exact List.Perm.append (h1 k (by simp) t hf) ih'

/-- `build_covers`, generic in the element type: for every list of elements with well-formed boxes
    (a box contains its own corners, i.e. non-negative extents) and every depth, `newOctree` returns nil
    exactly for the empty list, and otherwise a tree that satisfies the covering invariant and stores a
    permutation of the input -/
theorem build_spec (boxOf : E → Box) : ∀ (d : Nat) (es : List E), (∀ e ∈ es, BoxSub (boxOf e) (boxOf e)) →
    match build boxOf d es with
    | none => es = []
    | some t => Inv (fun b e => BoxSub (boxOf e) b) t ∧ t.allElems.Perm es := by
  have leaf : ∀ (b : Box) (l : List E), (∀ e ∈ l, BoxSub (boxOf e) b) →
      Inv (fun b e => BoxSub (boxOf e) b) (Oct.node b l []) ∧ (Oct.node b l []).allElems.Perm l := by
    intro b l h
    refine ⟨Inv.node ?_ (by simp), by simp [Oct.allElems_node]⟩
    intro e he
    simp only [Oct.allElems_node, List.flatMap_nil, List.append_nil] at he
    exact h e he
  have single : ∀ e : E, BoxSub (boxOf e) (boxOf e) →
      Inv (fun b e => BoxSub (boxOf e) b) (Oct.node (boxOf e) [e] []) ∧ (Oct.node (boxOf e) [e] []).allElems.Perm [e] := by
    intro e he
    exact leaf (boxOf e) [e] (by intro e' he'; simp only [List.mem_singleton] at he'; subst he'; exact he)
  intro d
  induction d with
  | zero =>
    intro es hwf
    match es with
    | [] => simp [build]
    | [e] => simp only [build]; exact single e (hwf e (by simp))
    | e0 :: e1 :: es =>
      simp only [build]
      exact leaf _ _ (boundsOf_covers boxOf e0 (e0 :: e1 :: es))
  | succ d ih =>
    intro es hwf
    match es with
    | [] => simp [build]
    | [e] => simp only [build]; exact single e (hwf e (by simp))
    | e0 :: e1 :: es =>
      simp only [build]
      generalize hall : e0 :: e1 :: es = all at hwf ⊢
      have hb := boundsOf_covers boxOf e0 all
      generalize boundsOf boxOf e0 all = bounds at hb ⊢
      -- the children and what they hold
      have hsub : ∀ k, ∀ e ∈ all.filter (fun e => octant bounds.Center (boxOf e) == k), BoxSub (boxOf e) (boxOf e) :=
        fun k e he => hwf e (List.mem_of_mem_filter he)
      have hk0 : ∀ k ∈ List.range 8, build boxOf d (all.filter (fun e => octant bounds.Center (boxOf e) == k)) = none →
          all.filter (fun e => octant bounds.Center (boxOf e) == k) = [] := by
        intro k _ hn
        have := ih _ (hsub k)
        rw [hn] at this; exact this
      have hk1 : ∀ k ∈ List.range 8, ∀ t, build boxOf d (all.filter (fun e => octant bounds.Center (boxOf e) == k)) = some t →
          t.allElems.Perm (all.filter (fun e => octant bounds.Center (boxOf e) == k)) := by
        intro k _ t hs
        have := ih _ (hsub k)
        rw [hs] at this; exact this.2
      have hperm : (((List.range 8).filterMap (fun k =>
            build boxOf d (all.filter (fun e => octant bounds.Center (boxOf e) == k)))).flatMap
            (fun c => c.allElems)).Perm all := by
        refine (filterMap_flatMap_perm (List.range 8)
          (fun k => build boxOf d (all.filter (fun e => octant bounds.Center (boxOf e) == k)))
          (fun k => all.filter (fun e => octant bounds.Center (boxOf e) == k))
          (fun c => c.allElems) hk0 hk1).trans ?_
        refine (buckets_perm all (fun e => octant bounds.Center (boxOf e)) 8).trans ?_
        rw [List.filter_eq_self.mpr]
        intro e _
        simpa using octant_lt bounds.Center (boxOf e)
      have hinv : ∀ c ∈ (List.range 8).filterMap (fun k =>
            build boxOf d (all.filter (fun e => octant bounds.Center (boxOf e) == k))),
            Inv (fun b e => BoxSub (boxOf e) b) c := by
        intro c hc
        obtain ⟨k, _, hk⟩ := List.mem_filterMap.mp hc
        have := ih (all.filter (fun e => octant bounds.Center (boxOf e) == k))
          (fun e he => hwf e (List.mem_of_mem_filter he))
        rw [hk] at this
        exact this.1
      generalize (List.range 8).filterMap (fun k =>
            build boxOf d (all.filter (fun e => octant bounds.Center (boxOf e) == k))) = kids at hperm hinv ⊢
      have inner : Inv (fun b e => BoxSub (boxOf e) b) (Oct.node bounds [] kids) ∧
          (Oct.node bounds [] kids).allElems.Perm all := by
        refine ⟨Inv.node ?_ hinv, by simpa [Oct.allElems_node] using hperm⟩
        intro e he
        simp only [Oct.allElems_node, List.nil_append] at he
        exact hb e (hperm.subset he)
      match kids, hperm, hinv, inner with
      | [], _, _, inner => exact inner
      | [ch], hperm, hinv, _ =>
        exact ⟨hinv ch (by simp), by simpa using hperm⟩
      | _ :: _ :: _, _, _, inner => exact inner

end PolyVerif.Tree
