/-
  C10 — lemmas for the allocation model (Model/ParAlloc.lean).  Core Lean only.
-/
import PolyVerif.Model.ParAlloc
import PolyVerif.Lemmas.ParCanvas

namespace PolyVerif.Par

theorem slotOf_lt : ∀ {l : List Block} {b : Block}, b ∈ l → slotOf l b < l.length
  | x :: xs, b, h => by
    unfold slotOf
    by_cases e : x = b
    · simp [e]
    · have : b ∈ xs := by
        rcases List.mem_cons.mp h with h | h
        · exact absurd h.symm e
        · exact h
      simp [e]; exact slotOf_lt this

theorem slotOf_append_mem : ∀ {l : List Block} (m : List Block) {b : Block}, b ∈ l → slotOf (l ++ m) b = slotOf l b
  | x :: xs, m, b, h => by
    simp only [List.cons_append, slotOf]
    by_cases e : x = b
    · simp [e]
    · have : b ∈ xs := by
        rcases List.mem_cons.mp h with h | h
        · exact absurd h.symm e
        · exact h
      simp [e]; exact slotOf_append_mem m this

theorem slotOf_append_new : ∀ {l : List Block} {b : Block}, b ∉ l → slotOf (l ++ [b]) b = l.length
  | [], b, _ => by simp [slotOf]
  | x :: xs, b, h => by
    simp only [List.mem_cons, not_or] at h
    simp only [List.cons_append, slotOf]
    have e : ¬ x = b := fun e => h.1 e.symm
    simp [e]; exact slotOf_append_new h.2

theorem slotOf_inj : ∀ {l : List Block} {a b : Block}, a ∈ l → b ∈ l → slotOf l a = slotOf l b → a = b
  | x :: xs, a, b, ha, hb, h => by
    unfold slotOf at h
    by_cases ea : x = a <;> by_cases eb : x = b
    · exact ea.symm.trans eb
    · simp [ea] at h; exact h
    · simp [eb] at h; exact h.symm
    · simp [ea, eb] at h
      have ha' : a ∈ xs := by
        rcases List.mem_cons.mp ha with h | h
        · exact absurd h.symm ea
        · exact h
      have hb' : b ∈ xs := by
        rcases List.mem_cons.mp hb with h | h
        · exact absurd h.symm eb
        · exact h
      exact slotOf_inj ha' hb' h

/-! ### facts about the slot table that hold for ANY event sequence -/

theorem step_slots {α : Type} (z : α) (σ : Store α) (e : SEv α) :
    ((σ.step z e).slots = σ.slots ∨ ∃ b, e = SEv.alloc b ∧ b ∉ σ.slots ∧ (σ.step z e).slots = σ.slots ++ [b]) := by
  cases e with
  | alloc b =>
    by_cases h : b ∈ σ.slots
    · left; simp [Store.step, h]
    · right; exact ⟨b, rfl, h, by simp [Store.step, h]⟩
  | upd b k u => left; rfl

/-- whatever the events and their order: no block ever gets two slots, existing slots are never moved, and a block has a
    slot afterwards iff it had one before or some job allocated it -/
theorem run_slots {α : Type} (z : α) : ∀ (s : List (SEv α)) (σ : Store α), σ.slots.Nodup →
    (σ.run z s).slots.Nodup ∧ σ.slots <+: (σ.run z s).slots ∧
    ∀ b, b ∈ (σ.run z s).slots ↔ b ∈ σ.slots ∨ SEv.alloc b ∈ s
  | [], σ, h => ⟨h, List.prefix_refl _, fun b => by simp [Store.run]⟩
  | e :: s, σ, h => by
    have hstep : (σ.step z e).slots.Nodup ∧ σ.slots <+: (σ.step z e).slots ∧
        ∀ b, b ∈ (σ.step z e).slots ↔ b ∈ σ.slots ∨ SEv.alloc b = e := by
      rcases step_slots z σ e with h1 | ⟨b, rfl, hb, h1⟩
      · rw [h1]
        refine ⟨h, List.prefix_refl _, fun b => ⟨Or.inl, ?_⟩⟩
        rintro (hb | hb)
        · exact hb
        · subst hb
          by_cases hm : b ∈ σ.slots
          · exact hm
          · simp [Store.step, hm] at h1
      · rw [h1]
        refine ⟨?_, List.prefix_append _ _, fun b' => ?_⟩
        · rw [List.nodup_append]
          exact ⟨h, by simp, fun a ha c hc => by
            have : c = b := by simpa using hc
            subst this; intro e; exact hb (e ▸ ha)⟩
        · simp only [List.mem_append, List.mem_singleton, SEv.alloc.injEq]
    have ih := run_slots z s (σ.step z e) hstep.1
    refine ⟨ih.1, List.IsPrefix.trans hstep.2.1 ih.2.1, fun b => ?_⟩
    show b ∈ ((σ.step z e).run z s).slots ↔ _
    rw [ih.2.2 b, hstep.2.2 b, List.mem_cons]
    constructor
    · rintro ((h | h) | h)
      · exact Or.inl h
      · exact Or.inr (Or.inl h)
      · exact Or.inr (Or.inr h)
    · rintro (h | h | h)
      · exact Or.inl (Or.inl h)
      · exact Or.inl (Or.inr h)
      · exact Or.inr h

/-! ### simulation: the slot-level execution, seen by block, is the block-keyed execution -/

/-- every `upd b` comes after an `alloc b` (`started` = blocks whose job has allocated already) -/
def WFfrom {α : Type} : List Block → List (SEv α) → Prop
  | _, [] => True
  | st, SEv.alloc b :: s => WFfrom (b :: st) s
  | st, SEv.upd b _ _ :: s => b ∈ st ∧ WFfrom st s

structure Inv {α : Type} (σ : Store α) (st : List Block) : Prop where
  nodup : σ.slots.Nodup
  started : ∀ b ∈ st, b ∈ σ.slots ∧ σ.cur b = slotOf σ.slots b

theorem step_alloc_sim {α : Type} (z : α) (σ : Store α) (st : List Block) (b : Block) (h : Inv σ st) :
    Inv (σ.step z (SEv.alloc b)) (b :: st) ∧ (σ.step z (SEv.alloc b)).view z = σ.view z := by
  by_cases hb : b ∈ σ.slots
  · have e : σ.step z (SEv.alloc b) = { σ with cur := fun b' => if b' = b then slotOf σ.slots b else σ.cur b' } := by
      simp [Store.step, hb]
    rw [e]
    refine ⟨⟨h.nodup, ?_⟩, rfl⟩
    intro b' hb'
    by_cases e' : b' = b
    · subst e'; exact ⟨hb, by simp⟩
    · rcases List.mem_cons.mp hb' with h' | h'
      · exact absurd h' e'
      · exact ⟨(h.started b' h').1, by simp [e', (h.started b' h').2]⟩
  · have e : σ.step z (SEv.alloc b) = { slots := σ.slots ++ [b], mem := (fun p => if p.1 = σ.slots.length then z else σ.mem p), cur := (fun b' => if b' = b then σ.slots.length else σ.cur b') } := by
      simp [Store.step, hb]
    rw [e]
    refine ⟨⟨?_, ?_⟩, ?_⟩
    · show (σ.slots ++ [b]).Nodup
      rw [List.nodup_append]
      exact ⟨h.nodup, by simp, fun a ha c hc => by
        have : c = b := by simpa using hc
        subst this; intro e; exact hb (e ▸ ha)⟩
    · intro b' hb'
      show b' ∈ σ.slots ++ [b] ∧ (if b' = b then σ.slots.length else σ.cur b') = slotOf (σ.slots ++ [b]) b'
      by_cases e' : b' = b
      · subst e'; exact ⟨by simp, by simp [slotOf_append_new hb]⟩
      · rcases List.mem_cons.mp hb' with h' | h'
        · exact absurd h' e'
        · have := h.started b' h'
          exact ⟨List.mem_append_left _ this.1, by simp [e', this.2, slotOf_append_mem [b] this.1]⟩
    · funext c
      show (if c.1 ∈ σ.slots ++ [b] then (if slotOf (σ.slots ++ [b]) c.1 = σ.slots.length then z else σ.mem (slotOf (σ.slots ++ [b]) c.1, c.2)) else z)
        = if c.1 ∈ σ.slots then σ.mem (slotOf σ.slots c.1, c.2) else z
      by_cases hc : c.1 ∈ σ.slots
      · have hlt := slotOf_lt hc
        have hne : ¬ slotOf σ.slots c.1 = σ.slots.length := by omega
        simp [hc, slotOf_append_mem [b] hc, hne]
      · by_cases hcb : c.1 = b
        · simp [hcb, slotOf_append_new hb, hb]
        · simp [hc, hcb]

theorem step_upd_sim {α : Type} (z : α) (σ : Store α) (st : List Block) (b : Block) (k : Int) (u : α → α)
    (h : Inv σ st) (hb : b ∈ st) :
    Inv (σ.step z (SEv.upd b k u)) st ∧ (σ.step z (SEv.upd b k u)).view z = upd (σ.view z) ((b, k), u) := by
  have hs := h.started b hb
  refine ⟨⟨h.nodup, h.started⟩, ?_⟩
  funext c
  show (if c.1 ∈ σ.slots then (if (slotOf σ.slots c.1, c.2) = (σ.cur b, k) then u (σ.mem (slotOf σ.slots c.1, c.2)) else σ.mem (slotOf σ.slots c.1, c.2)) else z)
    = if c = (b, k) then u (σ.view z c) else σ.view z c
  by_cases hc : c.1 ∈ σ.slots
  · by_cases e : c = (b, k)
    · subst e; simp [hc, hs.2, Store.view, hs.1]
    · have : ¬ (slotOf σ.slots c.1, c.2) = (σ.cur b, k) := by
        intro e'
        simp only [Prod.mk.injEq, hs.2] at e'
        exact e (Prod.ext (slotOf_inj hc hs.1 e'.1) e'.2)
      simp [hc, e, this, Store.view]
  · have e : ¬ c = (b, k) := fun e => hc (e ▸ hs.1)
    simp [hc, e, Store.view]

/-- for every event sequence in which each job allocates before it updates: the canvas seen by block after the slot-level
    run is the block-keyed run of the sequence's cell updates -/
theorem run_sim {α : Type} (z : α) : ∀ (s : List (SEv α)) (σ : Store α) (st : List Block), Inv σ st → WFfrom st s →
    (σ.run z s).view z = runUpd (σ.view z) (s.filterMap SEv.keyed)
  | [], _, _, _, _ => rfl
  | SEv.alloc b :: s, σ, st, h, hw => by
    have := step_alloc_sim z σ st b h
    show ((σ.step z (SEv.alloc b)).run z s).view z = _
    rw [run_sim z s _ (b :: st) this.1 hw, this.2]
    simp only [List.filterMap_cons, SEv.keyed]
  | SEv.upd b k u :: s, σ, st, h, hw => by
    have := step_upd_sim z σ st b k u h hw.1
    show ((σ.step z (SEv.upd b k u)).run z s).view z = _
    rw [run_sim z s _ st this.1 hw.2, this.2]
    simp only [List.filterMap_cons, SEv.keyed]
    rfl

/-! ### interleavings of job logs are well-formed -/

/-- a (remaining part of a) job log: either a whole job `alloc b :: upd b …`, or only updates of jobs that have allocated -/
def LogOK {α : Type} (st : List Block) (l : List (SEv α)) : Prop :=
  (∀ e ∈ l, ∃ b k u, e = SEv.upd b k u ∧ b ∈ st) ∨
  (∃ b rest, l = SEv.alloc b :: rest ∧ ∀ e ∈ rest, ∃ k u, e = SEv.upd b k u)

theorem LogOK.mono {α : Type} {st : List Block} {l : List (SEv α)} (b : Block) (h : LogOK st l) : LogOK (b :: st) l := by
  rcases h with h | h
  · left; intro e he; obtain ⟨b', k, u, rfl, hb⟩ := h e he; exact ⟨b', k, u, rfl, List.mem_cons_of_mem _ hb⟩
  · right; exact h

theorem wf_of_interleaving {α : Type} {logs : List (List (SEv α))} {s : List (SEv α)} (hs : Interleaving logs s) :
    ∀ st, (∀ l ∈ logs, LogOK st l) → WFfrom st s := by
  induction hs with
  | done _ => intro _ _; trivial
  | @step logs s k x rest hk _ ih =>
    intro st hl
    have hx : LogOK st (x :: rest) := hl _ (List.mem_of_getElem? hk)
    have hset : ∀ st', (∀ l ∈ logs, LogOK st' l) → LogOK st' rest → ∀ l ∈ logs.set k rest, LogOK st' l := by
      intro st' h1 h2 l hl
      rcases List.mem_or_eq_of_mem_set hl with h | h
      · exact h1 l h
      · exact h ▸ h2
    rcases hx with hx | ⟨b, rest', e, hr⟩
    · obtain ⟨b, k', u, rfl, hb⟩ := hx x (List.mem_cons_self)
      refine ⟨hb, ih st (hset st hl (Or.inl fun e he => hx e (List.mem_cons_of_mem _ he)))⟩
    · simp only [List.cons.injEq] at e
      obtain ⟨rfl, rfl⟩ := e
      refine ih (b :: st) (hset _ (fun l h => (hl l h).mono b) (Or.inl fun e he => ?_))
      obtain ⟨k', u, rfl⟩ := hr e he
      exact ⟨b, k', u, rfl, List.mem_cons_self⟩

theorem cjobLog_ok {α : Type} (F : FieldFns) (d : Dom) (g : Int → Int → Int → α → α) (b : Block) (st : List Block) :
    LogOK st (F.cjobLog d g b) := by
  right
  refine ⟨b, _, rfl, ?_⟩
  intro e he
  simp only [List.mem_map] at he
  obtain ⟨c, _, rfl⟩ := he
  exact ⟨_, _, rfl⟩

theorem jobCells_fst (F : FieldFns) (d : Dom) (b : Block) : ∀ e ∈ F.jobCells d b, e.1.1 = b := by
  intro e he
  unfold FieldFns.jobCells at he
  simp only [List.mem_flatMap, List.mem_map] at he
  obtain ⟨_, _, _, _, _, _, rfl⟩ := he
  rfl

theorem cjobLog_keyed {α : Type} (F : FieldFns) (d : Dom) (g : Int → Int → Int → α → α) (b : Block) :
    (F.cjobLog d g b).filterMap SEv.keyed = F.jobLog d g b := by
  unfold FieldFns.cjobLog FieldFns.jobLog
  rw [List.filterMap_cons]
  simp only [SEv.keyed, List.filterMap_map]
  have : (SEv.keyed ∘ fun (e : Cell × (Int × Int × Int)) => SEv.upd b e.1.2 (g e.2.1 e.2.2.1 e.2.2.2))
      = some ∘ (fun (e : Cell × (Int × Int × Int)) => (((b, e.1.2) : Cell), g e.2.1 e.2.2.1 e.2.2.2)) := rfl
  rw [this, List.filterMap_eq_map]
  apply List.map_congr_left
  intro e he
  have := jobCells_fst F d b e he
  rw [← this]

/-! ### one AddField* call at slot level -/

theorem mem_alloc_cjobLogs {α : Type} (F : FieldFns) (d : Dom) (g : Int → Int → Int → α → α) (b : Block) :
    SEv.alloc b ∈ ((F.blocks d).map (F.cjobLog d g)).flatten ↔ b ∈ F.blocks d := by
  simp only [List.mem_flatten, List.mem_map]
  constructor
  · rintro ⟨l, ⟨b', hb', rfl⟩, hl⟩
    unfold FieldFns.cjobLog at hl
    rcases List.mem_cons.mp hl with h | h
    · cases h; exact hb'
    · simp only [List.mem_map] at h
      obtain ⟨_, _, h⟩ := h
      cases h
  · intro hb
    exact ⟨_, ⟨b, hb, rfl⟩, List.mem_cons_self⟩

/-- slot table after one call, ANY interleaving of its jobs -/
theorem slots_of_interleaving {α : Type} (z : α) (F : FieldFns) (d : Dom) (g : Int → Int → Int → α → α)
    (σ0 : Store α) (h0 : σ0.slots.Nodup) (s : List (SEv α))
    (hs : Interleaving ((F.blocks d).map (F.cjobLog d g)) s) :
    (σ0.run z s).slots.Nodup ∧ σ0.slots <+: (σ0.run z s).slots ∧
    ∀ b, b ∈ (σ0.run z s).slots ↔ b ∈ σ0.slots ∨ b ∈ F.blocks d := by
  have h := run_slots z s σ0 h0
  refine ⟨h.1, h.2.1, fun b => ?_⟩
  rw [h.2.2 b, hs.perm.mem_iff, mem_alloc_cjobLogs]

/-- canvas seen by block after one call, ANY interleaving of its jobs = block-keyed run of the jobs one after the other -/
theorem view_of_interleaving {α : Type} (z : α) {F : FieldFns} (hF : FieldOK F) (d : Dom) (g : Int → Int → Int → α → α)
    (σ0 : Store α) (h0 : σ0.slots.Nodup) (s : List (SEv α))
    (hs : Interleaving ((F.blocks d).map (F.cjobLog d g)) s) :
    (σ0.run z s).view z = runUpd (σ0.view z) ((F.blocks d).map (F.jobLog d g)).flatten := by
  have hwf : WFfrom [] s := wf_of_interleaving hs [] (by
    intro l hl
    simp only [List.mem_map] at hl
    obtain ⟨b, _, rfl⟩ := hl
    exact cjobLog_ok F d g b [])
  rw [run_sim z s σ0 [] ⟨h0, by intro b hb; cases hb⟩ hwf]
  have hp : (s.filterMap SEv.keyed).Perm ((F.blocks d).map (F.jobLog d g)).flatten := by
    have := hs.perm.filterMap (SEv.keyed (α := α))
    rw [List.filterMap_flatten, List.map_map] at this
    have e : (List.filterMap (SEv.keyed (α := α)) ∘ F.cjobLog d g) = F.jobLog d g := by
      funext b; exact cjobLog_keyed F d g b
    rwa [e] at this
  exact runUpd_perm hp ((hp.map Prod.fst).nodup_iff.mpr (all_keys_nodup hF d g)) _

end PolyVerif.Par
