/-
  Lemmas about Model/Spz.lean for Props/C15: planar-array index arithmetic against the reference
  encoder, header round trip, 24-bit sign extension on BitVec 32 (kernel-checked bit-vector
  reasoning through `toNat`; no SAT certificate).
-/
import PolyVerif.Lemmas.Readers

namespace PolyVerif
namespace Spz


/-- index into planar data: byte `c` of record `i` -/
theorem byteAt_flatMap {β : Type} (ps : List β) (f : β → List UInt8) (m : Nat) (hm : ∀ p ∈ ps, (f p).length = m)
    (i : Nat) (hi : i < ps.length) (c : Nat) (hc : c < m) :
    byteAt (ps.flatMap f) (i * m + c) = byteAt (f ps[i]) c := by
  induction ps generalizing i with
  | nil => simp at hi
  | cons p ps ih =>
    have hp := hm p List.mem_cons_self
    have hps : ∀ q ∈ ps, (f q).length = m := fun q hq => hm q (List.mem_cons_of_mem _ hq)
    simp only [List.flatMap_cons, byteAt, List.getD_eq_getElem?_getD] at *
    cases i with
    | zero =>
      simp only [Nat.zero_mul, Nat.zero_add, List.getElem_cons_zero]
      rw [List.getElem?_append_left (by omega)]
    | succ i =>
      simp only [List.getElem_cons_succ]
      rw [List.getElem?_append_right (by rw [hp, Nat.succ_mul]; omega)]
      have : (i + 1) * m + c - (f p).length = i * m + c := by rw [hp, Nat.succ_mul]; omega
      rw [this]
      exact ih hps i (by simpa using hi)

theorem byteAt_map {β : Type} (ps : List β) (f : β → UInt8) (i : Nat) (hi : i < ps.length) :
    byteAt (ps.map f) i = f ps[i] := by
  simp [byteAt, List.getD_eq_getElem?_getD, hi]

theorem range_map_eq_map {β γ : Type} (ps : List β) (F : Nat → γ) (G : β → γ)
    (h : ∀ i (hi : i < ps.length), F i = G ps[i]) : (List.range ps.length).map F = ps.map G := by
  apply List.ext_getElem
  · simp
  · intro i h1 h2
    simp only [List.getElem_map, List.getElem_range]
    exact h i (by simpa using h2)

theorem flatMap_length_const {β : Type} (ps : List β) (f : β → List UInt8) (m : Nat)
    (hm : ∀ p ∈ ps, (f p).length = m) : (ps.flatMap f).length = ps.length * m := by
  induction ps with
  | nil => simp
  | cons p ps ih =>
    simp only [List.flatMap_cons, List.length_append, List.length_cons,
      ih (fun q hq => hm q (List.mem_cons_of_mem _ hq)), hm p List.mem_cons_self]
    rw [Nat.succ_mul]; omega

theorem leNat_le32b (n : Nat) (h : n < 2 ^ 32) : leNat (le32b n) = n := by
  simp only [le32b, leNat, UInt8.toNat_ofNat']
  omega

/-- header fields fit their widths -/
def Header.inRange (h : Header) : Prop :=
  h.magic < 2 ^ 32 ∧ h.version < 2 ^ 32 ∧ h.numPoints < 2 ^ 32 ∧ h.shDegree < 256 ∧ h.fractionalBits < 256 ∧
  h.flags < 256 ∧ h.reserved < 256

theorem encHeader_length (h : Header) : (encHeader h).length = 16 := by simp [encHeader, le32b]

theorem parseHeader_encHeader (h : Header) (hr : h.inRange) : parseHeader (encHeader h) = h := by
  obtain ⟨magic, version, numPoints, shDegree, fractionalBits, flags, reserved⟩ := h
  obtain ⟨h1, h2, h3, h4, h5, h6, h7⟩ := hr
  simp only at h1 h2 h3 h4 h5 h6 h7
  have e1 := leNat_le32b _ h1; have e2 := leNat_le32b _ h2; have e3 := leNat_le32b _ h3
  simp only [le32b] at e1 e2 e3
  simp only [parseHeader, encHeader, le32b, List.cons_append, List.nil_append, List.take_succ_cons, List.take_zero,
    List.drop_succ_cons, List.drop_zero, e1, e2, e3]
  simp only [leNat, UInt8.toNat_ofNat']
  simp only [Header.mk.injEq, true_and]
  omega

theorem readRaw_refEncode (h : Header) (hr : h.inRange) (hv : h.valid = true) (ps : List Packed)
    (hn : ps.length = h.numPoints) (hf : ∀ p ∈ ps, p.fits h) (extra : List UInt8) :
    readRaw (refEncode h ps ++ extra) =
      .ok ⟨h, ps.flatMap (·.pos), ps.map (·.alpha), ps.flatMap (·.color), ps.flatMap (·.scale),
        ps.flatMap (·.rot), ps.flatMap (·.sh)⟩ := by
  have hl := encHeader_length h
  have ht : (refEncode h ps ++ extra).take 16 = encHeader h := by
    simp only [refEncode, List.append_assoc]
    rw [List.take_append_of_le_length (by omega), List.take_of_length_le (by omega)]
  have hd : (refEncode h ps ++ extra).drop 16 =
      ([ps.flatMap (·.pos), ps.map (·.alpha), ps.flatMap (·.color), ps.flatMap (·.scale),
        ps.flatMap (·.rot), ps.flatMap (·.sh)] : List (List UInt8)).flatten ++ extra := by
    simp only [refEncode, List.append_assoc]
    rw [← hl, List.drop_left']
    rfl
  have hsz : ([ps.flatMap (·.pos), ps.map (·.alpha), ps.flatMap (·.color), ps.flatMap (·.scale),
        ps.flatMap (·.rot), ps.flatMap (·.sh)] : List (List UInt8)).map List.length = arraySizes h := by
    simp only [List.map_cons, List.map_nil, arraySizes, List.length_map,
      flatMap_length_const ps (·.pos) (posBytes h) (fun p hp => (hf p hp).1),
      flatMap_length_const ps (·.color) 3 (fun p hp => (hf p hp).2.1),
      flatMap_length_const ps (·.scale) 3 (fun p hp => (hf p hp).2.2.1),
      flatMap_length_const ps (·.rot) 3 (fun p hp => (hf p hp).2.2.2.1),
      flatMap_length_const ps (·.sh) (3 * shDim h.shDegree) (fun p hp => (hf p hp).2.2.2.2), hn, Nat.mul_assoc]
  unfold readRaw
  rw [if_pos (by simp only [List.length_append, refEncode, hl]; omega), ht, parseHeader_encHeader h hr]
  simp only [hv, if_true, hd]
  rw [← hsz, Readers.readArrays_full]

variable {α : Type} [Scalar α]

theorem decodeAlphas_eq (ps : List Packed) :
    (decodeAlphas ps.length (ps.map (·.alpha)) : List α) = ps.map fun p => alphaDec p.alpha := by
  unfold decodeAlphas
  apply range_map_eq_map
  intro i hi
  rw [byteAt_map ps _ i hi]

theorem decode3_eq (ps : List Packed) (f : Packed → List UInt8) (hm : ∀ p ∈ ps, (f p).length = 3) (i : Nat)
    (hi : i < ps.length) :
    byteAt (ps.flatMap f) (i * 3) = byteAt (f ps[i]) 0 ∧
    byteAt (ps.flatMap f) (i * 3 + 0) = byteAt (f ps[i]) 0 ∧
    byteAt (ps.flatMap f) (i * 3 + 1) = byteAt (f ps[i]) 1 ∧
    byteAt (ps.flatMap f) (i * 3 + 2) = byteAt (f ps[i]) 2 :=
  ⟨by simpa using byteAt_flatMap ps f 3 hm i hi 0 (by omega), byteAt_flatMap ps f 3 hm i hi 0 (by omega),
   byteAt_flatMap ps f 3 hm i hi 1 (by omega), byteAt_flatMap ps f 3 hm i hi 2 (by omega)⟩

theorem decodeColors_eq (ps : List Packed) (hm : ∀ p ∈ ps, p.color.length = 3) :
    (decodeColors ps.length (ps.flatMap (·.color)) : List (V3 α)) =
      ps.map fun p => ⟨colorDec (byteAt p.color 0), colorDec (byteAt p.color 1), colorDec (byteAt p.color 2)⟩ := by
  unfold decodeColors
  apply range_map_eq_map
  intro i hi
  obtain ⟨e0, _, e1, e2⟩ := decode3_eq ps (·.color) hm i hi
  simp only [e0, e1, e2]

theorem decodeScales_eq (ps : List Packed) (hm : ∀ p ∈ ps, p.scale.length = 3) :
    (decodeScales ps.length (ps.flatMap (·.scale)) : List (V3 α)) =
      ps.map fun p => ⟨scaleDec (byteAt p.scale 0), scaleDec (byteAt p.scale 1), scaleDec (byteAt p.scale 2)⟩ := by
  unfold decodeScales
  apply range_map_eq_map
  intro i hi
  obtain ⟨e0, _, e1, e2⟩ := decode3_eq ps (·.scale) hm i hi
  simp only [e0, e1, e2]

theorem decodeRotations_eq (ps : List Packed) (hm : ∀ p ∈ ps, p.rot.length = 3) :
    (decodeRotations ps.length (ps.flatMap (·.rot)) : List (V4 α)) =
      ps.map fun p => ⟨rotDec (byteAt p.rot 0), rotDec (byteAt p.rot 1), rotDec (byteAt p.rot 2),
        rotW (rotDec (byteAt p.rot 0)) (rotDec (byteAt p.rot 1)) (rotDec (byteAt p.rot 2))⟩ := by
  unfold decodeRotations
  apply range_map_eq_map
  intro i hi
  obtain ⟨_, e0, e1, e2⟩ := decode3_eq ps (·.rot) hm i hi
  simp only [e0, e1, e2]

theorem decodeSh_eq (ps : List Packed) (dim : Nat) (hm : ∀ p ∈ ps, p.sh.length = 3 * dim) :
    (decodeSh ps.length dim (ps.flatMap (·.sh)) : List (List (V3 α))) =
      (List.range dim).map fun d => ps.map fun p => shCoef p d := by
  unfold decodeSh
  apply List.map_congr_left
  intro d hd
  have hd' : d < dim := by simpa using hd
  apply range_map_eq_map
  intro i hi
  have key : ∀ c, c < 3 → byteAt (ps.flatMap (·.sh)) (d * 3 + i * 3 * dim + c) = byteAt (ps[i].sh) (d * 3 + c) := by
    intro c hc
    have : d * 3 + i * 3 * dim + c = i * (3 * dim) + (d * 3 + c) := by ring
    rw [this]
    exact byteAt_flatMap ps (·.sh) (3 * dim) hm i hi (d * 3 + c) (by omega)
  simp only [shCoef, key 0 (by omega), key 1 (by omega), key 2 (by omega)]

theorem decodePositions_eq (E : Env α) (h : Header) (ps : List Packed) (hn : ps.length = h.numPoints)
    (hm : ∀ p ∈ ps, p.pos.length = posBytes h) :
    decodePositions E h (ps.flatMap (·.pos)) = ps.map fun p => (dequant E h p).pos := by
  unfold decodePositions
  rw [← hn]
  apply range_map_eq_map
  intro i hi
  by_cases hv : h.version = 1
  · have hm6 : ∀ p ∈ ps, p.pos.length = 6 := fun p hp => by rw [hm p hp, posBytes, if_pos hv]
    have key : ∀ c, c < 6 → byteAt (ps.flatMap (·.pos)) (i * 6 + c) = byteAt (ps[i].pos) c :=
      fun c hc => byteAt_flatMap ps (·.pos) 6 hm6 i hi c hc
    have i0 : 2 * (i * 3) = i * 6 + 0 := by omega
    have i1 : 2 * (i * 3) + 1 = i * 6 + 1 := by omega
    have i2 : 2 * (i * 3 + 1) = i * 6 + 2 := by omega
    have i3 : 2 * (i * 3 + 1) + 1 = i * 6 + 3 := by omega
    have i4 : 2 * (i * 3 + 2) = i * 6 + 4 := by omega
    have i5 : 2 * (i * 3 + 2) + 1 = i * 6 + 5 := by omega
    simp only [hv, if_true, dequant, i0, i2, i4, key 0 (by omega), key 1 (by omega), key 2 (by omega),
      key 3 (by omega), key 4 (by omega), key 5 (by omega)]
  · have hm9 : ∀ p ∈ ps, p.pos.length = 9 := fun p hp => by rw [hm p hp, posBytes, if_neg hv]
    have key : ∀ c, c < 9 → byteAt (ps.flatMap (·.pos)) (i * 9 + c) = byteAt (ps[i].pos) c :=
      fun c hc => byteAt_flatMap ps (·.pos) 9 hm9 i hi c hc
    simp only [hv, if_false, dequant, key 0 (by omega), key 1 (by omega), key 2 (by omega),
      key 3 (by omega), key 4 (by omega), key 5 (by omega), key 6 (by omega), key 7 (by omega), key 8 (by omega)]


/-! ### 24-bit sign extension -/

theorem and_two_pow' (w i : Nat) : w &&& 2 ^ i = if w.testBit i then 2 ^ i else 0 := by
  apply Nat.eq_of_testBit_eq; intro j
  rw [Nat.testBit_and, Nat.testBit_two_pow]
  by_cases h : i = j
  · subst h; cases hb : w.testBit i <;> simp [hb, Nat.testBit_two_pow]
  · cases hb : w.testBit i <;> simp [h, Nat.testBit_two_pow]

theorem assemble_toNat (b0 b1 b2 : BitVec 8) :
    (b0.setWidth 32 ||| (b1.setWidth 32 <<< 8) ||| (b2.setWidth 32 <<< 16)).toNat
      = b0.toNat + 256 * b1.toNat + 65536 * b2.toNat := by
  have h0 := b0.isLt; have h1 := b1.isLt; have h2 := b2.isLt
  simp only [BitVec.toNat_or, BitVec.toNat_shiftLeft, BitVec.toNat_setWidth]
  have e0 : b0.toNat % 2 ^ 32 = b0.toNat := Nat.mod_eq_of_lt (by omega)
  have e1 : (b1.toNat % 2 ^ 32) <<< 8 % 2 ^ 32 = b1.toNat <<< 8 := by
    rw [Nat.mod_eq_of_lt (by omega : b1.toNat < 2 ^ 32), Nat.shiftLeft_eq]; omega
  have e2 : (b2.toNat % 2 ^ 32) <<< 16 % 2 ^ 32 = b2.toNat <<< 16 := by
    rw [Nat.mod_eq_of_lt (by omega : b2.toNat < 2 ^ 32), Nat.shiftLeft_eq]; omega
  rw [e0, e1, e2]
  have s1 : b1.toNat <<< 8 + b0.toNat = b1.toNat <<< 8 ||| b0.toNat :=
    Nat.shiftLeft_add_eq_or_of_lt (by omega) _
  have hlt : b1.toNat <<< 8 + b0.toNat < 2 ^ 16 := by rw [Nat.shiftLeft_eq]; omega
  have s2 : b2.toNat <<< 16 + (b1.toNat <<< 8 + b0.toNat) = b2.toNat <<< 16 ||| (b1.toNat <<< 8 + b0.toNat) :=
    Nat.shiftLeft_add_eq_or_of_lt hlt _
  rw [Nat.or_comm (b0.toNat) _, ← s1, Nat.or_comm _ (b2.toNat <<< 16), ← s2]
  simp only [Nat.shiftLeft_eq]; omega

theorem sign_extend_24 (b0 b1 b2 : BitVec 8) :
    (fixed24Word b0 b1 b2).toInt =
      let v : Int := b0.toNat + 256 * b1.toNat + 65536 * b2.toNat
      if v < 2 ^ 23 then v else v - 2 ^ 24 := by
  have h0 := b0.isLt; have h1 := b1.isLt; have h2 := b2.isLt
  have hw := assemble_toNat b0 b1 b2
  simp only [fixed24Word]
  generalize hW : (b0.setWidth 32 ||| (b1.setWidth 32 <<< 8) ||| (b2.setWidth 32 <<< 16)) = w at hw
  have hwlt : w.toNat < 2 ^ 24 := by omega
  -- the test `w & 0x800000 > 0` is `2^23 ≤ w`
  have hand : (w &&& 0x800000#32).toNat = if 2 ^ 23 ≤ w.toNat then 2 ^ 23 else 0 := by
    simp only [BitVec.toNat_and, BitVec.toNat_ofNat]
    have : (8388608 : Nat) % 2 ^ 32 = 2 ^ 23 := by norm_num
    rw [this, and_two_pow']
    by_cases hb : 2 ^ 23 ≤ w.toNat
    · have : w.toNat.testBit 23 = true := by
        rw [Nat.testBit_eq_decide_div_mod_eq]; simp; omega
      rw [this, if_pos rfl, if_pos hb]
    · have : w.toNat.testBit 23 = false := by
        rw [Nat.testBit_eq_decide_div_mod_eq]; simp; omega
      rw [this, if_neg (by simp), if_neg hb]
  have hor : (w ||| 0xff000000#32).toNat = w.toNat + 0xff000000 := by
    simp only [BitVec.toNat_or, BitVec.toNat_ofNat]
    have : (4278190080 : Nat) % 2 ^ 32 = 255 <<< 24 := by decide
    rw [this, Nat.or_comm, ← Nat.shiftLeft_add_eq_or_of_lt hwlt]
    have : (255 : Nat) <<< 24 = 4278190080 := by decide
    omega
  by_cases hb : 2 ^ 23 ≤ w.toNat
  · have hgt : w &&& 0x800000#32 > 0#32 := by
      rw [gt_iff_lt, BitVec.lt_def, hand, if_pos hb]; simp
    rw [if_pos hgt, BitVec.toInt_eq_toNat_cond, hor]
    rw [if_neg (by omega), if_neg (by omega)]
    push_cast; omega
  · have hgt : ¬ (w &&& 0x800000#32 > 0#32) := by
      rw [gt_iff_lt, BitVec.lt_def, hand, if_neg hb]; simp
    rw [if_neg hgt, BitVec.toInt_eq_toNat_cond]
    rw [if_pos (by omega), if_pos (by omega)]
    omega

end Spz
end PolyVerif
