/-
  C08 (round 2) — the ASCII face loop over the reference text encoding WITH a `texcoord` list: the ASCII list reader parses
  texture coordinates with `strconv.ParseFloat(·, 64)`, so under `GoFloatText.parse64_showF` they come back EXACTLY.
  Core Lean only.
-/
import PolyVerif.Lemmas.PlyFacesAscii
import PolyVerif.Lemmas.PlyFacesTex

namespace PolyVerif
namespace PlyFacesTexAscii
open Ply PlySpec PlyLemmas PlyCompose PlyHeader PlyAscii PlyFaces PlyFacesAscii PlyFacesTex

variable {α : Type}

theorem mapM_parseF64 (c : Coding α) (L : GoFloatText c) : ∀ (uv : List α), (uv.map c.showF).mapM c.parseF64 = some uv
  | [] => rfl
  | x :: xs => by
    have h1 := L.parse64_showF x
    have h2 := mapM_parseF64 c L xs
    simp [List.mapM_cons, h1, h2]

/-- ASCII face-property loop, one step: the `texcoord` list (at most 8 entries) -/
theorem goA_tex (c : Coding α) (L : GoFloatText c) (fs : FaceScan) (i : Nat) (hi : fs.idxProp ≠ some i)
    (hti : fs.texProp = some i) (p : Bytes × SType × SType) (uv : List α) (h8 : uv.length ≤ 8)
    (tl : List ((Bytes × SType × SType) × Nat)) (points : Int) (bufs : FaceBufs α) (rest : List Bytes) :
    readFaceAscii.go c fs ((p, i) :: tl) points bufs (showNat uv.length :: (uv.map c.showF ++ rest))
      = readFaceAscii.go c fs tl points { bufs with tex := overwrite bufs.tex uv } rest := by
  have hc := parseInt32_showNat uv.length (by omega)
  have hm := mapM_parseF64 c L uv
  have hneg : ¬ (((uv.length : Nat) : Int) < 0) := by omega
  have h8' : ¬ (8 < uv.length) := by omega
  simp [readFaceAscii.go, hc, hi, hti, hm, h8']
  rw [if_neg hneg, if_neg (by omega)]

theorem faceListAscii_tokL (c : Coding α) (L : GoFloatText c) (fc : SpecFace α) (x : Nat × Bytes × SType × SType × Bool) :
    faceListAscii c fc x ≠ [] ∧ ∀ t ∈ faceListAscii c fc x, Tok t := by
  by_cases hk : x.1 = 1
  · obtain ⟨k, n, ct, it, al⟩ := x
    simp only at hk
    subst hk
    refine ⟨by simp [faceListAscii], ?_⟩
    intro t ht
    simp only [faceListAscii, List.mem_cons, List.mem_map] at ht
    rcases ht with rfl | ⟨v, _, rfl⟩
    · exact showNat_tok _
    · exact L.tokF v
  · exact faceListAscii_tok c fc x hk

theorem lists_ne (fe : SpecFaceElem α) : fe.lists ≠ [] := by
  obtain ⟨short, ct, it, al, tex, tf, ex, faces⟩ := fe
  rcases ex with _ | _ | _ <;> cases tf <;> cases tex <;> simp [SpecFaceElem.lists]

theorem faceToksRef_tokL (c : Coding α) (L : GoFloatText c) (fe : SpecFaceElem α) (fc : SpecFace α) :
    faceToksRef c fe fc ≠ [] ∧ ∀ t ∈ faceToksRef c fe fc, Tok t := by
  constructor
  · intro h0
    simp only [faceToksRef, List.flatten_eq_nil_iff, List.mem_map] at h0
    cases hl : fe.lists with
    | nil => exact lists_ne fe hl
    | cons x xs =>
      have hx : x ∈ fe.lists := by rw [hl]; simp
      exact (faceListAscii_tokL c L fc x).1 (h0 _ ⟨x, hx, rfl⟩)
  · intro t ht
    simp only [faceToksRef, List.mem_flatten, List.mem_map] at ht
    obtain ⟨l, ⟨x, _, rfl⟩, htl⟩ := ht
    exact (faceListAscii_tokL c L fc x).2 t htl

theorem faceLines_plineL (c : Coding α) (L : GoFloatText c) (fe : SpecFaceElem α) (faces : List (SpecFace α)) :
    ∀ l ∈ PlyFacesAscii.faceLines c fe faces, PLine l := by
  intro l hl
  simp only [PlyFacesAscii.faceLines, List.mem_map] at hl
  obtain ⟨fc, _, rfl⟩ := hl
  obtain ⟨hne, ht⟩ := faceToksRef_tokL c L fe fc
  exact (token_line _ hne ht).1

def afterFaceTA (fc : SpecFace α) (b : FaceBufs α) : FaceBufs α :=
  ⟨overwrite b.idx (fc.verts.map (fun v => ((v : Nat) : Int))), overwrite b.tex fc.uv⟩

/-- ONE TEXTURED FACE LINE of the reference encoding under the reader's property loop -/
theorem readFaceAscii_refT (c : Coding α) (L : GoFloatText c) (fe : SpecFaceElem α) (tct tit : SType)
    (htex : fe.tex = some (tct, tit)) (fc : SpecFace α) (hok : FaceEncOK fe fc) (h4 : fc.verts.length ≤ 4)
    (h8u : fc.uv.length ≤ 8) (bufs : FaceBufs α) :
    readFaceAscii c (lpOf fe) (findFaceProps (lpOf fe)) bufs (faceToksRef c fe fc)
      = .ok ((fc.verts.length : Nat), afterFaceTA fc bufs) := by
  rw [findFaceProps_refT fe _ htex]
  obtain ⟨short, ct, it, al, tex, tf, ex, faces⟩ := fe
  simp only at htex
  subst htex
  obtain ⟨hv, _, _, hx⟩ := hok
  have hxn : fc.extra.length < 2 ^ 31 := by omega
  rcases ex with _ | _ | _ <;> cases tf
  · -- extra none, texFirst False
    have h0 := goA_idx c ⟨some 0, some 1⟩ 0 rfl (by simp) (if short then nm "vertex_index" else nm "vertex_indices", ct, it) fc.verts hv h4 [((nm "texcoord", tct, tit), 1)] (-1) bufs
      (showNat fc.uv.length :: (fc.uv.map c.showF ++ []))
    have h1 := goA_tex c L ⟨some 0, some 1⟩ 1 (by simp) rfl (nm "texcoord", tct, tit) fc.uv h8u [] (fc.verts.length : Nat) (afterRefA fc.verts bufs)
      []
    have hall := (h0).trans h1
    simpa [readFaceAscii, faceToksRef, lpOf, SpecFaceElem.lists, idxPosT, texPosT, List.zipIdx, faceListAscii,
      readFaceAscii.go, afterRefA, afterFaceTA] using hall
  · -- extra none, texFirst True
    have h0 := goA_tex c L ⟨some 1, some 0⟩ 0 (by simp) rfl (nm "texcoord", tct, tit) fc.uv h8u [((if short then nm "vertex_index" else nm "vertex_indices", ct, it), 1)] (-1) bufs
      (showNat fc.verts.length :: (fc.verts.map showNat ++ []))
    have h1 := goA_idx c ⟨some 1, some 0⟩ 1 rfl (by simp) (if short then nm "vertex_index" else nm "vertex_indices", ct, it) fc.verts hv h4 [] (-1) { bufs with tex := overwrite bufs.tex fc.uv }
      []
    have hall := (h0).trans h1
    simpa [readFaceAscii, faceToksRef, lpOf, SpecFaceElem.lists, idxPosT, texPosT, List.zipIdx, faceListAscii,
      readFaceAscii.go, afterRefA, afterFaceTA] using hall
  · -- extra last, texFirst False
    have h0 := goA_idx c ⟨some 0, some 1⟩ 0 rfl (by simp) (if short then nm "vertex_index" else nm "vertex_indices", ct, it) fc.verts hv h4 [((nm "texcoord", tct, tit), 1), ((nm "flags", SType.uchar, SType.int), 2)] (-1) bufs
      (showNat fc.uv.length :: (fc.uv.map c.showF ++ (showNat fc.extra.length :: (fc.extra.map showInt ++ []))))
    have h1 := goA_tex c L ⟨some 0, some 1⟩ 1 (by simp) rfl (nm "texcoord", tct, tit) fc.uv h8u [((nm "flags", SType.uchar, SType.int), 2)] (fc.verts.length : Nat) (afterRefA fc.verts bufs)
      (showNat fc.extra.length :: (fc.extra.map showInt ++ []))
    have h2 := goA_skip c ⟨some 0, some 1⟩ 2 (by simp) (by simp) (nm "flags", SType.uchar, SType.int) fc.extra hxn [] (fc.verts.length : Nat) { (afterRefA fc.verts bufs) with tex := overwrite (afterRefA fc.verts bufs).tex fc.uv }
      []
    have hall := ((h0).trans h1).trans h2
    simpa [readFaceAscii, faceToksRef, lpOf, SpecFaceElem.lists, idxPosT, texPosT, List.zipIdx, faceListAscii,
      readFaceAscii.go, afterRefA, afterFaceTA] using hall
  · -- extra last, texFirst True
    have h0 := goA_tex c L ⟨some 1, some 0⟩ 0 (by simp) rfl (nm "texcoord", tct, tit) fc.uv h8u [((if short then nm "vertex_index" else nm "vertex_indices", ct, it), 1), ((nm "flags", SType.uchar, SType.int), 2)] (-1) bufs
      (showNat fc.verts.length :: (fc.verts.map showNat ++ (showNat fc.extra.length :: (fc.extra.map showInt ++ []))))
    have h1 := goA_idx c ⟨some 1, some 0⟩ 1 rfl (by simp) (if short then nm "vertex_index" else nm "vertex_indices", ct, it) fc.verts hv h4 [((nm "flags", SType.uchar, SType.int), 2)] (-1) { bufs with tex := overwrite bufs.tex fc.uv }
      (showNat fc.extra.length :: (fc.extra.map showInt ++ []))
    have h2 := goA_skip c ⟨some 1, some 0⟩ 2 (by simp) (by simp) (nm "flags", SType.uchar, SType.int) fc.extra hxn [] (fc.verts.length : Nat) (afterRefA fc.verts { bufs with tex := overwrite bufs.tex fc.uv })
      []
    have hall := ((h0).trans h1).trans h2
    simpa [readFaceAscii, faceToksRef, lpOf, SpecFaceElem.lists, idxPosT, texPosT, List.zipIdx, faceListAscii,
      readFaceAscii.go, afterRefA, afterFaceTA] using hall
  · -- extra first, texFirst False
    have h0 := goA_skip c ⟨some 1, some 2⟩ 0 (by simp) (by simp) (nm "flags", SType.uchar, SType.int) fc.extra hxn [((if short then nm "vertex_index" else nm "vertex_indices", ct, it), 1), ((nm "texcoord", tct, tit), 2)] (-1) bufs
      (showNat fc.verts.length :: (fc.verts.map showNat ++ (showNat fc.uv.length :: (fc.uv.map c.showF ++ []))))
    have h1 := goA_idx c ⟨some 1, some 2⟩ 1 rfl (by simp) (if short then nm "vertex_index" else nm "vertex_indices", ct, it) fc.verts hv h4 [((nm "texcoord", tct, tit), 2)] (-1) bufs
      (showNat fc.uv.length :: (fc.uv.map c.showF ++ []))
    have h2 := goA_tex c L ⟨some 1, some 2⟩ 2 (by simp) rfl (nm "texcoord", tct, tit) fc.uv h8u [] (fc.verts.length : Nat) (afterRefA fc.verts bufs)
      []
    have hall := ((h0).trans h1).trans h2
    simpa [readFaceAscii, faceToksRef, lpOf, SpecFaceElem.lists, idxPosT, texPosT, List.zipIdx, faceListAscii,
      readFaceAscii.go, afterRefA, afterFaceTA] using hall
  · -- extra first, texFirst True
    have h0 := goA_skip c ⟨some 2, some 1⟩ 0 (by simp) (by simp) (nm "flags", SType.uchar, SType.int) fc.extra hxn [((nm "texcoord", tct, tit), 1), ((if short then nm "vertex_index" else nm "vertex_indices", ct, it), 2)] (-1) bufs
      (showNat fc.uv.length :: (fc.uv.map c.showF ++ (showNat fc.verts.length :: (fc.verts.map showNat ++ []))))
    have h1 := goA_tex c L ⟨some 2, some 1⟩ 1 (by simp) rfl (nm "texcoord", tct, tit) fc.uv h8u [((if short then nm "vertex_index" else nm "vertex_indices", ct, it), 2)] (-1) bufs
      (showNat fc.verts.length :: (fc.verts.map showNat ++ []))
    have h2 := goA_idx c ⟨some 2, some 1⟩ 2 rfl (by simp) (if short then nm "vertex_index" else nm "vertex_indices", ct, it) fc.verts hv h4 [] (-1) { bufs with tex := overwrite bufs.tex fc.uv }
      []
    have hall := ((h0).trans h1).trans h2
    simpa [readFaceAscii, faceToksRef, lpOf, SpecFaceElem.lists, idxPosT, texPosT, List.zipIdx, faceListAscii,
      readFaceAscii.go, afterRefA, afterFaceTA] using hall

theorem afterFaceTA_ok (fc : SpecFace α) (b : FaceBufs α) (hb : BufsOk b) (h4 : fc.verts.length ≤ 4) (h8 : fc.uv.length ≤ 8) :
    BufsOk (afterFaceTA fc b) := by
  obtain ⟨h1, h2⟩ := hb
  exact ⟨by simp only [afterFaceTA]; rw [overwrite_length _ _ (by simpa [h1] using h4)]; exact h1,
    by simp only [afterFaceTA]; rw [overwrite_length _ _ (by simpa [h2] using h8)]; exact h2⟩

theorem emitFace_refTA (fc : SpecFace α) (hv : TriOrQuad fc) (huv : fc.uv.length = 2 * fc.verts.length)
    (b : FaceBufs α) (hb : BufsOk b) :
    emitFace (fc.verts.length : Nat) true (afterFaceTA fc b) = .ok (fan fc.verts, fanUV fc.uv) := by
  obtain ⟨idx, tex⟩ := b
  obtain ⟨hi, ht⟩ := hb
  obtain ⟨verts, uv, extra⟩ := fc
  simp only [TriOrQuad] at hi ht hv huv
  match idx, hi, tex, ht with
  | [a0, a1, a2, a3], _, [t0, t1, t2, t3, t4, t5, t6, t7], _ =>
    rcases hv with h | h
    · match verts, h, uv, huv with
      | [x, y, z], _, [u0, u1, u2, u3, u4, u5], _ => simp [emitFace, afterFaceTA, overwrite, fan, fanUV]
    · match verts, h, uv, huv with
      | [x, y, z, w], _, [u0, u1, u2, u3, u4, u5, u6, u7], _ => simp [emitFace, afterFaceTA, overwrite, fan, fanUV]

/-- per-corner texture coordinates the file denotes (exactly `meaning`'s) -/
def texUVA (faces : List (SpecFace α)) : List (List α) := (faces.map (fun fc => fanUV fc.uv)).flatten

theorem texUVA_length (fe : SpecFaceElem α) : ∀ (faces : List (SpecFace α)), (∀ fc ∈ faces, FaceTexOK fe fc ∧ TriOrQuad fc) →
    (texUVA faces).length = (fanIdx faces).length := by
  intro faces
  induction faces with
  | nil => intro _; rfl
  | cons fc faces ih =>
    intro h
    have h1 := fan_fanUV_length fc (h fc (by simp)).2 (h fc (by simp)).1.uvLen id
    have h2 := ih (fun g hg => h g (by simp [hg]))
    simp only [List.map_id_fun, id_eq] at h1
    simp only [texUVA, fanIdx, List.map_cons, List.flatten_cons, List.length_append] at h2 ⊢
    omega

/-- THE ASCII FACE LOOP over textured triangle / quad lines -/
theorem readFacesAscii_refT (c : Coding α) (L : GoFloatText c) (fe : SpecFaceElem α) (tct tit : SType)
    (htex : fe.tex = some (tct, tit)) :
    ∀ (faces : List (SpecFace α)), (∀ fc ∈ faces, FaceTexOK fe fc ∧ TriOrQuad fc) → ∀ (b : FaceBufs α), BufsOk b →
      readFacesAscii c (lpOf fe) (findFaceProps (lpOf fe)) faces.length b (PlyFacesAscii.faceLines c fe faces)
        = .ok (fanIdx faces, texUVA faces) := by
  intro faces
  induction faces with
  | nil => intro _ b _; simp [readFacesAscii, PlyFacesAscii.faceLines, fanIdx, texUVA]
  | cons fc faces ih =>
    intro hall b hb
    obtain ⟨hok, htq⟩ := hall fc (by simp)
    have h4 : fc.verts.length ≤ 4 := by rcases htq with h | h <;> omega
    have h8 : fc.uv.length ≤ 8 := by have := hok.uvLen; omega
    obtain ⟨hne, htk⟩ := faceToksRef_tokL c L fe fc
    have hfl := (token_line _ hne htk).2
    have h1 := readFaceAscii_refT c L fe tct tit htex fc hok.toFaceEncOK h4 h8 b
    have h2 := emitFace_refTA fc htq hok.uvLen b hb
    have h3 := ih (fun g hg => hall g (by simp [hg])) (afterFaceTA fc b) (afterFaceTA_ok fc b hb h4 h8)
    have hT : (findFaceProps (lpOf fe)).texProp.isSome = true := by rw [findFaceProps_refT fe _ htex]; rfl
    simp only [PlyFacesAscii.faceLines, List.map_cons, List.length_cons, readFacesAscii, hfl, h1, bind, Except.bind, hT, h2] at h3 ⊢
    rw [h3]
    simp [fanIdx, texUVA, pure, Except.pure]

end PlyFacesTexAscii
end PolyVerif
