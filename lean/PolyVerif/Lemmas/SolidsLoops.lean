/-
  C18: the index lists and vertex counts of `Model/Solids.lean` EQUAL the interpretation (`Model/LoopIR.lean`) of the
  loop programs that engine F extracts from /repo `modeling/primitives/{sphere,hemisphere,circle,cylinder}.go` on every
  run (`Gen/PrimLoops.lean`), for ALL parameter values.  A changed loop bound or index expression in the Go source
  changes the generated program and breaks the corresponding `*_run` theorem at `lake build`.

  Method: unfold the interpreter on the concrete program (variable lookups evaluate, `upd_app`), turn every
  `for` into a `flatMap` over `List.range` (`foldl_push`), compare with the model's `flatMap`s termwise (`omega`).
-/
import PolyVerif.Gen.PrimLoops
import PolyVerif.Lemmas.Solids
namespace PolyVerif.Solids
open PolyVerif.LoopIR

theorem foldl_push (s n : Nat) (g : Nat → List Nat) (st0 : St) :
    (List.range n).foldl (fun st i => upd st s (st s ++ g i)) st0 = upd st0 s (st0 s ++ (List.range n).flatMap g) := by
  induction n with
  | zero => funext j; simp only [List.range_zero, List.foldl_nil, List.flatMap_nil, List.append_nil, upd]; split <;> simp_all
  | succ n ih =>
    rw [List.range_succ, List.foldl_append, ih]
    simp [List.flatMap_append, List.append_assoc]

theorem length_flatMap_const {β : Type} (l : List Nat) (g : Nat → List β) (k : Nat) (h : ∀ i, (g i).length = k) :
    (l.flatMap g).length = l.length * k := by
  induction l with
  | nil => simp
  | cons a l ih => simp [List.flatMap_cons, ih, h, Nat.succ_mul]; omega

theorem foldl_const_fn {σ : Type} (l : List Nat) (st : σ) : l.foldl (fun st _ => st) st = st := by
  induction l with
  | nil => rfl
  | cons a l ih => simp [ih]

theorem upd_app {β : Type} (f : Nat → β) (k : Nat) (v : β) (j : Nat) : upd f k v j = if j = k then v else f j := rfl

theorem uvSphere_run (rows cols : Nat) :
    Gen.PrimLoops.uvSphere.indices [rows, cols] = flat (uvSphereTris rows cols) ∧
    Gen.PrimLoops.uvSphere.nverts [rows, cols] = uvSphereNV rows cols := by
  simp only [Prog.indices, Prog.nverts, Prog.run, Gen.PrimLoops.uvSphere, exec, evalE, Prog.env, List.map_cons, List.map_nil,
    upd_app, upd_upd, List.getD_cons_zero, List.getD_cons_succ, if_false, Nat.reduceEqDiff, ↓reduceIte, OfNat.ofNat_ne_zero, OfNat.zero_ne_ofNat, OfNat.ofNat_ne_one, OfNat.one_ne_ofNat, one_ne_zero, zero_ne_one, Nat.add_zero, Nat.sub_zero, Nat.zero_add,
    Bool.false_eq_true]
  simp only [List.append_assoc, foldl_push, upd_app, upd_upd, Nat.reduceEqDiff, ↓reduceIte, List.replicate_zero,
    List.nil_append, List.cons_append, zero_ne_one, one_ne_zero]
  have hl : (List.flatMap (fun _ : Nat => List.flatMap (fun _ : Nat => [0]) (List.range cols)) (List.range (rows - 1))).length
      = (rows - 1) * cols := by
    rw [length_flatMap_const _ _ cols (fun _ => by rw [length_flatMap_const _ _ 1 (fun _ => rfl)]; simp)]; simp
  constructor
  · simp only [List.length_cons, hl, flat, uvSphereTris, uvBottom, List.flatMap_append, List.flatMap_assoc, List.flatMap_cons,
      List.flatMap_nil, List.cons_append, List.nil_append, List.append_nil]
    congr 1
    refine List.flatMap_congr fun i _ => ?_
    simp only [List.cons.injEq, and_true, true_and]
    omega
  · simp only [List.length_cons, List.length_append, hl, List.length_nil, uvSphereNV]


theorem hemisphere_run (rows cols : Nat) :
    Gen.PrimLoops.hemisphere.indices [rows, cols] = flat (hemisphereTris rows cols) ∧
    Gen.PrimLoops.hemisphere.nverts [rows, cols] = uvSphereNV rows cols := by
  simp only [Prog.indices, Prog.nverts, Prog.run, Gen.PrimLoops.hemisphere, exec, evalE, Prog.env, List.map_cons, List.map_nil,
    upd_app, upd_upd, List.getD_cons_zero, List.getD_cons_succ, Nat.reduceEqDiff, ↓reduceIte, OfNat.zero_ne_ofNat,
    OfNat.one_ne_ofNat, Nat.add_zero, Nat.sub_zero, Nat.zero_add, Bool.false_eq_true]
  simp only [List.append_assoc, foldl_push, upd_app, upd_upd, ↓reduceIte, List.replicate_zero,
    List.nil_append, List.cons_append, zero_ne_one, one_ne_zero]
  have hl : (List.flatMap (fun _ : Nat => List.flatMap (fun _ : Nat => [0]) (List.range cols)) (List.range (rows - 1))).length
      = (rows - 1) * cols := by
    rw [length_flatMap_const _ _ cols (fun _ => by rw [length_flatMap_const _ _ 1 (fun _ => rfl)]; simp)]; simp
  constructor
  · simp only [List.length_cons, hl, flat, hemisphereTris, uvBottom, List.flatMap_append, List.flatMap_assoc, List.flatMap_cons,
      List.flatMap_nil, List.cons_append, List.nil_append, List.append_nil]
    congr 1
    refine List.flatMap_congr fun i _ => ?_
    simp only [List.cons.injEq, and_true, true_and]
    omega
  · simp only [List.length_cons, List.length_append, hl, List.length_nil, uvSphereNV]

theorem circle_run (sides : Nat) :
    Gen.PrimLoops.circle.indices [sides] = flat (circleTris sides) ∧
    Gen.PrimLoops.circle.nverts [sides] = circleNV sides := by
  simp only [Prog.indices, Prog.nverts, Prog.run, Gen.PrimLoops.circle, exec, evalE, Prog.env, List.map_cons, List.map_nil,
    upd_app, upd_upd, List.getD_cons_zero, List.getD_cons_succ, Nat.reduceEqDiff, ↓reduceIte, OfNat.zero_ne_ofNat,
    OfNat.one_ne_ofNat, Nat.add_zero, Nat.sub_zero, Nat.zero_add, Bool.false_eq_true]
  simp only [List.append_assoc, foldl_push, foldl_const_fn, upd_app, upd_upd, ↓reduceIte, List.replicate_zero,
    List.nil_append, List.cons_append, zero_ne_one, one_ne_zero, Nat.reduceEqDiff, OfNat.ofNat_ne_zero, OfNat.zero_ne_ofNat,
    OfNat.ofNat_ne_one, OfNat.one_ne_ofNat]
  constructor
  · simp only [flat, circleTris, List.flatMap_append, List.flatMap_map, List.flatMap_cons, List.flatMap_nil, List.append_nil]
    congr 1
    refine List.flatMap_congr fun i _ => ?_
    simp only [List.cons.injEq, and_true, true_and]
    omega
  · simp [circleNV]

theorem cylinderSide_run (sides : Nat) :
    Gen.PrimLoops.cylinder.indices [sides] = flat (cylinderSideTris sides) ∧
    Gen.PrimLoops.cylinder.nverts [sides] = cylinderSideNV sides := by
  simp only [Prog.indices, Prog.nverts, Prog.run, Gen.PrimLoops.cylinder, exec, evalE, Prog.env, List.map_cons, List.map_nil,
    upd_app, upd_upd, List.getD_cons_zero, List.getD_cons_succ, Nat.reduceEqDiff, ↓reduceIte, OfNat.zero_ne_ofNat,
    OfNat.one_ne_ofNat, Nat.add_zero, Nat.sub_zero, Nat.zero_add, Bool.false_eq_true]
  simp only [List.append_assoc, foldl_push, foldl_const_fn, upd_app, upd_upd, ↓reduceIte, List.replicate_zero,
    List.nil_append, List.cons_append, zero_ne_one, one_ne_zero, Nat.reduceEqDiff, OfNat.ofNat_ne_zero, OfNat.zero_ne_ofNat,
    OfNat.ofNat_ne_one, OfNat.one_ne_ofNat]
  constructor
  · simp only [flat, cylinderSideTris, List.flatMap_assoc, List.flatMap_cons, List.flatMap_nil, List.append_nil,
      List.cons_append, List.nil_append, Nat.add_sub_cancel]
    refine List.flatMap_congr fun i _ => ?_
    simp only [List.cons.injEq, and_true, true_and]
    omega
  · simp [cylinderSideNV]


/-! ### guards and the cylinder's `Append` structure -/

theorem uvSphere_admits (rows cols : Nat) : Gen.PrimLoops.uvSphere.admits [rows, cols] = uvAdmissible rows cols := by
  simp only [Prog.admits, Gen.PrimLoops.uvSphere, List.all_cons, List.all_nil, evalE, Prog.env, List.getD_cons_zero,
    List.getD_cons_succ, uvAdmissible, Bool.and_true]
  by_cases h1 : cols < 3 <;> by_cases h2 : rows < 2 <;> simp [h1, h2] <;> omega

theorem hemisphere_admits (rows cols : Nat) : Gen.PrimLoops.hemisphere.admits [rows, cols] = uvAdmissible rows cols := by
  simp only [Prog.admits, Gen.PrimLoops.hemisphere, List.all_cons, List.all_nil, evalE, Prog.env, List.getD_cons_zero,
    List.getD_cons_succ, uvAdmissible, Bool.and_true]
  by_cases h1 : cols < 3 <;> by_cases h2 : rows < 2 <;> simp [h1, h2] <;> omega

theorem circle_admits (sides : Nat) : Gen.PrimLoops.circle.admits [sides] = decide (3 ≤ sides) := by
  simp only [Prog.admits, Gen.PrimLoops.circle, List.all_cons, List.all_nil, evalE, Prog.env, List.getD_cons_zero,
    Bool.and_true]
  by_cases h1 : sides < 3 <;> simp [h1] <;> omega

/-! ### the unwelded sphere: loop-carried `len(finalVerts)` -/

theorem upd_swap {β : Type} (f : Nat → β) {k j : Nat} (h : k ≠ j) (a b c : β) :
    upd (upd (upd f k a) j b) k c = upd (upd f k c) j b := by
  funext x; simp only [upd]; split <;> split <;> simp_all

/-- a loop that appends `A i` (of constant length `k`) to slice `s` and then `B (len s before) i` to slice `t` -/
theorem foldl_push2 (s t : Nat) (hst : s ≠ t) (k : Nat) (A : Nat → List Nat) (hA : ∀ i, (A i).length = k)
    (B : Nat → Nat → List Nat) (n : Nat) (st0 : St) :
    (List.range n).foldl (fun st i => upd (upd st s (st s ++ A i)) t (st t ++ B (st s).length i)) st0 =
      upd (upd st0 s (st0 s ++ (List.range n).flatMap A)) t
        (st0 t ++ (List.range n).flatMap (fun i => B ((st0 s).length + k * i) i)) := by
  induction n with
  | zero =>
    funext x; simp only [List.range_zero, List.foldl_nil, List.flatMap_nil, List.append_nil, upd]
    split <;> [simp_all; (split <;> simp_all)]
  | succ n ih =>
    rw [List.range_succ, List.foldl_append, ih]
    have hts : t ≠ s := fun h => hst h.symm
    have hl : ((List.range n).flatMap A).length = k * n := by
      rw [length_flatMap_const _ _ k hA, List.length_range, Nat.mul_comm]
    simp only [List.foldl_cons, List.foldl_nil, upd_same, upd_ne _ _ hst, upd_ne _ _ hts, List.flatMap_append,
      List.flatMap_cons, List.flatMap_nil, List.append_nil, List.append_assoc, List.length_append, hl]
    funext x; simp only [upd]
    split <;> [rfl; (split <;> rfl)]
theorem unwelded_run (rows cols : Nat) :
    Gen.PrimLoops.uvSphereUnwelded.indices [rows, cols] = flat (uvSphereUnweldedTris rows cols) ∧
    Gen.PrimLoops.uvSphereUnwelded.nverts [rows, cols] = uvUnweldedNV rows cols := by
  simp only [Prog.indices, Prog.nverts, Prog.run, Gen.PrimLoops.uvSphereUnwelded, exec, evalE, Prog.env, List.map_cons,
    List.map_nil, upd_app, upd_upd, List.getD_cons_zero, List.getD_cons_succ, Nat.reduceEqDiff, ↓reduceIte,
    OfNat.zero_ne_ofNat, OfNat.one_ne_ofNat, OfNat.ofNat_ne_zero, OfNat.ofNat_ne_one, Nat.add_zero, Nat.sub_zero,
    Nat.zero_add, Bool.false_eq_true, List.length_append, List.length_cons, List.length_nil]
  simp only [upd_swap _ (show (1 : Nat) ≠ 2 by decide), upd_upd, Nat.reduceAdd, List.append_assoc, List.cons_append,
    List.nil_append, Nat.add_assoc, Nat.add_sub_cancel]
  generalize hv1 : (List.foldl (fun st i => List.foldl (fun st i => upd st 0 (st 0 ++ [0])) st (List.range cols))
      (upd (fun x => []) 0 (List.replicate 0 0 ++ [0])) (List.range (rows - 1)) 0).length = v1i
  generalize (List.foldl (fun st i => List.foldl (fun st i => upd st 0 (st 0 ++ [0])) st (List.range cols))
      (upd (fun x => []) 0 (List.replicate 0 0 ++ [0])) (List.range (rows - 1))) = P
  have inner := fun (i : Nat) (st : St) => foldl_push2 1 2 (by decide) 4
    (fun i_1 => [i * cols + (1 + i_1), i * cols + (1 + (i_1 + 1) % cols), (i + 1) * cols + (1 + (i_1 + 1) % cols),
      (i + 1) * cols + (1 + i_1)]) (fun _ => rfl)
    (fun L _ => [L, L + 4 - 3, L + 4 - 2, L, L + 4 - 2, L + 4 - 1]) cols st
  have fan := fun (st : St) => foldl_push2 1 2 (by decide) 6
    (fun i => [0, (i + 1) % cols + 1, i + 1, v1i, i + (cols * (rows - 2) + 1), (i + 1) % cols + (cols * (rows - 2) + 1)])
    (fun _ => rfl)
    (fun L _ => [L, L + 3 - 2, L + 3 - 1, L + 6 - 3, L + 6 - 2, L + 6 - 1]) cols st
  simp only [inner, fan]
  have outer := fun (st : St) => foldl_push2 1 2 (by decide) (4 * cols)
    (fun i => List.flatMap (fun i_1 => [i * cols + (1 + i_1), i * cols + (1 + (i_1 + 1) % cols),
      (i + 1) * cols + (1 + (i_1 + 1) % cols), (i + 1) * cols + (1 + i_1)]) (List.range cols))
    (fun i => by rw [length_flatMap_const _ _ 4 (fun _ => rfl), List.length_range, Nat.mul_comm])
    (fun L _ => List.flatMap (fun i => [L + 4 * i, L + 4 * i + 4 - 3, L + 4 * i + 4 - 2, L + 4 * i, L + 4 * i + 4 - 2,
      L + 4 * i + 4 - 1]) (List.range cols)) (rows - 2) st
  simp only [outer, upd_app, upd_upd, ↓reduceIte, Nat.reduceEqDiff, OfNat.ofNat_ne_one, OfNat.one_ne_ofNat,
    List.replicate_zero, List.nil_append, List.length_nil, Nat.zero_add, List.length_append]
  have hfl : (List.flatMap (fun i => [0, (i + 1) % cols + 1, i + 1, v1i, i + (cols * (rows - 2) + 1),
      (i + 1) % cols + (cols * (rows - 2) + 1)]) (List.range cols)).length = 6 * cols := by
    rw [length_flatMap_const _ _ 6 (fun _ => rfl), List.length_range, Nat.mul_comm]
  have hql : (List.flatMap (fun i => List.flatMap (fun i_1 => [i * cols + (1 + i_1), i * cols + (1 + (i_1 + 1) % cols),
      (i + 1) * cols + (1 + (i_1 + 1) % cols), (i + 1) * cols + (1 + i_1)]) (List.range cols))
      (List.range (rows - 2))).length = 4 * ((rows - 2) * cols) := by
    rw [length_flatMap_const _ _ (4 * cols) (fun _ => by
      rw [length_flatMap_const _ _ 4 (fun _ => rfl), List.length_range, Nat.mul_comm]), List.length_range]
    ring
  constructor
  · simp only [hfl, flat, uvSphereUnweldedTris, List.flatMap_append, List.flatMap_assoc, List.flatMap_cons,
      List.flatMap_nil, List.cons_append, List.nil_append, List.append_nil]
    congr 1
    refine List.flatMap_congr fun j _ => List.flatMap_congr fun i _ => ?_
    have e : 4 * cols * j = 4 * (j * cols) := by ring
    simp only [List.cons.injEq, and_true, true_and, e]
    omega
  · simp only [hfl, hql, uvUnweldedNV]

/-- blocks of `k` consecutive values -/
theorem flatMap_range_block {β : Type} (k n : Nat) (f : Nat → β) :
    (List.range n).flatMap (fun i => (List.range k).map (fun t => f (k * i + t))) = (List.range (k * n)).map f := by
  induction n with
  | zero => simp
  | succ n ih =>
    rw [List.range_succ, List.flatMap_append, ih, Nat.mul_succ, List.range_add, List.map_append, List.map_map]
    simp [Function.comp]

/-- a double loop `j < m`, `i < c` is a single loop over `q = j*c + i < m*c` -/
theorem flatMap_range_prod {β : Type} (m c : Nat) (g : Nat → List β) :
    (List.range m).flatMap (fun j => (List.range c).flatMap (fun i => g (j * c + i))) =
      (List.range (m * c)).flatMap g := by
  induction m with
  | zero => simp
  | succ m ih =>
    rw [List.range_succ, List.flatMap_append, ih, Nat.succ_mul, List.range_add, List.flatMap_append, List.flatMap_map]
    simp

theorem unwelded_verts_run (rows cols : Nat) :
    Gen.PrimLoops.uvSphereUnwelded.run [rows, cols] 1 =
      (List.range (uvUnweldedNV rows cols)).map (uvUnweldedSrc rows cols) := by
  have hv : (List.foldl (fun st i => List.foldl (fun st i => upd st 0 (st 0 ++ [0])) st (List.range cols))
      (upd (fun x => []) 0 (List.replicate 0 0 ++ [0])) (List.range (rows - 1)) 0).length = uvBottom rows cols := by
    simp only [foldl_push, upd_app, ↓reduceIte, List.replicate_zero, List.nil_append, List.length_append,
      List.length_cons, List.length_nil]
    rw [length_flatMap_const _ _ cols (fun _ => by rw [length_flatMap_const _ _ 1 (fun _ => rfl)]; simp)]
    simp [uvBottom]
  simp only [Prog.run, Gen.PrimLoops.uvSphereUnwelded, exec, evalE, Prog.env, List.map_cons,
    List.map_nil, upd_app, upd_upd, List.getD_cons_zero, List.getD_cons_succ, Nat.reduceEqDiff, ↓reduceIte,
    OfNat.zero_ne_ofNat, OfNat.one_ne_ofNat, OfNat.ofNat_ne_zero, OfNat.ofNat_ne_one, Nat.add_zero, Nat.sub_zero,
    Nat.zero_add, Bool.false_eq_true, List.length_append, List.length_cons, List.length_nil]
  simp only [upd_swap _ (show (1 : Nat) ≠ 2 by decide), upd_upd, Nat.reduceAdd, List.append_assoc, List.cons_append,
    List.nil_append, Nat.add_assoc, Nat.add_sub_cancel]
  generalize hv1 : (List.foldl (fun st i => List.foldl (fun st i => upd st 0 (st 0 ++ [0])) st (List.range cols))
      (upd (fun x => []) 0 (List.replicate 0 0 ++ [0])) (List.range (rows - 1)) 0).length = v1i
  generalize (List.foldl (fun st i => List.foldl (fun st i => upd st 0 (st 0 ++ [0])) st (List.range cols))
      (upd (fun x => []) 0 (List.replicate 0 0 ++ [0])) (List.range (rows - 1))) = P
  have inner := fun (i : Nat) (st : St) => foldl_push2 1 2 (by decide) 4
    (fun i_1 => [i * cols + (1 + i_1), i * cols + (1 + (i_1 + 1) % cols), (i + 1) * cols + (1 + (i_1 + 1) % cols),
      (i + 1) * cols + (1 + i_1)]) (fun _ => rfl)
    (fun L _ => [L, L + 4 - 3, L + 4 - 2, L, L + 4 - 2, L + 4 - 1]) cols st
  have fan := fun (st : St) => foldl_push2 1 2 (by decide) 6
    (fun i => [0, (i + 1) % cols + 1, i + 1, v1i, i + (cols * (rows - 2) + 1), (i + 1) % cols + (cols * (rows - 2) + 1)])
    (fun _ => rfl)
    (fun L _ => [L, L + 3 - 2, L + 3 - 1, L + 6 - 3, L + 6 - 2, L + 6 - 1]) cols st
  simp only [inner, fan]
  have outer := fun (st : St) => foldl_push2 1 2 (by decide) (4 * cols)
    (fun i => List.flatMap (fun i_1 => [i * cols + (1 + i_1), i * cols + (1 + (i_1 + 1) % cols),
      (i + 1) * cols + (1 + (i_1 + 1) % cols), (i + 1) * cols + (1 + i_1)]) (List.range cols))
    (fun i => by rw [length_flatMap_const _ _ 4 (fun _ => rfl), List.length_range, Nat.mul_comm])
    (fun L _ => List.flatMap (fun i => [L + 4 * i, L + 4 * i + 4 - 3, L + 4 * i + 4 - 2, L + 4 * i, L + 4 * i + 4 - 2,
      L + 4 * i + 4 - 1]) (List.range cols)) (rows - 2) st
  simp only [outer, upd_app, upd_upd, ↓reduceIte, Nat.reduceEqDiff, OfNat.ofNat_ne_one, OfNat.one_ne_ofNat,
    List.replicate_zero, List.nil_append, List.length_nil, Nat.zero_add, List.length_append]
  subst hv1
  rw [hv]
  -- right-hand side: split the range into the fan blocks of 6 and the quad blocks of 4
  rw [uvUnweldedNV, List.range_add, List.map_append, List.map_map, ← flatMap_range_block 6 cols,
    ← flatMap_range_block 4 ((rows - 2) * cols), ← flatMap_range_prod (rows - 2) cols]
  congr 1
  · refine List.flatMap_congr fun i hi => ?_
    have hi := List.mem_range.1 hi
    have e0 := @src_fan rows cols i 0 hi (by omega)
    have e1 := @src_fan rows cols i 1 hi (by omega)
    have e2 := @src_fan rows cols i 2 hi (by omega)
    have e3 := @src_fan rows cols i 3 hi (by omega)
    have e4 := @src_fan rows cols i 4 hi (by omega)
    have e5 := @src_fan rows cols i 5 hi (by omega)
    simp only [Nat.add_zero] at e0
    simp only [List.range_succ, List.range_zero, List.nil_append, List.cons_append, List.map_cons, List.map_nil,
      Nat.add_zero, e0, e1, e2, e3, e4, e5, Nat.add_assoc]
  · refine List.flatMap_congr fun j _ => List.flatMap_congr fun i hi => ?_
    have hi := List.mem_range.1 hi
    have e0 := @src_quad rows cols j i 0 hi (by omega)
    have e1 := @src_quad rows cols j i 1 hi (by omega)
    have e2 := @src_quad rows cols j i 2 hi (by omega)
    have e3 := @src_quad rows cols j i 3 hi (by omega)
    simp only [Nat.add_zero] at e0
    simp only [List.range_succ, List.range_zero, List.nil_append, List.cons_append, List.map_cons, List.map_nil,
      Function.comp, Nat.add_zero, ← Nat.add_assoc, e0, e1, e2, e3]

end PolyVerif.Solids
