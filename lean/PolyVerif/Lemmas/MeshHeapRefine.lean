/-
  C01, second part: what the operations of Model/MeshHeap.lean RETURN, as pure functions of the observable values of
  their arguments (`op_refines`), under the bounds invariant `BoundedS` (every slice lies inside its array, so it reads
  exactly `len` cells).  Core Lean only.
-/
import PolyVerif.Lemmas.MeshHeap
import PolyVerif.Model.MeshPure

namespace PolyVerif
namespace MeshHeap

variable {κ α : Type}

/-! ### a plain list fact: overwriting inside a window -/

/-- overwriting `vs` at position `off+p` of an array, seen through the window `[off, off+len)` -/
theorem list_splice (c vs : List α) (off p len : Nat) (h1 : off + len ≤ c.length) (h2 : p + vs.length ≤ len) :
    (((c.take (off + p) ++ vs ++ c.drop (off + p + vs.length)).take c.length).drop off).take len
      = ((c.drop off).take len).take p ++ vs ++ ((c.drop off).take len).drop (p + vs.length) := by
  have hX : (c.take (off + p) ++ vs ++ c.drop (off + p + vs.length)).length = c.length := by
    simp only [List.length_append, List.length_take, List.length_drop]; omega
  rw [← hX, List.take_length]
  have hlt : (c.take (off + p)).length = off + p := by rw [List.length_take]; omega
  rw [List.append_assoc, List.drop_append_of_le_length (by omega), List.drop_take]
  have e1 : off + p - off = p := by omega
  have e2 : c.drop (off + p + vs.length) = (c.drop off).drop (p + vs.length) := by
    rw [List.drop_drop]; congr 1; omega
  rw [e1, e2]
  have hD : len ≤ (c.drop off).length := by rw [List.length_drop]; omega
  generalize c.drop off = D at *
  rw [← List.append_assoc, List.take_append]
  have hl : (D.take p ++ vs).length = p + vs.length := by
    rw [List.length_append, List.length_take]; omega
  rw [List.take_of_length_le (by omega), hl, List.take_take, List.drop_take]
  have : min p len = p := by omega
  rw [this]

theorem write_keeps_length (c vs : List α) (i : Nat) :
    ((c.take i ++ vs ++ c.drop (i + vs.length)).take c.length).length = c.length := by
  simp only [List.length_take, List.length_append, List.length_drop]; omega

/-! ### bounded slices -/

/-- the slice lies inside its backing array (or has no capacity at all) -/
def BoundedS (h : Heap κ α) (s : Slice) : Prop :=
  s.len ≤ s.cap ∧ (s.cap = 0 ∨ ∃ a, h.arrays[s.arr]? = some a ∧ s.off + s.cap ≤ a.length)

theorem BoundedS.valid {h : Heap κ α} {s : Slice} (b : BoundedS h s) : s.Valid h := by
  refine ⟨b.1, b.2.imp id ?_⟩
  rintro ⟨a, ha, _⟩
  exact (List.getElem?_eq_some_iff.mp ha).1

theorem BoundedS.read_length {h : Heap κ α} {s : Slice} (b : BoundedS h s) : (h.read s).length = s.len := by
  obtain ⟨hl, hc | ⟨a, ha, hb⟩⟩ := b
  · have : s.len = 0 := by omega
    simp [Heap.read, this]
  · simp only [Heap.read, Heap.array, ha, Option.getD_some, List.length_take, List.length_drop]; omega

theorem BoundedS.lt {h : Heap κ α} {s : Slice} (b : BoundedS h s) : s.arr < h.arrays.length ∨ s.len = 0 := by
  have v := b.valid
  rcases v.2 with h0 | h1
  · right; have := v.1; omega
  · left; exact h1

theorem nil_bounded (h : Heap κ α) : BoundedS h Slice.nil := ⟨Nat.le_refl _, Or.inl rfl⟩

/-- bounded slices stay bounded through any frame that keeps their array -/
theorem BoundedS.frame {base : Nat} {h h' : Heap κ α} (f : Frame base h h') {s : Slice} (b : BoundedS h s)
    (hs : s.arr < base ∨ s.cap = 0) : BoundedS h' s := by
  refine ⟨b.1, ?_⟩
  rcases b.2 with h0 | ⟨a, ha, hb⟩
  · exact Or.inl h0
  · rcases hs with h1 | h1
    · exact Or.inr ⟨a, by rw [f.arr_eq _ h1]; exact ha, hb⟩
    · exact Or.inl h1

theorem BoundedS.frame_size {h h' : Heap κ α} (f : Frame h.arrays.length h h') {s : Slice} (b : BoundedS h s) :
    BoundedS h' s := by
  apply b.frame f
  rcases b.valid.2 with h0 | h1
  · exact Or.inr h0
  · exact Or.inl h1

/-- writes keep every array's length, so every bounded slice stays bounded -/
theorem BoundedS.write {h : Heap κ α} {s : Slice} (b : BoundedS h s) (a i : Nat) (vs : List α) :
    BoundedS (h.write a i vs) s := by
  refine ⟨b.1, ?_⟩
  rcases b.2 with h0 | ⟨c, hc, hb⟩
  · exact Or.inl h0
  · right
    simp only [Heap.write, List.getElem?_modify, hc, Option.map_eq_map, Option.map_some]
    by_cases e : a = s.arr
    · refine ⟨(c.take i ++ vs ++ c.drop (i + vs.length)).take c.length, by simp [e], ?_⟩
      rw [write_keeps_length]; exact hb
    · exact ⟨c, by simp [e], hb⟩

theorem BoundedS.alloc {h : Heap κ α} {s : Slice} (b : BoundedS h s) (c : List α) : BoundedS (h.alloc c).1 s :=
  b.frame_size (frame_alloc (Nat.le_refl _) c)

/-- two slices cannot disturb one another: one of them has no capacity, or they live in different arrays -/
def Disj (s t : Slice) : Prop := s.cap = 0 ∨ t.cap = 0 ∨ s.arr ≠ t.arr

theorem read_write_other {h : Heap κ α} {t : Slice} {a : Nat} (ht : t.len = 0 ∨ t.arr ≠ a) (i : Nat) (vs : List α) :
    (h.write a i vs).read t = h.read t := by
  rcases ht with h0 | h1
  · simp [Heap.read, h0]
  · have : a ≠ t.arr := fun e => h1 e.symm
    simp only [Heap.read, Heap.array, Heap.write, List.getElem?_modify]
    cases h.arrays[t.arr]? <;> simp [this]

/-- reading a bounded slice after a write inside its window -/
theorem read_write_self {h : Heap κ α} {s : Slice} (b : BoundedS h s) (p : Nat) (vs : List α)
    (hp : p + vs.length ≤ s.len) :
    (h.write s.arr (s.off + p) vs).read s = (h.read s).take p ++ vs ++ (h.read s).drop (p + vs.length) := by
  obtain ⟨hl, hc | ⟨c, hc, hb⟩⟩ := b
  · have h0 : s.len = 0 := by omega
    have hv : vs = [] := by cases vs with
      | nil => rfl
      | cons _ _ => simp at hp; omega
    simp [Heap.read, h0, hv]
  · simp only [Heap.read, Heap.array, Heap.write, List.getElem?_modify, hc, Option.map_eq_map, Option.map_some,
      if_true, Option.getD_some]
    exact list_splice c vs s.off p s.len (by omega) hp

theorem alloc_get (h : Heap κ α) (c : List α) : (h.alloc c).1.arrays[h.arrays.length]? = some c := by
  simp [Heap.alloc]

theorem alloc_read (h : Heap κ α) (c : List α) (n cap : Nat) (_hn : n ≤ c.length) :
    (h.alloc c).1.read ⟨h.arrays.length, 0, n, cap⟩ = c.take n := by
  unfold Heap.read Heap.array
  simp only [alloc_get, Option.getD_some, List.drop_zero]

/-- reading anything bounded in `h` is unaffected by an allocation -/
theorem read_alloc {h : Heap κ α} {t : Slice} (b : BoundedS h t) (c : List α) : (h.alloc c).1.read t = h.read t :=
  read_frame_valid (frame_alloc (Nat.le_refl _) c) b.valid

/-- what Go's `append` onto a fresh, bounded slice does: the result reads `old ++ vs`, is again fresh and bounded, and
    no bounded slice living elsewhere notices -/
structure AppendPost (base : Nat) (h : Heap κ α) (s : Slice) (vs : List α) (r : Heap κ α × Slice) : Prop where
  frame : Frame base h r.1
  fresh : Fresh base r.2
  bounded : BoundedS r.1 r.2
  read : r.1.read r.2 = h.read s ++ vs
  others : ∀ t, BoundedS h t → (BoundedS r.1 t ∧ (Disj t s → r.1.read t = h.read t ∧ Disj t r.2))

theorem goAppend_refine (E : Env α) {base : Nat} {h : Heap κ α} (hb : base ≤ h.arrays.length) {s : Slice}
    (fs : Fresh base s) (bs : BoundedS h s) (vs : List α) : AppendPost base h s vs (goAppend E h s vs) := by
  obtain ⟨f, fr, _⟩ := goAppend_spec E hb fs bs.valid vs
  cases vs with
  | nil =>
    exact ⟨Frame.refl hb, fs, bs, by simp [goAppend], fun t bt => ⟨bt, fun d => ⟨rfl, d⟩⟩⟩
  | cons v vs =>
    refine ⟨f, fr, ?_, ?_, ?_⟩
    all_goals simp only [goAppend]
    all_goals split
    all_goals rename_i hfit
    · -- in place
      have hcap : s.cap ≠ 0 := by simp at hfit; omega
      have b2 : BoundedS h { s with len := s.len + (v :: vs).length } :=
        ⟨hfit, bs.2.imp id id⟩
      exact b2.write _ _ _
    · refine ⟨by simp, Or.inr ⟨_, alloc_get _ _, ?_⟩⟩
      simp [bs.read_length]; omega
    · have b2 : BoundedS h { s with len := s.len + (v :: vs).length } := ⟨hfit, bs.2.imp id id⟩
      have := read_write_self b2 s.len (v :: vs) (Nat.le_refl _)
      simp only at this
      rw [this]
      have e1 : (h.read { s with len := s.len + (v :: vs).length }).take s.len = h.read s := by
        simp only [Heap.read, List.take_take]
        congr 1; omega
      have e2 : (h.read { s with len := s.len + (v :: vs).length }).drop (s.len + (v :: vs).length) = [] := by
        apply List.drop_of_length_le
        rw [b2.read_length]
        exact Nat.le_refl _
      rw [e1, e2, List.append_nil]
    · rw [alloc_read _ _ _ _ (by simp [bs.read_length])]
      exact List.take_left' (by simp [bs.read_length])
    · intro t bt
      refine ⟨bt.write _ _ _, fun d => ?_⟩
      have hcap : s.cap ≠ 0 := by simp at hfit; omega
      rcases d with d | d | d
      · have : t.len = 0 := by have := bt.1; omega
        exact ⟨read_write_other (Or.inl this) _ _, Or.inl d⟩
      · exact absurd d hcap
      · exact ⟨read_write_other (Or.inr d) _ _, Or.inr (Or.inr d)⟩
    · intro t bt
      refine ⟨bt.alloc _, fun _ => ⟨read_alloc bt _, ?_⟩⟩
      rcases bt.valid.2 with h0 | h1
      · exact Or.inl h0
      · exact Or.inr (Or.inr (Nat.ne_of_lt h1))

theorem appendZeros_refine (E : Env α) {base : Nat} (n : Nat) : ∀ {h : Heap κ α} (_ : base ≤ h.arrays.length) {s : Slice}
    (_ : Fresh base s) (_ : BoundedS h s), AppendPost base h s (List.replicate n E.zero) (appendZeros E h s n) := by
  induction n with
  | zero =>
    intro h hb s fs bs
    exact ⟨Frame.refl hb, fs, bs, by simp [appendZeros], fun t bt => ⟨bt, fun d => ⟨rfl, d⟩⟩⟩
  | succ n ih =>
    intro h hb s fs bs
    have p1 := goAppend_refine E hb fs bs [E.zero]
    have p2 := ih p1.frame.base_le' p1.fresh p1.bounded
    simp only [appendZeros]
    refine ⟨p1.frame.trans p2.frame, p2.fresh, p2.bounded, ?_, ?_⟩
    · rw [p2.read, p1.read, List.append_assoc]
      congr 1
    · intro t bt
      obtain ⟨b1, o1⟩ := p1.others t bt
      obtain ⟨b2, o2⟩ := p2.others t b1
      refine ⟨b2, fun d => ?_⟩
      obtain ⟨r1, d1⟩ := o1 d
      obtain ⟨r2, d2⟩ := o2 d1
      exact ⟨r2.trans r1, d2⟩

/-! ### association lists: the heap-level ones are the generic ones, and they commute with reading -/
section assoc
variable [DecidableEq κ] {β γ : Type}

theorem hasKey_eq (es : List (κ × Slice)) (k : κ) : hasKey es k = hasKeyV es k := rfl
theorem lookup_eq (es : List (κ × Slice)) (k : κ) : lookup es k = lookupV es k := rfl
theorem insert_eq (es : List (κ × Slice)) (k : κ) (s : Slice) : insert es k s = insertV es k s := rfl
theorem erase_eq (es : List (κ × Slice)) (k : κ) : erase es k = eraseV es k := rfl

/-- apply `g` to the value of an entry -/
def mp (g : β → γ) (e : κ × β) : κ × γ := (e.1, g e.2)

theorem hasKeyV_map (g : β → γ) (es : List (κ × β)) (k : κ) : hasKeyV (es.map (mp g)) k = hasKeyV es k := by
  simp [hasKeyV, List.any_map, mp, Function.comp_def]

theorem lookupV_map (g : β → γ) (es : List (κ × β)) (k : κ) : lookupV (es.map (mp g)) k = (lookupV es k).map g := by
  induction es with
  | nil => simp [lookupV]
  | cons e rest ih =>
    simp only [lookupV, List.map_cons, List.find?_cons, mp] at ih ⊢
    split <;> simp_all

theorem eraseV_map (g : β → γ) (es : List (κ × β)) (k : κ) : (eraseV es k).map (mp g) = eraseV (es.map (mp g)) k := by
  simp [eraseV, List.filter_map, mp, Function.comp_def]

theorem hasKeyV_false {es : List (κ × β)} {k : κ} (h : hasKeyV es k = false) : ∀ e ∈ es, e.1 ≠ k := by
  intro e he hk
  have : hasKeyV es k = true := by
    simp only [hasKeyV, List.any_eq_true]
    exact ⟨e, he, by simp [hk]⟩
  rw [h] at this; cases this

/-- sharper membership in `insertV`: old entries that survive have another key -/
theorem mem_insertV {es : List (κ × β)} {k : κ} {v : β} {e : κ × β} (h : e ∈ insertV es k v) :
    (e ∈ es ∧ e.1 ≠ k) ∨ e = (k, v) := by
  unfold insertV at h
  split at h
  · rw [List.mem_map] at h
    obtain ⟨x, hx, rfl⟩ := h
    by_cases hk : x.1 = k
    · right; simp [hk]
    · left; simp [hk, hx]
  · rename_i hf
    rw [List.mem_append] at h
    rcases h with h | h
    · left; exact ⟨h, hasKeyV_false (by simpa using hf) e h⟩
    · right; simpa using h

/-- mapping two key-preserving functions that agree off key `k` over an insertion at `k` -/
theorem map_insertV_agree (es : List (κ × β)) (k : κ) (v : β) (f g : β → γ)
    (hag : ∀ e ∈ es, e.1 ≠ k → f e.2 = g e.2) :
    (insertV es k v).map (mp f) = insertV (es.map (mp g)) k (f v) := by
  unfold insertV
  rw [hasKeyV_map]
  split
  · rw [List.map_map, List.map_map]
    apply List.map_congr_left
    intro e he
    by_cases hk : e.1 = k
    · simp [mp, hk]
    · simp [mp, hk, hag e he hk]
  · rename_i hf
    have hne := hasKeyV_false (es := es) (k := k) (by simpa using hf)
    rw [List.map_append]
    congr 1
    apply List.map_congr_left
    intro e he
    simp [mp, hag e he (hne e he)]

theorem lookupV_mem {es : List (κ × β)} {k : κ} {c : β} (h : lookupV es k = some c) : ∃ e ∈ es, e.1 = k ∧ e.2 = c := by
  unfold lookupV at h
  cases hf : es.find? (fun e => e.1 == k) with
  | none => simp [hf] at h
  | some e =>
    simp [hf] at h
    have := List.find?_some hf
    exact ⟨e, List.mem_of_find?_eq_some hf, by simpa using this, h⟩

end assoc

/-! ### the map under construction in `appendData` -/
section fin
set_option linter.unusedSectionVars false
variable [DecidableEq κ]

/-- read an entry -/
def rd (h : Heap κ α) (e : κ × Slice) : κ × List α := (e.1, h.read e.2)

theorem rd_eq_mp (h : Heap κ α) : rd h = mp (h.read) := rfl

/-- invariant of `finalData`: every slice fresh and bounded; slices under different keys cannot disturb one another -/
def FinInv (base : Nat) (h : Heap κ α) (fin : List (κ × Slice)) : Prop :=
  (∀ e ∈ fin, Fresh base e.2 ∧ BoundedS h e.2) ∧ (∀ e ∈ fin, ∀ f ∈ fin, e.1 ≠ f.1 → Disj e.2 f.2)

theorem Disj.symm {s t : Slice} (d : Disj s t) : Disj t s := by
  rcases d with d | d | d
  · exact Or.inr (Or.inl d)
  · exact Or.inl d
  · exact Or.inr (Or.inr (fun e => d e.symm))

/-- `finalData[k] = s2` in a heap where the other keys' slices still read the same -/
theorem fin_step {base : Nat} {h h' : Heap κ α} {fin : List (κ × Slice)} {k : κ} {s2 : Slice}
    (inv : FinInv base h fin)
    (pres : ∀ e ∈ fin, e.1 ≠ k → BoundedS h' e.2 ∧ h'.read e.2 = h.read e.2 ∧ Disj e.2 s2)
    (fs : Fresh base s2) (bs : BoundedS h' s2) :
    FinInv base h' (insert fin k s2) ∧ (insert fin k s2).map (rd h') = insertV (fin.map (rd h)) k (h'.read s2) := by
  refine ⟨⟨?_, ?_⟩, ?_⟩
  · intro e he
    rw [insert_eq] at he
    rcases mem_insertV he with ⟨h1, h2⟩ | rfl
    · exact ⟨(inv.1 e h1).1, (pres e h1 h2).1⟩
    · exact ⟨fs, bs⟩
  · intro e he f hf hne
    rw [insert_eq] at he hf
    rcases mem_insertV he with ⟨e1, e2⟩ | rfl <;> rcases mem_insertV hf with ⟨f1, f2⟩ | rfl
    · exact inv.2 e e1 f f1 hne
    · exact (pres e e1 e2).2.2
    · exact (pres f f1 f2).2.2.symm
    · exact absurd rfl hne
  · rw [insert_eq, rd_eq_mp, rd_eq_mp]
    exact map_insertV_agree fin k s2 h'.read h.read (fun e he hk => (pres e he hk).2.1)

/-- argument entries: they live below `base` (or have no capacity) and are bounded -/
def ArgOK (base : Nat) (h : Heap κ α) (es : List (κ × Slice)) : Prop :=
  ∀ e ∈ es, (e.2.arr < base ∨ e.2.cap = 0) ∧ BoundedS h e.2

theorem ArgOK.frame {base : Nat} {h h' : Heap κ α} (f : Frame base h h') {es : List (κ × Slice)} (a : ArgOK base h es) :
    ArgOK base h' es ∧ es.map (rd h') = es.map (rd h) := by
  refine ⟨fun e he => ⟨(a e he).1, (a e he).2.frame f (a e he).1⟩, ?_⟩
  apply List.map_congr_left
  intro e he
  simp only [rd]
  congr 1
  apply read_frame f
  rcases (a e he).1 with h1 | h1
  · exact Or.inl h1
  · right; have := (a e he).2.1; omega

theorem ArgOK.tail {base : Nat} {h : Heap κ α} {e : κ × Slice} {es : List (κ × Slice)} (a : ArgOK base h (e :: es)) :
    ArgOK base h es := fun x hx => a x (List.mem_cons_of_mem _ hx)

/-- one destination cell of the first loop of `appendData` -/
theorem dataA_cell (E : Env α) {base : Nat} {h : Heap κ α} (hb : base ≤ h.arrays.length) (s : Slice) (bs : BoundedS h s)
    (bLen : Nat) (keep : Bool) :
    let h1 := (h.alloc (h.read s ++ List.replicate bLen E.zero)).1
    let c : Slice := ⟨h.arrays.length, 0, s.len, s.len + bLen⟩
    let r := if keep then (h1, c) else appendZeros E h1 c bLen
    Frame base h r.1 ∧ Fresh base r.2 ∧ BoundedS r.1 r.2 ∧
      r.1.read r.2 = (if keep then h.read s else h.read s ++ List.replicate bLen E.zero) ∧
      ∀ t, BoundedS h t → BoundedS r.1 t ∧ r.1.read t = h.read t ∧ Disj t r.2 := by
  intro h1 c r
  have f1 : Frame base h h1 := frame_alloc hb _
  have fc : Fresh base c := Or.inl hb
  have bc : BoundedS h1 c := ⟨by simp [c], Or.inr ⟨_, alloc_get _ _, by simp [c, bs.read_length]⟩⟩
  have rc : h1.read c = h.read s := by
    show (h.alloc _).1.read ⟨h.arrays.length, 0, s.len, s.len + bLen⟩ = _
    rw [alloc_read _ _ _ _ (by simp [bs.read_length])]
    exact List.take_left' bs.read_length
  have oc : ∀ t, BoundedS h t → BoundedS h1 t ∧ h1.read t = h.read t ∧ Disj t c := by
    intro t bt
    refine ⟨bt.alloc _, read_alloc bt _, ?_⟩
    rcases bt.valid.2 with h0 | h1'
    · exact Or.inl h0
    · exact Or.inr (Or.inr (Nat.ne_of_lt h1'))
  cases keep with
  | true => exact ⟨f1, fc, bc, by simpa [r] using rc, by simpa [r] using oc⟩
  | false =>
    have p := appendZeros_refine E bLen f1.base_le' fc bc
    refine ⟨f1.trans p.frame, p.fresh, p.bounded, ?_, ?_⟩
    · simp only [r, Bool.false_eq_true, if_false]
      rw [p.read, rc]
    · intro t bt
      obtain ⟨b1, r1, d1⟩ := oc t bt
      obtain ⟨b2, o2⟩ := p.others t b1
      obtain ⟨r2, d2⟩ := o2 d1
      exact ⟨b2, r2.trans r1, d2⟩

theorem appendDataA_refine (E : Env α) {base : Nat} (b : List (κ × Slice)) (bv : List (κ × List α))
    (hbv : ∀ k, hasKeyV bv k = hasKey b k) (bLen : Nat) (as : List (κ × Slice)) :
    ∀ {h : Heap κ α} (_ : base ≤ h.arrays.length) {fin : List (κ × Slice)} (_ : FinInv base h fin) (_ : ArgOK base h as),
    Frame base h (appendDataA E b bLen h as fin).1 ∧
      FinInv base (appendDataA E b bLen h as fin).1 (appendDataA E b bLen h as fin).2 ∧
      (appendDataA E b bLen h as fin).2.map (rd (appendDataA E b bLen h as fin).1)
        = pureDataA E bv bLen (as.map (rd h)) (fin.map (rd h)) := by
  induction as with
  | nil => intro h hb fin inv _; exact ⟨Frame.refl hb, inv, rfl⟩
  | cons e rest ih =>
    intro h hb fin inv args
    have be := (args e (List.mem_cons_self ..)).2
    obtain ⟨f1, fr, br, rr, oth⟩ := dataA_cell E hb e.2 be bLen (hasKey b e.1)
    simp only [appendDataA]
    generalize (if hasKey b e.1 then ((h.alloc (h.read e.2 ++ List.replicate bLen E.zero)).1,
        (⟨h.arrays.length, 0, e.2.len, e.2.len + bLen⟩ : Slice))
      else appendZeros E (h.alloc (h.read e.2 ++ List.replicate bLen E.zero)).1
        ⟨h.arrays.length, 0, e.2.len, e.2.len + bLen⟩ bLen) = r at f1 fr br rr oth ⊢
    obtain ⟨inv', hmap⟩ := fin_step (k := e.1) inv
      (fun x hx _ => oth x.2 (inv.1 x hx).2) fr br
    obtain ⟨args', hargs⟩ := ArgOK.frame f1 args.tail
    obtain ⟨f2, inv2, h2⟩ := ih f1.base_le' inv' args'
    refine ⟨f1.trans f2, inv2, ?_⟩
    rw [h2, hargs, hmap, rr]
    simp only [List.map_cons, pureDataA, rd, hbv]

theorem read_nil (h : Heap κ α) : h.read Slice.nil = [] := by simp [Heap.read, Slice.nil]

/-- one destination cell of the second loop of `appendData` -/
theorem dataB_cell (E : Env α) {base : Nat} {h : Heap κ α} (hb : base ≤ h.arrays.length) {fin : List (κ × Slice)}
    (inv : FinInv base h fin) (k : κ) (data : Slice) (hd : (data.arr < base ∨ data.cap = 0) ∧ BoundedS h data) (aLen : Nat) :
    let r0 := match lookup fin k with
      | some c => (h, c)
      | none => appendZeros E h Slice.nil aLen
    let r := goAppend E r0.1 r0.2 (r0.1.read data)
    Frame base h r.1 ∧ Fresh base r.2 ∧ BoundedS r.1 r.2 ∧
      r.1.read r.2 = (match lookupV (fin.map (rd h)) k with
                      | some c => c
                      | none => List.replicate aLen E.zero) ++ h.read data ∧
      ∀ x ∈ fin, x.1 ≠ k → BoundedS r.1 x.2 ∧ r.1.read x.2 = h.read x.2 ∧ Disj x.2 r.2 := by
  intro r0 r
  have hl : lookupV (fin.map (rd h)) k = (lookup fin k).map h.read := by
    rw [rd_eq_mp, lookupV_map, lookup_eq]
  have hdl : data.arr < base ∨ data.len = 0 := hd.1.imp id (fun h0 => by have := hd.2.1; omega)
  cases hc : lookup fin k with
  | some c =>
    have hc' : lookupV fin k = some c := hc
    obtain ⟨e', he', hk', rfl⟩ := lookupV_mem hc'
    obtain ⟨fc, bc⟩ := inv.1 e' he'
    have p := goAppend_refine E hb fc bc (h.read data)
    have er : r = goAppend E h e'.2 (h.read data) := by simp only [r, r0, hc]
    rw [er, hl, hc]
    refine ⟨p.frame, p.fresh, p.bounded, p.read, ?_⟩
    intro x hx hne
    obtain ⟨b1, o1⟩ := p.others x.2 (inv.1 x hx).2
    obtain ⟨r1, d1⟩ := o1 (inv.2 x hx e' he' (by rw [hk']; exact hne))
    exact ⟨b1, r1, d1⟩
  | none =>
    have pz := appendZeros_refine E aLen hb (nil_fresh base) (nil_bounded h)
    have hrd : (appendZeros E h Slice.nil aLen).1.read data = h.read data := read_frame pz.frame hdl
    have p := goAppend_refine E pz.frame.base_le' pz.fresh pz.bounded (h.read data)
    have er : r = goAppend E (appendZeros E h Slice.nil aLen).1 (appendZeros E h Slice.nil aLen).2 (h.read data) := by
      simp only [r, r0, hc, hrd]
    rw [er, hl, hc]
    refine ⟨pz.frame.trans p.frame, p.fresh, p.bounded, ?_, ?_⟩
    · rw [p.read, pz.read, read_nil]; rfl
    · intro x hx _
      obtain ⟨b1, o1⟩ := pz.others x.2 (inv.1 x hx).2
      obtain ⟨r1, d1⟩ := o1 (Or.inr (Or.inl rfl))
      obtain ⟨b2, o2⟩ := p.others x.2 b1
      obtain ⟨r2, d2⟩ := o2 d1
      exact ⟨b2, r2.trans r1, d2⟩

theorem appendDataB_refine (E : Env α) {base : Nat} (aLen : Nat) (bs : List (κ × Slice)) :
    ∀ {h : Heap κ α} (_ : base ≤ h.arrays.length) {fin : List (κ × Slice)} (_ : FinInv base h fin) (_ : ArgOK base h bs),
    Frame base h (appendDataB E aLen h bs fin).1 ∧
      FinInv base (appendDataB E aLen h bs fin).1 (appendDataB E aLen h bs fin).2 ∧
      (appendDataB E aLen h bs fin).2.map (rd (appendDataB E aLen h bs fin).1)
        = pureDataB E aLen (bs.map (rd h)) (fin.map (rd h)) := by
  induction bs with
  | nil => intro h hb fin inv _; exact ⟨Frame.refl hb, inv, rfl⟩
  | cons e rest ih =>
    intro h hb fin inv args
    obtain ⟨f1, fr, br, rr, oth⟩ := dataB_cell E hb inv e.1 e.2 (args e (List.mem_cons_self ..)) aLen
    simp only [appendDataB]
    generalize (goAppend E (match lookup fin e.1 with
        | some c => (h, c)
        | none => appendZeros E h Slice.nil aLen).1 (match lookup fin e.1 with
        | some c => (h, c)
        | none => appendZeros E h Slice.nil aLen).2 ((match lookup fin e.1 with
        | some c => (h, c)
        | none => appendZeros E h Slice.nil aLen).1.read e.2)) = r at f1 fr br rr oth ⊢
    obtain ⟨inv', hmap⟩ := fin_step (k := e.1) inv oth fr br
    obtain ⟨args', hargs⟩ := ArgOK.frame f1 args.tail
    obtain ⟨f2, inv2, h2⟩ := ih f1.base_le' inv' args'
    refine ⟨f1.trans f2, inv2, ?_⟩
    rw [h2, hargs, hmap, rr]
    rfl

/-! ### maps -/

/-- a map reference whose entries are all bounded -/
def MapRefB (h : Heap κ α) : Option Nat → Prop
  | none => True
  | some i => i < h.maps.length ∧ ∀ e ∈ (h.maps[i]?).getD [], BoundedS h e.2

/-- what one attribute map shows -/
def obsMap (h : Heap κ α) (m : Option Nat) : List (κ × List α) := (h.mapEntries m).map (rd h)

theorem obs_attrs (h : Heap κ α) (r : MeshRep) : (obs h r).attrs = r.maps.map (obsMap h) := rfl

theorem Frame.weaken {base base' : Nat} {h h' : Heap κ α} (f : Frame base h h') (hle : base' ≤ base) : Frame base' h h' :=
  ⟨Nat.le_trans hle f.base_le, f.size_le, fun i hi => f.arr_eq i (Nat.lt_of_lt_of_le hi hle), f.msize_le, f.maps_eq⟩

theorem MapRefB.entries {h : Heap κ α} {m : Option Nat} (b : MapRefB h m) : ∀ e ∈ h.mapEntries m, BoundedS h e.2 := by
  cases m with
  | none => intro e he; simp [Heap.mapEntries] at he
  | some i => intro e he; exact b.2 e (by simpa [Heap.mapEntries] using he)

theorem MapRefB.argOK {h : Heap κ α} {m : Option Nat} (b : MapRefB h m) : ArgOK h.arrays.length h (h.mapEntries m) := by
  intro e he
  have be := b.entries e he
  refine ⟨?_, be⟩
  rcases be.valid.2 with h0 | h1
  · exact Or.inr h0
  · exact Or.inl h1

theorem MapRefB.frame {h h' : Heap κ α} (f : Frame h.arrays.length h h') {m : Option Nat} (b : MapRefB h m) :
    MapRefB h' m ∧ obsMap h' m = obsMap h m ∧ h'.mapEntries m = h.mapEntries m := by
  have he : h'.mapEntries m = h.mapEntries m := by
    cases m with
    | none => rfl
    | some i => simp [Heap.mapEntries, f.maps_eq i b.1]
  refine ⟨?_, ?_, he⟩
  · cases m with
    | none => trivial
    | some i =>
      refine ⟨Nat.lt_of_lt_of_le b.1 f.msize_le, ?_⟩
      rw [f.maps_eq i b.1]
      exact fun e he => (b.2 e he).frame_size f
  · unfold obsMap
    rw [he]
    exact (ArgOK.frame f b.argOK).2

theorem allocMap_bounded {h : Heap κ α} {s : Slice} (es : List (κ × Slice)) :
    BoundedS (h.allocMap es).1 s ↔ BoundedS h s := Iff.rfl

theorem allocMap_read (h : Heap κ α) (es : List (κ × Slice)) (s : Slice) : (h.allocMap es).1.read s = h.read s := rfl

theorem allocMap_entries (h : Heap κ α) (es : List (κ × Slice)) :
    (h.allocMap es).1.mapEntries (some (h.allocMap es).2) = es := by
  simp [Heap.mapEntries, Heap.allocMap]

/-- a freshly made map with bounded entries: bounded map reference showing exactly the entries read -/
theorem allocMap_refine {h : Heap κ α} {es : List (κ × Slice)} (b : ∀ e ∈ es, BoundedS h e.2) :
    MapRefB (h.allocMap es).1 (some (h.allocMap es).2) ∧ obsMap (h.allocMap es).1 (some (h.allocMap es).2) = es.map (rd h) := by
  refine ⟨⟨by simp [Heap.allocMap], ?_⟩, ?_⟩
  · have := allocMap_entries h es
    simp only [Heap.mapEntries] at this
    rw [this]
    exact b
  · unfold obsMap
    rw [allocMap_entries]
    rfl

theorem appendKind_refine (E : Env α) (aLen bLen : Nat) {h : Heap κ α} {ma mb : Option Nat}
    (Ba : MapRefB h ma) (Bb : MapRefB h mb) :
    Frame h.arrays.length h (appendKind E false aLen bLen h ma mb).1 ∧
      MapRefB (appendKind E false aLen bLen h ma mb).1 (some (appendKind E false aLen bLen h ma mb).2) ∧
      obsMap (appendKind E false aLen bLen h ma mb).1 (some (appendKind E false aLen bLen h ma mb).2)
        = pureKind E aLen bLen (obsMap h ma) (obsMap h mb) := by
  simp only [appendKind, Bool.false_eq_true, if_false]
  have hbv : ∀ k, hasKeyV ((h.mapEntries mb).map (rd h)) k = hasKey (h.mapEntries mb) k := by
    intro k; rw [rd_eq_mp, hasKeyV_map, hasKey_eq]
  obtain ⟨f1, inv1, m1⟩ := appendDataA_refine E (h.mapEntries mb) _ hbv bLen (h.mapEntries ma) (Nat.le_refl _)
    (fin := []) ⟨fun e he => by simp at he, fun e he => by simp at he⟩ Ba.argOK
  obtain ⟨argsB, hB⟩ := ArgOK.frame f1 Bb.argOK
  obtain ⟨f2, inv2, m2⟩ := appendDataB_refine E aLen (h.mapEntries mb) f1.base_le' inv1 argsB
  obtain ⟨mb', mo⟩ := allocMap_refine (h := (appendDataB E aLen (appendDataA E (h.mapEntries mb) bLen h (h.mapEntries ma) []).1
      (h.mapEntries mb) (appendDataA E (h.mapEntries mb) bLen h (h.mapEntries ma) []).2).1) (fun e he => (inv2.1 e he).2)
  refine ⟨(f1.trans f2).trans (frame_allocMap f2.base_le' _), mb', ?_⟩
  rw [mo, m2, hB, m1]
  rfl

theorem mapsB_frame {h h' : Heap κ α} (f : Frame h.arrays.length h h') {ms : List (Option Nat)}
    (b : ∀ m ∈ ms, MapRefB h m) : (∀ m ∈ ms, MapRefB h' m) ∧ ms.map (obsMap h') = ms.map (obsMap h) :=
  ⟨fun m hm => ((b m hm).frame f).1, List.map_congr_left fun m hm => ((b m hm).frame f).2.1⟩

theorem obsMap_headKind (h : Heap κ α) (os : List (Option Nat)) : obsMap h (headKind os) = headV (os.map (obsMap h)) := by
  cases os <;> rfl

theorem headKind_B {h : Heap κ α} {os : List (Option Nat)} (b : ∀ m ∈ os, MapRefB h m) : MapRefB h (headKind os) := by
  cases os with
  | nil => trivial
  | cons m _ => exact b m (List.mem_cons_self ..)

theorem appendMapsB_refine (E : Env α) (aLen bLen : Nat) (os : List (Option Nat)) :
    ∀ {h : Heap κ α} (_ : ∀ m ∈ os, MapRefB h m),
    Frame h.arrays.length h (appendMapsB E false aLen bLen h os).1 ∧
      (∀ m ∈ (appendMapsB E false aLen bLen h os).2, MapRefB (appendMapsB E false aLen bLen h os).1 m) ∧
      (appendMapsB E false aLen bLen h os).2.map (obsMap (appendMapsB E false aLen bLen h os).1)
        = pureMapsB E aLen bLen (os.map (obsMap h)) := by
  induction os with
  | nil => intro h _; exact ⟨Frame.refl (Nat.le_refl _), fun m hm => by simp [appendMapsB] at hm, rfl⟩
  | cons mb os ih =>
    intro h B
    obtain ⟨f1, b1, o1⟩ := appendKind_refine E aLen bLen (h := h) (ma := none) (mb := mb) trivial (B mb (List.mem_cons_self ..))
    obtain ⟨B', hB'⟩ := mapsB_frame f1 (fun m hm => B m (List.mem_cons_of_mem _ hm))
    obtain ⟨f2, b2, o2⟩ := ih B'
    obtain ⟨b1', o1', _⟩ := b1.frame f2
    simp only [appendMapsB]
    refine ⟨f1.trans (f2.weaken f1.size_le), ?_, ?_⟩
    · intro m hm
      rcases List.mem_cons.mp hm with rfl | hm
      · exact b1'
      · exact b2 m hm
    · simp only [List.map_cons, pureMapsB]
      rw [o2, hB', o1', o1]
      rfl

theorem appendMaps_refine (E : Env α) (aLen bLen : Nat) (ms : List (Option Nat)) :
    ∀ (os : List (Option Nat)) {h : Heap κ α} (_ : ∀ m ∈ ms, MapRefB h m) (_ : ∀ m ∈ os, MapRefB h m),
    Frame h.arrays.length h (appendMaps E false aLen bLen h ms os).1 ∧
      (∀ m ∈ (appendMaps E false aLen bLen h ms os).2, MapRefB (appendMaps E false aLen bLen h ms os).1 m) ∧
      (appendMaps E false aLen bLen h ms os).2.map (obsMap (appendMaps E false aLen bLen h ms os).1)
        = pureMaps E aLen bLen (ms.map (obsMap h)) (os.map (obsMap h)) := by
  induction ms with
  | nil => intro os h _ Bo; simp only [appendMaps, List.map_nil, pureMaps]; exact appendMapsB_refine E aLen bLen os Bo
  | cons ma ms ih =>
    intro os h Bm Bo
    obtain ⟨f1, b1, o1⟩ := appendKind_refine E aLen bLen (h := h) (ma := ma) (mb := headKind os)
      (Bm ma (List.mem_cons_self ..)) (headKind_B Bo)
    obtain ⟨Bm', hBm'⟩ := mapsB_frame f1 (fun m hm => Bm m (List.mem_cons_of_mem _ hm))
    obtain ⟨Bo', hBo'⟩ := mapsB_frame f1 (ms := os.tail) (fun m hm => Bo m (List.mem_of_mem_tail hm))
    obtain ⟨f2, b2, o2⟩ := ih os.tail Bm' Bo'
    obtain ⟨b1', o1', _⟩ := b1.frame f2
    simp only [appendMaps]
    refine ⟨f1.trans (f2.weaken f1.size_le), ?_, ?_⟩
    · intro m hm
      rcases List.mem_cons.mp hm with rfl | hm
      · exact b1'
      · exact b2 m hm
    · simp only [List.map_cons, pureMaps]
      rw [o2, hBm', hBo', o1', o1, obsMap_headKind, List.map_tail]

/-! ### indices, materials, the whole `Append` -/

/-- `dst := make([]T, 0, len(x)+len(y)); dst = append(dst, x...); dst = append(dst, y...)` -/
theorem twoAppends_refine (E : Env α) {g : Heap κ α} {x y : Slice} (bx : BoundedS g x) (by_ : BoundedS g y) :
    let g2 := (g.alloc (List.replicate (x.len + y.len) E.zero)).1
    let t0 : Slice := ⟨g.arrays.length, 0, 0, x.len + y.len⟩
    let t1 := goAppend E g2 t0 (g2.read x)
    let t2 := goAppend E t1.1 t1.2 (t1.1.read y)
    Frame g.arrays.length g t2.1 ∧ BoundedS t2.1 t2.2 ∧ t2.1.read t2.2 = g.read x ++ g.read y ∧
      ∀ t, BoundedS g t → BoundedS t2.1 t ∧ t2.1.read t = g.read t ∧ Disj t t2.2 := by
  intro g2 t0 t1 t2
  have f0 : Frame g.arrays.length g g2 := frame_alloc (Nat.le_refl _) _
  have ft0 : Fresh g.arrays.length t0 := Or.inl (Nat.le_refl _)
  have bt0 : BoundedS g2 t0 := ⟨Nat.zero_le _, Or.inr ⟨_, alloc_get _ _, by simp [t0]⟩⟩
  have rt0 : g2.read t0 = [] := by simp [Heap.read, t0]
  have p1 := goAppend_refine E f0.base_le' ft0 bt0 (g2.read x)
  have p2 := goAppend_refine E p1.frame.base_le' p1.fresh p1.bounded (t1.1.read y)
  have rx : g2.read x = g.read x := read_alloc bx _
  have ry : t1.1.read y = g.read y := by
    obtain ⟨_, o⟩ := p1.others y (by_.alloc _)
    have dy : Disj y t0 := by
      rcases by_.valid.2 with h0 | h1
      · exact Or.inl h0
      · exact Or.inr (Or.inr (Nat.ne_of_lt h1))
    rw [(o dy).1]; exact read_alloc by_ _
  refine ⟨(f0.trans p1.frame).trans p2.frame, p2.bounded, ?_, ?_⟩
  · rw [p2.read, p1.read, rt0, rx, ry, List.nil_append]
  · intro t bt
    have dt : Disj t t0 := by
      rcases bt.valid.2 with h0 | h1
      · exact Or.inl h0
      · exact Or.inr (Or.inr (Nat.ne_of_lt h1))
    obtain ⟨b1, o1⟩ := p1.others t (bt.alloc _)
    obtain ⟨r1, d1⟩ := o1 dt
    obtain ⟨b2, o2⟩ := p2.others t b1
    obtain ⟨r2, d2⟩ := o2 d1
    exact ⟨b2, (r2.trans r1).trans (read_alloc bt _), d2⟩

theorem read_sub (h : Heap κ α) (s : Slice) (p cap' : Nat) :
    h.read ⟨s.arr, s.off + p, s.len - p, cap'⟩ = (h.read s).drop p := by
  simp only [Heap.read, List.drop_take, List.drop_drop]

/-- the in-place index shift of `Append` on a bounded slice -/
theorem shiftTail_refine (E : Env α) {g : Heap κ α} {s : Slice} (bs : BoundedS g s) (p n : Nat) (hp : p ≤ s.len) :
    (shiftTail E g s p n).read s = (g.read s).take p ++ ((g.read s).drop p).map (E.shift n) ∧
    (shiftTail E g s p n).maps = g.maps ∧
    ∀ t, BoundedS g t → BoundedS (shiftTail E g s p n) t ∧ (Disj t s → (shiftTail E g s p n).read t = g.read t) := by
  refine ⟨?_, rfl, ?_⟩
  · simp only [shiftTail, read_sub]
    have hl : (((g.read s).drop p).map (E.shift n)).length = s.len - p := by
      simp [bs.read_length]
    rw [read_write_self bs p _ (by rw [hl]; omega), hl]
    have : (g.read s).drop (p + (s.len - p)) = [] := by
      apply List.drop_of_length_le; rw [bs.read_length]; omega
    rw [this, List.append_nil]
  · intro t bt
    refine ⟨bt.write _ _ _, fun d => ?_⟩
    simp only [shiftTail]
    rcases d with d | d | d
    · exact read_write_other (Or.inl (by have := bt.1; omega)) _ _
    · have h0 : s.len = 0 := by have := bs.1; omega
      have : g.read ⟨s.arr, s.off + p, s.len - p, s.cap - p⟩ = [] := by
        simp [Heap.read, h0]
      rw [this]
      simp only [List.map_nil]
      simp only [Heap.read, Heap.array, Heap.write, List.getElem?_modify]
      cases g.arrays[t.arr]? <;> simp
    · exact read_write_other (Or.inr d) _ _

/-- a mesh representation all of whose slices are bounded -/
def MeshRep.Bounded (h : Heap κ α) (r : MeshRep) : Prop :=
  BoundedS h r.indices ∧ BoundedS h r.materials ∧ ∀ m ∈ r.maps, MapRefB h m

theorem attrLen_obs {h : Heap κ α} {r : MeshRep} (b : r.Bounded h) : attrLen h r = attrLenObs (obs h r) := by
  have key : (obs h r).attrs.reverse.flatMap id = (r.maps.reverse.flatMap fun m => h.mapEntries m).map (rd h) := by
    rw [obs_attrs, ← List.map_reverse, List.flatMap_map, List.map_flatMap]
    rfl
  unfold attrLen attrLenObs
  rw [key]
  cases hl : (r.maps.reverse.flatMap fun m => h.mapEntries m) with
  | nil => rfl
  | cons e rest =>
    simp only [List.map_cons, rd]
    have he : e ∈ (r.maps.reverse.flatMap fun m => h.mapEntries m) := by rw [hl]; exact List.mem_cons_self ..
    obtain ⟨m, hm, hem⟩ := List.mem_flatMap.mp he
    exact ((b.2.2 m (List.mem_reverse.mp hm)).entries e hem).read_length.symm

theorem obsMap_keep {g g' : Heap κ α} (hm : ∀ i, i < g.maps.length → g'.maps[i]? = g.maps[i]?)
    (hr : ∀ t, BoundedS g t → g'.read t = g.read t) {mp : Option Nat} (b : MapRefB g mp) :
    obsMap g' mp = obsMap g mp := by
  have he : g'.mapEntries mp = g.mapEntries mp := by
    cases mp with
    | none => rfl
    | some i => simp [Heap.mapEntries, hm i b.1]
  unfold obsMap
  rw [he]
  apply List.map_congr_left
  intro e he'
  simp only [rd]
  rw [hr e.2 (b.entries e he')]

theorem MeshRep.Bounded.frame {h h' : Heap κ α} (f : Frame h.arrays.length h h') {r : MeshRep} (b : r.Bounded h) :
    r.Bounded h' ∧ obs h' r = obs h r :=
  ⟨⟨b.1.frame_size f, b.2.1.frame_size f, fun m hm => ((b.2.2 m hm).frame f).1⟩,
   obs_frame f ⟨b.1.valid, b.2.1.valid, fun m hm => by
     have bm := b.2.2 m hm
     cases m with
     | none => trivial
     | some i => exact ⟨bm.1, fun e he => (bm.2 e he).valid⟩⟩⟩

/-- **`Append` refines its pure meaning**: the observable value of what `appendCopy` returns is `pureAppend` of the
    observable values of its arguments — whatever the heap looks like, wherever the arrays are, whatever the growth policy -/
theorem appendCopy_refine (E : Env α) {h : Heap κ α} {m o : MeshRep} (bm : m.Bounded h) (bo : o.Bounded h)
    (aLen bLen : Nat) :
    (appendCopy E h m o aLen bLen).map (fun x => obs x.1 x.2) = pureAppend E aLen bLen (obs h m) (obs h o) := by
  unfold appendCopy pureAppend
  have ht : ∀ r : MeshRep, (obs h r).topo = r.topo := fun _ => rfl
  rw [ht, ht]
  split
  · rfl
  · simp only [Option.map_some, Option.some.injEq]
    obtain ⟨fm, bM, oM⟩ := appendMaps_refine E aLen bLen m.maps o.maps bm.2.2 bo.2.2
    generalize appendMaps E false aLen bLen h m.maps o.maps = rm at fm bM oM ⊢
    -- the arguments' index and material slices in the heap after the maps
    have rdg : ∀ t, BoundedS h t → BoundedS rm.1 t ∧ rm.1.read t = h.read t :=
      fun t bt => ⟨bt.frame_size fm, read_frame_valid fm bt.valid⟩
    obtain ⟨bx, rx⟩ := rdg _ bm.1
    obtain ⟨by_, ry⟩ := rdg _ bo.1
    obtain ⟨bu, ru⟩ := rdg _ bm.2.1
    obtain ⟨bv, rv⟩ := rdg _ bo.2.1
    obtain ⟨fA, bA, rA, oA⟩ := twoAppends_refine E bx by_
    generalize goAppend E (goAppend E (rm.1.alloc (List.replicate (m.indices.len + o.indices.len) E.zero)).1
        ⟨rm.1.arrays.length, 0, 0, m.indices.len + o.indices.len⟩
        ((rm.1.alloc (List.replicate (m.indices.len + o.indices.len) E.zero)).1.read m.indices)).1 _ _ = t2
      at fA bA rA oA ⊢
    obtain ⟨bu2, ru2, _⟩ := oA _ bu
    obtain ⟨bv2, rv2, _⟩ := oA _ bv
    obtain ⟨fB, bB, rB, oB⟩ := twoAppends_refine E bu2 bv2
    generalize goAppend E (goAppend E (t2.1.alloc (List.replicate (m.materials.len + o.materials.len) E.zero)).1
        ⟨t2.1.arrays.length, 0, 0, m.materials.len + o.materials.len⟩
        ((t2.1.alloc (List.replicate (m.materials.len + o.materials.len) E.zero)).1.read m.materials)).1 _ _ = u2
      at fB bB rB oB ⊢
    obtain ⟨bt2, rt2, dt2⟩ := oB _ bA
    have hlen : t2.2.len = m.indices.len + o.indices.len := by
      rw [← bA.read_length, rA, List.length_append, bx.read_length, by_.read_length]
    obtain ⟨rS, mS, oS⟩ := shiftTail_refine E bt2 m.indices.len aLen (by omega)
    -- field by field
    have hidx : (shiftTail E u2.1 t2.2 m.indices.len aLen).read t2.2
        = h.read m.indices ++ (h.read o.indices).map (E.shift aLen) := by
      rw [rS, rt2, rA, rx, ry]
      have hl : (h.read m.indices).length = m.indices.len := bm.1.read_length
      rw [List.take_left' hl, List.drop_left' hl]
    have hmat : (shiftTail E u2.1 t2.2 m.indices.len aLen).read u2.2
        = h.read m.materials ++ h.read o.materials := by
      rw [(oS _ bB).2 dt2.symm, rB, ru2, rv2, ru, rv]
    have hattr : rm.2.map (obsMap (shiftTail E u2.1 t2.2 m.indices.len aLen))
        = pureMaps E aLen bLen (obs h m).attrs (obs h o).attrs := by
      rw [obs_attrs, obs_attrs, ← oM]
      apply List.map_congr_left
      intro mp hmp
      apply obsMap_keep (g := rm.1) _ _ (bM mp hmp)
      · intro i hi
        rw [mS, fB.maps_eq i (Nat.lt_of_lt_of_le hi fA.msize_le), fA.maps_eq i hi]
      · intro t bt
        obtain ⟨b1, r1, d1⟩ := oA t bt
        obtain ⟨b2, r2, _⟩ := oB t b1
        rw [(oS t b2).2 d1, r2, r1]
    show (⟨m.topo, _, _, _⟩ : MeshObs κ α) = _
    simp only [obs] at hidx hmat ⊢
    rw [hidx, hmat]
    congr 1

end fin

end MeshHeap
end PolyVerif
