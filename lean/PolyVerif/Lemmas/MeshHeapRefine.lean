/-
  C01, second part: what the operations of Model/MeshHeap.lean RETURN, as pure functions of the observable values of
  their arguments (`op_refines`), under the bounds invariant `BoundedS` (every slice lies inside its array, so it reads
  exactly `len` cells).  Core Lean only.
-/
import PolyVerif.Lemmas.MeshHeap

namespace PolyVerif
namespace MeshHeap

variable {κ α : Type}

/-! ### a plain list fact: overwriting inside a window -/

/-- overwriting `vs` at position `off+p` of an array, seen through the window `[off, off+len)` -/
theorem list_splice (c vs : List α) (off p len : Nat) (h1 : off + len ≤ c.length) (h2 : p + vs.length ≤ len) :
    (((c.take (off + p) ++ vs ++ c.drop (off + p + vs.length)).take c.length).drop off).take len
      = ((c.drop off).take len).take p ++ vs ++ ((c.drop off).take len).drop (p + vs.length) := by
  have hX : (c.take (off + p) ++ vs ++ c.drop (off + p + vs.length)).length = c.length := by
    simp only [List.length_append, List.length_take, List.length_drop]; omega
  rw [← hX, List.take_length]
  have hlt : (c.take (off + p)).length = off + p := by rw [List.length_take]; omega
  rw [List.append_assoc, List.drop_append_of_le_length (by omega), List.drop_take]
  have e1 : off + p - off = p := by omega
  have e2 : c.drop (off + p + vs.length) = (c.drop off).drop (p + vs.length) := by
    rw [List.drop_drop]; congr 1; omega
  rw [e1, e2]
  have hD : len ≤ (c.drop off).length := by rw [List.length_drop]; omega
  generalize c.drop off = D at *
  rw [← List.append_assoc, List.take_append]
  have hl : (D.take p ++ vs).length = p + vs.length := by
    rw [List.length_append, List.length_take]; omega
  rw [List.take_of_length_le (by omega), hl, List.take_take, List.drop_take]
  have : min p len = p := by omega
  rw [this]

theorem write_keeps_length (c vs : List α) (i : Nat) :
    ((c.take i ++ vs ++ c.drop (i + vs.length)).take c.length).length = c.length := by
  simp only [List.length_take, List.length_append, List.length_drop]; omega

/-! ### bounded slices -/

/-- the slice lies inside its backing array (or has no capacity at all) -/
def BoundedS (h : Heap κ α) (s : Slice) : Prop :=
  s.len ≤ s.cap ∧ (s.cap = 0 ∨ ∃ a, h.arrays[s.arr]? = some a ∧ s.off + s.cap ≤ a.length)

theorem BoundedS.valid {h : Heap κ α} {s : Slice} (b : BoundedS h s) : s.Valid h := by
  refine ⟨b.1, b.2.imp id ?_⟩
  rintro ⟨a, ha, _⟩
  exact (List.getElem?_eq_some_iff.mp ha).1

theorem BoundedS.read_length {h : Heap κ α} {s : Slice} (b : BoundedS h s) : (h.read s).length = s.len := by
  obtain ⟨hl, hc | ⟨a, ha, hb⟩⟩ := b
  · have : s.len = 0 := by omega
    simp [Heap.read, this]
  · simp only [Heap.read, Heap.array, ha, Option.getD_some, List.length_take, List.length_drop]; omega

theorem BoundedS.lt {h : Heap κ α} {s : Slice} (b : BoundedS h s) : s.arr < h.arrays.length ∨ s.len = 0 := by
  have v := b.valid
  rcases v.2 with h0 | h1
  · right; have := v.1; omega
  · left; exact h1

theorem nil_bounded (h : Heap κ α) : BoundedS h Slice.nil := ⟨Nat.le_refl _, Or.inl rfl⟩

/-- bounded slices stay bounded through any frame that keeps their array -/
theorem BoundedS.frame {base : Nat} {h h' : Heap κ α} (f : Frame base h h') {s : Slice} (b : BoundedS h s)
    (hs : s.arr < base ∨ s.cap = 0) : BoundedS h' s := by
  refine ⟨b.1, ?_⟩
  rcases b.2 with h0 | ⟨a, ha, hb⟩
  · exact Or.inl h0
  · rcases hs with h1 | h1
    · exact Or.inr ⟨a, by rw [f.arr_eq _ h1]; exact ha, hb⟩
    · exact Or.inl h1

theorem BoundedS.frame_size {h h' : Heap κ α} (f : Frame h.arrays.length h h') {s : Slice} (b : BoundedS h s) :
    BoundedS h' s := by
  apply b.frame f
  rcases b.valid.2 with h0 | h1
  · exact Or.inr h0
  · exact Or.inl h1

/-- writes keep every array's length, so every bounded slice stays bounded -/
theorem BoundedS.write {h : Heap κ α} {s : Slice} (b : BoundedS h s) (a i : Nat) (vs : List α) :
    BoundedS (h.write a i vs) s := by
  refine ⟨b.1, ?_⟩
  rcases b.2 with h0 | ⟨c, hc, hb⟩
  · exact Or.inl h0
  · right
    simp only [Heap.write, List.getElem?_modify, hc, Option.map_eq_map, Option.map_some]
    by_cases e : a = s.arr
    · refine ⟨(c.take i ++ vs ++ c.drop (i + vs.length)).take c.length, by simp [e], ?_⟩
      rw [write_keeps_length]; exact hb
    · exact ⟨c, by simp [e], hb⟩

theorem BoundedS.alloc {h : Heap κ α} {s : Slice} (b : BoundedS h s) (c : List α) : BoundedS (h.alloc c).1 s :=
  b.frame_size (frame_alloc (Nat.le_refl _) c)

/-- two slices cannot disturb one another: one of them has no capacity, or they live in different arrays -/
def Disj (s t : Slice) : Prop := s.cap = 0 ∨ t.cap = 0 ∨ s.arr ≠ t.arr

theorem read_write_other {h : Heap κ α} {t : Slice} {a : Nat} (ht : t.len = 0 ∨ t.arr ≠ a) (i : Nat) (vs : List α) :
    (h.write a i vs).read t = h.read t := by
  rcases ht with h0 | h1
  · simp [Heap.read, h0]
  · have : a ≠ t.arr := fun e => h1 e.symm
    simp only [Heap.read, Heap.array, Heap.write, List.getElem?_modify]
    cases h.arrays[t.arr]? <;> simp [this]

/-- reading a bounded slice after a write inside its window -/
theorem read_write_self {h : Heap κ α} {s : Slice} (b : BoundedS h s) (p : Nat) (vs : List α)
    (hp : p + vs.length ≤ s.len) :
    (h.write s.arr (s.off + p) vs).read s = (h.read s).take p ++ vs ++ (h.read s).drop (p + vs.length) := by
  obtain ⟨hl, hc | ⟨c, hc, hb⟩⟩ := b
  · have h0 : s.len = 0 := by omega
    have hv : vs = [] := by cases vs with
      | nil => rfl
      | cons _ _ => simp at hp; omega
    simp [Heap.read, h0, hv]
  · simp only [Heap.read, Heap.array, Heap.write, List.getElem?_modify, hc, Option.map_eq_map, Option.map_some,
      if_true, Option.getD_some]
    exact list_splice c vs s.off p s.len (by omega) hp

theorem alloc_get (h : Heap κ α) (c : List α) : (h.alloc c).1.arrays[h.arrays.length]? = some c := by
  simp [Heap.alloc]

theorem alloc_read (h : Heap κ α) (c : List α) (n cap : Nat) (_hn : n ≤ c.length) :
    (h.alloc c).1.read ⟨h.arrays.length, 0, n, cap⟩ = c.take n := by
  unfold Heap.read Heap.array
  simp only [alloc_get, Option.getD_some, List.drop_zero]

/-- reading anything bounded in `h` is unaffected by an allocation -/
theorem read_alloc {h : Heap κ α} {t : Slice} (b : BoundedS h t) (c : List α) : (h.alloc c).1.read t = h.read t :=
  read_frame_valid (frame_alloc (Nat.le_refl _) c) b.valid

/-- what Go's `append` onto a fresh, bounded slice does: the result reads `old ++ vs`, is again fresh and bounded, and
    no bounded slice living elsewhere notices -/
structure AppendPost (base : Nat) (h : Heap κ α) (s : Slice) (vs : List α) (r : Heap κ α × Slice) : Prop where
  frame : Frame base h r.1
  fresh : Fresh base r.2
  bounded : BoundedS r.1 r.2
  read : r.1.read r.2 = h.read s ++ vs
  others : ∀ t, BoundedS h t → (BoundedS r.1 t ∧ (Disj t s → r.1.read t = h.read t ∧ Disj t r.2))

theorem goAppend_refine (E : Env α) {base : Nat} {h : Heap κ α} (hb : base ≤ h.arrays.length) {s : Slice}
    (fs : Fresh base s) (bs : BoundedS h s) (vs : List α) : AppendPost base h s vs (goAppend E h s vs) := by
  obtain ⟨f, fr, _⟩ := goAppend_spec E hb fs bs.valid vs
  cases vs with
  | nil =>
    exact ⟨Frame.refl hb, fs, bs, by simp [goAppend], fun t bt => ⟨bt, fun d => ⟨rfl, d⟩⟩⟩
  | cons v vs =>
    refine ⟨f, fr, ?_, ?_, ?_⟩
    all_goals simp only [goAppend]
    all_goals split
    all_goals rename_i hfit
    · -- in place
      have hcap : s.cap ≠ 0 := by simp at hfit; omega
      have b2 : BoundedS h { s with len := s.len + (v :: vs).length } :=
        ⟨hfit, bs.2.imp id id⟩
      exact b2.write _ _ _
    · refine ⟨by simp, Or.inr ⟨_, alloc_get _ _, ?_⟩⟩
      simp [bs.read_length]; omega
    · have b2 : BoundedS h { s with len := s.len + (v :: vs).length } := ⟨hfit, bs.2.imp id id⟩
      have := read_write_self b2 s.len (v :: vs) (Nat.le_refl _)
      simp only at this
      rw [this]
      have e1 : (h.read { s with len := s.len + (v :: vs).length }).take s.len = h.read s := by
        simp only [Heap.read, List.take_take]
        congr 1; omega
      have e2 : (h.read { s with len := s.len + (v :: vs).length }).drop (s.len + (v :: vs).length) = [] := by
        apply List.drop_of_length_le
        rw [b2.read_length]
        exact Nat.le_refl _
      rw [e1, e2, List.append_nil]
    · rw [alloc_read _ _ _ _ (by simp [bs.read_length])]
      exact List.take_left' (by simp [bs.read_length])
    · intro t bt
      refine ⟨bt.write _ _ _, fun d => ?_⟩
      have hcap : s.cap ≠ 0 := by simp at hfit; omega
      rcases d with d | d | d
      · have : t.len = 0 := by have := bt.1; omega
        exact ⟨read_write_other (Or.inl this) _ _, Or.inl d⟩
      · exact absurd d hcap
      · exact ⟨read_write_other (Or.inr d) _ _, Or.inr (Or.inr d)⟩
    · intro t bt
      refine ⟨bt.alloc _, fun _ => ⟨read_alloc bt _, ?_⟩⟩
      rcases bt.valid.2 with h0 | h1
      · exact Or.inl h0
      · exact Or.inr (Or.inr (Nat.ne_of_lt h1))

theorem appendZeros_refine (E : Env α) {base : Nat} (n : Nat) : ∀ {h : Heap κ α} (_ : base ≤ h.arrays.length) {s : Slice}
    (_ : Fresh base s) (_ : BoundedS h s), AppendPost base h s (List.replicate n E.zero) (appendZeros E h s n) := by
  induction n with
  | zero =>
    intro h hb s fs bs
    exact ⟨Frame.refl hb, fs, bs, by simp [appendZeros], fun t bt => ⟨bt, fun d => ⟨rfl, d⟩⟩⟩
  | succ n ih =>
    intro h hb s fs bs
    have p1 := goAppend_refine E hb fs bs [E.zero]
    have p2 := ih p1.frame.base_le' p1.fresh p1.bounded
    simp only [appendZeros]
    refine ⟨p1.frame.trans p2.frame, p2.fresh, p2.bounded, ?_, ?_⟩
    · rw [p2.read, p1.read, List.append_assoc]
      congr 1
    · intro t bt
      obtain ⟨b1, o1⟩ := p1.others t bt
      obtain ⟨b2, o2⟩ := p2.others t b1
      refine ⟨b2, fun d => ?_⟩
      obtain ⟨r1, d1⟩ := o1 d
      obtain ⟨r2, d2⟩ := o2 d1
      exact ⟨r2.trans r1, d2⟩

end MeshHeap
end PolyVerif
