/-
  C08 (round 2) — the binary face loop over the reference face encoding WITH a `texcoord` list (count type
  uchar | int | uint, item type float | double, declared before or after the index list, optional unrecognised list first
  or last): per-corner texture coordinates of triangles and quads.  Core Lean only.
-/
import PolyVerif.Lemmas.PlyFaces

namespace PolyVerif
namespace PlyFacesTex
open Ply PlySpec PlyLemmas PlyCompose PlyFaces

variable {α : Type}

/-- reading fixed-size chunks at offsets `i * s` of their concatenation -/
theorem mapM_range'_chunks {β W : Type} (s : Nat) (enc : W → Bytes) (dec : W → β) (rd : Bytes → Option β)
    (hlen : ∀ w, (enc w).length = s) (hrd : ∀ w tail, rd (enc w ++ tail) = some (dec w)) :
    ∀ (ws : List W) (k : Nat) (pre : Bytes), pre.length = k * s →
      (List.range' k ws.length).mapM (fun i => rd ((pre ++ (ws.map enc).flatten).drop (i * s))) = some (ws.map dec) := by
  intro ws
  induction ws with
  | nil => intro k pre _; rfl
  | cons w ws ih =>
    intro k pre hpre
    have h1 : rd ((pre ++ ((w :: ws).map enc).flatten).drop (k * s)) = some (dec w) := by
      rw [← hpre, List.drop_left]
      simp only [List.map_cons, List.flatten_cons]
      exact hrd w _
    have h2 := ih (k + 1) (pre ++ enc w) (by simp [hpre, hlen, Nat.add_mul])
    simp only [List.append_assoc] at h2
    simp only [List.map_cons, List.flatten_cons] at h1
    simp only [List.length_cons, List.range'_succ, List.mapM_cons, List.map_cons, List.flatten_cons, h1, h2]
    rfl

theorem mapM_range_chunks {β W : Type} (s : Nat) (enc : W → Bytes) (dec : W → β) (rd : Bytes → Option β)
    (hlen : ∀ w, (enc w).length = s) (hrd : ∀ w tail, rd (enc w ++ tail) = some (dec w)) (ws : List W) :
    (List.range ws.length).mapM (fun i => rd (((ws.map enc).flatten).drop (i * s))) = some (ws.map dec) := by
  have := mapM_range'_chunks s enc dec rd hlen hrd ws 0 [] (by simp)
  simpa [List.range_eq_range'] using this

/-- the list item types `listBinaryPropertyReader.Float64` implements -/
def TexTyOK (t : SType) : Prop := t = .float ∨ t = .double
instance (t : SType) : Decidable (TexTyOK t) := by unfold TexTyOK; infer_instance

/-- what the binary reader makes of a stored texture coordinate: the float32 image for `float`, the float64 image for
`double` -/
def imgTex (c : Coding α) (t : SType) (x : α) : α :=
  match t with
  | .double => c.unf64 (c.f64 x)
  | _ => c.unf32 (c.f32 x)

theorem texPayload_length (c : Coding α) (e : Endian) (it : SType) (hit : TexTyOK it) (uv : List α) :
    ((uv.map (putItemF c e it)).flatten).length = uv.length * it.size := by
  induction uv with
  | nil => simp
  | cons x xs ih =>
    rcases hit with rfl | rfl <;>
      simp [putItemF, put32_length, put64_length, SType.size, Nat.add_mul] at ih ⊢ <;> omega

theorem listFloatsBin_ref (c : Coding α) (e : Endian) (it : SType) (hit : TexTyOK it) (uv : List α) :
    listFloatsBin c e it uv.length ((uv.map (putItemF c e it)).flatten) 8
      = if uv.length ≤ 8 then some (uv.map (imgTex c it)) else none := by
  by_cases hl : uv.length ≤ 8
  · have h8 : ¬ (8 < uv.length) := by omega
    rw [if_pos hl]
    rcases hit with rfl | rfl
    · have := mapM_range_chunks 4 (putItemF c e .float) (imgTex c .float)
        (fun bs => (get32 e bs).map c.unf32) (fun w => put32_length e _)
        (fun w tail => by show (get32 e (put32 e _ ++ tail)).map c.unf32 = _; rw [put32_get32]; rfl) uv
      simpa [listFloatsBin, h8] using this
    · have := mapM_range_chunks 8 (putItemF c e .double) (imgTex c .double)
        (fun bs => (get64 e bs).map c.unf64) (fun w => put64_length e _)
        (fun w tail => by show (get64 e (put64 e _ ++ tail)).map c.unf64 = _; rw [put64_get64]; rfl) uv
      simpa [listFloatsBin, h8] using this
  · have : 8 < uv.length := by omega
    simp [listFloatsBin, this, hl]

def afterTex (c : Coding α) (it : SType) (uv : List α) (b : FaceBufs α) : FaceBufs α :=
  if uv.length ≤ 8 then { b with tex := overwrite b.tex (uv.map (imgTex c it)) } else b

/-- face-property loop, one step: the `texcoord` list -/
theorem go_tex (c : Coding α) (e : Endian) (fs : FaceScan) (i : Nat) (hi : fs.idxProp ≠ some i) (hti : fs.texProp = some i)
    (name : Bytes) (ct it : SType) (hct : CountTyOK ct) (hit : TexTyOK it) (uv : List α)
    (hn8 : ct = .uchar → uv.length < 256) (hn : uv.length < 2 ^ 31)
    (tl : List ((Bytes × SType × SType) × Nat)) (points : Int) (bufs : FaceBufs α) (rest : Bytes) :
    readFaceBin.go c e fs (((name, ct, it), i) :: tl) points bufs
        (putCount e ct (uv.length : Nat) ++ ((uv.map (putItemF c e it)).flatten ++ rest))
      = readFaceBin.go c e fs tl points (afterTex c it uv bufs) rest := by
  have hr := readListBin_ref e ct it hct uv.length hn8 hn _ rest (texPayload_length c e it hit uv)
  have hl := listFloatsBin_ref c e it hit uv
  simp only [readFaceBin.go, hr, bind, Except.bind, hi, if_false, hti, if_true, Int.toNat_natCast, hl]
  by_cases h8 : uv.length ≤ 8 <;> simp [afterTex, h8]

def idxPosT (fe : SpecFaceElem α) : Nat := (if fe.extra = some true then 1 else 0) + (if fe.texFirst then 1 else 0)
def texPosT (fe : SpecFaceElem α) : Nat := (if fe.extra = some true then 1 else 0) + (if fe.texFirst then 0 else 1)

theorem findFaceProps_refT (fe : SpecFaceElem α) (tt : SType × SType) (htex : fe.tex = some tt) :
    findFaceProps (lpOf fe) = ⟨some (idxPosT fe), some (texPosT fe)⟩ := by
  obtain ⟨short, ct, it, al, tex, tf, ex, faces⟩ := fe
  simp only at htex
  subst htex
  have h1 : (nm "flags" = nm "vertex_index") = False := by simp; decide
  have h2 : (nm "flags" = nm "vertex_indices") = False := by simp; decide
  have h3 : (nm "flags" = nm "texcoord") = False := by simp; decide
  have h4 : (nm "vertex_index" = nm "texcoord") = False := by simp; decide
  have h5 : (nm "vertex_indices" = nm "texcoord") = False := by simp; decide
  have h6 : (nm "texcoord" = nm "vertex_index") = False := by simp; decide
  have h7 : (nm "texcoord" = nm "vertex_indices") = False := by simp; decide
  rcases ex with _ | _ | _ <;> cases tf <;> cases short <;>
    simp [lpOf, SpecFaceElem.lists, findFaceProps, idxPosT, texPosT, List.zipIdx, h1, h2, h3, h4, h5, h6, h7]

/-- a textured face inside the covered grammar: two coordinates per listed vertex -/
structure FaceTexOK (fe : SpecFaceElem α) (fc : SpecFace α) : Prop extends FaceEncOK fe fc where
  uvLen : fc.uv.length = 2 * fc.verts.length

def afterFaceT (c : Coding α) (it : SType) (fc : SpecFace α) (b : FaceBufs α) : FaceBufs α :=
  ⟨overwrite b.idx (fc.verts.map (fun v => ((v : Nat) : Int))), overwrite b.tex (fc.uv.map (imgTex c it))⟩

/-- ONE TEXTURED FACE RECORD of the reference encoding under the reader's property loop -/
theorem readFaceBin_refT (c : Coding α) (e : Endian) (fe : SpecFaceElem α) (tct tit : SType) (htex : fe.tex = some (tct, tit))
    (hct : CountTyOK fe.cntTy) (hit : IndexTyOK fe.idxTy) (htct : CountTyOK tct) (htit : TexTyOK tit)
    (fc : SpecFace α) (hok : FaceEncOK fe fc) (h4 : fc.verts.length ≤ 4) (h8u : fc.uv.length ≤ 8)
    (bufs : FaceBufs α) (rest : Bytes) :
    readFaceBin c e (lpOf fe) (findFaceProps (lpOf fe)) bufs ((fe.lists.map (faceListBin c e fc)).flatten ++ rest)
      = .ok ((fc.verts.length : Nat), afterFaceT c tit fc bufs, rest) := by
  rw [findFaceProps_refT fe _ htex]
  obtain ⟨short, ct, it, al, tex, tf, ex, faces⟩ := fe
  simp only at htex hct hit
  subst htex
  obtain ⟨hv, h8, hn, hx⟩ := hok
  simp only at h8
  have hxc : SType.uchar = SType.uchar → fc.extra.length < 256 := fun _ => hx
  have hxn : fc.extra.length < 2 ^ 31 := by omega
  have hu8 : tct = SType.uchar → fc.uv.length < 256 := fun _ => by omega
  have hun : fc.uv.length < 2 ^ 31 := by omega
  have hu : CountTyOK SType.uchar := Or.inl rfl
  have hii : IndexTyOK SType.int := Or.inl rfl
  rcases ex with _ | _ | _ <;> cases tf
  · -- extra none, texFirst False
    have h0 := go_idx c e ⟨some 0, some 1⟩ 0 rfl (by simp) (if short then nm "vertex_index" else nm "vertex_indices") ct it hct hit fc.verts hv h8 hn [((nm "texcoord", tct, tit), 1)] (-1) bufs
      (putCount e tct (fc.uv.length : Nat) ++ ((fc.uv.map (putItemF c e tit)).flatten ++ rest))
    have h1 := go_tex c e ⟨some 0, some 1⟩ 1 (by simp) rfl (nm "texcoord") tct tit htct htit fc.uv hu8 hun [] (fc.verts.length : Nat) (afterRef fc.verts bufs)
      rest
    have hall := (h0).trans h1
    simpa [readFaceBin, lpOf, SpecFaceElem.lists, idxPosT, texPosT, List.zipIdx, faceListBin, idxPayload, List.append_assoc,
      readFaceBin.go, afterRef, afterTex, afterFaceT, h4, h8u] using hall
  · -- extra none, texFirst True
    have h0 := go_tex c e ⟨some 1, some 0⟩ 0 (by simp) rfl (nm "texcoord") tct tit htct htit fc.uv hu8 hun [((if short then nm "vertex_index" else nm "vertex_indices", ct, it), 1)] (-1) bufs
      (putCount e ct (fc.verts.length : Nat) ++ (idxPayload e it fc.verts ++ rest))
    have h1 := go_idx c e ⟨some 1, some 0⟩ 1 rfl (by simp) (if short then nm "vertex_index" else nm "vertex_indices") ct it hct hit fc.verts hv h8 hn [] (-1) (afterTex c tit fc.uv bufs)
      rest
    have hall := (h0).trans h1
    simpa [readFaceBin, lpOf, SpecFaceElem.lists, idxPosT, texPosT, List.zipIdx, faceListBin, idxPayload, List.append_assoc,
      readFaceBin.go, afterRef, afterTex, afterFaceT, h4, h8u] using hall
  · -- extra last, texFirst False
    have h0 := go_idx c e ⟨some 0, some 1⟩ 0 rfl (by simp) (if short then nm "vertex_index" else nm "vertex_indices") ct it hct hit fc.verts hv h8 hn [((nm "texcoord", tct, tit), 1), ((nm "flags", SType.uchar, SType.int), 2)] (-1) bufs
      (putCount e tct (fc.uv.length : Nat) ++ ((fc.uv.map (putItemF c e tit)).flatten ++ (putCount e SType.uchar (fc.extra.length : Nat) ++ ((fc.extra.map (putCount e SType.int)).flatten ++ rest))))
    have h1 := go_tex c e ⟨some 0, some 1⟩ 1 (by simp) rfl (nm "texcoord") tct tit htct htit fc.uv hu8 hun [((nm "flags", SType.uchar, SType.int), 2)] (fc.verts.length : Nat) (afterRef fc.verts bufs)
      (putCount e SType.uchar (fc.extra.length : Nat) ++ ((fc.extra.map (putCount e SType.int)).flatten ++ rest))
    have h2 := go_skip c e ⟨some 0, some 1⟩ 2 (by simp) (by simp) (nm "flags") SType.uchar SType.int hu hii fc.extra hxc hxn [] (fc.verts.length : Nat) (afterTex c tit fc.uv (afterRef fc.verts bufs))
      rest
    have hall := ((h0).trans h1).trans h2
    simpa [readFaceBin, lpOf, SpecFaceElem.lists, idxPosT, texPosT, List.zipIdx, faceListBin, idxPayload, List.append_assoc,
      readFaceBin.go, afterRef, afterTex, afterFaceT, h4, h8u] using hall
  · -- extra last, texFirst True
    have h0 := go_tex c e ⟨some 1, some 0⟩ 0 (by simp) rfl (nm "texcoord") tct tit htct htit fc.uv hu8 hun [((if short then nm "vertex_index" else nm "vertex_indices", ct, it), 1), ((nm "flags", SType.uchar, SType.int), 2)] (-1) bufs
      (putCount e ct (fc.verts.length : Nat) ++ (idxPayload e it fc.verts ++ (putCount e SType.uchar (fc.extra.length : Nat) ++ ((fc.extra.map (putCount e SType.int)).flatten ++ rest))))
    have h1 := go_idx c e ⟨some 1, some 0⟩ 1 rfl (by simp) (if short then nm "vertex_index" else nm "vertex_indices") ct it hct hit fc.verts hv h8 hn [((nm "flags", SType.uchar, SType.int), 2)] (-1) (afterTex c tit fc.uv bufs)
      (putCount e SType.uchar (fc.extra.length : Nat) ++ ((fc.extra.map (putCount e SType.int)).flatten ++ rest))
    have h2 := go_skip c e ⟨some 1, some 0⟩ 2 (by simp) (by simp) (nm "flags") SType.uchar SType.int hu hii fc.extra hxc hxn [] (fc.verts.length : Nat) (afterRef fc.verts (afterTex c tit fc.uv bufs))
      rest
    have hall := ((h0).trans h1).trans h2
    simpa [readFaceBin, lpOf, SpecFaceElem.lists, idxPosT, texPosT, List.zipIdx, faceListBin, idxPayload, List.append_assoc,
      readFaceBin.go, afterRef, afterTex, afterFaceT, h4, h8u] using hall
  · -- extra first, texFirst False
    have h0 := go_skip c e ⟨some 1, some 2⟩ 0 (by simp) (by simp) (nm "flags") SType.uchar SType.int hu hii fc.extra hxc hxn [((if short then nm "vertex_index" else nm "vertex_indices", ct, it), 1), ((nm "texcoord", tct, tit), 2)] (-1) bufs
      (putCount e ct (fc.verts.length : Nat) ++ (idxPayload e it fc.verts ++ (putCount e tct (fc.uv.length : Nat) ++ ((fc.uv.map (putItemF c e tit)).flatten ++ rest))))
    have h1 := go_idx c e ⟨some 1, some 2⟩ 1 rfl (by simp) (if short then nm "vertex_index" else nm "vertex_indices") ct it hct hit fc.verts hv h8 hn [((nm "texcoord", tct, tit), 2)] (-1) bufs
      (putCount e tct (fc.uv.length : Nat) ++ ((fc.uv.map (putItemF c e tit)).flatten ++ rest))
    have h2 := go_tex c e ⟨some 1, some 2⟩ 2 (by simp) rfl (nm "texcoord") tct tit htct htit fc.uv hu8 hun [] (fc.verts.length : Nat) (afterRef fc.verts bufs)
      rest
    have hall := ((h0).trans h1).trans h2
    simpa [readFaceBin, lpOf, SpecFaceElem.lists, idxPosT, texPosT, List.zipIdx, faceListBin, idxPayload, List.append_assoc,
      readFaceBin.go, afterRef, afterTex, afterFaceT, h4, h8u] using hall
  · -- extra first, texFirst True
    have h0 := go_skip c e ⟨some 2, some 1⟩ 0 (by simp) (by simp) (nm "flags") SType.uchar SType.int hu hii fc.extra hxc hxn [((nm "texcoord", tct, tit), 1), ((if short then nm "vertex_index" else nm "vertex_indices", ct, it), 2)] (-1) bufs
      (putCount e tct (fc.uv.length : Nat) ++ ((fc.uv.map (putItemF c e tit)).flatten ++ (putCount e ct (fc.verts.length : Nat) ++ (idxPayload e it fc.verts ++ rest))))
    have h1 := go_tex c e ⟨some 2, some 1⟩ 1 (by simp) rfl (nm "texcoord") tct tit htct htit fc.uv hu8 hun [((if short then nm "vertex_index" else nm "vertex_indices", ct, it), 2)] (-1) bufs
      (putCount e ct (fc.verts.length : Nat) ++ (idxPayload e it fc.verts ++ rest))
    have h2 := go_idx c e ⟨some 2, some 1⟩ 2 rfl (by simp) (if short then nm "vertex_index" else nm "vertex_indices") ct it hct hit fc.verts hv h8 hn [] (-1) (afterTex c tit fc.uv bufs)
      rest
    have hall := ((h0).trans h1).trans h2
    simpa [readFaceBin, lpOf, SpecFaceElem.lists, idxPosT, texPosT, List.zipIdx, faceListBin, idxPayload, List.append_assoc,
      readFaceBin.go, afterRef, afterTex, afterFaceT, h4, h8u] using hall

theorem overwrite_length {β : Type} (buf src : List β) (h : src.length ≤ buf.length) :
    (overwrite buf src).length = buf.length := by
  simp only [overwrite, List.length_append, List.length_drop]; omega

theorem afterFaceT_ok (c : Coding α) (it : SType) (fc : SpecFace α) (b : FaceBufs α) (hb : BufsOk b)
    (h4 : fc.verts.length ≤ 4) (h8 : fc.uv.length ≤ 8) : BufsOk (afterFaceT c it fc b) := by
  obtain ⟨h1, h2⟩ := hb
  exact ⟨by simp only [afterFaceT]; rw [overwrite_length _ _ (by simpa [h1] using h4)]; exact h1,
    by simp only [afterFaceT]; rw [overwrite_length _ _ (by simpa [h2] using h8)]; exact h2⟩

/-- triangle → its three corners' UVs, quad → the UVs of the corners of (0,1,2), (0,2,3) -/
theorem emitFace_refT (c : Coding α) (it : SType) (fc : SpecFace α) (hv : TriOrQuad fc)
    (huv : fc.uv.length = 2 * fc.verts.length) (b : FaceBufs α) (hb : BufsOk b) :
    emitFace (fc.verts.length : Nat) true (afterFaceT c it fc b) = .ok (fan fc.verts, fanUV (fc.uv.map (imgTex c it))) := by
  obtain ⟨idx, tex⟩ := b
  obtain ⟨hi, ht⟩ := hb
  obtain ⟨verts, uv, extra⟩ := fc
  simp only [TriOrQuad] at hi ht hv huv
  match idx, hi, tex, ht with
  | [a0, a1, a2, a3], _, [t0, t1, t2, t3, t4, t5, t6, t7], _ =>
    rcases hv with h | h
    · match verts, h, uv, huv with
      | [x, y, z], _, [u0, u1, u2, u3, u4, u5], _ => simp [emitFace, afterFaceT, overwrite, fan, fanUV]
    · match verts, h, uv, huv with
      | [x, y, z, w], _, [u0, u1, u2, u3, u4, u5, u6, u7], _ => simp [emitFace, afterFaceT, overwrite, fan, fanUV]

/-- per-corner texture coordinates the file denotes, as the binary reader stores them -/
def texUV (c : Coding α) (it : SType) (faces : List (SpecFace α)) : List (List α) :=
  (faces.map (fun fc => fanUV (fc.uv.map (imgTex c it)))).flatten

theorem fan_fanUV_length (fc : SpecFace α) (hv : TriOrQuad fc) (huv : fc.uv.length = 2 * fc.verts.length) (g : α → α) :
    (fanUV (fc.uv.map g)).length = (fan fc.verts).length := by
  obtain ⟨verts, uv, extra⟩ := fc
  simp only [TriOrQuad] at hv huv
  rcases hv with h | h
  · match verts, h, uv, huv with
    | [x, y, z], _, [u0, u1, u2, u3, u4, u5], _ => rfl
  · match verts, h, uv, huv with
    | [x, y, z, w], _, [u0, u1, u2, u3, u4, u5, u6, u7], _ => rfl

theorem texUV_length (c : Coding α) (it : SType) (fe : SpecFaceElem α) :
    ∀ (faces : List (SpecFace α)), (∀ fc ∈ faces, FaceTexOK fe fc ∧ TriOrQuad fc) →
      (texUV c it faces).length = (fanIdx faces).length := by
  intro faces
  induction faces with
  | nil => intro _; rfl
  | cons fc faces ih =>
    intro h
    have h1 := fan_fanUV_length fc (h fc (by simp)).2 (h fc (by simp)).1.uvLen (imgTex c it)
    have h2 := ih (fun g hg => h g (by simp [hg]))
    simp only [texUV, fanIdx, List.map_cons, List.flatten_cons, List.length_append] at h2 ⊢
    omega

theorem fanIdx_pos (fc : SpecFace α) (faces : List (SpecFace α)) (hv : TriOrQuad fc) : 0 < (fanIdx (fc :: faces)).length := by
  obtain ⟨verts, uv, extra⟩ := fc
  simp only [TriOrQuad] at hv
  rcases hv with h | h
  · match verts, h with
    | [x, y, z], _ => simp [fanIdx, fan]
  · match verts, h with
    | [x, y, z, w], _ => simp [fanIdx, fan]

/-- THE FACE LOOP over textured triangle / quad records -/
theorem readFacesBin_refT (c : Coding α) (e : Endian) (fe : SpecFaceElem α) (tct tit : SType) (htex : fe.tex = some (tct, tit))
    (hct : CountTyOK fe.cntTy) (hit : IndexTyOK fe.idxTy) (htct : CountTyOK tct) (htit : TexTyOK tit) :
    ∀ (faces : List (SpecFace α)), (∀ fc ∈ faces, FaceTexOK fe fc ∧ TriOrQuad fc) → ∀ (b : FaceBufs α), BufsOk b →
      readFacesBin c e (lpOf fe) (findFaceProps (lpOf fe)) faces.length b (faceBytes c e fe faces)
        = .ok (fanIdx faces, texUV c tit faces) := by
  intro faces
  induction faces with
  | nil => intro _ b _; simp [readFacesBin, faceBytes, fanIdx, texUV]
  | cons fc faces ih =>
    intro hall b hb
    obtain ⟨hok, htq⟩ := hall fc (by simp)
    have h4 : fc.verts.length ≤ 4 := by rcases htq with h | h <;> omega
    have h8 : fc.uv.length ≤ 8 := by have := hok.uvLen; omega
    have h1 := readFaceBin_refT c e fe tct tit htex hct hit htct htit fc hok.toFaceEncOK h4 h8 b (faceBytes c e fe faces)
    have h2 := emitFace_refT c tit fc htq hok.uvLen b hb
    have h3 := ih (fun g hg => hall g (by simp [hg])) (afterFaceT c tit fc b) (afterFaceT_ok c tit fc b hb h4 h8)
    have hT : (findFaceProps (lpOf fe)).texProp.isSome = true := by rw [findFaceProps_refT fe _ htex]; rfl
    have hbytes : faceBytes c e fe (fc :: faces) = (fe.lists.map (faceListBin c e fc)).flatten ++ faceBytes c e fe faces := by
      simp [faceBytes]
    rw [hbytes]
    simp only [List.length_cons, readFacesBin, h1, bind, Except.bind, hT, h2, h3]
    simp [fanIdx, texUV, pure, Except.pure]

end PlyFacesTex
end PolyVerif
