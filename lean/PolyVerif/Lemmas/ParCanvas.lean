/-
  C10 — lemmas for the block-job model (Model/ParCanvas.lean): read-modify-write logs over distinct cells commute;
  the cells touched by all jobs of one AddField call are pairwise distinct.  Core Lean only.
-/
import PolyVerif.Model.ParCanvas
import PolyVerif.Lemmas.Par

namespace PolyVerif.Par

/-! ### updates -/

theorem upd_comm {κ α : Type} [DecidableEq κ] (m : κ → α) (a b : κ × (α → α)) (h : a.1 ≠ b.1) :
    upd (upd m a) b = upd (upd m b) a := by
  funext j
  unfold upd
  have hba : b.1 ≠ a.1 := fun e => h e.symm
  by_cases h1 : j = b.1 <;> by_cases h2 : j = a.1
  · exact absurd (h2.symm.trans h1) h
  · simp [h1, hba]
  · simp [h2, h]
  · simp [h1, h2]

theorem runUpd_perm {κ α : Type} [DecidableEq κ] {s t : List (κ × (α → α))} (hp : s.Perm t) :
    (s.map Prod.fst).Nodup → ∀ m : κ → α, runUpd m s = runUpd m t := by
  induction hp with
  | nil => intro _ _; rfl
  | cons x _ ih =>
    intro hn m
    simp only [List.map_cons, List.nodup_cons] at hn
    exact ih hn.2 (upd m x)
  | swap x y l =>
    intro hn m
    simp only [List.map_cons, List.nodup_cons, List.mem_cons, not_or] at hn
    show runUpd (upd (upd m y) x) l = runUpd (upd (upd m x) y) l
    rw [upd_comm m y x (fun h => hn.1.1 h)]
  | trans h1 _ ih1 ih2 =>
    intro hn m
    rw [ih1 hn m]
    exact ih2 ((h1.map Prod.fst).nodup_iff.mp hn) m

/-- read-modify-write logs that touch pairwise different cells: every interleaving gives the memory of "job after job" -/
theorem updates_irrelevant {κ α : Type} [DecidableEq κ] (logs : List (List (κ × (α → α))))
    (hd : (logs.flatten.map Prod.fst).Nodup) (m : κ → α) (s : List (κ × (α → α))) (hs : Interleaving logs s) :
    runUpd m s = runUpd m logs.flatten := by
  have hp := hs.perm
  exact runUpd_perm hp ((hp.map Prod.fst).nodup_iff.mpr hd) m

theorem runUpd_not_mem {κ α : Type} [DecidableEq κ] : ∀ (s : List (κ × (α → α))) (m : κ → α) (k : κ),
    k ∉ s.map Prod.fst → runUpd m s k = m k
  | [], _, _, _ => rfl
  | e :: t, m, k, h => by
    simp only [List.map_cons, List.mem_cons, not_or] at h
    show runUpd (upd m e) t k = m k
    rw [runUpd_not_mem t _ k h.2]
    simp [upd, h.1]

theorem runUpd_of_mem {κ α : Type} [DecidableEq κ] : ∀ (s : List (κ × (α → α))) (m : κ → α) (k : κ) (u : α → α),
    (s.map Prod.fst).Nodup → (k, u) ∈ s → runUpd m s k = u (m k)
  | [], _, _, _, _, h => by simp at h
  | e :: t, m, k, u, hn, h => by
    simp only [List.map_cons, List.nodup_cons] at hn
    show runUpd (upd m e) t k = u (m k)
    rcases List.mem_cons.mp h with rfl | h
    · rw [runUpd_not_mem t _ _ hn.1]; simp [upd]
    · rw [runUpd_of_mem t _ k u hn.2 h]
      have : k ≠ e.1 := fun hk => hn.1 (hk ▸ List.mem_map_of_mem (f := Prod.fst) h)
      simp [upd, this]

/-! ### Nodup of nested loops -/

theorem mem_intRange {lo hi x : Int} : x ∈ intRange lo hi ↔ lo ≤ x ∧ x < hi := by
  unfold intRange
  simp only [List.mem_map, List.mem_range]
  constructor
  · rintro ⟨k, hk, rfl⟩; omega
  · intro h; exact ⟨(x - lo).toNat, by omega, by omega⟩

theorem nodup_map_of_inj {A B : Type} {l : List A} {f : A → B} (hl : l.Nodup)
    (hinj : ∀ a ∈ l, ∀ a' ∈ l, f a = f a' → a = a') : (l.map f).Nodup := by
  unfold List.Nodup at *
  rw [List.pairwise_map]
  exact hl.imp_of_mem (fun ha hb hne h => hne (hinj _ ha _ hb h))

theorem nodup_intRange (lo hi : Int) : (intRange lo hi).Nodup := by
  unfold intRange
  exact nodup_map_of_inj List.nodup_range (fun a _ a' _ h => by omega)

theorem nodup_flatMap_of {A B : Type} {l : List A} {f : A → List B} (hl : l.Nodup) (hf : ∀ a ∈ l, (f a).Nodup)
    (hd : ∀ a ∈ l, ∀ a' ∈ l, a ≠ a' → ∀ x ∈ f a, ∀ y ∈ f a', x ≠ y) : (l.flatMap f).Nodup := by
  unfold List.Nodup at *
  rw [List.pairwise_flatMap]
  exact ⟨hf, hl.imp_of_mem (fun ha hb hne => hd _ ha _ hb hne)⟩

/-! ### the cells of one AddField call -/

/-- what the disjointness proof needs from one axis -/
structure AxisOK (A : AxisFns) : Prop where
  chunks_nodup : ∀ lo hi, (A.chunks lo hi).Nodup
  loc_bound : ∀ c lo hi x, x ∈ A.range c lo hi → 0 ≤ A.loc x c ∧ A.loc x c < 100
  loc_inj : ∀ c x x', A.loc x c = A.loc x' c → x = x'

structure FieldOK (F : FieldFns) : Prop where
  X : AxisOK F.X
  Y : AxisOK F.Y
  Z : AxisOK F.Z
  index_inj : ∀ x y z x' y' z', 0 ≤ x ∧ x < 100 → 0 ≤ y ∧ y < 100 → 0 ≤ z ∧ z < 100 →
    0 ≤ x' ∧ x' < 100 → 0 ≤ y' ∧ y' < 100 → 0 ≤ z' ∧ z' < 100 →
    F.index x y z = F.index x' y' z' → x = x' ∧ y = y' ∧ z = z'

theorem blocks_nodup {F : FieldFns} (h : FieldOK F) (d : Dom) : (F.blocks d).Nodup := by
  unfold FieldFns.blocks
  apply nodup_flatMap_of (h.X.chunks_nodup _ _)
  · intro cx _
    apply nodup_flatMap_of (h.Y.chunks_nodup _ _)
    · intro cy _
      exact nodup_map_of_inj (h.Z.chunks_nodup _ _) (fun a _ a' _ e => by simpa using e)
    · intro cy _ cy' _ hne p hp q hq e
      simp only [List.mem_map] at hp hq
      obtain ⟨_, _, rfl⟩ := hp; obtain ⟨_, _, rfl⟩ := hq
      simp only [Prod.mk.injEq] at e
      exact hne e.2.1
  · intro cx _ cx' _ hne p hp q hq e
    simp only [List.mem_flatMap, List.mem_map] at hp hq
    obtain ⟨_, _, _, _, rfl⟩ := hp; obtain ⟨_, _, _, _, rfl⟩ := hq
    simp only [Prod.mk.injEq] at e
    exact hne e.1

/-- the cells of one job are pairwise different (and so are the cells of different jobs: they lie in different blocks) -/
theorem jobCells_keys {F : FieldFns} (h : FieldOK F) (d : Dom) (b : Block) :
    ((F.jobCells d b).map (fun e => e.1)).Nodup ∧ ∀ e ∈ F.jobCells d b, e.1.1 = b := by
  constructor
  · unfold FieldFns.jobCells
    rw [List.map_flatMap]
    have key : ∀ z ∈ F.Z.range b.2.2 d.loZ d.hiZ, ∀ y ∈ F.Y.range b.2.1 d.loY d.hiY, ∀ x ∈ F.X.range b.1 d.loX d.hiX,
        ∀ z' ∈ F.Z.range b.2.2 d.loZ d.hiZ, ∀ y' ∈ F.Y.range b.2.1 d.loY d.hiY, ∀ x' ∈ F.X.range b.1 d.loX d.hiX,
        F.index (F.X.loc x b.1) (F.Y.loc y b.2.1) (F.Z.loc z b.2.2) = F.index (F.X.loc x' b.1) (F.Y.loc y' b.2.1) (F.Z.loc z' b.2.2) →
        x = x' ∧ y = y' ∧ z = z' := by
      intro z hz y hy x hx z' hz' y' hy' x' hx' e
      have := h.index_inj _ _ _ _ _ _ (h.X.loc_bound _ _ _ _ hx) (h.Y.loc_bound _ _ _ _ hy) (h.Z.loc_bound _ _ _ _ hz)
        (h.X.loc_bound _ _ _ _ hx') (h.Y.loc_bound _ _ _ _ hy') (h.Z.loc_bound _ _ _ _ hz') e
      exact ⟨h.X.loc_inj _ _ _ this.1, h.Y.loc_inj _ _ _ this.2.1, h.Z.loc_inj _ _ _ this.2.2⟩
    apply nodup_flatMap_of (nodup_intRange _ _)
    · intro z hz
      rw [List.map_flatMap]
      apply nodup_flatMap_of (nodup_intRange _ _)
      · intro y hy
        rw [List.map_map]
        apply nodup_map_of_inj (nodup_intRange _ _)
        intro x hx x' hx' e
        simp only [Function.comp, Prod.mk.injEq, true_and] at e
        exact (key z hz y hy x hx z hz y hy x' hx' e).1
      · intro y hy y' hy' hne p hp q hq e
        simp only [List.mem_map] at hp hq
        obtain ⟨_, ⟨x, hx, rfl⟩, rfl⟩ := hp
        obtain ⟨_, ⟨x', hx', rfl⟩, rfl⟩ := hq
        simp only [Prod.mk.injEq, true_and] at e
        exact hne (key z hz y hy x hx z hz y' hy' x' hx' e).2.1
    · intro z hz z' hz' hne p hp q hq e
      simp only [List.mem_map, List.mem_flatMap] at hp hq
      obtain ⟨_, ⟨y, hy, x, hx, rfl⟩, rfl⟩ := hp
      obtain ⟨_, ⟨y', hy', x', hx', rfl⟩, rfl⟩ := hq
      simp only [Prod.mk.injEq, true_and] at e
      exact hne (key z hz y hy x hx z' hz' y' hy' x' hx' e).2.2
  · intro e he
    unfold FieldFns.jobCells at he
    simp only [List.mem_flatMap, List.mem_map] at he
    obtain ⟨_, _, _, _, _, _, rfl⟩ := he
    rfl

/-- all cells touched by one AddField call (all jobs) are pairwise different -/
theorem all_keys_nodup {α : Type} {F : FieldFns} (h : FieldOK F) (d : Dom) (g : Int → Int → Int → α → α) :
    ((((F.blocks d).map (F.jobLog d g)).flatten).map Prod.fst).Nodup := by
  rw [← List.flatMap_def, List.map_flatMap]
  apply nodup_flatMap_of (blocks_nodup h d)
  · intro b _
    unfold FieldFns.jobLog
    rw [List.map_map]
    exact (jobCells_keys h d b).1
  · intro b _ b' _ hne k hk k' hk' e
    unfold FieldFns.jobLog at hk hk'
    simp only [List.mem_map] at hk hk'
    obtain ⟨_, ⟨c, hc, rfl⟩, rfl⟩ := hk
    obtain ⟨_, ⟨c', hc', rfl⟩, rfl⟩ := hk'
    have h1 := (jobCells_keys h d b).2 c hc
    have h2 := (jobCells_keys h d b').2 c' hc'
    simp only at e
    exact hne (h1.symm.trans ((congrArg Prod.fst e).trans h2))

end PolyVerif.Par
