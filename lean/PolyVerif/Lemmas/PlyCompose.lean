/-
  Composition lemmas for C04 / C08: the reader model `readBody` run on a binary body, stage by stage
  (vertex loop → face loop → mesh assembly).  Core Lean only.
-/
import PolyVerif.Model.Ply
import PolyVerif.Model.PlySpec
import PolyVerif.Lemmas.Ply

namespace PolyVerif
namespace PlyCompose
open Ply PlyLemmas

variable {α : Type}

/-! ## `readBody` for the binary encodings, unfolded into its stages -/

/-- mesh assembly: `NewMesh(topo, indices)`, `UpdateMesh` of every built reader, unweld when per-corner UVs were read -/
def assemble (built : List Built) (nv : Nat) (rows : List (List (List α)))
    (idxUv : Option (List Int × List (List α))) : R (MeshVal α) :=
  let (topo, indices, uvs) := match idxUv with
    | none => (Topo.point, (List.range nv).map Int.ofNat, ([] : List (List α)))
    | some (idx, uvs) => (Topo.triangle, idx, uvs)
  let mesh := applyColumns ⟨topo, indices, [], none⟩ built rows
  if 0 < uvs.length ∧ uvs.length = indices.length then do
    let u ← unweld mesh
    pure (u.set 2 texCoordAttr uvs)
  else pure mesh

/-- the face stage of a binary body -/
def faceStageBin (c : Coding α) (e : Endian) (fe : Option Element) (rest : Bytes) :
    R (Option (List Int × List (List α))) :=
  match fe with
  | none => .ok none
  | some f =>
    match listProps f.props with
    | none => .error .err
    | some lp =>
      if (findFaceProps lp).idxProp.isNone then .error .err else do
        let r ← readFacesBin c e lp (findFaceProps lp) f.count.toNat ⟨[0, 0, 0, 0], List.replicate 8 (c.ofInt 0)⟩ rest
        pure (some r)

theorem readBody_bin (c : Coding α) (cfg : ReaderCfg) (hdr : Header) (body : Bytes) (ve : Element)
    (ps : List (Bytes × SType)) (hfmt : hdr.format ≠ .ascii)
    (hve : findElement hdr cfg.attributeElement = some ve) (hps : scalarProps ve.props = some ps)
    (hcount : 0 ≤ ve.count) :
    readBody c cfg hdr body = (do
      let built := buildAll true ps cfg.props cfg.loadUnspecified
      let (rows, rest) ← readVertsBin c hdr.format.endian ((ps.map (fun p => p.2.size)).sum) built ve.count.toNat body
      let idxUv ← faceStageBin c hdr.format.endian (findElement hdr (nm "face")) rest
      assemble built ve.count.toNat rows idxUv) := by
  have hneg : ¬ (ve.count < 0) := by omega
  simp only [readBody, hve, hps, hneg, false_and, if_false]
  have hb : (decide (hdr.format ≠ Format.ascii)) = true := by simp [hfmt]
  cases hf : hdr.format with
  | ascii => exact absurd hf hfmt
  | le =>
    simp only [hf] at hb ⊢
    simp only [hb]
    cases readVertsBin c Format.le.endian ((ps.map (fun p => p.2.size)).sum) (buildAll true ps cfg.props cfg.loadUnspecified) ve.count.toNat body with
    | error e => rfl
    | ok rr =>
      obtain ⟨rows, rest⟩ := rr
      simp only [bind, Except.bind, faceStageBin]
      cases findElement hdr (nm "face") with
      | none => rfl
      | some f =>
        simp only []
        cases listProps f.props with
        | none => rfl
        | some lp =>
          simp only []
          by_cases hidx : (findFaceProps lp).idxProp.isNone = true
          · simp only [hidx, if_true]
          · simp only [hidx, if_false, Bool.false_eq_true]
            cases readFacesBin c Format.le.endian lp (findFaceProps lp) f.count.toNat ⟨[0, 0, 0, 0], List.replicate 8 (c.ofInt 0)⟩ rest <;> rfl
  | be =>
    simp only [hf] at hb ⊢
    simp only [hb]
    cases readVertsBin c Format.be.endian ((ps.map (fun p => p.2.size)).sum) (buildAll true ps cfg.props cfg.loadUnspecified) ve.count.toNat body with
    | error e => rfl
    | ok rr =>
      obtain ⟨rows, rest⟩ := rr
      simp only [bind, Except.bind, faceStageBin]
      cases findElement hdr (nm "face") with
      | none => rfl
      | some f =>
        simp only []
        cases listProps f.props with
        | none => rfl
        | some lp =>
          simp only []
          by_cases hidx : (findFaceProps lp).idxProp.isNone = true
          · simp only [hidx, if_true]
          · simp only [hidx, if_false, Bool.false_eq_true]
            cases readFacesBin c Format.be.endian lp (findFaceProps lp) f.count.toNat ⟨[0, 0, 0, 0], List.replicate 8 (c.ofInt 0)⟩ rest <;> rfl


/-! ## the header `MeshWriter.Write` builds, as the reader sees it -/

/-- the vertex properties of the written header: names and types in header order -/
def headerProps (ws : List WProp) : List (Bytes × SType) := (ws.map (fun w => w.names.map (fun n => (n, w.ty)))).flatten

theorem scalarProps_headerProps (ws : List WProp) :
    scalarProps ((ws.map WProp.props).flatten) = some (headerProps ws) := by
  induction ws with
  | nil => simp [scalarProps, headerProps]
  | cons w ws ih =>
    have := scalarProps_append _ _ _ _ (scalarProps_wprop w) ih
    simpa [headerProps] using this

theorem headerProps_types (ws : List WProp) : (headerProps ws).map (·.2) = writerTypes ws := by
  induction ws with
  | nil => simp [headerProps, writerTypes]
  | cons w ws ih =>
    simp only [headerProps, writerTypes, List.map_cons, List.flatten_cons, List.map_append] at ih ⊢
    rw [ih]; simp [Function.comp_def]

theorem findElement_vertex (cfg : WriterCfg) (m : MeshVal α) :
    findElement (writeHeader cfg m) (nm "vertex")
      = some ⟨nm "vertex", m.attrLen, ((selectWriters cfg m).map WProp.props).flatten⟩ := by
  have h1 : (nm "face" = nm "vertex") = False := by simp; decide
  by_cases htri : m.topo = .triangle <;> simp [findElement, writeHeader, htri, h1]

theorem findElement_face (cfg : WriterCfg) (m : MeshVal α) :
    findElement (writeHeader cfg m) (nm "face")
      = if m.topo = .triangle then some ⟨nm "face", triCount m, faceProps m⟩ else none := by
  have h1 : (nm "vertex" = nm "face") = False := by simp; decide
  by_cases htri : m.topo = .triangle <;> simp [findElement, writeHeader, htri, h1]

/-! ## the vertex block the library writer emits, under the reader's vertex loop -/

/-- what the located readers produce for one written record: for each reader the stored-precision image of the values
at its components' header positions -/
def rowOfW (c : Coding α) (tys : List SType) (bl : List (Built × List Nat)) (vals : List α) : List (List α) :=
  bl.map (fun p => p.2.filterMap (fun i =>
    match tys[i]?, vals[i]? with
    | some t, some v => some (quantBin c p.1.names.length t v)
    | _, _ => none))

theorem readBin_located_w (c : Coding α) (e : Endian) (tys : List SType) (b : Built) (idxs : List Nat)
    (hl : Located tys b idxs) (vals : List α) (hv : vals.length = tys.length) (rec : Bytes)
    (henc : encRecordBin c e tys vals = .ok rec) (post : Bytes) :
    b.readBin c e (rec ++ post) = .ok (idxs.filterMap (fun i =>
      match tys[i]?, vals[i]? with
      | some t, some v => some (quantBin c b.names.length t v)
      | _, _ => none)) := by
  obtain ⟨t, hty, hidx⟩ := hl.ty
  simp only [Built.readBin, hty, hl.offs]
  clear hl
  induction idxs with
  | nil => simp [pure, Except.pure]
  | cons i idxs ih =>
    obtain ⟨hi, hti⟩ := hidx i (by simp)
    have hi' : i < vals.length := by omega
    have hf := field_at_offset c e b.names.length tys vals rec [] post i hi hv henc
    simp only [List.nil_append, List.length_nil, Nat.zero_add, hti] at hf
    have ih' := ih (fun j hj => hidx j (by simp [hj]))
    simp [List.mapM_cons, hf, ih', bind, Except.bind, pure, Except.pure, List.getElem?_eq_getElem hi',
      List.getElem?_eq_getElem hi, hti]

theorem writer_vertex_block (c : Coding α) (e : Endian) (tys : List SType) (bl : List (Built × List Nat))
    (hbl : ∀ p ∈ bl, Located tys p.1 p.2) :
    ∀ (recs : List (List α)) (encs : List Bytes) (rest : Bytes),
      All2 (fun vals rec => encRecordBin c e tys vals = .ok rec) recs encs →
      (∀ vals ∈ recs, vals.length = tys.length) →
      readVertsBin c e ((tys.map SType.size).sum) (bl.map (·.1)) recs.length (encs.flatten ++ rest)
        = .ok (recs.map (rowOfW c tys bl), rest) := by
  intro recs encs rest hall
  induction hall with
  | nil => intro _; simp [readVertsBin]
  | @cons vals rec recs encs hxy _ ih =>
    intro hlen
    have hv := hlen vals (by simp)
    have hrl : rec.length = (tys.map SType.size).sum := encRecordBin_length c e tys vals rec hv hxy
    have hrow : (bl.map (·.1)).mapM (fun b => b.readBin c e ((rec ++ (encs.flatten ++ rest)).take ((tys.map SType.size).sum)))
        = .ok (rowOfW c tys bl vals) := by
      rw [List.take_left' hrl]
      clear ih
      induction bl with
      | nil => simp [rowOfW, pure, Except.pure]
      | cons p bl ihb =>
        have h1 := readBin_located_w c e tys p.1 p.2 (hbl p (by simp)) vals hv rec hxy []
        simp only [List.append_nil] at h1
        have h2 := ihb (fun q hq => hbl q (by simp [hq]))
        simp only [rowOfW] at h2 ⊢
        simp [List.mapM_cons, h1, h2, bind, Except.bind, pure, Except.pure]
    have ih' := ih (fun v hv' => hlen v (by simp [hv']))
    simp only [List.map_cons, List.flatten_cons, List.length_cons, readVertsBin, List.append_assoc]
    have hnot : ¬ ((rec ++ (encs.flatten ++ rest)).length < (tys.map SType.size).sum) := by simp [hrl]
    simp only [hnot, if_false, hrow, bind, Except.bind]
    rw [List.drop_left' hrl, ih']
    simp [pure, Except.pure]


/-! ## what `writeBody` emits, as data -/

/-- the pieces of a binary body: the vertex records (values and bytes) and the face bytes -/
theorem writeBody_bin_parts (c : Coding α) (cfg : WriterCfg) (m : MeshVal α) (body : Bytes)
    (hf : cfg.format ≠ .ascii) (h : writeBody c cfg m = .ok body) :
    ∃ (recs : List (List α)) (vbytes : List Bytes) (faceBytes : Bytes),
      (List.range m.attrLen).mapM (vertexRecord m (selectWriters cfg m)) = .ok recs ∧
      All2 (fun vals rec => encRecordBin c cfg.format.endian (writerTypes (selectWriters cfg m)) vals = .ok rec) recs vbytes ∧
      body = vbytes.flatten ++ faceBytes ∧
      (m.topo ≠ .triangle → faceBytes = []) ∧
      (m.topo = .triangle → ∃ tris fs, chunk3 m.indices = some tris ∧ faceRecords m tris = .ok fs ∧
        faceBytes = (fs.map (encFaceBin c cfg.format.endian)).flatten) := by
  obtain ⟨_, h⟩ := writeBody_core_of_ok c cfg m body h
  simp only [writeBodyCore] at h
  cases hrecs : (List.range m.attrLen).mapM (vertexRecord m (selectWriters cfg m)) with
  | error e => simp [hrecs, bind, Except.bind] at h
  | ok recs =>
    simp only [hrecs, bind, Except.bind] at h
    cases hfmt : cfg.format with
    | ascii => exact absurd hfmt hf
    | le =>
      simp only [hfmt] at h
      cases hv : recs.mapM (fun r => encRecordBin c Format.le.endian (writerTypes (selectWriters cfg m)) r) with
      | error e => simp [hv] at h
      | ok vbytes =>
        simp only [hv] at h
        have hall := mapM_ok_forall₂ _ _ _ hv
        by_cases htri : m.topo = .triangle
        · simp only [htri, ne_eq, not_true_eq_false, if_false] at h
          cases hc : chunk3 m.indices with
          | none => simp [hc] at h
          | some tris =>
            simp only [hc] at h
            cases hfs : faceRecords m tris with
            | error e => simp [hfs] at h
            | ok fs =>
              simp [hfs, pure, Except.pure] at h
              exact ⟨recs, vbytes, _, rfl, hall, h.symm, fun hne => absurd htri hne, fun _ => ⟨tris, fs, rfl, hfs, rfl⟩⟩
        · simp [htri, pure, Except.pure] at h
          exact ⟨recs, vbytes, [], rfl, hall, by simp [h], fun _ => rfl, fun ht => absurd ht htri⟩
    | be =>
      simp only [hfmt] at h
      cases hv : recs.mapM (fun r => encRecordBin c Format.be.endian (writerTypes (selectWriters cfg m)) r) with
      | error e => simp [hv] at h
      | ok vbytes =>
        simp only [hv] at h
        have hall := mapM_ok_forall₂ _ _ _ hv
        by_cases htri : m.topo = .triangle
        · simp only [htri, ne_eq, not_true_eq_false, if_false] at h
          cases hc : chunk3 m.indices with
          | none => simp [hc] at h
          | some tris =>
            simp only [hc] at h
            cases hfs : faceRecords m tris with
            | error e => simp [hfs] at h
            | ok fs =>
              simp [hfs, pure, Except.pure] at h
              exact ⟨recs, vbytes, _, rfl, hall, h.symm, fun hne => absurd htri hne, fun _ => ⟨tris, fs, rfl, hfs, rfl⟩⟩
        · simp [htri, pure, Except.pure] at h
          exact ⟨recs, vbytes, [], rfl, hall, by simp [h], fun _ => rfl, fun ht => absurd ht htri⟩

/-- STAGE 1 (vertex loop) of reading back a written binary body: the reader's vertex loop, run with ANY located readers,
yields for every vertex the stored-precision image of exactly the components each reader claims, and leaves exactly
the face bytes; the rest of `readBody` is the face stage and the mesh assembly -/
theorem readBody_writeBody_vertex (c : Coding α) (cfg : WriterCfg) (m : MeshVal α) (body : Bytes)
    (hf : cfg.format ≠ .ascii) (hwf : m.WF = true) (h : writeBody c cfg m = .ok body)
    (bl : List (Built × List Nat))
    (hbuilt : bl.map (·.1) = buildAll true (headerProps (selectWriters cfg m)) defaultReaders true)
    (hloc : ∀ p ∈ bl, Located (writerTypes (selectWriters cfg m)) p.1 p.2) :
    ∃ (recs : List (List α)) (vbytes : List Bytes) (faceBytes : Bytes),
      (List.range m.attrLen).mapM (vertexRecord m (selectWriters cfg m)) = .ok recs ∧
      body = vbytes.flatten ++ faceBytes ∧
      (m.topo ≠ .triangle → faceBytes = []) ∧
      (m.topo = .triangle → ∃ tris fs, chunk3 m.indices = some tris ∧ faceRecords m tris = .ok fs ∧
        faceBytes = (fs.map (encFaceBin c cfg.format.endian)).flatten) ∧
      readBody c defaultReader (writeHeader cfg m) body = (do
        let idxUv ← faceStageBin c cfg.format.endian (findElement (writeHeader cfg m) (nm "face")) faceBytes
        assemble (bl.map (·.1)) m.attrLen (recs.map (rowOfW c (writerTypes (selectWriters cfg m)) bl)) idxUv) := by
  obtain ⟨recs, vbytes, faceBytes, hrecs, hall, hbody, hpt, htri⟩ := writeBody_bin_parts c cfg m body hf h
  refine ⟨recs, vbytes, faceBytes, hrecs, hbody, hpt, htri, ?_⟩
  have hfmt : (writeHeader cfg m).format = cfg.format := rfl
  have hve : findElement (writeHeader cfg m) defaultReader.attributeElement
      = some ⟨nm "vertex", m.attrLen, ((selectWriters cfg m).map WProp.props).flatten⟩ := findElement_vertex cfg m
  rw [readBody_bin c defaultReader (writeHeader cfg m) body _ (headerProps (selectWriters cfg m)) (by rw [hfmt]; exact hf)
    hve (scalarProps_headerProps _) (by simp)]
  have hrl := (mapM_ok_forall₂ _ _ _ hrecs)
  have hlen : recs.length = m.attrLen := by simpa using hrl.length_eq
  have hvl : ∀ vals ∈ recs, vals.length = (writerTypes (selectWriters cfg m)).length :=
    All2.forall_right (Q := fun r => r.length = (writerTypes (selectWriters cfg m)).length)
      (fun i r hir => vertexRecord_length m hwf i _ r hir) hrl
  have hsum : ((headerProps (selectWriters cfg m)).map (fun p => p.2.size)).sum
      = ((writerTypes (selectWriters cfg m)).map SType.size).sum := by
    rw [← headerProps_types]; simp [Function.comp_def]
  have hvb := writer_vertex_block c cfg.format.endian _ bl hloc recs vbytes faceBytes hall hvl
  simp only [hfmt, hsum, Int.toNat_natCast, ← hlen, hbody]
  simp only [defaultReader, ← hbuilt, hvb, bind, Except.bind]

/-! ## the face records the library writer emits, under the reader's face loop -/

theorem put32_bytes (e : Endian) (w : UInt32) : ∃ b0 b1 b2 b3, put32 e w = [b0, b1, b2, b3] := by
  cases e <;> exact ⟨_, _, _, _, rfl⟩

theorem get32_of_put (e : Endian) (w : UInt32) (b0 b1 b2 b3 : UInt8) (l : Bytes) (h : put32 e w = [b0, b1, b2, b3]) :
    get32 e (b0 :: b1 :: b2 :: b3 :: l) = some w := by
  have := put32_get32 e w l
  rwa [h] at this

/-- reading one `list uchar int` property holding three indices -/
theorem readListBin_tri (e : Endian) (a b c' : UInt32) (rest : Bytes) :
    readListBin e .uchar .int (3 :: (put32 e a ++ (put32 e b ++ (put32 e c' ++ rest))))
      = .ok (3, put32 e a ++ (put32 e b ++ put32 e c'), rest) := by
  obtain ⟨a0, a1, a2, a3, ha⟩ := put32_bytes e a
  obtain ⟨b0, b1, b2, b3, hb⟩ := put32_bytes e b
  obtain ⟨c0, c1, c2, c3, hc⟩ := put32_bytes e c'
  rw [ha, hb, hc]
  simp [readListBin, bind, Except.bind, SType.size, pure, Except.pure]

theorem listIntsBin_tri (e : Endian) (a b c' : UInt32) :
    listIntsBin e .int 3 (put32 e a ++ (put32 e b ++ put32 e c')) 4 = some [toInt32 a, toInt32 b, toInt32 c'] := by
  obtain ⟨a0, a1, a2, a3, ha⟩ := put32_bytes e a
  obtain ⟨b0, b1, b2, b3, hb⟩ := put32_bytes e b
  obtain ⟨c0, c1, c2, c3, hc⟩ := put32_bytes e c'
  rw [ha, hb, hc]
  simp [listIntsBin, List.range, List.range.loop, List.mapM_cons, get32_of_put e a _ _ _ _ _ ha,
    get32_of_put e b _ _ _ _ _ hb, get32_of_put e c' _ _ _ _ _ hc]


theorem readListBin_uv (e : Endian) (w0 w1 w2 w3 w4 w5 : UInt32) (rest : Bytes) :
    readListBin e .uchar .float (6 :: (put32 e w0 ++ (put32 e w1 ++ (put32 e w2 ++ (put32 e w3 ++ (put32 e w4 ++ (put32 e w5 ++ rest)))))))
      = .ok (6, put32 e w0 ++ (put32 e w1 ++ (put32 e w2 ++ (put32 e w3 ++ (put32 e w4 ++ put32 e w5)))), rest) := by
  obtain ⟨_, _, _, _, h0⟩ := put32_bytes e w0
  obtain ⟨_, _, _, _, h1⟩ := put32_bytes e w1
  obtain ⟨_, _, _, _, h2⟩ := put32_bytes e w2
  obtain ⟨_, _, _, _, h3⟩ := put32_bytes e w3
  obtain ⟨_, _, _, _, h4⟩ := put32_bytes e w4
  obtain ⟨_, _, _, _, h5⟩ := put32_bytes e w5
  rw [h0, h1, h2, h3, h4, h5]
  simp [readListBin, bind, Except.bind, SType.size, pure, Except.pure]

theorem listFloatsBin_uv (c : Coding α) (e : Endian) (w0 w1 w2 w3 w4 w5 : UInt32) :
    listFloatsBin c e .float 6 (put32 e w0 ++ (put32 e w1 ++ (put32 e w2 ++ (put32 e w3 ++ (put32 e w4 ++ put32 e w5))))) 8
      = some [c.unf32 w0, c.unf32 w1, c.unf32 w2, c.unf32 w3, c.unf32 w4, c.unf32 w5] := by
  obtain ⟨_, _, _, _, h0⟩ := put32_bytes e w0
  obtain ⟨_, _, _, _, h1⟩ := put32_bytes e w1
  obtain ⟨_, _, _, _, h2⟩ := put32_bytes e w2
  obtain ⟨_, _, _, _, h3⟩ := put32_bytes e w3
  obtain ⟨_, _, _, _, h4⟩ := put32_bytes e w4
  obtain ⟨_, _, _, _, h5⟩ := put32_bytes e w5
  rw [h0, h1, h2, h3, h4, h5]
  simp [listFloatsBin, List.range, List.range.loop, List.mapM_cons, get32_of_put e w0 _ _ _ _ _ h0,
    get32_of_put e w1 _ _ _ _ _ h1, get32_of_put e w2 _ _ _ _ _ h2, get32_of_put e w3 _ _ _ _ _ h3,
    get32_of_put e w4 _ _ _ _ _ h4, get32_of_put e w5 _ _ _ _ _ h5]

/-- the list properties / scan of the face element the writer declares -/
def wlp (hasTex : Bool) : List (Bytes × SType × SType) :=
  [(nm "vertex_indices", .uchar, .int)] ++ (if hasTex then [(nm "texcoord", .uchar, .float)] else [])

theorem listProps_faceProps (m : MeshVal α) : listProps (faceProps m) = some (wlp (hasTexCoord m)) := by
  cases h : hasTexCoord m <;> simp [faceProps, h, listProps, wlp]

theorem findFaceProps_wlp (hasTex : Bool) :
    findFaceProps (wlp hasTex) = ⟨some 0, if hasTex then some 1 else none⟩ := by
  cases hasTex <;> rfl

/-- what reading one written face record does to the reader's buffers -/
def afterFace (c : Coding α) (f : WFace α) (b : FaceBufs α) : FaceBufs α :=
  { idx := overwrite b.idx [toInt32 (ofInt32 f.idx.1), toInt32 (ofInt32 f.idx.2.1), toInt32 (ofInt32 f.idx.2.2)]
    tex := match f.uv with
      | none => b.tex
      | some uv => overwrite b.tex (uv.map (fun v => c.unf32 (c.f32 v))) }

theorem readFaceBin_written (c : Coding α) (e : Endian) (f : WFace α) (hasTex : Bool)
    (huv : match f.uv with | none => hasTex = false | some uv => hasTex = true ∧ uv.length = 6)
    (b : FaceBufs α) (rest : Bytes) :
    readFaceBin c e (wlp hasTex) ⟨some 0, if hasTex then some 1 else none⟩ b (encFaceBin c e f ++ rest)
      = .ok (3, afterFace c f b, rest) := by
  obtain ⟨⟨i0, i1, i2⟩, uv⟩ := f
  cases uv with
  | none =>
    simp only at huv
    subst huv
    have hr := readListBin_tri e (ofInt32 i0) (ofInt32 i1) (ofInt32 i2) rest
    have hi := listIntsBin_tri e (ofInt32 i0) (ofInt32 i1) (ofInt32 i2)
    simp [readFaceBin, readFaceBin.go, wlp, List.zipIdx, encFaceBin, List.append_assoc, hr, hi, bind, Except.bind,
      afterFace]
  | some uv =>
    simp only at huv
    obtain ⟨hT, hl⟩ := huv
    subst hT
    match uv, hl with
    | [v0, v1, v2, v3, v4, v5], _ =>
      have hr := readListBin_tri e (ofInt32 i0) (ofInt32 i1) (ofInt32 i2)
        (6 :: (put32 e (c.f32 v0) ++ (put32 e (c.f32 v1) ++ (put32 e (c.f32 v2) ++ (put32 e (c.f32 v3) ++ (put32 e (c.f32 v4) ++ (put32 e (c.f32 v5) ++ rest)))))))
      have hi := listIntsBin_tri e (ofInt32 i0) (ofInt32 i1) (ofInt32 i2)
      have hr2 := readListBin_uv e (c.f32 v0) (c.f32 v1) (c.f32 v2) (c.f32 v3) (c.f32 v4) (c.f32 v5) rest
      have hf := listFloatsBin_uv c e (c.f32 v0) (c.f32 v1) (c.f32 v2) (c.f32 v3) (c.f32 v4) (c.f32 v5)
      simp [readFaceBin, readFaceBin.go, wlp, List.zipIdx, encFaceBin, List.append_assoc, hr, hi, hr2, hf, bind, Except.bind,
        afterFace]


def faceIdx (f : WFace α) : List Int :=
  [toInt32 (ofInt32 f.idx.1), toInt32 (ofInt32 f.idx.2.1), toInt32 (ofInt32 f.idx.2.2)]

/-- the per-corner UVs the reader emits for a written face: float32 images of the three corners' coordinates -/
def faceUV (c : Coding α) (f : WFace α) : List (List α) :=
  match f.uv with
  | none => []
  | some uv =>
    let q := uv.map (fun v => c.unf32 (c.f32 v))
    [q.take 2, (q.drop 2).take 2, (q.drop 4).take 2]

def BufsOk (b : FaceBufs α) : Prop := b.idx.length = 4 ∧ b.tex.length = 8

def UvOk (hasTex : Bool) (f : WFace α) : Prop :=
  match f.uv with | none => hasTex = false | some uv => hasTex = true ∧ uv.length = 6

theorem emitFace_after (c : Coding α) (f : WFace α) (hasTex : Bool) (huv : UvOk hasTex f) (b : FaceBufs α) (hb : BufsOk b) :
    emitFace 3 hasTex (afterFace c f b) = .ok (faceIdx f, faceUV c f) ∧ BufsOk (afterFace c f b) := by
  obtain ⟨⟨i0, i1, i2⟩, uv⟩ := f
  obtain ⟨idx, tex⟩ := b
  obtain ⟨hi, ht⟩ := hb
  simp only at hi ht
  match idx, hi, tex, ht with
  | [a0, a1, a2, a3], _, [t0, t1, t2, t3, t4, t5, t6, t7], _ =>
    cases uv with
    | none =>
      simp only [UvOk] at huv
      subst huv
      simp [emitFace, afterFace, overwrite, faceIdx, faceUV, BufsOk]
    | some uv =>
      simp only [UvOk] at huv
      obtain ⟨hT, hl⟩ := huv
      subst hT
      match uv, hl with
      | [v0, v1, v2, v3, v4, v5], _ =>
        simp [emitFace, afterFace, overwrite, faceIdx, faceUV, BufsOk]

/-- STAGE 2 (face loop) on the face records the writer emits: three indices per face (as written: `int32(uint32(i))`)
and, with `texcoord`, the float32 images of the three corners' coordinates; nothing is left over -/
theorem readFacesBin_written (c : Coding α) (e : Endian) (hasTex : Bool) :
    ∀ (fs : List (WFace α)) (b : FaceBufs α), BufsOk b → (∀ f ∈ fs, UvOk hasTex f) → ∀ (rest : Bytes),
      readFacesBin c e (wlp hasTex) ⟨some 0, if hasTex then some 1 else none⟩ fs.length b
          ((fs.map (encFaceBin c e)).flatten ++ rest)
        = .ok ((fs.map faceIdx).flatten, (fs.map (faceUV c)).flatten) := by
  intro fs
  induction fs with
  | nil => intro b _ _ rest; simp [readFacesBin]
  | cons f fs ih =>
    intro b hb huv rest
    have h1 := readFaceBin_written c e f hasTex (huv f (by simp)) b ((fs.map (encFaceBin c e)).flatten ++ rest)
    obtain ⟨h2, hb'⟩ := emitFace_after c f hasTex (huv f (by simp)) b hb
    have h3 := ih (afterFace c f b) hb' (fun g hg => huv g (by simp [hg])) rest
    have hT : (if hasTex then some 1 else (none : Option Nat)).isSome = hasTex := by cases hasTex <;> rfl
    simp only [List.map_cons, List.flatten_cons, List.length_cons, readFacesBin, List.append_assoc, h1, bind, Except.bind,
      hT, h2, h3, pure, Except.pure]


theorem chunk3_flatten : ∀ (l : List Int) (tris : List (Int × Int × Int)), chunk3 l = some tris →
    l = (tris.map (fun t => [t.1, t.2.1, t.2.2])).flatten
  | [], tris, h => by simp [chunk3] at h; subst h; rfl
  | [_], _, h => by simp [chunk3] at h
  | [_, _], _, h => by simp [chunk3] at h
  | a :: b :: c :: rest, tris, h => by
    simp only [chunk3, Option.map_eq_some_iff] at h
    obtain ⟨t, ht, rfl⟩ := h
    have := chunk3_flatten rest t ht
    simp [← this]

theorem faceRecords_shape (m : MeshVal α) (hwf : m.WF = true) (tris : List (Int × Int × Int)) (fs : List (WFace α))
    (h : faceRecords m tris = .ok fs) :
    fs.map (·.idx) = tris ∧ ∀ f ∈ fs, UvOk (hasTexCoord m) f := by
  simp only [faceRecords] at h
  cases htex : m.find 2 texCoordAttr with
  | none =>
    simp [htex] at h; subst h
    have hT : hasTexCoord m = false := by simp [hasTexCoord, MeshVal.has, htex]
    refine ⟨by simp [Function.comp_def], ?_⟩
    intro f hf
    simp only [List.mem_map] at hf
    obtain ⟨t, _, rfl⟩ := hf
    simp [UvOk, hT]
  | some tex =>
    have hT : hasTexCoord m = true := by simp [hasTexCoord, MeshVal.has, htex]
    simp only [htex] at h
    obtain ⟨hmem, hdim⟩ := find_mem m _ _ tex htex
    have hitem : ∀ x ∈ tex.data, x.length = 2 := fun x hx => by rw [WF_items m hwf tex hmem x hx, hdim]
    have hall := mapM_ok_forall₂ _ tris fs h
    have hone : ∀ (t : Int × Int × Int) (f : WFace α),
        (do let p1 ← atIdx tex.data t.1; let p2 ← atIdx tex.data t.2.1; let p3 ← atIdx tex.data t.2.2
            pure (⟨(t.1, t.2.1, t.2.2), some (p1 ++ p2 ++ p3)⟩ : WFace α)) = .ok f → f.idx = t ∧ UvOk true f := by
      intro t f hxy
      obtain ⟨a, b, c'⟩ := t
      cases h1 : atIdx tex.data a with
      | error e => simp [h1, bind, Except.bind] at hxy
      | ok p1 =>
        cases h2 : atIdx tex.data b with
        | error e => simp [h1, h2, bind, Except.bind] at hxy
        | ok p2 =>
          cases h3 : atIdx tex.data c' with
          | error e => simp [h1, h2, h3, bind, Except.bind] at hxy
          | ok p3 =>
            simp [h1, h2, h3, bind, Except.bind, pure, Except.pure] at hxy
            subst hxy
            have l1 := hitem p1 (atIdx_mem _ _ _ h1)
            have l2 := hitem p2 (atIdx_mem _ _ _ h2)
            have l3 := hitem p3 (atIdx_mem _ _ _ h3)
            exact ⟨rfl, by simp [UvOk, l1, l2, l3]⟩
    rw [hT]
    clear h
    induction hall with
    | nil => simp
    | @cons t f ts fs' hxy _ ih =>
      obtain ⟨h1, h2⟩ := hone t f hxy
      refine ⟨by simp [h1, ih.1], ?_⟩
      intro g hg
      simp at hg
      rcases hg with rfl | hg
      · exact h2
      · exact ih.2 g hg


/-- STAGES 1+2: reading back a written binary body yields exactly these arrays and this index / UV list, before mesh
assembly (for ANY located readers) -/
theorem readBody_writeBody_arrays (c : Coding α) (cfg : WriterCfg) (m : MeshVal α) (body : Bytes)
    (hf : cfg.format ≠ .ascii) (hwf : m.WF = true) (h : writeBody c cfg m = .ok body)
    (bl : List (Built × List Nat))
    (hbuilt : bl.map (·.1) = buildAll true (headerProps (selectWriters cfg m)) defaultReaders true)
    (hloc : ∀ p ∈ bl, Located (writerTypes (selectWriters cfg m)) p.1 p.2) :
    ∃ (recs : List (List α)),
      (List.range m.attrLen).mapM (vertexRecord m (selectWriters cfg m)) = .ok recs ∧
      (m.topo ≠ .triangle →
        readBody c defaultReader (writeHeader cfg m) body
          = assemble (bl.map (·.1)) m.attrLen (recs.map (rowOfW c (writerTypes (selectWriters cfg m)) bl)) none) ∧
      (m.topo = .triangle → ∃ tris fs, chunk3 m.indices = some tris ∧ faceRecords m tris = .ok fs ∧
        readBody c defaultReader (writeHeader cfg m) body
          = assemble (bl.map (·.1)) m.attrLen (recs.map (rowOfW c (writerTypes (selectWriters cfg m)) bl))
              (some ((fs.map faceIdx).flatten, (fs.map (faceUV c)).flatten))) := by
  obtain ⟨recs, vbytes, faceBytes, hrecs, hbody, hpt, htri, hread⟩ :=
    readBody_writeBody_vertex c cfg m body hf hwf h bl hbuilt hloc
  refine ⟨recs, hrecs, ?_, ?_⟩
  · intro hne
    rw [hread, findElement_face]
    simp [hne, faceStageBin, bind, Except.bind]
  · intro ht
    obtain ⟨tris, fs, hc, hfs, hfb⟩ := htri ht
    refine ⟨tris, fs, hc, hfs, ?_⟩
    obtain ⟨hidx, huv⟩ := faceRecords_shape m hwf tris fs hfs
    have hcount : (triCount m) = fs.length := by
      have := chunk3_length _ _ hc
      have h2 : fs.length = tris.length := by rw [← hidx]; simp
      simp [triCount, h2, this]
    have hfaces := readFacesBin_written c cfg.format.endian (hasTexCoord m) fs
      ⟨[0, 0, 0, 0], List.replicate 8 (c.ofInt 0)⟩ ⟨rfl, by simp⟩ huv []
    simp only [List.append_nil] at hfaces
    rw [hread, findElement_face]
    simp only [ht, if_true, faceStageBin, listProps_faceProps, findFaceProps_wlp, Option.isNone_some, Bool.false_eq_true,
      if_false, Int.toNat_natCast, hcount, hfb, hfaces, bind, Except.bind, pure, Except.pure]


/-! ## mesh assembly: `UpdateMesh` of the built readers -/

def Built.key (b : Built) : Nat × Bytes := (b.names.length, b.attr)

theorem set_topo (m : MeshVal α) (d : Nat) (n : Bytes) (data : List (List α)) :
    (m.set d n data).topo = m.topo ∧ (m.set d n data).indices = m.indices := by
  simp [MeshVal.set]

theorem find?_filter_of_imp {β : Type} (p q : β → Bool) (hpq : ∀ x, p x = true → q x = true) :
    ∀ (l : List β), (l.filter q).find? p = l.find? p := by
  intro l
  induction l with
  | nil => rfl
  | cons x l ih =>
    by_cases hq : q x = true
    · simp only [List.filter_cons, hq, if_true, List.find?_cons]
      rw [ih]
    · have hp : p x = false := by
        cases hpx : p x with
        | false => rfl
        | true => exact absurd (hpq x hpx) hq
      simp [List.filter_cons, hq, List.find?_cons, hp, ih]

theorem set_find_ne (m : MeshVal α) (d d0 : Nat) (n n0 : Bytes) (data : List (List α)) (hne : (d, n) ≠ (d0, n0)) :
    (m.set d n data).find d0 n0 = m.find d0 n0 := by
  have hne' : ¬ (d0 = d ∧ n0 = n) := fun ⟨h1, h2⟩ => hne (by rw [h1, h2])
  have hf := find?_filter_of_imp (fun a : Attr α => decide (a.dim = d0 ∧ a.name = n0))
    (fun a => decide (¬ (a.dim = d ∧ a.name = n)))
    (by
      intro x hx; simp at hx ⊢
      by_cases h1 : x.dim = d
      · right; intro h2; exact hne' ⟨hx.1 ▸ h1, hx.2 ▸ h2⟩
      · left; exact h1) m.attrs
  simp only [MeshVal.set, MeshVal.find]
  split
  · exact hf
  · rw [List.find?_append, hf]
    cases hm : m.attrs.find? (fun a => decide (a.dim = d0 ∧ a.name = n0)) with
    | some a => rfl
    | none =>
      have : ¬ (d = d0 ∧ n = n0) := fun ⟨h1, h2⟩ => hne (by rw [h1, h2])
      simp [this]

theorem set_find_eq (m : MeshVal α) (d : Nat) (n : Bytes) (data : List (List α)) (hd : data ≠ []) :
    (m.set d n data).find d n = some ⟨d, n, data⟩ := by
  have hemp : data.isEmpty = false := by cases data <;> simp_all
  simp only [MeshVal.set, MeshVal.find, hemp, Bool.false_eq_true, if_false]
  rw [List.find?_append]
  have : (m.attrs.filter (fun a => decide (¬ (a.dim = d ∧ a.name = n)))).find? (fun a => decide (a.dim = d ∧ a.name = n)) = none := by
    rw [List.find?_eq_none]
    intro x hx
    simp at hx
    have h2 := hx.2
    simp only [decide_eq_true_eq]
    intro ⟨ha, hb⟩
    rcases h2 with h | h
    · exact h ha
    · exact h hb
  rw [this]
  simp


/-- one `UpdateMesh` -/
def colStep (rows : List (List (List α))) (acc : MeshVal α) (x : Built × Nat) : MeshVal α :=
  acc.set x.1.names.length x.1.attr (rows.map (fun r => r.getD x.2 []))

theorem applyColumns_eq (m : MeshVal α) (built : List Built) (rows : List (List (List α))) :
    applyColumns m built rows = built.zipIdx.foldl (colStep rows) m := rfl

theorem foldl_col_topo (rows : List (List (List α))) : ∀ (l : List (Built × Nat)) (acc : MeshVal α),
    (l.foldl (colStep rows) acc).topo = acc.topo ∧ (l.foldl (colStep rows) acc).indices = acc.indices := by
  intro l
  induction l with
  | nil => intro acc; exact ⟨rfl, rfl⟩
  | cons x l ih =>
    intro acc
    have h1 := ih (colStep rows acc x)
    have h2 := set_topo acc x.1.names.length x.1.attr (rows.map (fun r => r.getD x.2 []))
    simp only [List.foldl_cons]
    exact ⟨h1.1.trans h2.1, h1.2.trans h2.2⟩

theorem foldl_col_other (rows : List (List (List α))) (d0 : Nat) (n0 : Bytes) :
    ∀ (l : List (Built × Nat)) (acc : MeshVal α), (∀ x ∈ l, Built.key x.1 ≠ (d0, n0)) →
      (l.foldl (colStep rows) acc).find d0 n0 = acc.find d0 n0 := by
  intro l
  induction l with
  | nil => intro acc _; rfl
  | cons x l ih =>
    intro acc h
    simp only [List.foldl_cons]
    rw [ih _ (fun y hy => h y (by simp [hy]))]
    exact set_find_ne acc _ _ _ _ _ (h x (by simp))

/-- the LAST reader with a key decides the attribute (`UpdateMesh` order) -/
theorem foldl_col_hit (rows : List (List (List α))) (b0 : Built) (j0 : Nat) (pre post : List (Built × Nat))
    (acc : MeshVal α) (hpost : ∀ x ∈ post, Built.key x.1 ≠ Built.key b0)
    (hne : rows.map (fun r => r.getD j0 []) ≠ []) :
    ((pre ++ (b0, j0) :: post).foldl (colStep rows) acc).find b0.names.length b0.attr
      = some ⟨b0.names.length, b0.attr, rows.map (fun r => r.getD j0 [])⟩ := by
  rw [List.foldl_append, List.foldl_cons, foldl_col_other rows _ _ post _ hpost]
  exact set_find_eq _ _ _ _ hne

theorem applyColumns_find (m : MeshVal α) (built : List Built) (rows : List (List (List α))) (j : Nat)
    (hj : j < built.length) (hlast : ∀ j' (hj' : j' < built.length), j < j' → Built.key built[j'] ≠ Built.key built[j])
    (hne : rows ≠ []) :
    (applyColumns m built rows).find built[j].names.length built[j].attr
      = some ⟨built[j].names.length, built[j].attr, rows.map (fun r => r.getD j [])⟩ := by
  rw [applyColumns_eq]
  have hsplit : built.zipIdx = (built.take j).zipIdx ++ (built[j], j) :: (built.drop (j + 1)).zipIdx (j + 1) := by
    have hb : built = built.take j ++ built[j] :: built.drop (j + 1) := by simp
    have key : ∀ (l pre post : List Built) (x : Built), l = pre ++ x :: post →
        l.zipIdx = pre.zipIdx ++ (x, pre.length) :: post.zipIdx (pre.length + 1) := by
      intro l pre post x hl; subst hl; simp [List.zipIdx_append, List.zipIdx_cons]
    have := key built _ _ _ hb
    simpa [Nat.min_eq_left (Nat.le_of_lt hj)] using this
  rw [hsplit]
  apply foldl_col_hit
  · intro x hx
    obtain ⟨k, hk, hke⟩ := List.getElem_of_mem hx
    simp at hk
    have : x = (built[j + 1 + k]'(by omega), j + 1 + k) := by
      rw [← hke]; simp [List.getElem_zipIdx]
    rw [this]
    exact hlast (j + 1 + k) (by omega) (by omega)
  · cases rows with
    | nil => exact absurd rfl hne
    | cons r rs => simp


/-! ## header positions and record positions run in parallel -/

theorem headerProps_cons (w : WProp) (ws : List WProp) :
    headerProps (w :: ws) = w.names.map (fun n => (n, w.ty)) ++ headerProps ws := by simp [headerProps]

/-- header and record are parallel flattenings: the `k`-th name of writer `w` and the `k`-th component it emits sit
at the same position -/
theorem parallel_at {ws : List WProp} {parts : List (List α)}
    (hall : All2 (fun (w : WProp) (p : List α) => p.length = w.names.length) ws parts) :
    ∀ (w : WProp) (p : List α), (w, p) ∈ ws.zip parts → ∀ k (hk : k < w.names.length) (hk' : k < p.length),
      ∃ i : Nat, (headerProps ws)[i]? = some (w.names[k], w.ty) ∧ (parts.flatten)[i]? = some p[k] := by
  induction hall with
  | nil => intro w p h; simp at h
  | @cons w0 p0 ws' parts' hlen _ ih =>
    intro w p hmem k hk hk'
    simp only [List.zip_cons_cons, List.mem_cons] at hmem
    rcases hmem with heq | hmem
    · obtain ⟨rfl, rfl⟩ := Prod.mk.inj heq
      refine ⟨k, ?_, ?_⟩
      · rw [headerProps_cons, List.getElem?_append_left (by simpa using hk)]
        simp [hk]
      · rw [List.flatten_cons, List.getElem?_append_left hk']
        simp [hk']
    · obtain ⟨i, h1, h2⟩ := ih w p hmem k hk hk'
      refine ⟨w0.names.length + i, ?_, ?_⟩
      · rw [headerProps_cons, List.getElem?_append_right (by simp)]
        simpa using h1
      · rw [List.flatten_cons, List.getElem?_append_right (by omega)]
        simpa [hlen] using h2

theorem idx_unique (props : List (Bytes × SType)) (hnd : (props.map (·.1)).Nodup) (i i' : Nat) (n : Bytes) (t t' : SType)
    (h : props[i]? = some (n, t)) (h' : props[i']? = some (n, t')) : i = i' := by
  obtain ⟨hi, he⟩ := List.getElem?_eq_some_iff.mp h
  obtain ⟨hi', he'⟩ := List.getElem?_eq_some_iff.mp h'
  by_cases hii : i = i'
  · exact hii
  · exfalso
    rcases Nat.lt_or_gt_of_ne hii with hlt | hgt
    · exact (List.pairwise_iff_getElem.mp hnd) i i' (by simpa using hi) (by simpa using hi') hlt (by simp [he, he'])
    · exact (List.pairwise_iff_getElem.mp hnd) i' i (by simpa using hi') (by simpa using hi) hgt (by simp [he, he'])

theorem filterMap_eq_of_pointwise {β : Type} (f : Nat → Option β) :
    ∀ (l : List Nat) (out : List β), l.length = out.length →
      (∀ k (hk : k < l.length) (hk' : k < out.length), f l[k] = some out[k]) → l.filterMap f = out := by
  intro l
  induction l with
  | nil => intro out hl _; cases out <;> simp_all
  | cons x l ih =>
    intro out hl h
    cases out with
    | nil => simp at hl
    | cons y out =>
      have h0 := h 0 (by simp) (by simp)
      simp at h0
      have := ih out (by simpa using hl) (fun k hk hk' => by
        have := h (k + 1) (by simpa using hk) (by simpa using hk')
        simpa using this)
      simp [List.filterMap_cons, h0, this]


/-- a built reader located where its own names are in the header -/
structure LocatedNamed (props : List (Bytes × SType)) (b : Built) (idxs : List Nat) : Prop where
  loc : Located (props.map (·.2)) b idxs
  len : idxs.length = b.names.length
  named : ∀ k (hk : k < idxs.length) (hk' : k < b.names.length), (props[idxs[k]]?).map (·.1) = some b.names[k]

/-- THE COLUMN OF A READER THAT SITS ON A WRITER'S PROPERTIES: for every vertex, what the reader decodes from the
written record is the stored-precision image of exactly the components the writer emitted for that vertex -/
theorem record_at (c : Coding α) (m : MeshVal α) (hwf : m.WF = true) (v : Nat) (ws : List WProp) (vals : List α)
    (hrec : vertexRecord m ws v = .ok vals) (hnd : ((headerProps ws).map (·.1)).Nodup)
    (w : WProp) (hw : w ∈ ws) (comps : List α) (hwv : writerValues m w v = .ok comps)
    (idxs : List Nat) (hlen : idxs.length = w.names.length)
    (hidx : ∀ k (hk : k < idxs.length) (hk' : k < w.names.length), ((headerProps ws)[idxs[k]]?).map (·.1) = some w.names[k])
    (dim : Nat) :
    idxs.filterMap (fun i =>
        match (writerTypes ws)[i]?, vals[i]? with
        | some t, some x => some (quantBin c dim t x)
        | _, _ => none)
      = comps.map (quantBin c dim w.ty) := by
  simp only [vertexRecord] at hrec
  cases hp : ws.mapM (fun w => writerValues m w v) with
  | error e => simp [hp, bind, Except.bind] at hrec
  | ok parts =>
    simp [hp, bind, Except.bind, pure, Except.pure] at hrec
    subst hrec
    have hall := mapM_ok_forall₂ _ _ _ hp
    have hlens : All2 (fun (w : WProp) (p : List α) => p.length = w.names.length) ws parts :=
      hall.imp (fun w p h => writerValues_length m hwf w v p h)
    have hzip : (w, comps) ∈ ws.zip parts := by
      clear hlens hnd hidx hp
      induction hall with
      | nil => simp at hw
      | @cons w0 p0 ws' parts' h0 _ ih =>
        simp at hw
        rcases hw with rfl | hw
        · rw [hwv] at h0; simp at h0; subst h0; simp
        · simp only [List.zip_cons_cons, List.mem_cons]; exact .inr (ih hw)
    have hcl : comps.length = w.names.length := writerValues_length m hwf w v comps hwv
    apply filterMap_eq_of_pointwise
    · simp [hlen, hcl]
    · intro k hk hk'
      simp only [List.length_map] at hk'
      obtain ⟨i, h1, h2⟩ := parallel_at hlens w comps hzip k (by omega) hk'
      have hik := hidx k hk (by omega)
      cases hpi : (headerProps ws)[idxs[k]]? with
      | none => simp [hpi] at hik
      | some q =>
        simp [hpi] at hik
        have hq : (headerProps ws)[idxs[k]]? = some (w.names[k]'(by omega), q.2) := by rw [hpi, ← hik]
        have hii := idx_unique (headerProps ws) hnd i idxs[k] _ _ _ h1 hq
        rw [hii] at h1 h2
        have hty : (writerTypes ws)[idxs[k]]? = some w.ty := by
          rw [← headerProps_types, List.getElem?_map, h1]; rfl
        simp [hty, h2]


/-! ## from arrays to corners -/

theorem mapM_map_except {ι β γ : Type} (g : ι → R β) (f : β → γ) : ∀ (l : List ι),
    l.mapM (fun i => (g i).map f) = (l.mapM g).map (List.map f) := by
  intro l
  induction l with
  | nil => rfl
  | cons i l ih =>
    rw [List.mapM_cons, List.mapM_cons, ih]
    cases g i with
    | error e => rfl
    | ok x => cases l.mapM g <;> rfl

theorem gather_map {β γ : Type} (f : β → γ) (data : List β) (idx : List Int) :
    gather (data.map f) idx = (gather data idx).map (List.map f) := by
  simp only [gather]
  rw [← mapM_map_except]
  congr 1
  funext i
  by_cases hi : i < 0
  · simp [hi, Except.map]
  · simp only [hi, if_false, List.getElem?_toArray, List.getElem?_map]
    cases data[i.toNat]? <;> rfl

theorem gather_ok {β : Type} (data : List β) : ∀ (idx : List Int), (∀ i ∈ idx, 0 ≤ i ∧ i.toNat < data.length) →
    ∃ out, gather data idx = .ok out := by
  intro idx
  simp only [gather]
  induction idx with
  | nil => intro _; exact ⟨[], rfl⟩
  | cons i idx ih =>
    intro h
    obtain ⟨h0, h1⟩ := h i (by simp)
    obtain ⟨out, hout⟩ := ih (fun j hj => h j (by simp [hj]))
    have hi : ¬ i < 0 := by omega
    refine ⟨data[i.toNat] :: out, ?_⟩
    rw [List.mapM_cons, hout]
    simp [hi, List.getElem?_eq_getElem h1, bind, Except.bind, pure, Except.pure]

theorem quant_bin_some (c : Coding α) (f : Format) (hf : f ≠ .ascii) (dim : Nat) (t : SType) (v v' : α) (bs : Bytes)
    (h : encScalarBin c f.endian t v' = .ok bs) : quant c f dim t v = some (quantBin c dim t v) := by
  have himp : ∃ bs', encScalarBin c f.endian t v = .ok bs' := by
    cases t <;> simp [encScalarBin] at h ⊢
  obtain ⟨bs', hb⟩ := himp
  have hd := dec_enc_scalar c f.endian dim t v bs' [] [] hb
  simp only [List.nil_append, List.append_nil, List.length_nil] at hd
  cases f with
  | ascii => exact absurd rfl hf
  | le => simp [quant, hb, hd, Except.toOption]
  | be => simp [quant, hb, hd, Except.toOption]

theorem mapM_some_map {β γ : Type} (q : β → Option γ) (g : β → γ) (hq : ∀ x, q x = some (g x)) :
    ∀ (l : List β), l.mapM q = some (l.map g) := by
  intro l
  induction l with
  | nil => rfl
  | cons x l ih => simp [List.mapM_cons, hq, ih]


theorem All2.get {β γ : Type} {P : β → γ → Prop} {xs : List β} {ys : List γ} (h : All2 P xs ys) :
    ∀ k (hk : k < xs.length) (hk' : k < ys.length), P xs[k] ys[k] := by
  induction h with
  | nil => intro k hk; simp at hk
  | cons hxy _ ih =>
    intro k hk hk'
    cases k with
    | zero => simpa using hxy
    | succ k => simpa using ih k (by simpa using hk) (by simpa using hk')

theorem WF_len (m : MeshVal α) (h : m.WF = true) : ∀ a ∈ m.attrs, a.data.length = m.attrLen := by
  intro a ha
  simp only [MeshVal.WF, Bool.and_eq_true, List.all_eq_true, decide_eq_true_eq] at h
  exact (h.1.1.2 a ha).1.1.2

theorem WF_idx (m : MeshVal α) (h : m.WF = true) : ∀ i ∈ m.indices, 0 ≤ i ∧ i < m.attrLen := by
  intro i hi
  simp only [MeshVal.WF, Bool.and_eq_true, List.all_eq_true, decide_eq_true_eq] at h
  exact h.1.2 i hi

/-- the column a reader sitting on writer `w`'s properties accumulates over the whole vertex block: the attribute's
array, every component replaced by its stored-precision image -/
theorem column_of_writer (c : Coding α) (m : MeshVal α) (hwf : m.WF = true) (ws : List WProp)
    (hnd : ((headerProps ws).map (·.1)).Nodup) (recs : List (List α))
    (hrecs : (List.range m.attrLen).mapM (vertexRecord m ws) = .ok recs)
    (w : WProp) (hw : w ∈ ws) (a : Attr α) (ha : m.find w.dim w.attr = some a)
    (bl : List (Built × List Nat)) (j : Nat) (hj : j < bl.length) (hnames : bl[j].1.names = w.names)
    (hln : LocatedNamed (headerProps ws) bl[j].1 bl[j].2) :
    recs.map (fun vals => (rowOfW c (writerTypes ws) bl vals).getD j [])
      = a.data.map (List.map (quantBin c w.dim w.ty)) := by
  have hall := mapM_ok_forall₂ _ _ _ hrecs
  have hrl : recs.length = m.attrLen := by simpa using hall.length_eq
  obtain ⟨hmem, hdim⟩ := find_mem m _ _ a ha
  have hal : a.data.length = m.attrLen := WF_len m hwf a hmem
  apply List.ext_getElem
  · simp [hrl, hal]
  · intro v hv hv'
    simp only [List.length_map] at hv hv'
    have hrec : vertexRecord m ws v = .ok recs[v] := by
      have := All2.get hall v (by simp; omega) hv
      simpa using this
    have hwv : writerValues m w v = .ok a.data[v] := by
      simp [writerValues, ha, List.getElem?_eq_getElem hv']
    have hlen : bl[j].2.length = w.names.length := by rw [hln.len, hnames]
    have := record_at c m hwf v ws recs[v] hrec hnd w hw a.data[v] hwv bl[j].2 hlen
      (fun k hk hk' => by
        have := hln.named k hk (by rw [hnames]; exact hk')
        simpa [hnames] using this) w.dim
    simp only [List.getElem_map, rowOfW, List.getD_eq_getElem?_getD, List.getElem?_map,
      List.getElem?_eq_getElem hj, Option.map_some, Option.getD_some]
    have hdimeq : bl[j].1.names.length = w.dim := by rw [hnames]; rfl
    simp only [hdimeq]
    exact this


theorem faces_indices (m : MeshVal α) (hwf : m.WF = true) (hsize : m.attrLen ≤ 2 ^ 31)
    (tris : List (Int × Int × Int)) (fs : List (WFace α)) (hc : chunk3 m.indices = some tris)
    (hidx : fs.map (·.idx) = tris) : (fs.map faceIdx).flatten = m.indices := by
  have hfl := chunk3_flatten _ _ hc
  have hin : ∀ f ∈ fs, faceIdx f = [f.idx.1, f.idx.2.1, f.idx.2.2] := by
    intro f hf
    have hmem : ∀ i ∈ [f.idx.1, f.idx.2.1, f.idx.2.2], i ∈ m.indices := by
      intro i hi
      rw [hfl, ← hidx]
      simp only [List.map_map, List.mem_flatten, List.mem_map, Function.comp]
      exact ⟨[f.idx.1, f.idx.2.1, f.idx.2.2], ⟨f, hf, rfl⟩, hi⟩
    have hr : ∀ i ∈ [f.idx.1, f.idx.2.1, f.idx.2.2], toInt32 (ofInt32 i) = i := by
      intro i hi
      have := WF_idx m hwf i (hmem i hi)
      exact toInt32_ofInt32' i ⟨by omega, by omega⟩
    simp only [faceIdx, hr f.idx.1 (by simp), hr f.idx.2.1 (by simp), hr f.idx.2.2 (by simp)]
  rw [hfl, ← hidx, List.map_map]
  congr 1
  apply List.map_congr_left
  intro f hf
  simpa using hin f hf

/-- the claim stage, as witnesses: the readers the default reader builds on the written header are located where their
names are, and every writer whose names the reader recognises (`comesBack`) has its reader, the last one with that key -/
structure ClaimOK (cfg : WriterCfg) (m : MeshVal α) (bl : List (Built × List Nat)) : Prop where
  built : bl.map (·.1) = buildAll true (headerProps (selectWriters cfg m)) defaultReaders true
  located : ∀ p ∈ bl, LocatedNamed (headerProps (selectWriters cfg m)) p.1 p.2
  demanded : ∀ w ∈ selectWriters cfg m, comesBack w = true →
    ∃ j, ∃ hj : j < bl.length, bl[j].1.attr = w.attr ∧ bl[j].1.names = w.names ∧
      ∀ j' (hj' : j' < bl.length), j < j' → Built.key bl[j'].1 ≠ Built.key bl[j].1


theorem All2.exists_left {β γ : Type} {P : β → γ → Prop} {xs : List β} {ys : List γ} (h : All2 P xs ys) :
    ∀ x ∈ xs, ∃ y, P x y := by
  induction h with
  | nil => intro x hx; simp at hx
  | cons hxy _ ih =>
    intro x hx
    simp at hx
    rcases hx with rfl | hx
    · exact ⟨_, hxy⟩
    · exact ih x hx

theorem encRecordBin_ok_at (c : Coding α) (e : Endian) : ∀ (tys : List SType) (vals : List α) (rec : Bytes),
    encRecordBin c e tys vals = .ok rec → ∀ i (hi : i < tys.length) (hv : i < vals.length),
      ∃ bs, encScalarBin c e tys[i] vals[i] = .ok bs := by
  intro tys
  induction tys with
  | nil => intro _ _ _ i hi; simp at hi
  | cons t tys ih =>
    intro vals rec henc i hi hv
    match vals, hv with
    | v :: vals, hv =>
      rw [encRecordBin_cons] at henc
      cases hb : encScalarBin c e t v with
      | error x => simp [hb, bind, Except.bind] at henc
      | ok b =>
        cases hr : encRecordBin c e tys vals with
        | error x => simp [hb, hr, bind, Except.bind] at henc
        | ok r =>
          cases i with
          | zero => exact ⟨b, by simpa using hb⟩
          | succ i => simpa using ih vals r hr i (by simpa using hi) (by simpa using hv)

/-- a written scalar type is one the binary writer implements (otherwise `writeBody` panics) -/
theorem written_type_implemented (c : Coding α) (e : Endian) (m : MeshVal α) (hwf : m.WF = true) (ws : List WProp)
    (vals : List α) (rec : Bytes) (v : Nat) (hrec : vertexRecord m ws v = .ok vals)
    (henc : encRecordBin c e (writerTypes ws) vals = .ok rec) (w : WProp) (hw : w ∈ ws) (hne : w.names ≠ []) :
    ∃ v' bs, encScalarBin c e w.ty v' = .ok bs := by
  have hvl := vertexRecord_length m hwf v ws vals hrec
  simp only [vertexRecord] at hrec
  cases hp : ws.mapM (fun w => writerValues m w v) with
  | error e => simp [hp, bind, Except.bind] at hrec
  | ok parts =>
    simp [hp, bind, Except.bind, pure, Except.pure] at hrec
    subst hrec
    have hall := mapM_ok_forall₂ _ _ _ hp
    have hlens : All2 (fun (w : WProp) (p : List α) => p.length = w.names.length) ws parts :=
      hall.imp (fun w p h => writerValues_length m hwf w v p h)
    obtain ⟨comps, hwv⟩ := All2.exists_left hall w hw
    have hzip : (w, comps) ∈ ws.zip parts := by
      clear hlens hp hvl henc
      induction hall with
      | nil => simp at hw
      | @cons w0 p0 ws' parts' h0 _ ih =>
        simp at hw
        rcases hw with rfl | hw
        · rw [hwv] at h0; simp at h0; subst h0; simp
        · simp only [List.zip_cons_cons, List.mem_cons]; exact .inr (ih hw)
    have hcl : comps.length = w.names.length := writerValues_length m hwf w v comps hwv
    have h0 : 0 < w.names.length := by cases hn : w.names <;> simp_all
    obtain ⟨i, h1, h2⟩ := parallel_at hlens w comps hzip 0 h0 (by omega)
    obtain ⟨hi, _⟩ := List.getElem?_eq_some_iff.mp h2
    have hty : (writerTypes ws)[i]? = some w.ty := by
      rw [← headerProps_types, List.getElem?_map, h1]; rfl
    obtain ⟨hi', hte⟩ := List.getElem?_eq_some_iff.mp hty
    obtain ⟨bs, hbs⟩ := encRecordBin_ok_at c e _ _ _ henc i hi' hi
    exact ⟨_, bs, by rw [← hte]; exact hbs⟩


/-! ## the assembled mesh and `RoundTrips` -/

theorem faceUV_nil (c : Coding α) (fs : List (WFace α)) (h : ∀ f ∈ fs, UvOk false f) :
    (fs.map (faceUV c)).flatten = [] := by
  induction fs with
  | nil => rfl
  | cons f fs ih =>
    have hf := h f (by simp)
    have : faceUV c f = [] := by
      cases huv : f.uv with
      | none => simp [faceUV, huv]
      | some uv => simp [UvOk, huv] at hf
    simp [this, ih (fun g hg => h g (by simp [hg]))]

/-- reading back a written binary body (no per-corner texture coordinates): the mesh the reader assembles -/
theorem readBody_writeBody_mesh (c : Coding α) (cfg : WriterCfg) (m : MeshVal α) (body : Bytes)
    (hf : cfg.format ≠ .ascii) (hwf : m.WF = true) (h : writeBody c cfg m = .ok body)
    (hnotex : ¬ (m.topo = .triangle ∧ hasTexCoord m = true))
    (hpoint : m.topo = .point → m.indices = (List.range m.attrLen).map Int.ofNat)
    (hsize : m.attrLen ≤ 2 ^ 31)
    (bl : List (Built × List Nat)) (hcl : ClaimOK cfg m bl) :
    ∃ recs, (List.range m.attrLen).mapM (vertexRecord m (selectWriters cfg m)) = .ok recs ∧
      readBody c defaultReader (writeHeader cfg m) body
        = .ok (applyColumns ⟨m.topo, m.indices, [], none⟩ (bl.map (·.1))
            (recs.map (rowOfW c (writerTypes (selectWriters cfg m)) bl))) := by
  have hloc : ∀ p ∈ bl, Located (writerTypes (selectWriters cfg m)) p.1 p.2 := by
    intro p hp
    have := (hcl.located p hp).loc
    rwa [headerProps_types] at this
  obtain ⟨recs, hrecs, hpt, htri⟩ := readBody_writeBody_arrays c cfg m body hf hwf h bl hcl.built hloc
  refine ⟨recs, hrecs, ?_⟩
  by_cases ht : m.topo = .triangle
  · obtain ⟨tris, fs, hc, hfs, hread⟩ := htri ht
    have hT : hasTexCoord m = false := by
      cases hh : hasTexCoord m with
      | false => rfl
      | true => exact absurd ⟨ht, hh⟩ hnotex
    obtain ⟨hidx, huv⟩ := faceRecords_shape m hwf tris fs hfs
    rw [hT] at huv
    rw [hread, faceUV_nil c fs huv, faces_indices m hwf hsize tris fs hc hidx]
    simp [assemble, ht, pure, Except.pure]
  · have hp : m.topo = .point := by cases hm : m.topo <;> simp_all
    rw [hpt ht]
    simp [assemble, hp, hpoint hp, pure, Except.pure]


theorem comesBack_names_ne (w : WProp) (h : comesBack w = true) : w.names ≠ [] := by
  intro hn
  simp only [comesBack, hn, Bool.or_eq_true, List.any_eq_true, Bool.and_eq_true, decide_eq_true_eq] at h
  rcases h with ⟨r, hr, _, h2⟩ | h
  · have : ∀ r ∈ defaultReaders, r.names ≠ [] ∧ r.names.take 3 ≠ [] := by decide
    rcases h2 with h2 | ⟨_, h2⟩
    · exact (this r hr).1 h2
    · exact (this r hr).2 h2
  · simp at h

/-- the corners of attribute `(dim, attr)` of a mesh whose array is `a.data` mapped by `g` -/
theorem cornerVals_mapped (m back : MeshVal α) (hidx : back.indices = m.indices) (d : Nat) (n : Bytes) (a : Attr α)
    (ha : m.find d n = some a) (g : List α → List α)
    (hb : back.find d n = some ⟨d, n, a.data.map g⟩) (orig : List (List α)) (ho : gather a.data m.indices = .ok orig) :
    cornerVals m d n = some orig ∧ cornerVals back d n = some (orig.map g) := by
  by_cases hemp : m.indices = []
  · have : orig = [] := by
      rw [hemp] at ho; simp [gather, pure, Except.pure] at ho; exact ho
    simp [cornerVals, hidx, hemp, this]
  · have he : m.indices.isEmpty = false := by cases hm : m.indices <;> simp_all
    simp [cornerVals, hidx, he, ha, hb, gather_map, ho, Except.map, Except.toOption]


/-- `RoundTrips` for the mesh the reader assembles (no per-corner texture coordinates) -/
theorem roundTrips_of_mesh [BEq α] [LawfulBEq α] (c : Coding α) (cfg : WriterCfg) (m : MeshVal α) (body : Bytes)
    (hf : cfg.format ≠ .ascii) (hwf : m.WF = true) (h : writeBody c cfg m = .ok body)
    (hnotex : ¬ (m.topo = .triangle ∧ hasTexCoord m = true))
    (hnd : ((headerProps (selectWriters cfg m)).map (·.1)).Nodup)
    (bl : List (Built × List Nat)) (hcl : ClaimOK cfg m bl) (recs : List (List α))
    (hrecs : (List.range m.attrLen).mapM (vertexRecord m (selectWriters cfg m)) = .ok recs) :
    RoundTrips c cfg m (applyColumns ⟨m.topo, m.indices, [], none⟩ (bl.map (·.1))
      (recs.map (rowOfW c (writerTypes (selectWriters cfg m)) bl))) = true := by
  have htop := foldl_col_topo (recs.map (rowOfW c (writerTypes (selectWriters cfg m)) bl)) (bl.map (·.1)).zipIdx
    (⟨m.topo, m.indices, [], none⟩ : MeshVal α)
  rw [← applyColumns_eq] at htop
  obtain ⟨ht1, ht2⟩ := htop
  simp only at ht1 ht2
  simp only [RoundTrips, Bool.and_eq_true, List.all_eq_true, decide_eq_true_eq, ht1, primCount, ht2, true_and]
  refine ⟨?_, by simp [hnotex]⟩
  intro w hw
  simp only [List.mem_filter, Bool.and_eq_true] at hw
  obtain ⟨hws, hcb, _⟩ := hw
  by_cases hemp : m.indices = []
  · have hb0 := ht2
    rw [hemp] at hb0
    simp [cornerVals, hb0, hemp]
  · -- at least one corner: at least one vertex
    obtain ⟨i0, hi0⟩ := List.exists_mem_of_ne_nil _ hemp
    have hpos : 0 < m.attrLen := by have := WF_idx m hwf i0 hi0; omega
    have hall := mapM_ok_forall₂ _ _ _ hrecs
    have hrl : recs.length = m.attrLen := by simpa using hall.length_eq
    have hr0 : vertexRecord m (selectWriters cfg m) 0 = .ok recs[0] := by
      have := All2.get hall 0 (by simpa using hpos) (by omega)
      simpa using this
    -- the attribute exists
    have hfind : ∃ a, m.find w.dim w.attr = some a := by
      have hr0' := hr0
      simp only [vertexRecord] at hr0'
      cases hp : (selectWriters cfg m).mapM (fun w => writerValues m w 0) with
      | error e => simp [hp, bind, Except.bind] at hr0'
      | ok parts =>
        obtain ⟨p, hp'⟩ := All2.exists_left (mapM_ok_forall₂ _ _ _ hp) w hws
        simp only [writerValues] at hp'
        cases hfa : m.find w.dim w.attr with
        | none => simp [hfa] at hp'
        | some a => exact ⟨a, rfl⟩
    obtain ⟨a, ha⟩ := hfind
    obtain ⟨hmem, hdim⟩ := find_mem m _ _ a ha
    have hal : a.data.length = m.attrLen := WF_len m hwf a hmem
    -- its reader and column
    obtain ⟨j, hj, hattr, hnames, hlastj⟩ := hcl.demanded w hws hcb
    have hcol := column_of_writer c m hwf _ hnd recs hrecs w hws a ha bl j hj hnames (hcl.located _ (List.getElem_mem hj))
    have hj' : j < (bl.map (·.1)).length := by simpa using hj
    have hrows : recs.map (rowOfW c (writerTypes (selectWriters cfg m)) bl) ≠ [] := by
      cases hr : recs with
      | nil => rw [hr] at hrl; simp at hrl; omega
      | cons r rs => simp
    have hfindb := applyColumns_find (⟨m.topo, m.indices, [], none⟩ : MeshVal α) (bl.map (·.1))
      (recs.map (rowOfW c (writerTypes (selectWriters cfg m)) bl)) j hj'
      (fun j' hj'' hlt => by
        have := hlastj j' (by simpa using hj'') hlt
        simpa using this) hrows
    have hkd : ((bl.map (fun (x : Built × List Nat) => x.1))[j]'hj').names.length = w.dim := by simp [hnames, WProp.dim]
    have hka : ((bl.map (fun (x : Built × List Nat) => x.1))[j]'hj').attr = w.attr := by simp [hattr]
    rw [hkd, hka] at hfindb
    simp only [List.map_map, Function.comp_def] at hfindb
    rw [hcol] at hfindb
    -- corners
    obtain ⟨orig, ho⟩ := gather_ok a.data m.indices (fun i hi => by
      have := WF_idx m hwf i hi
      exact ⟨this.1, by omega⟩)
    obtain ⟨hc1, hc2⟩ := cornerVals_mapped m _ ht2 w.dim w.attr a ha (List.map (quantBin c w.dim w.ty)) hfindb orig ho
    -- the written type is implemented, so `quant` is `quantBin`
    obtain ⟨recs', vbytes, faceBytes, hrecs', hallenc, _, _, _⟩ := writeBody_bin_parts c cfg m body hf h
    rw [hrecs] at hrecs'
    have hre : recs' = recs := by injection hrecs' with h'; exact h'.symm
    subst hre
    have hvl : vbytes.length = recs'.length := hallenc.length_eq
    have henc0 := All2.get hallenc 0 (by omega) (by omega)
    obtain ⟨v', bs, himpl⟩ := written_type_implemented c cfg.format.endian m hwf _ _ _ 0 hr0 henc0 w hws
      (comesBack_names_ne w hcb)
    have hq : ∀ v, quant c cfg.format w.dim w.ty v = some (quantBin c w.dim w.ty v) :=
      fun v => quant_bin_some c cfg.format hf w.dim w.ty v v' bs himpl
    have hmm : orig.mapM (fun comps => comps.mapM (quant c cfg.format w.dim w.ty))
        = some (orig.map (List.map (quantBin c w.dim w.ty))) := by
      apply mapM_some_map
      intro comps
      exact mapM_some_map _ _ hq comps
    simp [hc1, hc2, hmm]


/-! ## the claim stage, checked: a decidable certificate for `ClaimOK` -/

/-- header position of a property name -/
def posOf (props : List (Bytes × SType)) (n : Bytes) : Nat := props.findIdx (fun p => p.1 = n)

def locatedNamedB (props : List (Bytes × SType)) (b : Built) (idxs : List Nat) : Bool :=
  match b.ty with
  | none => false
  | some t =>
    idxs.all (fun i => (props[i]?).map (·.2) == some t) &&
    b.offs == idxs.map (offsetOf (props.map (·.2))) &&
    idxs.length == b.names.length &&
    (idxs.zip b.names).all (fun x => (props[x.1]?).map (·.1) == some x.2)

theorem locatedNamedB_sound (props : List (Bytes × SType)) (b : Built) (idxs : List Nat)
    (h : locatedNamedB props b idxs = true) : LocatedNamed props b idxs := by
  simp only [locatedNamedB] at h
  cases hty : b.ty with
  | none => simp [hty] at h
  | some t =>
    simp only [hty, Bool.and_eq_true, List.all_eq_true, beq_iff_eq] at h
    obtain ⟨⟨⟨h1, h2⟩, h3⟩, h4⟩ := h
    refine ⟨⟨⟨t, hty, ?_⟩, h2⟩, h3, ?_⟩
    · intro i hi
      have := h1 i hi
      cases hp : props[i]? with
      | none => simp [hp] at this
      | some p =>
        obtain ⟨hi', hpe⟩ := List.getElem?_eq_some_iff.mp hp
        simp [hp] at this
        exact ⟨by simpa using hi', by simp [hpe, this]⟩
    · intro k hk hk'
      have hmem : (idxs[k], b.names[k]) ∈ idxs.zip b.names := by
        have : (idxs.zip b.names)[k]'(by simp; omega) = (idxs[k], b.names[k]) := by simp
        rw [← this]; exact List.getElem_mem _
      exact h4 _ hmem

def demandedB (ws : List WProp) (bl : List (Built × List Nat)) : Bool :=
  ws.all (fun w => !comesBack w ||
    (List.range bl.length).any (fun j =>
      match bl[j]? with
      | none => false
      | some p =>
        p.1.attr == w.attr && p.1.names == w.names &&
        (List.range bl.length).all (fun j' => !decide (j < j') ||
          match bl[j']? with
          | none => true
          | some p' => decide (Built.key p'.1 ≠ Built.key p.1))))

/-- the certificate: locate every built reader by name lookup and check everything `ClaimOK` asks for -/
def claimCheck (cfg : WriterCfg) (m : MeshVal α) : Option (List (Built × List Nat)) :=
  let props := headerProps (selectWriters cfg m)
  let bl := (buildAll true props defaultReaders true).map (fun b => (b, b.names.map (posOf props)))
  if bl.all (fun p => locatedNamedB props p.1 p.2) && demandedB (selectWriters cfg m) bl then some bl else none

theorem claimCheck_sound (cfg : WriterCfg) (m : MeshVal α) (bl : List (Built × List Nat))
    (h : claimCheck cfg m = some bl) : ClaimOK cfg m bl := by
  simp only [claimCheck] at h
  split at h
  · rename_i hc
    simp at h
    subst h
    simp only [Bool.and_eq_true, List.all_eq_true] at hc
    obtain ⟨hl, hd⟩ := hc
    refine ⟨by simp [Function.comp_def], fun p hp => locatedNamedB_sound _ _ _ (hl p hp), ?_⟩
    intro w hw hcb
    simp only [demandedB, List.all_eq_true] at hd
    have := hd w hw
    simp only [hcb, Bool.not_true, Bool.false_or, List.any_eq_true, List.mem_range] at this
    obtain ⟨j, hj, hjj⟩ := this
    rw [List.getElem?_eq_getElem hj] at hjj
    simp only [Bool.and_eq_true, beq_iff_eq, List.all_eq_true, List.mem_range] at hjj
    obtain ⟨⟨ha, hn⟩, hlast⟩ := hjj
    refine ⟨j, hj, ha, hn, ?_⟩
    intro j' hj' hlt
    have := hlast j' hj'
    rw [List.getElem?_eq_getElem hj'] at this
    simpa [hlt] using this
  · simp at h


/-! ## the vector claim scan: a reader with an absent component is not built -/

theorem allSome_none {β : Type} : ∀ (l : List (Option β)) (k : Nat), l[k]? = some none → allSome l = none := by
  intro l
  induction l with
  | nil => intro k h; simp at h
  | cons x l ih =>
    intro k h
    cases k with
    | zero => simp at h; subst h; rfl
    | succ k =>
      have := ih k (by simpa using h)
      cases x <;> simp [allSome, this]

/-- THE VECTOR CLAIM SCAN, other direction: a reader one of whose component names is absent from the header is not built
(under the same guards: distinct names, one scalar type among the reader's properties that are present) -/
theorem buildVec_none (binary : Bool) (props : List (Bytes × SType)) (attr : Bytes) (names : List Bytes)
    (hn : names.Nodup) (hnd : (props.map (·.1)).Nodup) (t : SType) (huni : ∀ p ∈ props, p.1 ∈ names → p.2 = t)
    (k : Nat) (hk : k < names.length) (habs : ∀ p ∈ props, p.1 ≠ names[k]) :
    buildVec binary props attr names = none := by
  obtain ⟨_, _, h3, _, _⟩ := scan_fold binary names hn t props ⟨names.map (fun _ => none), none, 0⟩ hnd huni (.inl rfl) (by simp)
  have := (h3 k hk).2 habs
  simp only [List.getElem?_map, List.getElem?_eq_getElem hk, Option.map_some] at this
  simp only [buildVec, allSome_none _ k this]


/-! ## `buildReader`: all components present; the IgnorableW fallback -/

/-- `PropertyReader.build*` of a 2/3/4-vector reader whose components are all present with one type -/
theorem buildReader_all (binary : Bool) (props : List (Bytes × SType)) (r : RProp) (hlen : 2 ≤ r.names.length)
    (hn : r.names.Nodup) (hnd : (props.map (·.1)).Nodup) (t : SType) (idx : List Nat)
    (hl : idx.length = r.names.length)
    (hidx : ∀ k (hk : k < r.names.length), ∃ hi : idx[k]'(by omega) < props.length, props[idx[k]'(by omega)] = (r.names[k], t)) :
    buildReader binary props r = some ⟨r.attr, r.names, idx.map (locOf binary props), some t⟩ := by
  have hne : r.names ≠ [] := by intro h; rw [h] at hlen; simp at hlen
  have hb := buildVec_spec binary props r.attr r.names hn hne hnd t idx hl hidx
  obtain ⟨attr, names, ign⟩ := r
  match names, hlen with
  | a :: b :: rest, _ =>
    simp only [buildReader]
    simp only at hb
    rw [hb]

theorem offs_four (l : List (Option Nat)) (hl : l.length = 4) (a b c : Nat)
    (h0 : l[0]? = some (some a)) (h1 : l[1]? = some (some b)) (h2 : l[2]? = some (some c)) (h3 : l[3]? = some none) :
    l = [some a, some b, some c, none] := by
  match l, hl with
  | [x0, x1, x2, x3], _ => simp_all

/-- THE IGNORABLE-W FALLBACK (reader_vector4.go:99-106, 188-195): `red green blue` present with one type and `alpha`
absent — the 4-vector reader is not built, the 3-vector reader over the first three names is, located at their header
positions -/
theorem buildReader_fallback (binary : Bool) (props : List (Bytes × SType)) (r : RProp) (hlen : r.names.length = 4)
    (hign : r.ignorableW = true) (hn : r.names.Nodup) (hnd : (props.map (·.1)).Nodup) (t : SType) (idx : List Nat)
    (hl : idx.length = 3)
    (hidx : ∀ k (hk : k < 3), ∃ hi : idx[k]'(by omega) < props.length,
      props[idx[k]'(by omega)] = (r.names[k]'(by omega), t))
    (habs : ∀ p ∈ props, p.1 ≠ r.names[3]'(by omega)) :
    buildReader binary props r = some ⟨r.attr, r.names.take 3, idx.map (locOf binary props), some t⟩ := by
  -- one type among the reader's properties that are present
  have huni : ∀ p ∈ props, p.1 ∈ r.names → p.2 = t := by
    intro p hp hm
    obtain ⟨k, hk, hke⟩ := List.getElem_of_mem hm
    by_cases hk3 : k = 3
    · subst hk3; exact absurd hke.symm (habs p hp)
    · obtain ⟨hi, hpe⟩ := hidx k (by omega)
      have := eq_of_fst_eq_of_nodup props hnd p _ hp (List.getElem_mem hi) (by rw [hpe]; exact hke.symm)
      rw [this, hpe]
  have hnone := buildVec_none binary props r.attr r.names hn hnd t huni 3 (by omega) habs
  -- the offsets of the 4-scan
  obtain ⟨_, h2, h3, _, _⟩ := scan_fold binary r.names hn t props ⟨r.names.map (fun _ => none), none, 0⟩ hnd huni (.inl rfl) (by simp)
  have hoff : ∀ k (hk : k < 3), (props.foldl (scanProp binary r.names) ⟨r.names.map (fun _ => none), none, 0⟩).offs[k]?
      = some (some (0 + locOf binary props (idx[k]'(by omega)))) := by
    intro k hk
    obtain ⟨hi, hpe⟩ := hidx k hk
    exact (h3 k (by omega)).1 _ hi (by rw [hpe])
  have hoff3 : (props.foldl (scanProp binary r.names) ⟨r.names.map (fun _ => none), none, 0⟩).offs[3]? = some none := by
    have := (h3 3 (by omega)).2 habs
    simpa [List.getElem?_map, List.getElem?_eq_getElem (show 3 < r.names.length by omega)] using this
  have hform := offs_four _ (by rw [h2, hlen]) _ _ _ (hoff 0 (by omega)) (hoff 1 (by omega)) (hoff 2 (by omega)) hoff3
  -- the 3-vector reader
  have hn3 : (r.names.take 3).Nodup := List.Nodup.sublist (List.take_sublist _ _) hn
  have hb3 := buildVec_spec binary props r.attr (r.names.take 3) hn3
    (by intro h; have := congrArg List.length h; simp [hlen] at this) hnd t idx (by simp [hl, hlen])
    (fun k hk => by
      have hk3 : k < 3 := by simp [hlen] at hk; omega
      obtain ⟨hi, hpe⟩ := hidx k hk3
      exact ⟨hi, by rw [hpe]; simp⟩)
  obtain ⟨attr, names, ign⟩ := r
  simp only at hlen hign hnone hform hb3 ⊢
  match names, hlen with
  | [n0, n1, n2, n3], _ =>
    simp only [buildReader, hnone, hign, hform]
    simpa using hb3


end PlyCompose
end PolyVerif
