/-
  Composition lemmas for C04 / C08: the reader model `readBody` run on a binary body, stage by stage
  (vertex loop → face loop → mesh assembly).  Core Lean only.
-/
import PolyVerif.Model.Ply
import PolyVerif.Model.PlySpec
import PolyVerif.Lemmas.Ply

namespace PolyVerif
namespace PlyCompose
open Ply PlyLemmas

variable {α : Type}

/-! ## `readBody` for the binary encodings, unfolded into its stages -/

/-- mesh assembly: `NewMesh(topo, indices)`, `UpdateMesh` of every built reader, unweld when per-corner UVs were read -/
def assemble (built : List Built) (nv : Nat) (rows : List (List (List α)))
    (idxUv : Option (List Int × List (List α))) : R (MeshVal α) :=
  let (topo, indices, uvs) := match idxUv with
    | none => (Topo.point, (List.range nv).map Int.ofNat, ([] : List (List α)))
    | some (idx, uvs) => (Topo.triangle, idx, uvs)
  let mesh := applyColumns ⟨topo, indices, [], none⟩ built rows
  if 0 < uvs.length ∧ uvs.length = indices.length then do
    let u ← unweld mesh
    pure (u.set 2 texCoordAttr uvs)
  else pure mesh

/-- the face stage of a binary body -/
def faceStageBin (c : Coding α) (e : Endian) (fe : Option Element) (rest : Bytes) :
    R (Option (List Int × List (List α))) :=
  match fe with
  | none => .ok none
  | some f =>
    match listProps f.props with
    | none => .error .err
    | some lp =>
      if (findFaceProps lp).idxProp.isNone then .error .err else do
        let r ← readFacesBin c e lp (findFaceProps lp) f.count.toNat ⟨[0, 0, 0, 0], List.replicate 8 (c.ofInt 0)⟩ rest
        pure (some r)

theorem readBody_bin (c : Coding α) (cfg : ReaderCfg) (hdr : Header) (body : Bytes) (ve : Element)
    (ps : List (Bytes × SType)) (hfmt : hdr.format ≠ .ascii)
    (hve : findElement hdr cfg.attributeElement = some ve) (hps : scalarProps ve.props = some ps)
    (hcount : 0 ≤ ve.count) :
    readBody c cfg hdr body = (do
      let built := buildAll true ps cfg.props cfg.loadUnspecified
      let (rows, rest) ← readVertsBin c hdr.format.endian ((ps.map (fun p => p.2.size)).sum) built ve.count.toNat body
      let idxUv ← faceStageBin c hdr.format.endian (findElement hdr (nm "face")) rest
      assemble built ve.count.toNat rows idxUv) := by
  have hneg : ¬ (ve.count < 0) := by omega
  simp only [readBody, hve, hps, hneg, false_and, if_false]
  have hb : (decide (hdr.format ≠ Format.ascii)) = true := by simp [hfmt]
  cases hf : hdr.format with
  | ascii => exact absurd hf hfmt
  | le =>
    simp only [hf] at hb ⊢
    simp only [hb]
    cases readVertsBin c Format.le.endian ((ps.map (fun p => p.2.size)).sum) (buildAll true ps cfg.props cfg.loadUnspecified) ve.count.toNat body with
    | error e => rfl
    | ok rr =>
      obtain ⟨rows, rest⟩ := rr
      simp only [bind, Except.bind, faceStageBin]
      cases findElement hdr (nm "face") with
      | none => rfl
      | some f =>
        simp only []
        cases listProps f.props with
        | none => rfl
        | some lp =>
          simp only []
          by_cases hidx : (findFaceProps lp).idxProp.isNone = true
          · simp only [hidx, if_true]
          · simp only [hidx, if_false, Bool.false_eq_true]
            cases readFacesBin c Format.le.endian lp (findFaceProps lp) f.count.toNat ⟨[0, 0, 0, 0], List.replicate 8 (c.ofInt 0)⟩ rest <;> rfl
  | be =>
    simp only [hf] at hb ⊢
    simp only [hb]
    cases readVertsBin c Format.be.endian ((ps.map (fun p => p.2.size)).sum) (buildAll true ps cfg.props cfg.loadUnspecified) ve.count.toNat body with
    | error e => rfl
    | ok rr =>
      obtain ⟨rows, rest⟩ := rr
      simp only [bind, Except.bind, faceStageBin]
      cases findElement hdr (nm "face") with
      | none => rfl
      | some f =>
        simp only []
        cases listProps f.props with
        | none => rfl
        | some lp =>
          simp only []
          by_cases hidx : (findFaceProps lp).idxProp.isNone = true
          · simp only [hidx, if_true]
          · simp only [hidx, if_false, Bool.false_eq_true]
            cases readFacesBin c Format.be.endian lp (findFaceProps lp) f.count.toNat ⟨[0, 0, 0, 0], List.replicate 8 (c.ofInt 0)⟩ rest <;> rfl


/-! ## the header `MeshWriter.Write` builds, as the reader sees it -/

/-- the vertex properties of the written header: names and types in header order -/
def headerProps (ws : List WProp) : List (Bytes × SType) := (ws.map (fun w => w.names.map (fun n => (n, w.ty)))).flatten

theorem scalarProps_headerProps (ws : List WProp) :
    scalarProps ((ws.map WProp.props).flatten) = some (headerProps ws) := by
  induction ws with
  | nil => simp [scalarProps, headerProps]
  | cons w ws ih =>
    have := scalarProps_append _ _ _ _ (scalarProps_wprop w) ih
    simpa [headerProps] using this

theorem headerProps_types (ws : List WProp) : (headerProps ws).map (·.2) = writerTypes ws := by
  induction ws with
  | nil => simp [headerProps, writerTypes]
  | cons w ws ih =>
    simp only [headerProps, writerTypes, List.map_cons, List.flatten_cons, List.map_append] at ih ⊢
    rw [ih]; simp [Function.comp_def]

theorem findElement_vertex (cfg : WriterCfg) (m : MeshVal α) :
    findElement (writeHeader cfg m) (nm "vertex")
      = some ⟨nm "vertex", m.attrLen, ((selectWriters cfg m).map WProp.props).flatten⟩ := by
  have h1 : (nm "face" = nm "vertex") = False := by simp; decide
  by_cases htri : m.topo = .triangle <;> simp [findElement, writeHeader, htri, h1]

theorem findElement_face (cfg : WriterCfg) (m : MeshVal α) :
    findElement (writeHeader cfg m) (nm "face")
      = if m.topo = .triangle then some ⟨nm "face", triCount m, faceProps m⟩ else none := by
  have h1 : (nm "vertex" = nm "face") = False := by simp; decide
  by_cases htri : m.topo = .triangle <;> simp [findElement, writeHeader, htri, h1]

/-! ## the vertex block the library writer emits, under the reader's vertex loop -/

/-- what the located readers produce for one written record: for each reader the stored-precision image of the values
at its components' header positions -/
def rowOfW (c : Coding α) (tys : List SType) (bl : List (Built × List Nat)) (vals : List α) : List (List α) :=
  bl.map (fun p => p.2.filterMap (fun i =>
    match tys[i]?, vals[i]? with
    | some t, some v => some (quantBin c p.1.names.length t v)
    | _, _ => none))

theorem readBin_located_w (c : Coding α) (e : Endian) (tys : List SType) (b : Built) (idxs : List Nat)
    (hl : Located tys b idxs) (vals : List α) (hv : vals.length = tys.length) (rec : Bytes)
    (henc : encRecordBin c e tys vals = .ok rec) (post : Bytes) :
    b.readBin c e (rec ++ post) = .ok (idxs.filterMap (fun i =>
      match tys[i]?, vals[i]? with
      | some t, some v => some (quantBin c b.names.length t v)
      | _, _ => none)) := by
  obtain ⟨t, hty, hidx⟩ := hl.ty
  simp only [Built.readBin, hty, hl.offs]
  clear hl
  induction idxs with
  | nil => simp [pure, Except.pure]
  | cons i idxs ih =>
    obtain ⟨hi, hti⟩ := hidx i (by simp)
    have hi' : i < vals.length := by omega
    have hf := field_at_offset c e b.names.length tys vals rec [] post i hi hv henc
    simp only [List.nil_append, List.length_nil, Nat.zero_add, hti] at hf
    have ih' := ih (fun j hj => hidx j (by simp [hj]))
    simp [List.mapM_cons, hf, ih', bind, Except.bind, pure, Except.pure, List.getElem?_eq_getElem hi',
      List.getElem?_eq_getElem hi, hti]

theorem writer_vertex_block (c : Coding α) (e : Endian) (tys : List SType) (bl : List (Built × List Nat))
    (hbl : ∀ p ∈ bl, Located tys p.1 p.2) :
    ∀ (recs : List (List α)) (encs : List Bytes) (rest : Bytes),
      All2 (fun vals rec => encRecordBin c e tys vals = .ok rec) recs encs →
      (∀ vals ∈ recs, vals.length = tys.length) →
      readVertsBin c e ((tys.map SType.size).sum) (bl.map (·.1)) recs.length (encs.flatten ++ rest)
        = .ok (recs.map (rowOfW c tys bl), rest) := by
  intro recs encs rest hall
  induction hall with
  | nil => intro _; simp [readVertsBin]
  | @cons vals rec recs encs hxy _ ih =>
    intro hlen
    have hv := hlen vals (by simp)
    have hrl : rec.length = (tys.map SType.size).sum := encRecordBin_length c e tys vals rec hv hxy
    have hrow : (bl.map (·.1)).mapM (fun b => b.readBin c e ((rec ++ (encs.flatten ++ rest)).take ((tys.map SType.size).sum)))
        = .ok (rowOfW c tys bl vals) := by
      rw [List.take_left' hrl]
      clear ih
      induction bl with
      | nil => simp [rowOfW, pure, Except.pure]
      | cons p bl ihb =>
        have h1 := readBin_located_w c e tys p.1 p.2 (hbl p (by simp)) vals hv rec hxy []
        simp only [List.append_nil] at h1
        have h2 := ihb (fun q hq => hbl q (by simp [hq]))
        simp only [rowOfW] at h2 ⊢
        simp [List.mapM_cons, h1, h2, bind, Except.bind, pure, Except.pure]
    have ih' := ih (fun v hv' => hlen v (by simp [hv']))
    simp only [List.map_cons, List.flatten_cons, List.length_cons, readVertsBin, List.append_assoc]
    have hnot : ¬ ((rec ++ (encs.flatten ++ rest)).length < (tys.map SType.size).sum) := by simp [hrl]
    simp only [hnot, if_false, hrow, bind, Except.bind]
    rw [List.drop_left' hrl, ih']
    simp [pure, Except.pure]


/-! ## what `writeBody` emits, as data -/

/-- the pieces of a binary body: the vertex records (values and bytes) and the face bytes -/
theorem writeBody_bin_parts (c : Coding α) (cfg : WriterCfg) (m : MeshVal α) (body : Bytes)
    (hf : cfg.format ≠ .ascii) (h : writeBody c cfg m = .ok body) :
    ∃ (recs : List (List α)) (vbytes : List Bytes) (faceBytes : Bytes),
      (List.range m.attrLen).mapM (vertexRecord m (selectWriters cfg m)) = .ok recs ∧
      All2 (fun vals rec => encRecordBin c cfg.format.endian (writerTypes (selectWriters cfg m)) vals = .ok rec) recs vbytes ∧
      body = vbytes.flatten ++ faceBytes ∧
      (m.topo ≠ .triangle → faceBytes = []) ∧
      (m.topo = .triangle → ∃ tris fs, chunk3 m.indices = some tris ∧ faceRecords m tris = .ok fs ∧
        faceBytes = (fs.map (encFaceBin c cfg.format.endian)).flatten) := by
  simp only [writeBody] at h
  cases hrecs : (List.range m.attrLen).mapM (vertexRecord m (selectWriters cfg m)) with
  | error e => simp [hrecs, bind, Except.bind] at h
  | ok recs =>
    simp only [hrecs, bind, Except.bind] at h
    cases hfmt : cfg.format with
    | ascii => exact absurd hfmt hf
    | le =>
      simp only [hfmt] at h
      cases hv : recs.mapM (fun r => encRecordBin c Format.le.endian (writerTypes (selectWriters cfg m)) r) with
      | error e => simp [hv] at h
      | ok vbytes =>
        simp only [hv] at h
        have hall := mapM_ok_forall₂ _ _ _ hv
        by_cases htri : m.topo = .triangle
        · simp only [htri, ne_eq, not_true_eq_false, if_false] at h
          cases hc : chunk3 m.indices with
          | none => simp [hc] at h
          | some tris =>
            simp only [hc] at h
            cases hfs : faceRecords m tris with
            | error e => simp [hfs] at h
            | ok fs =>
              simp [hfs, pure, Except.pure] at h
              exact ⟨recs, vbytes, _, rfl, hall, h.symm, fun hne => absurd htri hne, fun _ => ⟨tris, fs, rfl, hfs, rfl⟩⟩
        · simp [htri, pure, Except.pure] at h
          exact ⟨recs, vbytes, [], rfl, hall, by simp [h], fun _ => rfl, fun ht => absurd ht htri⟩
    | be =>
      simp only [hfmt] at h
      cases hv : recs.mapM (fun r => encRecordBin c Format.be.endian (writerTypes (selectWriters cfg m)) r) with
      | error e => simp [hv] at h
      | ok vbytes =>
        simp only [hv] at h
        have hall := mapM_ok_forall₂ _ _ _ hv
        by_cases htri : m.topo = .triangle
        · simp only [htri, ne_eq, not_true_eq_false, if_false] at h
          cases hc : chunk3 m.indices with
          | none => simp [hc] at h
          | some tris =>
            simp only [hc] at h
            cases hfs : faceRecords m tris with
            | error e => simp [hfs] at h
            | ok fs =>
              simp [hfs, pure, Except.pure] at h
              exact ⟨recs, vbytes, _, rfl, hall, h.symm, fun hne => absurd htri hne, fun _ => ⟨tris, fs, rfl, hfs, rfl⟩⟩
        · simp [htri, pure, Except.pure] at h
          exact ⟨recs, vbytes, [], rfl, hall, by simp [h], fun _ => rfl, fun ht => absurd ht htri⟩

/-- STAGE 1 (vertex loop) of reading back a written binary body: the reader's vertex loop, run with ANY located readers,
yields for every vertex the stored-precision image of exactly the components each reader claims, and leaves exactly
the face bytes; the rest of `readBody` is the face stage and the mesh assembly -/
theorem readBody_writeBody_vertex (c : Coding α) (cfg : WriterCfg) (m : MeshVal α) (body : Bytes)
    (hf : cfg.format ≠ .ascii) (hwf : m.WF = true) (h : writeBody c cfg m = .ok body)
    (bl : List (Built × List Nat))
    (hbuilt : bl.map (·.1) = buildAll true (headerProps (selectWriters cfg m)) defaultReaders true)
    (hloc : ∀ p ∈ bl, Located (writerTypes (selectWriters cfg m)) p.1 p.2) :
    ∃ (recs : List (List α)) (vbytes : List Bytes) (faceBytes : Bytes),
      (List.range m.attrLen).mapM (vertexRecord m (selectWriters cfg m)) = .ok recs ∧
      body = vbytes.flatten ++ faceBytes ∧
      (m.topo ≠ .triangle → faceBytes = []) ∧
      (m.topo = .triangle → ∃ tris fs, chunk3 m.indices = some tris ∧ faceRecords m tris = .ok fs ∧
        faceBytes = (fs.map (encFaceBin c cfg.format.endian)).flatten) ∧
      readBody c defaultReader (writeHeader cfg m) body = (do
        let idxUv ← faceStageBin c cfg.format.endian (findElement (writeHeader cfg m) (nm "face")) faceBytes
        assemble (bl.map (·.1)) m.attrLen (recs.map (rowOfW c (writerTypes (selectWriters cfg m)) bl)) idxUv) := by
  obtain ⟨recs, vbytes, faceBytes, hrecs, hall, hbody, hpt, htri⟩ := writeBody_bin_parts c cfg m body hf h
  refine ⟨recs, vbytes, faceBytes, hrecs, hbody, hpt, htri, ?_⟩
  have hfmt : (writeHeader cfg m).format = cfg.format := rfl
  have hve : findElement (writeHeader cfg m) defaultReader.attributeElement
      = some ⟨nm "vertex", m.attrLen, ((selectWriters cfg m).map WProp.props).flatten⟩ := findElement_vertex cfg m
  rw [readBody_bin c defaultReader (writeHeader cfg m) body _ (headerProps (selectWriters cfg m)) (by rw [hfmt]; exact hf)
    hve (scalarProps_headerProps _) (by simp)]
  have hrl := (mapM_ok_forall₂ _ _ _ hrecs)
  have hlen : recs.length = m.attrLen := by simpa using hrl.length_eq
  have hvl : ∀ vals ∈ recs, vals.length = (writerTypes (selectWriters cfg m)).length :=
    All2.forall_right (Q := fun r => r.length = (writerTypes (selectWriters cfg m)).length)
      (fun i r hir => vertexRecord_length m hwf i _ r hir) hrl
  have hsum : ((headerProps (selectWriters cfg m)).map (fun p => p.2.size)).sum
      = ((writerTypes (selectWriters cfg m)).map SType.size).sum := by
    rw [← headerProps_types]; simp [Function.comp_def]
  have hvb := writer_vertex_block c cfg.format.endian _ bl hloc recs vbytes faceBytes hall hvl
  simp only [hfmt, hsum, Int.toNat_natCast, ← hlen, hbody]
  simp only [defaultReader, ← hbuilt, hvb, bind, Except.bind]

end PlyCompose
end PolyVerif
