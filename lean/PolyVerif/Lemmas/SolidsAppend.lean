/-
  C18: the step-by-step in-place loop `for i := lo; i < len(t); i++ { t[i] += k }` of `Model/AppendIR.lean` adds `k` to
  exactly the entries from `lo` on.
-/
import PolyVerif.Model.AppendIR
import PolyVerif.Model.Solids
import Mathlib.Tactic
namespace PolyVerif.AppendIR

theorem addLoop_spec (k : Nat) : ∀ (fuel i : Nat) (t : List Nat),
    (addLoop k fuel i t).length = t.length ∧
    ∀ j, (addLoop k fuel i t)[j]? = if i ≤ j ∧ j < i + fuel then t[j]?.map (· + k) else t[j]? := by
  intro fuel
  induction fuel with
  | zero => intro i t; simp [addLoop]
  | succ n ih =>
    intro i t
    unfold addLoop
    by_cases hi : i < t.length
    · rw [if_pos hi]
      obtain ⟨hl, hj⟩ := ih (i + 1) (t.set i (t.getD i 0 + k))
      refine ⟨by rw [hl, List.length_set], fun j => ?_⟩
      rw [hj j, List.getElem?_set]
      by_cases hji : i = j
      · subst hji
        have : ¬ (i + 1 ≤ i ∧ i < i + 1 + n) := by omega
        rw [if_neg this, if_pos rfl, if_pos hi, if_pos (by omega)]
        simp [List.getD_eq_getElem?_getD, List.getElem?_eq_getElem hi]
      · rw [if_neg hji]
        by_cases hc : i + 1 ≤ j ∧ j < i + 1 + n
        · rw [if_pos hc, if_pos (by omega)]
        · rw [if_neg hc, if_neg (by omega)]
    · rw [if_neg hi]
      refine ⟨rfl, fun j => ?_⟩
      by_cases hc : i ≤ j ∧ j < i + (n + 1)
      · rw [if_pos hc, List.getElem?_eq_none (by omega)]; rfl
      · rw [if_neg hc]

/-- the loop started at `len a` on `a ++ b` shifts exactly the `b` part -/
theorem addLoop_append (k : Nat) (a b : List Nat) :
    addLoop k (a ++ b).length a.length (a ++ b) = a ++ b.map (· + k) := by
  obtain ⟨hl, hj⟩ := addLoop_spec k (a ++ b).length a.length (a ++ b)
  apply List.ext_getElem?
  intro j
  rw [hj j]
  by_cases hja : j < a.length
  · rw [if_neg (by omega), List.getElem?_append_left hja, List.getElem?_append_left hja]
  · rw [List.getElem?_append_right (by omega), List.getElem?_append_right (by omega), List.getElem?_map]
    by_cases hc : a.length ≤ j ∧ j < a.length + (a ++ b).length
    · rw [if_pos hc]
    · rw [if_neg hc]
      have : b.length ≤ j - a.length := by simp only [List.length_append] at hc; omega
      rw [List.getElem?_eq_none this]; rfl

end PolyVerif.AppendIR
