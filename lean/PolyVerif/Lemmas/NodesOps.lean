/-
  C11 — the API operations preserve the invariant; facts about single steps and histories
  (core Lean only).
-/
import PolyVerif.Lemmas.NodesInv

namespace PolyVerif.Nodes
variable {V : Type}

/-! ### list helpers of `step?` -/

theorem listSet_mem {α : Type} {l l' : List α} {n : Nat} {x : α} (h : listSet l n x = some l') :
    ∀ a ∈ l', a ∈ l ∨ a = x := by
  induction l generalizing n l' with
  | nil => simp [listSet] at h
  | cons y ys ih =>
    cases n with
    | zero =>
      simp only [listSet, Option.some.injEq] at h
      subst h
      intro a ha
      rcases List.mem_cons.1 ha with rfl | ha
      · exact .inr rfl
      · exact .inl (List.mem_cons_of_mem _ ha)
    | succ n =>
      simp only [listSet, Option.map_eq_some_iff] at h
      obtain ⟨t, ht, rfl⟩ := h
      intro a ha
      rcases List.mem_cons.1 ha with rfl | ha
      · exact .inl (List.mem_cons_self ..)
      · rcases ih ht a ha with h | h
        · exact .inl (List.mem_cons_of_mem _ h)
        · exact .inr h

theorem listModify_mem {α : Type} {f : α → Option α} {l l' : List α} {n : Nat} (h : listModify f l n = some l') :
    ∀ a' ∈ l', a' ∈ l ∨ ∃ a ∈ l, f a = some a' := by
  induction l generalizing n l' with
  | nil => simp [listModify] at h
  | cons y ys ih =>
    cases n with
    | zero =>
      simp only [listModify, Option.map_eq_some_iff] at h
      obtain ⟨t, ht, rfl⟩ := h
      intro a ha
      rcases List.mem_cons.1 ha with rfl | ha
      · exact .inr ⟨y, List.mem_cons_self .., ht⟩
      · exact .inl (List.mem_cons_of_mem _ ha)
    | succ n =>
      simp only [listModify, Option.map_eq_some_iff] at h
      obtain ⟨t, ht, rfl⟩ := h
      intro a ha
      rcases List.mem_cons.1 ha with rfl | ha
      · exact .inl (List.mem_cons_self ..)
      · rcases ih ht a ha with h | ⟨b, hb, hfb⟩
        · exact .inl (List.mem_cons_of_mem _ h)
        · exact .inr ⟨b, List.mem_cons_of_mem _ hb, hfb⟩

theorem removeAt_mem {α : Type} {l l' : List α} {n : Nat} (h : removeAt l n = some l') : ∀ a ∈ l', a ∈ l := by
  induction l generalizing n l' with
  | nil => simp [removeAt] at h
  | cons y ys ih =>
    cases n with
    | zero =>
      simp only [removeAt, Option.some.injEq] at h
      subst h
      intro a ha
      exact List.mem_cons_of_mem _ ha
    | succ n =>
      simp only [removeAt, Option.map_eq_some_iff] at h
      obtain ⟨t, ht, rfl⟩ := h
      intro a ha
      rcases List.mem_cons.1 ha with rfl | ha
      · exact List.mem_cons_self ..
      · exact List.mem_cons_of_mem _ (ih ht a ha)

theorem mem_deps {s : SNode V} {d : Nat} : d ∈ s.deps ↔ some d ∈ s.scalars ∨ ∃ a ∈ s.arrays, d ∈ a := by
  simp [SNode.deps, List.mem_filterMap, List.mem_flatten]

/-! ### parameter update and re-wiring preserve the invariant -/

section
variable {F : Nat}

theorem setParam_ranked {rank : Nat → Nat} {g : Graph V} (hwf : Ranked rank F g) {p : Nat} {x : V} {n : Nat}
    (hp : g p = .param x n) (v : V) (m : Nat) : Ranked rank F (g.set p (.param v m)) := by
  refine ⟨hwf.1, ?_⟩
  intro i s hs d hd
  by_cases hi : i = p
  · subst hi; rw [Graph.set_same] at hs; cases hs
  · rw [Graph.set_ne _ _ hi] at hs; exact hwf.2 i s hs d hd

theorem setParam_inv {g : Graph V} (hinv : Inv F g) {p : Nat} {x : V} {n : Nat} (hp : g p = .param x n) (v : V) :
    Inv F (g.set p (.param v (n+1))) := by
  obtain ⟨rank, hwf⟩ := hinv.wf
  have hwf' : Acyclic F (g.set p (.param v (n+1))) := ⟨rank, setParam_ranked hwf hp v _⟩
  have hv : ver g p < ver (g.set p (.param v (n+1))) p := by simp [ver, hp]
  apply Inv.local hinv p _ hwf' (Nat.le_of_lt hv)
  · intro k hk hr; exact bump_up hinv p _ hwf' hv hk hr
  · intro s hs; cases hs
  · intro s rv hs; cases hs

/-- any change of the wiring of struct node `i` that raises the flag and keeps the graph acyclic -/
theorem rewire_inv {g : Graph V} (hinv : Inv F g) {i : Nat} {s s' : SNode V} (hs : g i = .struct s)
    (hflag : s'.flag = true) (hver : s'.version = s.version)
    (hac : Acyclic F (g.set i (.struct s'))) :
    Inv F (g.set i (.struct s')) := by
  obtain ⟨rank', hwf'⟩ := hac
  have hout : Outdated F (g.set i (.struct s')) i = true := by
    rw [Outdated_eq _ hwf', Graph.set_same]
    dsimp only
    cases s'.remembered with
    | none => rfl
    | some rv => simp [hflag]
  apply Inv.local hinv i _ ⟨rank', hwf'⟩
  · simp [ver, hs, hver]
  · intro k _ hr; exact Outdated_of_reach hwf' hr hout
  · intro t _ ho; rw [hout] at ho; cases ho
  · intro t rv ht _ hf; cases ht; rw [hflag] at hf; cases hf

/-- the node an operation is addressed to -/
def opNode : Op V → Nat
  | .setParam p _ => p
  | .setInput i _ _ => i
  | .arrayAdd i _ _ => i
  | .arrayRemove i _ _ => i
  | .read i => i
  | .rejectedMessage p => p

/-- what a `step` is: a parameter update, a flagged re-wiring, an evaluation, or a rejected call -/
inductive StepKind (F : Nat) (g : Graph V) : Op V → Graph V × Log → Prop
  | setParam {p x n v} : g p = .param x n → StepKind F g (.setParam p v) (g.set p (.param v (n+1)), [])
  | rewire {op i s s'} : (∀ j, op ≠ .read j) → (∀ p v, op ≠ .setParam p v) → opNode op = i →
      g i = .struct s → s'.flag = true → s'.version = s.version → s'.fn = s.fn → s'.next = s.next →
      StepKind F g op (g.set i (.struct s'), [])
  | read {i} : StepKind F g (.read i) (Eval F g i)
  | rejected {op} : (∀ j, op ≠ .read j) → (∀ p v x n, op = .setParam p v → g p ≠ .param x n) →
      StepKind F g op (g, [])

theorem step_kind (F : Nat) (g : Graph V) (op : Op V) : StepKind F g op (step F g op) := by
  cases op with
  | setParam p v =>
    simp only [step, step?]
    cases hp : g p with
    | param x n => exact .setParam hp
    | struct s => exact .rejected (by intro j h; cases h) (by intro p' v' x n h; cases h; rw [hp]; simp)
  | setInput i port src =>
    simp only [step, step?]
    cases hi : g i with
    | param x n => exact .rejected (by intro j h; cases h) (by intro _ _ _ _ h; cases h)
    | struct s =>
      dsimp only
      cases hl : listSet s.scalars port src with
      | none => exact .rejected (by intro j h; cases h) (by intro _ _ _ _ h; cases h)
      | some sc =>
        simp only [Option.map_some, Option.getD_some]
        exact .rewire (by intro j h; cases h) (by intro p v h; cases h) rfl hi rfl rfl rfl rfl
  | arrayAdd i arr src =>
    simp only [step, step?]
    cases hi : g i with
    | param x n => exact .rejected (by intro j h; cases h) (by intro _ _ _ _ h; cases h)
    | struct s =>
      dsimp only
      cases hl : listModify (fun a => some (a ++ [src])) s.arrays arr with
      | none => exact .rejected (by intro j h; cases h) (by intro _ _ _ _ h; cases h)
      | some ar =>
        simp only [Option.map_some, Option.getD_some]
        exact .rewire (by intro j h; cases h) (by intro p v h; cases h) rfl hi rfl rfl rfl rfl
  | arrayRemove i arr idx =>
    simp only [step, step?]
    cases hi : g i with
    | param x n => exact .rejected (by intro j h; cases h) (by intro _ _ _ _ h; cases h)
    | struct s =>
      dsimp only
      cases hl : listModify (fun a => removeAt a idx) s.arrays arr with
      | none => exact .rejected (by intro j h; cases h) (by intro _ _ _ _ h; cases h)
      | some ar =>
        simp only [Option.map_some, Option.getD_some]
        exact .rewire (by intro j h; cases h) (by intro p v h; cases h) rfl hi rfl rfl rfl rfl
  | read i => exact .read
  | rejectedMessage p =>
    simp only [step, step?]
    exact .rejected (by intro j h; cases h) (by intro _ _ _ _ h; cases h)

/-- one API call preserves the invariant as long as the graph stays acyclic -/
theorem step_inv {g : Graph V} (hinv : Inv F g) (op : Op V) (hac : Acyclic F (step F g op).1) :
    Inv F (step F g op).1 := by
  have h := step_kind F g op
  generalize step F g op = r at h hac
  cases h with
  | setParam hp => exact setParam_inv hinv hp _
  | rewire _ _ _ hs hf hv _ _ => exact rewire_inv hinv hs hf hv hac
  | read => exact (Eval_ok _ g hinv).inv
  | rejected => exact hinv

theorem run_inv {g : Graph V} (hinv : Inv F g) (ops : List (Op V)) (hv : Valid F g ops) : Inv F (run F g ops).1 := by
  induction ops generalizing g with
  | nil => exact hinv
  | cons op ops ih => exact ih (step_inv hinv op hv.1) hv.2

/-- no call changes which inputs a processor pulls -/
theorem step_readsAll {g : Graph V} (hra : ReadsAll g) (op : Op V) : ReadsAll (step F g op).1 := by
  have h := step_kind F g op
  generalize step F g op = r at h
  cases h with
  | @setParam p x n v hp =>
    intro i s hs
    dsimp only at hs
    by_cases hi : i = p
    · subst hi; rw [Graph.set_same] at hs; cases hs
    · rw [Graph.set_ne _ _ hi] at hs; exact hra i s hs
  | @rewire op i s s' _ _ _ hs _ _ _ hr =>
    intro j t ht
    dsimp only at ht
    by_cases hj : j = i
    · subst hj; rw [Graph.set_same] at ht; cases ht; rw [hr]; exact hra j s hs
    · rw [Graph.set_ne _ _ hj] at ht; exact hra j t ht
  | @read i => exact hra.of_static (Eval_static F g i)
  | rejected => exact hra

theorem run_readsAll {g : Graph V} (hra : ReadsAll g) (ops : List (Op V)) : ReadsAll (run F g ops).1 := by
  induction ops generalizing g with
  | nil => exact hra
  | cons op ops ih => exact ih (step_readsAll hra op)

/-- the state before any evaluation: acyclic, and no struct node has been processed -/
def Init (F : Nat) (g : Graph V) : Prop := Acyclic F g ∧ ∀ i s, g i = .struct s → s.remembered = none

theorem Init.inv {g : Graph V} (h : Init F g) : Inv F g := by
  obtain ⟨rank, hwf⟩ := h.1
  refine ⟨h.1, ?_, ?_⟩
  · intro i s hs ho
    rw [Outdated_eq g hwf, hs] at ho
    simp [h.2 i s hs] at ho
  · intro i s rv hs hr
    rw [h.2 i s hs] at hr
    cases hr

/-! ### a sufficient condition for `Valid`: one ranking for the whole history -/

/-- the new connection goes to a node of smaller rank -/
def opRanked (rank : Nat → Nat) : Op V → Prop
  | .setInput i _ (some src) => rank src < rank i
  | .arrayAdd i _ src => rank src < rank i
  | _ => True

theorem step_ranked {rank : Nat → Nat} {g : Graph V} (hwf : Ranked rank F g) (op : Op V) (hop : opRanked rank op) :
    Ranked rank F (step F g op).1 := by
  have hset : ∀ i s s', g i = .struct s → (∀ d ∈ s'.deps, d ∈ s.deps ∨ rank d < rank i) →
      Ranked rank F (g.set i (.struct s')) := by
    intro i s s' hs hd
    refine ⟨hwf.1, ?_⟩
    intro j t ht d hdt
    by_cases hj : j = i
    · subst hj
      rw [Graph.set_same] at ht
      cases ht
      rcases hd d hdt with h | h
      · exact hwf.2 j s hs d h
      · exact h
    · rw [Graph.set_ne _ _ hj] at ht; exact hwf.2 j t ht d hdt
  cases op with
  | setParam p v =>
    simp only [step, step?]
    cases hp : g p with
    | param x n => exact setParam_ranked hwf hp v _
    | struct s => exact hwf
  | setInput i port src =>
    simp only [step, step?]
    cases hi : g i with
    | param x n => exact hwf
    | struct s =>
      dsimp only
      cases hl : listSet s.scalars port src with
      | none => exact hwf
      | some sc =>
        simp only [Option.map_some, Option.getD_some]
        apply hset i s _ hi
        intro d hd
        rcases mem_deps.1 hd with h | ⟨a, ha, hda⟩
        · rcases listSet_mem hl _ h with h | h
          · exact .inl (mem_deps.2 (.inl h))
          · subst h; exact .inr hop
        · exact .inl (mem_deps.2 (.inr ⟨a, ha, hda⟩))
  | arrayAdd i arr src =>
    simp only [step, step?]
    cases hi : g i with
    | param x n => exact hwf
    | struct s =>
      dsimp only
      cases hl : listModify (fun a => some (a ++ [src])) s.arrays arr with
      | none => exact hwf
      | some ar =>
        simp only [Option.map_some, Option.getD_some]
        apply hset i s _ hi
        intro d hd
        rcases mem_deps.1 hd with h | ⟨a, ha, hda⟩
        · exact .inl (mem_deps.2 (.inl h))
        · rcases listModify_mem hl _ ha with h | ⟨b, hb, hfb⟩
          · exact .inl (mem_deps.2 (.inr ⟨a, h, hda⟩))
          · simp only [Option.some.injEq] at hfb
            subst hfb
            rcases List.mem_append.1 hda with h | h
            · exact .inl (mem_deps.2 (.inr ⟨b, hb, h⟩))
            · simp only [List.mem_singleton] at h; subst h; exact .inr hop
  | arrayRemove i arr idx =>
    simp only [step, step?]
    cases hi : g i with
    | param x n => exact hwf
    | struct s =>
      dsimp only
      cases hl : listModify (fun a => removeAt a idx) s.arrays arr with
      | none => exact hwf
      | some ar =>
        simp only [Option.map_some, Option.getD_some]
        apply hset i s _ hi
        intro d hd
        rcases mem_deps.1 hd with h | ⟨a, ha, hda⟩
        · exact .inl (mem_deps.2 (.inl h))
        · rcases listModify_mem hl _ ha with h | ⟨b, hb, hfb⟩
          · exact .inl (mem_deps.2 (.inr ⟨a, h, hda⟩))
          · exact .inl (mem_deps.2 (.inr ⟨b, hb, removeAt_mem hfb d hda⟩))
  | read i =>
    rw [show step F g (.read i) = Eval F g i by simp [step, step?]]
    exact hwf.of_static (Eval_static F g i)
  | rejectedMessage p =>
    simp only [step, step?]
    exact hwf

/-- histories that respect ONE ranking (e.g. "every dependency has a smaller id") are valid -/
theorem valid_of_fixed_rank {rank : Nat → Nat} {g : Graph V} (hwf : Ranked rank F g) (ops : List (Op V))
    (hops : ∀ op ∈ ops, opRanked rank op) : Valid F g ops ∧ Ranked rank F (run F g ops).1 := by
  induction ops generalizing g with
  | nil => exact ⟨trivial, hwf⟩
  | cons op ops ih =>
    have h1 := step_ranked hwf op (hops op (List.mem_cons_self ..))
    have h2 := ih h1 (fun o ho => hops o (List.mem_cons_of_mem _ ho))
    exact ⟨⟨⟨rank, h1⟩, h2.1⟩, h2.2⟩

theorem step_read (g : Graph V) (i : Nat) : step F g (.read i) = Eval F g i := by
  simp [step, step?]

/-- what is evaluated never affects acyclicity: only re-wirings have to be checked -/
theorem step_acyclic_of_not_rewire {g : Graph V} (hac : Acyclic F g) (op : Op V)
    (h : (∃ i, op = .read i) ∨ (∃ p v, op = .setParam p v)) : Acyclic F (step F g op).1 := by
  obtain ⟨rank, hwf⟩ := hac
  refine ⟨rank, step_ranked hwf op ?_⟩
  rcases h with ⟨i, rfl⟩ | ⟨p, v, rfl⟩ <;> trivial

/-! ### versions -/

def isParam : Node V → Bool
  | .param _ _ => true
  | .struct _ => false

/-- 1 if `op` is an accepted update of parameter `k` -/
def bumps (g : Graph V) (op : Op V) (k : Nat) : Nat :=
  match op with
  | .setParam p _ => if p = k ∧ isParam (g p) = true then 1 else 0
  | _ => 0

/-- accepted updates of parameter `k` along a history -/
def setCount (F : Nat) (g : Graph V) : List (Op V) → Nat → Nat
  | [], _ => 0
  | op :: ops, k => bumps g op k + setCount F (step F g op).1 ops k

theorem version_step {g : Graph V} (hinv : Inv F g) (op : Op V) (k : Nat) :
    ver (step F g op).1 k = ver g k + cnt (step F g op).2 k + bumps g op k := by
  have h := step_kind F g op
  generalize step F g op = r at h
  cases h with
  | @setParam p x n v hp =>
    by_cases hk : k = p
    · subst hk; simp [bumps, cnt, ver, hp, isParam]
    · have : ¬ p = k := fun h => hk h.symm
      simp [bumps, cnt, ver_set_ne g _ hk, this]
  | @rewire op i s s' hnr hnp _ hs _ hv _ _ =>
    have hb : bumps g op k = 0 := by
      cases op with
      | setParam p v => exact absurd rfl (hnp p v)
      | _ => rfl
    by_cases hk : k = i
    · subst hk; simp [hb, cnt, ver, hs, hv]
    · simp [hb, cnt, ver_set_ne g _ hk]
  | read => simp [bumps, (Eval_ok _ g hinv).count k]
  | @rejected op _ hp =>
    have hb : bumps g op k = 0 := by
      cases op with
      | setParam p v =>
        simp only [bumps]
        cases hgp : g p with
        | param x n => exact absurd hgp (hp p v x n rfl)
        | struct s => simp [isParam]
      | _ => rfl
    simp [hb, cnt]

theorem version_run {g : Graph V} (hinv : Inv F g) (ops : List (Op V)) (hv : Valid F g ops) (k : Nat) :
    ver (run F g ops).1 k = ver g k + cnt (run F g ops).2 k + setCount F g ops k := by
  induction ops generalizing g with
  | nil => simp [run, cnt, setCount]
  | cons op ops ih =>
    simp only [run, setCount, cnt_append]
    rw [ih (step_inv hinv op hv.1) hv.2, version_step hinv op k]
    omega

theorem step_isParam (g : Graph V) (op : Op V) (k : Nat) :
    isParam ((step F g op).1 k) = isParam (g k) := by
  have h := step_kind F g op
  generalize step F g op = r at h
  cases h with
  | @setParam p x n v hp =>
    by_cases hk : k = p
    · subst hk; simp [isParam, hp]
    · simp [Graph.set_ne g _ hk]
  | @rewire op i s s' _ _ _ hs _ _ _ _ =>
    by_cases hk : k = i
    · subst hk; simp [isParam, hs]
    · simp [Graph.set_ne g _ hk]
  | @read i =>
    have := Eval_static F g i k
    cases hg : g k with
    | param x v => rw [hg] at this; rw [StaticEq.param_left this]
    | struct s => rw [hg] at this; obtain ⟨t, ht, -⟩ := StaticEq.struct_left this; rw [ht]; rfl
  | rejected => rfl

theorem setCount_struct (g : Graph V) (ops : List (Op V)) (k : Nat) (hk : isParam (g k) = false) :
    setCount F g ops k = 0 := by
  induction ops generalizing g with
  | nil => rfl
  | cons op ops ih =>
    simp only [setCount]
    rw [ih _ (by rw [step_isParam]; exact hk)]
    cases op with
    | setParam p v =>
      simp only [bumps]
      by_cases hp : p = k
      · subst hp; simp [hk]
      · simp [hp]
    | _ => rfl

theorem run_isParam (g : Graph V) (ops : List (Op V)) (k : Nat) :
    isParam ((run F g ops).1 k) = isParam (g k) := by
  induction ops generalizing g with
  | nil => rfl
  | cons op ops ih => simp only [run]; rw [ih, step_isParam]

/-- executable check of a ranking on the first `N` nodes -/
def rankedUpTo (rank : Nat → Nat) (N : Nat) (g : Graph V) : Bool :=
  (List.range N).all fun i =>
    match g i with
    | .param _ _ => true
    | .struct s => s.deps.all fun d => decide (rank d < rank i)

theorem ranked_of_check {rank : Nat → Nat} {g : Graph V} (N : Nat) (hb : ∀ i, rank i < F)
    (hp : ∀ i, N ≤ i → isParam (g i) = true) (hc : rankedUpTo rank N g = true) : Ranked rank F g := by
  refine ⟨hb, ?_⟩
  intro i s hs d hd
  by_cases hi : i < N
  · simp only [rankedUpTo, List.all_eq_true, List.mem_range] at hc
    have := hc i hi
    rw [hs] at this
    simp only [List.all_eq_true, decide_eq_true_eq] at this
    exact this d hd
  · have := hp i (by omega)
    rw [hs] at this
    cases this

/-! ### a node whose cone is not touched stays processed and is not executed -/

/-- `op` updates a parameter in the cone of `j` or re-wires a node in the cone of `j`
    (for `j`'s own wiring: the cone contains `j`) -/
def touches (g : Graph V) (op : Op V) (j : Nat) : Prop :=
  match op with
  | .read _ => False
  | op => Reach g j (opNode op)

/-- no operation of the history touches the cone of `j` (cone taken in the state the operation is applied to) -/
def Untouched (F : Nat) (g : Graph V) : List (Op V) → Nat → Prop
  | [], _ => True
  | op :: ops, j => ¬ touches g op j ∧ Untouched F (step F g op).1 ops j

theorem untouched_step {g : Graph V} (hinv : Inv F g) {j : Nat} (hj : Outdated F g j = false) (op : Op V)
    (hq : ¬ touches g op j) :
    Outdated F (step F g op).1 j = false ∧ cnt (step F g op).2 j = 0 := by
  obtain ⟨rank, hwf⟩ := hinv.wf
  have h := step_kind F g op
  generalize step F g op = r at h
  have hset : ∀ p n', ¬ Reach g j p → Outdated F (g.set p n') j = false := by
    intro p n' hnr
    rw [Outdated_congr_cone F g _ j]
    · exact hj
    · intro k hk
      apply Graph.set_ne
      intro hkp; subst hkp; exact hnr hk
  cases h with
  | @setParam p x n v hp => exact ⟨hset p _ (by simpa [touches, opNode] using hq), by simp [cnt]⟩
  | @rewire op i s s' hnr hnp hi _ _ _ _ _ =>
    refine ⟨hset i _ ?_, by simp [cnt]⟩
    cases op with
    | read j' => exact absurd rfl (hnr j')
    | _ => simpa [touches, hi] using hq
  | @read i =>
    have hok := Eval_ok i g hinv
    refine ⟨Outdated_stable hwf hok.evo.keep hj, cnt_eq_zero ?_⟩
    intro e he hej
    have := hok.logOut e he
    rw [hej, hj] at this
    cases this
  | rejected => exact ⟨hj, by simp [cnt]⟩

theorem untouched_run {g : Graph V} (hinv : Inv F g) {j : Nat} (hj : Outdated F g j = false) (ops : List (Op V))
    (hv : Valid F g ops) (hq : Untouched F g ops j) :
    Outdated F (run F g ops).1 j = false ∧ cnt (run F g ops).2 j = 0 := by
  induction ops generalizing g with
  | nil => exact ⟨hj, by simp [run, cnt]⟩
  | cons op ops ih =>
    have h1 := untouched_step hinv hj op hq.1
    have h2 := ih (step_inv hinv op hv.1) h1.1 hv.2 hq.2
    simp only [run, cnt_append]
    exact ⟨h2.1, by omega⟩

/-- every node executed by a read is processed (not outdated) afterwards -/
theorem executed_fresh {g : Graph V} (hinv : Inv F g) (hra : ReadsAll g) (i : Nat) (e : Nat × Nat)
    (he : e ∈ (Eval F g i).2) :
    Outdated F (Eval F g i).1 e.1 = false := by
  have hok := Eval_ok i g hinv
  obtain ⟨rank', hwf'⟩ := hok.inv.wf
  have hr : Reach (Eval F g i).1 i e.1 := (hok.logCone e he).of_static hok.evo.static
  cases ho : Outdated F (Eval F g i).1 e.1 with
  | false => rfl
  | true =>
    have := Outdated_of_reach hwf' hr ho
    rw [hok.fresh hra] at this
    cases this

theorem cnt_pos_mem {l : Log} {k : Nat} (h : 0 < cnt l k) : ∃ e ∈ l, e.1 = k := by
  simp only [cnt, List.countP_pos_iff] at h
  obtain ⟨e, he, hk⟩ := h
  exact ⟨e, he, by simpa using hk⟩

theorem not_reach_above {rank : Nat → Nat} {g : Graph V} (hwf : Ranked rank F g) {j k : Nat} (h : rank j < rank k) :
    ¬ Reach g j k :=
  fun hr => by have := hr.rank_le hwf; omega

/-- operations addressed to nodes of larger rank than `j` (and reads) never touch `j`'s cone -/
theorem untouched_of_above {rank : Nat → Nat} {g : Graph V} (hwf : Ranked rank F g) (j : Nat) (ops : List (Op V))
    (hops : ∀ op ∈ ops, opRanked rank op)
    (h : ∀ op ∈ ops, (∃ i, op = .read i) ∨ rank j < rank (opNode op)) : Untouched F g ops j := by
  induction ops generalizing g with
  | nil => trivial
  | cons op ops ih =>
    refine ⟨?_, ih (step_ranked hwf op (hops op (List.mem_cons_self ..)))
      (fun o ho => hops o (List.mem_cons_of_mem _ ho)) (fun o ho => h o (List.mem_cons_of_mem _ ho))⟩
    rcases h op (List.mem_cons_self ..) with ⟨i, rfl⟩ | hlt
    · simp [touches]
    · cases op with
      | read i => simp [touches]
      | _ => exact not_reach_above hwf hlt

end

end PolyVerif.Nodes
