/-
  C11 — the API operations preserve the invariant; facts about single steps and histories
  (core Lean only).
-/
import PolyVerif.Lemmas.NodesInv

namespace PolyVerif.Nodes
variable {V : Type}

/-! ### list helpers of `step?` -/

theorem listSet_mem {α : Type} {l l' : List α} {n : Nat} {x : α} (h : listSet l n x = some l') :
    ∀ a ∈ l', a ∈ l ∨ a = x := by
  induction l generalizing n l' with
  | nil => simp [listSet] at h
  | cons y ys ih =>
    cases n with
    | zero =>
      simp only [listSet, Option.some.injEq] at h
      subst h
      intro a ha
      rcases List.mem_cons.1 ha with rfl | ha
      · exact .inr rfl
      · exact .inl (List.mem_cons_of_mem _ ha)
    | succ n =>
      simp only [listSet, Option.map_eq_some_iff] at h
      obtain ⟨t, ht, rfl⟩ := h
      intro a ha
      rcases List.mem_cons.1 ha with rfl | ha
      · exact .inl (List.mem_cons_self ..)
      · rcases ih ht a ha with h | h
        · exact .inl (List.mem_cons_of_mem _ h)
        · exact .inr h

theorem listModify_mem {α : Type} {f : α → Option α} {l l' : List α} {n : Nat} (h : listModify f l n = some l') :
    ∀ a' ∈ l', a' ∈ l ∨ ∃ a ∈ l, f a = some a' := by
  induction l generalizing n l' with
  | nil => simp [listModify] at h
  | cons y ys ih =>
    cases n with
    | zero =>
      simp only [listModify, Option.map_eq_some_iff] at h
      obtain ⟨t, ht, rfl⟩ := h
      intro a ha
      rcases List.mem_cons.1 ha with rfl | ha
      · exact .inr ⟨y, List.mem_cons_self .., ht⟩
      · exact .inl (List.mem_cons_of_mem _ ha)
    | succ n =>
      simp only [listModify, Option.map_eq_some_iff] at h
      obtain ⟨t, ht, rfl⟩ := h
      intro a ha
      rcases List.mem_cons.1 ha with rfl | ha
      · exact .inl (List.mem_cons_self ..)
      · rcases ih ht a ha with h | ⟨b, hb, hfb⟩
        · exact .inl (List.mem_cons_of_mem _ h)
        · exact .inr ⟨b, List.mem_cons_of_mem _ hb, hfb⟩

theorem removeAt_mem {α : Type} {l l' : List α} {n : Nat} (h : removeAt l n = some l') : ∀ a ∈ l', a ∈ l := by
  induction l generalizing n l' with
  | nil => simp [removeAt] at h
  | cons y ys ih =>
    cases n with
    | zero =>
      simp only [removeAt, Option.some.injEq] at h
      subst h
      intro a ha
      exact List.mem_cons_of_mem _ ha
    | succ n =>
      simp only [removeAt, Option.map_eq_some_iff] at h
      obtain ⟨t, ht, rfl⟩ := h
      intro a ha
      rcases List.mem_cons.1 ha with rfl | ha
      · exact List.mem_cons_self ..
      · exact List.mem_cons_of_mem _ (ih ht a ha)

theorem mem_deps {s : SNode V} {d : Nat} : d ∈ s.deps ↔ some d ∈ s.scalars ∨ ∃ a ∈ s.arrays, d ∈ a := by
  simp [SNode.deps, List.mem_filterMap, List.mem_flatten]

/-! ### parameter update and re-wiring preserve the invariant -/

theorem setParam_inv {g : Graph V} (hinv : Inv g) {p : Nat} {x : V} {n : Nat} (hp : g p = .param x n) (v : V) :
    Inv (g.set p (.param v (n+1))) := by
  have hwf' : WF (g.set p (.param v (n+1))) := by
    intro i s hs d hd
    by_cases hi : i = p
    · subst hi; rw [Graph.set_same] at hs; cases hs
    · rw [Graph.set_ne _ _ hi] at hs; exact hinv.wf i s hs d hd
  have hv : ver g p < ver (g.set p (.param v (n+1))) p := by simp [ver, hp]
  apply Inv.local hinv p _ hwf' (Nat.le_of_lt hv)
  · intro k hk hr; exact bump_up hinv p _ hwf' hv hk hr
  · intro s hs; cases hs
  · intro s rv hs; cases hs

/-- any change of the wiring of struct node `i` that raises the flag -/
theorem rewire_inv {g : Graph V} (hinv : Inv g) {i : Nat} {s s' : SNode V} (hs : g i = .struct s)
    (hflag : s'.flag = true) (hver : s'.version = s.version) (hdeps : ∀ d ∈ s'.deps, d < i) :
    Inv (g.set i (.struct s')) := by
  have hwf' : WF (g.set i (.struct s')) := by
    intro j t ht d hd
    by_cases hj : j = i
    · subst hj; rw [Graph.set_same] at ht; cases ht; exact hdeps d hd
    · rw [Graph.set_ne _ _ hj] at ht; exact hinv.wf j t ht d hd
  have hout : Outdated (g.set i (.struct s')) i = true := by
    rw [Outdated_eq _ hwf', Graph.set_same]
    dsimp only
    cases s'.remembered with
    | none => rfl
    | some rv => simp [hflag]
  apply Inv.local hinv i _ hwf'
  · simp [ver, hs, hver]
  · intro k _ hr; exact Outdated_of_reach hwf' hr hout
  · intro t _ ho; rw [hout] at ho; cases ho
  · intro t rv ht _ hf; cases ht; rw [hflag] at hf; cases hf

/-- the node an operation is addressed to -/
def opNode : Op V → Nat
  | .setParam p _ => p
  | .setInput i _ _ => i
  | .arrayAdd i _ _ => i
  | .arrayRemove i _ _ => i
  | .read i => i

/-- what a successful `step?` is: a parameter update, a flagged re-wiring, or an evaluation -/
inductive StepKind (g : Graph V) : Op V → Graph V × Log → Prop
  | setParam {p x n v} : g p = .param x n → StepKind g (.setParam p v) (g.set p (.param v (n+1)), [])
  | rewire {op i s s'} : (∀ j, op ≠ .read j) → (∀ p v, op ≠ .setParam p v) → opNode op = i →
      g i = .struct s → s'.flag = true → s'.version = s.version → s'.fn = s.fn →
      (∀ d ∈ s'.deps, d < i) → StepKind g op (g.set i (.struct s'), [])
  | read {i} : StepKind g (.read i) (Eval g i)
  | rejected {op} : (∀ j, op ≠ .read j) → (∀ p v x n, op = .setParam p v → g p ≠ .param x n) →
      StepKind g op (g, [])

theorem step_kind (g : Graph V) (hwf : WF g) (op : Op V) : StepKind g op (step g op) := by
  cases op with
  | setParam p v =>
    simp only [step, step?]
    cases hp : g p with
    | param x n => exact .setParam hp
    | struct s => exact .rejected (by intro j h; cases h) (by intro p' v' x n h; cases h; rw [hp]; simp)
  | setInput i port src =>
    simp only [step, step?]
    cases hi : g i with
    | param x n => exact .rejected (by intro j h; cases h) (by intro _ _ _ _ h; cases h)
    | struct s =>
      dsimp only
      cases hok : srcOk i src with
      | false => exact .rejected (by intro j h; cases h) (by intro _ _ _ _ h; cases h)
      | true =>
        simp only [if_true]
        cases hl : listSet s.scalars port src with
        | none => exact .rejected (by intro j h; cases h) (by intro _ _ _ _ h; cases h)
        | some sc =>
          simp only [Option.map_some, Option.getD_some]
          refine .rewire (by intro j h; cases h) (by intro p v h; cases h) rfl hi rfl rfl rfl ?_
          intro d hd
          rcases mem_deps.1 hd with h | ⟨a, ha, hda⟩
          · rcases listSet_mem hl _ h with h | h
            · exact hwf i s hi d (mem_deps.2 (.inl h))
            · subst h; simpa [srcOk] using hok
          · exact hwf i s hi d (mem_deps.2 (.inr ⟨a, ha, hda⟩))
  | arrayAdd i arr src =>
    simp only [step, step?]
    cases hi : g i with
    | param x n => exact .rejected (by intro j h; cases h) (by intro _ _ _ _ h; cases h)
    | struct s =>
      dsimp only
      by_cases hok : src < i
      · simp only [hok, if_true]
        cases hl : listModify (fun a => some (a ++ [src])) s.arrays arr with
        | none => exact .rejected (by intro j h; cases h) (by intro _ _ _ _ h; cases h)
        | some ar =>
          simp only [Option.map_some, Option.getD_some]
          refine .rewire (by intro j h; cases h) (by intro p v h; cases h) rfl hi rfl rfl rfl ?_
          intro d hd
          rcases mem_deps.1 hd with h | ⟨a, ha, hda⟩
          · exact hwf i s hi d (mem_deps.2 (.inl h))
          · rcases listModify_mem hl _ ha with h | ⟨b, hb, hfb⟩
            · exact hwf i s hi d (mem_deps.2 (.inr ⟨a, h, hda⟩))
            · simp only [Option.some.injEq] at hfb
              subst hfb
              rcases List.mem_append.1 hda with h | h
              · exact hwf i s hi d (mem_deps.2 (.inr ⟨b, hb, h⟩))
              · simp only [List.mem_singleton] at h; subst h; exact hok
      · simp only [hok, if_false]
        exact .rejected (by intro j h; cases h) (by intro _ _ _ _ h; cases h)
  | arrayRemove i arr idx =>
    simp only [step, step?]
    cases hi : g i with
    | param x n => exact .rejected (by intro j h; cases h) (by intro _ _ _ _ h; cases h)
    | struct s =>
      dsimp only
      cases hl : listModify (fun a => removeAt a idx) s.arrays arr with
      | none => exact .rejected (by intro j h; cases h) (by intro _ _ _ _ h; cases h)
      | some ar =>
        simp only [Option.map_some, Option.getD_some]
        refine .rewire (by intro j h; cases h) (by intro p v h; cases h) rfl hi rfl rfl rfl ?_
        intro d hd
        rcases mem_deps.1 hd with h | ⟨a, ha, hda⟩
        · exact hwf i s hi d (mem_deps.2 (.inl h))
        · rcases listModify_mem hl _ ha with h | ⟨b, hb, hfb⟩
          · exact hwf i s hi d (mem_deps.2 (.inr ⟨a, h, hda⟩))
          · exact hwf i s hi d (mem_deps.2 (.inr ⟨b, hb, removeAt_mem hfb d hda⟩))
  | read i => exact .read

theorem step_inv {g : Graph V} (hinv : Inv g) (op : Op V) : Inv (step g op).1 := by
  have h := step_kind g hinv.wf op
  generalize step g op = r at h
  cases h with
  | setParam hp => exact setParam_inv hinv hp _
  | rewire _ _ _ hs hf hv _ hd => exact rewire_inv hinv hs hf hv hd
  | read => exact (Eval_ok _ g hinv).inv
  | rejected => exact hinv

theorem run_inv {g : Graph V} (hinv : Inv g) (ops : List (Op V)) : Inv (run g ops).1 := by
  induction ops generalizing g with
  | nil => exact hinv
  | cons op ops ih => exact ih (step_inv hinv op)

/-- the state before any evaluation: no struct node has been processed -/
def Init (g : Graph V) : Prop := WF g ∧ ∀ i s, g i = .struct s → s.remembered = none

theorem Init.inv {g : Graph V} (h : Init g) : Inv g := by
  refine ⟨h.1, ?_, ?_⟩
  · intro i s hs ho
    rw [Outdated_eq g h.1, hs] at ho
    simp [h.2 i s hs] at ho
  · intro i s rv hs hr
    rw [h.2 i s hs] at hr
    cases hr

end PolyVerif.Nodes

namespace PolyVerif.Nodes
variable {V : Type}

theorem step_read (g : Graph V) (i : Nat) : step g (.read i) = Eval g i := by
  simp [step, step?]

/-! ### versions -/

def isParam : Node V → Bool
  | .param _ _ => true
  | .struct _ => false

/-- 1 if `op` is an accepted update of parameter `k` -/
def bumps (g : Graph V) (op : Op V) (k : Nat) : Nat :=
  match op with
  | .setParam p _ => if p = k ∧ isParam (g p) = true then 1 else 0
  | _ => 0

/-- accepted updates of parameter `k` along a history -/
def setCount (g : Graph V) : List (Op V) → Nat → Nat
  | [], _ => 0
  | op :: ops, k => bumps g op k + setCount (step g op).1 ops k

theorem version_step {g : Graph V} (hinv : Inv g) (op : Op V) (k : Nat) :
    ver (step g op).1 k = ver g k + cnt (step g op).2 k + bumps g op k := by
  have h := step_kind g hinv.wf op
  generalize step g op = r at h
  cases h with
  | @setParam p x n v hp =>
    by_cases hk : k = p
    · subst hk; simp [bumps, cnt, ver, hp, isParam]
    · have : ¬ p = k := fun h => hk h.symm
      simp [bumps, cnt, ver_set_ne g _ hk, this]
  | @rewire op i s s' hnr hnp _ hs _ hv _ _ =>
    have hb : bumps g op k = 0 := by
      cases op with
      | setParam p v => exact absurd rfl (hnp p v)
      | _ => rfl
    by_cases hk : k = i
    · subst hk; simp [hb, cnt, ver, hs, hv]
    · simp [hb, cnt, ver_set_ne g _ hk]
  | read => simp [bumps, (Eval_ok _ g hinv).count k]
  | @rejected op _ hp =>
    have hb : bumps g op k = 0 := by
      cases op with
      | setParam p v =>
        simp only [bumps]
        cases hgp : g p with
        | param x n => exact absurd hgp (hp p v x n rfl)
        | struct s => simp [isParam]
      | _ => rfl
    simp [hb, cnt]

theorem version_run {g : Graph V} (hinv : Inv g) (ops : List (Op V)) (k : Nat) :
    ver (run g ops).1 k = ver g k + cnt (run g ops).2 k + setCount g ops k := by
  induction ops generalizing g with
  | nil => simp [run, cnt, setCount]
  | cons op ops ih =>
    simp only [run, setCount, cnt_append]
    rw [ih (step_inv hinv op), version_step hinv op k]
    omega

theorem step_isParam {g : Graph V} (hwf : WF g) (op : Op V) (k : Nat) :
    isParam ((step g op).1 k) = isParam (g k) := by
  have h := step_kind g hwf op
  generalize step g op = r at h
  cases h with
  | @setParam p x n v hp =>
    by_cases hk : k = p
    · subst hk; simp [isParam, hp]
    · simp [Graph.set_ne g _ hk]
  | @rewire op i s s' _ _ _ hs _ _ _ _ =>
    by_cases hk : k = i
    · subst hk; simp [isParam, hs]
    · simp [Graph.set_ne g _ hk]
  | @read i =>
    have := Eval_static g i k
    cases hg : g k with
    | param x v => rw [hg] at this; rw [StaticEq.param_left this]
    | struct s => rw [hg] at this; obtain ⟨t, ht, -⟩ := StaticEq.struct_left this; rw [ht]; rfl
  | rejected => rfl

theorem setCount_struct {g : Graph V} (hinv : Inv g) (ops : List (Op V)) (k : Nat) (hk : isParam (g k) = false) :
    setCount g ops k = 0 := by
  induction ops generalizing g with
  | nil => rfl
  | cons op ops ih =>
    simp only [setCount]
    rw [ih (step_inv hinv op) (by rw [step_isParam hinv.wf]; exact hk)]
    cases op with
    | setParam p v =>
      simp only [bumps]
      by_cases hp : p = k
      · subst hp; simp [hk]
      · simp [hp]
    | _ => rfl

/-! ### a node whose cone is not touched stays processed and is not executed -/

/-- `op` updates a parameter in the cone of `j` or re-wires a node in the cone of `j`
    (for `j`'s own wiring: the cone contains `j`) -/
def touches (g : Graph V) (op : Op V) (j : Nat) : Prop :=
  match op with
  | .read _ => False
  | op => Reach g j (opNode op)

/-- no operation of the history touches the cone of `j` (cone taken in the state the operation is applied to) -/
def Untouched (g : Graph V) : List (Op V) → Nat → Prop
  | [], _ => True
  | op :: ops, j => ¬ touches g op j ∧ Untouched (step g op).1 ops j

theorem untouched_step {g : Graph V} (hinv : Inv g) {j : Nat} (hj : Outdated g j = false) (op : Op V)
    (hq : ¬ touches g op j) :
    Outdated (step g op).1 j = false ∧ cnt (step g op).2 j = 0 := by
  have h := step_kind g hinv.wf op
  generalize step g op = r at h
  have hset : ∀ p n', ¬ Reach g j p → Outdated (g.set p n') j = false := by
    intro p n' hnr
    rw [Outdated_congr_cone g _ j]
    · exact hj
    · intro k hk
      apply Graph.set_ne
      intro hkp; subst hkp; exact hnr hk
  cases h with
  | @setParam p x n v hp => exact ⟨hset p _ (by simpa [touches, opNode] using hq), by simp [cnt]⟩
  | @rewire op i s s' hnr hnp hi _ _ _ _ _ =>
    refine ⟨hset i _ ?_, by simp [cnt]⟩
    cases op with
    | read j' => exact absurd rfl (hnr j')
    | _ => simpa [touches, hi] using hq
  | @read i =>
    have hok := Eval_ok i g hinv
    refine ⟨Outdated_stable hinv.wf hok.evo.keep hj, cnt_eq_zero ?_⟩
    intro e he hej
    have := (hok.logOut e he).1
    rw [hej, hj] at this
    cases this
  | rejected => exact ⟨hj, by simp [cnt]⟩

theorem untouched_run {g : Graph V} (hinv : Inv g) {j : Nat} (hj : Outdated g j = false) (ops : List (Op V))
    (hq : Untouched g ops j) :
    Outdated (run g ops).1 j = false ∧ cnt (run g ops).2 j = 0 := by
  induction ops generalizing g with
  | nil => exact ⟨hj, by simp [run, cnt]⟩
  | cons op ops ih =>
    have h1 := untouched_step hinv hj op hq.1
    have h2 := ih (step_inv hinv op) h1.1 hq.2
    simp only [run, cnt_append]
    exact ⟨h2.1, by omega⟩

/-- every node executed by a read is processed (not outdated) afterwards -/
theorem executed_fresh {g : Graph V} (hinv : Inv g) (i : Nat) (e : Nat × Nat) (he : e ∈ (Eval g i).2) :
    Outdated (Eval g i).1 e.1 = false := by
  have hok := Eval_ok i g hinv
  have hr : Reach (Eval g i).1 i e.1 := (hok.logCone e he).of_static hok.evo.static
  cases ho : Outdated (Eval g i).1 e.1 with
  | false => rfl
  | true =>
    have := Outdated_of_reach hok.inv.wf hr ho
    rw [hok.fresh] at this
    cases this

theorem cnt_pos_mem {l : Log} {k : Nat} (h : 0 < cnt l k) : ∃ e ∈ l, e.1 = k := by
  simp only [cnt, List.countP_pos_iff] at h
  obtain ⟨e, he, hk⟩ := h
  exact ⟨e, he, by simpa using hk⟩

end PolyVerif.Nodes

namespace PolyVerif.Nodes
variable {V : Type}

theorem not_reach_above {g : Graph V} (hwf : WF g) {j k : Nat} (h : j < k) : ¬ Reach g j k :=
  fun hr => by have := hr.le hwf; omega

/-- operations addressed to nodes with a larger id than `j` (and reads) never touch `j`'s cone -/
theorem untouched_of_above {g : Graph V} (hinv : Inv g) (j : Nat) (ops : List (Op V))
    (h : ∀ op ∈ ops, (∃ i, op = .read i) ∨ j < opNode op) : Untouched g ops j := by
  induction ops generalizing g with
  | nil => trivial
  | cons op ops ih =>
    refine ⟨?_, ih (step_inv hinv op) (fun o ho => h o (List.mem_cons_of_mem _ ho))⟩
    rcases h op (List.mem_cons_self ..) with ⟨i, rfl⟩ | hlt
    · simp [touches]
    · cases op with
      | read i => simp [touches]
      | _ => exact not_reach_above hinv.wf hlt

end PolyVerif.Nodes
