/-
  C08 (round 2) — `unweld` (meshops.Unweld as the PLY reader uses it for textured files) evaluated on the mesh the reader
  assembles: every attribute array has one entry per vertex, so with all face indices inside the vertex range it cannot
  fail, and the result is explicit.  Core Lean only.
-/
import PolyVerif.Lemmas.PlyFaces

namespace PolyVerif
namespace PlyUnweld
open Ply PlySpec PlyLemmas PlyCompose PlyFaces

variable {α : Type}

theorem set_attr_len (m : MeshVal α) (d : Nat) (n : Bytes) (data : List (List α)) (k : Nat)
    (hm : ∀ a ∈ m.attrs, a.data.length = k) (hd : data.length = k) :
    ∀ a ∈ (m.set d n data).attrs, a.data.length = k := by
  intro a ha
  simp only [MeshVal.set] at ha
  split at ha
  · exact hm a (List.mem_filter.mp ha).1
  · rcases List.mem_append.mp ha with h | h
    · exact hm a (List.mem_filter.mp h).1
    · simp only [List.mem_singleton] at h; subst h; exact hd

/-- every attribute the reader's `UpdateMesh` calls install has one entry per vertex record -/
theorem applyColumns_attr_len (built : List Built) (rows : List (List (List α))) :
    ∀ (m : MeshVal α), (∀ a ∈ m.attrs, a.data.length = rows.length) →
      ∀ a ∈ (applyColumns m built rows).attrs, a.data.length = rows.length := by
  unfold applyColumns
  generalize built.zipIdx = l
  induction l with
  | nil => intro m hm; exact hm
  | cons x l ih =>
    intro m hm
    simp only [List.foldl_cons]
    exact ih _ (set_attr_len m _ _ _ _ hm (by simp))

theorem applyColumns_indices (built : List Built) (rows : List (List (List α))) :
    ∀ (m : MeshVal α), (applyColumns m built rows).indices = m.indices ∧ (applyColumns m built rows).topo = m.topo
      ∧ (applyColumns m built rows).texURI = m.texURI := by
  unfold applyColumns
  generalize built.zipIdx = l
  induction l with
  | nil => intro m; exact ⟨rfl, rfl, rfl⟩
  | cons x l ih =>
    intro m
    simp only [List.foldl_cons]
    obtain ⟨h1, h2, h3⟩ := ih (m.set x.1.names.length x.1.attr (rows.map (fun r => r.getD x.2 [])))
    exact ⟨by rw [h1]; simp [MeshVal.set], by rw [h2]; simp [MeshVal.set], by rw [h3]; simp [MeshVal.set]⟩

theorem gather_ok {β : Type} [Inhabited β] (data : List β) :
    ∀ (idx : List Int), (∀ i ∈ idx, 0 ≤ i ∧ i.toNat < data.length) →
      gather data idx = .ok (idx.map (fun i => data.getD i.toNat default)) := by
  intro idx
  induction idx with
  | nil => intro _; rfl
  | cons i idx ih =>
    intro h
    obtain ⟨h0, hlt⟩ := h i (by simp)
    have h2 := ih (fun j hj => h j (by simp [hj]))
    have hneg : ¬ (i < 0) := by omega
    simp only [gather, List.getElem?_toArray] at h2 ⊢
    simp only [List.mapM_cons, hneg, if_false, List.getElem?_eq_getElem hlt, h2, bind, Except.bind,
      pure, Except.pure, List.map_cons, List.getD_eq_getElem?_getD, Option.getD_some]

/-- the per-corner expansion of a mesh (what `meaning` computes for textured files) -/
def corners (m : MeshVal α) : MeshVal α :=
  { m with indices := (List.range m.indices.length).map Int.ofNat,
           attrs := m.attrs.map (fun a => ⟨a.dim, a.name, m.indices.map (fun i => a.data.getD i.toNat [])⟩) }

theorem unweld_ok (m : MeshVal α) (k : Nat) (hlen : ∀ a ∈ m.attrs, a.data.length = k)
    (hidx : ∀ i ∈ m.indices, 0 ≤ i ∧ i.toNat < k) : unweld m = .ok (corners m) := by
  have hmap : ∀ (as : List (Attr α)), (∀ a ∈ as, a.data.length = k) →
      as.mapM (fun a => (do
        let d ← gather a.data m.indices
        pure (⟨a.dim, a.name, d⟩ : Attr α) : R (Attr α)))
      = .ok (as.map (fun a => ⟨a.dim, a.name, m.indices.map (fun i => a.data.getD i.toNat [])⟩)) := by
    intro as
    induction as with
    | nil => intro _; rfl
    | cons a as ih =>
      intro h
      have h1 := gather_ok a.data m.indices (fun i hi => by rw [h a (by simp)]; exact hidx i hi)
      have h2 := ih (fun b hb => h b (by simp [hb]))
      simp only [bind, Except.bind, pure, Except.pure] at h2
      simp only [List.mapM_cons, h1, h2, bind, Except.bind, pure, Except.pure, List.map_cons]
      rfl
  have h := hmap m.attrs hlen
  simp only [bind, Except.bind, pure, Except.pure] at h
  simp only [unweld, bind, Except.bind, pure, Except.pure, corners, h]

theorem fan_mem (vs : List Nat) (i : Int) (h : i ∈ fan vs) : ∃ v ∈ vs, i = (v : Int) := by
  unfold fan at h
  split at h
  · simp only [List.mem_cons, List.not_mem_nil, or_false] at h
    rcases h with rfl | rfl | rfl <;> simp
  · simp only [List.mem_cons, List.not_mem_nil, or_false] at h
    rcases h with rfl | rfl | rfl | rfl | rfl | rfl <;> simp
  · simp at h

theorem fanIdx_range (faces : List (SpecFace α)) (nv : Nat) (h : ∀ fc ∈ faces, ∀ v ∈ fc.verts, v < nv) :
    ∀ i ∈ fanIdx faces, 0 ≤ i ∧ i.toNat < nv := by
  intro i hi
  simp only [fanIdx, List.mem_flatten, List.mem_map] at hi
  obtain ⟨l, ⟨fc, hfc, rfl⟩, hil⟩ := hi
  obtain ⟨v, hv, rfl⟩ := fan_mem fc.verts i hil
  have := h fc hfc v hv
  constructor <;> omega

/-- THE READER'S UNWELD STEP CANNOT FAIL on a file whose faces list existing vertices, and is the per-corner expansion -/
theorem unweld_assembled (built : List Built) (rows : List (List (List α))) (faces : List (SpecFace α))
    (hr : ∀ fc ∈ faces, ∀ v ∈ fc.verts, v < rows.length) :
    unweld (applyColumns ⟨.triangle, fanIdx faces, [], none⟩ built rows)
      = .ok (corners (applyColumns ⟨.triangle, fanIdx faces, [], none⟩ built rows)) := by
  apply unweld_ok _ rows.length
  · exact applyColumns_attr_len built rows _ (by intro a ha; simp at ha)
  · rw [(applyColumns_indices built rows _).1]
    exact fanIdx_range faces rows.length hr

end PlyUnweld
end PolyVerif
