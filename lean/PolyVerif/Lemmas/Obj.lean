/-
  Lemmas and proofs for C05 (OBJ write/read round trip) about `PolyVerif.Model.Obj`.
  The property theorems are restated, one by one, in `PolyVerif/Props/C05.lean`; this file holds the
  definitions they are stated with (GInv, WFMesh, expSum, NoMatlessAfterMat, mapLine, …), the helper
  lemmas (`*_aux`) and the proofs.  Core Lean only.
-/
import PolyVerif.Model.Obj

set_option linter.unusedSimpArgs false
set_option linter.unusedSectionVars false

namespace PolyVerif
namespace ObjL
open Obj

section reader
variable {τ α : Type} [DecidableEq τ] (pc : τ → Except Err Corner)

def matSum (mats : List (String × Nat)) : Nat := (mats.map (·.2)).sum

theorem matSum_append_aux (a b : List (String × Nat)) : matSum (a ++ b) = matSum a + matSum b := by
  simp [matSum]

theorem setLast_concat_aux (init : List (String × Nat)) (m : String) (c n : Nat) :
    setLast (init ++ [(m, c)]) n = init ++ [(m, n)] := by
  simp [setLast]

/-- `addCorner` touches only the vertex tables of the group -/
theorem addCorner_frame_aux {s : RState τ α} {g g' : Group τ α} {t : τ} {p : Nat}
    (h : addCorner pc s g t = .ok (p, g')) :
    g'.tris = g.tris ∧ g'.ftoks = g.ftoks ∧ g'.mats = g.mats ∧ g'.name = g.name := by
  unfold addCorner at h
  split at h
  · cases h; simp
  · split at h
    · cases h
    · split at h
      · cases h
      · split at h
        · cases h
        · split at h
          · cases h
          · split at h
            · cases h
            · cases h; simp

/-- a group's material ranges account for each of its triangles exactly once (or it has no ranges) -/
def GroupOK (g : Group τ α) : Prop :=
  g.tris.length = g.ftoks.length ∧ (g.mats = [] ∨ matSum g.mats = g.tris.length)

/-- the working group: closed ranges plus the open count cover the triangles read so far; the open range
    still has count 0 -/
def CurOK (s : RState τ α) : Prop :=
  s.cur.tris.length = s.cur.ftoks.length ∧
  ((s.cur.mats = [] ∧ s.since = s.cur.tris.length ∧ (s.cur.tris ≠ [] → s.inEffect = none)) ∨
   (∃ init m, s.cur.mats = init ++ [(m, 0)] ∧ matSum init + s.since = s.cur.tris.length))

def faceTotal (s : RState τ α) : Nat := (s.done.map (·.tris.length)).sum + s.cur.tris.length

def Inv (s : RState τ α) : Prop := (∀ g ∈ s.done, GroupOK g) ∧ CurOK s

def isFace : Line τ α → Bool
  | .f _ _ _ => true
  | _ => false

theorem faceCount_cons_aux (l : Line τ α) (ls : List (Line τ α)) :
    faceCount (l :: ls) = (if isFace l then 1 else 0) + faceCount ls := by
  unfold faceCount
  cases l <;> simp [isFace, List.filter_cons] <;> omega

theorem faceCount_append_aux (a b : List (Line τ α)) : faceCount (a ++ b) = faceCount a + faceCount b := by
  simp [faceCount, List.filter_append]

/-- closing the open range of a working group in state `CurOK` gives a `GroupOK` group -/
theorem close_ok_aux {s : RState τ α} (h : CurOK s) :
    GroupOK { s.cur with mats := closeMats s.cur.mats s.since } := by
  unfold closeMats
  obtain ⟨hl, h⟩ := h
  refine ⟨hl, ?_⟩
  rcases h with ⟨h0, _, _⟩ | ⟨init, m, hm, hs⟩
  · left; simp [h0]
  · right
    by_cases hp : s.since > 0
    · have : s.cur.mats ≠ [] := by rw [hm]; simp
      simp only [hp, this, ne_eq, not_false_eq_true, and_self, ↓reduceIte, hm, setLast_concat_aux]
      simp [matSum_append_aux, matSum]; simpa [matSum] using hs
    · have h0 : s.since = 0 := by omega
      simp only [hp, false_and, ↓reduceIte, hm]
      simp [matSum_append_aux, matSum]; simpa [matSum, h0] using hs

theorem step_inv_aux {s s' : RState τ α} {l : Line τ α} (hi : Inv s) (h : step pc s l = .ok s') :
    Inv s' ∧ faceTotal s' = faceTotal s + (if isFace l then 1 else 0) := by
  obtain ⟨hd, hc⟩ := hi
  cases l with
  | other t => simp only [step, Except.ok.injEq] at h; subst h; exact ⟨⟨hd, hc⟩, by simp [isFace]⟩
  | bad e => simp [step] at h
  | mtllib fs =>
    simp only [step] at h
    split at h
    · cases h
    · cases h; exact ⟨⟨hd, hc⟩, by simp [isFace, faceTotal]⟩
  | v p => simp only [step, Except.ok.injEq] at h; subst h; exact ⟨⟨hd, hc⟩, by simp [isFace, faceTotal]⟩
  | vn p => simp only [step, Except.ok.injEq] at h; subst h; exact ⟨⟨hd, hc⟩, by simp [isFace, faceTotal]⟩
  | vt p => simp only [step, Except.ok.injEq] at h; subst h; exact ⟨⟨hd, hc⟩, by simp [isFace, faceTotal]⟩
  | usemtl name =>
    simp only [step] at h
    split at h
    · cases h
    · cases h
      refine ⟨⟨hd, ?_⟩, by simp [isFace, faceTotal]⟩
      obtain ⟨hl, hc⟩ := hc
      refine ⟨hl, Or.inr ?_⟩
      rcases hc with ⟨h0, hs, _⟩ | ⟨init, m, hm, hs⟩
      · by_cases hp : s.since > 0
        · exact ⟨[("Default", s.since)], name, by simp [hp, h0], by simp [matSum, hs]⟩
        · exact ⟨[], name, by simp [hp, h0], by simp [matSum]; omega⟩
      · by_cases hp : s.since > 0
        · have hne : s.cur.mats ≠ [] := by rw [hm]; simp
          refine ⟨init ++ [(m, s.since)], name, ?_, ?_⟩
          · simp [hp, hm, setLast_concat_aux]
          · simp [matSum_append_aux, matSum]; simpa [matSum] using hs
        · have h0 : s.since = 0 := by omega
          refine ⟨init ++ [(m, 0)], name, by simp [hp, hm], ?_⟩
          simp [matSum_append_aux, matSum]; simpa [matSum, h0] using hs
  | g name =>
    simp only [step] at h
    split at h
    · cases h
      refine ⟨⟨?_, ?_⟩, ?_⟩
      · intro g hg
        rcases List.mem_append.1 hg with hg | hg
        · exact hd g hg
        · simp only [List.mem_singleton] at hg; subst hg; exact close_ok_aux ⟨hc.1, hc.2⟩
      · exact ⟨rfl, Or.inl ⟨rfl, rfl, by simp⟩⟩
      · simp [isFace, faceTotal]
    · cases h
      refine ⟨⟨hd, ?_⟩, by simp [isFace, faceTotal]⟩
      exact hc
  | f a b c =>
    simp only [step] at h
    split at h
    · cases h
    · rename_i p1 g1 e1
      split at h
      · cases h
      · rename_i p2 g2 e2
        split at h
        · cases h
        · rename_i p3 g3 e3
          cases h
          obtain ⟨t1, f1, m1, _⟩ := addCorner_frame_aux pc e1
          obtain ⟨t2, f2, m2, _⟩ := addCorner_frame_aux pc e2
          obtain ⟨t3, f3, m3, _⟩ := addCorner_frame_aux pc e3
          simp only at t1 f1 m1
          have ht : g3.tris = s.cur.tris := by rw [t3, t2, t1]
          have hf : g3.ftoks = s.cur.ftoks := by rw [f3, f2, f1]
          have hm := m3.trans (m2.trans m1)
          refine ⟨⟨hd, ?_⟩, ?_⟩
          · obtain ⟨hl, hc⟩ := hc
            refine ⟨by simp [ht, hf, hl], ?_⟩
            simp only [ht, hm, List.length_append, List.length_singleton]
            rcases hc with ⟨h0, hs, hie⟩ | ⟨init, m, hmm, hs⟩
            · cases hin : s.inEffect with
              | none => left; simp [carryMats, h0, hs]
              | some m =>
                right
                have : s.cur.tris = [] := by
                  by_cases ht0 : s.cur.tris = []
                  · exact ht0
                  · have := hie ht0; rw [hin] at this; cases this
                refine ⟨[], m, by simp [carryMats, h0], ?_⟩
                simp [matSum, hs, this]
            · right
              have hne : s.cur.mats ≠ [] := by rw [hmm]; simp
              exact ⟨init, m, by simp [carryMats, hmm], by omega⟩
          · simp [isFace, faceTotal, ht]; omega

theorem steps_inv_aux : ∀ (ls : List (Line τ α)) {s s' : RState τ α}, Inv s → steps pc s ls = .ok s' →
    Inv s' ∧ faceTotal s' = faceTotal s + faceCount ls
  | [], s, s', hi, h => by simp only [steps, Except.ok.injEq] at h; subst h; exact ⟨hi, by simp [faceCount]⟩
  | l :: ls, s, s', hi, h => by
    simp only [steps] at h
    split at h
    · cases h
    · rename_i s1 e1
      obtain ⟨hi1, hf1⟩ := step_inv_aux pc hi e1
      obtain ⟨hi2, hf2⟩ := steps_inv_aux ls hi1 h
      exact ⟨hi2, by rw [hf2, hf1, faceCount_cons_aux]; omega⟩

theorem inv_init_aux : Inv ({} : RState τ α) :=
  ⟨(by intro g hg; cases hg), rfl, Or.inl ⟨rfl, rfl, by simp⟩⟩

/-- **Material ranges cover the triangles.**  For every input the reader accepts — any arrangement of
    `v/vt/vn/f/g/usemtl/mtllib`/comment lines, any corner tokens — every group it returns has either no
    material ranges or ranges whose counts sum to exactly the group's triangle count, and the groups
    together hold exactly as many triangles as the input has `f` lines (a count; content and order are
    `readObj_faces_content`). -/
theorem readObj_ranges_sum {ls : List (Line τ α)} {gs : List (Group τ α)} {libs : List String}
    (h : readObj pc ls = .ok (gs, libs)) :
    (∀ g ∈ gs, g.tris.length = g.ftoks.length ∧ (g.mats = [] ∨ matSum g.mats = g.tris.length)) ∧
    (gs.map (·.tris.length)).sum = faceCount ls := by
  unfold readObj at h
  split at h
  · cases h
  · rename_i s e
    simp only [finish, Except.ok.injEq, Prod.mk.injEq] at h
    obtain ⟨rfl, rfl⟩ := h
    obtain ⟨⟨hd, hc⟩, hf⟩ := steps_inv_aux pc ls inv_init_aux e
    constructor
    · intro g hg
      rcases List.mem_append.1 hg with hg | hg
      · exact hd g hg
      · simp only [List.mem_singleton] at hg; subst hg; exact close_ok_aux hc
    · simp [faceTotal] at hf
      simp [hf]

end reader

/-! ### what the reader's vertex tables contain (any input) -/

section content
variable {τ α : Type} [DecidableEq τ] (pc : τ → Except Err Corner)

/-- position a token refers to in the `v` pool -/
def vOf (pv : List (V3 α)) (t : τ) : Option (V3 α) :=
  match pc t with
  | .ok c => if c.v = 0 then none else pv[c.v - 1]?
  | .error _ => none

/-- 0-based `vn` / `vt` index of a token, if it has one -/
def nIdx (t : τ) : Option Nat := match pc t with | .ok c => slot c.vn | .error _ => none
def tIdx (t : τ) : Option Nat := match pc t with | .ok c => slot c.vt | .error _ => none

/-- the tables of a group, relative to pools `pv pn pt`:
    * `verts` is the token table resolved through the `v` pool;
    * `normals` / `uvs` are the tokens that have a `vn` / `vt` slot, resolved through those pools;
    * the three local indices of the k-th triangle point at the three tokens of the k-th face line;
    * every token of the table occurs in some face line of the group. -/
structure GData (pv pn : List (V3 α)) (pt : List (V2 α)) (g : Group τ α) : Prop where
  hv : g.verts.map some = g.toks.map (vOf pc pv)
  hn : g.normals.map some = (g.toks.filterMap (nIdx pc)).map (pn[·]?)
  ht : g.uvs.map some = (g.toks.filterMap (tIdx pc)).map (pt[·]?)
  hf : g.tris.map (fun t => (g.toks[t.1]?, g.toks[t.2.1]?, g.toks[t.2.2]?)) =
       g.ftoks.map (fun f => (some f.1, some f.2.1, some f.2.2))

structure GInv (pv pn : List (V3 α)) (pt : List (V2 α)) (g : Group τ α) : Prop extends GData pc pv pn pt g where
  hm : ∀ t ∈ g.toks, ∃ f ∈ g.ftoks, t = f.1 ∨ t = f.2.1 ∨ t = f.2.2

theorem map_some_mono_aux {β γ : Type} (f f' : γ → Option β) (hff : ∀ t x, f t = some x → f' t = some x) :
    ∀ (l : List β) (ts : List γ), l.map some = ts.map f → l.map some = ts.map f'
  | [], [], _ => rfl
  | [], _ :: _, h => by simp at h
  | _ :: _, [], h => by simp at h
  | a :: l, t :: ts, h => by
    simp only [List.map_cons, List.cons.injEq] at h ⊢
    exact ⟨(hff t a h.1.symm).symm, map_some_mono_aux f f' hff l ts h.2⟩

theorem getElem?_append_some_aux {β : Type} {l : List β} {i : Nat} {x : β} (h : l[i]? = some x) (l' : List β) :
    (l ++ l')[i]? = some x := by
  have hi : i < l.length := by
    rcases Nat.lt_or_ge i l.length with hi | hi
    · exact hi
    · rw [List.getElem?_eq_none hi] at h; cases h
  rw [List.getElem?_append_left hi]; exact h

theorem idxOf_getElem?_aux {β : Type} [DecidableEq β] : ∀ (l : List β) (t : β), t ∈ l → l[l.idxOf t]? = some t
  | [], _, h => by cases h
  | a :: l, t, h => by
    by_cases e : a = t
    · subst e; simp
    · have ht : t ∈ l := by rcases List.mem_cons.1 h with h | h; exact absurd h.symm e; exact h
      have hb : (a == t) = false := by simpa using e
      have : (a :: l).idxOf t = l.idxOf t + 1 := by simp [List.idxOf_cons, hb]
      rw [this]
      simpa using idxOf_getElem?_aux l t ht

theorem tris_res_mono_aux (toks ext : List τ) (tris : List (Nat × Nat × Nat)) (ftoks : List (τ × τ × τ))
    (h : tris.map (fun t => (toks[t.1]?, toks[t.2.1]?, toks[t.2.2]?)) = ftoks.map (fun f => (some f.1, some f.2.1, some f.2.2))) :
    tris.map (fun t => ((toks ++ ext)[t.1]?, (toks ++ ext)[t.2.1]?, (toks ++ ext)[t.2.2]?)) =
      ftoks.map (fun f => (some f.1, some f.2.1, some f.2.2)) := by
  induction tris generalizing ftoks with
  | nil => cases ftoks with
    | nil => rfl
    | cons f fs => simp at h
  | cons t ts ih =>
    cases ftoks with
    | nil => simp at h
    | cons f fs =>
      simp only [List.map_cons, List.cons.injEq, Prod.mk.injEq] at h ⊢
      obtain ⟨⟨h1, h2, h3⟩, hr⟩ := h
      exact ⟨⟨getElem?_append_some_aux h1 ext, getElem?_append_some_aux h2 ext, getElem?_append_some_aux h3 ext⟩, ih fs hr⟩

theorem GInv_mono_aux {pv pn : List (V3 α)} {pt : List (V2 α)} {g : Group τ α} (h : GInv pc pv pn pt g)
    (a b : List (V3 α)) (c : List (V2 α)) : GInv pc (pv ++ a) (pn ++ b) (pt ++ c) g := by
  refine ⟨⟨?_, ?_, ?_, h.hf⟩, h.hm⟩
  · refine map_some_mono_aux _ _ ?_ _ _ h.hv
    intro t x hx
    unfold vOf at hx ⊢
    split at hx
    · split at hx
      · cases hx
      · rename_i c e hc; simp only [hc, ↓reduceIte]; exact getElem?_append_some_aux hx a
    · cases hx
  · exact map_some_mono_aux _ _ (fun i x hx => getElem?_append_some_aux hx b) _ _ h.hn
  · exact map_some_mono_aux _ _ (fun i x hx => getElem?_append_some_aux hx c) _ _ h.ht

theorem filterMap_concat_aux {β γ : Type} (f : β → Option γ) (l : List β) (t : β) :
    (l ++ [t]).filterMap f = l.filterMap f ++ (match f t with | some x => [x] | none => []) := by
  rw [List.filterMap_append]
  cases h : f t <;> simp [List.filterMap_cons, h]

/-- one corner: the tables stay consistent, the returned index points at the token, tokens only get appended -/
theorem addCorner_spec_aux {s : RState τ α} {g g' : Group τ α} {t : τ} {p : Nat}
    (h : addCorner pc s g t = .ok (p, g')) (hi : GData pc s.pv s.pn s.pt g) :
    GData pc s.pv s.pn s.pt g' ∧ g'.toks[p]? = some t ∧ ∃ ext, g'.toks = g.toks ++ ext ∧ (ext = [] ∨ ext = [t]) := by
  unfold addCorner at h
  split at h
  · rename_i hmem
    cases h
    exact ⟨hi, idxOf_getElem?_aux _ _ hmem, [], by simp, Or.inl rfl⟩
  · split at h
    · cases h
    · rename_i c hc
      split at h
      · cases h
      · rename_i hv0
        split at h
        · cases h
        · rename_i pos hpos
          split at h
          · cases h
          · rename_i normals hnrm
            split at h
            · cases h
            · rename_i uvs huv
              cases h
              refine ⟨⟨?_, ?_, ?_, ?_⟩, by simp, [t], rfl, Or.inr rfl⟩
              · have : vOf pc s.pv t = some pos := by simp [vOf, hc, hv0, hpos]
                simp [hi.hv, this]
              · simp only [filterMap_concat_aux, nIdx, hc]
                cases hs : slot c.vn with
                | none => simp only [hs] at hnrm; cases hnrm; simpa using hi.hn
                | some i =>
                  simp only [hs, Option.map_eq_some_iff] at hnrm
                  obtain ⟨n, hn, rfl⟩ := hnrm
                  simp [hi.hn, hn]
              · simp only [filterMap_concat_aux, tIdx, hc]
                cases hs : slot c.vt with
                | none => simp only [hs] at huv; cases huv; simpa using hi.ht
                | some i =>
                  simp only [hs, Option.map_eq_some_iff] at huv
                  obtain ⟨u, hu, rfl⟩ := huv
                  simp [hi.ht, hu]
              · exact tris_res_mono_aux g.toks [t] g.tris g.ftoks hi.hf

def AllG (s : RState τ α) : Prop :=
  (∀ g ∈ s.done, GInv pc s.pv s.pn s.pt g) ∧ GInv pc s.pv s.pn s.pt s.cur

theorem GInv_empty_aux (pv pn : List (V3 α)) (pt : List (V2 α)) (name : String) :
    GInv pc pv pn pt ({ name := name } : Group τ α) := ⟨⟨rfl, rfl, rfl, rfl⟩, by intro t ht; cases ht⟩

theorem step_allG_aux {s s' : RState τ α} {l : Line τ α} (hi : AllG pc s) (h : step pc s l = .ok s') :
    AllG pc s' ∧ s'.pv = s.pv ++ poolV [l] ∧ s'.pn = s.pn ++ poolN [l] ∧ s'.pt = s.pt ++ poolT [l] := by
  obtain ⟨hd, hc⟩ := hi
  cases l with
  | other t => simp only [step, Except.ok.injEq] at h; subst h; exact ⟨⟨hd, hc⟩, by simp [poolV, poolN, poolT]⟩
  | bad e => simp [step] at h
  | mtllib fs =>
    simp only [step] at h
    split at h
    · cases h
    · cases h; exact ⟨⟨hd, hc⟩, by simp [poolV, poolN, poolT]⟩
  | v p =>
    simp only [step, Except.ok.injEq] at h; subst h
    refine ⟨⟨fun g hg => ?_, ?_⟩, by simp [poolV, poolN, poolT]⟩
    · simpa using GInv_mono_aux pc (hd g hg) [p] [] []
    · simpa using GInv_mono_aux pc hc [p] [] []
  | vn p =>
    simp only [step, Except.ok.injEq] at h; subst h
    refine ⟨⟨fun g hg => ?_, ?_⟩, by simp [poolV, poolN, poolT]⟩
    · simpa using GInv_mono_aux pc (hd g hg) [] [p] []
    · simpa using GInv_mono_aux pc hc [] [p] []
  | vt p =>
    simp only [step, Except.ok.injEq] at h; subst h
    refine ⟨⟨fun g hg => ?_, ?_⟩, by simp [poolV, poolN, poolT]⟩
    · simpa using GInv_mono_aux pc (hd g hg) [] [] [p]
    · simpa using GInv_mono_aux pc hc [] [] [p]
  | usemtl name =>
    simp only [step] at h
    split at h
    · cases h
    · cases h
      exact ⟨⟨hd, ⟨⟨hc.hv, hc.hn, hc.ht, hc.hf⟩, hc.hm⟩⟩, by simp [poolV, poolN, poolT]⟩
  | g name =>
    simp only [step] at h
    split at h
    · cases h
      refine ⟨⟨?_, GInv_empty_aux pc _ _ _ _⟩, by simp [poolV, poolN, poolT]⟩
      intro g hg
      rcases List.mem_append.1 hg with hg | hg
      · exact hd g hg
      · simp only [List.mem_singleton] at hg; subst hg; exact ⟨⟨hc.hv, hc.hn, hc.ht, hc.hf⟩, hc.hm⟩
    · cases h
      exact ⟨⟨hd, ⟨⟨hc.hv, hc.hn, hc.ht, hc.hf⟩, hc.hm⟩⟩, by simp [poolV, poolN, poolT]⟩
  | f a b c =>
    simp only [step] at h
    split at h
    · cases h
    · rename_i p1 g1 e1
      split at h
      · cases h
      · rename_i p2 g2 e2
        split at h
        · cases h
        · rename_i p3 g3 e3
          cases h
          obtain ⟨i1, q1, x1, hx1, y1⟩ := addCorner_spec_aux pc e1 ⟨hc.hv, hc.hn, hc.ht, hc.hf⟩
          obtain ⟨i2, q2, x2, hx2, y2⟩ := addCorner_spec_aux pc e2 i1
          obtain ⟨i3, q3, x3, hx3, y3⟩ := addCorner_spec_aux pc e3 i2
          obtain ⟨_, f1, _, _⟩ := addCorner_frame_aux pc e1
          obtain ⟨_, f2, _, _⟩ := addCorner_frame_aux pc e2
          obtain ⟨_, f3, _, _⟩ := addCorner_frame_aux pc e3
          refine ⟨⟨hd, ⟨⟨i3.hv, i3.hn, i3.ht, ?_⟩, ?_⟩⟩, by simp [poolV, poolN, poolT]⟩
          · have r1 : g3.toks[p1]? = some a := by
              rw [hx3, hx2]; exact getElem?_append_some_aux (getElem?_append_some_aux q1 x2) x3
            have r2 : g3.toks[p2]? = some b := by rw [hx3]; exact getElem?_append_some_aux q2 x3
            simp [i3.hf, r1, r2, q3]
          · intro t ht
            simp only at ht hx1
            rw [hx3, hx2, hx1] at ht
            have hft : g3.ftoks = s.cur.ftoks := by rw [f3, f2, f1]
            simp only [hft, List.mem_append, List.mem_singleton]
            rcases List.mem_append.1 ht with ht | ht
            · rcases List.mem_append.1 ht with ht | ht
              · rcases List.mem_append.1 ht with ht | ht
                · obtain ⟨f, hf, hh⟩ := hc.hm t ht
                  exact ⟨f, Or.inl hf, hh⟩
                · refine ⟨(a, b, c), Or.inr rfl, Or.inl ?_⟩
                  rcases y1 with rfl | rfl
                  · cases ht
                  · simpa using ht
              · refine ⟨(a, b, c), Or.inr rfl, Or.inr (Or.inl ?_)⟩
                rcases y2 with rfl | rfl
                · cases ht
                · simpa using ht
            · refine ⟨(a, b, c), Or.inr rfl, Or.inr (Or.inr ?_)⟩
              rcases y3 with rfl | rfl
              · cases ht
              · simpa using ht

theorem pool_append_aux (l : Line τ α) (ls : List (Line τ α)) :
    poolV (l :: ls) = poolV [l] ++ poolV ls ∧ poolN (l :: ls) = poolN [l] ++ poolN ls ∧
    poolT (l :: ls) = poolT [l] ++ poolT ls := by
  cases l <;> simp [poolV, poolN, poolT]

theorem steps_allG_aux : ∀ (ls : List (Line τ α)) {s s' : RState τ α}, AllG pc s → steps pc s ls = .ok s' →
    AllG pc s' ∧ s'.pv = s.pv ++ poolV ls ∧ s'.pn = s.pn ++ poolN ls ∧ s'.pt = s.pt ++ poolT ls
  | [], s, s', hi, h => by
    simp only [steps, Except.ok.injEq] at h; subst h; exact ⟨hi, by simp [poolV, poolN, poolT]⟩
  | l :: ls, s, s', hi, h => by
    simp only [steps] at h
    split at h
    · cases h
    · rename_i s1 e1
      obtain ⟨hi1, a1, b1, c1⟩ := step_allG_aux pc hi e1
      obtain ⟨hi2, a2, b2, c2⟩ := steps_allG_aux ls hi1 h
      obtain ⟨pa, pb, pc'⟩ := pool_append_aux l ls
      exact ⟨hi2, by rw [a2, a1, pa, List.append_assoc], by rw [b2, b1, pb, List.append_assoc],
        by rw [c2, c1, pc', List.append_assoc]⟩

/-- **What the reader's tables contain.**  For every input the reader accepts and every group it
    returns, relative to the file's `v` / `vn` / `vt` lines (`poolV/N/T`, in file order):
    the group's vertex `k` is the position its `k`-th distinct corner token refers to; its normals / uvs
    are those of the tokens that carry a `vn` / `vt` slot, in token order; and the `j`-th triangle's
    three indices point at the three tokens of the group's `j`-th face line.  Hence every corner of every
    triangle read carries exactly the position the file's face line refers to. -/
theorem readObj_corners {ls : List (Line τ α)} {gs : List (Group τ α)} {libs : List String}
    (h : readObj pc ls = .ok (gs, libs)) : ∀ g ∈ gs, GInv pc (poolV ls) (poolN ls) (poolT ls) g := by
  unfold readObj at h
  split at h
  · cases h
  · rename_i s e
    simp only [finish, Except.ok.injEq, Prod.mk.injEq] at h
    obtain ⟨rfl, rfl⟩ := h
    have h0 : AllG pc ({} : RState τ α) := ⟨(by intro g hg; cases hg), GInv_empty_aux pc _ _ _ _⟩
    obtain ⟨⟨hd, hc⟩, a, b, c⟩ := steps_allG_aux pc ls h0 e
    simp only [List.nil_append] at a b c
    rw [← a, ← b, ← c]
    intro g hg
    rcases List.mem_append.1 hg with hg | hg
    · exact hd g hg
    · simp only [List.mem_singleton] at hg; subst hg; exact ⟨⟨hc.hv, hc.hn, hc.ht, hc.hf⟩, hc.hm⟩

theorem filterMap_bind_aux {β γ δ : Type} (f : β → Option γ) (g : γ → Option δ) : ∀ l : List β,
    (∀ t ∈ l, (f t).isSome) → (l.filterMap f).map g = l.map (fun t => (f t).bind g)
  | [], _ => rfl
  | a :: l, h => by
    have ha := h a (by simp)
    cases hf : f a with
    | none => simp [hf] at ha
    | some x =>
      simp [List.filterMap_cons, hf, filterMap_bind_aux f g l (fun t ht => h t (by simp [ht]))]

theorem filterMap_length_aux {β γ : Type} (f : β → Option γ) : ∀ l : List β,
    (l.filterMap f).length = l.length → ∀ t ∈ l, (f t).isSome
  | [], _ => by intro t ht; cases ht
  | a :: l, h => by
    have hle : (l.filterMap f).length ≤ l.length := List.length_filterMap_le f l
    cases hf : f a with
    | none => simp [List.filterMap_cons, hf] at h; omega
    | some x =>
      simp only [List.filterMap_cons, hf, List.length_cons, Nat.add_right_cancel_iff] at h
      intro t ht
      rcases List.mem_cons.1 ht with rfl | ht
      · simp [hf]
      · exact filterMap_length_aux f l h t ht

/-- **When a group keeps its normals.**  For every accepted input and every returned group: the normal
    table is complete (`normals.length = verts.length`, the condition under which `toMesh` keeps it)
    exactly when every corner token of the group carries a `vn` slot, and then normal `k` is the pool
    entry the `k`-th token refers to — aligned with vertex `k`.  (Same for texture coordinates.) -/
theorem readObj_normals_complete {ls : List (Line τ α)} {gs : List (Group τ α)} {libs : List String}
    (h : readObj pc ls = .ok (gs, libs)) : ∀ g ∈ gs,
    (g.normals.length = g.verts.length ↔ ∀ t ∈ g.toks, (nIdx pc t).isSome) ∧
    (g.normals.length = g.verts.length →
      g.normals.map some = g.toks.map (fun t => (nIdx pc t).bind fun i => (poolN ls)[i]?)) ∧
    (g.uvs.length = g.verts.length ↔ ∀ t ∈ g.toks, (tIdx pc t).isSome) ∧
    (g.uvs.length = g.verts.length →
      g.uvs.map some = g.toks.map (fun t => (tIdx pc t).bind fun i => (poolT ls)[i]?)) := by
  intro g hg
  have hi := readObj_corners pc h g hg
  have hvl : g.verts.length = g.toks.length := by simpa using congrArg List.length hi.hv
  have hnl : g.normals.length = (g.toks.filterMap (nIdx pc)).length := by simpa using congrArg List.length hi.hn
  have htl : g.uvs.length = (g.toks.filterMap (tIdx pc)).length := by simpa using congrArg List.length hi.ht
  refine ⟨⟨?_, ?_⟩, ?_, ⟨?_, ?_⟩, ?_⟩
  · intro hl; exact filterMap_length_aux _ _ (by omega)
  · intro hall
    have h1 := congrArg List.length (filterMap_bind_aux (nIdx pc) (fun i => (poolN ls)[i]?) g.toks hall)
    rw [List.length_map, List.length_map] at h1
    omega
  · intro hl
    rw [hi.hn, filterMap_bind_aux _ _ _ (filterMap_length_aux _ _ (by omega))]
  · intro hl; exact filterMap_length_aux _ _ (by omega)
  · intro hall
    have h1 := congrArg List.length (filterMap_bind_aux (tIdx pc) (fun i => (poolT ls)[i]?) g.toks hall)
    rw [List.length_map, List.length_map] at h1
    omega
  · intro hl
    rw [hi.ht, filterMap_bind_aux _ _ _ (filterMap_length_aux _ _ (by omega))]


end content

/-! ### the writer on what the reader returns -/

section resave
variable {τ α : Type}

theorem flatTris_append_aux : ∀ (a b : List (Nat × Nat × Nat)), flatTris (a ++ b) = flatTris a ++ flatTris b
  | [], _ => rfl
  | (x, y, z) :: a, b => by simp [flatTris, flatTris_append_aux a b]

theorem flatTris_length_aux : ∀ ts : List (Nat × Nat × Nat), (flatTris ts).length = 3 * ts.length
  | [] => rfl
  | (_, _, _) :: ts => by simp [flatTris, flatTris_length_aux ts]; omega

/-- the face lines for a list of index triples -/
def faceLines (mk : Nat → Corner) (ts : List (Nat × Nat × Nat)) : List (Line Corner α) :=
  ts.map fun t => .f (mk t.1) (mk t.2.1) (mk t.2.2)

theorem faceCount_faceLines_aux (mk : Nat → Corner) (ts : List (Nat × Nat × Nat)) :
    faceCount (faceLines (α := α) mk ts) = ts.length := by
  induction ts with
  | nil => rfl
  | cons t ts ih => rw [faceLines, List.map_cons, faceCount_cons_aux]; simp [isFace]; rw [← faceLines, ih]; omega

/-- the face cursor consumes exactly `n` triples when they are there -/
theorem faceRun_flat_aux (mk : Nat → Corner) : ∀ (ts : List (Nat × Nat × Nat)) (rest : List Nat),
    faceRun (α := α) mk ts.length (flatTris ts ++ rest) = .ok (faceLines mk ts, rest)
  | [], rest => rfl
  | (a, b, c) :: ts, rest => by
    simp [flatTris, faceRun, faceRun_flat_aux mk ts rest, faceLines]

theorem rangeRun_flat_aux (mk : Nat → Corner) : ∀ (mats : List (Option String × Nat)) (ts : List (Nat × Nat × Nat)),
    (mats.map (·.2)).sum = ts.length →
    ∃ ls, rangeRun (α := α) mk mats (flatTris ts) = .ok ls ∧ faceCount ls = ts.length
  | [], ts, h => by
    have : ts = [] := List.eq_nil_of_length_eq_zero (by simpa using h.symm)
    subst this; exact ⟨[], rfl, rfl⟩
  | (m, n) :: ms, ts, h => by
    simp only [List.map_cons, List.sum_cons] at h
    have hn : (ts.take n).length = n := by simp [List.length_take]; omega
    have hsplit : flatTris ts = flatTris (ts.take n) ++ flatTris (ts.drop n) := by
      rw [← flatTris_append_aux, List.take_append_drop]
    have hrun := faceRun_flat_aux (α := α) mk (ts.take n) (flatTris (ts.drop n))
    rw [hn] at hrun
    obtain ⟨ls', hr, hc⟩ := rangeRun_flat_aux mk ms (ts.drop n) (by simp [List.length_drop]; omega)
    refine ⟨.usemtl (matName m) :: faceLines mk (ts.take n) ++ ls', ?_, ?_⟩
    · simp [rangeRun, hsplit, hrun, hr]
    · rw [List.cons_append, faceCount_cons_aux, faceCount_append_aux, faceCount_faceLines_aux, hc, hn]
      simp [isFace, List.length_drop]; omega

theorem writeGroup_ok_aux (multi : Bool) (vo to no : Nat) (g : Group τ α)
    (hg : g.mats = [] ∨ matSum g.mats = g.tris.length) :
    ∃ ls, writeGroup multi vo to no (toMesh g).1 (toMesh g).2 = .ok ls ∧ faceCount ls = g.tris.length := by
  have hhdr : ∀ (h : List (Line Corner α)), (h = [] ∨ ∃ n, h = [.g n]) → faceCount h = 0 := by
    intro h hh; rcases hh with rfl | ⟨n, rfl⟩ <;> rfl
  by_cases hm : g.mats = []
  · have h1 := faceRun_flat_aux (α := α)
      (mkCorner (toMesh g).2.uv.isSome (toMesh g).2.nrm.isSome vo to no) g.tris []
    rw [List.append_nil] at h1
    have h2 : ((flatTris g.tris).length + 2) / 3 = g.tris.length := by rw [flatTris_length_aux]; omega
    refine ⟨(if (multi || decide (g.name ≠ "")) = true then [Line.g g.name] else []) ++
      faceLines (mkCorner (toMesh g).2.uv.isSome (toMesh g).2.nrm.isSome vo to no) g.tris, ?_, ?_⟩
    · simp only [writeGroup, toMesh, hm, List.map_nil, ↓reduceIte, h2]
      simp only [toMesh] at h1
      rw [h1]; rfl
    · rw [faceCount_append_aux, faceCount_faceLines_aux]
      have := hhdr (if (multi || decide (g.name ≠ "")) = true then [Line.g g.name] else [])
        (by split <;> simp)
      simp [toMesh] at this ⊢
      omega
  · have hs : matSum g.mats = g.tris.length := by rcases hg with h | h; exact absurd h hm; exact h
    obtain ⟨ls, hr, hc⟩ := rangeRun_flat_aux (α := α)
      (mkCorner (toMesh g).2.uv.isSome (toMesh g).2.nrm.isSome vo to no)
      (g.mats.map fun (n, c) => (some n, c)) g.tris (by simpa [matSum, List.map_map, Function.comp_def] using hs)
    have hne : (g.mats.map fun (p : String × Nat) => ((some p.1 : Option String), p.2)) ≠ [] := by simpa using hm
    refine ⟨(if (multi || decide (g.name ≠ "")) = true then [Line.g g.name] else []) ++ ls, ?_, ?_⟩
    · simp only [writeGroup, toMesh] at hr ⊢
      simp only [hne, ↓reduceIte, hr]
      try rfl
    · rw [faceCount_append_aux, hc]
      have := hhdr (if (multi || decide (g.name ≠ "")) = true then [Line.g g.name] else [])
        (by split <;> simp)
      simp [toMesh] at this ⊢
      omega

theorem writeGroups_ok_aux (multi : Bool) : ∀ (gs : List (Group τ α)) (vo to no : Nat),
    (∀ g ∈ gs, g.mats = [] ∨ matSum g.mats = g.tris.length) →
    ∃ ls, writeGroups multi vo to no (gs.map toMesh) = .ok ls ∧ faceCount ls = (gs.map (·.tris.length)).sum
  | [], _, _, _, _ => ⟨[], rfl, rfl⟩
  | g :: gs, vo, to, no, h => by
    obtain ⟨a, ha, hca⟩ := writeGroup_ok_aux multi vo to no g (h g (by simp))
    obtain ⟨b, hb, hcb⟩ := writeGroups_ok_aux multi gs (vo + optLen (toMesh g).2.pos) (to + optLen (toMesh g).2.uv)
      (no + optLen (toMesh g).2.nrm) (fun g' hg' => h g' (by simp [hg']))
    refine ⟨a ++ b, ?_, by rw [faceCount_append_aux, hca, hcb]; simp⟩
    have e : toMesh g = ((toMesh g).1, (toMesh g).2) := rfl
    rw [List.map_cons, e]
    simp only [writeGroups, ha, hb]

theorem faceCount_dataLines_aux : ∀ ms : List (String × Mesh α), faceCount (dataLines ms) = 0
  | [] => rfl
  | (_, m) :: ms => by
    have hv : ∀ l : List (V3 α), faceCount (l.map (Line.v (τ := Corner))) = 0 := by
      intro l; induction l with
      | nil => rfl
      | cons a l ih => rw [List.map_cons, faceCount_cons_aux, ih]; rfl
    have hn : ∀ l : List (V3 α), faceCount (l.map (Line.vn (τ := Corner))) = 0 := by
      intro l; induction l with
      | nil => rfl
      | cons a l ih => rw [List.map_cons, faceCount_cons_aux, ih]; rfl
    have ht : ∀ l : List (V2 α), faceCount (l.map (Line.vt (τ := Corner))) = 0 := by
      intro l; induction l with
      | nil => rfl
      | cons a l ih => rw [List.map_cons, faceCount_cons_aux, ih]; rfl
    simp [dataLines, meshData, faceCount_append_aux, hv, hn, ht, faceCount_dataLines_aux ms]

theorem faceCount_header_aux (f : String) : faceCount (headerLines (α := α) f) = 0 := by
  unfold headerLines; split <;> rfl

/-- **Load → save keeps every face.**  For every input the reader accepts (any arrangement of `g`,
    `usemtl`, data and face lines, any corner tokens, faces before any `g`, repeated or empty material
    ranges, …), saving what was read succeeds (no panic) and the saved text has exactly as many `f`
    lines as the input: no face lost, none invented. -/
theorem obj_resave_faces [DecidableEq τ] (pc : τ → Except Err Corner) {ls : List (Line τ α)}
    {gs : List (Group τ α)} {libs : List String} (h : readObj pc ls = .ok (gs, libs)) (matFile : String) :
    ∃ out, writeObj matFile (gs.map toMesh) = .ok out ∧ faceCount out = faceCount ls := by
  obtain ⟨hok, hsum⟩ := readObj_ranges_sum pc h
  obtain ⟨body, hb, hc⟩ := writeGroups_ok_aux (decide ((gs.map toMesh).length > 1)) gs 0 0 0 (fun g hg => (hok g hg).2)
  refine ⟨headerLines matFile ++ dataLines (gs.map toMesh) ++ body, by simp only [writeObj, hb], ?_⟩
  rw [faceCount_append_aux, faceCount_append_aux, faceCount_header_aux, faceCount_dataLines_aux, hc, hsum]
  omega

end resave

/-! ### the reader on what the writer emits -/

section roundtrip
variable {α : Type}

/-- corner tokens are the corners themselves -/
abbrev pcId : Corner → Except Err Corner := fun c => .ok c

/-- a corner all of whose slots point into the pools -/
def Res (pv pn : List (V3 α)) (pt : List (V2 α)) (c : Corner) : Prop :=
  c.v ≠ 0 ∧ (∃ p, pv[c.v - 1]? = some p) ∧ (∀ i, slot c.vn = some i → ∃ n, pn[i]? = some n) ∧
  (∀ i, slot c.vt = some i → ∃ u, pt[i]? = some u)

theorem addCorner_ok_aux (s : RState Corner α) (g : Group Corner α) (c : Corner) (h : Res s.pv s.pn s.pt c) :
    ∃ p g', addCorner pcId s g c = .ok (p, g') := by
  obtain ⟨hv, ⟨p, hp⟩, hn, ht⟩ := h
  unfold addCorner
  by_cases hm : c ∈ g.toks
  · exact ⟨g.toks.idxOf c, g, by simp [hm]⟩
  · simp only [hm, ↓reduceIte, hv, hp]
    cases hsn : slot c.vn with
    | none =>
      cases hst : slot c.vt with
      | none => exact ⟨_, _, rfl⟩
      | some j => obtain ⟨u, hu⟩ := ht j hst; simp only [hu, Option.map_some]; exact ⟨_, _, rfl⟩
    | some i =>
      obtain ⟨n, hn'⟩ := hn i hsn
      cases hst : slot c.vt with
      | none => simp only [hn', Option.map_some]; exact ⟨_, _, rfl⟩
      | some j => obtain ⟨u, hu⟩ := ht j hst; simp only [hn', hu, Option.map_some]; exact ⟨_, _, rfl⟩

/-- one face line whose corners resolve: the step succeeds and only touches `since` and the working group -/
theorem step_face_aux (s : RState Corner α) (a b c : Corner)
    (ha : Res s.pv s.pn s.pt a) (hb : Res s.pv s.pn s.pt b) (hc : Res s.pv s.pn s.pt c) :
    ∃ g', step pcId s (.f a b c) = .ok { s with since := s.since + 1, cur := g' } ∧ g'.name = s.cur.name ∧
      g'.ftoks = s.cur.ftoks ++ [(a, b, c)] ∧ g'.tris.length = s.cur.tris.length + 1 ∧
      g'.mats = carryMats s.cur.mats s.inEffect := by
  obtain ⟨p1, g1, e1⟩ := addCorner_ok_aux s { s.cur with mats := carryMats s.cur.mats s.inEffect } a ha
  obtain ⟨p2, g2, e2⟩ := addCorner_ok_aux s g1 b hb
  obtain ⟨p3, g3, e3⟩ := addCorner_ok_aux s g2 c hc
  obtain ⟨t1, f1, m1, n1⟩ := addCorner_frame_aux pcId e1
  obtain ⟨t2, f2, m2, n2⟩ := addCorner_frame_aux pcId e2
  obtain ⟨t3, f3, m3, n3⟩ := addCorner_frame_aux pcId e3
  simp only at t1 f1 m1 n1
  refine ⟨{ g3 with tris := g3.tris ++ [(p1, p2, p3)], ftoks := g3.ftoks ++ [(a, b, c)] }, ?_, ?_, ?_, ?_, ?_⟩
  · simp only [step, e1, e2, e3]
  · simp [n3, n2, n1]
  · simp [f3, f2, f1]
  · simp [t3, t2, t1]
  · simp [m3, m2, m1]

theorem carryMats_idem_aux (mats : List (String × Nat)) (ie : Option String) :
    carryMats (carryMats mats ie) ie = carryMats mats ie := by
  unfold carryMats
  by_cases h : mats = []
  · cases ie <;> simp [h]
  · simp [h]

/-- the face lines of index triples `ts` through corner maker `mk` -/
def cornerTriples (mk : Nat → Corner) (ts : List (Nat × Nat × Nat)) : List (Corner × Corner × Corner) :=
  ts.map fun t => (mk t.1, mk t.2.1, mk t.2.2)

/-- a run of face lines, all corners resolvable -/
theorem steps_faces_aux (mk : Nat → Corner) : ∀ (ts : List (Nat × Nat × Nat)) (s : RState Corner α),
    (∀ t ∈ ts, Res s.pv s.pn s.pt (mk t.1) ∧ Res s.pv s.pn s.pt (mk t.2.1) ∧ Res s.pv s.pn s.pt (mk t.2.2)) →
    ∃ g', steps pcId s (faceLines mk ts) = .ok { s with since := s.since + ts.length, cur := g' } ∧
      g'.name = s.cur.name ∧ g'.ftoks = s.cur.ftoks ++ cornerTriples mk ts ∧
      g'.tris.length = s.cur.tris.length + ts.length ∧
      g'.mats = (if ts = [] then s.cur.mats else carryMats s.cur.mats s.inEffect)
  | [], s, _ => ⟨s.cur, by simp [faceLines, steps], rfl, by simp [cornerTriples], rfl, by simp⟩
  | t :: ts, s, h => by
    obtain ⟨ha, hb, hc⟩ := h t (by simp)
    obtain ⟨g1, e1, n1, f1, t1, m1⟩ := step_face_aux s (mk t.1) (mk t.2.1) (mk t.2.2) ha hb hc
    obtain ⟨g2, e2, n2, f2, t2, m2⟩ := steps_faces_aux mk ts { s with since := s.since + 1, cur := g1 }
      (fun t' ht' => h t' (by simp [ht']))
    refine ⟨g2, ?_, ?_, ?_, ?_, ?_⟩
    · simp only [faceLines, List.map_cons, steps, e1]
      simp only [faceLines] at e2
      rw [e2]
      simp only [List.length_cons]
      congr 2
      omega
    · simp [n2, n1]
    · simp [f2, f1, cornerTriples]
    · simp [t2, t1]; omega
    · simp only [m2, m1, reduceCtorEq, ↓reduceIte]
      by_cases hts : ts = []
      · simp [hts]
      · simp [hts, carryMats_idem_aux]

theorem steps_append_aux {τ : Type} [DecidableEq τ] (pc : τ → Except Err Corner) :
    ∀ (a b : List (Line τ α)) (s s1 : RState τ α), steps pc s a = .ok s1 → steps pc s (a ++ b) = steps pc s1 b
  | [], b, s, s1, h => by simp only [steps, Except.ok.injEq] at h; subst h; rfl
  | l :: a, b, s, s1, h => by
    simp only [steps, List.cons_append] at h ⊢
    split at h
    · cases h
    · rename_i s' e
      first | simp only [e] | skip
      exact steps_append_aux pc a b s' s1 h

/-- what `rangeRun` emits for ranges that partition the triangles -/
def rangeLines (mk : Nat → Corner) : List (Option String × Nat) → List (Nat × Nat × Nat) → List (Line Corner α)
  | [], _ => []
  | (m, n) :: ms, ts => .usemtl (matName m) :: (faceLines mk (ts.take n) ++ rangeLines mk ms (ts.drop n))

theorem rangeRun_eq_aux (mk : Nat → Corner) : ∀ (mats : List (Option String × Nat)) (ts : List (Nat × Nat × Nat)),
    (mats.map (·.2)).sum = ts.length →
    rangeRun (α := α) mk mats (flatTris ts) = .ok (rangeLines mk mats ts)
  | [], ts, _ => rfl
  | (m, n) :: ms, ts, h => by
    simp only [List.map_cons, List.sum_cons] at h
    have hn : (ts.take n).length = n := by simp [List.length_take]; omega
    have hsplit : flatTris ts = flatTris (ts.take n) ++ flatTris (ts.drop n) := by
      rw [← flatTris_append_aux, List.take_append_drop]
    have hrun := faceRun_flat_aux (α := α) mk (ts.take n) (flatTris (ts.drop n))
    rw [hn] at hrun
    have hr := rangeRun_eq_aux mk ms (ts.drop n) (by simp [List.length_drop]; omega)
    simp [rangeRun, rangeLines, hsplit, hrun, hr]

/-- the material in effect after a mesh's lines: its last `usemtl`, else what was in effect before -/
def lastMat (mats : List (Option String × Nat)) (d : Option String) : Option String :=
  match mats.getLast? with
  | some p => some (matName p.1)
  | none => d

theorem closeMats_concat_aux (X : List (String × Nat)) (m : String) (n : Nat) :
    closeMats (X ++ [(m, 0)]) n = X ++ [(m, n)] := by
  unfold closeMats
  by_cases h : n > 0
  · simp [h, setLast_concat_aux]
  · have : n = 0 := by omega
    simp [this]

/-- the ranges of a mesh, read into a working group that has no pending "Default" range: afterwards the
    closed ranges are the previously closed ones followed by the mesh's ranges -/
theorem steps_ranges_aux (mk : Nat → Corner) : ∀ (mats : List (Option String × Nat)) (ts : List (Nat × Nat × Nat))
    (s : RState Corner α),
    (s.cur.mats = [] → s.since = 0) → (mats.map (·.2)).sum = ts.length → (∀ p ∈ mats, matName p.1 ≠ "") →
    (∀ t ∈ ts, Res s.pv s.pn s.pt (mk t.1) ∧ Res s.pv s.pn s.pt (mk t.2.1) ∧ Res s.pv s.pn s.pt (mk t.2.2)) →
    ∃ g' c', steps pcId s (rangeLines mk mats ts) =
        .ok { s with since := c', inEffect := lastMat mats s.inEffect, cur := g' } ∧
      g'.name = s.cur.name ∧ g'.ftoks = s.cur.ftoks ++ cornerTriples mk ts ∧
      g'.tris.length = s.cur.tris.length + ts.length ∧
      (g'.mats = [] → c' = 0) ∧
      closeMats g'.mats c' = closeMats s.cur.mats s.since ++ mats.map (fun p => (matName p.1, p.2))
  | [], ts, s, hdef, hsum, _, _ => by
    have : ts = [] := List.eq_nil_of_length_eq_zero (by simpa using hsum.symm)
    subst this
    exact ⟨s.cur, s.since, rfl, rfl, by simp [cornerTriples], rfl, hdef, by simp⟩
  | (m1, n) :: ms, ts, s, hdef, hsum, hnames, hres => by
    simp only [List.map_cons, List.sum_cons] at hsum
    have hn : (ts.take n).length = n := by simp [List.length_take]; omega
    have hname : matName m1 ≠ "" := hnames (m1, n) (by simp)
    -- usemtl
    have hmats1 : (if s.since > 0 then (if s.cur.mats = [] then [("Default", s.since)] else setLast s.cur.mats s.since)
        else s.cur.mats) = closeMats s.cur.mats s.since := by
      unfold closeMats
      by_cases hp : s.since > 0
      · have hne : s.cur.mats ≠ [] := fun h => by have := hdef h; omega
        simp [hp, hne]
      · simp [hp]
    let g1 : Group Corner α := { s.cur with mats := closeMats s.cur.mats s.since ++ [(matName m1, 0)] }
    let s1 : RState Corner α := { s with since := 0, inEffect := some (matName m1), cur := g1 }
    have e1 : step pcId s (.usemtl (matName m1)) = .ok s1 := by
      simp only [step, hname, ↓reduceIte, hmats1, s1, g1]
    -- its faces
    obtain ⟨g2, e2, n2, f2, t2, m2⟩ := steps_faces_aux mk (ts.take n) s1
      (fun t ht => hres t (List.mem_of_mem_take ht))
    have hm2 : g2.mats = closeMats s.cur.mats s.since ++ [(matName m1, 0)] := by
      rw [m2]; split
      · rfl
      · simp [carryMats, s1, g1]
    -- the remaining ranges
    obtain ⟨g3, c3, e3, n3, f3, t3, hd3, hc3⟩ := steps_ranges_aux mk ms (ts.drop n)
      { s1 with since := s1.since + (ts.take n).length, cur := g2 }
      (fun h => by rw [hm2] at h; simp at h)
      (by simp [List.length_drop]; omega) (fun p hp => hnames p (by simp [hp]))
      (fun t ht => hres t (List.mem_of_mem_drop ht))
    refine ⟨g3, c3, ?_, ?_, ?_, ?_, hd3, ?_⟩
    · simp only [rangeLines, steps, e1]
      rw [steps_append_aux pcId _ _ _ _ e2, e3]
      congr 2
      unfold lastMat
      cases hl : ms.getLast? with
      | none =>
        have : ms = [] := by simpa using hl
        subst this; simp [s1]
      | some p =>
        have : ((m1, n) :: ms).getLast? = some p := by
          cases ms with
          | nil => simp at hl
          | cons q qs => simpa [List.getLast?_cons_cons] using hl
        simp [this]
    · simp [n3, n2, s1, g1]
    · simp only [f3, f2, s1, g1, cornerTriples, List.append_assoc, ← List.map_append, List.take_append_drop]
    · simp only [t3, t2, s1, g1, List.length_drop]; omega
    · rw [hc3]
      simp only [hm2, s1, hn, Nat.zero_add, closeMats_concat_aux, List.map_cons, List.append_assoc, List.cons_append,
        List.nil_append]

/-! #### meshes the property speaks about -/

/-- consecutive index triples -/
def triplesOf : List Nat → List (Nat × Nat × Nat)
  | a :: b :: c :: r => (a, b, c) :: triplesOf r
  | _ => []

theorem flat_triplesOf_aux : ∀ idx : List Nat, idx.length % 3 = 0 → flatTris (triplesOf idx) = idx
  | [], _ => rfl
  | [_], h => by simp at h
  | [_, _], h => by simp at h
  | _ :: _ :: _ :: r, h => by simp [triplesOf, flatTris, flat_triplesOf_aux r (by simp at h; omega)]

theorem triplesOf_length_aux : ∀ idx : List Nat, (triplesOf idx).length = idx.length / 3
  | [] => rfl
  | [_] => by simp [triplesOf]
  | [_, _] => by simp [triplesOf]
  | _ :: _ :: _ :: r => by simp [triplesOf, triplesOf_length_aux r]; omega

theorem triplesOf_mem_aux : ∀ (idx : List Nat) (t : Nat × Nat × Nat), t ∈ triplesOf idx →
    t.1 ∈ idx ∧ t.2.1 ∈ idx ∧ t.2.2 ∈ idx
  | [], _, h => by cases h
  | [_], _, h => by simp [triplesOf] at h
  | [_, _], _, h => by simp [triplesOf] at h
  | a :: b :: c :: r, t, h => by
    simp only [triplesOf, List.mem_cons] at h
    rcases h with rfl | h
    · simp
    · obtain ⟨h1, h2, h3⟩ := triplesOf_mem_aux r t h
      simp [h1, h2, h3]

/-- a well-formed triangle mesh for the OBJ writer: whole triangles, positions present, every index in
    range of every present attribute array, material ranges (if any) partition the triangles, material
    names non-empty once blanks are removed -/
structure WFMesh (m : Mesh α) : Prop where
  len3 : m.idx.length % 3 = 0
  pos : ∃ ps, m.pos = some ps ∧ ∀ i ∈ m.idx, i < ps.length
  uv : ∀ us, m.uv = some us → ∀ i ∈ m.idx, i < us.length
  nrm : ∀ ns, m.nrm = some ns → ∀ i ∈ m.idx, i < ns.length
  mats : m.mats = [] ∨ (m.mats.map (·.2)).sum = m.idx.length / 3
  names : ∀ p ∈ m.mats, matName p.1 ≠ ""

example : WFMesh (⟨[0, 1, 2, 2, 1, 3], some [⟨0, 0, 0⟩, ⟨1, 0, 0⟩, ⟨0, 1, 0⟩, ⟨1, 1, 0⟩], none,
    some [⟨0, 0, 1⟩, ⟨0, 0, 1⟩, ⟨0, 0, 1⟩, ⟨0, 0, 1⟩], [(some "red", 1), (none, 0), (some "blue", 1)]⟩ : Mesh Nat) :=
  ⟨rfl, ⟨_, rfl, by decide⟩, (by intro us h; cases h), (by intro ns h; cases h; decide), Or.inr (by decide),
    (by decide)⟩

/-- the lines of a mesh after its optional `g` line -/
def bodyLines (vo to no : Nat) (m : Mesh α) : List (Line Corner α) :=
  if m.mats = [] then faceLines (mkCorner m.uv.isSome m.nrm.isSome vo to no) (triplesOf m.idx)
  else rangeLines (mkCorner m.uv.isSome m.nrm.isSome vo to no) m.mats (triplesOf m.idx)

def gLine (multi : Bool) (name : String) : List (Line Corner α) := if multi || name ≠ "" then [.g name] else []

theorem writeGroup_eq_aux (multi : Bool) (vo to no : Nat) (name : String) (m : Mesh α) (h : WFMesh m) :
    writeGroup multi vo to no name m = .ok (gLine multi name ++ bodyLines vo to no m) := by
  have hidx := flat_triplesOf_aux m.idx h.len3
  have hlen := triplesOf_length_aux m.idx
  unfold writeGroup bodyLines gLine
  by_cases hm : m.mats = []
  · have h1 := faceRun_flat_aux (α := α) (mkCorner m.uv.isSome m.nrm.isSome vo to no) (triplesOf m.idx) []
    rw [List.append_nil, hidx, hlen] at h1
    have h2 : (m.idx.length + 2) / 3 = m.idx.length / 3 := by have := h.len3; omega
    simp only [hm, ↓reduceIte, h2, h1, Except.map]
  · have hs : (m.mats.map (·.2)).sum = (triplesOf m.idx).length := by
      rcases h.mats with h' | h'
      · exact absurd h' hm
      · rw [hlen]; exact h'
    have h1 := rangeRun_eq_aux (α := α) (mkCorner m.uv.isSome m.nrm.isSome vo to no) m.mats (triplesOf m.idx) hs
    rw [hidx] at h1
    simp only [hm, ↓reduceIte, h1]

def groupLines (multi : Bool) : Nat → Nat → Nat → List (String × Mesh α) → List (Line Corner α)
  | _, _, _, [] => []
  | vo, to, no, (name, m) :: rest =>
    gLine multi name ++ bodyLines vo to no m ++
      groupLines multi (vo + optLen m.pos) (to + optLen m.uv) (no + optLen m.nrm) rest

theorem writeGroups_eq_aux (multi : Bool) : ∀ (ms : List (String × Mesh α)) (vo to no : Nat),
    (∀ p ∈ ms, WFMesh p.2) → writeGroups multi vo to no ms = .ok (groupLines multi vo to no ms)
  | [], _, _, _, _ => rfl
  | (name, m) :: rest, vo, to, no, h => by
    simp only [writeGroups, writeGroup_eq_aux multi vo to no name m (h (name, m) (by simp)),
      writeGroups_eq_aux multi rest _ _ _ (fun p hp => h p (by simp [hp])), groupLines]

/-- the pools hold mesh `m`'s arrays at offsets `vo / to / no` -/
def PoolsFor (pv pn : List (V3 α)) (pt : List (V2 α)) (vo to no : Nat) (m : Mesh α) : Prop :=
  (∀ ps, m.pos = some ps → ∀ i, i < ps.length → pv[i + vo]? = ps[i]?) ∧
  (∀ us, m.uv = some us → ∀ i, i < us.length → pt[i + to]? = us[i]?) ∧
  (∀ ns, m.nrm = some ns → ∀ i, i < ns.length → pn[i + no]? = ns[i]?)

theorem res_mk_aux {pv pn : List (V3 α)} {pt : List (V2 α)} {vo to no : Nat} {m : Mesh α}
    (hp : PoolsFor pv pn pt vo to no m) (hw : WFMesh m) {i : Nat} (hi : i ∈ m.idx) :
    Res pv pn pt (mkCorner m.uv.isSome m.nrm.isSome vo to no i) := by
  obtain ⟨ps, hps, hlt⟩ := hw.pos
  refine ⟨by simp [mkCorner], ?_, ?_, ?_⟩
  · refine ⟨ps[i]'(hlt i hi), ?_⟩
    have : (mkCorner m.uv.isSome m.nrm.isSome vo to no i).v - 1 = i + vo := by simp [mkCorner]
    rw [this, hp.1 ps hps i (hlt i hi)]
    exact List.getElem?_eq_getElem (hlt i hi)
  · intro j hj
    cases hn : m.nrm with
    | none => simp [mkCorner, hn, slot] at hj
    | some ns =>
      have hlt' := hw.nrm ns hn i hi
      have : j = i + no := by
        simp [mkCorner, hn, slot] at hj; omega
      subst this
      exact ⟨ns[i], by rw [hp.2.2 ns hn i hlt']; exact List.getElem?_eq_getElem hlt'⟩
  · intro j hj
    cases hu : m.uv with
    | none => simp [mkCorner, hu, slot] at hj
    | some us =>
      have hlt' := hw.uv us hu i hi
      have : j = i + to := by
        simp [mkCorner, hu, slot] at hj; omega
      subst this
      exact ⟨us[i], by rw [hp.2.1 us hu i hlt']; exact List.getElem?_eq_getElem hlt'⟩

/-- the closed material ranges the reader ends up with for mesh `m`, `carry` being the material in
    effect before it (cf. `Obj.expectMats`) -/
def expMats (carry : Option String) (m : Mesh α) : List (String × Nat) :=
  if m.mats = [] then
    (match carry with
     | some a => if m.idx.length / 3 = 0 then [] else [(a, m.idx.length / 3)]
     | none => [])
  else m.mats.map fun p => (matName p.1, p.2)

def Fresh (s : RState Corner α) : Prop :=
  s.cur.mats = [] ∧ s.since = 0 ∧ s.cur.tris = [] ∧ s.cur.ftoks = []

/-- the body of one mesh, read into a fresh working group -/
theorem steps_body_aux (s : RState Corner α) (vo to no : Nat) (m : Mesh α) (hw : WFMesh m)
    (hp : PoolsFor s.pv s.pn s.pt vo to no m) (hf : Fresh s) :
    ∃ g' c', steps pcId s (bodyLines vo to no m) =
        .ok { s with since := c', inEffect := lastMat m.mats s.inEffect, cur := g' } ∧
      g'.name = s.cur.name ∧
      g'.ftoks = cornerTriples (mkCorner m.uv.isSome m.nrm.isSome vo to no) (triplesOf m.idx) ∧
      g'.tris.length = m.idx.length / 3 ∧
      closeMats g'.mats c' = expMats s.inEffect m := by
  obtain ⟨hm0, hs0, ht0, hf0⟩ := hf
  have hres : ∀ t ∈ triplesOf m.idx,
      Res s.pv s.pn s.pt (mkCorner m.uv.isSome m.nrm.isSome vo to no t.1) ∧
      Res s.pv s.pn s.pt (mkCorner m.uv.isSome m.nrm.isSome vo to no t.2.1) ∧
      Res s.pv s.pn s.pt (mkCorner m.uv.isSome m.nrm.isSome vo to no t.2.2) := by
    intro t ht
    obtain ⟨h1, h2, h3⟩ := triplesOf_mem_aux m.idx t ht
    exact ⟨res_mk_aux hp hw h1, res_mk_aux hp hw h2, res_mk_aux hp hw h3⟩
  have hlen := triplesOf_length_aux m.idx
  unfold bodyLines
  by_cases hm : m.mats = []
  · obtain ⟨g', e, n, f, t, mm⟩ := steps_faces_aux (mkCorner m.uv.isSome m.nrm.isSome vo to no) (triplesOf m.idx) s hres
    refine ⟨g', s.since + (triplesOf m.idx).length, ?_, n, by simp [f, hf0], by simp [t, ht0, hlen], ?_⟩
    · simp only [hm, ↓reduceIte, e, lastMat, List.getLast?_nil]
    · rw [mm, hs0, hlen, hm0]
      unfold expMats closeMats carryMats
      simp only [hm, ↓reduceIte, Nat.zero_add]
      by_cases h0 : m.idx.length / 3 = 0
      · have : triplesOf m.idx = [] := List.eq_nil_of_length_eq_zero (by rw [hlen]; exact h0)
        cases s.inEffect <;> simp [this, h0]
      · have : triplesOf m.idx ≠ [] := fun h => h0 (by rw [← hlen, h]; rfl)
        cases s.inEffect with
        | none => simp [this]
        | some a =>
          have hp0 : m.idx.length / 3 > 0 := by omega
          simp [this, h0, hp0, setLast]
  · have hs : (m.mats.map (·.2)).sum = (triplesOf m.idx).length := by
      rcases hw.mats with h' | h'
      · exact absurd h' hm
      · rw [hlen]; exact h'
    obtain ⟨g', c', e, n, f, t, _, hc⟩ := steps_ranges_aux (mkCorner m.uv.isSome m.nrm.isSome vo to no) m.mats
      (triplesOf m.idx) s (fun _ => hs0) hs hw.names hres
    refine ⟨g', c', ?_, n, by simp [f, hf0], by simp [t, ht0, hlen], ?_⟩
    · simp only [hm, ↓reduceIte, e]
    · rw [hc, hm0]
      simp [expMats, hm, closeMats]


/-! #### the list of meshes -/

/-- every mesh but the last has at least one triangle (an empty group in the middle is dropped by the
    reader: known deviation `roundtrip_empty_mesh_not_last`) -/
def NonemptyButLast : List (String × Mesh α) → Prop
  | [] => True
  | [_] => True
  | p :: q :: r => p.2.idx ≠ [] ∧ NonemptyButLast (q :: r)

def PoolsAll (pv pn : List (V3 α)) (pt : List (V2 α)) : Nat → Nat → Nat → List (String × Mesh α) → Prop
  | _, _, _, [] => True
  | vo, to, no, (_, m) :: rest =>
    PoolsFor pv pn pt vo to no m ∧ PoolsAll pv pn pt (vo + optLen m.pos) (to + optLen m.uv) (no + optLen m.nrm) rest

/-- name, face lines (as corner triples) and closed material ranges of a group -/
def sumG (g : Group Corner α) : String × List (Corner × Corner × Corner) × List (String × Nat) :=
  (g.name, g.ftoks, g.mats)

/-- what the groups read back must be, mesh by mesh: the mesh's name; one face per index triple, in
    order, corner `i ↦ (i+1+vo, i+1+to, i+1+no)` with THE MESH'S OWN offsets into the three pools;
    its material ranges (or the carried material, see `expMats`) -/
def expSum : Nat → Nat → Nat → Option String → List (String × Mesh α) →
    List (String × List (Corner × Corner × Corner) × List (String × Nat))
  | _, _, _, _, [] => []
  | vo, to, no, carry, (name, m) :: rest =>
    (name, cornerTriples (mkCorner m.uv.isSome m.nrm.isSome vo to no) (triplesOf m.idx), expMats carry m) ::
      expSum (vo + optLen m.pos) (to + optLen m.uv) (no + optLen m.nrm) (lastMat m.mats carry) rest

theorem steps_groups_aux (multi : Bool) : ∀ (rest : List (String × Mesh α)) (name : String) (m : Mesh α)
    (s : RState Corner α) (vo to no : Nat),
    WFMesh m → (∀ p ∈ rest, WFMesh p.2) → NonemptyButLast ((name, m) :: rest) → (rest ≠ [] → multi = true) →
    PoolsAll s.pv s.pn s.pt vo to no ((name, m) :: rest) → Fresh s → s.cur.name = name →
    ∃ s', steps pcId s (bodyLines vo to no m ++
        groupLines multi (vo + optLen m.pos) (to + optLen m.uv) (no + optLen m.nrm) rest) = .ok s' ∧
      (finish s').1.map sumG = s.done.map sumG ++ expSum vo to no s.inEffect ((name, m) :: rest) ∧
      (finish s').2 = s.libs
  | [], name, m, s, vo, to, no, hw, _, _, _, hp, hf, hn => by
    obtain ⟨g', c', e, n, f, t, hc⟩ := steps_body_aux s vo to no m hw hp.1 hf
    refine ⟨{ s with since := c', inEffect := lastMat m.mats s.inEffect, cur := g' }, ?_, ?_, rfl⟩
    · simp only [groupLines, List.append_nil]; exact e
    · simp [finish, sumG, expSum, n, f, hc, hn]
  | (name', m') :: rest, name, m, s, vo, to, no, hw, hws, hnb, hmulti, hp, hf, hn => by
    obtain ⟨g', c', e, n, f, t, hc⟩ := steps_body_aux s vo to no m hw hp.1 hf
    have hmt : multi = true := hmulti (by simp)
    subst hmt
    have hne : m.idx ≠ [] := hnb.1
    have hpos : m.idx.length / 3 ≠ 0 := by
      have h3 := hw.len3
      have : m.idx.length ≠ 0 := fun h => hne (List.eq_nil_of_length_eq_zero h)
      omega
    have htris : g'.tris ≠ [] := fun h => hpos (by rw [← t, h]; rfl)
    -- the `g` line of the next mesh flushes this one
    let s2 : RState Corner α :=
      { s with since := 0, inEffect := lastMat m.mats s.inEffect,
               done := s.done ++ [{ g' with mats := closeMats g'.mats c' }], cur := { name := name' } }
    have e2 : step pcId { s with since := c', inEffect := lastMat m.mats s.inEffect, cur := g' } (.g name') = .ok s2 := by
      simp only [step, htris, ne_eq, not_false_eq_true, ↓reduceIte, s2]
    obtain ⟨s', e3, hfin, hlibs⟩ := steps_groups_aux true rest name' m' s2
      (vo + optLen m.pos) (to + optLen m.uv) (no + optLen m.nrm)
      (hws (name', m') (by simp)) (fun p hp' => hws p (by simp [hp'])) hnb.2
      (fun _ => rfl) hp.2 ⟨rfl, rfl, rfl, rfl⟩ rfl
    refine ⟨s', ?_, ?_, by rw [hlibs]⟩
    · rw [steps_append_aux pcId _ _ _ _ e]
      simp only [groupLines, gLine, Bool.true_or, ↓reduceIte, List.append_assoc, List.cons_append,
        List.nil_append, steps, e2]
      exact e3
    · rw [hfin]
      simp [s2, sumG, expSum, n, f, hc, hn]

/-- the data section: every `v / vt / vn` line goes to its pool -/
theorem steps_data_aux : ∀ (ms : List (String × Mesh α)) (s : RState Corner α),
    steps pcId s (dataLines ms) = .ok { s with
      pv := s.pv ++ ms.flatMap (fun p => optList p.2.pos),
      pt := s.pt ++ ms.flatMap (fun p => optList p.2.uv),
      pn := s.pn ++ ms.flatMap (fun p => optList p.2.nrm) }
  | [], s => by simp [dataLines, steps]
  | (name, m) :: rest, s => by
    have hv : ∀ (l : List (V3 α)) (s : RState Corner α),
        steps pcId s (l.map .v) = .ok { s with pv := s.pv ++ l } := by
      intro l; induction l with
      | nil => intro s; simp [steps]
      | cons a l ih => intro s; simp [steps, step, ih]
    have hn : ∀ (l : List (V3 α)) (s : RState Corner α),
        steps pcId s (l.map .vn) = .ok { s with pn := s.pn ++ l } := by
      intro l; induction l with
      | nil => intro s; simp [steps]
      | cons a l ih => intro s; simp [steps, step, ih]
    have ht : ∀ (l : List (V2 α)) (s : RState Corner α),
        steps pcId s (l.map .vt) = .ok { s with pt := s.pt ++ l } := by
      intro l; induction l with
      | nil => intro s; simp [steps]
      | cons a l ih => intro s; simp [steps, step, ih]
    simp only [dataLines, meshData, List.append_assoc]
    rw [steps_append_aux pcId _ _ _ _ (hv (optList m.pos) s)]
    rw [steps_append_aux pcId _ _ _ _ (ht (optList m.uv) _)]
    rw [steps_append_aux pcId _ _ _ _ (hn (optList m.nrm) _)]
    rw [steps_data_aux rest]
    simp [List.flatMap_cons, List.append_assoc]


theorem getElem?_mid_aux {β : Type} (a b c : List β) (i : Nat) (h : i < b.length) :
    (a ++ (b ++ c))[i + a.length]? = b[i]? := by
  rw [List.getElem?_append_right (by omega)]
  have : i + a.length - a.length = i := by omega
  rw [this, List.getElem?_append_left h]

theorem poolsAll_aux : ∀ (ms : List (String × Mesh α)) (av an : List (V3 α)) (at' : List (V2 α)),
    PoolsAll (av ++ ms.flatMap (fun p => optList p.2.pos)) (an ++ ms.flatMap (fun p => optList p.2.nrm))
      (at' ++ ms.flatMap (fun p => optList p.2.uv)) av.length at'.length an.length ms
  | [], _, _, _ => trivial
  | (name, m) :: rest, av, an, at' => by
    refine ⟨⟨?_, ?_, ?_⟩, ?_⟩
    · intro ps hps i hi
      simp only [List.flatMap_cons, hps, optList]
      exact getElem?_mid_aux av ps _ i hi
    · intro us hus i hi
      simp only [List.flatMap_cons, hus, optList]
      exact getElem?_mid_aux at' us _ i hi
    · intro ns hns i hi
      simp only [List.flatMap_cons, hns, optList]
      exact getElem?_mid_aux an ns _ i hi
    · have h := poolsAll_aux rest (av ++ optList m.pos) (an ++ optList m.nrm) (at' ++ optList m.uv)
      have lv : (av ++ optList m.pos).length = av.length + optLen m.pos := by cases m.pos <;> simp [optList, optLen]
      have ln : (an ++ optList m.nrm).length = an.length + optLen m.nrm := by cases m.nrm <;> simp [optList, optLen]
      have lt : (at' ++ optList m.uv).length = at'.length + optLen m.uv := by cases m.uv <;> simp [optList, optLen]
      rw [lv, ln, lt] at h
      simpa [List.flatMap_cons, List.append_assoc] using h

theorem pool_of_append_aux {τ : Type} (a b : List (Line τ α)) :
    poolV (a ++ b) = poolV a ++ poolV b ∧ poolN (a ++ b) = poolN a ++ poolN b ∧ poolT (a ++ b) = poolT a ++ poolT b := by
  induction a with
  | nil => simp [poolV, poolN, poolT]
  | cons l a ih =>
    obtain ⟨h1, h2, h3⟩ := ih
    cases l <;> simp [poolV, poolN, poolT, h1, h2, h3]

/-- lines that feed no pool -/
def NoPool {τ : Type} (ls : List (Line τ α)) : Prop := poolV ls = [] ∧ poolN ls = [] ∧ poolT ls = []

theorem noPool_append_aux {τ : Type} {a b : List (Line τ α)} (ha : NoPool a) (hb : NoPool b) : NoPool (a ++ b) := by
  obtain ⟨h1, h2, h3⟩ := pool_of_append_aux a b
  exact ⟨by rw [h1, ha.1, hb.1]; rfl, by rw [h2, ha.2.1, hb.2.1]; rfl, by rw [h3, ha.2.2, hb.2.2]; rfl⟩

theorem noPool_faceLines_aux (mk : Nat → Corner) : ∀ ts : List (Nat × Nat × Nat), NoPool (faceLines (α := α) mk ts)
  | [] => ⟨rfl, rfl, rfl⟩
  | t :: ts => by
    obtain ⟨h1, h2, h3⟩ := noPool_faceLines_aux mk ts
    simp only [faceLines] at h1 h2 h3
    exact ⟨by simp [faceLines, poolV, h1], by simp [faceLines, poolN, h2], by simp [faceLines, poolT, h3]⟩

theorem noPool_rangeLines_aux (mk : Nat → Corner) : ∀ (mats : List (Option String × Nat)) (ts : List (Nat × Nat × Nat)),
    NoPool (rangeLines (α := α) mk mats ts)
  | [], _ => ⟨rfl, rfl, rfl⟩
  | (m, n) :: ms, ts => by
    have h := noPool_append_aux (noPool_faceLines_aux (α := α) mk (ts.take n)) (noPool_rangeLines_aux mk ms (ts.drop n))
    exact ⟨by simp [rangeLines, poolV, h.1], by simp [rangeLines, poolN, h.2.1], by simp [rangeLines, poolT, h.2.2]⟩

theorem noPool_groupLines_aux (multi : Bool) : ∀ (ms : List (String × Mesh α)) (vo to no : Nat),
    NoPool (groupLines multi vo to no ms)
  | [], _, _, _ => ⟨rfl, rfl, rfl⟩
  | (name, m) :: rest, vo, to, no => by
    have hg : NoPool (gLine (α := α) multi name) := by
      unfold gLine; split <;> exact ⟨rfl, rfl, rfl⟩
    have hb : NoPool (bodyLines vo to no m) := by
      unfold bodyLines; split
      · exact noPool_faceLines_aux _ _
      · exact noPool_rangeLines_aux _ _ _
    simp only [groupLines]
    exact noPool_append_aux (noPool_append_aux hg hb) (noPool_groupLines_aux multi rest _ _ _)

theorem pool_header_aux (f : String) : NoPool (headerLines (α := α) f) := by
  unfold headerLines; split <;> exact ⟨rfl, rfl, rfl⟩

theorem pool_data_aux : ∀ ms : List (String × Mesh α),
    poolV (dataLines ms) = ms.flatMap (fun p => optList p.2.pos) ∧
    poolN (dataLines ms) = ms.flatMap (fun p => optList p.2.nrm) ∧
    poolT (dataLines ms) = ms.flatMap (fun p => optList p.2.uv)
  | [] => ⟨rfl, rfl, rfl⟩
  | (name, m) :: rest => by
    have hv : ∀ l : List (V3 α), poolV (l.map (Line.v (τ := Corner))) = l ∧ poolN (l.map (Line.v (τ := Corner))) = [] ∧
        poolT (l.map (Line.v (τ := Corner))) = [] := by
      intro l; induction l with
      | nil => exact ⟨rfl, rfl, rfl⟩
      | cons a l ih => simp [poolV, poolN, poolT, ih]
    have hn : ∀ l : List (V3 α), poolV (l.map (Line.vn (τ := Corner))) = [] ∧ poolN (l.map (Line.vn (τ := Corner))) = l ∧
        poolT (l.map (Line.vn (τ := Corner))) = [] := by
      intro l; induction l with
      | nil => exact ⟨rfl, rfl, rfl⟩
      | cons a l ih => simp [poolV, poolN, poolT, ih]
    have ht : ∀ l : List (V2 α), poolV (l.map (Line.vt (τ := Corner))) = [] ∧ poolN (l.map (Line.vt (τ := Corner))) = [] ∧
        poolT (l.map (Line.vt (τ := Corner))) = l := by
      intro l; induction l with
      | nil => exact ⟨rfl, rfl, rfl⟩
      | cons a l ih => simp [poolV, poolN, poolT, ih]
    obtain ⟨r1, r2, r3⟩ := pool_data_aux rest
    obtain ⟨a1, a2, a3⟩ := pool_of_append_aux (meshData m) (dataLines rest)
    obtain ⟨b1, b2, b3⟩ := pool_of_append_aux ((optList m.pos).map (Line.v (τ := Corner)) ++ (optList m.uv).map .vt)
      ((optList m.nrm).map .vn)
    obtain ⟨c1, c2, c3⟩ := pool_of_append_aux ((optList m.pos).map (Line.v (τ := Corner))) ((optList m.uv).map .vt)
    have m1 : poolV (meshData m) = optList m.pos := by
      unfold meshData; rw [b1, c1, (hv _).1, (ht _).1, (hn _).1]; simp
    have m2 : poolN (meshData m) = optList m.nrm := by
      unfold meshData; rw [b2, c2, (hv _).2.1, (ht _).2.1, (hn _).2.1]; simp
    have m3 : poolT (meshData m) = optList m.uv := by
      unfold meshData; rw [b3, c3, (hv _).2.2, (ht _).2.2, (hn _).2.2]; simp
    simp only [dataLines, a1, a2, a3, r1, r2, r3, m1, m2, m3, List.flatMap_cons, and_self]


/-- **OBJ round trip, structural part.**  For every non-empty list of named well-formed triangle meshes
    (any number, any per-mesh combination of uv / normal attributes, any partition of each mesh's triangles
    into material ranges incl. empty ranges and nil materials, shared / unreferenced vertices; every mesh
    but the last with at least one triangle) and every material-file name: `WriteMeshes` does not panic, and
    `ReadMesh` of its output succeeds and returns exactly one group per mesh, in order, with the mesh's
    name, one triangle per index triple in order whose corners are the tokens `(i+1+vo, i+1+to, i+1+no)` —
    each pool addressed with ITS OWN running offset — and the mesh's material ranges (`expMats`: a mesh
    without ranges inherits the material in effect).  The pools of the written text are the concatenated
    attribute arrays.  Together with `readObj_corners` this pins every corner's position / uv / normal. -/
theorem obj_roundtrip_struct (matFile : String) (ms : List (String × Mesh α)) (hne : ms ≠ [])
    (hwf : ∀ p ∈ ms, WFMesh p.2) (hnb : NonemptyButLast ms) :
    ∃ ls gs, writeObj matFile ms = .ok ls ∧
      readObj pcId ls = .ok (gs, if matFile = "" then [] else [matFile]) ∧
      gs.map sumG = expSum 0 0 0 none ms ∧
      poolV ls = ms.flatMap (fun p => optList p.2.pos) ∧ poolN ls = ms.flatMap (fun p => optList p.2.nrm) ∧
      poolT ls = ms.flatMap (fun p => optList p.2.uv) := by
  obtain ⟨⟨name, m⟩, rest, rfl⟩ := List.exists_cons_of_ne_nil hne
  let multi := decide (((name, m) :: rest).length > 1)
  have hmulti : rest ≠ [] → multi = true := by
    intro h; cases rest with
    | nil => exact absurd rfl h
    | cons q r => simp [multi]
  have hw := writeGroups_eq_aux multi ((name, m) :: rest) 0 0 0 hwf
  -- header
  let s0 : RState Corner α := { libs := if matFile = "" then [] else [matFile] }
  have eh : steps pcId ({} : RState Corner α) (headerLines matFile) = .ok s0 := by
    unfold headerLines
    by_cases hf : matFile = ""
    · simp [hf, steps, step, s0]
    · simp [hf, steps, step, s0]
  -- data
  have ed := steps_data_aux ((name, m) :: rest) s0
  -- the first `g` line (if any) only names the still empty working group
  let s1 : RState Corner α := { s0 with
      pv := s0.pv ++ ((name, m) :: rest).flatMap (fun p => optList p.2.pos),
      pt := s0.pt ++ ((name, m) :: rest).flatMap (fun p => optList p.2.uv),
      pn := s0.pn ++ ((name, m) :: rest).flatMap (fun p => optList p.2.nrm) }
  let s2 : RState Corner α := { s1 with cur := { s1.cur with name := name } }
  have eg : steps pcId s1 (gLine multi name) = .ok s2 := by
    unfold gLine
    by_cases hg : (multi || decide (name ≠ "")) = true
    · rw [if_pos hg]; simp [steps, step, s2, s1, s0]
    · have : name = "" := by
        simp only [Bool.or_eq_true, decide_eq_true_eq, not_or, Decidable.not_not] at hg; exact hg.2
      rw [if_neg hg]; simp [steps, s2, s1, s0, this]
  have hpools : PoolsAll s2.pv s2.pn s2.pt 0 0 0 ((name, m) :: rest) := by
    have := poolsAll_aux ((name, m) :: rest) [] [] []
    simpa [s2, s1, s0] using this
  obtain ⟨s', eb, hfin, hlibs⟩ := steps_groups_aux multi rest name m s2 0 0 0 (hwf (name, m) (by simp))
    (fun p hp => hwf p (by simp [hp])) hnb hmulti hpools ⟨rfl, rfl, rfl, rfl⟩ rfl
  refine ⟨headerLines matFile ++ dataLines ((name, m) :: rest) ++ groupLines multi 0 0 0 ((name, m) :: rest),
    (finish s').1, ?_, ?_, ?_, ?_⟩
  · simp only [writeObj, hw, multi]
  · unfold readObj
    rw [List.append_assoc, steps_append_aux pcId _ _ _ _ eh, steps_append_aux pcId _ _ _ _ ed]
    simp only [groupLines, List.append_assoc]
    rw [steps_append_aux pcId _ _ _ _ eg]
    rw [eb]
    simp only [Except.ok.injEq]
    rw [show finish s' = ((finish s').1, (finish s').2) from rfl, hlibs]
  · rw [hfin]; simp [s2, s1, s0]
  · obtain ⟨a1, a2, a3⟩ := pool_of_append_aux (headerLines matFile ++ dataLines ((name, m) :: rest))
      (groupLines multi 0 0 0 ((name, m) :: rest))
    obtain ⟨b1, b2, b3⟩ := pool_of_append_aux (headerLines matFile) (dataLines ((name, m) :: rest))
    obtain ⟨g1, g2, g3⟩ := noPool_groupLines_aux multi ((name, m) :: rest) 0 0 0
    obtain ⟨h1, h2, h3⟩ := pool_header_aux (α := α) matFile
    obtain ⟨d1, d2, d3⟩ := pool_data_aux ((name, m) :: rest)
    exact ⟨by rw [a1, b1, g1, h1, d1]; simp, by rw [a2, b2, g2, h2, d2]; simp, by rw [a3, b3, g3, h3, d3]; simp⟩

/-! #### from the structural round trip and the table invariant to the property predicate -/

section final

theorem lookup_aux {β γ : Type} {tbl : List β} {key : List γ} {f : γ → Option β}
    (h : tbl.map some = key.map f) {p : Nat} {t : γ} (hp : key[p]? = some t) : tbl[p]? = f t := by
  have := congrArg (fun l => l[p]?) h
  simp only [List.getElem?_map, hp, Option.map_some] at this
  cases hv : tbl[p]? with
  | none => simp [hv] at this
  | some x => simp only [hv, Option.map_some, Option.some.injEq] at this; rw [this]

/-- every corner of every triangle finds, in a table aligned with the tokens, the entry of its own token -/
theorem flat_lookup_aux {β γ : Type} {tbl : List β} {key : List γ} {f : γ → Option β}
    (h : tbl.map some = key.map f) : ∀ (tris : List (Nat × Nat × Nat)) (ftoks : List (γ × γ × γ)),
    tris.map (fun t => (key[t.1]?, key[t.2.1]?, key[t.2.2]?)) = ftoks.map (fun f => (some f.1, some f.2.1, some f.2.2)) →
    (flatTris tris).map (fun i => tbl[i]?) = (flatC ftoks).map f
  | [], [], _ => rfl
  | [], _ :: _, h' => by simp at h'
  | _ :: _, [], h' => by simp at h'
  | (p1, p2, p3) :: tris, (a, b, c) :: ftoks, h' => by
    simp only [List.map_cons, List.cons.injEq, Prod.mk.injEq] at h'
    obtain ⟨⟨h1, h2, h3⟩, hr⟩ := h'
    simp only [flatTris, flatC, List.map_cons, lookup_aux h h1, lookup_aux h h2, lookup_aux h h3,
      flat_lookup_aux h tris ftoks hr]

theorem flatC_cornerTriples_aux (mk : Nat → Corner) : ∀ ts : List (Nat × Nat × Nat),
    flatC (cornerTriples mk ts) = (flatTris ts).map mk
  | [] => rfl
  | (a, b, c) :: ts => by
    have := flatC_cornerTriples_aux mk ts
    simp only [cornerTriples] at this
    simp [cornerTriples, flatC, flatTris, this]

theorem mem_flatC_aux {τ : Type} : ∀ (fs : List (τ × τ × τ)) (f : τ × τ × τ), f ∈ fs →
    f.1 ∈ flatC fs ∧ f.2.1 ∈ flatC fs ∧ f.2.2 ∈ flatC fs
  | [], _, h => by cases h
  | (a, b, c) :: r, f, h => by
    rcases List.mem_cons.1 h with rfl | h
    · simp [flatC]
    · obtain ⟨h1, h2, h3⟩ := mem_flatC_aux r f h
      simp [flatC, h1, h2, h3]

theorem flatTris_len_eq_aux : ∀ (tris : List (Nat × Nat × Nat)), (flatTris tris).length = 3 * tris.length :=
  flatTris_length_aux

theorem v3map_id_aux (v : V3 α) : V3.map (fun x => x) v = v := by cases v; rfl
theorem v2map_id_aux (v : V2 α) : V2.map (fun x => x) v = v := by cases v; rfl

theorem filterMap_all_aux {β γ : Type} (f : β → Option γ) (g : β → γ) : ∀ l : List β, (∀ t ∈ l, f t = some (g t)) →
    l.filterMap f = l.map g
  | [], _ => rfl
  | a :: l, h => by
    simp [List.filterMap_cons, h a (by simp), filterMap_all_aux f g l (fun t ht => h t (by simp [ht]))]

theorem filterMap_none_aux {β γ : Type} (f : β → Option γ) : ∀ l : List β, (∀ t ∈ l, f t = none) → l.filterMap f = []
  | [], _ => rfl
  | a :: l, h => by
    simp [List.filterMap_cons, h a (by simp), filterMap_none_aux f l (fun t ht => h t (by simp [ht]))]

/-- one attribute of one group: if the source mesh has the array `src` (at pool offset `off`, every
    token's slot being `some (i+off)`), the group's table is complete and carries, corner by corner, the
    source entries; if the source lacks it, the group's table is empty -/
theorem attr_aux {β : Type} [DecidableEq β] (pool : List β) (off : Nat) (idx : List Nat) (mk : Nat → Corner)
    (sl : Corner → Option Nat) (g : Group Corner α) (tbl : List β)
    (htbl : tbl.map some = (g.toks.filterMap sl).map (fun i => pool[i]?))
    (hf : g.tris.map (fun t => (g.toks[t.1]?, g.toks[t.2.1]?, g.toks[t.2.2]?)) =
          g.ftoks.map (fun f => (some f.1, some f.2.1, some f.2.2)))
    (hm : ∀ t ∈ g.toks, ∃ f ∈ g.ftoks, t = f.1 ∨ t = f.2.1 ∨ t = f.2.2)
    (hft : g.ftoks = cornerTriples mk (triplesOf idx)) (h3 : idx.length % 3 = 0) :
    (∀ src : List β, (∀ i ∈ idx, sl (mk i) = some (i + off) ∧ i < src.length ∧ pool[i + off]? = src[i]?) →
      tbl.length = g.toks.length ∧ (flatTris g.tris).map (fun i => tbl[i]?) = idx.map (fun i => src[i]?)) ∧
    ((∀ i ∈ idx, sl (mk i) = none) → tbl = []) := by
  have htoks : ∀ t ∈ g.toks, ∃ i ∈ idx, t = mk i := by
    intro t ht
    obtain ⟨f, hfm, hh⟩ := hm t ht
    rw [hft] at hfm
    obtain ⟨h1, h2, h3'⟩ := mem_flatC_aux _ f hfm
    rw [flatC_cornerTriples_aux, flat_triplesOf_aux idx h3] at h1 h2 h3'
    rcases hh with rfl | rfl | rfl
    · obtain ⟨i, hi, e⟩ := List.mem_map.1 h1; exact ⟨i, hi, e.symm⟩
    · obtain ⟨i, hi, e⟩ := List.mem_map.1 h2; exact ⟨i, hi, e.symm⟩
    · obtain ⟨i, hi, e⟩ := List.mem_map.1 h3'; exact ⟨i, hi, e.symm⟩
  constructor
  · intro src hsrc
    -- every token has the slot
    have hall : ∀ t ∈ g.toks, sl t = some ((sl t).getD 0) := by
      intro t ht
      obtain ⟨i, hi, rfl⟩ := htoks t ht
      rw [(hsrc i hi).1]; rfl
    rw [filterMap_all_aux sl (fun t => (sl t).getD 0) g.toks hall, List.map_map] at htbl
    refine ⟨by simpa using congrArg List.length htbl, ?_⟩
    rw [flat_lookup_aux htbl g.tris g.ftoks hf, hft, flatC_cornerTriples_aux, flat_triplesOf_aux idx h3, List.map_map]
    apply List.map_congr_left
    intro i hi
    obtain ⟨e1, _, e3⟩ := hsrc i hi
    simp [e1, e3]
  · intro hnone
    have : g.toks.filterMap sl = [] := filterMap_none_aux sl g.toks (by
      intro t ht
      obtain ⟨i, hi, rfl⟩ := htoks t ht
      exact hnone i hi)
    rw [this] at htbl
    simpa using htbl

theorem attrMatches_some_aux {β : Type} [DecidableEq β] (f : β → β) (hf : ∀ x, f x = x) (idx ridx : List Nat)
    (a b : List β) (hin : ∀ i ∈ idx, i < a.length)
    (h : ridx.map (fun i => b[i]?) = idx.map (fun i => a[i]?)) :
    attrMatches f idx ridx (some a) (some b) = true := by
  have hw : idx.map (fun i => (a[i]?).map f) = idx.map (fun i => a[i]?) := by
    apply List.map_congr_left
    intro i _
    cases a[i]? <;> simp [hf]
  unfold attrMatches
  simp only [hw, h, Bool.and_eq_true, List.all_eq_true, List.mem_map, forall_exists_index, and_imp,
    forall_apply_eq_imp_iff₂, beq_self_eq_true, and_true]
  intro i hi
  simp [List.getElem?_eq_getElem (hin i hi)]

theorem nextCarry_eq_aux (carry : Option String) (m : Mesh α) : nextCarry carry m = lastMat m.mats carry := by
  unfold nextCarry lastMat
  cases m.mats.getLast? with
  | none => rfl
  | some p => cases p; rfl

theorem expectMats_eq_aux (carry : Option String) (m : Mesh α) (h3 : m.idx.length % 3 = 0) :
    (expMats carry m).map (fun (p : String × Nat) => ((some p.1 : Option String), p.2)) = expectMats carry m := by
  unfold expMats expectMats writtenMats
  by_cases hm : m.mats = []
  · cases carry with
    | none => simp [hm]
    | some a =>
      by_cases hi : m.idx = []
      · simp [hm, hi]
      · have : m.idx.length / 3 ≠ 0 := by
          have : m.idx.length ≠ 0 := fun h => hi (List.eq_nil_of_length_eq_zero h)
          omega
        simp [hm, hi, this]
  · simp [hm, List.map_map, Function.comp_def]

/-- one group against its mesh -/
theorem group_matches_aux [DecidableEq α] (PV PN : List (V3 α)) (PT : List (V2 α)) (vo to no : Nat)
    (carry : Option String) (m : Mesh α) (g : Group Corner α) (hw : WFMesh m)
    (hp : PoolsFor PV PN PT vo to no m) (hi : GInv pcId PV PN PT g)
    (hft : g.ftoks = cornerTriples (mkCorner m.uv.isSome m.nrm.isSome vo to no) (triplesOf m.idx))
    (hmats : g.mats = expMats carry m) :
    MeshMatches id m (expectMats carry m) (toMesh g).2 = true := by
  obtain ⟨ps, hps, hlt⟩ := hw.pos
  have h3 := hw.len3
  have hlen : g.tris.length = (triplesOf m.idx).length := by
    have := congrArg List.length hi.hf
    simpa [hft, cornerTriples] using this
  have hridx : (flatTris g.tris).length = m.idx.length := by
    rw [flatTris_length_aux, hlen, triplesOf_length_aux]; omega
  have hmats' : (g.mats.map fun (p : String × Nat) => ((some p.1 : Option String), p.2)) = expectMats carry m := by
    rw [hmats]; exact expectMats_eq_aux carry m h3
  -- positions
  have hvof : ∀ i ∈ m.idx, vOf pcId PV (mkCorner m.uv.isSome m.nrm.isSome vo to no i) = ps[i]? := by
    intro i hi'
    have : i + 1 + vo - 1 = i + vo := by omega
    simp [vOf, mkCorner, this, hp.1 ps hps i (hlt i hi')]
  have hposl : (flatTris g.tris).map (fun i => g.verts[i]?) = m.idx.map (fun i => ps[i]?) := by
    rw [flat_lookup_aux hi.hv g.tris g.ftoks hi.hf, hft, flatC_cornerTriples_aux, flat_triplesOf_aux m.idx h3,
      List.map_map]
    exact List.map_congr_left hvof
  have hvl : g.verts.length = g.toks.length := by simpa using congrArg List.length hi.hv
  -- normals and uvs
  obtain ⟨hn1, hn2⟩ := attr_aux PN no m.idx (mkCorner m.uv.isSome m.nrm.isSome vo to no) (fun c => slot c.vn) g g.normals
    hi.hn hi.hf hi.hm hft h3
  obtain ⟨ht1, ht2⟩ := attr_aux PT to m.idx (mkCorner m.uv.isSome m.nrm.isSome vo to no) (fun c => slot c.vt) g g.uvs
    hi.ht hi.hf hi.hm hft h3
  unfold MeshMatches
  simp only [toMesh, hridx, hmats', beq_self_eq_true, Bool.true_and]
  by_cases hidx : m.idx = []
  · -- no triangle: no token, no table
    have hts : triplesOf m.idx = [] := by rw [hidx]; rfl
    have hf0 : g.ftoks = [] := by rw [hft, hts]; rfl
    have htoks : g.toks = [] := by
      cases ht : g.toks with
      | nil => rfl
      | cons t r =>
        obtain ⟨f, hf, _⟩ := hi.hm t (by rw [ht]; simp)
        rw [hf0] at hf; cases hf
    have hv0 : g.verts = [] := by
      have := hi.hv; rw [htoks] at this; simpa using this
    have hn0 : g.normals = [] := by
      have := hi.hn; rw [htoks] at this; simpa using this
    have hu0 : g.uvs = [] := by
      have := hi.ht; rw [htoks] at this; simpa using this
    simp [hidx, hv0, hn0, hu0, optOfList, keepIfComplete]
  · simp only [hidx, ↓reduceIte, Bool.and_eq_true]
    have htne : g.tris ≠ [] := by
      intro h
      have : m.idx.length = 0 := by rw [← hridx, h]; rfl
      exact hidx (List.eq_nil_of_length_eq_zero this)
    have hvne : g.verts ≠ [] := by
      intro h
      cases htr : g.tris with
      | nil => exact htne htr
      | cons t r =>
        have := hposl
        rw [htr, h] at this
        obtain ⟨a, b, c⟩ := t
        cases hmi : m.idx with
        | nil => exact hidx hmi
        | cons i r' =>
          rw [hmi] at this
          simp only [flatTris, List.map_cons, List.getElem?_nil, List.cons.injEq] at this
          have hlt' := hlt i (by rw [hmi]; simp)
          rw [List.getElem?_eq_getElem hlt'] at this
          cases this.1
    refine ⟨⟨?_, ?_⟩, ?_⟩
    · -- positions
      rw [hps]
      simp only [optOfList, hvne, ↓reduceIte]
      exact attrMatches_some_aux _ (fun v => by cases v; rfl) _ _ _ _ hlt hposl
    · -- uvs
      cases hu : m.uv with
      | none =>
        have : g.uvs = [] := ht2 (by intro i _; simp [mkCorner, hu, slot])
        simp [this, keepIfComplete, attrMatches]
      | some us =>
        obtain ⟨hl, hm'⟩ := ht1 us (by
          intro i hi'
          have hlt' := hw.uv us hu i hi'
          refine ⟨by simp [mkCorner, hu, slot], hlt', hp.2.1 us hu i hlt'⟩)
        have hne : g.uvs ≠ [] := by
          intro h; rw [h] at hl; exact hvne (List.eq_nil_of_length_eq_zero (by rw [hvl, ← hl]; rfl))
        simp only [keepIfComplete, hne, ne_eq, not_false_eq_true, hl, hvl, and_self, ↓reduceIte]
        exact attrMatches_some_aux _ (fun v => by cases v; rfl) _ _ _ _ (hw.uv us hu) hm'
    · -- normals
      cases hn : m.nrm with
      | none =>
        have : g.normals = [] := hn2 (by intro i _; simp [mkCorner, hn, slot])
        simp [this, keepIfComplete, attrMatches]
      | some ns =>
        obtain ⟨hl, hm'⟩ := hn1 ns (by
          intro i hi'
          have hlt' := hw.nrm ns hn i hi'
          refine ⟨by simp [mkCorner, hn, slot], hlt', hp.2.2 ns hn i hlt'⟩)
        have hne : g.normals ≠ [] := by
          intro h; rw [h] at hl; exact hvne (List.eq_nil_of_length_eq_zero (by rw [hvl, ← hl]; rfl))
        simp only [keepIfComplete, hne, ne_eq, not_false_eq_true, hl, hvl, and_self, ↓reduceIte]
        exact attrMatches_some_aux _ (fun v => by cases v; rfl) _ _ _ _ (hw.nrm ns hn) hm'


theorem groups_match_aux [DecidableEq α] (PV PN : List (V3 α)) (PT : List (V2 α)) :
    ∀ (ms : List (String × Mesh α)) (gs : List (Group Corner α)) (vo to no : Nat) (carry : Option String),
    (∀ p ∈ ms, WFMesh p.2) → PoolsAll PV PN PT vo to no ms → (∀ g ∈ gs, GInv pcId PV PN PT g) →
    gs.map sumG = expSum vo to no carry ms → RoundTripsCarry id carry ms (gs.map toMesh) = true
  | [], [], _, _, _, _, _, _, _, _ => rfl
  | [], _ :: _, _, _, _, _, _, _, _, h => by simp [expSum] at h
  | _ :: _, [], _, _, _, _, _, _, _, h => by
    rename_i p _ ; obtain ⟨name, m⟩ := p; simp [expSum] at h
  | (name, m) :: ms, g :: gs, vo, to, no, carry, hwf, hp, hi, h => by
    simp only [List.map_cons, expSum, List.cons.injEq, sumG, Prod.mk.injEq] at h
    obtain ⟨⟨hname, hft, hmats⟩, hrest⟩ := h
    have hg := group_matches_aux PV PN PT vo to no carry m g (hwf (name, m) (by simp)) hp.1 (hi g (by simp)) hft hmats
    have hr := groups_match_aux PV PN PT ms gs _ _ _ _ (fun p hp' => hwf p (by simp [hp'])) hp.2
      (fun g' hg' => hi g' (by simp [hg'])) hrest
    simp only [List.map_cons, RoundTripsCarry, Bool.and_eq_true, beq_iff_eq]
    refine ⟨⟨?_, hg⟩, ?_⟩
    · simp [toMesh, hname]
    · rw [nextCarry_eq_aux]; exact hr

/-- no mesh without material ranges (but with faces) comes after a mesh with ranges — outside this class the
    reader's carried material shows up (known deviation `roundtrip_matless_after_mat`) -/
def NoMatlessAfterMat : Option String → List (String × Mesh α) → Prop
  | _, [] => True
  | carry, (_, m) :: rest => (m.mats = [] → m.idx ≠ [] → carry = none) ∧ NoMatlessAfterMat (lastMat m.mats carry) rest

theorem strict_of_carry_aux [DecidableEq α] : ∀ (ms gs : List (String × Mesh α)) (carry : Option String),
    NoMatlessAfterMat carry ms → RoundTripsCarry id carry ms gs = true → RoundTrips id ms gs = true
  | [], [], _, _, _ => rfl
  | [], _ :: _, _, _, h => by simp [RoundTripsCarry] at h
  | _ :: _, [], _, _, h => by simp [RoundTripsCarry] at h
  | (name, m) :: ms, r :: gs, carry, hn, h => by
    simp only [RoundTripsCarry, Bool.and_eq_true] at h
    obtain ⟨⟨h1, h2⟩, h3⟩ := h
    rw [nextCarry_eq_aux] at h3
    have ih := strict_of_carry_aux ms gs _ hn.2 h3
    have hm : expectMats carry m = writtenMats m := by
      unfold expectMats
      by_cases hmm : m.mats = []
      · by_cases hi : m.idx = []
        · cases carry <;> simp [hmm, hi, writtenMats]
        · rw [hn.1 hmm hi]; simp [hmm, writtenMats]
      · simp [hmm]
    unfold RoundTrips at ih ⊢
    simp only [List.length_cons, List.zip_cons_cons, List.all_cons, Bool.and_eq_true, beq_iff_eq] at ih ⊢
    refine ⟨by omega, ⟨?_, ?_⟩, ih.2⟩
    · simpa using h1
    · rw [← hm]; exact h2

/-- **C05, clause 1 — exactly what the code does.**  For every non-empty list of named well-formed triangle
    meshes (hypotheses as in `obj_roundtrip_struct`): writing and reading back succeeds and the result
    satisfies `RoundTripsCarry`: one group per mesh, same names, same number of triangles in the same
    order, every corner with the same position / texture coordinate / normal (an absent attribute stays
    absent), and the mesh's material ranges — where a mesh WITHOUT ranges inherits the material in effect. -/
theorem obj_roundtrip_carry [DecidableEq α] (matFile : String) (ms : List (String × Mesh α)) (hne : ms ≠ [])
    (hwf : ∀ p ∈ ms, WFMesh p.2) (hnb : NonemptyButLast ms) :
    ∃ ls gs libs, writeObj matFile ms = .ok ls ∧ readObj pcId ls = .ok (gs, libs) ∧
      RoundTripsCarry id none ms (gs.map toMesh) = true := by
  obtain ⟨ls, gs, hw, hr, hs, pv, pn, pt⟩ := obj_roundtrip_struct matFile ms hne hwf hnb
  refine ⟨ls, gs, _, hw, hr, ?_⟩
  have hinv := readObj_corners pcId hr
  rw [pv, pn, pt] at hinv
  have hpools := poolsAll_aux ms [] [] []
  simp only [List.nil_append, List.length_nil] at hpools
  exact groups_match_aux _ _ _ ms gs 0 0 0 none hwf hpools hinv hs

/-- **C05, clause 1 — as the property states it.**  Under the additional hypothesis that no mesh without
    material ranges follows a mesh with ranges, the read-back scene satisfies the strict predicate
    `RoundTrips` (same material ranges on every mesh, none invented). -/
theorem obj_roundtrip [DecidableEq α] (matFile : String) (ms : List (String × Mesh α)) (hne : ms ≠ [])
    (hwf : ∀ p ∈ ms, WFMesh p.2) (hnb : NonemptyButLast ms) (hmat : NoMatlessAfterMat none ms) :
    ∃ ls gs libs, writeObj matFile ms = .ok ls ∧ readObj pcId ls = .ok (gs, libs) ∧
      RoundTrips id ms (gs.map toMesh) = true := by
  obtain ⟨ls, gs, libs, hw, hr, hc⟩ := obj_roundtrip_carry matFile ms hne hwf hnb
  exact ⟨ls, gs, libs, hw, hr, strict_of_carry_aux ms _ none hmat hc⟩

end final

end roundtrip

/-! ### the text layer as an explicit law: token printing and scalar transport

  Between writer and reader sits text: every corner `c` is printed as a token `show c` that the reader
  parses back (`pc' (show c) = pc c`; distinct corners print differently), and every scalar `x` comes back
  as `rt x` (print, then `ParseFloat(·, 32)`).  The reader commutes with any such transport. -/

section transport
variable {τ τ' α β : Type} [DecidableEq τ] [DecidableEq τ']

def mapLine (ft : τ → τ') (fs : α → β) : Line τ α → Line τ' β
  | .v p => .v (V3.map fs p)
  | .vt p => .vt (V2.map fs p)
  | .vn p => .vn (V3.map fs p)
  | .f a b c => .f (ft a) (ft b) (ft c)
  | .g n => .g n
  | .usemtl n => .usemtl n
  | .mtllib fs' => .mtllib fs'
  | .other t => .other t
  | .bad e => .bad e

def mapGroup (ft : τ → τ') (fs : α → β) (g : Group τ α) : Group τ' β :=
  { name := g.name, toks := g.toks.map ft, tris := g.tris, verts := g.verts.map (V3.map fs),
    normals := g.normals.map (V3.map fs), uvs := g.uvs.map (V2.map fs), mats := g.mats,
    ftoks := g.ftoks.map fun f => (ft f.1, ft f.2.1, ft f.2.2) }

def mapState (ft : τ → τ') (fs : α → β) (s : RState τ α) : RState τ' β :=
  { pv := s.pv.map (V3.map fs), pn := s.pn.map (V3.map fs), pt := s.pt.map (V2.map fs), libs := s.libs,
    since := s.since, inEffect := s.inEffect, done := s.done.map (mapGroup ft fs), cur := mapGroup ft fs s.cur }

theorem idxOf_map_aux (ft : τ → τ') (hinj : ∀ a b, ft a = ft b → a = b) (t : τ) :
    ∀ l : List τ, (l.map ft).idxOf (ft t) = l.idxOf t
  | [] => rfl
  | a :: l => by
    by_cases e : a = t
    · subst e; simp [List.idxOf_cons]
    · have e' : ft a ≠ ft t := fun h => e (hinj _ _ h)
      have hb : (a == t) = false := by simpa using e
      have hb' : (ft a == ft t) = false := by simpa using e'
      simp [List.idxOf_cons, hb, hb', idxOf_map_aux ft hinj t l]

theorem mem_map_inj_aux (ft : τ → τ') (hinj : ∀ a b, ft a = ft b → a = b) (t : τ) (l : List τ) :
    ft t ∈ l.map ft ↔ t ∈ l := by
  constructor
  · intro h
    obtain ⟨a, ha, e⟩ := List.mem_map.1 h
    rw [← hinj _ _ e]; exact ha
  · exact List.mem_map_of_mem

theorem addCorner_map_aux (pc : τ → Except Err Corner) (pc' : τ' → Except Err Corner) (ft : τ → τ') (fs : α → β)
    (hinj : ∀ a b, ft a = ft b → a = b) (hpc : ∀ t, pc' (ft t) = pc t) (s : RState τ α) (g : Group τ α) (t : τ) :
    addCorner pc' (mapState ft fs s) (mapGroup ft fs g) (ft t) =
      (match addCorner pc s g t with
       | .ok (p, g') => .ok (p, mapGroup ft fs g')
       | .error e => .error e) := by
  unfold addCorner
  by_cases hm : t ∈ g.toks
  · have hm' : ft t ∈ (mapGroup ft fs g).toks := (mem_map_inj_aux ft hinj t g.toks).2 hm
    simp only [hm, hm', ↓reduceIte]
    simp [mapGroup, idxOf_map_aux ft hinj]
  · have hm' : ¬ ft t ∈ (mapGroup ft fs g).toks := fun h => hm ((mem_map_inj_aux ft hinj t g.toks).1 h)
    simp only [hm, hm', ↓reduceIte, hpc]
    cases pc t with
    | error e => rfl
    | ok c =>
      simp only
      by_cases hv : c.v = 0
      · simp [hv]
      · simp only [hv, ↓reduceIte, mapState, List.getElem?_map]
        cases s.pv[c.v - 1]? with
        | none => rfl
        | some p =>
          simp only [Option.map_some]
          cases slot c.vn with
          | none =>
            cases slot c.vt with
            | none => simp [mapGroup]
            | some j =>
              simp only [List.getElem?_map]
              cases s.pt[j]? <;> simp [mapGroup]
          | some i =>
            simp only [List.getElem?_map]
            cases s.pn[i]? with
            | none => simp
            | some n =>
              cases slot c.vt with
              | none => simp [mapGroup]
              | some j =>
                simp only [List.getElem?_map]
                cases s.pt[j]? <;> simp [mapGroup]

theorem step_map_aux (pc : τ → Except Err Corner) (pc' : τ' → Except Err Corner) (ft : τ → τ') (fs : α → β)
    (hinj : ∀ a b, ft a = ft b → a = b) (hpc : ∀ t, pc' (ft t) = pc t) (s : RState τ α) (l : Line τ α) :
    step pc' (mapState ft fs s) (mapLine ft fs l) =
      (match step pc s l with
       | .ok s' => .ok (mapState ft fs s')
       | .error e => .error e) := by
  cases l with
  | other t => rfl
  | bad e => rfl
  | mtllib fs' =>
    simp only [mapLine, step]
    split <;> simp [mapState]
  | v p => simp [mapLine, step, mapState]
  | vn p => simp [mapLine, step, mapState]
  | vt p => simp [mapLine, step, mapState]
  | usemtl name =>
    simp only [mapLine, step]
    split
    · rfl
    · simp [mapState, mapGroup]; try rfl
  | g name =>
    simp only [mapLine, step]
    have : (mapState ft fs s).cur.tris = s.cur.tris := rfl
    rw [this]
    split
    · simp [mapState, mapGroup]
    · simp [mapState, mapGroup]
  | f a b c =>
    simp only [mapLine, step]
    have h0 : ({ (mapState ft fs s).cur with mats := carryMats (mapState ft fs s).cur.mats (mapState ft fs s).inEffect } : Group τ' β)
        = mapGroup ft fs { s.cur with mats := carryMats s.cur.mats s.inEffect } := rfl
    rw [h0, addCorner_map_aux pc pc' ft fs hinj hpc]
    cases addCorner pc s { s.cur with mats := carryMats s.cur.mats s.inEffect } a with
    | error e => rfl
    | ok r1 =>
      obtain ⟨p1, g1⟩ := r1
      simp only
      rw [addCorner_map_aux pc pc' ft fs hinj hpc]
      cases addCorner pc s g1 b with
      | error e => rfl
      | ok r2 =>
        obtain ⟨p2, g2⟩ := r2
        simp only
        rw [addCorner_map_aux pc pc' ft fs hinj hpc]
        cases addCorner pc s g2 c with
        | error e => rfl
        | ok r3 =>
          obtain ⟨p3, g3⟩ := r3
          simp [mapState, mapGroup]

theorem steps_map_aux (pc : τ → Except Err Corner) (pc' : τ' → Except Err Corner) (ft : τ → τ') (fs : α → β)
    (hinj : ∀ a b, ft a = ft b → a = b) (hpc : ∀ t, pc' (ft t) = pc t) :
    ∀ (ls : List (Line τ α)) (s : RState τ α),
    steps pc' (mapState ft fs s) (ls.map (mapLine ft fs)) =
      (match steps pc s ls with
       | .ok s' => .ok (mapState ft fs s')
       | .error e => .error e)
  | [], s => rfl
  | l :: ls, s => by
    simp only [List.map_cons, steps, step_map_aux pc pc' ft fs hinj hpc]
    cases step pc s l with
    | error e => rfl
    | ok s1 => simp only; exact steps_map_aux pc pc' ft fs hinj hpc ls s1

/-- **The reader commutes with the text layer.**  If tokens are transported by an injective `ft` that the
    second parser undoes (`pc' (ft t) = pc t`) and scalars by any `fs`, then reading the transported lines
    gives the transported result: same groups, names, triangles, ranges; tables mapped by `fs`. -/
theorem readObj_transport (pc : τ → Except Err Corner) (pc' : τ' → Except Err Corner) (ft : τ → τ') (fs : α → β)
    (hinj : ∀ a b, ft a = ft b → a = b) (hpc : ∀ t, pc' (ft t) = pc t) (ls : List (Line τ α)) :
    readObj pc' (ls.map (mapLine ft fs)) =
      (match readObj pc ls with
       | .ok (gs, libs) => .ok (gs.map (mapGroup ft fs), libs)
       | .error e => .error e) := by
  unfold readObj
  have h := steps_map_aux pc pc' ft fs hinj hpc ls {}
  have h0 : mapState ft fs ({} : RState τ α) = {} := rfl
  rw [h0] at h
  rw [h]
  cases steps pc {} ls with
  | error e => rfl
  | ok s => simp [finish, mapState, mapGroup]


def mapMesh (fs : α → β) (m : Mesh α) : Mesh β :=
  ⟨m.idx, m.pos.map (fun l => l.map (V3.map fs)), m.uv.map (fun l => l.map (V2.map fs)),
   m.nrm.map (fun l => l.map (V3.map fs)), m.mats⟩

theorem toMesh_map_aux (ft : τ → τ') (fs : α → β) (g : Group τ α) :
    toMesh (mapGroup ft fs g) = ((toMesh g).1, mapMesh fs (toMesh g).2) := by
  have h1 : ∀ {γ δ : Type} (f : γ → δ) (l : List γ), optOfList (l.map f) = (optOfList l).map (fun l => l.map f) := by
    intro γ δ f l; cases l <;> simp [optOfList]
  have h2 : ∀ {γ δ : Type} (f : γ → δ) (n : Nat) (l : List γ),
      keepIfComplete n (l.map f) = (keepIfComplete n l).map (fun l => l.map f) := by
    intro γ δ f n l
    unfold keepIfComplete
    by_cases h : l ≠ [] ∧ l.length = n
    · have : l.map f ≠ [] ∧ (l.map f).length = n := by simpa using h
      simp [h, this]
    · have : ¬ (l.map f ≠ [] ∧ (l.map f).length = n) := by simpa using h
      simp [h, this]
  simp [toMesh, mapGroup, mapMesh, h1, h2]

end transport

section transport2
variable {α : Type} [DecidableEq α]

theorem attrMatches_map_aux {β : Type} [DecidableEq β] (f : β → β) (idx ridx : List Nat) (src dst : Option (List β))
    (h : attrMatches id idx ridx src dst = true) :
    attrMatches f idx ridx src (dst.map fun l => l.map f) = true := by
  cases src with
  | none => cases dst with
    | none => rfl
    | some b => simp [attrMatches] at h
  | some a => cases dst with
    | none => simp [attrMatches] at h
    | some b =>
      simp only [attrMatches, Option.map_id_fun, id_eq, Bool.and_eq_true, List.all_eq_true, beq_iff_eq] at h
      obtain ⟨hall, heq⟩ := h
      simp only [attrMatches, Option.map_some, Bool.and_eq_true, List.all_eq_true, beq_iff_eq]
      constructor
      · intro o ho
        obtain ⟨i, hi, rfl⟩ := List.mem_map.1 ho
        have := hall (a[i]?) (List.mem_map.2 ⟨i, hi, rfl⟩)
        cases h' : a[i]? with
        | none => simp [h'] at this
        | some x => rfl
      · have : ridx.map (fun i => (b.map f)[i]?) = (ridx.map (fun i => b[i]?)).map (Option.map f) := by
          simp [List.map_map, Function.comp_def]
        rw [this, heq]
        simp [List.map_map, Function.comp_def]

theorem meshMatches_map_aux (rt : α → α) (m : Mesh α) (mats : List (Option String × Nat)) (r : Mesh α)
    (h : MeshMatches id m mats r = true) : MeshMatches rt m mats (mapMesh rt r) = true := by
  unfold MeshMatches at h ⊢
  simp only [Bool.and_eq_true] at h ⊢
  obtain ⟨⟨h1, h2⟩, h3⟩ := h
  refine ⟨⟨by simpa [mapMesh] using h1, by simpa [mapMesh] using h2⟩, ?_⟩
  by_cases hi : m.idx = []
  · simp only [hi, ↓reduceIte, Bool.and_eq_true, beq_iff_eq] at h3 ⊢
    obtain ⟨⟨a, b⟩, c⟩ := h3
    simp [mapMesh, a, b, c]
  · simp only [hi, ↓reduceIte, Bool.and_eq_true] at h3 ⊢
    obtain ⟨⟨a, b⟩, c⟩ := h3
    have e3 : (V3.map (id : α → α)) = id := by funext v; cases v; rfl
    have e2 : (V2.map (id : α → α)) = id := by funext v; cases v; rfl
    rw [e3] at a c
    rw [e2] at b
    exact ⟨⟨attrMatches_map_aux _ _ _ _ _ a, attrMatches_map_aux _ _ _ _ _ b⟩, attrMatches_map_aux _ _ _ _ _ c⟩

theorem roundTripsCarry_map_aux (rt : α → α) : ∀ (ms gs : List (String × Mesh α)) (carry : Option String),
    RoundTripsCarry id carry ms gs = true →
    RoundTripsCarry rt carry ms (gs.map fun p => (p.1, mapMesh rt p.2)) = true
  | [], [], _, _ => rfl
  | [], _ :: _, _, h => by simp [RoundTripsCarry] at h
  | _ :: _, [], _, h => by simp [RoundTripsCarry] at h
  | p :: ms, r :: gs, carry, h => by
    simp only [RoundTripsCarry, Bool.and_eq_true, List.map_cons] at h ⊢
    obtain ⟨⟨h1, h2⟩, h3⟩ := h
    exact ⟨⟨h1, meshMatches_map_aux rt _ _ _ h2⟩, roundTripsCarry_map_aux rt ms gs _ h3⟩

theorem roundTrips_map_aux (rt : α → α) : ∀ (ms gs : List (String × Mesh α)),
    RoundTrips id ms gs = true → RoundTrips rt ms (gs.map fun p => (p.1, mapMesh rt p.2)) = true
  | [], [], _ => rfl
  | [], _ :: _, h => by simp [RoundTrips] at h
  | _ :: _, [], h => by simp [RoundTrips] at h
  | p :: ms, r :: gs, h => by
    have ih := roundTrips_map_aux rt ms gs
    unfold RoundTrips at h ih ⊢
    simp only [List.length_cons, List.zip_cons_cons, List.all_cons, Bool.and_eq_true, beq_iff_eq, List.map_cons,
      List.length_map] at h ih ⊢
    obtain ⟨hl, ⟨h1, h2⟩, h3⟩ := h
    have := ih ⟨by omega, h3⟩
    exact ⟨hl, ⟨h1, meshMatches_map_aux rt _ _ _ h2⟩, this.2⟩

/-- **C05 clause 1 through the text layer, print/parse as an explicit law.**  Let corners be printed by
    any `show` that the reader's corner parser `pc'` undoes (`pc' (show c) = ok c`) and let every scalar
    come back from the text as `rt x` (for the real code: shortest decimal, then `ParseFloat(·, 32)` —
    float32 precision).  Then for every non-empty list of named well-formed triangle meshes, reading the
    written text succeeds and the result satisfies `RoundTripsCarry rt` — and the strict property
    predicate `RoundTrips rt` whenever no material-less mesh follows a mesh with ranges. -/
theorem obj_roundtrip_text {τ' : Type} [DecidableEq τ'] (pc' : τ' → Except Err Corner) (shw : Corner → τ')
    (rt : α → α) (hshow : ∀ c, pc' (shw c) = .ok c) (matFile : String) (ms : List (String × Mesh α))
    (hne : ms ≠ []) (hwf : ∀ p ∈ ms, WFMesh p.2) (hnb : NonemptyButLast ms) :
    ∃ ls gs libs, writeObj matFile ms = .ok ls ∧ readObj pc' (ls.map (mapLine shw rt)) = .ok (gs, libs) ∧
      RoundTripsCarry rt none ms (gs.map toMesh) = true ∧
      (NoMatlessAfterMat none ms → RoundTrips rt ms (gs.map toMesh) = true) := by
  obtain ⟨ls, gs, libs, hw, hr, hc⟩ := obj_roundtrip_carry matFile ms hne hwf hnb
  have hinj : ∀ a b, shw a = shw b → a = b := by
    intro a b h
    have := hshow a
    rw [h, hshow b] at this
    cases this; rfl
  have ht := readObj_transport pcId pc' shw rt hinj hshow ls
  rw [hr] at ht
  have hm : (gs.map (mapGroup shw rt)).map toMesh = (gs.map toMesh).map fun p => (p.1, mapMesh rt p.2) := by
    simp [List.map_map, Function.comp_def, toMesh_map_aux]
  refine ⟨ls, gs.map (mapGroup shw rt), libs, hw, ht, ?_, ?_⟩
  · rw [hm]; exact roundTripsCarry_map_aux rt ms _ none hc
  · intro hmat
    rw [hm]; exact roundTrips_map_aux rt ms _ (strict_of_carry_aux ms _ none hmat hc)

end transport2

/-! ### the pinned defect: one shared offset for v / vt / vn -/

section shared

/-- write, then read the lines back (corner tokens are the corners themselves) -/
def thenRead {α : Type} (w : Except Err (List (Line Corner α))) : Except Err (List (String × Mesh α) × List String) :=
  match w with
  | .error e => .error e
  | .ok ls => match readObj (fun c => .ok c) ls with
    | .error e => .error e
    | .ok (gs, libs) => .ok (gs.map toMesh, libs)

/-- a mesh without normals followed by a mesh with normals (one triangle each; payload `Nat`) -/
def mixedWitness : List (String × Mesh Nat) :=
  [("A", ⟨[0, 1, 2], some [⟨0, 0, 0⟩, ⟨1, 0, 0⟩, ⟨0, 1, 0⟩], none, none, []⟩),
   ("B", ⟨[0, 2, 1], some [⟨5, 0, 0⟩, ⟨6, 0, 0⟩, ⟨5, 1, 0⟩], none, some [⟨7, 7, 1⟩, ⟨8, 8, 1⟩, ⟨9, 9, 1⟩], []⟩)]

/-- **A single shared offset is wrong for mixed attribute sets** (the defect the tree was pinned with):
    on `mixedWitness` the shared-offset writer emits `f 4//4 6//6 5//5` although only three `vn` lines
    exist, and reading its output panics; the writer with separate offsets round-trips the same scene. -/
theorem obj_shared_offset_breaks :
    (match thenRead (writeObjShared "" mixedWitness) with | .error .panic => true | _ => false) = true ∧
    (match thenRead (writeObj "" mixedWitness) with
     | .ok (gs, _) => RoundTrips id mixedWitness gs
     | .error _ => false) = true := by
  constructor <;> decide

/-- the hypotheses of `obj_roundtrip` are satisfiable by a mixed-attribute scene -/
example : mixedWitness ≠ [] ∧ NonemptyButLast mixedWitness ∧ NoMatlessAfterMat none mixedWitness ∧
    ∀ p ∈ mixedWitness, WFMesh p.2 := by
  refine ⟨by decide, ?_, ?_, ?_⟩
  · exact And.intro (by decide) trivial
  · exact And.intro (by intro _ _; rfl) (And.intro (by intro _ _; rfl) trivial)
  · intro p hp
    simp only [mixedWitness, List.mem_cons, List.not_mem_nil, or_false] at hp
    rcases hp with rfl | rfl
    · exact ⟨rfl, ⟨_, rfl, by decide⟩, (by intro us h; cases h), (by intro ns h; cases h), Or.inl rfl, (by decide)⟩
    · exact ⟨rfl, ⟨_, rfl, by decide⟩, (by intro us h; cases h), (by intro ns h; cases h; decide), Or.inl rfl, (by decide)⟩

end shared

/-! ### the two known deviations, as closed witnesses (the scenes the harness replays on every run) -/

section findings

def triMesh (off : Nat) (mats : List (Option String × Nat)) : Mesh Nat :=
  ⟨[0, 1, 2], some [⟨off, 0, 0⟩, ⟨off, 1, 0⟩, ⟨off, 0, 1⟩], none, none, mats⟩

/-- mesh `A` with material `red`, then mesh `B` without material ranges -/
def matlessWitness : List (String × Mesh Nat) := [("A", triMesh 0 [(some "red", 1)]), ("B", triMesh 1 [])]

/-- **Known finding 1, as a theorem about the model**: on `matlessWitness` the round trip satisfies the
    exact-behaviour predicate but NOT the property predicate — `B` comes back with material `red`. -/
theorem obj_matless_after_mat_witness :
    (match thenRead (writeObj "" matlessWitness) with
     | .ok (gs, _) => RoundTripsCarry id none matlessWitness gs && !RoundTrips id matlessWitness gs &&
        (gs.map fun p => p.2.mats) == [[(some "red", 1)], [(some "red", 1)]]
     | .error _ => false) = true := by decide

/-- an empty mesh between two others -/
def emptyMidWitness : List (String × Mesh Nat) :=
  [("A", triMesh 0 []), ("E", ⟨[], none, none, none, []⟩), ("B", triMesh 1 [])]

/-- **Known finding 2**: on `emptyMidWitness` only two groups come back (`A` and `B`); the empty mesh's
    group is lost, so the property predicate is false. -/
theorem obj_empty_mesh_not_last_witness :
    (match thenRead (writeObj "" emptyMidWitness) with
     | .ok (gs, _) => (gs.map fun p => p.1) == ["A", "B"] && !RoundTrips id emptyMidWitness gs
     | .error _ => false) = true := by decide

end findings

/-! ### load → save → load -/

section reload
variable {τ α : Type} [DecidableEq τ] (pc : τ → Except Err Corner)

theorem mem_flatTris_aux : ∀ (tris : List (Nat × Nat × Nat)) (i : Nat), i ∈ flatTris tris →
    ∃ t ∈ tris, i = t.1 ∨ i = t.2.1 ∨ i = t.2.2
  | [], _, h => by cases h
  | (a, b, c) :: r, i, h => by
    simp only [flatTris, List.mem_cons] at h
    rcases h with rfl | rfl | rfl | h
    · exact ⟨(i, b, c), by simp, Or.inl rfl⟩
    · exact ⟨(a, i, c), by simp, Or.inr (Or.inl rfl)⟩
    · exact ⟨(a, b, i), by simp, Or.inr (Or.inr rfl)⟩
    · obtain ⟨t, ht, hh⟩ := mem_flatTris_aux r i h
      exact ⟨t, by simp [ht], hh⟩

/-- every local index of a group's triangles is a valid vertex number -/
theorem tris_in_range_aux {pv pn : List (V3 α)} {pt : List (V2 α)} {g : Group τ α} (hi : GInv pc pv pn pt g) :
    ∀ i ∈ flatTris g.tris, i < g.verts.length := by
  have hvl : g.verts.length = g.toks.length := by simpa using congrArg List.length hi.hv
  have key : ∀ (tris : List (Nat × Nat × Nat)) (ftoks : List (τ × τ × τ)),
      tris.map (fun t => (g.toks[t.1]?, g.toks[t.2.1]?, g.toks[t.2.2]?)) = ftoks.map (fun f => (some f.1, some f.2.1, some f.2.2)) →
      ∀ t ∈ tris, t.1 < g.toks.length ∧ t.2.1 < g.toks.length ∧ t.2.2 < g.toks.length := by
    intro tris
    induction tris with
    | nil => intro _ _ t ht; cases ht
    | cons t0 ts ih =>
      intro ftoks h t ht
      cases ftoks with
      | nil => simp at h
      | cons f fs =>
        simp only [List.map_cons, List.cons.injEq, Prod.mk.injEq] at h
        obtain ⟨⟨h1, h2, h3⟩, hr⟩ := h
        rcases List.mem_cons.1 ht with rfl | ht
        · have lt : ∀ {i : Nat} {x : τ}, g.toks[i]? = some x → i < g.toks.length := by
            intro i x hx
            rcases Nat.lt_or_ge i g.toks.length with h | h
            · exact h
            · rw [List.getElem?_eq_none h] at hx; cases hx
          exact ⟨lt h1, lt h2, lt h3⟩
        · exact ih fs hr t ht
  intro i hi'
  obtain ⟨t, ht, hh⟩ := mem_flatTris_aux g.tris i hi'
  obtain ⟨a, b, c⟩ := key g.tris g.ftoks hi.hf t ht
  rcases hh with rfl | rfl | rfl <;> omega

/-- what the reader returns is a well-formed mesh for the writer (for a group with at least one face) -/
theorem readObj_output_wf {ls : List (Line τ α)} {gs : List (Group τ α)} {libs : List String}
    (h : readObj pc ls = .ok (gs, libs)) (g : Group τ α) (hg : g ∈ gs) (hne : g.tris ≠ [])
    (hnames : ∀ p ∈ g.mats, matName (some p.1) ≠ "") : WFMesh (toMesh g).2 := by
  have hi := readObj_corners pc h g hg
  obtain ⟨_, hm⟩ := (readObj_ranges_sum pc h).1 g hg
  have hr := tris_in_range_aux pc hi
  have hvne : g.verts ≠ [] := by
    intro hv
    cases ht : g.tris with
    | nil => exact hne ht
    | cons t r =>
      obtain ⟨a, b, c⟩ := t
      have := hr a (by rw [ht]; simp [flatTris])
      rw [hv] at this; simp at this
  refine ⟨?_, ?_, ?_, ?_, ?_, ?_⟩
  · simp only [toMesh, flatTris_length_aux]; omega
  · exact ⟨g.verts, by simp [toMesh, optOfList, hvne], by simpa [toMesh] using hr⟩
  · intro us hus
    simp only [toMesh, keepIfComplete] at hus
    split at hus
    · rename_i hc; cases hus; intro i hi'; rw [hc.2]; exact hr i (by simpa [toMesh] using hi')
    · cases hus
  · intro ns hns
    simp only [toMesh, keepIfComplete] at hns
    split at hns
    · rename_i hc; cases hns; intro i hi'; rw [hc.2]; exact hr i (by simpa [toMesh] using hi')
    · cases hns
  · simp only [toMesh, flatTris_length_aux]
    rcases hm with hm | hm
    · left; simp [hm]
    · right
      have : 3 * g.tris.length / 3 = g.tris.length := by omega
      rw [this, ← hm]; simp [matSum, List.map_map, Function.comp_def]
  · intro p hp
    simp only [toMesh, List.mem_map] at hp
    obtain ⟨q, hq, rfl⟩ := hp
    exact hnames q hq

theorem nonemptyButLast_of_all_aux : ∀ (ms : List (String × Mesh α)), (∀ p ∈ ms, p.2.idx ≠ []) → NonemptyButLast ms
  | [], _ => trivial
  | [_], _ => trivial
  | p :: q :: r, h => ⟨h p (by simp), nonemptyButLast_of_all_aux (q :: r) (fun x hx => h x (by simp [hx]))⟩

/-- **Load → save → load.**  For every text the reader accepts, if every group it returns has a face and
    its material names survive blank removal: saving what was read succeeds, the reader accepts the saved
    lines again, and the second load returns the same scene as the first — one group per group, same
    names, same triangles in order, same position / texture coordinate / normal on every corner, same
    material ranges (`RoundTripsCarry`).  With `readObj_corners` (the first load carries what the text
    says) this is the content half of "load and save loses or invents no face". -/
theorem obj_reload [DecidableEq α] {ls : List (Line τ α)} {gs : List (Group τ α)} {libs : List String}
    (h : readObj pc ls = .ok (gs, libs)) (hne : ∀ g ∈ gs, g.tris ≠ [])
    (hnames : ∀ g ∈ gs, ∀ p ∈ g.mats, matName (some p.1) ≠ "") (matFile : String) :
    ∃ out gs' libs', writeObj matFile (gs.map toMesh) = .ok out ∧ readObj pcId out = .ok (gs', libs') ∧
      RoundTripsCarry id none (gs.map toMesh) (gs'.map toMesh) = true := by
  have hgs : gs ≠ [] := by
    unfold readObj at h
    split at h
    · cases h
    · simp only [finish, Except.ok.injEq, Prod.mk.injEq] at h
      intro e; rw [e] at h; simp at h
  have hwf : ∀ p ∈ gs.map toMesh, WFMesh p.2 := by
    intro p hp
    obtain ⟨g, hg, rfl⟩ := List.mem_map.1 hp
    exact readObj_output_wf pc h g hg (hne g hg) (hnames g hg)
  have hnb : NonemptyButLast (gs.map toMesh) := by
    apply nonemptyButLast_of_all_aux
    intro p hp
    obtain ⟨g, hg, rfl⟩ := List.mem_map.1 hp
    intro e
    have : (flatTris g.tris).length = 0 := by simp only [toMesh] at e; rw [e]; rfl
    rw [flatTris_length_aux] at this
    exact hne g hg (List.eq_nil_of_length_eq_zero (by omega))
  exact obj_roundtrip_carry matFile (gs.map toMesh) (by simpa using hgs) hwf hnb

end reload

/-! ### the groups hold exactly the input's faces -/

section facescontent
variable {τ α : Type} [DecidableEq τ] (pc : τ → Except Err Corner)

def allF (s : RState τ α) : List (τ × τ × τ) := s.done.flatMap (·.ftoks) ++ s.cur.ftoks

theorem step_faces_aux {s s' : RState τ α} {l : Line τ α} (h : step pc s l = .ok s') :
    allF s' = allF s ++ faceToks [l] := by
  cases l with
  | other t => simp only [step, Except.ok.injEq] at h; subst h; simp [faceToks]
  | bad e => simp [step] at h
  | mtllib fs =>
    simp only [step] at h
    split at h
    · cases h
    · cases h; simp [faceToks, allF]
  | v p => simp only [step, Except.ok.injEq] at h; subst h; simp [faceToks, allF]
  | vn p => simp only [step, Except.ok.injEq] at h; subst h; simp [faceToks, allF]
  | vt p => simp only [step, Except.ok.injEq] at h; subst h; simp [faceToks, allF]
  | usemtl name =>
    simp only [step] at h
    split at h
    · cases h
    · cases h; simp [faceToks, allF]
  | g name =>
    simp only [step] at h
    split at h
    · cases h; simp [faceToks, allF]
    · cases h; simp [faceToks, allF]
  | f a b c =>
    simp only [step] at h
    split at h
    · cases h
    · rename_i p1 g1 e1
      split at h
      · cases h
      · rename_i p2 g2 e2
        split at h
        · cases h
        · rename_i p3 g3 e3
          cases h
          obtain ⟨_, f1, _, _⟩ := addCorner_frame_aux pc e1
          obtain ⟨_, f2, _, _⟩ := addCorner_frame_aux pc e2
          obtain ⟨_, f3, _, _⟩ := addCorner_frame_aux pc e3
          simp only at f1
          simp [faceToks, allF, f3, f2, f1]

theorem faceToks_cons_aux (l : Line τ α) (ls : List (Line τ α)) : faceToks (l :: ls) = faceToks [l] ++ faceToks ls := by
  cases l <;> simp [faceToks]

theorem steps_faces_content_aux : ∀ (ls : List (Line τ α)) {s s' : RState τ α}, steps pc s ls = .ok s' →
    allF s' = allF s ++ faceToks ls
  | [], s, s', h => by simp only [steps, Except.ok.injEq] at h; subst h; simp [faceToks]
  | l :: ls, s, s', h => by
    simp only [steps] at h
    split at h
    · cases h
    · rename_i s1 e1
      rw [steps_faces_content_aux ls h, step_faces_aux pc e1, faceToks_cons_aux l ls, List.append_assoc]

/-- **The groups hold exactly the input's face lines — content and order.**  For every accepted input the
    face lines recorded group by group (the ghost field `ftoks`, to which `readObj_corners` ties the
    triangles and vertex tables) are, concatenated in group order, exactly the `f` lines of the input in
    file order: none lost, none invented, none reordered, none moved across another. -/
theorem readObj_faces_content {ls : List (Line τ α)} {gs : List (Group τ α)} {libs : List String}
    (h : readObj pc ls = .ok (gs, libs)) : gs.flatMap (·.ftoks) = faceToks ls := by
  unfold readObj at h
  split at h
  · cases h
  · rename_i s e
    simp only [finish, Except.ok.injEq, Prod.mk.injEq] at h
    obtain ⟨rfl, rfl⟩ := h
    have := steps_faces_content_aux pc ls e
    simpa [allF] using this

end facescontent

/-! ### reader output: no material-less group after a group with ranges -/

section matmono
variable {τ α : Type} [DecidableEq τ] (pc : τ → Except Err Corner)

/-- the material in effect after a list of meshes -/
def carryAfter (carry : Option String) : List (String × Mesh α) → Option String
  | [] => carry
  | (_, m) :: rest => carryAfter (lastMat m.mats carry) rest

theorem noMatless_append_aux : ∀ (a b : List (String × Mesh α)) (carry : Option String),
    NoMatlessAfterMat carry (a ++ b) ↔ NoMatlessAfterMat carry a ∧ NoMatlessAfterMat (carryAfter carry a) b
  | [], b, carry => by simp [NoMatlessAfterMat, carryAfter]
  | (n, m) :: a, b, carry => by
    simp only [List.cons_append, NoMatlessAfterMat, carryAfter, noMatless_append_aux a b, and_assoc]

theorem carryAfter_append_aux : ∀ (a b : List (String × Mesh α)) (carry : Option String),
    carryAfter carry (a ++ b) = carryAfter (carryAfter carry a) b
  | [], _, _ => rfl
  | (n, m) :: a, b, carry => by simp only [List.cons_append, carryAfter, carryAfter_append_aux a b]

theorem setLast_ne_nil_aux (mats : List (String × Nat)) (n : Nat) (h : mats ≠ []) : setLast mats n ≠ [] := by
  unfold setLast
  cases hl : mats.getLast? with
  | none => simpa using h
  | some p => obtain ⟨m, c⟩ := p; simp

theorem closeMats_nil_iff_aux (mats : List (String × Nat)) (n : Nat) : closeMats mats n = [] ↔ mats = [] := by
  unfold closeMats
  by_cases h : n > 0 ∧ mats ≠ []
  · rw [if_pos h]
    exact ⟨fun e => absurd e (setLast_ne_nil_aux mats n h.2), fun e => absurd e h.2⟩
  · rw [if_neg h]

theorem lastMat_some_aux (mats : List (Option String × Nat)) (d : Option String) (h : mats ≠ []) :
    lastMat mats d ≠ none := by
  unfold lastMat
  cases hl : mats.getLast? with
  | none => exact absurd (by simpa using hl) h
  | some p => simp

theorem lastMat_nil_aux (d : Option String) : lastMat ([] : List (Option String × Nat)) d = d := rfl

/-- the invariant: no closed group with faces lacks ranges once a material is in effect -/
structure MatInv (s : RState τ α) : Prop where
  done : NoMatlessAfterMat none (s.done.map toMesh)
  eff : carryAfter none (s.done.map toMesh) ≠ none → s.inEffect ≠ none
  cur : s.inEffect ≠ none → s.cur.tris ≠ [] → s.cur.mats ≠ []
  has : s.cur.mats ≠ [] → s.inEffect ≠ none

theorem flatTris_nil_iff_aux (tris : List (Nat × Nat × Nat)) : flatTris tris = [] ↔ tris = [] := by
  cases tris with
  | nil => simp [flatTris]
  | cons t r => obtain ⟨a, b, c⟩ := t; simp [flatTris]

/-- pushing the (closed) working group keeps the invariant's list part -/
theorem push_ok_aux {s : RState τ α} (hi : MatInv s) :
    NoMatlessAfterMat none ((s.done ++ [{ s.cur with mats := closeMats s.cur.mats s.since }]).map toMesh) ∧
    (carryAfter none ((s.done ++ [{ s.cur with mats := closeMats s.cur.mats s.since }]).map toMesh) ≠ none →
      s.inEffect ≠ none) := by
  rw [List.map_append, noMatless_append_aux, carryAfter_append_aux]
  refine ⟨⟨hi.done, ?_⟩, ?_⟩
  · simp only [List.map_cons, List.map_nil, NoMatlessAfterMat, toMesh, and_true]
    intro hm hidx
    have hm' : s.cur.mats = [] := by
      have : closeMats s.cur.mats s.since = [] := by simpa using hm
      exact (closeMats_nil_iff_aux _ _).1 this
    have ht : s.cur.tris ≠ [] := fun e => hidx ((flatTris_nil_iff_aux _).2 e)
    by_cases hc : carryAfter none (s.done.map toMesh) = none
    · exact hc
    · exact absurd hm' (hi.cur (hi.eff hc) ht)
  · simp only [List.map_cons, List.map_nil, carryAfter, toMesh]
    intro hne
    by_cases hm : s.cur.mats = []
    · have : closeMats s.cur.mats s.since = [] := (closeMats_nil_iff_aux _ _).2 hm
      simp only [this, List.map_nil, lastMat_nil_aux] at hne
      exact hi.eff hne
    · exact hi.has hm

theorem step_matInv_aux {s s' : RState τ α} {l : Line τ α} (hi : MatInv s) (h : step pc s l = .ok s') : MatInv s' := by
  cases l with
  | other t => simp only [step, Except.ok.injEq] at h; subst h; exact hi
  | bad e => simp [step] at h
  | mtllib fs =>
    simp only [step] at h
    split at h
    · cases h
    · cases h; exact ⟨hi.done, hi.eff, hi.cur, hi.has⟩
  | v p => simp only [step, Except.ok.injEq] at h; subst h; exact ⟨hi.done, hi.eff, hi.cur, hi.has⟩
  | vn p => simp only [step, Except.ok.injEq] at h; subst h; exact ⟨hi.done, hi.eff, hi.cur, hi.has⟩
  | vt p => simp only [step, Except.ok.injEq] at h; subst h; exact ⟨hi.done, hi.eff, hi.cur, hi.has⟩
  | usemtl name =>
    simp only [step] at h
    split at h
    · cases h
    · cases h
      exact ⟨hi.done, fun _ => by simp, fun _ _ => by simp, fun _ => by simp⟩
  | g name =>
    simp only [step] at h
    split at h
    · cases h
      obtain ⟨h1, h2⟩ := push_ok_aux hi
      exact ⟨h1, h2, fun _ ht => absurd rfl ht, fun hm => absurd rfl hm⟩
    · cases h; exact ⟨hi.done, hi.eff, hi.cur, hi.has⟩
  | f a b c =>
    simp only [step] at h
    split at h
    · cases h
    · rename_i p1 g1 e1
      split at h
      · cases h
      · rename_i p2 g2 e2
        split at h
        · cases h
        · rename_i p3 g3 e3
          cases h
          obtain ⟨_, _, m1, _⟩ := addCorner_frame_aux pc e1
          obtain ⟨_, _, m2, _⟩ := addCorner_frame_aux pc e2
          obtain ⟨_, _, m3, _⟩ := addCorner_frame_aux pc e3
          simp only at m1
          have hm : g3.mats = carryMats s.cur.mats s.inEffect := by rw [m3, m2, m1]
          refine ⟨hi.done, hi.eff, ?_, ?_⟩
          · intro hie _
            simp only [hm]
            unfold carryMats
            by_cases h0 : s.cur.mats = []
            · cases hin : s.inEffect with
              | none => exact absurd hin hie
              | some m => simp [h0]
            · simp [h0]
          · intro hne
            simp only [hm] at hne
            unfold carryMats at hne
            by_cases h0 : s.cur.mats = []
            · cases hin : s.inEffect with
              | none => simp [h0, hin] at hne
              | some m => simp
            · exact hi.has h0

theorem steps_matInv_aux : ∀ (ls : List (Line τ α)) {s s' : RState τ α}, MatInv s → steps pc s ls = .ok s' → MatInv s'
  | [], s, s', hi, h => by simp only [steps, Except.ok.injEq] at h; subst h; exact hi
  | l :: ls, s, s', hi, h => by
    simp only [steps] at h
    split at h
    · cases h
    · rename_i s1 e1
      exact steps_matInv_aux ls (step_matInv_aux pc hi e1) h

/-- **What the reader returns never has a material-less group (with faces) after a group with ranges**:
    once a `usemtl` has been seen, every later group that has a face has a range. -/
theorem readObj_noMatlessAfterMat {ls : List (Line τ α)} {gs : List (Group τ α)} {libs : List String}
    (h : readObj pc ls = .ok (gs, libs)) : NoMatlessAfterMat none (gs.map toMesh) := by
  unfold readObj at h
  split at h
  · cases h
  · rename_i s e
    simp only [finish, Except.ok.injEq, Prod.mk.injEq] at h
    obtain ⟨rfl, rfl⟩ := h
    have h0 : MatInv ({} : RState τ α) :=
      ⟨trivial, fun h => absurd rfl h, fun h => absurd rfl h, fun h => absurd rfl h⟩
    exact (push_ok_aux (steps_matInv_aux pc ls h0 e)).1

/-- **Load → save → load, strict.**  Under the hypotheses of `obj_reload` the second load satisfies the
    strict property predicate `RoundTrips` against the first: same material ranges on every group, none
    inherited. -/
theorem obj_reload_strict [DecidableEq α] {ls : List (Line τ α)} {gs : List (Group τ α)} {libs : List String}
    (h : readObj pc ls = .ok (gs, libs)) (hne : ∀ g ∈ gs, g.tris ≠ [])
    (hnames : ∀ g ∈ gs, ∀ p ∈ g.mats, matName (some p.1) ≠ "") (matFile : String) :
    ∃ out gs' libs', writeObj matFile (gs.map toMesh) = .ok out ∧ readObj pcId out = .ok (gs', libs') ∧
      RoundTrips id (gs.map toMesh) (gs'.map toMesh) = true := by
  obtain ⟨out, gs', libs', hw, hr, hc⟩ := obj_reload pc h hne hnames matFile
  exact ⟨out, gs', libs', hw, hr, strict_of_carry_aux _ _ none (readObj_noMatlessAfterMat pc h) hc⟩

end matmono

/-! ### load → save: corner positions of the saved text -/

section resavepos
variable {τ α : Type} [DecidableEq τ] (pc : τ → Except Err Corner)

/-- the position every face corner of a text refers to, corner by corner in file order, resolved against
    the text's `v` lines (`none` = unresolvable) -/
def cornerPositions {τ : Type} (pc : τ → Except Err Corner) (ls : List (Line τ α)) : List (Option (V3 α)) :=
  (flatC (faceToks ls)).map (vOf pc (poolV ls))

theorem faceToks_append_aux {τ : Type} : ∀ (a b : List (Line τ α)), faceToks (a ++ b) = faceToks a ++ faceToks b
  | [], _ => rfl
  | l :: a, b => by
    have := faceToks_append_aux a b
    cases l <;> simp [faceToks, this]

theorem flatC_append_aux {γ : Type} : ∀ (a b : List (γ × γ × γ)), flatC (a ++ b) = flatC a ++ flatC b
  | [], _ => rfl
  | (x, y, z) :: a, b => by simp [flatC, flatC_append_aux a b]

theorem faceToks_faceLines_aux (mk : Nat → Corner) : ∀ ts : List (Nat × Nat × Nat),
    faceToks (faceLines (α := α) mk ts) = cornerTriples mk ts
  | [] => rfl
  | t :: ts => by
    have := faceToks_faceLines_aux mk ts
    simp only [faceLines, cornerTriples] at this
    simp [faceLines, cornerTriples, faceToks, this]

theorem faceToks_rangeLines_aux (mk : Nat → Corner) : ∀ (mats : List (Option String × Nat)) (ts : List (Nat × Nat × Nat)),
    (mats.map (·.2)).sum = ts.length → faceToks (rangeLines (α := α) mk mats ts) = cornerTriples mk ts
  | [], ts, h => by
    have : ts = [] := List.eq_nil_of_length_eq_zero (by simpa using h.symm)
    subst this; rfl
  | (m, n) :: ms, ts, h => by
    simp only [List.map_cons, List.sum_cons] at h
    have ih := faceToks_rangeLines_aux mk ms (ts.drop n) (by simp [List.length_drop]; omega)
    simp only [rangeLines, faceToks, faceToks_append_aux, faceToks_faceLines_aux, ih, cornerTriples, ← List.map_append,
      List.take_append_drop]

theorem triplesOf_flatTris_aux : ∀ ts : List (Nat × Nat × Nat), triplesOf (flatTris ts) = ts
  | [] => rfl
  | (a, b, c) :: ts => by simp [flatTris, triplesOf, triplesOf_flatTris_aux ts]

/-- `writeGroup` on a mesh with whole triangles and partitioning ranges (positions not required) -/
theorem writeGroup_eq2_aux (multi : Bool) (vo to no : Nat) (name : String) (m : Mesh α)
    (h3 : m.idx.length % 3 = 0) (hmats : m.mats = [] ∨ (m.mats.map (·.2)).sum = m.idx.length / 3) :
    writeGroup multi vo to no name m = .ok (gLine multi name ++ bodyLines vo to no m) := by
  have hidx := flat_triplesOf_aux m.idx h3
  have hlen := triplesOf_length_aux m.idx
  unfold writeGroup bodyLines gLine
  by_cases hm : m.mats = []
  · have h1 := faceRun_flat_aux (α := α) (mkCorner m.uv.isSome m.nrm.isSome vo to no) (triplesOf m.idx) []
    rw [List.append_nil, hidx, hlen] at h1
    have h2 : (m.idx.length + 2) / 3 = m.idx.length / 3 := by omega
    simp only [hm, ↓reduceIte, h2, h1, Except.map]
  · have hs : (m.mats.map (·.2)).sum = (triplesOf m.idx).length := by
      rcases hmats with h' | h'
      · exact absurd h' hm
      · rw [hlen]; exact h'
    have h1 := rangeRun_eq_aux (α := α) (mkCorner m.uv.isSome m.nrm.isSome vo to no) m.mats (triplesOf m.idx) hs
    rw [hidx] at h1
    simp only [hm, ↓reduceIte, h1]

theorem writeGroups_eq2_aux (multi : Bool) : ∀ (ms : List (String × Mesh α)) (vo to no : Nat),
    (∀ p ∈ ms, p.2.idx.length % 3 = 0 ∧ (p.2.mats = [] ∨ (p.2.mats.map (·.2)).sum = p.2.idx.length / 3)) →
    writeGroups multi vo to no ms = .ok (groupLines multi vo to no ms)
  | [], _, _, _, _ => rfl
  | (name, m) :: rest, vo, to, no, h => by
    obtain ⟨h3, hm⟩ := h (name, m) (by simp)
    simp only [writeGroups, writeGroup_eq2_aux multi vo to no name m h3 hm,
      writeGroups_eq2_aux multi rest _ _ _ (fun p hp => h p (by simp [hp])), groupLines]

theorem faceToks_nopool_aux : ∀ (ms : List (String × Mesh α)), faceToks (dataLines ms) = []
  | [] => rfl
  | (_, m) :: rest => by
    have hv : ∀ l : List (V3 α), faceToks (l.map (Line.v (τ := Corner))) = [] := by
      intro l; induction l with
      | nil => rfl
      | cons a l ih => simp [faceToks, ih]
    have hn : ∀ l : List (V3 α), faceToks (l.map (Line.vn (τ := Corner))) = [] := by
      intro l; induction l with
      | nil => rfl
      | cons a l ih => simp [faceToks, ih]
    have ht : ∀ l : List (V2 α), faceToks (l.map (Line.vt (τ := Corner))) = [] := by
      intro l; induction l with
      | nil => rfl
      | cons a l ih => simp [faceToks, ih]
    simp [dataLines, meshData, faceToks_append_aux, hv, hn, ht, faceToks_nopool_aux rest]

/-- the saved group lines, corner by corner, against pools that hold the groups' vertex tables at the
    running offsets: the positions of the tokens of the groups' face lines -/
theorem saved_positions_aux (multi : Bool) (PV PN : List (V3 α)) (PT : List (V2 α)) (pv pn : List (V3 α)) (pt : List (V2 α)) :
    ∀ (gs : List (Group τ α)) (vo to no : Nat),
    PoolsAll PV PN PT vo to no (gs.map toMesh) → (∀ g ∈ gs, GInv pc pv pn pt g) →
    (∀ g ∈ gs, g.mats = [] ∨ matSum g.mats = g.tris.length) →
    (flatC (faceToks (groupLines multi vo to no (gs.map toMesh)))).map (vOf pcId PV) =
      (flatC (gs.flatMap (·.ftoks))).map (vOf pc pv)
  | [], _, _, _, _, _, _ => rfl
  | g :: gs, vo, to, no, hp, hi, hm => by
    have ih := saved_positions_aux multi PV PN PT pv pn pt gs (vo + optLen (toMesh g).2.pos)
      (to + optLen (toMesh g).2.uv) (no + optLen (toMesh g).2.nrm) hp.2 (fun g' hg' => hi g' (by simp [hg']))
      (fun g' hg' => hm g' (by simp [hg']))
    have hg := hi g (by simp)
    have hr := tris_in_range_aux pc hg
    -- face tokens of this group's lines
    have hbody : faceToks (bodyLines (α := α) vo to no (toMesh g).2) =
        cornerTriples (mkCorner (toMesh g).2.uv.isSome (toMesh g).2.nrm.isSome vo to no) g.tris := by
      unfold bodyLines
      have ht : triplesOf (toMesh g).2.idx = g.tris := by simp [toMesh, triplesOf_flatTris_aux]
      by_cases hmm : (toMesh g).2.mats = []
      · simp only [hmm, ↓reduceIte, faceToks_faceLines_aux, ht]
      · simp only [hmm, ↓reduceIte, ht]
        apply faceToks_rangeLines_aux
        rcases hm g (by simp) with h0 | h0
        · exact absurd (by simp [toMesh, h0]) hmm
        · simpa [toMesh, matSum, List.map_map, Function.comp_def] using h0
    have hgl : faceToks (gLine (α := α) multi (toMesh g).1) = [] := by unfold gLine; split <;> rfl
    have e : toMesh g = ((toMesh g).1, (toMesh g).2) := rfl
    rw [List.map_cons, e]
    simp only [groupLines, faceToks_append_aux, hgl, List.nil_append, hbody, flatC_append_aux, List.map_append,
      List.flatMap_cons]
    rw [ih]
    congr 1
    -- this group's corners
    rw [flatC_cornerTriples_aux, List.map_map, ← flat_lookup_aux hg.hv g.tris g.ftoks hg.hf]
    apply List.map_congr_left
    intro p hp'
    have hlt := hr p hp'
    have hpos : (toMesh g).2.pos = some g.verts := by
      have : g.verts ≠ [] := by intro e'; rw [e'] at hlt; simp at hlt
      simp [toMesh, optOfList, this]
    have := hp.1.1 g.verts hpos p hlt
    have e1 : p + 1 + vo - 1 = p + vo := by omega
    simp [vOf, mkCorner, e1, this]

/-- **Load → save keeps every corner where it was.**  For every accepted input, saving what was read
    succeeds, and the saved text has — face by face and corner by corner, in order — exactly the corner
    positions of the input (each face corner resolved against its own text's `v` lines), all of them
    resolvable.  (Texture coordinates / normals of the saved text: oracle `c05.holds.resave` only.) -/
theorem obj_resave_positions {ls : List (Line τ α)} {gs : List (Group τ α)} {libs : List String}
    (h : readObj pc ls = .ok (gs, libs)) (matFile : String) :
    ∃ out, writeObj matFile (gs.map toMesh) = .ok out ∧
      cornerPositions pcId out = cornerPositions pc ls ∧ ∀ o ∈ cornerPositions pc ls, o.isSome := by
  have hinv := readObj_corners pc h
  obtain ⟨hok, _⟩ := readObj_ranges_sum pc h
  have hcont := readObj_faces_content pc h
  have hw := writeGroups_eq2_aux (decide ((gs.map toMesh).length > 1)) (gs.map toMesh) 0 0 0 (by
    intro p hp
    obtain ⟨g, hg, rfl⟩ := List.mem_map.1 hp
    refine ⟨by simp [toMesh, flatTris_length_aux], ?_⟩
    rcases (hok g hg).2 with h0 | h0
    · left; simp [toMesh, h0]
    · right
      have : 3 * g.tris.length / 3 = g.tris.length := by omega
      simp only [toMesh, flatTris_length_aux, this, ← h0]
      simp [matSum, List.map_map, Function.comp_def])
  refine ⟨headerLines matFile ++ dataLines (gs.map toMesh) ++
    groupLines (decide ((gs.map toMesh).length > 1)) 0 0 0 (gs.map toMesh), by simp only [writeObj, hw], ?_, ?_⟩
  · -- pools and face tokens of the saved text
    obtain ⟨a1, _, _⟩ := pool_of_append_aux (headerLines matFile ++ dataLines (gs.map toMesh))
      (groupLines (decide ((gs.map toMesh).length > 1)) 0 0 0 (gs.map toMesh))
    obtain ⟨b1, _, _⟩ := pool_of_append_aux (headerLines (α := α) matFile) (dataLines (gs.map toMesh))
    have hpv : poolV (headerLines matFile ++ dataLines (gs.map toMesh) ++
        groupLines (decide ((gs.map toMesh).length > 1)) 0 0 0 (gs.map toMesh)) =
        (gs.map toMesh).flatMap (fun p => optList p.2.pos) := by
      rw [a1, b1, (noPool_groupLines_aux _ _ 0 0 0).1, (pool_header_aux (α := α) matFile).1, (pool_data_aux _).1]; simp
    have hft : faceToks (headerLines matFile ++ dataLines (gs.map toMesh) ++
        groupLines (decide ((gs.map toMesh).length > 1)) 0 0 0 (gs.map toMesh)) =
        faceToks (groupLines (decide ((gs.map toMesh).length > 1)) 0 0 0 (gs.map toMesh)) := by
      have hh : faceToks (headerLines (α := α) matFile) = [] := by unfold headerLines; split <;> rfl
      simp [faceToks_append_aux, hh, faceToks_nopool_aux]
    have hpools := poolsAll_aux (gs.map toMesh) [] [] []
    simp only [List.nil_append, List.length_nil] at hpools
    unfold cornerPositions
    rw [hpv, hft, saved_positions_aux pc _ _ _ _ _ _ _ gs 0 0 0 hpools hinv (fun g hg => (hok g hg).2), hcont]
  · -- every corner of the input resolves
    intro o ho
    unfold cornerPositions at ho
    rw [← hcont] at ho
    obtain ⟨t, ht, rfl⟩ := List.mem_map.1 ho
    -- t is a token of some group's face, hence in that group's table, hence resolved
    have key : ∀ (gs' : List (Group τ α)), (∀ g ∈ gs', GInv pc (poolV ls) (poolN ls) (poolT ls) g) →
        t ∈ flatC (gs'.flatMap (·.ftoks)) → (vOf pc (poolV ls) t).isSome := by
      intro gs'
      induction gs' with
      | nil => intro _ h'; cases h'
      | cons g r ih =>
        intro hall hmem
        rw [List.flatMap_cons, flatC_append_aux] at hmem
        rcases List.mem_append.1 hmem with hmem | hmem
        · have hg := hall g (by simp)
          -- corner t of a face of g: g.verts at its index is some
          have := flat_lookup_aux hg.hv g.tris g.ftoks hg.hf
          have hmem' : vOf pc (poolV ls) t ∈ (flatC g.ftoks).map (vOf pc (poolV ls)) := List.mem_map_of_mem hmem
          rw [← this] at hmem'
          obtain ⟨i, hi, e⟩ := List.mem_map.1 hmem'
          have hlt := tris_in_range_aux pc hg i hi
          rw [← e, List.getElem?_eq_getElem hlt]; rfl
        · exact ih (fun g' hg' => hall g' (by simp [hg'])) hmem
    exact key gs hinv ht

end resavepos



/-! ### load → save: every corner of the saved text -/

section resaveattrs
variable {τ α : Type} [DecidableEq τ] (pc : τ → Except Err Corner)

theorem flat_aligned_aux {γ δ : Type} {key : List γ} (H : Nat → δ) (K : γ → δ)
    (hHK : ∀ p t, key[p]? = some t → H p = K t) : ∀ (tris : List (Nat × Nat × Nat)) (ftoks : List (γ × γ × γ)),
    tris.map (fun t => (key[t.1]?, key[t.2.1]?, key[t.2.2]?)) = ftoks.map (fun f => (some f.1, some f.2.1, some f.2.2)) →
    (flatTris tris).map H = (flatC ftoks).map K
  | [], [], _ => rfl
  | [], _ :: _, h' => by simp at h'
  | _ :: _, [], h' => by simp at h'
  | (p1, p2, p3) :: tris, (a, b, c) :: ftoks, h' => by
    simp only [List.map_cons, List.cons.injEq, Prod.mk.injEq] at h'
    obtain ⟨⟨h1, h2, h3⟩, hr⟩ := h'
    have ih := flat_aligned_aux H K hHK tris ftoks hr
    simp only [flatTris, flatC, List.map_cons, hHK _ _ h1, hHK _ _ h2, hHK _ _ h3, ih]

theorem lt_of_getElem?_aux {β : Type} {l : List β} {i : Nat} {x : β} (h : l[i]? = some x) : i < l.length := by
  rcases Nat.lt_or_ge i l.length with h' | h'
  · exact h'
  · rw [List.getElem?_eq_none h'] at h; cases h

theorem keepIfComplete_some_aux {β : Type} {n : Nat} {l l' : List β} (h : keepIfComplete n l = some l') :
    l' = l ∧ l ≠ [] ∧ l.length = n := by
  unfold keepIfComplete at h
  split at h
  · rename_i hc; cases h; exact ⟨rfl, hc.1, hc.2⟩
  · cases h

/-- an attribute table of a group and the matching slot function -/
theorem table_lookup_aux {β : Type} (pool : List β) (sl : τ → Option Nat) (g : Group τ α) (tbl : List β)
    (htbl : tbl.map some = (g.toks.filterMap sl).map (fun i => pool[i]?))
    (hlen : tbl.length = g.toks.length) {p : Nat} {t : τ} (ht : g.toks[p]? = some t) :
    ∃ i u, sl t = some i ∧ pool[i]? = some u ∧ tbl[p]? = some u := by
  have hfl : (g.toks.filterMap sl).length = g.toks.length := by
    have := congrArg List.length htbl; simp at this; omega
  have hall := filterMap_length_aux sl g.toks hfl
  rw [filterMap_bind_aux sl (fun i => pool[i]?) g.toks hall] at htbl
  have hlk := lookup_aux htbl ht
  have hp : p < tbl.length := by
    rw [hlen]
    rcases Nat.lt_or_ge p g.toks.length with h | h
    · exact h
    · rw [List.getElem?_eq_none h] at ht; cases ht
  have hs := hall t (List.mem_of_getElem? ht)
  cases hst : sl t with
  | none => rw [hst] at hs; cases hs
  | some i =>
    rw [hst, List.getElem?_eq_getElem hp] at hlk
    exact ⟨i, tbl[p], rfl, by simpa using hlk.symm, List.getElem?_eq_getElem hp⟩

/-- one corner of the saved text: it resolves, to exactly `savedCorner` of its token -/
theorem saved_corner_aux (PV PN : List (V3 α)) (PT : List (V2 α)) (pv pn : List (V3 α)) (pt : List (V2 α))
    (vo to no : Nat) (g : Group τ α) (hi : GInv pc pv pn pt g) (hp : PoolsFor PV PN PT vo to no (toMesh g).2)
    {p : Nat} {t : τ} (ht : g.toks[p]? = some t) :
    resolveCorner PV PN PT (mkCorner (toMesh g).2.uv.isSome (toMesh g).2.nrm.isSome vo to no p) =
      savedCorner pc pv pn pt g t ∧ (savedCorner pc pv pn pt g t).isSome := by
  have hvl : g.verts.length = g.toks.length := by simpa using congrArg List.length hi.hv
  have hplt : p < g.verts.length := by
    rw [hvl]
    rcases Nat.lt_or_ge p g.toks.length with h | h
    · exact h
    · rw [List.getElem?_eq_none h] at ht; cases ht
  have hvne : g.verts ≠ [] := by intro e; rw [e] at hplt; simp at hplt
  have hpos : (toMesh g).2.pos = some g.verts := by simp [toMesh, optOfList, hvne]
  -- position
  have hv := lookup_aux hi.hv ht
  rw [List.getElem?_eq_getElem hplt] at hv
  have hPV : PV[p + vo]? = some g.verts[p] := by
    rw [hp.1 g.verts hpos p hplt]; exact List.getElem?_eq_getElem hplt
  obtain ⟨c, hc, hcv, hcp⟩ : ∃ c, pc t = .ok c ∧ c.v ≠ 0 ∧ pv[c.v - 1]? = some g.verts[p] := by
    unfold vOf at hv
    cases hpc : pc t with
    | error e => rw [hpc] at hv; cases hv
    | ok c =>
      rw [hpc] at hv
      by_cases h0 : c.v = 0
      · simp [h0] at hv
      · simp only [h0, ↓reduceIte] at hv; exact ⟨c, rfl, h0, hv.symm⟩
  have e1 : p + 1 + vo - 1 = p + vo := by omega
  -- texture coordinates
  have hT : (keptT g = true → ∃ i u, slot c.vt = some i ∧ pt[i]? = some u ∧ PT[p + to]? = some u ∧ (toMesh g).2.uv.isSome = true) ∧
      (keptT g = false → (toMesh g).2.uv.isSome = false) := by
    constructor
    · intro hk
      unfold keptT at hk
      cases hkc : keepIfComplete g.verts.length g.uvs with
      | none => rw [hkc] at hk; cases hk
      | some l =>
        obtain ⟨rfl, _, hl⟩ := keepIfComplete_some_aux hkc
        obtain ⟨i, u, hs, hpi, htb⟩ := table_lookup_aux pt (tIdx pc) g g.uvs hi.ht (by omega) ht
        have huv : (toMesh g).2.uv = some g.uvs := by simp [toMesh, hkc]
        refine ⟨i, u, by simpa [tIdx, hc] using hs, hpi, ?_, by simp [huv]⟩
        rw [hp.2.1 g.uvs huv p (by omega)]; exact htb
    · intro hk
      unfold keptT at hk
      simp only [toMesh]
      cases hkc : keepIfComplete g.verts.length g.uvs with
      | none => rfl
      | some l => rw [hkc] at hk; cases hk
  have hN : (keptN g = true → ∃ i u, slot c.vn = some i ∧ pn[i]? = some u ∧ PN[p + no]? = some u ∧ (toMesh g).2.nrm.isSome = true) ∧
      (keptN g = false → (toMesh g).2.nrm.isSome = false) := by
    constructor
    · intro hk
      unfold keptN at hk
      cases hkc : keepIfComplete g.verts.length g.normals with
      | none => rw [hkc] at hk; cases hk
      | some l =>
        obtain ⟨rfl, _, hl⟩ := keepIfComplete_some_aux hkc
        obtain ⟨i, u, hs, hpi, htb⟩ := table_lookup_aux pn (nIdx pc) g g.normals hi.hn (by omega) ht
        have hnr : (toMesh g).2.nrm = some g.normals := by simp [toMesh, hkc]
        refine ⟨i, u, by simpa [nIdx, hc] using hs, hpi, ?_, by simp [hnr]⟩
        rw [hp.2.2 g.normals hnr p (by omega)]; exact htb
    · intro hk
      unfold keptN at hk
      simp only [toMesh]
      cases hkc : keepIfComplete g.verts.length g.normals with
      | none => rfl
      | some l => rw [hkc] at hk; cases hk
  have sn : slot (none : Option Nat) = none := rfl
  unfold savedCorner
  rw [hc]
  cases hkt : keptT g with
  | false =>
    have hu := hT.2 hkt
    cases hkn : keptN g with
    | false =>
      have hn := hN.2 hkn
      simp [resolveCorner, mkCorner, maskC, hu, hn, e1, hPV, hcv, hcp, sn]
    | true =>
      obtain ⟨j, n, hs, hpj, hPN, hn⟩ := hN.1 hkn
      have e3 : slot (some (p + 1 + no)) = some (p + no) := by simp [slot]
      simp [resolveCorner, mkCorner, maskC, hu, hn, e1, hPV, hcv, hcp, hs, hpj, hPN, e3, sn]
  | true =>
    obtain ⟨i, u, hst, hpi, hPT, hu⟩ := hT.1 hkt
    have e2 : slot (some (p + 1 + to)) = some (p + to) := by simp [slot]
    cases hkn : keptN g with
    | false =>
      have hn := hN.2 hkn
      simp [resolveCorner, mkCorner, maskC, hu, hn, e1, hPV, hcv, hcp, hst, hpi, hPT, e2, sn]
    | true =>
      obtain ⟨j, n, hs, hpj, hPN, hn⟩ := hN.1 hkn
      have e3 : slot (some (p + 1 + no)) = some (p + no) := by simp [slot]
      simp [resolveCorner, mkCorner, maskC, hu, hn, e1, hPV, hcv, hcp, hst, hpi, hPT, e2, hs, hpj, hPN, e3]

theorem saved_attrs_aux (multi : Bool) (PV PN : List (V3 α)) (PT : List (V2 α)) (pv pn : List (V3 α)) (pt : List (V2 α)) :
    ∀ (gs : List (Group τ α)) (vo to no : Nat),
    PoolsAll PV PN PT vo to no (gs.map toMesh) → (∀ g ∈ gs, GInv pc pv pn pt g) →
    (∀ g ∈ gs, g.mats = [] ∨ matSum g.mats = g.tris.length) →
    (flatC (faceToks (groupLines multi vo to no (gs.map toMesh)))).map (fun c => resolveCorner PV PN PT c) =
      gs.flatMap (fun g => (flatC g.ftoks).map (savedCorner pc pv pn pt g))
  | [], _, _, _, _, _, _ => rfl
  | g :: gs, vo, to, no, hp, hi, hm => by
    have ih := saved_attrs_aux multi PV PN PT pv pn pt gs (vo + optLen (toMesh g).2.pos)
      (to + optLen (toMesh g).2.uv) (no + optLen (toMesh g).2.nrm) hp.2 (fun g' hg' => hi g' (by simp [hg']))
      (fun g' hg' => hm g' (by simp [hg']))
    have hg := hi g (by simp)
    have hbody : faceToks (bodyLines (α := α) vo to no (toMesh g).2) =
        cornerTriples (mkCorner (toMesh g).2.uv.isSome (toMesh g).2.nrm.isSome vo to no) g.tris := by
      unfold bodyLines
      have ht : triplesOf (toMesh g).2.idx = g.tris := by simp [toMesh, triplesOf_flatTris_aux]
      by_cases hmm : (toMesh g).2.mats = []
      · simp only [hmm, ↓reduceIte, faceToks_faceLines_aux, ht]
      · simp only [hmm, ↓reduceIte, ht]
        apply faceToks_rangeLines_aux
        rcases hm g (by simp) with h0 | h0
        · exact absurd (by simp [toMesh, h0]) hmm
        · simpa [toMesh, matSum, List.map_map, Function.comp_def] using h0
    have hgl : faceToks (gLine (α := α) multi (toMesh g).1) = [] := by unfold gLine; split <;> rfl
    have e : toMesh g = ((toMesh g).1, (toMesh g).2) := rfl
    rw [List.map_cons, e]
    simp only [groupLines, faceToks_append_aux, hgl, List.nil_append, hbody, flatC_append_aux, List.map_append,
      List.flatMap_cons]
    rw [ih]
    congr 1
    rw [flatC_cornerTriples_aux, List.map_map]
    exact flat_aligned_aux _ _ (fun p t ht => (saved_corner_aux pc PV PN PT pv pn pt vo to no g hg hp.1 ht).1)
      g.tris g.ftoks hg.hf

theorem flatC_flatMap_aux {γ β : Type} (f : β → List (γ × γ × γ)) : ∀ l : List β, flatC (l.flatMap f) = l.flatMap (fun x => flatC (f x))
  | [] => rfl
  | a :: l => by simp [List.flatMap_cons, flatC_append_aux, flatC_flatMap_aux f l]

theorem ftoks_in_toks_aux {pv pn : List (V3 α)} {pt : List (V2 α)} {g : Group τ α} (hi : GInv pc pv pn pt g)
    {t : τ} (ht : t ∈ flatC g.ftoks) : ∃ p : Nat, g.toks[p]? = some t := by
  have h := flat_aligned_aux (key := g.toks) (fun (p : Nat) => g.toks[p]?) (fun t => some t) (fun p t h => h) g.tris g.ftoks hi.hf
  have : some t ∈ (flatC g.ftoks).map (fun t => some t) := List.mem_map_of_mem ht
  rw [← h] at this
  obtain ⟨p, _, hp⟩ := List.mem_map.1 this
  exact ⟨p, hp⟩

/-- **Load → save: every corner of the saved text.**  For every accepted input, saving what was read
    succeeds and the saved text has — face by face, corner by corner, in order — for each corner token of
    the input: the same position, the same texture coordinate if EVERY corner of its group has one (none
    otherwise), the same normal if every corner of its group has one (none otherwise); every corner of the
    saved text resolves against its own `v / vt / vn` lines.  (Final-pool form of the oracle predicate
    `Resaves`: corners are resolved against the whole pool of their text, which on accepted inputs is what
    the pool at the time of the face gives.) -/
theorem obj_resave_corners {ls : List (Line τ α)} {gs : List (Group τ α)} {libs : List String}
    (h : readObj pc ls = .ok (gs, libs)) (matFile : String) :
    ∃ out, writeObj matFile (gs.map toMesh) = .ok out ∧
      cornerAttrs pcId out =
        gs.flatMap (fun g => (flatC g.ftoks).map (savedCorner pc (poolV ls) (poolN ls) (poolT ls) g)) ∧
      ∀ o ∈ cornerAttrs pcId out, o.isSome := by
  have hinv := readObj_corners pc h
  obtain ⟨hok, _⟩ := readObj_ranges_sum pc h
  have hw := writeGroups_eq2_aux (decide ((gs.map toMesh).length > 1)) (gs.map toMesh) 0 0 0 (by
    intro p hp
    obtain ⟨g, hg, rfl⟩ := List.mem_map.1 hp
    refine ⟨by simp [toMesh, flatTris_length_aux], ?_⟩
    rcases (hok g hg).2 with h0 | h0
    · left; simp [toMesh, h0]
    · right
      have : 3 * g.tris.length / 3 = g.tris.length := by omega
      simp only [toMesh, flatTris_length_aux, this, ← h0]
      simp [matSum, List.map_map, Function.comp_def])
  let out := headerLines matFile ++ dataLines (gs.map toMesh) ++
    groupLines (decide ((gs.map toMesh).length > 1)) 0 0 0 (gs.map toMesh)
  have hmain : cornerAttrs pcId out =
      gs.flatMap (fun g => (flatC g.ftoks).map (savedCorner pc (poolV ls) (poolN ls) (poolT ls) g)) := by
    obtain ⟨a1, a2, a3⟩ := pool_of_append_aux (headerLines matFile ++ dataLines (gs.map toMesh))
      (groupLines (decide ((gs.map toMesh).length > 1)) 0 0 0 (gs.map toMesh))
    obtain ⟨b1, b2, b3⟩ := pool_of_append_aux (headerLines (α := α) matFile) (dataLines (gs.map toMesh))
    obtain ⟨g1, g2, g3⟩ := noPool_groupLines_aux (decide ((gs.map toMesh).length > 1)) (gs.map toMesh) 0 0 0
    obtain ⟨h1, h2, h3⟩ := pool_header_aux (α := α) matFile
    obtain ⟨d1, d2, d3⟩ := pool_data_aux (gs.map toMesh)
    have hpv : poolV out = (gs.map toMesh).flatMap (fun p => optList p.2.pos) := by
      simp only [out]; rw [a1, b1, g1, h1, d1]; simp
    have hpn : poolN out = (gs.map toMesh).flatMap (fun p => optList p.2.nrm) := by
      simp only [out]; rw [a2, b2, g2, h2, d2]; simp
    have hpt : poolT out = (gs.map toMesh).flatMap (fun p => optList p.2.uv) := by
      simp only [out]; rw [a3, b3, g3, h3, d3]; simp
    have hft : faceToks out = faceToks (groupLines (decide ((gs.map toMesh).length > 1)) 0 0 0 (gs.map toMesh)) := by
      have hh : faceToks (headerLines (α := α) matFile) = [] := by unfold headerLines; split <;> rfl
      simp [out, faceToks_append_aux, hh, faceToks_nopool_aux]
    have hpools := poolsAll_aux (gs.map toMesh) [] [] []
    simp only [List.nil_append, List.length_nil] at hpools
    unfold cornerAttrs
    rw [hpv, hpn, hpt, hft]
    exact saved_attrs_aux pc _ _ _ _ _ _ _ gs 0 0 0 hpools hinv (fun g hg => (hok g hg).2)
  refine ⟨out, by simp only [writeObj, hw, out], hmain, ?_⟩
  rw [hmain]
  intro o ho
  obtain ⟨g, hg, ho'⟩ := List.mem_flatMap.1 ho
  obtain ⟨t, ht, rfl⟩ := List.mem_map.1 ho'
  obtain ⟨p, hp⟩ := ftoks_in_toks_aux pc (hinv g hg) ht
  -- any pools for which the group's own arrays sit at offset 0 will do to invoke the corner lemma
  have hpf : PoolsFor (optList (toMesh g).2.pos) (optList (toMesh g).2.nrm) (optList (toMesh g).2.uv) 0 0 0 (toMesh g).2 := by
    refine ⟨?_, ?_, ?_⟩
    · intro ps hps i _; simp [hps, optList]
    · intro us hus i _; simp [hus, optList]
    · intro ns hns i _; simp [hns, optList]
  exact (saved_corner_aux pc _ _ _ _ _ _ 0 0 0 g (hinv g hg) hpf hp).2

/-- every group uses one corner shape: all its corners carry a vt (resp. vn) slot, or none does -/
def UniformGroups (gs : List (Group τ α)) : Prop :=
  ∀ g ∈ gs, ((∀ t ∈ g.toks, (tIdx pc t).isSome) ∨ (∀ t ∈ g.toks, tIdx pc t = none)) ∧
            ((∀ t ∈ g.toks, (nIdx pc t).isSome) ∨ (∀ t ∈ g.toks, nIdx pc t = none))

theorem resolve_mask_aux (pv pn : List (V3 α)) (pt : List (V2 α)) (c : Corner) (kt kn : Bool)
    (ht : kt = true ∨ slot c.vt = none) (hn : kn = true ∨ slot c.vn = none) :
    resolveCorner pv pn pt (maskC c kt kn) = resolveCorner pv pn pt c := by
  have sn : slot (none : Option Nat) = none := rfl
  have e1 : slot (if kt then c.vt else none) = slot c.vt := by
    rcases ht with h | h
    · simp [h]
    · cases kt <;> simp [h, sn]
  have e2 : slot (if kn then c.vn else none) = slot c.vn := by
    rcases hn with h | h
    · simp [h]
    · cases kn <;> simp [h, sn]
  simp only [resolveCorner, maskC, e1, e2]

/-- **`Resaves` for texts whose groups each use one corner shape** (all four shapes allowed, a different one
    per group): the saved text has exactly the corners of the input — position, texture coordinate and normal
    of every face corner, in order — and every one of them resolves. -/
theorem obj_resave_corners_uniform {ls : List (Line τ α)} {gs : List (Group τ α)} {libs : List String}
    (h : readObj pc ls = .ok (gs, libs)) (hu : UniformGroups pc gs) (matFile : String) :
    ∃ out, writeObj matFile (gs.map toMesh) = .ok out ∧ cornerAttrs pcId out = cornerAttrs pc ls ∧
      ∀ o ∈ cornerAttrs pcId out, o.isSome := by
  obtain ⟨out, hw, hc, hs⟩ := obj_resave_corners pc h matFile
  refine ⟨out, hw, ?_, hs⟩
  rw [hc]
  unfold cornerAttrs
  rw [← readObj_faces_content pc h, flatC_flatMap_aux, List.map_flatMap]
  have hinv := readObj_corners pc h
  have key : ∀ (gs' : List (Group τ α)), (∀ g ∈ gs', g ∈ gs) →
      gs'.flatMap (fun g => (flatC g.ftoks).map (savedCorner pc (poolV ls) (poolN ls) (poolT ls) g)) =
      gs'.flatMap (fun g => (flatC g.ftoks).map (fun t => match pc t with
        | .ok c => resolveCorner (poolV ls) (poolN ls) (poolT ls) c
        | .error _ => none)) := by
    intro gs'
    induction gs' with
    | nil => intro _; rfl
    | cons g r ih =>
      intro hsub
      rw [List.flatMap_cons, List.flatMap_cons, ih (fun g' hg' => hsub g' (by simp [hg']))]
      congr 1
      apply List.map_congr_left
      intro t ht
      have hg := hsub g (by simp)
      have hi := hinv g hg
      obtain ⟨p, hp⟩ := ftoks_in_toks_aux pc hi ht
      have hmem : t ∈ g.toks := List.mem_of_getElem? hp
      have hvl : g.verts.length = g.toks.length := by simpa using congrArg List.length hi.hv
      have hne : g.toks ≠ [] := List.ne_nil_of_mem hmem
      unfold savedCorner
      cases hpc : pc t with
      | error e => rfl
      | ok c =>
        simp only
        apply resolve_mask_aux
        · rcases (hu g hg).1 with hall | hnone
          · left
            -- complete and non-empty
            have hfl := filterMap_bind_aux (tIdx pc) (fun i => (poolT ls)[i]?) g.toks hall
            have hl : g.uvs.length = g.toks.length := by
              have := congrArg List.length (hi.ht.trans hfl); simpa using this
            have hune : g.uvs ≠ [] := by
              intro e; rw [e] at hl; exact hne (List.eq_nil_of_length_eq_zero hl.symm)
            simp [keptT, keepIfComplete, hune, hl, hvl]
          · right
            have := hnone t hmem
            simpa [tIdx, hpc] using this
        · rcases (hu g hg).2 with hall | hnone
          · left
            have hfl := filterMap_bind_aux (nIdx pc) (fun i => (poolN ls)[i]?) g.toks hall
            have hl : g.normals.length = g.toks.length := by
              have := congrArg List.length (hi.hn.trans hfl); simpa using this
            have hune : g.normals ≠ [] := by
              intro e; rw [e] at hl; exact hne (List.eq_nil_of_length_eq_zero hl.symm)
            simp [keptN, keepIfComplete, hune, hl, hvl]
          · right
            have := hnone t hmem
            simpa [nIdx, hpc] using this
  exact key gs (fun g hg => hg)


end resaveattrs

end ObjL
end PolyVerif
