/-
  Helper lemmas for C16, part 4: `BVHNode.Hit` against `HitList.Hit`.
-/
import PolyVerif.Lemmas.TreeBuild
namespace PolyVerif.Tree
variable {B H K : Type}

/-- one turn of the `HitList.Hit` loop -/
def hitStep (primHit : H → K → K → Option K) (mn : K) (st : Option K × K) (h : H) : Option K × K :=
  match primHit h mn st.2 with
  | some d => (some d, d)
  | none => st

theorem listHit_eq_foldl (primHit : H → K → K → Option K) (hs : List H) (mn mx : K) :
    listHit primHit hs mn mx = (hs.foldl (hitStep primHit mn) (none, mx)).1 := rfl

/-- running the loop from an arbitrary state -/
theorem hit_foldl (primHit : H → K → K → Option K) (mn : K) :
    ∀ (hs : List H) (acc : Option K) (c : K),
      hs.foldl (hitStep primHit mn) (acc, c) =
        match listHit primHit hs mn c with
        | some d => (some d, d)
        | none => (acc, c) := by
  intro hs
  induction hs with
  | nil => intro acc c; simp [listHit]
  | cons h t ih =>
    intro acc c
    simp only [List.foldl_cons, listHit_eq_foldl]
    cases hp : primHit h mn c with
    | none =>
      have e : ∀ a, hitStep primHit mn (a, c) h = (a, c) := by intro a; simp [hitStep, hp]
      rw [e, e, ih acc c, ih none c]
      cases listHit primHit t mn c <;> rfl
    | some d =>
      have e : ∀ a, hitStep primHit mn (a, c) h = (some d, d) := by intro a; simp [hitStep, hp]
      rw [e, e, ih (some d) d]
      cases listHit primHit t mn d <;> rfl

theorem listHit_append (primHit : H → K → K → Option K) (l r : List H) (mn mx : K) :
    listHit primHit (l ++ r) mn mx =
      match listHit primHit r mn (match listHit primHit l mn mx with | some d => d | none => mx) with
      | some d => some d
      | none => listHit primHit l mn mx := by
  rw [listHit_eq_foldl, List.foldl_append, hit_foldl primHit mn l none mx]
  cases hl : listHit primHit l mn mx with
  | none =>
    simp only
    rw [hit_foldl]
    cases listHit primHit r mn mx <;> rfl
  | some d =>
    simp only
    rw [hit_foldl]
    cases listHit primHit r mn d <;> rfl

theorem listHit_none_of_all (primHit : H → K → K → Option K) (hs : List H) (mn mx : K)
    (h : ∀ x ∈ hs, primHit x mn mx = none) : listHit primHit hs mn mx = none := by
  induction hs with
  | nil => rfl
  | cons x t ih =>
    have hx := h x (by simp)
    have : listHit primHit (x :: t) mn mx = listHit primHit t mn mx := by
      simp only [listHit_eq_foldl, List.foldl_cons]
      have e : hitStep primHit mn (none, mx) x = (none, mx) := by simp [hitStep, hx]
      rw [e]
    rw [this]
    exact ih (fun y hy => h y (by simp [hy]))

/-- the BVH invariant: every node's box is related (`sub`) to the box of every primitive below it -/
inductive BInv (sub : B → B → Prop) (boxH : H → B) : Bvh B H → Prop
  | leaf (h : H) : BInv sub boxH (.leaf h)
  | node {b : B} {l r : Bvh B H} : (∀ h ∈ (Bvh.node b l r).leaves, sub (boxH h) b) →
      BInv sub boxH l → BInv sub boxH r → BInv sub boxH (.node b l r)

theorem bvh_hit_eq_list_aux (sub : B → B → Prop) (boxH : H → B) (slab : B → K → K → Bool)
    (primHit : H → K → K → Option K)
    (hmono : ∀ a b mn mx, sub a b → slab a mn mx = true → slab b mn mx = true)
    (hprim : ∀ h mn mx d, primHit h mn mx = some d → slab (boxH h) mn mx = true) :
    ∀ t : Bvh B H, BInv sub boxH t → ∀ mn mx, t.hit slab primHit mn mx = listHit primHit t.leaves mn mx := by
  intro t ht
  induction ht with
  | leaf h =>
    intro mn mx
    simp only [Bvh.hit, Bvh.leaves, listHit_eq_foldl, List.foldl_cons, List.foldl_nil, hitStep]
    cases primHit h mn mx <;> rfl
  | @node b l r hcov _ _ ihl ihr =>
    intro mn mx
    simp only [Bvh.hit]
    by_cases hs : slab b mn mx = true
    · simp only [hs, Bool.not_true, Bool.false_eq_true, if_false]
      rw [ihl, ihr]
      simp only [Bvh.leaves]
      rw [listHit_append]
      cases listHit primHit l.leaves mn mx with
      | none => simp only; cases listHit primHit r.leaves mn mx <;> rfl
      | some d => simp only; cases listHit primHit r.leaves mn d <;> rfl
    · have hs' : slab b mn mx = false := by simpa using hs
      simp only [hs', Bool.not_false, if_true]
      symm
      apply listHit_none_of_all
      intro x hx
      cases hp : primHit x mn mx with
      | none => rfl
      | some d =>
        have := hmono _ _ mn mx (hcov x hx) (hprim x mn mx d hp)
        rw [this] at hs'; cases hs'

theorem listHit_single (primHit : H → K → K → Option K) (x : H) (mn mx : K) :
    listHit primHit [x] mn mx = primHit x mn mx := by
  simp only [listHit_eq_foldl, List.foldl_cons, List.foldl_nil, hitStep]
  cases primHit x mn mx <;> rfl

/-- `HitList.Hit` returns the nearest of the individual hits, whatever the order of the list — for primitives
    whose `Hit` reports their first hit `f h` beyond `mn` whenever it is within the range (`d ≤ mx`). -/
theorem listHit_spec [LinearOrder K] (f : H → Option K) (primHit : H → K → K → Option K) (mn : K)
    (hc : ∀ h mx, primHit h mn mx = (f h).bind (fun d => if d ≤ mx then some d else none)) :
    ∀ (hs : List H) (mx : K),
      (listHit primHit hs mn mx = none → ∀ h ∈ hs, primHit h mn mx = none) ∧
      (∀ d, listHit primHit hs mn mx = some d →
        (∃ h ∈ hs, primHit h mn mx = some d) ∧ ∀ h ∈ hs, ∀ d', primHit h mn mx = some d' → d ≤ d') := by
  have F1 : ∀ h c d, primHit h mn c = some d → f h = some d ∧ d ≤ c := by
    intro h c d hp
    rw [hc] at hp
    cases hf : f h with
    | none => rw [hf] at hp; simp at hp
    | some d0 =>
      rw [hf] at hp
      simp only [Option.bind_some] at hp
      split_ifs at hp with hle
      · simp only [Option.some.injEq] at hp; subst hp; exact ⟨rfl, hle⟩
  have F2 : ∀ h c d, f h = some d → d ≤ c → primHit h mn c = some d := by
    intro h c d hf hle
    rw [hc, hf]; simp [hle]
  intro hs
  induction hs with
  | nil => intro mx; simp [listHit]
  | cons x t ih =>
    intro mx
    have happ := listHit_append primHit [x] t mn mx
    simp only [List.singleton_append, listHit_single] at happ
    cases hx : primHit x mn mx with
    | none =>
      rw [hx] at happ
      simp only at happ
      have e : listHit primHit (x :: t) mn mx = listHit primHit t mn mx := by
        rw [happ]; cases listHit primHit t mn mx <;> rfl
      rw [e]
      obtain ⟨i1, i2⟩ := ih mx
      refine ⟨?_, ?_⟩
      · intro hn h hh
        rcases List.mem_cons.mp hh with rfl | hh
        · exact hx
        · exact i1 hn h hh
      · intro d hd
        obtain ⟨⟨h, hh, hp⟩, hmin⟩ := i2 d hd
        refine ⟨⟨h, by simp [hh], hp⟩, ?_⟩
        intro h' hh' d' hp'
        rcases List.mem_cons.mp hh' with rfl | hh'
        · rw [hx] at hp'; cases hp'
        · exact hmin h' hh' d' hp'
    | some d0 =>
      rw [hx] at happ
      simp only at happ
      obtain ⟨hf0, hle0⟩ := F1 x mx d0 hx
      obtain ⟨i1, i2⟩ := ih d0
      cases ht : listHit primHit t mn d0 with
      | none =>
        rw [ht] at happ
        simp only at happ
        rw [happ]
        refine ⟨(by intro h; cases h), ?_⟩
        intro d hd
        simp only [Option.some.injEq] at hd; subst hd
        refine ⟨⟨x, by simp, hx⟩, ?_⟩
        intro h' hh' d' hp'
        rcases List.mem_cons.mp hh' with rfl | hh'
        · rw [hx] at hp'; simp only [Option.some.injEq] at hp'; exact le_of_eq hp'
        · obtain ⟨hf', _⟩ := F1 h' mx d' hp'
          by_contra hlt
          have := F2 h' d0 d' hf' (le_of_lt (not_le.mp hlt))
          rw [i1 ht h' hh'] at this; cases this
      | some d1 =>
        rw [ht] at happ
        simp only at happ
        rw [happ]
        refine ⟨(by intro h; cases h), ?_⟩
        intro d hd
        simp only [Option.some.injEq] at hd; subst hd
        obtain ⟨⟨h, hh, hp⟩, hmin⟩ := i2 d1 ht
        obtain ⟨hf1, hle1⟩ := F1 h d0 d1 hp
        refine ⟨⟨h, by simp [hh], F2 h mx d1 hf1 (le_trans hle1 hle0)⟩, ?_⟩
        intro h' hh' d' hp'
        rcases List.mem_cons.mp hh' with rfl | hh'
        · rw [hx] at hp'; simp only [Option.some.injEq] at hp'; subst hp'; exact hle1
        · obtain ⟨hf', _⟩ := F1 h' mx d' hp'
          rcases le_total d' d0 with hle | hle
          · exact hmin h' hh' d' (F2 h' d0 d' hf' hle)
          · exact le_trans hle1 hle

/-- hence two hit lists with the same members give the same answer -/
theorem listHit_congr_mem [LinearOrder K] (f : H → Option K) (primHit : H → K → K → Option K) (mn : K)
    (hc : ∀ h mx, primHit h mn mx = (f h).bind (fun d => if d ≤ mx then some d else none))
    (l₁ l₂ : List H) (hmem : ∀ h, h ∈ l₁ ↔ h ∈ l₂) (mx : K) :
    listHit primHit l₁ mn mx = listHit primHit l₂ mn mx := by
  obtain ⟨a1, a2⟩ := listHit_spec f primHit mn hc l₁ mx
  obtain ⟨b1, b2⟩ := listHit_spec f primHit mn hc l₂ mx
  cases h1 : listHit primHit l₁ mn mx with
  | none =>
    cases h2 : listHit primHit l₂ mn mx with
    | none => rfl
    | some d2 =>
      obtain ⟨⟨h, hh, hp⟩, _⟩ := b2 d2 h2
      rw [a1 h1 h ((hmem h).mpr hh)] at hp; cases hp
  | some d1 =>
    obtain ⟨⟨h, hh, hp⟩, hmin1⟩ := a2 d1 h1
    cases h2 : listHit primHit l₂ mn mx with
    | none => rw [b1 h2 h ((hmem h).mp hh)] at hp; cases hp
    | some d2 =>
      obtain ⟨⟨h', hh', hp'⟩, hmin2⟩ := b2 d2 h2
      have e1 := hmin1 h' ((hmem h').mpr hh') d2 hp'
      have e2 := hmin2 h ((hmem h).mp hh) d1 hp
      rw [le_antisymm e1 e2]

section traverse
variable {B E K G : Type}

theorem traverse_elems_fold (slabE : E → K → K → Bool) (g : E → G) (rng : K × K) :
    ∀ (es : List E) (acc : List G),
      es.foldl (fun (st : (K × K) × List G) e =>
        if slabE e st.1.1 st.1.2 then (st.1, g e :: st.2) else st) (rng, acc) =
      (rng, ((es.filter (fun e => slabE e rng.1 rng.2)).map g).reverse ++ acc) := by
  intro es
  induction es with
  | nil => intro acc; simp
  | cons e es ih =>
    intro acc
    simp only [List.foldl_cons]
    by_cases h : slabE e rng.1 rng.2 = true
    · simp only [h, if_true, List.filter_cons, List.map_cons, List.reverse_cons, List.append_assoc,
        List.singleton_append]
      rw [ih]
    · have h' : slabE e rng.1 rng.2 = false := by simpa using h
      simp only [h', Bool.false_eq_true, if_false, List.filter_cons]
      rw [ih]

/-- with a callback that records the element and leaves the range alone, `TraverseIntersectingRay` visits
    exactly what `ElementsIntersectingRay` returns, in the same order -/
theorem traverse_eq_pruned (slabB : B → K → K → Bool) (slabE : E → K → K → Bool) (g : E → G) (rng : K × K) :
    ∀ (t : Oct B E) (acc : List G),
      t.traverse slabB slabE (fun e r (a : List G) => (r, g e :: a)) rng acc =
      ((t.pruned (fun b => !slabB b rng.1 rng.2) (fun e => slabE e rng.1 rng.2)).map g).reverse ++ acc := by
  intro t
  induction t using Oct.induct' with
  | h b es cs ih =>
    intro acc
    simp only [Oct.traverse, Oct.pruned]
    by_cases hb : slabB b rng.1 rng.2 = true
    · simp only [hb, Bool.not_true, Bool.false_eq_true, if_false]
      rw [traverse_elems_fold]
      simp only
      have : ∀ (l : List (Oct B E)), (∀ c ∈ l, c ∈ cs) → ∀ a : List G,
          l.foldl (fun s c => c.traverse slabB slabE (fun e r (a : List G) => (r, g e :: a)) rng s) a =
          ((l.flatMap (fun c => c.pruned (fun b => !slabB b rng.1 rng.2) (fun e => slabE e rng.1 rng.2))).map g).reverse ++ a := by
        intro l
        induction l with
        | nil => intro _ a; simp
        | cons c l ihl =>
          intro hl a
          simp only [List.foldl_cons, List.flatMap_cons, List.map_append, List.reverse_append, List.append_assoc]
          rw [ih c (hl c (by simp)), ihl (fun c' hc' => hl c' (by simp [hc']))]
      rw [this cs (fun c hc => hc)]
      simp only [List.map_append, List.reverse_append, List.append_assoc]
    · have hb' : slabB b rng.1 rng.2 = false := by simpa using hb
      simp [hb']
end traverse

end PolyVerif.Tree
