/-
  Helper lemmas for C16, part 4: `BVHNode.Hit` against `HitList.Hit`.
-/
import PolyVerif.Lemmas.TreeBuild
namespace PolyVerif.Tree
variable {B H K : Type}

/-- one turn of the `HitList.Hit` loop -/
def hitStep (primHit : H → K → K → Option K) (mn : K) (st : Option K × K) (h : H) : Option K × K :=
  match primHit h mn st.2 with
  | some d => (some d, d)
  | none => st

theorem listHit_eq_foldl (primHit : H → K → K → Option K) (hs : List H) (mn mx : K) :
    listHit primHit hs mn mx = (hs.foldl (hitStep primHit mn) (none, mx)).1 := rfl

/-- running the loop from an arbitrary state -/
theorem hit_foldl (primHit : H → K → K → Option K) (mn : K) :
    ∀ (hs : List H) (acc : Option K) (c : K),
      hs.foldl (hitStep primHit mn) (acc, c) =
        match listHit primHit hs mn c with
        | some d => (some d, d)
        | none => (acc, c) := by
  intro hs
  induction hs with
  | nil => intro acc c; simp [listHit]
  | cons h t ih =>
    intro acc c
    simp only [List.foldl_cons, listHit_eq_foldl]
    cases hp : primHit h mn c with
    | none =>
      have e : ∀ a, hitStep primHit mn (a, c) h = (a, c) := by intro a; simp [hitStep, hp]
      rw [e, e, ih acc c, ih none c]
      cases listHit primHit t mn c <;> rfl
    | some d =>
      have e : ∀ a, hitStep primHit mn (a, c) h = (some d, d) := by intro a; simp [hitStep, hp]
      rw [e, e, ih (some d) d]
      cases listHit primHit t mn d <;> rfl

theorem listHit_append (primHit : H → K → K → Option K) (l r : List H) (mn mx : K) :
    listHit primHit (l ++ r) mn mx =
      match listHit primHit r mn (match listHit primHit l mn mx with | some d => d | none => mx) with
      | some d => some d
      | none => listHit primHit l mn mx := by
  rw [listHit_eq_foldl, List.foldl_append, hit_foldl primHit mn l none mx]
  cases hl : listHit primHit l mn mx with
  | none =>
    simp only
    rw [hit_foldl]
    cases listHit primHit r mn mx <;> rfl
  | some d =>
    simp only
    rw [hit_foldl]
    cases listHit primHit r mn d <;> rfl

theorem listHit_none_of_all (primHit : H → K → K → Option K) (hs : List H) (mn mx : K)
    (h : ∀ x ∈ hs, primHit x mn mx = none) : listHit primHit hs mn mx = none := by
  induction hs with
  | nil => rfl
  | cons x t ih =>
    have hx := h x (by simp)
    have : listHit primHit (x :: t) mn mx = listHit primHit t mn mx := by
      simp only [listHit_eq_foldl, List.foldl_cons]
      have e : hitStep primHit mn (none, mx) x = (none, mx) := by simp [hitStep, hx]
      rw [e]
    rw [this]
    exact ih (fun y hy => h y (by simp [hy]))

/-- the BVH invariant: every node's box is related (`sub`) to the box of every primitive below it -/
inductive BInv (sub : B → B → Prop) (boxH : H → B) : Bvh B H → Prop
  | leaf (h : H) : BInv sub boxH (.leaf h)
  | node {b : B} {l r : Bvh B H} : (∀ h ∈ (Bvh.node b l r).leaves, sub (boxH h) b) →
      BInv sub boxH l → BInv sub boxH r → BInv sub boxH (.node b l r)

theorem bvh_hit_eq_list_aux (sub : B → B → Prop) (boxH : H → B) (slab : B → K → K → Bool)
    (primHit : H → K → K → Option K)
    (hmono : ∀ a b mn mx, sub a b → slab a mn mx = true → slab b mn mx = true)
    (hprim : ∀ h mn mx d, primHit h mn mx = some d → slab (boxH h) mn mx = true) :
    ∀ t : Bvh B H, BInv sub boxH t → ∀ mn mx, t.hit slab primHit mn mx = listHit primHit t.leaves mn mx := by
  intro t ht
  induction ht with
  | leaf h =>
    intro mn mx
    simp only [Bvh.hit, Bvh.leaves, listHit_eq_foldl, List.foldl_cons, List.foldl_nil, hitStep]
    cases primHit h mn mx <;> rfl
  | @node b l r hcov _ _ ihl ihr =>
    intro mn mx
    simp only [Bvh.hit]
    by_cases hs : slab b mn mx = true
    · simp only [hs, Bool.not_true, Bool.false_eq_true, if_false]
      rw [ihl, ihr]
      simp only [Bvh.leaves]
      rw [listHit_append]
      cases listHit primHit l.leaves mn mx with
      | none => simp only; cases listHit primHit r.leaves mn mx <;> rfl
      | some d => simp only; cases listHit primHit r.leaves mn d <;> rfl
    · have hs' : slab b mn mx = false := by simpa using hs
      simp only [hs', Bool.not_false, if_true]
      symm
      apply listHit_none_of_all
      intro x hx
      cases hp : primHit x mn mx with
      | none => rfl
      | some d =>
        have := hmono _ _ mn mx (hcov x hx) (hprim x mn mx d hp)
        rw [this] at hs'; cases hs'

theorem listHit_single (primHit : H → K → K → Option K) (x : H) (mn mx : K) :
    listHit primHit [x] mn mx = primHit x mn mx := by
  simp only [listHit_eq_foldl, List.foldl_cons, List.foldl_nil, hitStep]
  cases primHit x mn mx <;> rfl

/-- `HitList.Hit` returns the nearest of the individual hits, whatever the order of the list — for primitives
    whose `Hit` reports their first hit `f h` beyond `mn` whenever it is within the range (`d ≤ mx`). -/
theorem listHit_spec [LinearOrder K] (f : H → Option K) (primHit : H → K → K → Option K) (mn : K)
    (hc : ∀ h mx, primHit h mn mx = (f h).bind (fun d => if d ≤ mx then some d else none)) :
    ∀ (hs : List H) (mx : K),
      (listHit primHit hs mn mx = none → ∀ h ∈ hs, primHit h mn mx = none) ∧
      (∀ d, listHit primHit hs mn mx = some d →
        (∃ h ∈ hs, primHit h mn mx = some d) ∧ ∀ h ∈ hs, ∀ d', primHit h mn mx = some d' → d ≤ d') := by
  have F1 : ∀ h c d, primHit h mn c = some d → f h = some d ∧ d ≤ c := by
    intro h c d hp
    rw [hc] at hp
    cases hf : f h with
    | none => rw [hf] at hp; simp at hp
    | some d0 =>
      rw [hf] at hp
      simp only [Option.bind_some] at hp
      split_ifs at hp with hle
      · simp only [Option.some.injEq] at hp; subst hp; exact ⟨rfl, hle⟩
  have F2 : ∀ h c d, f h = some d → d ≤ c → primHit h mn c = some d := by
    intro h c d hf hle
    rw [hc, hf]; simp [hle]
  intro hs
  induction hs with
  | nil => intro mx; simp [listHit]
  | cons x t ih =>
    intro mx
    have happ := listHit_append primHit [x] t mn mx
    simp only [List.singleton_append, listHit_single] at happ
    cases hx : primHit x mn mx with
    | none =>
      rw [hx] at happ
      simp only at happ
      have e : listHit primHit (x :: t) mn mx = listHit primHit t mn mx := by
        rw [happ]; cases listHit primHit t mn mx <;> rfl
      rw [e]
      obtain ⟨i1, i2⟩ := ih mx
      refine ⟨?_, ?_⟩
      · intro hn h hh
        rcases List.mem_cons.mp hh with rfl | hh
        · exact hx
        · exact i1 hn h hh
      · intro d hd
        obtain ⟨⟨h, hh, hp⟩, hmin⟩ := i2 d hd
        refine ⟨⟨h, by simp [hh], hp⟩, ?_⟩
        intro h' hh' d' hp'
        rcases List.mem_cons.mp hh' with rfl | hh'
        · rw [hx] at hp'; cases hp'
        · exact hmin h' hh' d' hp'
    | some d0 =>
      rw [hx] at happ
      simp only at happ
      obtain ⟨hf0, hle0⟩ := F1 x mx d0 hx
      obtain ⟨i1, i2⟩ := ih d0
      cases ht : listHit primHit t mn d0 with
      | none =>
        rw [ht] at happ
        simp only at happ
        rw [happ]
        refine ⟨(by intro h; cases h), ?_⟩
        intro d hd
        simp only [Option.some.injEq] at hd; subst hd
        refine ⟨⟨x, by simp, hx⟩, ?_⟩
        intro h' hh' d' hp'
        rcases List.mem_cons.mp hh' with rfl | hh'
        · rw [hx] at hp'; simp only [Option.some.injEq] at hp'; exact le_of_eq hp'
        · obtain ⟨hf', _⟩ := F1 h' mx d' hp'
          by_contra hlt
          have := F2 h' d0 d' hf' (le_of_lt (not_le.mp hlt))
          rw [i1 ht h' hh'] at this; cases this
      | some d1 =>
        rw [ht] at happ
        simp only at happ
        rw [happ]
        refine ⟨(by intro h; cases h), ?_⟩
        intro d hd
        simp only [Option.some.injEq] at hd; subst hd
        obtain ⟨⟨h, hh, hp⟩, hmin⟩ := i2 d1 ht
        obtain ⟨hf1, hle1⟩ := F1 h d0 d1 hp
        refine ⟨⟨h, by simp [hh], F2 h mx d1 hf1 (le_trans hle1 hle0)⟩, ?_⟩
        intro h' hh' d' hp'
        rcases List.mem_cons.mp hh' with rfl | hh'
        · rw [hx] at hp'; simp only [Option.some.injEq] at hp'; subst hp'; exact hle1
        · obtain ⟨hf', _⟩ := F1 h' mx d' hp'
          rcases le_total d' d0 with hle | hle
          · exact hmin h' hh' d' (F2 h' d0 d' hf' hle)
          · exact le_trans hle1 hle

/-- hence two hit lists with the same members give the same answer -/
theorem listHit_congr_mem [LinearOrder K] (f : H → Option K) (primHit : H → K → K → Option K) (mn : K)
    (hc : ∀ h mx, primHit h mn mx = (f h).bind (fun d => if d ≤ mx then some d else none))
    (l₁ l₂ : List H) (hmem : ∀ h, h ∈ l₁ ↔ h ∈ l₂) (mx : K) :
    listHit primHit l₁ mn mx = listHit primHit l₂ mn mx := by
  obtain ⟨a1, a2⟩ := listHit_spec f primHit mn hc l₁ mx
  obtain ⟨b1, b2⟩ := listHit_spec f primHit mn hc l₂ mx
  cases h1 : listHit primHit l₁ mn mx with
  | none =>
    cases h2 : listHit primHit l₂ mn mx with
    | none => rfl
    | some d2 =>
      obtain ⟨⟨h, hh, hp⟩, _⟩ := b2 d2 h2
      rw [a1 h1 h ((hmem h).mpr hh)] at hp; cases hp
  | some d1 =>
    obtain ⟨⟨h, hh, hp⟩, hmin1⟩ := a2 d1 h1
    cases h2 : listHit primHit l₂ mn mx with
    | none => rw [b1 h2 h ((hmem h).mp hh)] at hp; cases hp
    | some d2 =>
      obtain ⟨⟨h', hh', hp'⟩, hmin2⟩ := b2 d2 h2
      have e1 := hmin1 h' ((hmem h').mpr hh') d2 hp'
      have e2 := hmin2 h ((hmem h).mp hh) d1 hp
      rw [le_antisymm e1 e2]

section traverse
variable {B E K G : Type}

theorem traverse_elems_fold (slabE : E → K → K → Bool) (g : E → G) (rng : K × K) :
    ∀ (es : List E) (acc : List G),
      es.foldl (fun (st : (K × K) × List G) e =>
        if slabE e st.1.1 st.1.2 then (st.1, g e :: st.2) else st) (rng, acc) =
      (rng, ((es.filter (fun e => slabE e rng.1 rng.2)).map g).reverse ++ acc) := by
  intro es
  induction es with
  | nil => intro acc; simp
  | cons e es ih =>
    intro acc
    simp only [List.foldl_cons]
    by_cases h : slabE e rng.1 rng.2 = true
    · simp only [h, if_true, List.filter_cons, List.map_cons, List.reverse_cons, List.append_assoc,
        List.singleton_append]
      rw [ih]
    · have h' : slabE e rng.1 rng.2 = false := by simpa using h
      simp only [h', Bool.false_eq_true, if_false, List.filter_cons]
      rw [ih]

/-- with a callback that records the element and leaves the range alone, `TraverseIntersectingRay` visits
    exactly what `ElementsIntersectingRay` returns, in the same order -/
theorem traverse_eq_pruned (slabB : B → K → K → Bool) (slabE : E → K → K → Bool) (g : E → G) (rng : K × K) :
    ∀ (t : Oct B E) (acc : List G),
      t.traverse slabB slabE (fun e r (a : List G) => (r, g e :: a)) rng acc =
      ((t.pruned (fun b => !slabB b rng.1 rng.2) (fun e => slabE e rng.1 rng.2)).map g).reverse ++ acc := by
  intro t
  induction t using Oct.induct' with
  | h b es cs ih =>
    intro acc
    simp only [Oct.traverse, Oct.pruned]
    by_cases hb : slabB b rng.1 rng.2 = true
    · simp only [hb, Bool.not_true, Bool.false_eq_true, if_false]
      rw [traverse_elems_fold]
      simp only
      have : ∀ (l : List (Oct B E)), (∀ c ∈ l, c ∈ cs) → ∀ a : List G,
          l.foldl (fun s c => c.traverse slabB slabE (fun e r (a : List G) => (r, g e :: a)) rng s) a =
          ((l.flatMap (fun c => c.pruned (fun b => !slabB b rng.1 rng.2) (fun e => slabE e rng.1 rng.2))).map g).reverse ++ a := by
        intro l
        induction l with
        | nil => intro _ a; simp
        | cons c l ihl =>
          intro hl a
          simp only [List.foldl_cons, List.flatMap_cons, List.map_append, List.reverse_append, List.append_assoc]
          rw [ih c (hl c (by simp)), ihl (fun c' hc' => hl c' (by simp [hc']))]
      rw [this cs (fun c hc => hc)]
      simp only [List.map_append, List.reverse_append, List.append_assoc]
    · have hb' : slabB b rng.1 rng.2 = false := by simpa using hb
      simp [hb']
end traverse

section slabsound
open Gen.geometry
/-- one axis of the slab test does not reject, and keeps `t` strictly inside a non-empty range, when the ray
    point at parameter `t` lies strictly inside the (widened) slab — zero direction component included -/
theorem slabComponent_sound (o d tmin tmax lo hi t : ℝ)
    (h1 : lo < o + d * t) (h2 : o + d * t < hi) (ha : tmin ≤ t) (hb : t ≤ tmax) (hc : tmin < tmax) :
    (slabComponent o d tmin tmax lo hi).1 = false ∧
    (slabComponent o d tmin tmax lo hi).2.1 ≤ t ∧ t ≤ (slabComponent o d tmin tmax lo hi).2.2 ∧
    (slabComponent o d tmin tmax lo hi).2.1 < (slabComponent o d tmin tmax lo hi).2.2 := by
  by_cases hd : d = 0
  · subst hd
    simp only [zero_mul, add_zero] at h1 h2
    rw [slabComponent_zero_in _ _ _ _ _ h1 h2]
    refine ⟨?_, ha, hb, hc⟩
    simp only [decide_eq_false_iff_not, not_le]; exact hc
  rw [slabComponent_ne _ _ _ _ _ _ hd, slabArith_eq]
  set k := 1 / d with hk
  have hdk : d * k = 1 := by rw [hk]; field_simp
  have ht : t = (d * t) * k := by
    have : (d * t) * k = t * (d * k) := by ring
    rw [this, hdk, mul_one]
  have hL : min ((lo - o) * k) ((hi - o) * k) < t ∧ t < max ((lo - o) * k) ((hi - o) * k) := by
    rcases lt_or_gt_of_ne hd with hneg | hpos
    · have hkneg : k < 0 := by rw [hk]; exact one_div_neg.mpr hneg
      constructor
      · refine lt_of_le_of_lt (min_le_right _ _) ?_
        rw [ht]; exact mul_lt_mul_of_neg_right (by linarith) hkneg
      · refine lt_of_lt_of_le ?_ (le_max_left _ _)
        rw [ht]; exact mul_lt_mul_of_neg_right (by linarith) hkneg
    · have hkpos : 0 < k := by rw [hk]; exact one_div_pos.mpr hpos
      constructor
      · refine lt_of_le_of_lt (min_le_left _ _) ?_
        rw [ht]; exact mul_lt_mul_of_pos_right (by linarith) hkpos
      · refine lt_of_lt_of_le ?_ (le_max_right _ _)
        rw [ht]; exact mul_lt_mul_of_pos_right (by linarith) hkpos
  obtain ⟨hl, hh⟩ := hL
  generalize min ((lo - o) * k) ((hi - o) * k) = L at hl ⊢
  generalize max ((lo - o) * k) ((hi - o) * k) = Hh at hh ⊢
  have e1 : max tmin L ≤ t := max_le ha (le_of_lt hl)
  have e2 : t ≤ min tmax Hh := le_min hb (le_of_lt hh)
  have e3 : max tmin L < min tmax Hh := by
    rcases le_total tmin L with h | h
    · rw [max_eq_right h]
      exact lt_min (lt_of_lt_of_le hl hb) (lt_trans hl hh)
    · rw [max_eq_left h]
      exact lt_min hc (lt_of_le_of_lt ha hh)
  refine ⟨?_, e1, e2, e3⟩
  simp only [decide_eq_false_iff_not, not_le]
  exact e3

/-- `slab_sound`: if the ray `o + t·d` (ANY direction, zero components included) is inside box `a` for some
    parameter `t` of a non-empty range `[mn, mx]`, the slab test accepts `a` for that range -/
theorem slab_sound_aux (a : Box) (o d : P3) (mn mx t : ℝ)
    (hr : mn < mx) (h1 : mn ≤ t) (h2 : t ≤ mx)
    (hin : a.Contains (o.Add (d.Scale t)) = true) : intersectsRayInRange a o d mn mx = true := by
  rw [aabb_contains_iff] at hin
  simp only [V3.Add, V3.Scale] at hin
  obtain ⟨a1, a2, a3, a4, a5, a6⟩ := hin
  have keps : (0 : ℝ) < kEps := by simp [kEps]
  obtain ⟨x0, x1, x2, x3⟩ := slabComponent_sound o.x d.x mn mx (a.Min.x - kEps) (a.Max.x + kEps) t
    (by linarith) (by linarith) h1 h2 hr
  obtain ⟨y0, y1, y2, y3⟩ := slabComponent_sound o.y d.y _ _ (a.Min.y - kEps) (a.Max.y + kEps) t
    (by linarith) (by linarith) x1 x2 x3
  obtain ⟨z0, _, _, _⟩ := slabComponent_sound o.z d.z _ _ (a.Min.z - kEps) (a.Max.z + kEps) t
    (by linarith) (by linarith) y1 y2 y3
  simp only [intersectsRayInRange, x0, y0, z0, Bool.false_eq_true, if_false]
end slabsound

section bvhbuild
variable {B H : Type}
/-- `NewBVHTree` builds a covering tree over exactly the given objects, whatever the axis choices / sort order -/
theorem bvhBuild_spec (sub : B → B → Prop) (boxH : H → B) (union : B → B → B) (reorder : List H → List H)
    (hre : ∀ l, (reorder l).Perm l)
    (hun : ∀ a b, sub a (union a b) ∧ sub b (union a b))
    (htrans : ∀ a b c, sub a b → sub b c → sub a c) :
    ∀ (fuel : Nat) (hs : List H), hs ≠ [] → hs.length ≤ fuel → (∀ h ∈ hs, sub (boxH h) (boxH h)) →
      ∃ t, bvhBuild reorder boxH union fuel hs = some t ∧ BInv sub boxH t ∧
        (∀ h, h ∈ t.leaves ↔ h ∈ hs) ∧ (∀ h ∈ t.leaves, sub (boxH h) (t.boxOf boxH)) := by
  intro fuel
  induction fuel with
  | zero =>
    intro hs hne hlen
    exact absurd (List.length_eq_zero_iff.mp (Nat.le_zero.mp hlen)) hne
  | succ fuel ih =>
    intro hs hne hlen hrefl
    match hs, hne, hlen, hrefl with
    | [a], _, _, _ =>
      refine ⟨.node (union (boxH a) (boxH a)) (.leaf a) (.leaf a), by simp only [bvhBuild], ?_, ?_, ?_⟩
      · refine BInv.node ?_ (BInv.leaf a) (BInv.leaf a)
        intro h hh
        simp only [Bvh.leaves, List.cons_append, List.nil_append, List.mem_cons, List.not_mem_nil, or_false, or_self] at hh
        subst hh; exact (hun _ _).1
      · intro h; simp [Bvh.leaves]
      · intro h hh
        simp only [Bvh.leaves, List.cons_append, List.nil_append, List.mem_cons, List.not_mem_nil, or_false, or_self] at hh
        subst hh; exact (hun _ _).1
    | [a, b], _, _, _ =>
      have hp := hre [a, b]
      obtain ⟨x, y, hxy⟩ := List.length_eq_two.mp (by rw [hp.length_eq]; rfl : (reorder [a, b]).length = 2)
      have hmem : ∀ h, h ∈ [x, y] ↔ h ∈ [a, b] := fun h => by rw [← hxy]; exact hp.mem_iff
      refine ⟨.node (union (boxH x) (boxH y)) (.leaf x) (.leaf y), by simp only [bvhBuild, hxy], ?_, ?_, ?_⟩
      · refine BInv.node ?_ (BInv.leaf x) (BInv.leaf y)
        intro h hh
        simp only [Bvh.leaves, List.cons_append, List.nil_append, List.mem_cons, List.not_mem_nil, or_false] at hh
        rcases hh with rfl | rfl
        · exact (hun _ _).1
        · exact (hun _ _).2
      · intro h; simpa [Bvh.leaves] using hmem h
      · intro h hh
        simp only [Bvh.leaves, List.cons_append, List.nil_append, List.mem_cons, List.not_mem_nil, or_false] at hh
        rcases hh with rfl | rfl
        · exact (hun _ _).1
        · exact (hun _ _).2
    | a :: b :: c :: rest, _, hlen, hrefl =>
      have hp := hre (a :: b :: c :: rest)
      have hl : (reorder (a :: b :: c :: rest)).length = rest.length + 3 := by rw [hp.length_eq]; simp
      generalize hs' : reorder (a :: b :: c :: rest) = s at hp hl
      have hmid1 : 1 ≤ s.length / 2 := by omega
      have hmid2 : s.length / 2 < s.length := by omega
      have hreflS : ∀ h ∈ s, sub (boxH h) (boxH h) := fun h hh => hrefl h (hp.mem_iff.mp hh)
      simp only [List.length_cons] at hlen
      obtain ⟨tl, el, il, ml, bl⟩ := ih (s.take (s.length / 2))
        (by intro h; have := congrArg List.length h; rw [List.length_take, List.length_nil] at this; omega)
        (by rw [List.length_take]; omega)
        (fun h hh => hreflS h (List.mem_of_mem_take hh))
      obtain ⟨tr, er, ir, mr, br⟩ := ih (s.drop (s.length / 2))
        (by intro h; have := congrArg List.length h; rw [List.length_drop, List.length_nil] at this; omega)
        (by rw [List.length_drop]; omega)
        (fun h hh => hreflS h (List.mem_of_mem_drop hh))
      refine ⟨.node (union (tl.boxOf boxH) (tr.boxOf boxH)) tl tr, ?_, ?_, ?_, ?_⟩
      · simp only [bvhBuild, hs', el, er]
      · refine BInv.node ?_ il ir
        intro h hh
        simp only [Bvh.leaves, List.mem_append] at hh
        rcases hh with hh | hh
        · exact htrans _ _ _ (bl h hh) (hun _ _).1
        · exact htrans _ _ _ (br h hh) (hun _ _).2
      · intro h
        simp only [Bvh.leaves, List.mem_append, ml, mr]
        rw [← hp.mem_iff, ← List.mem_append, List.take_append_drop]
      · intro h hh
        simp only [Bvh.leaves, List.mem_append] at hh
        simp only [Bvh.boxOf]
        rcases hh with hh | hh
        · exact htrans _ _ _ (bl h hh) (hun _ _).1
        · exact htrans _ _ _ (br h hh) (hun _ _).2
end bvhbuild

section hits
variable {H K : Type}
/-- two hit lists that contain the same *hitting* primitives give the same answer -/
theorem listHit_congr_hits [LinearOrder K] (f : H → Option K) (primHit : H → K → K → Option K) (mn : K)
    (hc : ∀ h mx, primHit h mn mx = (f h).bind (fun d => if d ≤ mx then some d else none))
    (l₁ l₂ : List H) (mx : K)
    (hmem : ∀ h d, primHit h mn mx = some d → (h ∈ l₁ ↔ h ∈ l₂)) :
    listHit primHit l₁ mn mx = listHit primHit l₂ mn mx := by
  obtain ⟨a1, a2⟩ := listHit_spec f primHit mn hc l₁ mx
  obtain ⟨b1, b2⟩ := listHit_spec f primHit mn hc l₂ mx
  cases h1 : listHit primHit l₁ mn mx with
  | none =>
    cases h2 : listHit primHit l₂ mn mx with
    | none => rfl
    | some d2 =>
      obtain ⟨⟨h, hh, hp⟩, _⟩ := b2 d2 h2
      have := a1 h1 h ((hmem h d2 hp).mpr hh)
      rw [this] at hp; cases hp
  | some d1 =>
    obtain ⟨⟨h, hh, hp⟩, hmin1⟩ := a2 d1 h1
    cases h2 : listHit primHit l₂ mn mx with
    | none =>
      have := b1 h2 h ((hmem h d1 hp).mp hh)
      rw [this] at hp; cases hp
    | some d2 =>
      obtain ⟨⟨h', hh', hp'⟩, hmin2⟩ := b2 d2 h2
      have e1 := hmin1 h' ((hmem h' d2 hp').mpr hh') d2 hp'
      have e2 := hmin2 h ((hmem h d1 hp).mp hh) d1 hp
      rw [le_antisymm e1 e2]
end hits

end PolyVerif.Tree
