/-
  C18: connectedness of the capped cylinder (all side counts), of the hemisphere and of the unwelded sphere modulo merge.
-/
import PolyVerif.Lemmas.SolidsTopo
import PolyVerif.Lemmas.SolidsUmbrella2
namespace PolyVerif.Solids

/-- every valid logical point of the capped cylinder is reachable from the top centre along edges -/
theorem cylL_reach {S : Nat} (hS : 3 ≤ S) (p : LP) (hp : CylValidP S p) :
    Relation.ReflTransGen (Adj (cylL S)) (0, 0) p := by
  have top : ∀ c, c < S → Relation.ReflTransGen (Adj (cylL S)) (0, 0) (1, c) := by
    intro c hc
    obtain ⟨hp', h2⟩ := pd_spec hc
    refine Relation.ReflTransGen.single ?_
    -- edge (0,0) → (1, c): second edge of the top-cap triangle ((1,i),(0,0),(1,(i+1)%S)) with i = pd c
    refine mem_edges_cylL.2 (Or.inr (Or.inl ⟨(c + S - 1) % S, hp', ?_⟩))
    simp [topE, h2]
  have bot : ∀ c, c < S → Relation.ReflTransGen (Adj (cylL S)) (0, 0) (2, c) := by
    intro c hc
    obtain ⟨hp', h2⟩ := pd_spec hc
    -- (1, c) → (2, c): side edge ((1,(i+1)%S),(2,(i+1)%S)) with i = pd c
    refine Relation.ReflTransGen.tail (top c hc) ?_
    refine mem_edges_cylL.2 (Or.inl ⟨(c + S - 1) % S, hp', ?_⟩)
    simp [sideE, h2]
  rcases hp with rfl | rfl | ⟨c, hc, rfl⟩ | ⟨c, hc, rfl⟩
  · exact Relation.ReflTransGen.refl
  · -- bottom centre from (2, (0+1)%S): edge ((2,(m+1)%S),(3,0)) with m = 0
    refine Relation.ReflTransGen.tail (bot ((0 + 1) % S) (Nat.mod_lt _ (by omega))) ?_
    refine mem_edges_cylL.2 (Or.inr (Or.inr ⟨0, by omega, ?_⟩))
    simp [botE]
  · exact top c hc
  · exact bot c hc

/-- the capped cylinder modulo its merge map is connected, all side counts ≥ 3 -/
theorem cylinder_reach_mod_merge {S : Nat} (hS : 3 ≤ S) {v : Nat} (hv : v < cylinderNV S false false) :
    Relation.ReflTransGen (Adj ((cylinderTris S false false).map (tmap (cylinderPt S)))) (0, 0) (cylinderPt S v) := by
  rw [cylinder_map_pt (by omega)]
  refine cylL_reach hS _ ?_
  rcases cylValid_cases (cylinderPt_valid hS hv) with h | h | ⟨c, hc, h⟩ | ⟨c, hc, h⟩
  · exact Or.inl h
  · exact Or.inr (Or.inl h)
  · exact Or.inr (Or.inr (Or.inl ⟨c, hc, h⟩))
  · exact Or.inr (Or.inr (Or.inr ⟨c, hc, h⟩))


/-- for a closed list, reversing every triangle keeps the edge relation (each edge has its twin) -/
theorem adj_flip_of_closed {β : Type} {ts : List (β × β × β)} (h : Closed ts) {a b : β} (hab : Adj ts a b) :
    Adj (ts.map flipT) a b := by
  have htw := h.2.1 (a, b) hab
  unfold Adj
  rw [(edges_flip_perm ts).mem_iff]
  exact List.mem_map.2 ⟨(b, a), htw, rfl⟩

/-- the hemisphere is connected, all sizes -/
theorem hemisphere_reach {R C : Nat} (hR : 2 ≤ R) (hC : 3 ≤ C) {v : Nat} (hv : v < uvSphereNV R C) :
    Relation.ReflTransGen (Adj (hemisphereTris R C)) 0 v := by
  rw [hemisphereTris_eq_flip]
  have hcl : Closed (uvSphereTris R C) := by
    rw [uvSphereTris_eq_map hR]
    exact (sphereL_closed hR hC).map_of_injOn (UvValid R C) (sphereL_valid hR hC) (uvEnc_injOn hR hC)
  exact Relation.ReflTransGen.lift id (fun a b hab => adj_flip_of_closed hcl hab) _ _ (uvSphere_reach hR hC hv)

end PolyVerif.Solids
