/-
  Helper lemmas for C16, part 2: the priority queue (`extractMin`) and the best-first loop of
  `OctTree.ClosestPoint`, over any linearly ordered key type.
-/
import PolyVerif.Lemmas.Tree

namespace PolyVerif
namespace Tree

variable {B E P K : Type}

/-- change the relation of the invariant, using a fact known for every stored element -/
theorem Inv.imp {R R' : B → E → Prop} {Q : E → Prop} (h : ∀ b e, R b e → Q e → R' b e) :
    ∀ t : Oct B E, Inv R t → (∀ e ∈ t.allElems, Q e) → Inv R' t := by
  intro t
  induction t using Oct.induct' with
  | h b es cs ih =>
    intro hinv hq
    refine Inv.node (fun e he => h b e (hinv.root e he) (hq e he)) ?_
    intro c hc
    exact ih c hc (hinv.children c hc) (fun e he => hq e (Oct.mem_allElems_of_child hc he))

section queue

variable [LinearOrder K]

def ltK : K → K → Bool := fun a b => decide (a < b)

theorem extractMin_none (q : List (Item B E P K)) : extractMin ltK q = none ↔ q = [] := by
  cases q with
  | nil => simp [extractMin]
  | cons x xs =>
    simp only [extractMin]
    cases h : extractMin ltK xs with
    | none => simp
    | some mr =>
      obtain ⟨m, rest⟩ := mr
      simp only
      split_ifs <;> simp

theorem extractMin_some : ∀ (q : List (Item B E P K)) (m : Item B E P K) (rest : List (Item B E P K)),
    extractMin ltK q = some (m, rest) → (m :: rest).Perm q ∧ ∀ x ∈ q, m.key ≤ x.key := by
  intro q
  induction q with
  | nil => intro m rest h; simp [extractMin] at h
  | cons x xs ih =>
    intro m rest h
    simp only [extractMin] at h
    cases hx : extractMin ltK xs with
    | none =>
      rw [hx] at h
      have : xs = [] := (extractMin_none xs).mp hx
      subst this
      simp only [Option.some.injEq, Prod.mk.injEq] at h
      obtain ⟨rfl, rfl⟩ := h
      exact ⟨List.Perm.refl _, by simp⟩
    | some mr =>
      obtain ⟨m', rest'⟩ := mr
      rw [hx] at h
      obtain ⟨hp, hmin⟩ := ih m' rest' hx
      simp only at h
      by_cases hlt : ltK m'.key x.key = true
      · simp only [hlt, if_true, Option.some.injEq, Prod.mk.injEq] at h
        obtain ⟨rfl, rfl⟩ := h
        refine ⟨?_, ?_⟩
        · exact (List.Perm.swap x m' rest').trans (List.Perm.cons x hp)
        · intro y hy
          rcases List.mem_cons.mp hy with rfl | hy
          · exact le_of_lt (by simpa [ltK] using hlt)
          · exact hmin y hy
      · have hlt' : ltK m'.key x.key = false := by simpa using hlt
        simp only [hlt', Bool.false_eq_true, if_false, Option.some.injEq, Prod.mk.injEq] at h
        obtain ⟨rfl, rfl⟩ := h
        refine ⟨List.Perm.refl _, ?_⟩
        have hxm : x.key ≤ m'.key := by
          have : ¬ m'.key < x.key := by simpa [ltK] using hlt'
          exact not_lt.mp this
        intro y hy
        rcases List.mem_cons.mp hy with rfl | hy
        · exact le_refl _
        · exact le_trans hxm (hmin y hy)

/-- the elements an item stands for -/
def Item.reps : Item B E P K → List E
  | .cell _ c => c.allElems
  | .elem _ e _ => [e]

def Item.wt : Item B E P K → Nat
  | .cell _ c => c.weight
  | .elem _ _ _ => 1

theorem Oct.weight_pos (t : Oct B E) : 0 < t.weight := by
  cases t with
  | node b es cs => simp only [Oct.weight]; omega

theorem Item.wt_pos (i : Item B E P K) : 0 < i.wt := by
  cases i with
  | cell k c => exact Oct.weight_pos c
  | elem k e pt => simp [Item.wt]

/-- what must hold of a queued item: keys are what the Go code computes, and below a queued cell the
    lower-bound invariant holds -/
def Item.ok (keyB : B → K) (cp : E → P) (keyP : P → K) : Item B E P K → Prop
  | .cell k c => k = keyB c.bounds ∧ Inv (fun b e => keyB b ≤ keyP (cp e)) c
  | .elem k e pt => pt = cp e ∧ k = keyP (cp e)

theorem sum_map_wt_perm {l₁ l₂ : List (Item B E P K)} (h : l₁.Perm l₂) :
    (l₁.map Item.wt).sum = (l₂.map Item.wt).sum := (h.map _).sum_eq

theorem sum_map_weight (cs : List (Oct B E)) (keyB : B → K) :
    ((cs.map (fun c => (Item.cell (keyB c.bounds) c : Item B E P K))).map Item.wt).sum = (cs.map (fun c => c.weight)).sum := by
  induction cs with
  | nil => rfl
  | cons c cs ih => simp [Item.wt, List.map_map] at ih ⊢; omega

theorem sum_map_elem (es : List E) (cp : E → P) (keyP : P → K) :
    ((es.map (fun e => (Item.elem (keyP (cp e)) e (cp e) : Item B E P K))).map Item.wt).sum = es.length := by
  induction es with
  | nil => rfl
  | cons e es ih => simp [Item.wt, List.map_map] at ih ⊢; omega

/-- specification of the best-first loop -/
theorem bestFirst_spec (keyB : B → K) (cp : E → P) (keyP : P → K) :
    ∀ (fuel : Nat) (q : List (Item B E P K)),
      (∀ i ∈ q, i.ok keyB cp keyP) → (q.map Item.wt).sum ≤ fuel →
      match bestFirst ltK keyB cp keyP fuel q with
      | none => ∀ i ∈ q, ∀ e, e ∉ i.reps
      | some (e, pt) => (∃ i ∈ q, e ∈ i.reps) ∧ pt = cp e ∧
          ∀ i ∈ q, ∀ e' ∈ i.reps, keyP (cp e) ≤ keyP (cp e') := by
  intro fuel
  induction fuel with
  | zero =>
    intro q _ hw
    have : q = [] := by
      cases q with
      | nil => rfl
      | cons i q =>
        have := Item.wt_pos i
        simp at hw; omega
    subst this
    simp [bestFirst]
  | succ fuel ih =>
    intro q hok hw
    simp only [bestFirst]
    cases hx : extractMin ltK q with
    | none =>
      have : q = [] := (extractMin_none q).mp hx
      subst this; simp
    | some mr =>
      obtain ⟨m, rest⟩ := mr
      obtain ⟨hperm, hmin⟩ := extractMin_some q m rest hx
      have hmq : m ∈ q := hperm.subset (by simp)
      have hrest : ∀ i ∈ rest, i ∈ q := fun i hi => hperm.subset (by simp [hi])
      cases m with
      | elem k e pt =>
        simp only
        obtain ⟨hpt, hk⟩ := hok _ hmq
        refine ⟨⟨_, hmq, by simp [Item.reps]⟩, hpt, ?_⟩
        intro i hi e' he'
        have hle := hmin i hi
        simp only [Item.key] at hle
        cases i with
        | cell k' c =>
          obtain ⟨hk', hinv⟩ := hok _ hi
          have := hinv.root e' he'
          rw [← hk]; exact le_trans hle (hk' ▸ this)
        | elem k' e'' pt' =>
          obtain ⟨_, hk'⟩ := hok _ hi
          simp only [Item.reps, List.mem_singleton] at he'
          subst he'
          rw [← hk, ← hk']; exact hle
      | cell k c =>
        cases c with
        | node b es cs =>
          simp only
          obtain ⟨_, hinv⟩ := hok _ hmq
          have hw' : ((rest ++ cs.map (fun (c : Oct B E) => Item.cell (keyB c.bounds) c)
                ++ es.map (fun e => Item.elem (keyP (cp e)) e (cp e))).map Item.wt).sum ≤ fuel := by
            have h1 := sum_map_wt_perm hperm
            simp only [List.map_cons, List.sum_cons, Item.wt, Oct.weight] at h1
            rw [List.map_append, List.map_append, List.sum_append, List.sum_append,
              sum_map_weight, sum_map_elem]
            omega
          have hok' : ∀ i ∈ (rest ++ cs.map (fun (c : Oct B E) => Item.cell (keyB c.bounds) c)
                ++ es.map (fun e => Item.elem (keyP (cp e)) e (cp e))), i.ok keyB cp keyP := by
            intro i hi
            rcases List.mem_append.mp hi with hi | hi
            · rcases List.mem_append.mp hi with hi | hi
              · exact hok i (hrest i hi)
              · obtain ⟨c, hc, rfl⟩ := List.mem_map.mp hi
                exact ⟨rfl, hinv.children c hc⟩
            · obtain ⟨e, _, rfl⟩ := List.mem_map.mp hi
              exact ⟨rfl, rfl⟩
          have key := ih _ hok' hw'
          -- membership transfer between the old and the new queue
          have fwd : ∀ i ∈ q, ∀ e ∈ i.reps, ∃ j ∈ (rest ++ cs.map (fun (c : Oct B E) => Item.cell (keyB c.bounds) c)
                ++ es.map (fun e => Item.elem (keyP (cp e)) e (cp e))), e ∈ j.reps := by
            intro i hi e he
            have : i ∈ Item.cell k (Oct.node b es cs) :: rest := hperm.symm.subset hi
            rcases List.mem_cons.mp this with rfl | hir
            · simp only [Item.reps, Oct.allElems_node, List.mem_append, List.mem_flatMap] at he
              rcases he with he | ⟨c, hc, hec⟩
              · exact ⟨Item.elem (keyP (cp e)) e (cp e),
                  List.mem_append_right _ (List.mem_map.mpr ⟨e, he, rfl⟩), by simp [Item.reps]⟩
              · exact ⟨Item.cell (keyB c.bounds) c,
                  List.mem_append_left _ (List.mem_append_right _ (List.mem_map.mpr ⟨c, hc, rfl⟩)),
                  by simpa [Item.reps] using hec⟩
            · exact ⟨i, by simp [hir], he⟩
          have bwd : ∀ j ∈ (rest ++ cs.map (fun (c : Oct B E) => Item.cell (keyB c.bounds) c)
                ++ es.map (fun e => Item.elem (keyP (cp e)) e (cp e))), ∀ e ∈ j.reps, ∃ i ∈ q, e ∈ i.reps := by
            intro j hj e he
            rcases List.mem_append.mp hj with hj | hj
            · rcases List.mem_append.mp hj with hj | hj
              · exact ⟨j, hrest j hj, he⟩
              · obtain ⟨c, hc, rfl⟩ := List.mem_map.mp hj
                exact ⟨_, hmq, Oct.mem_allElems_of_child hc (by simpa [Item.reps] using he)⟩
            · obtain ⟨e0, he0, rfl⟩ := List.mem_map.mp hj
              simp only [Item.reps, List.mem_singleton] at he
              subst he
              exact ⟨_, hmq, by simp [Item.reps, Oct.allElems_node, he0]⟩
          revert key
          cases bestFirst ltK keyB cp keyP fuel (rest ++ cs.map (fun (c : Oct B E) => Item.cell (keyB c.bounds) c)
                ++ es.map (fun e => Item.elem (keyP (cp e)) e (cp e))) with
          | none =>
            intro key i hi e he
            obtain ⟨j, hj, hej⟩ := fwd i hi e he
            exact key j hj e hej
          | some r =>
            obtain ⟨e, pt⟩ := r
            intro key
            obtain ⟨⟨j, hj, hej⟩, hpt, hmin'⟩ := key
            refine ⟨bwd j hj e hej, hpt, ?_⟩
            intro i hi e' he'
            obtain ⟨j', hj', hej'⟩ := fwd i hi e' he'
            exact hmin' j' hj' e' hej'

end queue
end Tree
end PolyVerif
