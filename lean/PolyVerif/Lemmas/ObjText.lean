/-
  C05, round 2 — print/parse laws of the INTEGER part of the OBJ text layer (`PolyVerif/Model/ObjText.lean`):
  `parseInt (showInt n) = some n` on the int64 range, the printed token is digits with at most a leading `-`
  (no blank, no `/`), `parseInt` answers only inside the int64 range, and
  `parseCorner (showCorner c) = ok c` for every corner whose indices fit an int64.  Core Lean only.
-/
import PolyVerif.Model.ObjText

set_option linter.unusedSimpArgs false
set_option linter.unusedVariables false

namespace PolyVerif
namespace ObjTextL
open Obj ObjText

/-! ### digits -/

theorem digit_aux (d : Nat) (hd : d < 10) : digitVal (digitChar d) = d ∧ isDigit (digitChar d) = true := by
  have h : ∀ d : Fin 10, digitVal (digitChar d.val) = d.val ∧ isDigit (digitChar d.val) = true := by decide
  exact h ⟨d, hd⟩

theorem isDigit_iff_aux (c : Char) : isDigit c = true ↔ 48 ≤ c.toNat ∧ c.toNat ≤ 57 := by
  simp [isDigit, Char.le_def, UInt32.le_iff_toNat_le]

theorem digit_ne_aux {c : Char} (h : isDigit c = true) :
    c ≠ '-' ∧ c ≠ '+' ∧ c ≠ '/' ∧ ObjText.isSpace c = false := by
  rw [isDigit_iff_aux] at h
  refine ⟨?_, ?_, ?_, ?_⟩
  · rintro rfl; simp at h
  · rintro rfl; simp at h
  · rintro rfl; simp at h
  · cases hs : ObjText.isSpace c with
    | false => rfl
    | true =>
      simp only [ObjText.isSpace, Bool.or_eq_true, beq_iff_eq] at hs
      rcases hs with ((((rfl | rfl) | rfl) | rfl) | h') | h'
      · simp at h
      · simp at h
      · simp at h
      · simp at h
      · omega
      · omega

theorem digitsVal_concat_aux (l : List Char) (c : Char) : digitsVal (l ++ [c]) = digitsVal l * 10 + digitVal c := by
  simp [digitsVal, List.foldl_append]

theorem showNat_spec_aux (n : Nat) :
    digitsVal (showNat n) = n ∧ (∀ c ∈ showNat n, isDigit c = true) ∧ showNat n ≠ [] := by
  induction n using Nat.strongRecOn with
  | _ n ih =>
    rw [showNat]
    by_cases h : n < 10
    · simp only [h, ↓reduceIte]
      obtain ⟨h1, h2⟩ := digit_aux n h
      refine ⟨by simp [digitsVal, h1], ?_, by simp⟩
      intro c hc; simp only [List.mem_singleton] at hc; subst hc; exact h2
    · simp only [h, ↓reduceIte]
      obtain ⟨i1, i2, i3⟩ := ih (n / 10) (by omega)
      obtain ⟨h1, h2⟩ := digit_aux (n % 10) (by omega)
      refine ⟨?_, ?_, by simp⟩
      · rw [digitsVal_concat_aux, i1, h1]; omega
      · intro c hc
        rcases List.mem_append.1 hc with hc | hc
        · exact i2 c hc
        · simp only [List.mem_singleton] at hc; subst hc; exact h2

theorem splitSign_digit_aux {c : Char} (r : List Char) (h : isDigit c = true) : splitSign (c :: r) = (false, c :: r) := by
  obtain ⟨h1, h2, _, _⟩ := digit_ne_aux h
  unfold splitSign
  split
  · rename_i heq; simp only [List.cons.injEq] at heq; exact absurd heq.1 h1
  · rename_i heq; simp only [List.cons.injEq] at heq; exact absurd heq.1 h2
  · rfl

theorem all_digits_aux {l : List Char} (h : ∀ c ∈ l, isDigit c = true) : l.all isDigit = true := by
  simpa [List.all_eq_true] using h

theorem parseIntL_showNat_aux (k : Nat) (hk : k < 2 ^ 63) : parseIntL (showNat k) = some (k : Int) := by
  obtain ⟨h1, h2, h3⟩ := showNat_spec_aux k
  cases hs : showNat k with
  | nil => exact absurd hs h3
  | cons c r =>
    rw [hs] at h1 h2
    unfold parseIntL
    rw [splitSign_digit_aux r (h2 c (by simp))]
    simp only [all_digits_aux h2, List.isEmpty_cons, Bool.not_true, Bool.or_self, Bool.false_eq_true, ↓reduceIte, h1]
    simp [hk]

/-- **`Atoi ∘ Itoa = id`** on the int64 range -/
theorem parseIntL_showIntL (n : Int) (hlo : -2 ^ 63 ≤ n) (hhi : n < 2 ^ 63) : parseIntL (showIntL n) = some n := by
  cases n with
  | ofNat k =>
    simp only [showIntL]
    have h' : (k : Int) < 2 ^ 63 := hhi
    exact parseIntL_showNat_aux k (by omega)
  | negSucc k =>
    obtain ⟨h1, h2, h3⟩ := showNat_spec_aux (k + 1)
    have hk : k + 1 ≤ 2 ^ 63 := by
      have := Int.negSucc_eq k
      omega
    simp only [showIntL]
    unfold parseIntL
    have hsp : splitSign ('-' :: showNat (k + 1)) = (true, showNat (k + 1)) := rfl
    rw [hsp]
    have hne : (showNat (k + 1)).isEmpty = false := by
      cases hs : showNat (k + 1) with
      | nil => exact absurd hs h3
      | cons c r => rfl
    simp only [all_digits_aux h2, hne, Bool.not_true, Bool.or_self, Bool.false_eq_true, ↓reduceIte, h1, hk]
    simp [Int.negSucc_eq]

theorem showIntL_chars (n : Int) : (∀ c ∈ showIntL n, isDigit c = true ∨ c = '-') ∧ showIntL n ≠ [] := by
  cases n with
  | ofNat k =>
    obtain ⟨_, h2, h3⟩ := showNat_spec_aux k
    exact ⟨fun c hc => Or.inl (h2 c hc), h3⟩
  | negSucc k =>
    obtain ⟨_, h2, _⟩ := showNat_spec_aux (k + 1)
    refine ⟨?_, by simp [showIntL]⟩
    intro c hc
    simp only [showIntL, List.mem_cons] at hc
    rcases hc with rfl | hc
    · exact Or.inr rfl
    · exact Or.inl (h2 c hc)

theorem parseIntL_range {cs : List Char} {n : Int} (h : parseIntL cs = some n) : -2 ^ 63 ≤ n ∧ n < 2 ^ 63 := by
  unfold parseIntL at h
  generalize splitSign cs = p at h
  obtain ⟨neg, ds⟩ := p
  simp only at h
  split at h
  · cases h
  · split at h
    · split at h
      · cases h; omega
      · cases h
    · split at h
      · cases h; omega
      · cases h

/-! ### corner tokens -/

def NoSlash (l : List Char) : Prop := ∀ c ∈ l, c ≠ '/'

theorem noSlash_showNat_aux (k : Nat) : NoSlash (showNat k) := fun c hc =>
  (digit_ne_aux ((showNat_spec_aux k).2.1 c hc)).2.2.1

theorem splitS_noSlash_aux : ∀ l : List Char, NoSlash l → splitS l = [l]
  | [], _ => rfl
  | c :: l, h => by
    have hc : c ≠ '/' := h c (by simp)
    have ih := splitS_noSlash_aux l (fun x hx => h x (by simp [hx]))
    simp [splitS, hc, ih]

theorem splitS_append_aux (r : List Char) : ∀ l : List Char, NoSlash l → splitS (l ++ '/' :: r) = l :: splitS r
  | [], _ => by simp [splitS]
  | c :: l, h => by
    have hc : c ≠ '/' := h c (by simp)
    have ih := splitS_append_aux r l (fun x hx => h x (by simp [hx]))
    simp [splitS, hc, ih]

theorem splitDS_noSlash_aux : ∀ l : List Char, NoSlash l → splitDS l = [l]
  | [], _ => by rw [splitDS]
  | c :: l, h => by
    have hc : c ≠ '/' := h c (by simp)
    have ih := splitDS_noSlash_aux l (fun x hx => h x (by simp [hx]))
    rw [splitDS]; simp [hc, ih]

/-- a single `/` followed by something that is not split: no `//` here -/
theorem splitDS_single_aux (e : Char) (r : List Char) (he : e ≠ '/') (hr : splitDS (e :: r) = [e :: r]) :
    ∀ l : List Char, NoSlash l → splitDS (l ++ '/' :: e :: r) = [l ++ '/' :: e :: r]
  | [], _ => by
    rw [List.nil_append, splitDS]
    have : ¬ (some e = some '/') := by simpa using he
    simp [hr, he]
  | c :: l, h => by
    have hc : c ≠ '/' := h c (by simp)
    have ih := splitDS_single_aux e r he hr l (fun x hx => h x (by simp [hx]))
    rw [List.cons_append, splitDS]; simp [hc, ih]

theorem splitDS_double_aux (r : List Char) : ∀ l : List Char, NoSlash l → splitDS (l ++ '/' :: '/' :: r) = l :: splitDS r
  | [], _ => by rw [List.nil_append, splitDS]; simp
  | c :: l, h => by
    have hc : c ≠ '/' := h c (by simp)
    have ih := splitDS_double_aux r l (fun x hx => h x (by simp [hx]))
    rw [List.cons_append, splitDS]; simp [hc, ih]

theorem intOf_showNat_aux (k : Nat) (hk : k < 2 ^ 63) : intOf (showNat k) = .ok (k : Int) := by
  simp [intOf, parseIntL_showNat_aux k hk]

theorem showNat_cons_aux (k : Nat) : ∃ e r, showNat k = e :: r ∧ e ≠ '/' ∧ ObjText.isSpace e = false ∧ NoSlash (e :: r) := by
  obtain ⟨_, h2, h3⟩ := showNat_spec_aux k
  have hn := noSlash_showNat_aux k
  cases hs : showNat k with
  | nil => exact absurd hs h3
  | cons e r =>
    rw [hs] at h2 hn
    obtain ⟨_, _, a, b⟩ := digit_ne_aux (h2 e (by simp))
    exact ⟨e, r, rfl, a, b, hn⟩

theorem finCorner_nat_aux (v : Nat) (vt vn : Option Nat) :
    finCorner (v : Int) (vt.map fun x => (x : Int)) (vn.map fun x => (x : Int)) = .ok ⟨v, vt, vn⟩ := by
  have h0 : ¬ ((v : Int) < 0) := by omega
  cases vt <;> cases vn <;> simp [finCorner, h0] <;> omega

/-- the corner law over any integer parser that reads back the printed indices -/
theorem parseCornerG_showCornerL (io : List Char → Except Err Int) (P : Nat → Prop)
    (hio : ∀ k, P k → io (showNat k) = .ok (k : Int)) (c : Corner) (hv : P c.v) (ht : ∀ t, c.vt = some t → P t)
    (hn : ∀ n, c.vn = some n → P n) : parseCornerG io (showCornerL c) = .ok c := by
  obtain ⟨v, vt, vn⟩ := c
  simp only at hv ht hn
  have hv := hio v hv
  have nv := noSlash_showNat_aux v
  cases vt with
  | none =>
    cases vn with
    | none =>
      simp only [showCornerL]
      unfold parseCornerG
      simp only [splitS_noSlash_aux _ nv, hv]
      exact finCorner_nat_aux v none none
    | some n =>
      have hn' := hio n (hn n rfl)
      obtain ⟨e, r, hs, he, hsp, hns⟩ := showNat_cons_aux n
      simp only [showCornerL]
      unfold parseCornerG
      have s1 : splitS (showNat v ++ '/' :: '/' :: showNat n) = [showNat v, [], showNat n] := by
        rw [splitS_append_aux _ _ nv]
        have : splitS ('/' :: showNat n) = [] :: splitS (showNat n) := by simp [splitS]
        rw [this, splitS_noSlash_aux _ (noSlash_showNat_aux n)]
      have s2 : splitDS (showNat v ++ '/' :: '/' :: showNat n) = [showNat v, showNat n] := by
        rw [splitDS_double_aux _ _ nv, splitDS_noSlash_aux _ (noSlash_showNat_aux n)]
      have hall : (showNat n).all ObjText.isSpace = false := by rw [hs]; simp [hsp]
      simp only [s1, s2, List.length_cons, List.length_nil, List.getD_cons_zero, List.getD_cons_succ,
        hv, hn', hall]
      simpa using finCorner_nat_aux v none (some n)
  | some t =>
    have ht' := hio t (ht t rfl)
    have nt := noSlash_showNat_aux t
    obtain ⟨e, r, hs, he, hsp, hns⟩ := showNat_cons_aux t
    cases vn with
    | none =>
      simp only [showCornerL]
      unfold parseCornerG
      have s1 : splitS (showNat v ++ '/' :: showNat t) = [showNat v, showNat t] := by
        rw [splitS_append_aux _ _ nv, splitS_noSlash_aux _ nt]
      have s2 : splitDS (showNat v ++ '/' :: showNat t) = [showNat v ++ '/' :: showNat t] := by
        rw [hs]
        exact splitDS_single_aux e r he (splitDS_noSlash_aux _ hns) _ nv
      simp only [s1, s2, List.length_cons, List.length_nil, List.getD_cons_zero, List.getD_cons_succ,
        hv, ht']
      simpa using finCorner_nat_aux v (some t) none
    | some n =>
      have hn' := hio n (hn n rfl)
      obtain ⟨e3, r3, hs3, he3, _, hns3⟩ := showNat_cons_aux n
      simp only [showCornerL]
      unfold parseCornerG
      have s1 : splitS (showNat v ++ '/' :: (showNat t ++ '/' :: showNat n)) = [showNat v, showNat t, showNat n] := by
        rw [splitS_append_aux _ _ nv, splitS_append_aux _ _ nt, splitS_noSlash_aux _ (noSlash_showNat_aux n)]
      have s2 : splitDS (showNat v ++ '/' :: (showNat t ++ '/' :: showNat n)) =
          [showNat v ++ '/' :: (showNat t ++ '/' :: showNat n)] := by
        have inner : splitDS (showNat t ++ '/' :: showNat n) = [showNat t ++ '/' :: showNat n] := by
          rw [hs3]
          exact splitDS_single_aux e3 r3 he3 (splitDS_noSlash_aux _ hns3) _ nt
        rw [hs] at inner ⊢
        exact splitDS_single_aux e (r ++ '/' :: showNat n) he inner _ nv
      simp only [s1, s2, List.length_cons, List.length_nil, List.getD_cons_zero, List.getD_cons_succ,
        hv, ht', hn']
      simpa using finCorner_nat_aux v (some t) (some n)

/-- **`parseObjFaceComponent` undoes the writer's corner token** (every index in the int64 range) -/
theorem parseCornerL_showCornerL (c : Corner) (hv : c.v < 2 ^ 63) (ht : ∀ t, c.vt = some t → t < 2 ^ 63)
    (hn : ∀ n, c.vn = some n → n < 2 ^ 63) : parseCornerL (showCornerL c) = .ok c :=
  parseCornerG_showCornerL intOf (· < 2 ^ 63) intOf_showNat_aux c hv ht hn

/-- the corner token contains no blank (it survives `strings.Fields`) and is not empty -/
theorem showCornerL_chars (c : Corner) :
    (∀ x ∈ showCornerL c, ObjText.isSpace x = false) ∧ showCornerL c ≠ [] := by
  have hd : ∀ k, ∀ x ∈ showNat k, ObjText.isSpace x = false := fun k x hx =>
    (digit_ne_aux ((showNat_spec_aux k).2.1 x hx)).2.2.2
  have hs : ObjText.isSpace '/' = false := by decide
  have hne : ∀ k, showNat k ≠ [] := fun k => (showNat_spec_aux k).2.2
  obtain ⟨v, vt, vn⟩ := c
  cases vt <;> cases vn <;> simp only [showCornerL]
  · exact ⟨hd v, hne v⟩
  · refine ⟨?_, by simp [hne v]⟩
    intro x hx
    simp only [List.mem_append, List.mem_cons] at hx
    rcases hx with hx | rfl | rfl | hx
    · exact hd _ x hx
    · exact hs
    · exact hs
    · exact hd _ x hx
  · refine ⟨?_, by simp [hne v]⟩
    intro x hx
    simp only [List.mem_append, List.mem_cons] at hx
    rcases hx with hx | rfl | hx
    · exact hd _ x hx
    · exact hs
    · exact hd _ x hx
  · refine ⟨?_, by simp [hne v]⟩
    intro x hx
    simp only [List.mem_append, List.mem_cons] at hx
    rcases hx with hx | rfl | hx | rfl | hx
    · exact hd _ x hx
    · exact hs
    · exact hd _ x hx
    · exact hs
    · exact hd _ x hx

end ObjTextL
end PolyVerif
