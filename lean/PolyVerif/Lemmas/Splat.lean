/-
  Byte-level lemmas about `Model/Splat.lean` shared by Props/C14 and Props/C15:
  the 32-byte record round-trips bit for bit, and the record loop of `splat.Read`
  run on back-to-back records returns them in order.
-/
import PolyVerif.Model.Splat
import Mathlib.Tactic

namespace PolyVerif
namespace Splat

theorem u32le_le32 (w : UInt32) :
    u32le (UInt8.ofNat (w.toNat % 256)) (UInt8.ofNat (w.toNat / 256 % 256))
      (UInt8.ofNat (w.toNat / 65536 % 256)) (UInt8.ofNat (w.toNat / 16777216 % 256)) = w := by
  apply UInt32.toNat_inj.mp
  have := w.toNat_lt
  simp only [u32le, UInt8.toNat_ofNat', UInt32.toNat_ofNat']
  omega

theorem decRec_encRec (r : Rec) : decRec (encRec r) = some r := by
  cases r
  simp only [encRec, le32, List.cons_append, List.nil_append, decRec, u32le_le32]

theorem encRec_length (r : Rec) : (encRec r).length = 32 := by
  simp [encRec, le32]

theorem readRecs_append (r : Rec) (rest : List UInt8) :
    readRecs (encRec r ++ rest) =
      ⟨r :: (readRecs rest).recs, (readRecs rest).short, (readRecs rest).steps + 1⟩ := by
  have hl := encRec_length r
  have hne : encRec r ++ rest ≠ [] := by
    intro h; have := congrArg List.length h; simp [hl] at this
  rw [readRecs, dif_neg hne]
  have ht : (encRec r ++ rest).take 32 = encRec r := by
    rw [List.take_append_of_le_length (by omega), List.take_of_length_le (by omega)]
  have hd : (encRec r ++ rest).drop 32 = rest := by
    rw [← hl, List.drop_left]
  simp only [ht, hd, decRec_encRec]

theorem readRecs_flatMap (rs : List Rec) :
    readRecs (rs.flatMap encRec) = ⟨rs, false, rs.length + 1⟩ := by
  induction rs with
  | nil => rw [readRecs]; simp
  | cons r rs ih => rw [List.flatMap_cons, readRecs_append, ih]; simp


end Splat
end PolyVerif
