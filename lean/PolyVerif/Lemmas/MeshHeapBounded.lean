/-
  C01 refine, part 3: the bounds invariant is preserved — the meshes an operation returns are bounded.
-/
import PolyVerif.Lemmas.MeshHeapRefineOps

namespace PolyVerif
namespace MeshHeap

variable {κ α : Type} [DecidableEq κ]
set_option linter.unusedSectionVars false

theorem setKind_B {h : Heap κ α} {maps : List (Option Nat)} (v : ∀ m ∈ maps, MapRefB h m) {kind id : Nat}
    (vi : MapRefB h (some id)) : ∀ m ∈ setKind maps kind id, MapRefB h m := by
  intro m hm
  rcases List.mem_or_eq_of_mem_set hm with h1 | h1
  · exact v m h1
  · subst h1; exact vi

/-- the mesh `appendCopy` returns is bounded -/
theorem appendCopy_bounded (E : Env α) {h h' : Heap κ α} {m o r : MeshRep} {aLen bLen : Nat} (bm : m.Bounded h) (bo : o.Bounded h)
    (hr : appendCopy E h m o aLen bLen = some (h', r)) : r.Bounded h' := by
  unfold appendCopy at hr
  split at hr
  · cases hr
  · simp only [Option.some.injEq, Prod.mk.injEq] at hr
    obtain ⟨rfl, rfl⟩ := hr
    obtain ⟨fm, bM, _⟩ := appendMaps_refine E aLen bLen m.maps o.maps bm.2.2 bo.2.2
    generalize appendMaps E false aLen bLen h m.maps o.maps = rm at fm bM ⊢
    have bx := bm.1.frame_size fm
    have by_ := bo.1.frame_size fm
    have bu := bm.2.1.frame_size fm
    have bv := bo.2.1.frame_size fm
    obtain ⟨fA, bA, _, oA⟩ := twoAppends_refine E bx by_
    generalize goAppend E (goAppend E (rm.1.alloc (List.replicate (m.indices.len + o.indices.len) E.zero)).1
        ⟨rm.1.arrays.length, 0, 0, m.indices.len + o.indices.len⟩
        ((rm.1.alloc (List.replicate (m.indices.len + o.indices.len) E.zero)).1.read m.indices)).1 _ _ = t2
      at fA bA oA ⊢
    obtain ⟨bu2, _, _⟩ := oA _ bu
    obtain ⟨bv2, _, _⟩ := oA _ bv
    obtain ⟨fB, bB, _, oB⟩ := twoAppends_refine E bu2 bv2
    generalize goAppend E (goAppend E (t2.1.alloc (List.replicate (m.materials.len + o.materials.len) E.zero)).1
        ⟨t2.1.arrays.length, 0, 0, m.materials.len + o.materials.len⟩
        ((t2.1.alloc (List.replicate (m.materials.len + o.materials.len) E.zero)).1.read m.materials)).1 _ _ = u2
      at fB bB oB ⊢
    obtain ⟨bt2, _, _⟩ := oB _ bA
    have keep : ∀ t, BoundedS u2.1 t → BoundedS (shiftTail E u2.1 t2.2 m.indices.len aLen) t :=
      fun t bt => bt.write _ _ _
    refine ⟨keep _ bt2, keep _ bB, ?_⟩
    intro mp hmp
    have b0 := bM mp hmp
    cases mp with
    | none => trivial
    | some i =>
      refine ⟨?_, ?_⟩
      · show i < u2.1.maps.length
        exact Nat.lt_of_lt_of_le b0.1 (Nat.le_trans fA.msize_le fB.msize_le)
      · show ∀ e ∈ (u2.1.maps[i]?).getD [], _
        rw [fB.maps_eq i (Nat.lt_of_lt_of_le b0.1 fA.msize_le), fA.maps_eq i b0.1]
        intro e he
        obtain ⟨b1, _, _⟩ := oA e.2 (b0.2 e he)
        obtain ⟨b2, _, _⟩ := oB e.2 b1
        exact keep _ b2

/-- the meshes an operation of the current tree returns are bounded, and every bounded mesh stays bounded -/
theorem apply_bounded (E : Env α) {s : State κ α} (bs : s.Bounded) {op : Op κ α} (hc : op.current = true)
    {h' : Heap κ α} {rs : List MeshRep} (ha : op.apply E s = some (h', rs)) :
    (∀ r ∈ rs, r.Bounded h') ∧ ∀ r : MeshRep, r.Bounded s.heap → r.Bounded h' := by
  have fr := (apply_spec E bs.valid hc ha).1
  refine ⟨?_, fun r br => (br.frame fr).1⟩
  have old : ∀ r ∈ s.pool, r.Bounded h' := fun r hr => ((bs r hr).frame fr).1
  cases op with
  | newMesh topo idx isp mats msp attrs =>
    simp only [Op.apply, Option.some.injEq, Prod.mk.injEq] at ha
    obtain ⟨rfl, rfl⟩ := ha
    obtain ⟨f1, b1, _⟩ := allocSlice_refine (κ := κ) E s.heap idx isp
    obtain ⟨f2, b2, _⟩ := allocSlice_refine (κ := κ) E (allocSlice E s.heap idx isp).1 mats msp
    obtain ⟨f3, b3, _⟩ := allocMaps_refine E attrs (allocSlice E (allocSlice E s.heap idx isp).1 mats msp).1
    intro r hr
    simp only [List.mem_singleton] at hr
    subst hr
    exact ⟨(b1.frame_size f2).frame_size f3, b2.frame_size f3, b3⟩
  | setIndices m idx sp =>
    simp only [Op.apply, Option.bind_eq_bind, Option.bind_eq_some_iff, Option.pure_def, Option.some.injEq, Prod.mk.injEq] at ha
    obtain ⟨r, hr, rfl, rfl⟩ := ha
    obtain ⟨_, b1, _⟩ := allocSlice_refine (κ := κ) E s.heap idx sp
    have br := old r (List.mem_of_getElem? hr)
    intro x hx
    simp only [List.mem_singleton] at hx
    subst hx
    exact ⟨b1, br.2.1, br.2.2⟩
  | setMaterials m mats sp =>
    simp only [Op.apply, Option.bind_eq_bind, Option.bind_eq_some_iff, Option.pure_def, Option.some.injEq, Prod.mk.injEq] at ha
    obtain ⟨r, hr, rfl, rfl⟩ := ha
    obtain ⟨_, b1, _⟩ := allocSlice_refine (κ := κ) E s.heap mats sp
    have br := old r (List.mem_of_getElem? hr)
    intro x hx
    simp only [List.mem_singleton] at hx
    subst hx
    exact ⟨br.1, b1, br.2.2⟩
  | shareMaterials m src =>
    simp only [Op.apply, Option.bind_eq_bind, Option.bind_eq_some_iff, Option.pure_def, Option.some.injEq, Prod.mk.injEq] at ha
    obtain ⟨r, hr, q, hq, rfl, rfl⟩ := ha
    have br := old r (List.mem_of_getElem? hr)
    have bq := old q (List.mem_of_getElem? hq)
    intro x hx
    simp only [List.mem_singleton] at hx
    subst hx
    exact ⟨br.1, bq.2.1, br.2.2⟩
  | toPointCloud m pt n =>
    simp only [Op.apply, Option.bind_eq_bind, Option.bind_eq_some_iff, Option.pure_def] at ha
    obtain ⟨r, hr, ha⟩ := ha
    split at ha
    · simp only [Option.some.injEq, Prod.mk.injEq] at ha
      obtain ⟨rfl, rfl⟩ := ha
      intro x hx
      simp only [List.mem_singleton] at hx
      subst hx
      exact old x (List.mem_of_getElem? hr)
    · simp only [Option.some.injEq, Prod.mk.injEq] at ha
      obtain ⟨rfl, rfl⟩ := ha
      obtain ⟨_, b1, _⟩ := allocSlice_refine (κ := κ) E s.heap ((List.range n).map E.ident) 0
      have br := old r (List.mem_of_getElem? hr)
      intro x hx
      simp only [List.mem_singleton] at hx
      subst hx
      exact ⟨b1, br.2.1, br.2.2⟩
  | clearAttrs m =>
    simp only [Op.apply, Option.bind_eq_bind, Option.bind_eq_some_iff, Option.pure_def, Option.some.injEq, Prod.mk.injEq] at ha
    obtain ⟨r, hr, rfl, rfl⟩ := ha
    have br := old r (List.mem_of_getElem? hr)
    intro x hx
    simp only [List.mem_singleton] at hx
    subst hx
    refine ⟨br.1, br.2.1, ?_⟩
    intro mm hmm
    simp only [List.mem_map] at hmm
    obtain ⟨_, _, rfl⟩ := hmm
    trivial
  | setData m kind es =>
    simp only [Op.apply, Option.bind_eq_bind, Option.bind_eq_some_iff, Option.pure_def, Option.some.injEq, Prod.mk.injEq] at ha
    obtain ⟨r, hr, rfl, rfl⟩ := ha
    obtain ⟨_, b1, _⟩ := allocMapOf_refine E es s.heap
    have br := old r (List.mem_of_getElem? hr)
    intro x hx
    simp only [List.mem_singleton] at hx
    subst hx
    exact ⟨br.1, br.2.1, setKind_B br.2.2 b1⟩
  | setAttr m kind name data sp =>
    simp only [Op.apply, Option.bind_eq_bind, Option.bind_eq_some_iff, Option.pure_def, Option.some.injEq, Prod.mk.injEq] at ha
    obtain ⟨r, hr, rfl, rfl⟩ := ha
    have br0 := bs r (List.mem_of_getElem? hr)
    have br := old r (List.mem_of_getElem? hr)
    obtain ⟨f1, b1, _⟩ := allocSlice_refine (κ := κ) E s.heap data sp
    have bk := kind_B br0 kind
    have bes : ∀ e ∈ (if data.length = 0 then erase (insert (s.heap.mapEntries ((r.maps[kind]?).getD none)) name
          (allocSlice E s.heap data sp).2) name
        else insert (s.heap.mapEntries ((r.maps[kind]?).getD none)) name (allocSlice E s.heap data sp).2),
        BoundedS (allocSlice E s.heap data sp).1 e.2 := by
      intro e he
      have : e ∈ insert (s.heap.mapEntries ((r.maps[kind]?).getD none)) name (allocSlice E s.heap data sp).2 := by
        split at he
        · exact mem_erase he
        · exact he
      rcases mem_insert this with h1 | h1
      · exact (bk.entries e h1).frame_size f1
      · subst h1; exact b1
    obtain ⟨mb, _⟩ := allocMap_refine bes
    intro x hx
    simp only [List.mem_singleton] at hx
    subst hx
    exact ⟨br.1, br.2.1, setKind_B br.2.2 mb⟩
  | copyAttr m src kind name =>
    simp only [Op.apply, Option.bind_eq_bind, Option.bind_eq_some_iff, Option.pure_def, Option.some.injEq, Prod.mk.injEq] at ha
    obtain ⟨r, hr, q, hq, rfl, rfl⟩ := ha
    have br0 := bs r (List.mem_of_getElem? hr)
    have bq0 := bs q (List.mem_of_getElem? hq)
    have br := old r (List.mem_of_getElem? hr)
    have bk := kind_B br0 kind
    have bqk := kind_B bq0 kind
    have bd : BoundedS s.heap ((lookup (s.heap.mapEntries ((q.maps[kind]?).getD none)) name).getD Slice.nil) := by
      cases hl : lookup (s.heap.mapEntries ((q.maps[kind]?).getD none)) name with
      | none => exact nil_bounded _
      | some c =>
        obtain ⟨e, he, rfl⟩ := lookup_mem hl
        exact bqk.entries e he
    generalize (lookup (s.heap.mapEntries ((q.maps[kind]?).getD none)) name).getD Slice.nil = d at bd br ⊢
    have bes : ∀ e ∈ (if d.len = 0 then erase (insert (s.heap.mapEntries ((r.maps[kind]?).getD none)) name d) name
        else insert (s.heap.mapEntries ((r.maps[kind]?).getD none)) name d), BoundedS s.heap e.2 := by
      intro e he
      have : e ∈ insert (s.heap.mapEntries ((r.maps[kind]?).getD none)) name d := by
        split at he
        · exact mem_erase he
        · exact he
      rcases mem_insert this with h1 | h1
      · exact bk.entries e h1
      · subst h1; exact bd
    obtain ⟨mb, _⟩ := allocMap_refine bes
    intro x hx
    simp only [List.mem_singleton] at hx
    subst hx
    exact ⟨br.1, br.2.1, setKind_B br.2.2 mb⟩
  | rebuild m topo idx isp attrs mm =>
    simp only [Op.apply, Option.bind_eq_bind, Option.bind_eq_some_iff, Option.pure_def, Option.some.injEq, Prod.mk.injEq] at ha
    obtain ⟨r, hr, rfl, rfl⟩ := ha
    have br := old r (List.mem_of_getElem? hr)
    obtain ⟨f1, b1, _⟩ := allocSlice_refine (κ := κ) E s.heap idx isp
    obtain ⟨f2, b2, _⟩ := allocMaps_refine E attrs (allocSlice E s.heap idx isp).1
    intro x hx
    simp only [List.mem_singleton] at hx
    subst hx
    refine ⟨b1.frame_size f2, ?_, b2⟩
    cases mm with
    | share => exact br.2.1
    | drop => exact nil_bounded _
  | readOnly m =>
    simp only [Op.apply, Option.bind_eq_bind, Option.bind_eq_some_iff, Option.pure_def, Option.some.injEq, Prod.mk.injEq] at ha
    obtain ⟨r, hr, rfl, rfl⟩ := ha
    intro x hx
    simp at hx
  | append m o aLen bLen =>
    simp only [Op.apply, Option.bind_eq_bind, Option.bind_eq_some_iff, Option.pure_def, Option.some.injEq, Prod.mk.injEq] at ha
    obtain ⟨r, hr, q, hq, x, hx, rfl, rfl⟩ := ha
    intro y hy
    simp only [List.mem_singleton] at hy
    subst hy
    exact appendCopy_bounded E (bs r (List.mem_of_getElem? hr)) (bs q (List.mem_of_getElem? hq))
      (show appendCopy E s.heap r q aLen bLen = some (x.1, x.2) from hx)
  | appendOld m o aLen bLen => simp [Op.current] at hc

end MeshHeap
end PolyVerif
