/-
  C02 lemmas, second batch: append, setAttr / modifyAttr (all transforms), filters, crop,
  removeNullFaces, split, weld, repeat.
-/
import PolyVerif.Lemmas.MeshCorners

namespace PolyVerif.Mesh
variable {α : Type}

theorem Attrs.find?_mem {as : Attrs α} {k : AttrKey} {d : List α} (h : as.find? k = some d) : (k, d) ∈ as := by
  simp only [Attrs.find?, Option.map_eq_some_iff] at h
  obtain ⟨kd, hf, rfl⟩ := h
  have hm := List.mem_of_find?_eq_some hf
  have hp := List.find?_some hf
  have : kd.1 = k := by simpa using hp
  rw [← this]; exact hm

theorem Attrs.find?_isSome_of_mem {as : Attrs α} {kd : AttrKey × List α} (h : kd ∈ as) : (as.find? kd.1).isSome := by
  simp only [Attrs.find?, Option.isSome_map, List.find?_isSome]
  exact ⟨kd, h, by simp⟩

theorem Topology.fits_add {t : Topology} {a b : Nat} (ha : t.Fits a) (hb : t.Fits b) : t.Fits (a + b) := by
  cases t <;> simp only [Topology.Fits] at * <;> omega

theorem Topology.fits_zero (t : Topology) : t.Fits 0 := by cases t <;> simp [Topology.Fits]

namespace MeshVal

/-! ### append -/

theorem append_wf {zero : Nat → α} {a b m : MeshVal α} (ha : WF a) (hb : WF b)
    (h : append zero a b = some m) : WF m := by
  unfold append at h
  split at h
  · rename_i ht
    cases h
    apply wf_of_uniform (a.attrLen + b.attrLen)
    · intro kd hk
      simp only [appendAttrs, List.mem_append, List.mem_map, List.mem_filter] at hk
      rcases hk with ⟨kd0, hk0, rfl⟩ | ⟨kd0, ⟨hk0, _⟩, rfl⟩
      · simp only [List.length_append, ha.1 kd0 hk0]
        split
        · rename_i db hdb
          have := hb.1 _ (Attrs.find?_mem hdb)
          simp at this; omega
        · simp
      · simp [hb.1 kd0 hk0]
    · intro i hi
      simp only [List.mem_append, List.mem_map] at hi
      rcases hi with hi | ⟨j, hj, rfl⟩
      · have := ha.2.1 i hi; omega
      · have := hb.2.1 j hj; omega
    · intro hnil
      simp only [appendAttrs, List.append_eq_nil_iff, List.map_eq_nil_iff] at hnil
      have ha0 : a.attrs = [] := hnil.1
      have hb0 : b.attrs = [] := by
        have h2 := hnil.2
        rw [ha0] at h2
        apply List.eq_nil_iff_forall_not_mem.mpr
        intro kd hkd
        have := List.filter_eq_nil_iff.mp h2 kd hkd
        simp [Attrs.find?] at this
      simp [indices_nil_of_attrs_nil ha ha0, indices_nil_of_attrs_nil hb hb0]
    · simp only [List.length_append, List.length_map]
      exact Topology.fits_add ha.2.2 (ht ▸ hb.2.2)
  · cases h

/-! ### setAttr / modifyAttr: every attribute transform -/

theorem indices_nil_of_attrLen_zero {m : MeshVal α} (h : WF m) (hz : m.attrLen = 0) : m.indices = [] := by
  cases hm : m.indices with
  | nil => rfl
  | cons a t => have := h.2.1 a (by simp [hm]); omega

theorem setAttr_wf {m : MeshVal α} (h : WF m) (k : AttrKey) (data : List α)
    (hd : data.length = m.attrLen ∨ m.attrs = []) : WF (m.setAttr k data) := by
  by_cases hnil : m.attrs = []
  · have hi := indices_nil_of_attrs_nil h hnil
    have hno : m.hasAttr k = false := by simp [hasAttr, hnil, Attrs.find?]
    apply wf_of_uniform data.length
    · intro kd hk
      simp only [setAttr, hnil, hno] at hk
      split at hk <;> simp_all
    · simp [setAttr, hi]
    · intro _; simp [setAttr, hi]
    · simp only [setAttr, hi]; exact Topology.fits_zero _
  · have hlen : data.length = m.attrLen := by
      rcases hd with hd | hd
      · exact hd
      · exact absurd hd hnil
    apply wf_of_uniform m.attrLen
    · intro kd hk
      simp only [setAttr] at hk
      split at hk
      · exact h.1 kd (List.mem_filter.mp hk).1
      · split at hk
        · simp only [List.mem_map] at hk
          obtain ⟨kd0, hk0, rfl⟩ := hk
          split
          · exact hlen
          · exact h.1 kd0 hk0
        · simp only [List.mem_append, List.mem_singleton] at hk
          rcases hk with hk | rfl
          · exact h.1 kd hk
          · exact hlen
    · exact h.2.1
    · intro hres
      show m.indices = []
      by_cases hz : m.attrLen = 0
      · exact indices_nil_of_attrLen_zero h hz
      · exfalso
        have hne : data.isEmpty = false := by
          cases data with
          | nil => simp at hlen; omega
          | cons _ _ => rfl
        simp only [setAttr, hne, Bool.false_eq_true, if_false] at hres
        split at hres
        · simp at hres; exact hnil hres
        · simp at hres
    · exact h.2.2

/-- deleting a key (`SetFloatNAttribute(k, empty)`) keeps WF when another array remains or there is no index -/
theorem setAttr_delete_wf {m : MeshVal α} (h : WF m) (k : AttrKey)
    (hk : (∃ kd ∈ m.attrs, kd.1 ≠ k) ∨ m.indices = []) : WF (m.setAttr k []) := by
  apply wf_of_uniform m.attrLen
  · intro kd hkd
    simp only [setAttr, List.isEmpty_nil, if_true] at hkd
    exact h.1 kd (List.mem_filter.mp hkd).1
  · exact h.2.1
  · intro hres
    show m.indices = []
    rcases hk with ⟨kd, hkd, hne⟩ | hk
    · exfalso
      simp only [setAttr, List.isEmpty_nil, if_true] at hres
      have : kd ∈ m.attrs.filter (fun kd => kd.1 != k) := List.mem_filter.mpr ⟨hkd, by simpa using hne⟩
      rw [hres] at this; simp at this
    · exact hk
  · exact h.2.2

theorem clearAttrs_wf {m : MeshVal α} (h : WF m) (hi : m.indices = []) : WF m.clearAttrs := by
  refine ⟨by simp [clearAttrs], by simp [clearAttrs, hi], ?_⟩
  have := h.2.2; simpa [clearAttrs] using this

/-- `SetFloatNData` with arrays of the common length keeps WF, provided some array remains or there is no index -/
theorem setData_wf {m : MeshVal α} (h : WF m) (w : Nat) (new : Attrs α)
    (hnew : ∀ kd ∈ new, kd.2.length = m.attrLen)
    (hne : (m.setData w new).attrs ≠ [] ∨ m.indices = []) : WF (m.setData w new) := by
  apply wf_of_uniform m.attrLen
  · intro kd hk
    simp only [setData, List.mem_append, List.mem_filter] at hk
    rcases hk with ⟨hk, _⟩ | hk
    · exact h.1 kd hk
    · exact hnew kd hk
  · exact h.2.1
  · intro hnil
    show m.indices = []
    rcases hne with hne | hne
    · exact absurd hnil hne
    · exact hne
  · exact h.2.2

theorem modifyAttr_wf {m m' : MeshVal α} (h : WF m) {k : AttrKey} {f : List α → List α}
    (hf : ∀ d, (f d).length = d.length) (hm : m.modifyAttr k f = some m') : WF m' := by
  unfold modifyAttr at hm
  split at hm
  · cases hm
  · rename_i d hd
    cases hm
    apply setAttr_wf h
    left
    rw [hf d]
    exact h.1 _ (Attrs.find?_mem hd)

theorem mapAttr_wf {m m' : MeshVal α} (h : WF m) {k : AttrKey} {φ : α → α}
    (hm : m.mapAttr k φ = some m') : WF m' :=
  modifyAttr_wf h (fun d => by simp) hm

/-! ### filters -/

theorem filterAttr_wf {m m' : MeshVal α} (h : WF m) {k : AttrKey} {p : α → Bool}
    (hm : m.filterAttr k p = some m') : WF m' := by
  unfold filterAttr at hm
  split at hm
  · rename_i ht
    split at hm
    · cases hm
    · cases hm
      apply removeUnreferenced_wf
      refine setIndices_wf h _ (fun i hi => h.2.1 i (List.mem_filter.mp hi).1) ?_
      rw [ht]; trivial
  · cases hm

/-! ### crop -/

theorem crop_wf {m m' : MeshVal α} (h : WF m) {k : AttrKey} {inside : α → Bool}
    (hm : m.crop k inside = some m') : WF m' := by
  unfold crop at hm
  split at hm
  · split at hm
    · cases hm
    · rename_i d hd
      cases hm
      have hdl : d.length = m.attrLen := h.1 _ (Attrs.find?_mem hd)
      -- the compacted cloud before stripping, with no index at all, is WF
      have hw0 : WF ({ topology := .point, indices := [], materials := m.materials,
                       attrs := mapAttrs (compact (d.map inside)) m.attrs } : MeshVal α) := by
        apply wf_of_uniform ((d.map inside).countP id)
        · intro kd hk
          simp only [mapAttrs, List.mem_map] at hk
          obtain ⟨kd0, hk0, rfl⟩ := hk
          exact compact_length _ _ (by simp [h.1 kd0 hk0, hdl])
        · simp
        · simp
        · trivial
      have hw1 := stripEmpty_wf hw0
      refine ⟨hw1.1, ?_, trivial⟩
      intro i hi
      simpa [attrLen] using hi
  · cases hm

/-! ### removeNullFaces -/

theorem mem_untriples_filter {idx : List Nat} {q : Nat × Nat × Nat → Bool} {x : Nat}
    (h : x ∈ untriples ((triples idx).filter q)) : x ∈ idx := by
  obtain ⟨t, ht, hx⟩ := mem_untriples h
  have := mem_of_mem_triples (List.mem_filter.mp ht).1
  rcases hx with rfl | rfl | rfl <;> simp [this.1, this.2.1, this.2.2]

theorem removeNullFaces_wf {m m' : MeshVal α} (h : WF m) {k : AttrKey} {keep : Nat → Nat → Nat → Bool}
    (hm : m.removeNullFaces k keep = some m') : WF m' := by
  unfold removeNullFaces at hm
  split at hm
  · rename_i hc
    dsimp only at hm
    split at hm
    · cases hm; exact h
    · cases hm
      apply removeUnreferenced_wf
      refine setIndices_wf h _ (fun i hi => h.2.1 i (mem_untriples_filter hi)) ?_
      rw [hc.1]
      show (untriples _).length % 3 = 0
      rw [length_untriples]; omega
  · cases hm

end MeshVal
end PolyVerif.Mesh
